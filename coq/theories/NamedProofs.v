(** NamedProofs: proofs of the C17 statements of Named.v.  The parameter plumbing
    enters only through the complete descriptions of [set_params] proved for C10
    ([uni_set_spec], [bi_set_spec]) and the name lists ([uni_names_nodup], [bi_names_nodup]). *)
From LymphModel Require Import Base States Linalg Graph Transition Observation Dist Unilateral Models
  Params ParamsStatements ParamsLemmas ParamsProofs ParamsBilateral Named.
From Coq Require Import Lia.
Local Open Scope nat_scope.
Local Open Scope string_scope.
Local Open Scope list_scope.

(** * does_contain_in_order *)
Lemma dcio_nil s : does_contain_in_order s [] = true.
Proof. destruct s; reflexivity. Qed.

Lemma dcio_tail_skip s :
  (forall y i, does_contain_in_order s (y :: i) = true -> does_contain_in_order s i = true)
  /\ (forall x i, does_contain_in_order s i = true -> does_contain_in_order (x :: s) i = true).
Proof.
  induction s as [|x0 s [IHt IHs]].
  - split.
    + intros y i H. cbn in H. discriminate.
    + intros x i H. destruct i as [|z i]; [reflexivity|]. cbn in H. discriminate.
  - assert (Ht : forall y i, does_contain_in_order (x0 :: s) (y :: i) = true -> does_contain_in_order (x0 :: s) i = true).
    { intros y i H. cbn [does_contain_in_order] in H. destruct (str_eqb x0 y).
      - apply IHs, H.
      - apply IHs, (IHt _ _ H). }
    split; [exact Ht|].
    intros x i H. destruct i as [|z i]; [reflexivity|].
    cbn [does_contain_in_order]. destruct (str_eqb x z) eqn:E.
    + fold (does_contain_in_order (x0 :: s) i). apply (Ht z), H.
    + exact H.
Qed.
Lemma dcio_skip x s i : does_contain_in_order s i = true -> does_contain_in_order (x :: s) i = true.
Proof. apply dcio_tail_skip. Qed.

Theorem does_contain_in_order_spec : C17_does_contain_in_order_spec_stmt.
Proof.
  intros s i. split.
  - revert i. induction s as [|x s IH]; intros i H.
    + destruct i; [constructor | cbn in H; discriminate].
    + destruct i as [|y i]; [constructor|]. cbn [does_contain_in_order] in H.
      destruct (str_eqb x y) eqn:E.
      * apply str_eqb_eq in E. subst. apply Subseq_take, IH, H.
      * apply Subseq_skip, IH, H.
  - intros H. induction H as [s | x i s H IH | x i s H IH].
    + apply dcio_nil.
    + cbn [does_contain_in_order]. rewrite str_eqb_refl. exact IH.
    + apply dcio_skip, IH.
Qed.

Lemma Subseq_length i s : Subseq i s -> length i <= length s.
Proof. induction 1; cbn [length]; lia. Qed.
Lemma Subseq_same_length i s : Subseq i s -> length i = length s -> i = s.
Proof.
  induction 1 as [s | x i s H IH | x i s H IH]; cbn [length]; intros Hl.
  - destruct s; [reflexivity | discriminate].
  - f_equal. apply IH. lia.
  - apply Subseq_length in H. lia.
Qed.
Lemma dcio_refl k : does_contain_in_order k k = true.
Proof. induction k as [|x k IH]; [reflexivity|]. cbn [does_contain_in_order]. rewrite str_eqb_refl. exact IH. Qed.
Lemma dcio_length k n : does_contain_in_order k n = true -> length n <= length k.
Proof. intros H. apply does_contain_in_order_spec in H. apply Subseq_length, H. Qed.
Lemma dcio_same_length k n : does_contain_in_order k n = true -> length n = length k -> n = k.
Proof. intros H. apply does_contain_in_order_spec in H. apply Subseq_same_length, H. Qed.

(** * memp *)
Lemma memp_In k l : memp k l = true <-> In k l.
Proof.
  unfold memp. rewrite existsb_exists. split.
  - intros (x & Hx & E). apply path_eqb_eq in E. subst. exact Hx.
  - intros H. exists k. split; [exact H | apply path_eqb_refl].
Qed.
Lemma memp_false k l : memp k l = false <-> ~ In k l.
Proof. rewrite <- memp_In. destruct (memp k l); split; congruence. Qed.
Lemma memp_cons k a l : memp k (a :: l) = path_eqb k a || memp k l.
Proof. reflexivity. Qed.

(** * the alias map *)
Definition alias_entry (all_params : list path) (n : path) : path * list path := (n, aliases_of all_params n).

Lemma kw_get_dict_of {A} (k : path) (l : list (path * A)) : kw_get k (dict_of l) = kw_last k l.
Proof. unfold dict_of, kw_last. rewrite kw_get_update. cbn [kw_get]. destruct (kw_get k (rev l)); reflexivity. Qed.

Lemma kw_get_alias_entries all n l :
  kw_get n (map (alias_entry all) l) = if memp n l then Some (aliases_of all n) else None.
Proof.
  induction l as [|a l IH]; [reflexivity|]. cbn [map alias_entry kw_get]. rewrite memp_cons.
  destruct (path_eqb n a) eqn:E; cbn [orb].
  - apply path_eqb_eq in E. subst. reflexivity.
  - exact IH.
Qed.

Lemma create_alias_map_NoDup all named : NoDup named -> create_alias_map all named = map (alias_entry all) named.
Proof.
  intros H. unfold create_alias_map. apply dict_of_NoDup_id. rewrite map_map. cbn [fst]. rewrite map_id. exact H.
Qed.

Lemma in_aliases_of all n p : In p (aliases_of all n) <-> In p all /\ does_contain_in_order p n = true.
Proof. unfold aliases_of. rewrite filter_In. reflexivity. Qed.

Theorem alias_map_spec : C17_alias_map_spec_stmt.
Proof.
  intros all named. split; [apply dict_of_NoDup|]. split; [|split; [|split]].
  - intros H. rewrite create_alias_map_NoDup by exact H. rewrite map_map. cbn [alias_entry fst]. apply map_id.
  - intros n. unfold create_alias_map. rewrite kw_get_dict_of. unfold kw_last. rewrite <- map_rev.
    change (fun n0 => (n0, aliases_of all n0)) with (alias_entry all). rewrite kw_get_alias_entries.
    destruct (memp n (rev named)) eqn:E1, (memp n named) eqn:E2; try reflexivity.
    + apply memp_In in E1. apply in_rev in E1. apply memp_In in E1. congruence.
    + apply memp_In in E2. apply in_rev in E2. apply memp_In in E2. congruence.
  - intros n p. rewrite in_aliases_of. rewrite (does_contain_in_order_spec p n). reflexivity.
  - intros n. eexists. reflexivity.
Qed.

Theorem reverse_alias_map_spec : C17_reverse_alias_map_spec_stmt.
Proof.
  intros aliases p n H. unfold reverse_alias_map in H. rewrite kw_get_dict_of in H. unfold kw_last in H.
  apply kw_get_Some_In in H. apply in_rev in H. apply in_flat_map in H. destruct H as ([n' l] & Hin & H).
  cbn [fst snd] in H. apply in_map_iff in H. destruct H as (a & E & Ha). injection E as -> ->.
  exists l. split; assumption.
Qed.

(** * the value a declared name receives *)
Lemma combine_keys_In {A B} (l : list A) (a : list B) x : In x (map fst (combine l a)) -> In x l.
Proof. intros H. apply in_map_iff in H. destruct H as ([x' y] & <- & H). apply in_combine_l in H. exact H. Qed.
Lemma combine_keys_NoDup {A B} (l : list A) (a : list B) : NoDup l -> NoDup (map fst (combine l a)).
Proof.
  revert a. induction l as [|x l IH]; intros a H; [constructor|]. destruct a as [|y a]; [constructor|].
  cbn [combine map fst]. inversion H as [|? ? Hni Hnd]; subst. constructor.
  - intros Hin. apply Hni. apply (combine_keys_In _ _ _ Hin).
  - apply IH, Hnd.
Qed.
Lemma nth_error_combine {A B} (l : list A) (a : list B) i x y :
  nth_error l i = Some x -> nth_error a i = Some y -> In (x, y) (combine l a).
Proof.
  revert l a. induction i as [|i IH]; intros [|x' l] [|y' a]; cbn; try discriminate.
  - intros [= ->] [= ->]. left. reflexivity.
  - intros H1 H2. right. apply IH; assumption.
Qed.

Theorem assigned_positional : C17_assigned_positional_stmt.
Proof.
  intros named a kw i n v Hnd Hn Hv. unfold assigned. destruct (kw_last n kw); [reflexivity|].
  rewrite kw_last_NoDup by (apply combine_keys_NoDup, Hnd).
  apply kw_get_NoDup_In; [apply combine_keys_NoDup, Hnd | apply (nth_error_combine _ _ i); assumption].
Qed.

Lemma kw_last_Some_key {A} k (kw : list (path * A)) v : kw_last k kw = Some v -> In k (map fst kw).
Proof.
  unfold kw_last. intros H. apply kw_get_Some_In in H. apply in_rev in H.
  apply in_map_iff. exists (k, v). split; [reflexivity | exact H].
Qed.
Theorem assigned_none : C17_assigned_none_stmt.
Proof.
  intros named a kw n H. unfold assigned in H. destruct (kw_last n kw) eqn:E1.
  - right. apply (kw_last_Some_key _ _ _ E1).
  - destruct (kw_last n (combine named a)) eqn:E2; [|congruence].
    left. apply kw_last_Some_key in E2. apply (combine_keys_In _ _ _ E2).
Qed.

Lemma named_kwargs_NoDup named a kw : NoDup (map fst (named_kwargs named a kw)).
Proof. unfold named_kwargs. apply kw_update_NoDup, dict_of_NoDup. Qed.
Lemma named_kwargs_last named a kw c : kw_last c (named_kwargs named a kw) = assigned named a kw c.
Proof.
  rewrite kw_last_NoDup by apply named_kwargs_NoDup. unfold named_kwargs, assigned.
  rewrite kw_get_update. fold (kw_last c kw). rewrite kw_get_dict_of. reflexivity.
Qed.

(** * first_some *)
Lemma first_some_ext {A B} (f g : A -> option B) l : (forall a, In a l -> f a = g a) -> first_some f l = first_some g l.
Proof.
  induction l as [|a l IH]; intros H; [reflexivity|]. cbn [first_some]. rewrite (H a) by (left; reflexivity).
  destruct (g a); [reflexivity|]. apply IH. intros a' Ha'. apply H. right. exact Ha'.
Qed.
Lemma first_some_app {A B} (f : A -> option B) l1 l2 :
  first_some f (l1 ++ l2) = match first_some f l1 with Some v => Some v | None => first_some f l2 end.
Proof. induction l1 as [|a l1 IH]; [reflexivity|]. cbn [app first_some]. destruct (f a); [reflexivity | exact IH]. Qed.
Lemma first_some_None {A B} (f : A -> option B) l : (forall a, In a l -> f a = None) -> first_some f l = None.
Proof.
  induction l as [|a l IH]; intros H; [reflexivity|]. cbn [first_some]. rewrite (H a) by (left; reflexivity).
  apply IH. intros a' Ha'. apply H. right. exact Ha'.
Qed.
Lemma first_some_split {A B} (f : A -> option B) l v :
  first_some f l = Some v -> exists l1 w l2, l = l1 ++ w :: l2 /\ f w = Some v /\ forall c, In c l1 -> f c = None.
Proof.
  induction l as [|a l IH]; cbn [first_some]; [discriminate|]. destruct (f a) eqn:E.
  - intros [= ->]. exists [], a, l. repeat split; [exact E | intros c []].
  - intros H. destruct (IH H) as (l1 & w & l2 & -> & Hw & Hl1). exists (a :: l1), w, l2. repeat split; [exact Hw|].
    intros c [<-|Hc]; [exact E | apply Hl1, Hc].
Qed.
Lemma first_some_exists {A B} (f : A -> option B) l a : In a l -> f a <> None -> exists v, first_some f l = Some v.
Proof.
  induction l as [|a' l IH]; intros Hin Hf; [destruct Hin|]. cbn [first_some]. destruct (f a') eqn:E; [eauto|].
  destruct Hin as [->|Hin]; [congruence|]. apply IH; assumption.
Qed.

(** * the keywords set_params looks up *)
Lemma opt_eta {A} (o : option A) : match o with Some v => Some v | None => None end = o.
Proof. destruct o; reflexivity. Qed.
Lemma u_lk_cands kw k : u_lk kw k = first_some (fun c => kw_last c kw) (u_cands k).
Proof. destruct k as [|o t]; [reflexivity|]. cbn [u_lk u_cands first_some]. rewrite opt_eta. reflexivity. Qed.
Lemma eff_cands_spec X kw name t : eff X kw name t = first_some (fun c => kw_last c kw) (eff_cands X name t).
Proof.
  unfold eff, eff_cands. cbn [first_some]. destruct (kw_last (name :: t) kw); [reflexivity|].
  destruct (mem (head_of t) X); cbn [first_some]; [reflexivity | rewrite opt_eta; reflexivity].
Qed.
Lemma side_lk_cands side kw k : side_lk side kw k = first_some (fun c => kw_last c kw) (side_cands side k).
Proof.
  destruct k as [|o t]; [reflexivity|]. cbn [side_lk side_cands]. rewrite first_some_app, <- !eff_cands_spec. reflexivity.
Qed.
Lemma b_lk_cands kw k : b_lk kw k = first_some (fun c => kw_last c kw) (b_cands k).
Proof.
  destruct k as [|h t]; [reflexivity|]. cbn [b_lk b_cands].
  destruct (String.eqb h "ipsi"); [apply side_lk_cands|]. destruct (String.eqb h "contra"); apply side_lk_cands.
Qed.

Fixpoint desc_len (l : list path) : Prop :=
  match l with [] => True | a :: r => (forall b, In b r -> length b <= length a) /\ desc_len r end.
Lemma desc_len_app l1 w l2 : desc_len (l1 ++ w :: l2) -> forall b, In b l2 -> length b <= length w.
Proof. induction l1 as [|a l1 IH]; cbn [app desc_len]; intros [H1 H2]; [exact H1 | apply IH, H2]. Qed.
Lemma u_cands_desc k : desc_len (u_cands k).
Proof.
  destruct k as [|o t]; cbn [u_cands desc_len]; [exact I|]. repeat split.
  - intros b [<-|[]]. cbn [length]. lia.
  - intros b [].
Qed.
Lemma side_cands_desc side k : desc_len (side_cands side k).
Proof.
  destruct k as [|o t]; cbn [side_cands]; [exact I|]. unfold eff_cands.
  destruct (mem (head_of (o :: t)) sides), (mem (head_of t) sides); cbn [app desc_len In length];
    repeat split; intros b Hb; repeat (destruct Hb as [<-|Hb]; [cbn [length]; lia|]); destruct Hb.
Qed.
Lemma b_cands_desc k : desc_len (b_cands k).
Proof.
  destruct k as [|h t]; [exact I|]. cbn [b_cands].
  destruct (String.eqb h "ipsi"); [apply side_cands_desc|]. destruct (String.eqb h "contra"); apply side_cands_desc.
Qed.
Lemma cands_desc m k : desc_len (cands m k).
Proof. destruct m; cbn [cands]; [apply u_cands_desc | apply b_cands_desc | exact I | exact I]. Qed.

(** * keyword semantics of set_params( **kw), per class *)
Definition kw_sem (cnd : path -> list path) (its its' : list (path * Qc)) (np : kwargs) : Prop :=
  map fst its' = map fst its /\
  forall k old, In (k, old) its ->
    match first_some (fun c => kw_last c np) (cnd k) with
    | Some v => exists q, v = V q /\ kw_get k its' = Some q
    | None => kw_get k its' = Some old
    end.

Lemma plan_nil_In lk ps : forall qs k old, plan lk ps [] = vals qs -> In (k, old) ps ->
  exists q, In (k, q) (combine (map fst ps) qs) /\ V q = pick (lk k) None old.
Proof.
  induction ps as [|[k0 old0] ps IH]; intros qs k old Hp Hin; [destruct Hin|].
  cbn [plan hd_error tl] in Hp. destruct qs as [|q0 qs]; [discriminate|]. cbn [vals map] in Hp.
  injection Hp as Hq Hp. cbn [map fst combine]. destruct Hin as [E|Hin].
  - injection E as -> ->. exists q0. split; [left; reflexivity | symmetry; exact Hq].
  - destruct (IH qs k old Hp Hin) as (q & H1 & H2). exists q. split; [right; exact H1 | exact H2].
Qed.

Lemma kw_sem_of_plan cnd lk (its order : list (path * Qc)) its' kw qs :
  (forall k, lk k = first_some (fun c => kw_last c kw) (cnd k)) ->
  (forall x, In x its -> In x order) ->
  plan lk order [] = vals qs ->
  map fst its' = map fst its ->
  (forall k q, In (k, q) (combine (map fst order) qs) -> kw_get k its' = Some q) ->
  kw_sem cnd its its' kw.
Proof.
  intros Hlk Hsub Hplan Hnames Hget. split; [exact Hnames|]. intros k old Hin.
  destruct (plan_nil_In lk order qs k old Hplan (Hsub _ Hin)) as (q & Hq & Hv).
  rewrite <- Hlk. unfold pick, val_or in Hv. destruct (lk k) as [v|].
  - exists q. split; [symmetry; exact Hv | apply Hget, Hq].
  - injection Hv as ->. apply Hget, Hq.
Qed.

Lemma u_kw_sem u kw u' rest : u_names_ok u = true -> u_set_params u [] kw = (u', Some rest) ->
  kw_sem u_cands (u_got u) (u_got u') kw /\ u_names_ok u' = true.
Proof.
  intros H Hset. pose proof (uni_set_spec u [] kw H) as Hs. cbv zeta in Hs. rewrite Hset in Hs. cbn [fst snd] in Hs.
  destruct (u_accepts u (u_new u [] kw)); [|discriminate]. destruct Hs as (qs & Hq & _ & Hgot & Hok & _).
  split; [|exact Hok]. rewrite (u_got_spec u H).
  assert (Hlen : length (u_names u) = length qs).
  { apply (f_equal (@length _)) in Hq. unfold u_new in Hq. rewrite plan_length, vals_length in Hq. unfold u_names. rewrite map_length. exact Hq. }
  apply (kw_sem_of_plan u_cands (u_lk kw) (u_items u) (u_items u) _ kw qs).
  - intros k. apply u_lk_cands.
  - auto.
  - exact Hq.
  - rewrite Hgot. apply map_fst_combine, Hlen.
  - intros k q Hin. rewrite Hgot. apply kw_get_NoDup_In; [|exact Hin].
    rewrite map_fst_combine by exact Hlen. apply u_names_NoDup, H.
Qed.

Lemma b_items_set_order b x : In x (b_items b) -> In x (b_set_order b).
Proof.
  unfold b_set_order, b_items. cbv zeta. destruct (b_symT b), (b_symL b); try (intros H; exact H).
  rewrite !pre_app, !in_app_iff. tauto.
Qed.

Lemma b_kw_sem b kw b' rest : b_names_ok b = true -> b_set_params b [] kw = (b', Some rest) ->
  kw_sem b_cands (b_got b) (b_got b') kw /\ b_names_ok b' = true.
Proof.
  intros H Hset. pose proof (bi_set_spec b [] kw H) as Hs. cbv zeta in Hs. rewrite Hset in Hs. cbn [fst snd] in Hs.
  destruct (b_accepts b [] kw); [|discriminate]. destruct Hs as (qs & Hq & _ & Hnames & Hget & Hok).
  split; [|exact Hok]. destruct (bi_names_nodup b H) as [Hgot _]. rewrite Hgot.
  apply (kw_sem_of_plan b_cands (b_lk kw) (b_items b) (b_set_order b) _ kw qs).
  - intros k. apply b_lk_cands.
  - apply b_items_set_order.
  - exact Hq.
  - exact Hnames.
  - exact Hget.
Qed.

Lemma model_kw_sem m kw m' rest its : covered m = true -> param_items m = Some its ->
  set_params m [] kw = (m', Some rest) ->
  covered m' = true /\ exists its', param_items m' = Some its' /\ kw_sem (cands m) its its' kw.
Proof.
  intros Hc Hits Hset. destruct m as [u|b|ml|h]; cbn [covered] in Hc; try discriminate.
  - cbn [set_params] in Hset. destruct (u_set_params u [] kw) as [u' o] eqn:E. injection Hset as <- ->.
    destruct (u_kw_sem u kw u' rest Hc E) as [Hsem Hok]. split; [exact Hok|].
    exists (u_got u'). split; [reflexivity|]. cbn in Hits. injection Hits as <-. exact Hsem.
  - cbn [set_params] in Hset. destruct (b_set_params b [] kw) as [b' o] eqn:E. injection Hset as <- ->.
    destruct (b_kw_sem b kw b' rest Hc E) as [Hsem Hok]. split; [exact Hok|].
    exists (b_got b'). split; [reflexivity|]. cbn in Hits. injection Hits as <-. exact Hsem.
Qed.

(** * set_named_params *)
Lemma param_names_items m its : param_items m = Some its -> param_names m = Some (map fst its).
Proof. intros H. unfold param_names. rewrite H. reflexivity. Qed.

Lemma set_named_inv m named a kw s' its :
  param_items m = Some its ->
  set_named_params (mk_nstate m (Some named)) a kw = (s', inr tt) ->
  forallb (fun k => memp k named) (map fst kw) = true /\
  exists m' rest, set_params m [] (named_kwargs named a kw) = (m', Some rest) /\ s' = mk_nstate m' (Some named).
Proof.
  intros Hits H. unfold set_named_params, named_params in H. cbn [ns_model ns_named mk_nstate] in H.
  rewrite (param_names_items m its Hits) in H.
  destruct (forallb (fun k => memp k named) (map fst kw)); [|discriminate]. split; [reflexivity|].
  destruct (set_params m [] (named_kwargs named a kw)) as [m' o] eqn:E. cbn [fst snd] in H.
  destruct o as [rest|]; [|discriminate]. injection H as <-. exists m', rest. split; reflexivity.
Qed.

Theorem set_named_spec : C17_set_named_spec_stmt.
Proof.
  intros m named a kw s' its Hc Hits H.
  destruct (set_named_inv m named a kw s' its Hits H) as (_ & m' & rest & Hset & ->). cbn [ns_named ns_model mk_nstate].
  destruct (model_kw_sem m _ m' rest its Hc Hits Hset) as (Hc' & its' & Hits' & Hn & Hsem).
  split; [reflexivity|]. split; [exact Hc'|]. exists its'. split; [exact Hits'|]. split; [exact Hn|].
  intros k old Hin. specialize (Hsem k old Hin).
  rewrite (first_some_ext (fun c => kw_last c (named_kwargs named a kw)) (assigned named a kw)) in Hsem
    by (intros c _; apply named_kwargs_last).
  exact Hsem.
Qed.

Lemma names_consistent_spec m names named : names_consistent m names named = true ->
  forall n k, In n named -> In k names -> does_contain_in_order k n = memp n (cands m k).
Proof.
  unfold names_consistent. intros H n k Hn Hk. rewrite forallb_forall in H. specialize (H n Hn).
  rewrite forallb_forall in H. specialize (H k Hk). apply Bool.eqb_prop in H. exact H.
Qed.

Lemma assigned_declared named a kw c :
  forallb (fun k => memp k named) (map fst kw) = true -> assigned named a kw c <> None -> In c named.
Proof.
  intros Hf H. destruct (assigned_none named a kw c H) as [Hin|Hin]; [exact Hin|].
  rewrite forallb_forall in Hf. apply memp_In, Hf, Hin.
Qed.

Theorem set_named_positional : C17_set_named_positional_stmt.
Proof.
  intros m named a kw s' its Hc Hits Hcons H.
  destruct (set_named_inv m named a kw s' its Hits H) as (Hf & _).
  destruct (set_named_spec m named a kw s' its Hc Hits H) as (Hn & _ & its' & Hits' & Hnames & Hsem).
  split; [exact Hn|]. exists its'. split; [exact Hits'|]. split; [exact Hnames|].
  intros k old Hin. specialize (Hsem k old Hin).
  assert (Hk : In k (map fst its)) by (apply in_map_iff; exists (k, old); split; [reflexivity | exact Hin]).
  pose proof (names_consistent_spec m _ _ Hcons) as Hcs.
  split.
  - intros Hnone. rewrite first_some_None in Hsem; [exact Hsem|].
    intros c Hcin. destruct (assigned named a kw c) eqn:E; [|reflexivity]. exfalso.
    assert (Hd : In c named) by (apply (assigned_declared named a kw c Hf); congruence).
    assert (Hm : does_contain_in_order k c = true) by (rewrite (Hcs c k Hd Hk); apply memp_In, Hcin).
    rewrite (Hnone c Hd Hm) in E. discriminate.
  - intros n Hnd Hm Ha.
    assert (Hnc : In n (cands m k)) by (apply memp_In; rewrite <- (Hcs n k Hnd Hk); exact Hm).
    destruct (first_some_exists (assigned named a kw) _ n Hnc Ha) as (v & Hv). rewrite Hv in Hsem.
    destruct Hsem as (q & -> & Hget).
    destruct (first_some_split _ _ _ Hv) as (l1 & w & l2 & Hl & Hw & Hl1).
    assert (Hwd : In w named) by (apply (assigned_declared named a kw w Hf); congruence).
    assert (Hwc : In w (cands m k)) by (rewrite Hl; apply in_or_app; right; left; reflexivity).
    exists w, q. split; [exact Hwd|]. split; [rewrite (Hcs w k Hwd Hk); apply memp_In, Hwc|].
    split; [exact Hw|]. split; [exact Hget|].
    intros n' Hn'd Hn'm Hn'a.
    assert (Hn'c : In n' (cands m k)) by (apply memp_In; rewrite <- (Hcs n' k Hn'd Hk); exact Hn'm).
    rewrite Hl in Hn'c. apply in_app_or in Hn'c. destruct Hn'c as [Hin1|[<-|Hin2]].
    + exfalso. apply Hn'a, Hl1, Hin1.
    + lia.
    + pose proof (cands_desc m k) as Hd. rewrite Hl in Hd. apply (desc_len_app _ _ _ Hd _ Hin2).
Qed.

Lemma first_some_single n v l :
  first_some (fun c : path => if path_eqb c n then Some v else @None val) l = if memp n l then Some v else None.
Proof.
  induction l as [|c l IH]; [reflexivity|]. cbn [first_some]. rewrite memp_cons, (path_eqb_sym n c).
  destruct (path_eqb c n); [reflexivity | exact IH].
Qed.
Lemma assigned_single n v c : assigned [n] [v] [] c = if path_eqb c n then Some v else None.
Proof. reflexivity. Qed.

Theorem global_name_addresses_all_matches : C17_global_name_addresses_all_matches_stmt.
Proof.
  intros m n v s' its Hc Hits Hcons (k0 & Hk0 & Hm0) H.
  destruct (set_named_spec m [n] [v] [] s' its Hc Hits H) as (_ & _ & its' & Hits' & Hnames & Hsem).
  pose proof (names_consistent_spec m _ _ Hcons) as Hcs.
  assert (Hfs : forall k, In k (map fst its) ->
            first_some (assigned [n] [v] []) (cands m k) = if does_contain_in_order k n then Some v else None).
  { intros k Hk. rewrite (first_some_ext _ (fun c => if path_eqb c n then Some v else None)) by (intros; apply assigned_single).
    rewrite first_some_single, (Hcs n k (or_introl eq_refl) Hk). reflexivity. }
  assert (Hq : exists q, v = V q).
  { apply in_map_iff in Hk0. destruct Hk0 as ([k0' old0] & <- & Hin0). specialize (Hsem _ _ Hin0).
    rewrite Hfs in Hsem by (apply in_map_iff; exists (k0', old0); split; [reflexivity | exact Hin0]).
    cbn [fst] in Hm0. rewrite Hm0 in Hsem. destruct Hsem as (q & -> & _). eauto. }
  destruct Hq as (q & ->). exists q, its'. split; [reflexivity|]. split; [exact Hits'|]. split; [exact Hnames|].
  intros k old Hin. specialize (Hsem _ _ Hin).
  rewrite Hfs in Hsem by (apply in_map_iff; exists (k, old); split; [reflexivity | exact Hin]).
  destruct (does_contain_in_order k n); [|exact Hsem]. destruct Hsem as (q' & [= <-] & Hget). exact Hget.
Qed.

(** * ExtraParamsError vs ValueError *)
Theorem extra_keyword_raises : C17_extra_keyword_raises_stmt.
Proof.
  intros s a kw names k Hnp Hin Hni.
  assert (E : forallb (fun k => memp k names) (map fst kw) = false).
  { destruct (forallb (fun k => memp k names) (map fst kw)) eqn:E; [|reflexivity]. exfalso.
    rewrite forallb_forall in E. apply Hni, memp_In, E, Hin. }
  assert (H1 : forall a', set_named_params s a' kw = (s, inl ExtraParamsError)).
  { intros a'. unfold set_named_params. rewrite Hnp, E. reflexivity. }
  split; [apply H1|]. split; [apply H1|]. split; [|discriminate].
  unfold likelihood_outcome, safe_set_params. rewrite H1. reflexivity.
Qed.

Theorem value_error_is_minus_inf : C17_value_error_is_minus_inf_stmt.
Proof. intros s g s' H. unfold likelihood_outcome. rewrite H. reflexivity. Qed.

(** * ownership *)
Definition step' (cur : option path) (n : path) : option path :=
  match cur with
  | None => Some n
  | Some c => if Nat.leb (length c) (length n) then Some n else Some c
  end.
Lemma step'_idem cur n : step' (step' cur n) n = step' cur n.
Proof.
  unfold step'. destruct cur as [c|].
  - destruct (Nat.leb (length c) (length n)) eqn:E; [rewrite Nat.leb_refl; reflexivity | rewrite E; reflexivity].
  - rewrite Nat.leb_refl. reflexivity.
Qed.
Lemma owner_step_get name ow p0 p :
  kw_get p (owner_step name ow p0) = if path_eqb p p0 then step' (kw_get p0 ow) name else kw_get p ow.
Proof.
  unfold owner_step, step'. destruct (path_eqb p p0) eqn:E.
  - apply path_eqb_eq in E. subst p0. destruct (kw_get p ow) as [c|] eqn:Ec.
    + destruct (Nat.leb (length c) (length name)); [apply kw_get_set_same | exact Ec].
    + apply kw_get_set_same.
  - assert (Hne : p <> p0) by (intros ->; rewrite path_eqb_refl in E; discriminate).
    destruct (kw_get p0 ow) as [c|].
    + destruct (Nat.leb (length c) (length name)); [apply kw_get_set_other, Hne | reflexivity].
    + apply kw_get_set_other, Hne.
Qed.
Lemma owner_inner_get name params : forall ow p,
  kw_get p (fold_left (owner_step name) params ow) = if memp p params then step' (kw_get p ow) name else kw_get p ow.
Proof.
  induction params as [|p0 params IH]; intros ow p; [reflexivity|]. cbn [fold_left]. rewrite IH, memp_cons, owner_step_get.
  destruct (path_eqb p p0) eqn:E; cbn [orb].
  - apply path_eqb_eq in E. subst p0. destruct (memp p params); [apply step'_idem | reflexivity].
  - reflexivity.
Qed.
(** the owner of [p] after the declared names [named] have been processed *)
Definition own_fold (all : list path) (p : path) (named : list path) (cur : option path) : option path :=
  fold_left (fun cur n => if memp p (aliases_of all n) then step' cur n else cur) named cur.
Lemma owners_get_gen all p named : forall ow,
  kw_get p (fold_left (fun ow np => fold_left (owner_step (fst np)) (snd np) ow) (map (alias_entry all) named) ow)
  = own_fold all p named (kw_get p ow).
Proof.
  induction named as [|n named IH]; intros ow; [reflexivity|]. cbn [map fold_left own_fold alias_entry fst snd].
  rewrite IH. cbn [alias_entry fst snd]. rewrite owner_inner_get. reflexivity.
Qed.
Lemma owners_get all p named : kw_get p (owners (map (alias_entry all) named)) = own_fold all p named None.
Proof. unfold owners. rewrite owners_get_gen. reflexivity. Qed.

Lemma memp_aliases all p n : In p all -> memp p (aliases_of all n) = does_contain_in_order p n.
Proof.
  intros Hp. destruct (does_contain_in_order p n) eqn:E.
  - apply memp_In, in_aliases_of. split; assumption.
  - apply memp_false. rewrite in_aliases_of. intros [_ H]. congruence.
Qed.

Lemma own_fold_cons all p n0 named cur :
  own_fold all p (n0 :: named) cur = own_fold all p named (if memp p (aliases_of all n0) then step' cur n0 else cur).
Proof. reflexivity. Qed.

(** the result of the fold: a declared name matching [p], at least as long as [cur] and
    as every declared name matching [p] *)
Lemma own_fold_spec all p (Hp : In p all) named : forall cur,
  let r := own_fold all p named cur in
  (r = cur \/ exists n, r = Some n /\ In n named /\ does_contain_in_order p n = true)
  /\ (forall c, cur = Some c -> exists w, r = Some w /\ length c <= length w)
  /\ (forall n, In n named -> does_contain_in_order p n = true -> exists w, r = Some w /\ length n <= length w).
Proof.
  induction named as [|n0 named IH]; intros cur; cbn zeta.
  - cbn [own_fold fold_left]. split; [left; reflexivity|]. split; [intros c ->; exists c; split; [reflexivity | lia] | intros n []].
  - rewrite own_fold_cons, (memp_aliases all p n0 Hp).
    destruct (does_contain_in_order p n0) eqn:E.
    + destruct (IH (step' cur n0)) as (H1 & H2 & H3). cbv zeta in H1, H2, H3.
      assert (Hs : exists w0, step' cur n0 = Some w0 /\ length n0 <= length w0 /\ (forall c, cur = Some c -> length c <= length w0)
                              /\ (w0 = n0 \/ cur = Some w0)).
      { unfold step'. destruct cur as [c|].
        - destruct (Nat.leb (length c) (length n0)) eqn:El.
          + apply Nat.leb_le in El. exists n0. repeat split; [lia | intros c' [= <-]; lia | left; reflexivity].
          + apply Nat.leb_gt in El. exists c. repeat split; [lia | intros c' [= <-]; lia | right; reflexivity].
        - exists n0. repeat split; [lia | intros c' [=] | left; reflexivity]. }
      destruct Hs as (w0 & Hw0 & Hl0 & Hc0 & Hor). destruct (H2 w0 Hw0) as (w & Hw & Hlw).
      split; [|split].
      * destruct H1 as [H1|(n & Hn & Hin & Hm)].
        -- destruct Hor as [->|Hcur].
           ++ right. exists n0. split; [rewrite H1; exact Hw0|]. split; [left; reflexivity | exact E].
           ++ left. rewrite H1, Hw0. symmetry. exact Hcur.
        -- right. exists n. split; [exact Hn|]. split; [right; exact Hin | exact Hm].
      * intros c Hc. exists w. split; [exact Hw|]. specialize (Hc0 c Hc). lia.
      * intros n [<-|Hin] Hm; [exists w; split; [exact Hw | lia]|]. apply H3; assumption.
    + destruct (IH cur) as (H1 & H2 & H3). cbv zeta in H1, H2, H3. split; [|split].
      * destruct H1 as [H1|(n & Hn & Hin & Hm)]; [left; exact H1|]. right. exists n. split; [exact Hn|]. split; [right; exact Hin | exact Hm].
      * exact H2.
      * intros n [<-|Hin] Hm; [congruence|]. apply H3; assumption.
Qed.

(** the owner is a declared name that matches and no matching declared name is longer *)
Lemma owner_max all p named w : In p all -> own_fold all p named None = Some w ->
  In w named /\ does_contain_in_order p w = true /\
  forall n, In n named -> does_contain_in_order p n = true -> length n <= length w.
Proof.
  intros Hp Hw. destruct (own_fold_spec all p Hp named None) as (H1 & _ & H3). cbv zeta in H1, H3. rewrite Hw in H1, H3.
  destruct H1 as [H1|(n & [= <-] & Hin & Hm)]; [discriminate|]. split; [exact Hin|]. split; [exact Hm|].
  intros n Hn Hnm. destruct (H3 n Hn Hnm) as (w' & [= <-] & Hl). exact Hl.
Qed.
Lemma owner_exists all p named n : In p all -> In n named -> does_contain_in_order p n = true ->
  exists w, own_fold all p named None = Some w.
Proof.
  intros Hp Hn Hm. destruct (own_fold_spec all p Hp named None) as (_ & _ & H3). cbv zeta in H3.
  destruct (H3 n Hn Hm) as (w & Hw & _). eauto.
Qed.

(** * get_named_params *)
Lemma last_opt_In {A} (l : list A) : l <> [] -> exists a, last_opt l = Some a /\ In a l.
Proof.
  induction l as [|a l IH]; [congruence|]. intros _. destruct l as [|b l].
  - exists a. split; [reflexivity | left; reflexivity].
  - destruct IH as (x & Hx & Hin); [discriminate|]. exists x. split; [exact Hx | right; exact Hin].
Qed.
Lemma owned_by_sub ow n params p : In p (owned_by ow n params) -> In p params.
Proof. unfold owned_by. intros H. apply filter_In in H. apply H. Qed.
Lemma read_param_In ow n params : params <> [] -> exists p, read_param ow (n, params) = Some p /\ In p params.
Proof.
  intros Hne. unfold read_param. cbn [fst snd]. destruct (owned_by ow n params) as [|p0 l] eqn:E.
  - apply last_opt_In, Hne.
  - destruct (last_opt_In (p0 :: l)) as (p & Hp & Hin); [discriminate|]. exists p. split; [exact Hp|].
    apply (owned_by_sub ow n). rewrite E. exact Hin.
Qed.
Lemma read_param_owned ow n params : owned_by ow n params <> [] ->
  exists p, read_param ow (n, params) = Some p /\ In p params /\ kw_get p ow = Some n.
Proof.
  intros Hne. unfold read_param. cbn [fst snd]. destruct (owned_by ow n params) as [|p0 l] eqn:E; [congruence|].
  destruct (last_opt_In (p0 :: l)) as (p & Hp & Hin); [discriminate|]. exists p. split; [exact Hp|].
  rewrite <- E in Hin. unfold owned_by in Hin. apply filter_In in Hin. destruct Hin as [Hin Ho]. split; [exact Hin|].
  destruct (kw_get p ow) as [o|]; [|discriminate]. apply path_eqb_eq in Ho. subst. reflexivity.
Qed.

Lemma kw_get_In_Some {A} k (d : list (path * A)) : In k (map fst d) -> exists v, kw_get k d = Some v.
Proof. intros H. destruct (kw_get k d) eqn:E; [eauto|]. apply kw_get_In_None in E. contradiction. Qed.

Lemma flat_map_singletons {A B} (h : A -> list B) (h' : A -> B) l :
  (forall x, In x l -> h x = [h' x]) -> flat_map h l = map h' l.
Proof.
  induction l as [|x l IH]; intros H; [reflexivity|]. cbn [flat_map map]. rewrite (H x) by (left; reflexivity).
  rewrite IH by (intros y Hy; apply H; right; exact Hy). reflexivity.
Qed.

Theorem num_dims_is_declared_count : C17_num_dims_is_declared_count_stmt.
Proof.
  intros m named its Hits Hnd Hmatch.
  assert (Hg : exists l, get_named_params (mk_nstate m (Some named)) = inr l /\ map fst l = named).
  { unfold get_named_params, named_params. cbn [ns_model ns_named mk_nstate]. rewrite Hits, (param_names_items m its Hits).
    eexists. split; [reflexivity|]. unfold get_named_items. cbv zeta.
    rewrite create_alias_map_NoDup by exact Hnd. set (ow := owners _).
    assert (Hent : forall n, In n named -> exists v, named_entry its ow (alias_entry (map fst its) n) = [(n, v)]).
    { intros n Hn. unfold each_matches in Hmatch. rewrite forallb_forall in Hmatch. specialize (Hmatch n Hn).
      apply existsb_exists in Hmatch. destruct Hmatch as (k & Hk & Hm).
      assert (Hne : aliases_of (map fst its) n <> []).
      { intros E. assert (Hin : In k (aliases_of (map fst its) n)) by (apply in_aliases_of; split; assumption).
        rewrite E in Hin. destruct Hin. }
      destruct (read_param_In ow n _ Hne) as (p & Hp & Hin). apply in_aliases_of in Hin. destruct Hin as [Hin _].
      destruct (kw_get_In_Some p its Hin) as (v & Hv). exists v. unfold named_entry, alias_entry. rewrite Hp. cbn [fst]. rewrite Hv.
      reflexivity. }
    clear Hmatch Hnd. clearbody ow. induction named as [|n named IH]; [reflexivity|]. cbn [map flat_map].
    destruct (Hent n (or_introl eq_refl)) as (v & ->). cbn [app map fst]. f_equal. apply IH. intros n' Hn'. apply Hent. right. exact Hn'. }
  destruct Hg as (l & Hl & Hfst). split; [|exists l; split; assumption].
  unfold get_num_dims. rewrite Hl. rewrite <- Hfst, map_length. reflexivity.
Qed.

(** the default declaration: every parameter owns itself *)
Lemma default_owner names k : NoDup names -> In k names -> own_fold names k names None = Some k.
Proof.
  intros Hnd Hk. destruct (owner_exists names k names k Hk Hk (dcio_refl k)) as (w & Hw). rewrite Hw. f_equal.
  destruct (owner_max names k names w Hk Hw) as (_ & Hm & Hmax).
  apply dcio_same_length; [exact Hm|]. apply dcio_length in Hm. specialize (Hmax k Hk (dcio_refl k)). lia.
Qed.
Lemma filter_eq_single (names : list path) k : NoDup names -> In k names -> filter (fun p => path_eqb p k) names = [k].
Proof.
  induction names as [|a names IH]; intros Hnd Hk; [destruct Hk|]. inversion Hnd as [|? ? Hni Hnd']; subst. cbn [filter].
  destruct (path_eqb a k) eqn:E.
  - apply path_eqb_eq in E. subst a. f_equal.
    clear IH Hk Hnd Hnd'. induction names as [|b names IH]; [reflexivity|]. cbn [filter].
    rewrite path_eqb_neq by (intros ->; apply Hni; left; reflexivity). apply IH. intros H. apply Hni. right. exact H.
  - destruct Hk as [->|Hk]; [rewrite path_eqb_refl in E; discriminate|]. apply IH; assumption.
Qed.
Lemma filter_filter {A} (f g : A -> bool) l : filter f (filter g l) = filter (fun x => g x && f x) l.
Proof.
  induction l as [|a l IH]; [reflexivity|]. cbn [filter]. destruct (g a); cbn [filter andb]; [|exact IH].
  destruct (f a); rewrite IH; reflexivity.
Qed.

Theorem delete_restores_default : C17_delete_restores_default_stmt.
Proof.
  intros m named its Hits Hnd. split; [reflexivity|].
  assert (Hnp : named_params (mk_nstate m None) = inr (map fst its)).
  { unfold named_params. cbn [ns_model ns_named mk_nstate]. rewrite (param_names_items m its Hits). reflexivity. }
  split; [exact Hnp|].
  assert (Hg : get_named_params (mk_nstate m None) = inr its).
  { unfold get_named_params. rewrite Hnp. cbn [ns_model mk_nstate]. rewrite Hits. f_equal.
    unfold get_named_items. cbv zeta. set (names := map fst its) in *. rewrite create_alias_map_NoDup by exact Hnd.
    set (ow := owners (map (alias_entry names) names)).
    rewrite (flat_map_singletons _ (fun e => (fst e, match kw_get (fst e) its with Some v => v | None => 0%Qc end))).
    - rewrite map_map. cbn [alias_entry fst]. unfold names. rewrite map_map.
      rewrite <- (map_id its) at 2. apply map_ext_in. intros [k v] Hin. cbn [fst].
      rewrite (kw_get_NoDup_In k v its Hnd Hin). reflexivity.
    - intros e He. apply in_map_iff in He. destruct He as (k & <- & Hk). unfold named_entry, alias_entry. cbn [fst].
      assert (Hown : owned_by ow k (aliases_of names k) = [k]).
      { unfold owned_by. rewrite (filter_ext_in _ (fun p => path_eqb p k)).
        - unfold aliases_of. rewrite filter_filter.
          rewrite (filter_ext_in _ (fun p => path_eqb p k)); [apply filter_eq_single; assumption|].
          intros p Hp. destruct (path_eqb p k) eqn:E; [|apply Bool.andb_false_r].
          apply path_eqb_eq in E. subst p. rewrite dcio_refl. reflexivity.
        - intros p Hp. apply in_aliases_of in Hp. destruct Hp as [Hp _]. unfold ow. rewrite owners_get, (default_owner names p Hnd Hp).
          reflexivity. }
      unfold read_param. cbn [fst snd]. rewrite Hown. cbn [last_opt].
      destruct (kw_get_In_Some k its Hk) as (v & Hv). rewrite Hv. reflexivity. }
  split; [exact Hg|]. unfold get_num_dims. rewrite Hg. reflexivity.
Qed.

(** * get_named_params after set_named_params *)
Lemma no_ties_spec names named : no_ties names named = true ->
  forall k n1 n2, In k names -> In n1 named -> In n2 named ->
    does_contain_in_order k n1 = true -> does_contain_in_order k n2 = true -> length n1 = length n2 -> n1 = n2.
Proof.
  unfold no_ties. intros H k n1 n2 Hk H1 H2 M1 M2 L. rewrite forallb_forall in H. specialize (H k Hk).
  rewrite forallb_forall in H. specialize (H n1 H1). rewrite forallb_forall in H. specialize (H n2 H2).
  rewrite M1, M2, L, Nat.eqb_refl in H. cbn in H. apply path_eqb_eq, H.
Qed.
Lemma each_owns_spec names named : each_owns names named = true ->
  forall n, In n named -> exists k, In k names /\ does_contain_in_order k n = true /\
    forall n', In n' named -> does_contain_in_order k n' = true -> length n' <= length n.
Proof.
  unfold each_owns. intros H n Hn. rewrite forallb_forall in H. specialize (H n Hn). apply existsb_exists in H.
  destruct H as (k & Hk & H). apply Bool.andb_true_iff in H. destruct H as [Hm H]. exists k. split; [exact Hk|]. split; [exact Hm|].
  intros n' Hn' Hm'. rewrite forallb_forall in H. specialize (H n' Hn'). rewrite Hm' in H. cbn in H. apply Nat.leb_le, H.
Qed.
Lemma in_combine_vals (l : list path) qs n q : In (n, q) (combine l qs) -> In (n, V q) (combine l (vals qs)).
Proof.
  revert qs. induction l as [|x l IH]; intros [|y qs]; cbn; try tauto.
  intros [E|H]; [left; injection E as -> ->; reflexivity | right; apply IH, H].
Qed.
Lemma entries_combine (f : path -> path * list path) (h : path * list path -> list (path * Qc)) named : forall qs,
  length named = length qs -> (forall n q, In (n, q) (combine named qs) -> h (f n) = [(n, q)]) ->
  flat_map h (map f named) = combine named qs.
Proof.
  induction named as [|n named IH]; intros [|q qs] Hl H; cbn in Hl; try discriminate; [reflexivity|].
  cbn [map flat_map combine]. rewrite (H n q) by (left; reflexivity). cbn [app]. f_equal.
  apply IH; [lia|]. intros n' q' Hin. apply H. right. exact Hin.
Qed.

Theorem get_named_after_set : C17_get_named_after_set_stmt.
Proof.
  intros m named qs s' its Hc Hits Hnd Hlen Hcons Hties Howns H.
  destruct (set_named_positional m named (vals qs) [] s' its Hc Hits Hcons H) as (_ & its' & Hits' & Hnames & Hpos).
  destruct (set_named_inv m named (vals qs) [] s' its Hits H) as (_ & m' & rest & _ & ->).
  cbn [ns_model mk_nstate] in Hits'.
  unfold get_named_params, named_params. cbn [ns_model ns_named mk_nstate]. rewrite Hits', (param_names_items m' its' Hits').
  f_equal. unfold get_named_items. cbv zeta. rewrite Hnames. set (names := map fst its) in *.
  rewrite create_alias_map_NoDup by exact Hnd. set (ow := owners (map (alias_entry names) named)).
  pose proof (no_ties_spec _ _ Hties) as Ht. pose proof (each_owns_spec _ _ Howns) as Ho.
  apply entries_combine; [symmetry; exact Hlen|]. intros n q Hin.
  assert (Hn : In n named) by (apply in_combine_l in Hin; exact Hin).
  assert (Ha : assigned named (vals qs) [] n = Some (V q)).
  { unfold assigned. cbn [kw_last rev kw_get]. rewrite kw_last_NoDup by (apply combine_keys_NoDup, Hnd).
    apply kw_get_NoDup_In; [apply combine_keys_NoDup, Hnd | apply in_combine_vals, Hin]. }
  (* n owns some parameter *)
  destruct (Ho n Hn) as (k & Hk & Hkm & Hkmax).
  assert (Hkow : kw_get k ow = Some n).
  { unfold ow. rewrite owners_get. destruct (owner_exists names k named n Hk Hn Hkm) as (w & Hw). rewrite Hw. f_equal.
    destruct (owner_max names k named w Hk Hw) as (Hwd & Hwm & Hwmax).
    apply (Ht k w n Hk Hwd Hn Hwm Hkm). specialize (Hwmax n Hn Hkm). specialize (Hkmax w Hwd Hwm). lia. }
  assert (Hne : owned_by ow n (aliases_of names n) <> []).
  { intros E. assert (Hin' : In k (owned_by ow n (aliases_of names n))).
    { unfold owned_by. apply filter_In. split; [apply in_aliases_of; split; assumption|]. rewrite Hkow. apply path_eqb_refl. }
    rewrite E in Hin'. destruct Hin'. }
  destruct (read_param_owned ow n _ Hne) as (p & Hp & Hpin & Hpow). apply in_aliases_of in Hpin. destruct Hpin as [Hpn Hpm].
  unfold ow in Hpow. rewrite owners_get in Hpow. destruct (owner_max names p named n Hpn Hpow) as (_ & _ & Hpmax).
  (* the value of that parameter is the one assigned to n *)
  assert (Hpi : exists old, In (p, old) its).
  { unfold names in Hpn. apply in_map_iff in Hpn. destruct Hpn as ([p' old] & <- & Hi). exists old. exact Hi. }
  destruct Hpi as (old & Hpi). destruct (Hpos p old Hpi) as [_ Hval].
  destruct (Hval n Hn Hpm) as (w & q' & Hwd & Hwm & Hwa & Hget & Hwmax); [congruence|].
  assert (Hwn : w = n).
  { apply (Ht p w n Hpn Hwd Hn Hwm Hpm). specialize (Hpmax w Hwd Hwm). specialize (Hwmax n Hn Hpm). 
    assert (assigned named (vals qs) [] n <> None) by congruence. specialize (Hwmax H0). lia. }
  subst w. rewrite Ha in Hwa. injection Hwa as <-.
  unfold named_entry, alias_entry. rewrite Hp. cbn [fst]. rewrite Hget. reflexivity.
Qed.

(** * Refutations by concrete witnesses *)
Definition C17_b2 : bilateral := new_bilateral C10_u2 false true.
Theorem side_global_leak_refuted : C17_side_global_leak_refuted_stmt.
Proof.
  exists C17_b2, ["ipsi"; "spread"], ["IItoIII"; "spread"], (qc 3 10).
  split; [vm_compute; reflexivity|]. split; [vm_compute; reflexivity|]. split; [vm_compute; reflexivity|].
  cbv zeta. split; [vm_compute; reflexivity|]. split; vm_compute; reflexivity.
Qed.

Theorem hpv_named_refuted : C17_hpv_named_refuted_stmt.
Proof.
  exists (new_hpv C10_u2), [["hpv"; "TtoII"; "spread"]], [qc 1 2].
  split.
  { eexists. split; [vm_compute; reflexivity|]. intros x [<-|[]]. left. reflexivity. }
  split; [repeat constructor; intros []|]. split; [reflexivity|]. split; [vm_compute; reflexivity|].
  cbv zeta. split; [vm_compute; reflexivity|]. intros H. vm_compute in H. discriminate H.
Qed.

Definition C17_g1 : graph := force_graph (build_graph 2 [ (("tumor", "T"), CList ["II"]); (("lnl", "II"), CList []) ]).
Theorem no_ties_needed_refuted : C17_no_ties_needed_refuted_stmt.
Proof.
  exists (new_bilateral (new_uni C17_g1 [] 3) false true), [["TtoII"; "spread"]; ["ipsi"; "spread"]], [qc 1 4; qc 3 4].
  split; [vm_compute; reflexivity|].
  split; [repeat constructor; [intros [H|[]]; discriminate H | intros []]|].
  split; [reflexivity|]. split; [vm_compute; reflexivity|].
  cbv zeta. split; [vm_compute; reflexivity|]. intros H. vm_compute in H. discriminate H.
Qed.
(** * literal subsets of the parameter names satisfy every hypothesis *)
Definition lit_core (m : model) (names : list path) : Prop :=
  forall n k, In n names -> In k names ->
    (does_contain_in_order k n = true -> n = k) /\ (memp n (cands m k) = true -> n = k) /\ memp k (cands m k) = true.

Lemma lit_hyps m names named : lit_core m names -> incl named names ->
  names_consistent m names named = true /\ no_ties names named = true /\ each_owns names named = true
  /\ each_matches names named = true.
Proof.
  intros Hc Hincl. repeat split.
  - unfold names_consistent. apply forallb_forall. intros n Hn. apply forallb_forall. intros k Hk.
    destruct (Hc n k (Hincl _ Hn) Hk) as (H1 & H2 & _). destruct (Hc k k Hk Hk) as (_ & _ & H3).
    destruct (does_contain_in_order k n) eqn:E1, (memp n (cands m k)) eqn:E2; try reflexivity.
    + rewrite (H1 eq_refl) in E2. congruence.
    + rewrite (H2 eq_refl), dcio_refl in E1. discriminate.
  - unfold no_ties. apply forallb_forall. intros k Hk. apply forallb_forall. intros n1 H1. apply forallb_forall. intros n2 H2.
    destruct (does_contain_in_order k n1) eqn:E1; [|reflexivity]. destruct (does_contain_in_order k n2) eqn:E2; [|reflexivity].
    destruct (Hc n1 k (Hincl _ H1) Hk) as (F1 & _). destruct (Hc n2 k (Hincl _ H2) Hk) as (F2 & _).
    rewrite (F1 E1), (F2 E2), path_eqb_refl. apply Bool.implb_true_r.
  - unfold each_owns. apply forallb_forall. intros n Hn. apply existsb_exists. exists n. split; [apply Hincl, Hn|].
    rewrite dcio_refl. cbn [andb]. apply forallb_forall. intros n' Hn'.
    destruct (does_contain_in_order n n') eqn:E; [|reflexivity]. destruct (Hc n' n (Hincl _ Hn') (Hincl _ Hn)) as (F & _).
    rewrite (F E). cbn [implb]. apply Nat.leb_refl.
  - unfold each_matches. apply forallb_forall. intros n Hn. apply existsb_exists. exists n. split; [apply Hincl, Hn | apply dcio_refl].
Qed.

Lemma u_names_len2 u k : In k (u_names u) -> exists o s, k = [o; s].
Proof.
  unfold u_names, u_items. rewrite app_assoc, map_app, in_app_iff. intros [H|H].
  - apply u_spread_key_head in H. destruct H as (n & s & -> & _). eauto.
  - apply dists_items_heads in H. destruct H as (t & s & _ & -> & _). eauto.
Qed.

Lemma u_lit_core u : u_names_ok u = true -> lit_core (MUni u) (u_names u).
Proof.
  intros H n k Hn Hk. destruct (u_names_len2 u n Hn) as (o' & s' & ->). destruct (u_names_len2 u k Hk) as (o & s & ->).
  cbn [cands u_cands]. repeat split.
  - intros E. apply dcio_same_length; [exact E | reflexivity].
  - rewrite memp_cons. intros E. apply Bool.orb_true_iff in E. destruct E as [E|E]; [apply path_eqb_eq, E|].
    cbn in E. rewrite Bool.andb_false_r in E. discriminate.
  - rewrite memp_cons, path_eqb_refl. reflexivity.
Qed.

(** Bilateral: the shape of every reported name *)
Definition b_unpre (b : bilateral) (k : path) : Prop :=
  exists o s, k = [o; s] /\ ((TNp (b_ipsi b) o /\ b_symT b = true) \/ (LNp (b_ipsi b) o /\ b_symL b = true) \/ TS (b_ipsi b) o).
Definition b_pre (b : bilateral) (k : path) : Prop :=
  exists sd o s, k = [sd; o; s] /\ SIDE sd /\ ((TNp (b_ipsi b) o /\ b_symT b = false) \/ (LNp (b_ipsi b) o /\ b_symL b = false)).

Lemma T_item_shape u k : In k (map fst (u_tumor_items u)) -> exists o s, k = [o; s] /\ TNp u o.
Proof.
  intros H. pose proof (hT_Ti u k H) as Hh. apply sel_params_heads in H. destruct H as (e & s & _ & _ & -> & _).
  exists (e_name e), s. split; [reflexivity | exact Hh].
Qed.
Lemma L_item_shape u k : In k (map fst (u_lnl_items u)) -> exists o s, k = [o; s] /\ LNp u o.
Proof.
  intros H. pose proof (hL_Li u k H) as Hh. apply sel_params_heads in H. destruct H as (e & s & _ & _ & -> & _).
  exists (e_name e), s. split; [reflexivity | exact Hh].
Qed.
Lemma D_item_shape u k : In k (map fst (u_dist_items u)) -> exists o s, k = [o; s] /\ TS u o.
Proof. intros H. apply dists_items_heads in H. destruct H as (t & s & Ht & -> & _). exists t, s. split; [reflexivity | exact Ht]. Qed.
Lemma pre_key_inv sd (X : list (path * Qc)) k : In k (map fst (pre [sd] X)) -> exists k0, k = sd :: k0 /\ In k0 (map fst X).
Proof. rewrite pre_keys. intros H. apply in_map_iff in H. destruct H as (k0 & <- & H). exists k0. split; [reflexivity | exact H]. Qed.

Lemma b_names_class b k : b_names_ok b = true -> In k (map fst (b_items b)) -> b_unpre b k \/ b_pre b k.
Proof.
  intros H Hk. pose proof (contra_TNp b H) as HcT. pose proof (contra_LNp b H) as HcL.
  unfold b_items in Hk. cbv zeta in Hk.
  assert (UT : b_symT b = true -> In k (map fst (u_tumor_items (b_ipsi b))) -> b_unpre b k).
  { intros Hs Hin. destruct (T_item_shape _ _ Hin) as (o & s & -> & Ho). exists o, s. split; [reflexivity|]. left. split; assumption. }
  assert (UL : b_symL b = true -> In k (map fst (u_lnl_items (b_ipsi b))) -> b_unpre b k).
  { intros Hs Hin. destruct (L_item_shape _ _ Hin) as (o & s & -> & Ho). exists o, s. split; [reflexivity|]. right. left. split; assumption. }
  assert (UD : In k (map fst (u_dist_items (b_ipsi b))) -> b_unpre b k).
  { intros Hin. destruct (D_item_shape _ _ Hin) as (o & s & -> & Ho). exists o, s. split; [reflexivity|]. right. right. exact Ho. }
  assert (PT : forall sd u, SIDE sd -> (forall x, TNp u x -> TNp (b_ipsi b) x) -> b_symT b = false ->
                            In k (map fst (pre [sd] (u_tumor_items u))) -> b_pre b k).
  { intros sd u Hsd Hu Hs Hin. destruct (pre_key_inv _ _ _ Hin) as (k0 & -> & Hin0).
    destruct (T_item_shape _ _ Hin0) as (o & s & -> & Ho). exists sd, o, s. split; [reflexivity|]. split; [exact Hsd|]. left. split; [apply Hu, Ho | exact Hs]. }
  assert (PL : forall sd u, SIDE sd -> (forall x, LNp u x -> LNp (b_ipsi b) x) -> b_symL b = false ->
                            In k (map fst (pre [sd] (u_lnl_items u))) -> b_pre b k).
  { intros sd u Hsd Hu Hs Hin. destruct (pre_key_inv _ _ _ Hin) as (k0 & -> & Hin0).
    destruct (L_item_shape _ _ Hin0) as (o & s & -> & Ho). exists sd, o, s. split; [reflexivity|]. split; [exact Hsd|]. right. split; [apply Hu, Ho | exact Hs]. }
  assert (Ii : forall x, TNp (b_ipsi b) x -> TNp (b_ipsi b) x) by auto.
  assert (Il : forall x, LNp (b_ipsi b) x -> LNp (b_ipsi b) x) by auto.
  assert (Ci : forall x, TNp (b_contra b) x -> TNp (b_ipsi b) x) by (intros x; apply HcT).
  assert (Cl : forall x, LNp (b_contra b) x -> LNp (b_ipsi b) x) by (intros x; apply HcL).
  destruct (b_symT b) eqn:ET, (b_symL b) eqn:EL; rewrite ?pre_app, ?map_app, ?in_app_iff in Hk.
  - destruct Hk as [Hk|[Hk|Hk]]; left; auto.
  - destruct Hk as [Hk|[Hk|[Hk|Hk]]]; [left; auto | right; apply (PL "ipsi" (b_ipsi b)); auto using SIDE_ipsi
                                     | right; apply (PL "contra" (b_contra b)); auto using SIDE_contra | left; auto].
  - destruct Hk as [Hk|[Hk|[Hk|Hk]]]; [right; apply (PT "ipsi" (b_ipsi b)); auto using SIDE_ipsi
                                     | right; apply (PT "contra" (b_contra b)); auto using SIDE_contra | left; auto | left; auto].
  - destruct Hk as [[Hk|Hk]|[[Hk|Hk]|Hk]];
      [right; apply (PT "ipsi" (b_ipsi b)); auto using SIDE_ipsi | right; apply (PL "ipsi" (b_ipsi b)); auto using SIDE_ipsi
       | right; apply (PT "contra" (b_contra b)); auto using SIDE_contra | right; apply (PL "contra" (b_contra b)); auto using SIDE_contra
       | left; auto].
Qed.

Lemma b_unpre_not_side b o s : b_names_ok b = true -> b_unpre b [o; s] -> ~ SIDE o.
Proof.
  intros H (o' & s' & E & Hc) Hs. injection E as <- <-. destruct (b_names_ok_parts b H) as (Hi & _).
  destruct Hc as [[Ho _]|[[Ho _]|Ho]].
  - exact (EN_SIDE_disj _ Hi o (TNp_EN _ _ Ho) Hs).
  - exact (EN_SIDE_disj _ Hi o (LNp_EN _ _ Ho) Hs).
  - exact (TS_SIDE_disj _ Hi o Ho Hs).
Qed.
Lemma b_pre_not_side b sd o s : b_names_ok b = true -> b_pre b [sd; o; s] -> SIDE sd /\ ~ SIDE o.
Proof.
  intros H (sd' & o' & s' & E & Hsd & Hc). injection E as <- <- <-. split; [exact Hsd|]. intros Hs.
  destruct (b_names_ok_parts b H) as (Hi & _). destruct Hc as [[Ho _]|[Ho _]].
  - exact (EN_SIDE_disj _ Hi o (TNp_EN _ _ Ho) Hs).
  - exact (EN_SIDE_disj _ Hi o (LNp_EN _ _ Ho) Hs).
Qed.
Lemma b_class_conflict b sd o s : b_names_ok b = true -> b_unpre b [o; s] -> b_pre b [sd; o; s] -> False.
Proof.
  intros H (o1 & s1 & E1 & C1) (sd2 & o2 & s2 & E2 & _ & C2). injection E1 as <- <-. injection E2 as <- <- <-.
  destruct (b_names_ok_parts b H) as (Hi & _).
  destruct C1 as [[T1 S1]|[[L1 S1]|D1]], C2 as [[T2 S2]|[L2 S2]]; try congruence.
  - exact (TNp_LNp_disj _ Hi o T1 L2).
  - exact (TNp_LNp_disj _ Hi o T2 L1).
  - exact (EN_TS_disj _ Hi o (TNp_EN _ _ T2) D1).
  - exact (EN_TS_disj _ Hi o (LNp_EN _ _ L2) D1).
Qed.
Lemma not_side_mem o : ~ SIDE o -> mem o sides = false.
Proof. intros H. apply mem_false. intros [<-|[<-|[]]]; apply H; [left | right]; reflexivity. Qed.
Lemma not_side_eqb o : ~ SIDE o -> String.eqb o "ipsi" = false /\ String.eqb o "contra" = false.
Proof.
  intros H. split; apply (str_eqb_neq o); intros ->; apply H; [left | right]; reflexivity.
Qed.

Lemma side_cands_two side o s : ~ SIDE o ->
  side_cands side [o; s] = [side; o; s] :: [o; s] :: [side; s] :: (if mem s sides then [] else [[s]]).
Proof. intros H. cbn [side_cands eff_cands head_of partition_key fst app]. rewrite (not_side_mem o H). reflexivity. Qed.

Lemma b_lit_core b : b_names_ok b = true -> lit_core (MBi b) (map fst (b_items b)).
Proof.
  intros H n k Hn Hk. pose proof (b_names_class b n H Hn) as Cn. pose proof (b_names_class b k H Hk) as Ck.
  assert (Hlen2 : forall x, b_unpre b x -> length x = 2) by (intros x (o & s & -> & _); reflexivity).
  assert (Hlen3 : forall x, b_pre b x -> length x = 3) by (intros x (sd & o & s & -> & _); reflexivity).
  (* the candidate list of k *)
  assert (Hcands : exists sd o s, b_cands k = [sd; o; s] :: [o; s] :: [sd; s] :: (if mem s sides then [] else [[s]])
                                 /\ SIDE sd /\ ~ SIDE o /\ (k = [o; s] \/ k = [sd; o; s])).
  { destruct Ck as [Ck|Ck].
    - pose proof Ck as (o & s & -> & _). pose proof (b_unpre_not_side b o s H Ck) as Ho.
      exists "ipsi", o, s. cbn [b_cands]. destruct (not_side_eqb o Ho) as [-> ->].
      split; [apply side_cands_two, Ho|]. split; [apply SIDE_ipsi|]. split; [exact Ho | left; reflexivity].
    - pose proof Ck as (sd & o & s & -> & _). destruct (b_pre_not_side b sd o s H Ck) as [Hsd Ho].
      exists sd, o, s. cbn [b_cands]. destruct Hsd as [->| ->]; cbn [String.eqb Ascii.eqb Bool.eqb andb];
        (split; [apply side_cands_two, Ho|]); (split; [first [apply SIDE_ipsi | apply SIDE_contra]|]); (split; [exact Ho | right; reflexivity]). }
  destruct Hcands as (sd & o & s & Hcd & Hsd & Ho & Hkshape).
  assert (Hconf : forall x y, x = [o; s] -> y = [sd; o; s] -> In x (map fst (b_items b)) -> In y (map fst (b_items b)) -> False).
  { intros x y -> -> Hx Hy. destruct (b_names_class b _ H Hx) as [Ux|Px]; [|apply Hlen3 in Px; discriminate].
    destruct (b_names_class b _ H Hy) as [Uy|Py]; [apply Hlen2 in Uy; discriminate|].
    exact (b_class_conflict b sd o s H Ux Py). }
  cbn [cands]. repeat split.
  - (* in-order containment between two reported names is equality *)
    intros E. pose proof (dcio_length _ _ E) as Hl.
    destruct Cn as [Cn|Cn], Ck as [Ck|Ck].
    + apply dcio_same_length; [exact E|]. rewrite (Hlen2 _ Cn), (Hlen2 _ Ck). reflexivity.
    + exfalso. pose proof Cn as (o' & s' & -> & _). pose proof Ck as (sd2 & o2 & s2 & -> & _).
      destruct (b_pre_not_side b _ _ _ H Ck) as [Hsd2 _]. pose proof (b_unpre_not_side b _ _ H Cn) as Ho'.
      cbn [does_contain_in_order] in E.
      rewrite (str_eqb_neq sd2 o') in E by (intros <-; apply Ho', Hsd2).
      assert (E' : does_contain_in_order [o2; s2] [o'; s'] = true) by exact E.
      apply dcio_same_length in E'; [|reflexivity]. injection E' as -> ->.
      exact (b_class_conflict b sd2 o2 s2 H Cn Ck).
    + exfalso. rewrite (Hlen3 _ Cn), (Hlen2 _ Ck) in Hl. lia.
    + apply dcio_same_length; [exact E|]. rewrite (Hlen3 _ Cn), (Hlen3 _ Ck). reflexivity.
  - (* a reported name among the keywords looked up for k is k itself *)
    intros E. apply memp_In in E. rewrite Hcd in E.
    destruct E as [E|[E|[E|E]]].
    + destruct Hkshape as [->| ->]; [exfalso; apply (Hconf [o; s] [sd; o; s]); auto; subst n; exact Hn | symmetry; exact E].
    + destruct Hkshape as [->| ->]; [symmetry; exact E | exfalso; apply (Hconf [o; s] [sd; o; s]); auto; subst n; exact Hn].
    + exfalso. subst n. destruct Cn as [Cn|Cn]; [|apply Hlen3 in Cn; discriminate].
      exact (b_unpre_not_side b sd s H Cn Hsd).
    + exfalso. destruct (mem s sides); [destruct E|]. destruct E as [<-|[]].
      destruct Cn as [Cn|Cn]; [apply Hlen2 in Cn | apply Hlen3 in Cn]; discriminate.
  - apply memp_In. rewrite Hcd. destruct Hkshape as [->| ->]; [right; left | left]; reflexivity.
Qed.

Lemma model_lit_core m its : covered m = true -> param_items m = Some its -> lit_core m (map fst its).
Proof.
  intros Hc Hits. destruct m as [u|b|ml|h]; cbn [covered] in Hc; try discriminate.
  - assert (E : its = u_got u) by (cbn in Hits; injection Hits as <-; reflexivity).
    rewrite E, (u_got_spec u Hc). apply u_lit_core, Hc.
  - assert (E : its = b_got b) by (cbn in Hits; injection Hits as <-; reflexivity).
    destruct (bi_names_nodup b Hc) as [E' _]. rewrite E, E'. apply b_lit_core, Hc.
Qed.

Theorem literal_subset_hyps : C17_literal_subset_hyps_stmt.
Proof. intros m named its Hc Hits Hincl. apply lit_hyps; [apply model_lit_core; assumption | exact Hincl]. Qed.

Theorem literal_subset_roundtrip : C17_literal_subset_roundtrip_stmt.
Proof.
  intros m named qs s' its Hc Hits Hnd Hincl Hlen H.
  destruct (literal_subset_hyps m named its Hc Hits Hincl) as (Hcons & Hties & Howns & _).
  pose proof (get_named_after_set m named qs s' its Hc Hits Hnd Hlen Hcons Hties Howns H) as Hget.
  split; [exact Hget|]. split.
  { unfold get_num_dims. rewrite Hget, combine_length, Hlen, Nat.min_id. reflexivity. }
  destruct (set_named_positional m named (vals qs) [] s' its Hc Hits Hcons H) as (_ & its' & Hits' & Hnames & Hpos).
  pose proof (model_lit_core m its Hc Hits) as Hcore.
  exists its'. split; [exact Hits'|]. split; [exact Hnames|]. split.
  - intros n q Hin. assert (Hn : In n named) by (apply in_combine_l in Hin; exact Hin).
    assert (Hnn : In n (map fst its)) by (apply Hincl, Hn).
    pose proof Hnn as Hold. apply in_map_iff in Hold. destruct Hold as ([n' old] & E & Hio). cbn [fst] in E. subst n'.
    assert (Ha : assigned named (vals qs) [] n = Some (V q)).
    { unfold assigned. cbn [kw_last rev kw_get]. rewrite kw_last_NoDup by (apply combine_keys_NoDup, Hnd).
      apply kw_get_NoDup_In; [apply combine_keys_NoDup, Hnd | apply in_combine_vals, Hin]. }
    destruct (Hpos n old Hio) as [_ Hval].
    destruct (Hval n Hn (dcio_refl n)) as (w & q' & Hwd & Hwm & Hwa & Hg & _); [congruence|].
    destruct (Hcore w n (Hincl _ Hwd) Hnn) as (F & _). rewrite (F Hwm) in Hwa. rewrite Ha in Hwa. injection Hwa as <-. exact Hg.
  - intros k old Hio Hni. destruct (Hpos k old Hio) as [Hkeep _]. apply Hkeep. intros n Hn Hm. exfalso.
    assert (Hk : In k (map fst its)) by (apply in_map_iff; exists (k, old); split; [reflexivity | exact Hio]).
    destruct (Hcore n k (Hincl _ Hn) Hk) as (F & _). apply Hni. rewrite <- (F Hm). exact Hn.
Qed.
