(** Cohort: how [Midline.load_patient_data] and [HPVUnilateral.load_patient_data]
    split a table into sub-cohorts.  Executable definitions only. *)
From LymphModel Require Import Base States Linalg Graph Transition Observation Dist Unilateral Models Bilateral Midline.
Local Open Scope nat_scope.

(** one table row of a midline cohort: findings, recorded extension / central status *)
Record mpatient := { mp_pat : bpatient; mp_ext : option bool; mp_central : option bool }.

Definition is_true (o : option bool) : bool := match o with Some true => true | _ => false end.
Definition is_false (o : option bool) : bool := match o with Some false => true | _ => false end.
Definition is_none (o : option bool) : bool := match o with None => true | _ => false end.

(** Midline.load_patient_data: every sub-model is (re)loaded on every call; the
    previous cohorts [prev] do not enter the result *)
Definition ml_load (use_central marg_unknown : bool) (prev : ml_data) (table : list mpatient) : ml_data :=
  let noext := filter (fun p => is_false (mp_ext p)) table in
  let central := filter (fun p => is_true (mp_central p)) table in
  let ext := filter (fun p => is_true (mp_ext p) && negb (use_central && is_true (mp_central p))) table in
  let unknown := filter (fun p => is_none (mp_ext p)) table in
  {| d_ext := map mp_pat ext; d_noext := map mp_pat noext;
     d_central := if use_central then Some (map mp_pat central) else None;
     d_unknown := if marg_unknown then Some (map mp_pat unknown) else None |}.
Definition ml_data_empty : ml_data := {| d_ext := []; d_noext := []; d_central := None; d_unknown := None |}.

(** central implies extension (the table format's own constraint) *)
Definition central_implies_ext (p : mpatient) : bool := negb (is_true (mp_central p)) || is_true (mp_ext p).

(** how often a row is scored: number of sub-cohorts it lands in *)
Definition landing_count (use_central marg_unknown : bool) (p : mpatient) : nat :=
  (if is_false (mp_ext p) then 1 else 0)
  + (if use_central && is_true (mp_central p) then 1 else 0)
  + (if is_true (mp_ext p) && negb (use_central && is_true (mp_central p)) then 1 else 0)
  + (if marg_unknown && is_none (mp_ext p) then 1 else 0).

(** HPVUnilateral.load_patient_data *)
Record hpatient := { hp_pat : patient; hp_status : option bool }.
Definition hpv_load (table : list hpatient) : list patient * list patient :=
  (map hp_pat (filter (fun p => is_true (hp_status p)) table),
   map hp_pat (filter (fun p => is_false (hp_status p)) table)).

(** * Statements (C13) *)
Definition C13_split_is_partition_stmt : Prop :=
  forall use_central marg_unknown p, central_implies_ext p = true ->
    landing_count use_central marg_unknown p = (if negb marg_unknown && is_none (mp_ext p) then 0 else 1).
Definition C13_split_counts_stmt : Prop :=
  forall use_central marg_unknown prev table,
    let d := ml_load use_central marg_unknown prev table in
    length (d_ext d) + length (d_noext d)
    + match d_central d with Some l => length l | None => 0 end
    + match d_unknown d with Some l => length l | None => 0 end
    = list_sum (map (landing_count use_central marg_unknown) table).
Definition C13_reload_replaces_all_stmt : Prop :=
  forall use_central marg_unknown prev t1 t2,
    ml_load use_central marg_unknown (ml_load use_central marg_unknown prev t1) t2
    = ml_load use_central marg_unknown ml_data_empty t2.
Definition C13_sub_cohorts_are_selections_stmt : Prop :=
  forall use_central marg_unknown prev table,
    let d := ml_load use_central marg_unknown prev table in
    d_noext d = map mp_pat (filter (fun p => is_false (mp_ext p)) table) /\
    (marg_unknown = true -> d_unknown d = Some (map mp_pat (filter (fun p => is_none (mp_ext p)) table))) /\
    (marg_unknown = false -> d_unknown d = None) /\
    (use_central = true -> d_central d = Some (map mp_pat (filter (fun p => is_true (mp_central p)) table))) /\
    (use_central = false -> d_ext d = map mp_pat (filter (fun p => is_true (mp_ext p)) table)).
Definition C13_hpv_split_stmt : Prop :=
  forall table p, In p table ->
    (if is_true (hp_status p) then 1 else 0) + (if is_false (hp_status p) then 1 else 0)
    = (if is_none (hp_status p) then 0 else 1).
(** the cohort likelihood is the concatenation of the sub-cohort factor lists: one
    factor per patient of a scored T-stage in ext, noext, unknown, then the central
    model's own factors.  (The stage lists are the keys of Python dicts, hence
    duplicate-free: both NoDup premises; an earlier draft lacked the second one and
    was refuted by a model with a repeated central stage.) *)
Open Scope Qc_scope.
Definition C13_cohort_likelihood_is_sum_stmt : Prop :=
  forall ml data v, ml_hmm_likelihood_factors ml data None = inr v ->
    let nscored (l : list bpatient) := length (filter (fun p => mem (bp_t p) (ml_t_stages ml)) l) in
    NoDup (ml_t_stages ml) ->
    match ml_central ml with Some c => NoDup (bi_t_stages c) | None => True end ->
    length v = (nscored (d_ext data) + nscored (d_noext data)
               + match ml_unknown ml, d_unknown data with Some _, Some l => nscored l | _, _ => 0 end
               + match ml_central ml, d_central data with
                 | Some c, Some l => length (filter (fun p => mem (bp_t p) (bi_t_stages c)) l)
                 | _, _ => 0 end)%nat.
