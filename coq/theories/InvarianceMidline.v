(** InvarianceMidline (C15, Midline part): the Spec of the midline model — the
    contralateral chain with the extension flag ([chain_contra] / [static_contra] /
    [ml_contra_spec]), the joint over (extension, ipsi, contra) ([ml_joint_spec]) and the
    per-patient likelihood for a known / unknown extension status — does not depend on
    names or on listing order.

    Statements [C15_midline_*_stmt] and their proofs.  The generic transfer
    ([C15_midline_transfer_stmt]) is the midline analogue of [C15_transfer_evo] /
    [C15_transfer_bi] of Invariance.v: ONE relabelling [pic] for the two contralateral
    graphs (extension / no extension: the chain moves mass from one to the other, so
    they must be relabelled alike), an independent one [pii] for the ipsilateral graph.
    The instances (arc order, listing order of nodes and arcs, renaming) are obtained
    from the single-graph lemmas of InvarianceProofs.v. *)
From Coq Require Import Permutation.
From LymphModel Require Import Base States Linalg Graph Transition Observation Dist Unilateral
  UniStatements Models Bilateral Midline BiStatements TransitionProofs Invariance InvarianceProofs MidlineProofs.
Local Open Scope nat_scope.
Open Scope Qc_scope.

(** * The graphs that enter the midline Spec *)
Definition ml_gi (ml : midline) : graph := u_graph (b_ipsi (ml_ext ml)).
Definition ml_ge (ml : midline) : graph := u_graph (b_contra (ml_ext ml)).
Definition ml_gn (ml : midline) : graph := u_graph (b_contra (ml_noext ml)).

(** the two contralateral graphs have the same states (same base, same number of
    LNLs): part of [wf_midline] *)
Definition contra_compatible (ml : midline) : Prop := state_list (ml_ge ml) = state_list (ml_gn ml).

(** [pic] relabels the states of BOTH contralateral graphs, [pii] those of the
    ipsilateral graph; the scalar settings agree *)
Definition midline_iso (ml ml' : midline) (pii pic : state -> state) : Prop :=
  ml_midext ml' = ml_midext ml /\ ml_evo ml' = ml_evo ml /\ ml_maxt ml' = ml_maxt ml /\
  contra_compatible ml /\
  graph_iso (ml_gn ml) (ml_gn ml') pic /\ graph_iso (ml_ge ml) (ml_ge ml') pic /\
  graph_iso (ml_gi ml) (ml_gi ml') pii.

(** ** 1. the generic transfer *)
Definition C15_midline_transfer_stmt : Prop :=
  forall ml ml' pii pic, midline_iso ml ml' pii pic ->
    (* the contralateral chain with the extension flag, evolving and static *)
    (forall t e x, In x (state_list (ml_gn ml)) ->
       chain_contra ml' t e (pic x) = chain_contra ml t e x) /\
    (forall t e x, In x (state_list (ml_gn ml)) ->
       static_contra ml' t e (pic x) = static_contra ml t e x) /\
    (forall t e x, In x (state_list (ml_gn ml)) ->
       ml_contra_spec ml' t e (pic x) = ml_contra_spec ml t e x) /\
    (* the joint over (extension, ipsi state, contra state) *)
    (forall pm e xi xc, In xi (state_list (ml_gi ml)) -> In xc (state_list (ml_gn ml)) ->
       ml_joint_spec ml' pm e (pii xi) (pic xc) = ml_joint_spec ml pm e xi xc).

(** a well-formed midline model has compatible contralateral graphs *)
Definition C15_midline_wf_compatible_stmt : Prop :=
  forall ml, wf_midline ml = true -> contra_compatible ml.

(** * Unfolding the chain *)
Lemma chain_contra_0 ml e x :
  chain_contra ml 0 e x
  = if e then 0 else (if list_eq_dec Nat.eq_dec x (healthy (nlnls (ml_gn ml))) then 1 else 0).
Proof. reflexivity. Qed.
Lemma chain_contra_S_true ml t x :
  chain_contra ml (S t) true x
  = sumQ (map (fun y => (chain_contra ml t true y + ml_midext ml * chain_contra ml t false y)
                        * trans_spec (ml_ge ml) y x) (state_list (ml_ge ml))).
Proof. reflexivity. Qed.
Lemma chain_contra_S_false ml t x :
  chain_contra ml (S t) false x
  = sumQ (map (fun y => (1 - ml_midext ml) * chain_contra ml t false y * trans_spec (ml_gn ml) y x)
              (state_list (ml_gn ml))).
Proof. reflexivity. Qed.

(** * 1. The generic transfer *)
Lemma chain_contra_transfer ml ml' pii pic : midline_iso ml ml' pii pic ->
  forall t e x, In x (state_list (ml_gn ml)) -> chain_contra ml' t e (pic x) = chain_contra ml t e x.
Proof.
  intros (Hp & _ & _ & Hc & (Hpn & Htn & Hhn) & (Hpe & Hte & _) & _).
  unfold contra_compatible in Hc.
  induction t as [|t IH]; intros e x Hx.
  - rewrite !chain_contra_0. destruct e; [reflexivity|].
    destruct (list_eq_dec Nat.eq_dec (pic x) (healthy (nlnls (ml_gn ml')))) as [E|E];
      destruct (list_eq_dec Nat.eq_dec x (healthy (nlnls (ml_gn ml)))) as [E'|E']; try reflexivity.
    + apply (Hhn x Hx) in E. contradiction.
    + apply (Hhn x Hx) in E'. contradiction.
  - destruct e.
    + rewrite !chain_contra_S_true.
      rewrite <- (sumQ_map_Permutation _ _ _ Hpe), map_map.
      apply sumQ_map_ext. intros y Hy.
      assert (Hy' : In y (state_list (ml_gn ml))) by (rewrite <- Hc; exact Hy).
      rewrite !IH by exact Hy'. rewrite Hp.
      rewrite Hte by (try exact Hy; rewrite Hc; exact Hx). reflexivity.
    + rewrite !chain_contra_S_false.
      rewrite <- (sumQ_map_Permutation _ _ _ Hpn), map_map.
      apply sumQ_map_ext. intros y Hy.
      rewrite IH by exact Hy. rewrite Hp. rewrite Htn by assumption. reflexivity.
Qed.

Lemma static_contra_transfer ml ml' pii pic : midline_iso ml ml' pii pic ->
  forall t e x, In x (state_list (ml_gn ml)) -> static_contra ml' t e (pic x) = static_contra ml t e x.
Proof.
  intros (Hp & _ & _ & Hc & Hgn & Hge & _) t e x Hx. unfold contra_compatible in Hc.
  unfold static_contra. rewrite Hp. unfold ml_ge, ml_gn in *. destruct e.
  - rewrite (transfer_evo _ _ _ Hge t x) by (rewrite Hc; exact Hx). reflexivity.
  - rewrite (transfer_evo _ _ _ Hgn t x Hx). reflexivity.
Qed.

Lemma contra_spec_transfer ml ml' pii pic : midline_iso ml ml' pii pic ->
  forall t e x, In x (state_list (ml_gn ml)) -> ml_contra_spec ml' t e (pic x) = ml_contra_spec ml t e x.
Proof.
  intros H t e x Hx. unfold ml_contra_spec.
  assert (He : ml_evo ml' = ml_evo ml) by (destruct H as (_ & He & _); exact He).
  rewrite He. destruct (ml_evo ml).
  - apply (chain_contra_transfer ml ml' pii pic H); exact Hx.
  - apply (static_contra_transfer ml ml' pii pic H); exact Hx.
Qed.

Lemma joint_spec_transfer ml ml' pii pic : midline_iso ml ml' pii pic ->
  forall pm e xi xc, In xi (state_list (ml_gi ml)) -> In xc (state_list (ml_gn ml)) ->
    ml_joint_spec ml' pm e (pii xi) (pic xc) = ml_joint_spec ml pm e xi xc.
Proof.
  intros H pm e xi xc Hxi Hxc. pose proof (contra_spec_transfer ml ml' pii pic H) as Hcs.
  destruct H as (_ & _ & Hm & _ & _ & _ & Hgi).
  unfold ml_joint_spec. rewrite Hm. apply sumQ_map_ext. intros [t w] _. unfold ml_gi in *.
  rewrite (transfer_evo _ _ _ Hgi t xi Hxi), Hcs by exact Hxc. reflexivity.
Qed.

Lemma midline_transfer : C15_midline_transfer_stmt.
Proof.
  intros ml ml' pii pic H.
  split; [apply (chain_contra_transfer ml ml' pii pic H)|].
  split; [apply (static_contra_transfer ml ml' pii pic H)|].
  split; [apply (contra_spec_transfer ml ml' pii pic H)|apply (joint_spec_transfer ml ml' pii pic H)].
Qed.

Lemma midline_wf_compatible : C15_midline_wf_compatible_stmt.
Proof.
  intros ml Hwf. destruct (wf_midline_parts ml Hwf) as (_ & _ & _ & _ & _ & H).
  unfold contra_compatible. symmetry. exact H.
Qed.

(** * The midline model with all its sub-models transformed alike *)
Definition bi_map_unis (F : uni -> uni) (b : bilateral) : bilateral :=
  {| b_ipsi := F (b_ipsi b); b_contra := F (b_contra b); b_symT := b_symT b; b_symL := b_symL b |}.
Definition ml_map_unis (F : uni -> uni) (ml : midline) : midline :=
  {| ml_ext := bi_map_unis F (ml_ext ml); ml_noext := bi_map_unis F (ml_noext ml);
     ml_central := option_map (bi_map_unis F) (ml_central ml);
     ml_unknown := option_map (bi_map_unis F) (ml_unknown ml);
     ml_mixing := ml_mixing ml; ml_midext := ml_midext ml; ml_evo := ml_evo ml; ml_symL := ml_symL ml |}.
(** the same transformation of the graph of ext.ipsi, ext.contra, noext.ipsi,
    noext.contra (and of the central / unknown sub-models, when present) *)
Definition ml_map_graphs (f : graph -> graph) : midline -> midline :=
  ml_map_unis (fun u => with_graph u (f (u_graph u))).

(** the sub-models of a midline model *)
Definition bi_unis (b : bilateral) : list uni := [b_ipsi b; b_contra b].
Definition opt_list {A} (o : option A) : list A := match o with Some a => [a] | None => [] end.
Definition ml_bis (ml : midline) : list bilateral :=
  [ml_ext ml; ml_noext ml] ++ opt_list (ml_central ml) ++ opt_list (ml_unknown ml).
Definition ml_unis (ml : midline) : list uni := flat_map bi_unis (ml_bis ml).

(** * The likelihood Spec of one patient (the factors of [ml_stage_factors]): a patient
      with recorded extension status [Some e] is scored by the sub-model ext / noext
      under the slice [ml_joint_spec ml pm e], a patient of unknown status by the
      "unknown" sub-model under the sum of the two slices *)
Definition ml_holder (ml : midline) (s : option bool) : option bilateral :=
  match s with Some true => Some (ml_ext ml) | Some false => Some (ml_noext ml) | None => ml_unknown ml end.
Definition ml_status_joint (ml : midline) (pm : vec) (s : option bool) : state -> state -> Qc :=
  match s with
  | Some e => ml_joint_spec ml pm e
  | None => fun xi xc => ml_joint_spec ml pm true xi xc + ml_joint_spec ml pm false xi xc
  end.
Definition ml_patient_lik_spec (ml : midline) (pm : vec) (s : option bool) (p : bpatient) : option Qc :=
  option_map (fun b => bi_patient_lik_spec b (ml_status_joint ml pm s) p) (ml_holder ml s).

(** ** 3. transfer of the likelihood: [b] is the sub-model that scores the patient
       (its two sides have the states of the midline's ipsi / contra graphs), [b'] its
       relabelled counterpart *)
Definition holder_iso (ml : midline) (b b' : bilateral) (pii pic : state -> state) (p p' : bpatient) : Prop :=
  u_states (b_ipsi b) = state_list (ml_gi ml) /\ u_states (b_contra b) = state_list (ml_gn ml) /\
  Permutation (map pii (u_states (b_ipsi b))) (u_states (b_ipsi b')) /\
  Permutation (map pic (u_states (b_contra b))) (u_states (b_contra b')) /\
  findings_iso (b_ipsi b) (b_ipsi b') pii (ipsi_patient p) (ipsi_patient p') /\
  findings_iso (b_contra b) (b_contra b') pic (contra_patient p) (contra_patient p').
Definition C15_midline_transfer_lik_stmt : Prop :=
  forall ml ml' pii pic pm, midline_iso ml ml' pii pic ->
    (* any scoring sub-model, known status (either slice) and unknown status (sum) *)
    (forall b b' p p' s, holder_iso ml b b' pii pic p p' ->
       bi_patient_lik_spec b' (ml_status_joint ml' pm s) p' = bi_patient_lik_spec b (ml_status_joint ml pm s) p) /\
    (* the extension sub-model: its graphs ARE the midline's ipsi / ext-contra graphs *)
    (forall p p' s,
       findings_iso (b_ipsi (ml_ext ml)) (b_ipsi (ml_ext ml')) pii (ipsi_patient p) (ipsi_patient p') ->
       findings_iso (b_contra (ml_ext ml)) (b_contra (ml_ext ml')) pic (contra_patient p) (contra_patient p') ->
       bi_patient_lik_spec (ml_ext ml') (ml_status_joint ml' pm s) p'
       = bi_patient_lik_spec (ml_ext ml) (ml_status_joint ml pm s) p).

(** ** 2. instances *)
(** (a) the order of the arcs of every sub-model graph: identity relabelling, NO
    hypothesis on the model, all states *)
Definition C15_midline_arc_order_stmt : Prop :=
  forall f ml, (forall u, In u (ml_unis ml) -> arcs_reordered (u_graph u) (f (u_graph u))) ->
    let ml' := ml_map_graphs f ml in
    (forall t e x, ml_contra_spec ml' t e x = ml_contra_spec ml t e x) /\
    (forall pm e xi xc, ml_joint_spec ml' pm e xi xc = ml_joint_spec ml pm e xi xc) /\
    (forall pm s p, ml_patient_lik_spec ml' pm s p = ml_patient_lik_spec ml pm s p).

(** (c) injective renaming of the LNL / tumour names of every sub-model graph ... *)
Definition C15_midline_renaming_stmt : Prop :=
  forall rho ml, injective rho ->
    let ml' := ml_map_graphs (rename_graph rho) ml in
    (forall t e x, ml_contra_spec ml' t e x = ml_contra_spec ml t e x) /\
    (forall pm e xi xc, ml_joint_spec ml' pm e xi xc = ml_joint_spec ml pm e xi xc).
(** ... and of the modality names, with the patient's findings renamed alike *)
Definition rename_bpatient (rl rm : string -> string) (p : bpatient) : bpatient :=
  {| bp_t := bp_t p; bp_ipsi := rename_diag rl rm (bp_ipsi p); bp_contra := rename_diag rl rm (bp_contra p) |}.
Definition C15_midline_renaming_model_stmt : Prop :=
  forall rl rm ml, injective rl -> injective rm ->
    let ml' := ml_map_unis (rename_uni rl rm) ml in
    (forall t e x, ml_contra_spec ml' t e x = ml_contra_spec ml t e x) /\
    (forall pm e xi xc, ml_joint_spec ml' pm e xi xc = ml_joint_spec ml pm e xi xc) /\
    (forall pm s p, ml_patient_lik_spec ml' pm s (rename_bpatient rl rm p) = ml_patient_lik_spec ml pm s p).

(** (b) the listing order of the nodes (and arcs) of every sub-model graph, permuted
    consistently: all sub-model graphs list the same LNL names in the same order before
    (they are built from one graph dictionary) and after; states are relabelled by
    [relist] (every LNL NAME keeps its value); findings are keyed by name, so the
    patient record is the same *)
Definition same_listing (gs : list graph) : Prop :=
  forall g g', In g gs -> In g' gs -> lnls g = lnls g' /\ g_base g = g_base g'.
Definition C15_midline_listing_order_stmt : Prop :=
  forall f ml,
    (forall u, In u (ml_unis ml) -> wf_graphb (u_graph u) = true /\ graph_relisted (u_graph u) (f (u_graph u))) ->
    same_listing (map u_graph (ml_unis ml)) ->
    same_listing (map (fun u => f (u_graph u)) (ml_unis ml)) ->
    let ml' := ml_map_graphs f ml in
    let pi := relist (ml_gi ml) (f (ml_gi ml)) in
    midline_iso ml ml' pi pi /\
    (forall t e x, In x (state_list (ml_gn ml)) -> ml_contra_spec ml' t e (pi x) = ml_contra_spec ml t e x) /\
    (forall pm e xi xc, In xi (state_list (ml_gi ml)) -> In xc (state_list (ml_gn ml)) ->
       ml_joint_spec ml' pm e (pi xi) (pi xc) = ml_joint_spec ml pm e xi xc) /\
    (forall pm s p, ml_patient_lik_spec ml' pm s p = ml_patient_lik_spec ml pm s p).

(** * Membership in the lists of sub-models *)
Lemma in_bis_ext ml : In (ml_ext ml) (ml_bis ml).
Proof. unfold ml_bis. cbn [app In]. tauto. Qed.
Lemma in_bis_noext ml : In (ml_noext ml) (ml_bis ml).
Proof. unfold ml_bis. cbn [app In]. tauto. Qed.
Lemma in_bis_unknown ml um : ml_unknown ml = Some um -> In um (ml_bis ml).
Proof. intros H. unfold ml_bis. rewrite H. rewrite !in_app_iff. cbn [opt_list In]. tauto. Qed.
Lemma in_bis_holder ml s b : ml_holder ml s = Some b -> In b (ml_bis ml).
Proof.
  destruct s as [[|]|]; cbn [ml_holder]; intros H.
  - inversion H. apply in_bis_ext.
  - inversion H. apply in_bis_noext.
  - apply in_bis_unknown, H.
Qed.
Lemma in_unis_ipsi ml b : In b (ml_bis ml) -> In (b_ipsi b) (ml_unis ml).
Proof. intros H. unfold ml_unis. apply in_flat_map. exists b. split; [exact H|]. cbn [bi_unis In]. tauto. Qed.
Lemma in_unis_contra ml b : In b (ml_bis ml) -> In (b_contra b) (ml_unis ml).
Proof. intros H. unfold ml_unis. apply in_flat_map. exists b. split; [exact H|]. cbn [bi_unis In]. tauto. Qed.
Lemma holder_map F ml s : ml_holder (ml_map_unis F ml) s = option_map (bi_map_unis F) (ml_holder ml s).
Proof. destruct s as [[|]|]; reflexivity. Qed.

(** * 3. The likelihood *)
Lemma bi_lik_transfer b b' pii pic (J J' : state -> state -> Qc) p p' :
  Permutation (map pii (u_states (b_ipsi b))) (u_states (b_ipsi b')) ->
  Permutation (map pic (u_states (b_contra b))) (u_states (b_contra b')) ->
  findings_iso (b_ipsi b) (b_ipsi b') pii (ipsi_patient p) (ipsi_patient p') ->
  findings_iso (b_contra b) (b_contra b') pic (contra_patient p) (contra_patient p') ->
  (forall xi xc, In xi (u_states (b_ipsi b)) -> In xc (u_states (b_contra b)) -> J' (pii xi) (pic xc) = J xi xc) ->
  bi_patient_lik_spec b' J' p' = bi_patient_lik_spec b J p.
Proof.
  intros Hpi Hpc Hfi Hfc HJ. unfold bi_patient_lik_spec.
  rewrite <- (sumQ_map_Permutation _ _ _ Hpi), map_map. apply sumQ_map_ext. intros xi Hxi.
  rewrite <- (sumQ_map_Permutation _ _ _ Hpc), map_map. apply sumQ_map_ext. intros xc Hxc.
  rewrite HJ, Hfi, Hfc by assumption. reflexivity.
Qed.

Lemma status_joint_transfer ml ml' pii pic pm s : midline_iso ml ml' pii pic ->
  forall xi xc, In xi (state_list (ml_gi ml)) -> In xc (state_list (ml_gn ml)) ->
    ml_status_joint ml' pm s (pii xi) (pic xc) = ml_status_joint ml pm s xi xc.
Proof.
  intros H xi xc Hxi Hxc. pose proof (joint_spec_transfer ml ml' pii pic H pm) as HJ.
  destruct s as [e|]; cbn [ml_status_joint].
  - apply HJ; assumption.
  - rewrite !HJ by assumption. reflexivity.
Qed.

Lemma midline_transfer_lik : C15_midline_transfer_lik_stmt.
Proof.
  intros ml ml' pii pic pm H.
  assert (G : forall b b' p p' s, holder_iso ml b b' pii pic p p' ->
    bi_patient_lik_spec b' (ml_status_joint ml' pm s) p' = bi_patient_lik_spec b (ml_status_joint ml pm s) p).
  { intros b b' p p' s (Hsi & Hsc & Hpi & Hpc & Hfi & Hfc).
    apply (bi_lik_transfer b b' pii pic); try assumption.
    intros xi xc Hxi Hxc. apply (status_joint_transfer ml ml' pii pic pm s H).
    - rewrite <- Hsi. exact Hxi.
    - rewrite <- Hsc. exact Hxc. }
  split; [exact G|].
  intros p p' s Hfi Hfc. apply G.
  destruct H as (_ & _ & _ & Hc & _ & (Hpe & _) & (Hpi & _)). unfold contra_compatible in Hc.
  split; [reflexivity|]. split; [exact Hc|]. split; [exact Hpi|]. split; [exact Hpe|]. split; assumption.
Qed.

(** * Identity relabelling: sub-models that agree pointwise *)
Definition graph_same (g g' : graph) : Prop :=
  state_list g' = state_list g /\ nlnls g' = nlnls g /\ (forall x y, trans_spec g' x y = trans_spec g x y).

Lemma chain_contra_eq ml ml' : ml_midext ml' = ml_midext ml ->
  graph_same (ml_gn ml) (ml_gn ml') -> graph_same (ml_ge ml) (ml_ge ml') ->
  forall t e x, chain_contra ml' t e x = chain_contra ml t e x.
Proof.
  intros Hp (Hsn & Hnn & Htn) (Hse & _ & Hte). induction t as [|t IH]; intros e x.
  - rewrite !chain_contra_0, Hnn. reflexivity.
  - destruct e.
    + rewrite !chain_contra_S_true, Hse, Hp. apply sumQ_map_ext. intros y _. rewrite !IH, Hte. reflexivity.
    + rewrite !chain_contra_S_false, Hsn, Hp. apply sumQ_map_ext. intros y _. rewrite !IH, Htn. reflexivity.
Qed.
Lemma contra_spec_eq ml ml' : ml_midext ml' = ml_midext ml -> ml_evo ml' = ml_evo ml ->
  graph_same (ml_gn ml) (ml_gn ml') -> graph_same (ml_ge ml) (ml_ge ml') ->
  forall t e x, ml_contra_spec ml' t e x = ml_contra_spec ml t e x.
Proof.
  intros Hp He Hn Hx t e x. unfold ml_contra_spec. rewrite He. destruct (ml_evo ml).
  - apply chain_contra_eq; assumption.
  - destruct Hn as (Hsn & Hnn & Htn). destruct Hx as (Hse & Hne & Hte). unfold ml_gn, ml_ge in *.
    unfold static_contra. rewrite Hp.
    rewrite (evo_spec_eq _ _ Hsn Hnn Htn), (evo_spec_eq _ _ Hse Hne Hte). reflexivity.
Qed.
Lemma joint_spec_eq ml ml' : ml_midext ml' = ml_midext ml -> ml_evo ml' = ml_evo ml -> ml_maxt ml' = ml_maxt ml ->
  graph_same (ml_gn ml) (ml_gn ml') -> graph_same (ml_ge ml) (ml_ge ml') -> graph_same (ml_gi ml) (ml_gi ml') ->
  forall pm e xi xc, ml_joint_spec ml' pm e xi xc = ml_joint_spec ml pm e xi xc.
Proof.
  intros Hp He Hm Hn Hx (Hsi & Hni & Hti) pm e xi xc. unfold ml_joint_spec, ml_gi in *. rewrite Hm.
  apply sumQ_map_ext. intros [t w] _.
  rewrite (evo_spec_eq _ _ Hsi Hni Hti), (contra_spec_eq ml ml' Hp He Hn Hx). reflexivity.
Qed.
Lemma bi_lik_eq b b' (J J' : state -> state -> Qc) p p' :
  u_states (b_ipsi b') = u_states (b_ipsi b) -> u_states (b_contra b') = u_states (b_contra b) ->
  (forall x, findings_prob (b_ipsi b') (ipsi_patient p') x = findings_prob (b_ipsi b) (ipsi_patient p) x) ->
  (forall x, findings_prob (b_contra b') (contra_patient p') x = findings_prob (b_contra b) (contra_patient p) x) ->
  (forall xi xc, J' xi xc = J xi xc) ->
  bi_patient_lik_spec b' J' p' = bi_patient_lik_spec b J p.
Proof.
  intros Hsi Hsc Hfi Hfc HJ. unfold bi_patient_lik_spec. rewrite Hsi, Hsc.
  apply sumQ_map_ext. intros xi _. apply sumQ_map_ext. intros xc _. rewrite HJ, Hfi, Hfc. reflexivity.
Qed.

(** all sub-models replaced by pointwise-equal ones *)
Lemma map_unis_identity F ml :
  (forall u, In u (ml_unis ml) -> u_maxt (F u) = u_maxt u /\ graph_same (u_graph u) (u_graph (F u))) ->
  let ml' := ml_map_unis F ml in
  (forall t e x, ml_contra_spec ml' t e x = ml_contra_spec ml t e x) /\
  (forall pm e xi xc, ml_joint_spec ml' pm e xi xc = ml_joint_spec ml pm e xi xc) /\
  (forall pm s p p',
     (forall u, In u (ml_unis ml) ->
        (forall x, findings_prob (F u) (ipsi_patient p') x = findings_prob u (ipsi_patient p) x) /\
        (forall x, findings_prob (F u) (contra_patient p') x = findings_prob u (contra_patient p) x)) ->
     ml_patient_lik_spec ml' pm s p' = ml_patient_lik_spec ml pm s p).
Proof.
  intros HF ml'.
  pose proof (HF _ (in_unis_ipsi ml _ (in_bis_ext ml))) as (Hmi & Hgi).
  pose proof (HF _ (in_unis_contra ml _ (in_bis_ext ml))) as (_ & Hge).
  pose proof (HF _ (in_unis_contra ml _ (in_bis_noext ml))) as (_ & Hgn).
  assert (HJ : forall pm e xi xc, ml_joint_spec ml' pm e xi xc = ml_joint_spec ml pm e xi xc).
  { apply joint_spec_eq; try reflexivity; assumption. }
  split; [apply contra_spec_eq; try reflexivity; assumption|]. split; [exact HJ|].
  intros pm s p p' Hf. unfold ml_patient_lik_spec. subst ml'. rewrite holder_map.
  destruct (ml_holder ml s) as [b|] eqn:Eb; cbn [option_map]; [|reflexivity]. f_equal.
  pose proof (in_bis_holder ml s b Eb) as Hb.
  pose proof (HF _ (in_unis_ipsi ml b Hb)) as (_ & Hsi & _).
  pose proof (HF _ (in_unis_contra ml b Hb)) as (_ & Hsc & _).
  apply bi_lik_eq; cbn [bi_map_unis b_ipsi b_contra].
  - exact Hsi.
  - exact Hsc.
  - apply (Hf _ (in_unis_ipsi ml b Hb)).
  - apply (Hf _ (in_unis_contra ml b Hb)).
  - intros xi xc. destruct s as [e|]; cbn [ml_status_joint]; rewrite ?HJ; reflexivity.
Qed.

(** * 2(a). Arc order *)
Lemma arcs_graph_same g g' : arcs_reordered g g' -> graph_same g g'.
Proof.
  intros H. split; [apply arcs_states, H|]. split; [|apply arcs_trans, H].
  unfold nlnls. rewrite (arcs_lnls g g' H). reflexivity.
Qed.
Lemma midline_arc_order : C15_midline_arc_order_stmt.
Proof.
  intros f ml Hf ml'.
  destruct (map_unis_identity (fun u => with_graph u (f (u_graph u))) ml) as (Hc & Hj & Hl).
  { intros u Hu. split; [reflexivity|]. apply arcs_graph_same, Hf, Hu. }
  split; [exact Hc|]. split; [exact Hj|].
  intros pm s p. apply Hl. intros u Hu.
  split; intros x; apply (arc_order_model u (f (u_graph u)) pm _ [] (Hf u Hu)).
Qed.

(** * 2(c). Renaming *)
Lemma rename_graph_same rho g : injective rho -> graph_same g (rename_graph rho g).
Proof.
  intros Hi. split; [apply rename_states|]. split; [|apply rename_trans, Hi].
  unfold nlnls. rewrite rename_lnls. apply map_length.
Qed.
Lemma midline_renaming : C15_midline_renaming_stmt.
Proof.
  intros rho ml Hi ml'.
  destruct (map_unis_identity (fun u => with_graph u (rename_graph rho (u_graph u))) ml) as (Hc & Hj & _).
  { intros u _. split; [reflexivity|]. apply rename_graph_same, Hi. }
  split; [exact Hc|exact Hj].
Qed.
Lemma midline_renaming_model : C15_midline_renaming_model_stmt.
Proof.
  intros rl rm ml Hl Hm ml'.
  destruct (map_unis_identity (rename_uni rl rm) ml) as (Hc & Hj & Hlik).
  { intros u _. split; [reflexivity|]. apply (rename_graph_same rl (u_graph u)), Hl. }
  split; [exact Hc|]. split; [exact Hj|].
  intros pm s p. apply Hlik. intros u _. split; intros x.
  - apply (rename_findings rl rm u (ipsi_patient p) x Hl Hm).
  - apply (rename_findings rl rm u (contra_patient p) x Hl Hm).
Qed.

(** * 2(b). Listing order of nodes and arcs *)
Lemma relist_congr g1 g1' g2 g2' : lnls g1 = lnls g2 -> lnls g1' = lnls g2' -> relist g1 g1' = relist g2 g2'.
Proof. intros H1 H2. unfold relist. rewrite H1, H2. reflexivity. Qed.

Lemma listed_findings u g' p x : wf_graphb (u_graph u) = true -> graph_relisted (u_graph u) g' ->
  length x = u_n u ->
  findings_prob (with_graph u g') p (relist (u_graph u) g' x) = findings_prob u p x.
Proof.
  intros Hwf H Hlen. pose proof (mid_arcs _ _ H) as Ha. pose proof (mid_nodes _ _ H) as Hn.
  destruct wf_preserved as (Hwa & _). pose proof (Hwa _ _ Ha Hwf) as Hwf1.
  set (g1 := mid_graph (u_graph u) g') in *.
  destruct (arc_order_model u g1 [] p [] Ha) as (_ & Hf1 & _).
  rewrite <- (Hf1 x). apply (relisted_findings (with_graph u g1) g' p x Hwf1 Hn). exact Hlen.
Qed.

Section ListingOrder.
  Variable f : graph -> graph.
  Variable ml : midline.
  Hypothesis Hf : forall u, In u (ml_unis ml) ->
    wf_graphb (u_graph u) = true /\ graph_relisted (u_graph u) (f (u_graph u)).
  Hypothesis Hs : same_listing (map u_graph (ml_unis ml)).
  Hypothesis Hs' : same_listing (map (fun u => f (u_graph u)) (ml_unis ml)).
  Let pi := relist (ml_gi ml) (f (ml_gi ml)).
  Let F := fun u => with_graph u (f (u_graph u)).

  Lemma listed_gi_in : In (b_ipsi (ml_ext ml)) (ml_unis ml).
  Proof. apply in_unis_ipsi, in_bis_ext. Qed.

  Lemma listed_relist u : In u (ml_unis ml) -> relist (u_graph u) (f (u_graph u)) = pi.
  Proof.
    intros Hu. apply relist_congr.
    - apply Hs; [apply (in_map u_graph), Hu|apply (in_map u_graph), listed_gi_in].
    - apply Hs'; [apply (in_map (fun u => f (u_graph u))), Hu
                 |apply (in_map (fun u => f (u_graph u)) _ _ listed_gi_in)].
  Qed.
  Lemma listed_states u : In u (ml_unis ml) -> u_states u = state_list (ml_gi ml).
  Proof.
    intros Hu. destruct (Hs (u_graph u) (ml_gi ml)) as (Hl & Hb);
      [apply (in_map u_graph), Hu|apply (in_map u_graph _ _ listed_gi_in)|].
    unfold u_states, state_list, nlnls. rewrite Hl, Hb. reflexivity.
  Qed.
  Lemma listed_iso u : In u (ml_unis ml) -> graph_iso (u_graph u) (f (u_graph u)) pi.
  Proof.
    intros Hu. rewrite <- (listed_relist u Hu). destruct (Hf u Hu) as (Hwf & Hr).
    apply (listing_order _ _ Hwf Hr).
  Qed.
  Lemma listed_findings_iso u p : In u (ml_unis ml) -> findings_iso u (F u) pi p p.
  Proof.
    intros Hu x Hx. rewrite <- (listed_relist u Hu). destruct (Hf u Hu) as (Hwf & Hr).
    apply listed_findings; [exact Hwf|exact Hr|]. apply all_states_In in Hx. apply Hx.
  Qed.

  Lemma listed_midline_iso : midline_iso ml (ml_map_graphs f ml) pi pi.
  Proof.
    pose proof listed_gi_in as Hi.
    pose proof (in_unis_contra ml _ (in_bis_ext ml)) as He.
    pose proof (in_unis_contra ml _ (in_bis_noext ml)) as Hn.
    split; [reflexivity|]. split; [reflexivity|]. split; [reflexivity|]. split.
    { unfold contra_compatible. transitivity (state_list (ml_gi ml)).
      - apply (listed_states _ He).
      - symmetry. apply (listed_states _ Hn). }
    split; [exact (listed_iso _ Hn)|]. split; [exact (listed_iso _ He)|exact (listed_iso _ Hi)].
  Qed.

  Lemma listed_holder_iso b p : In b (ml_bis ml) -> holder_iso ml b (bi_map_unis F b) pi pi p p.
  Proof.
    intros Hb. pose proof (in_unis_ipsi ml b Hb) as Hi. pose proof (in_unis_contra ml b Hb) as Hc.
    split; [apply (listed_states _ Hi)|]. split.
    { rewrite (listed_states _ Hc). symmetry. apply (listed_states _ (in_unis_contra ml _ (in_bis_noext ml))). }
    split; [apply (listed_iso _ Hi)|]. split; [apply (listed_iso _ Hc)|].
    split; [apply (listed_findings_iso _ _ Hi)|apply (listed_findings_iso _ _ Hc)].
  Qed.

  Lemma listed_all :
    midline_iso ml (ml_map_graphs f ml) pi pi /\
    (forall t e x, In x (state_list (ml_gn ml)) ->
       ml_contra_spec (ml_map_graphs f ml) t e (pi x) = ml_contra_spec ml t e x) /\
    (forall pm e xi xc, In xi (state_list (ml_gi ml)) -> In xc (state_list (ml_gn ml)) ->
       ml_joint_spec (ml_map_graphs f ml) pm e (pi xi) (pi xc) = ml_joint_spec ml pm e xi xc) /\
    (forall pm s p, ml_patient_lik_spec (ml_map_graphs f ml) pm s p = ml_patient_lik_spec ml pm s p).
  Proof.
    pose proof listed_midline_iso as H.
    destruct (midline_transfer _ _ _ _ H) as (_ & _ & Hc & Hj).
    split; [exact H|]. split; [exact Hc|]. split; [exact Hj|].
    intros pm s p. destruct (midline_transfer_lik _ _ _ _ pm H) as (G & _).
    unfold ml_patient_lik_spec, ml_map_graphs. rewrite holder_map.
    destruct (ml_holder ml s) as [b|] eqn:Eb; cbn [option_map]; [|reflexivity]. f_equal.
    apply G. apply listed_holder_iso. apply (in_bis_holder ml s b Eb).
  Qed.
End ListingOrder.

Lemma midline_listing_order : C15_midline_listing_order_stmt.
Proof. intros f ml Hf Hs Hs' ml' pi. apply listed_all; assumption. Qed.

(** * Helpers and concrete objects for the non-vacuity examples of properties/C15_midline.v *)
Lemma same_listing_intro L B gs : (forall g, In g gs -> lnls g = L /\ g_base g = B) -> same_listing gs.
Proof.
  intros H g g' Hg Hg'. destruct (H g Hg) as (-> & ->). destruct (H g' Hg') as (-> & ->). split; reflexivity.
Qed.
(** the graph dictionary listed backwards: nodes and arcs in reverse order *)
Definition rev_graph (g : graph) : graph :=
  {| g_base := g_base g; g_nodes := rev (g_nodes g); g_edges := rev (g_edges g) |}.
Lemma rev_graph_relisted g : graph_relisted g (rev_graph g).
Proof. split; [reflexivity|]. split; apply Permutation_rev. Qed.
(** only the arcs in reverse order *)
Definition rev_arcs (g : graph) : graph :=
  {| g_base := g_base g; g_nodes := g_nodes g; g_edges := rev (g_edges g) |}.
Lemma rev_arcs_reordered g : arcs_reordered g (rev_arcs g).
Proof. split; [reflexivity|]. split; [reflexivity|apply Permutation_rev]. Qed.
(** the trinary midline model of the C04 examples (LNLs II, III, arc III -> II against
    the listing order, evolving extension) with a sub-model for unknown extension status *)
Definition C15m_ex_ml : midline :=
  let m := C04_ex_ml true in
  {| ml_ext := ml_ext m; ml_noext := ml_noext m; ml_central := None; ml_unknown := Some (ml_ext m);
     ml_mixing := ml_mixing m; ml_midext := ml_midext m; ml_evo := true; ml_symL := ml_symL m |}.
Definition C15m_ex_pm : vec := [qc 1 2; qc 1 4; qc 1 4].
Definition C15m_ex_patient : bpatient :=
  {| bp_t := "early";
     bp_ipsi := [("CT", [("II", Some IInvolved); ("III", Some IHealthy)]);
                 ("path", [("II", None); ("III", Some IInvolved)])];
     bp_contra := [("CT", [("II", Some IHealthy)])] |}%string.
