(** NumpyDist: [lymph.diagnosis_times.Distribution] read statement by statement as the Python code manipulates the
    OBJECT (support, cached frozen PMF that may be None or deleted, partial function with its keyword dict), with the three
    kinds of exceptions the code can raise, and the STATIC proofs that this reading simulates the hand-written models:
    the cells of DistModel.v ([cell_pmf], [cell_kw], [cell_updateable], [cell_set_maxt], [cell_set_params]; the parametric
    function is the abstract [W]) and the distributions of Params.v ([dist_set_params], [dist_assign], [dist_kw_dict],
    [Dist.pmf]).  The source translator harness/translate9.py regenerates every [np_<function>] below from the Python
    source on every run ([gen_<function>]) and checks the generated term against the one written here by conversion.

    Reading of the object (see also the docstring of translate9.py):
    - [o_support]: [self.support], a list of naturals; [np.arange(n)] for a Python int n is [np_arange n];
    - [o_frozen : option (option vec)]: [None] = the attribute [_frozen] does not exist ([del self._frozen]),
      [Some None] = it is Python's None, [Some (Some p)] = the array p;
    - [o_func : option (list (string * K))]: [None] = [self._func is None], [Some kws] = [partial(f, **kws)] for the one
      underlying parametric function f of the object, which is a PARAMETER [func : list nat -> list (string * K) -> option vec]
      of every definition that calls it ([None] = f raises ValueError).  [K] is the type of the keyword values ([Qc] for
      DistModel.v, [val] for Params.v);
    - a method is a function [dobj K -> ... -> dobj K * dres R]: the object as Python leaves it, and the exception
      ([DValue] ValueError, [DType] TypeError, [DAttr] AttributeError) or the returned value;
    - [*args] is a list over a type [A] of user values, [py_val : A -> option K] reads one ([None] = Python's None);
      [**kwargs] is of a type [KW] with [kw_lookup kwargs name default] = [kwargs.get(name, default)];
    - the loop over [self._func.keywords.items()] iterates over the items as they are when the loop starts ([py_for]);
      the body only overwrites the value of the current key.

    The object carries more than the models (the cache), so the statements are simulations with respect to the
    representation relations [dist_repr] (cells) and [pdist_repr] (Params.v): from related states the method returns what
    the model says and leaves related states.

    Second part: the leaf branch of [Composite.set_distribution_params] / [get_distribution_params] over the dict
    [self._distributions] of such objects ([py_for_items] of NumpyParams.v) against [Params.set_dists_for],
    [Params.u_set_distribution_params], [Params.dists_get_params]. *)
From LymphModel Require Import Base States Linalg Graph Transition Observation Dist Unilateral Models DistModel Params ParamsStatements ParamsLemmas NumpyParams.
Local Open Scope nat_scope.
Local Open Scope string_scope.
Local Open Scope list_scope.

(** * numpy *)
Definition np_array (v : vec) : vec := v.
Definition np_sum (v : vec) : Qc := sumQ v.
Definition np_div (v : vec) (s : Qc) : vec := map (fun a => (a / s)%Qc) v.
Definition np_arange (n : Z) : list nat := seq 0 (Z.to_nat n).

(** Distribution.normalize:  distribution = np.array(distribution) ; return distribution / np.sum(distribution) *)
Definition np_normalize (distribution : vec) : vec :=
  let distribution := np_array distribution in
  np_div distribution (np_sum distribution).
Lemma np_normalize_eq w : np_normalize w = normalize w.
Proof. reflexivity. Qed.

(** * The object *)
Record dobj (K : Type) := mk_dobj {
  o_support : list nat;
  o_frozen : option (option vec);
  o_func : option (list (string * K)) }.
Arguments mk_dobj {K}.
Arguments o_support {K}.
Arguments o_frozen {K}.
Arguments o_func {K}.

Definition py_is_none {T} (o : option T) : bool := match o with None => true | Some _ => false end.
(** hasattr(self, "_x") on an attribute read as [option]: does it exist *)
Definition py_hasattr {T} (o : option T) : bool := match o with None => false | Some _ => true end.

Definition set_support {K} (o : dobj K) (s : list nat) : dobj K := mk_dobj s (o_frozen o) (o_func o).
(** self._frozen = v  (v = None: Python's None) *)
Definition set_frozen {K} (o : dobj K) (v : option vec) : dobj K := mk_dobj (o_support o) (Some v) (o_func o).
Definition set_func {K} (o : dobj K) (f : option (list (string * K))) : dobj K := mk_dobj (o_support o) (o_frozen o) f.
(** del self._frozen *)
Definition del_frozen {K} (o : dobj K) : dobj K * dres unit :=
  match o_frozen o with
  | None => (o, inl DAttr)
  | Some _ => (mk_dobj (o_support o) None (o_func o), inr tt)
  end.
(** self._frozen *)
Definition rd_frozen {K} (o : dobj K) : dobj K * dres (option vec) :=
  match o_frozen o with None => (o, inl DAttr) | Some v => (o, inr v) end.
(** self._func.keywords *)
Definition rd_keywords {K} (o : dobj K) : dobj K * dres (list (string * K)) :=
  match o_func o with None => (o, inl DAttr) | Some kws => (o, inr kws) end.
(** self._func.keywords[name] = v *)
Definition wr_keyword {K} (o : dobj K) (name : string) (v : K) : dobj K * dres unit :=
  match o_func o with
  | None => (o, inl DAttr)
  | Some kws => (set_func o (Some (dict_set name v kws)), inr tt)
  end.
(** self._func.keywords.update(src) *)
Definition upd_keywords {K} (o : dobj K) (src : list (string * K)) : dobj K * dres unit :=
  match o_func o with
  | None => (o, inl DAttr)
  | Some kws => (set_func o (Some (dict_update kws src)), inr tt)
  end.
(** self._func(x): TypeError when [_func] is None, ValueError when the parametric function raises it *)
Definition call_func {K} (func : list nat -> list (string * K) -> option vec) (o : dobj K) (x : list nat) : dobj K * dres vec :=
  match o_func o with
  | None => (o, inl DType)
  | Some kws => match func x kws with None => (o, inl DValue) | Some w => (o, inr w) end
  end.

(** for x in l: BODY, where BODY may change the object, rebinds the loop-carried variable and may raise *)
Fixpoint py_for {S X C} (body : X -> S -> C -> S * dres C) (l : list X) (s : S) (c : C) : S * dres C :=
  match l with
  | [] => (s, inr c)
  | x :: r =>
      match body x s c with
      | (s, inl e) => (s, inl e)
      | (s, inr c) => py_for body r s c
      end
  end.

(** first, args = popfirst(args); if first is None: first = d *)
Definition py_default {A K} (py_val : A -> option K) (first : option A) (d : K) : K :=
  match first with
  | None => d
  | Some a => match py_val a with None => d | Some k => k end
  end.

(** * The methods, statement by statement *)
(** is_updateable:  return self._func is not None *)
Definition np_is_updateable {K} (self : dobj K) : dobj K * dres bool :=
  (self, inr (negb (py_is_none (o_func self)))).

(** max_time setter:  if value < 0: raise ValueError ; self.support = np.arange(value + 1) ; self._frozen = None *)
Definition np_max_time_set {K} (self : dobj K) (value : Z) : dobj K * dres unit :=
  if (value <? 0)%Z then (self, inl DValue)
  else
    let self := set_support self (np_arange (value + 1)%Z) in
    let self := set_frozen self None in
    (self, inr tt).

(** pmf:  if not hasattr(self, "_frozen") or self._frozen is None:
              self._frozen = self.normalize(self._func(self.support))
          return self._frozen *)
Definition np_pmf {K} (func : list nat -> list (string * K) -> option vec) (self : dobj K) : dobj K * dres (option vec) :=
  match (if negb (py_hasattr (o_frozen self)) then (self, inr true)
         else match rd_frozen self with
              | (self, inl e) => (self, inl e)
              | (self, inr x1) => (self, inr (py_is_none x1))
              end) with
  | (self, inl e) => (self, inl e)
  | (self, inr x2) =>
      match (if x2 then
               match call_func func self (o_support self) with
               | (self, inl e) => (self, inl e)
               | (self, inr x3) =>
                   let self := set_frozen self (Some (np_normalize x3)) in
                   (self, inr tt)
               end
             else (self, inr tt)) with
      | (self, inl e) => (self, inl e)
      | (self, inr _) =>
          match rd_frozen self with
          | (self, inl e) => (self, inl e)
          | (self, inr x4) => (self, inr x4)
          end
      end
  end.

(** get_params(as_dict=True):  if not self.is_updateable: return {} ; return self._func.keywords *)
Definition np_get_params {K} (self : dobj K) : dobj K * dres (list (string * K)) :=
  match np_is_updateable self with
  | (self, inl e) => (self, inl e)
  | (self, inr x1) =>
      if negb x1 then (self, inr ([] : list (string * K)))
      else
        match rd_keywords self with
        | (self, inl e) => (self, inl e)
        | (self, inr x2) => (self, inr x2)
        end
  end.

(** the body of the loop of set_params:
      first, args = popfirst(args)
      if first is None: first = value
      self._func.keywords[name] = kwargs.get(name, first)
      if hasattr(self, "_frozen"): del self._frozen *)
Definition np_set_params_body {K A KW} (py_val : A -> option K) (kw_lookup : KW -> string -> K -> K) (kwargs : KW)
  : string * K -> dobj K -> list A -> dobj K * dres (list A) :=
  fun '((name, value) : string * K) self args =>
    let '(first, args) := Params.popfirst args in
    let first := py_default py_val first value in
    match wr_keyword self name (kw_lookup kwargs name first) with
    | (self, inl e) => (self, inl e)
    | (self, inr _) =>
        match (if py_hasattr (o_frozen self) then
                 match del_frozen self with
                 | (self, inl e) => (self, inl e)
                 | (self, inr _) => (self, inr tt)
                 end
               else (self, inr tt)) with
        | (self, inl e) => (self, inl e)
        | (self, inr _) => (self, inr args)
        end
    end.

(** try: _ = self.pmf  except ValueError: self._func.keywords.update(old_kwargs) ; raise ValueError ;  return args *)
Definition np_set_params_try {K A} (func : list nat -> list (string * K) -> option vec) (self : dobj K)
    (old_kwargs : list (string * K)) (args : list A) : dobj K * dres (list A) :=
  match (match np_pmf func self with
         | (self, inl e) => (self, inl e)
         | (self, inr x4) => (self, inr tt)
         end) with
  | (self, inl DValue) =>
      match upd_keywords self old_kwargs with
      | (self, inl e) => (self, inl e)
      | (self, inr _) => (self, inl DValue)
      end
  | (self, inl e) => (self, inl e)
  | (self, inr _) => (self, inr args)
  end.

(** set_params( *args, **kwargs) *)
Definition np_set_params {K A KW} (func : list nat -> list (string * K) -> option vec) (py_val : A -> option K)
    (kw_lookup : KW -> string -> K -> K) (self : dobj K) (args : list A) (kwargs : KW) : dobj K * dres (list A) :=
  match np_is_updateable self with
  | (self, inl e) => (self, inl e)
  | (self, inr x1) =>
      if negb x1 then (self, inr args)
      else
        match rd_keywords self with
        | (self, inl e) => (self, inl e)
        | (self, inr x2) =>
            let old_kwargs := x2 in
            match rd_keywords self with
            | (self, inl e) => (self, inl e)
            | (self, inr x3) =>
                match py_for (np_set_params_body py_val kw_lookup kwargs) x3 self args with
                | (self, inl e) => (self, inl e)
                | (self, inr args) => np_set_params_try func self old_kwargs args
                end
            end
        end
  end.

(** * Generic facts about the reading (any type of keyword values) *)
Section Generic.
  Context {K A KW : Type}.
  Variable func : list nat -> list (string * K) -> option vec.
  Variable py_val : A -> option K.
  Variable kw_lookup : KW -> string -> K -> K.

  (** the cached array, when there is one, is what the function gives for the current support and keywords *)
  Definition cache_ok (o : dobj K) (kws : list (string * K)) : Prop :=
    forall p, o_frozen o = Some (Some p) -> exists w, func (o_support o) kws = Some w /\ p = normalize w.

  Lemma np_pmf_spec (o : dobj K) :
    np_pmf func o =
    match o_frozen o with
    | Some (Some p) => (o, inr (Some p))
    | _ => match o_func o with
           | None => (o, inl DType)
           | Some kws => match func (o_support o) kws with
                         | None => (o, inl DValue)
                         | Some w => (set_frozen o (Some (normalize w)), inr (Some (normalize w)))
                         end
           end
    end.
  Proof.
    destruct o as [sup [[p|]|] [kws|]]; unfold np_pmf, rd_frozen, call_func, set_frozen, py_hasattr, py_is_none;
      cbn [o_frozen o_func o_support negb]; try reflexivity; destruct (func sup kws); reflexivity.
  Qed.

  (** the keywords after the loop of set_params and the positional arguments that are left *)
  Fixpoint assign (kws : list (string * K)) (a : list A) (kw : KW) : list (string * K) * list A :=
    match kws with
    | [] => ([], a)
    | (name, value) :: r =>
        let '(first, a') := Params.popfirst a in
        let v := kw_lookup kw name (py_default py_val first value) in
        let '(r', rest) := assign r a' kw in
        ((name, v) :: r', rest)
    end.

  Lemma assign_keys kws : forall a kw, map fst (fst (assign kws a kw)) = map fst kws.
  Proof.
    induction kws as [|[n v] r IH]; intros a kw; [reflexivity|]. cbn [assign].
    destruct (Params.popfirst a) as [first a']. specialize (IH a' kw). destruct (assign r a' kw) as [r' rest].
    cbn [fst map] in *. rewrite IH. reflexivity.
  Qed.

  Lemma dict_set_app_notin {V} (k : string) (v w : V) d1 d2 :
    ~ In k (map fst d1) -> dict_set k v (d1 ++ (k, w) :: d2) = d1 ++ (k, v) :: d2.
  Proof.
    induction d1 as [|[k' w'] d1 IH]; intros H; cbn [app dict_set].
    - rewrite str_eqb_refl. reflexivity.
    - cbn [map fst In] in H. rewrite str_eqb_neq by (intros E; apply H; left; symmetry; exact E).
      rewrite IH by (intros Hin; apply H; right; exact Hin). reflexivity.
  Qed.

  Lemma NoDup_app_mid_notin (k : string) (l1 l2 : list string) : NoDup (l1 ++ k :: l2) -> ~ In k l1.
  Proof. intros H Hin. apply NoDup_remove_2 in H. apply H. apply in_or_app. left. exact Hin. Qed.

  (** dst.update(src) when both have the same keys in the same order: dst becomes src *)
  Lemma dict_update_restore {V} (u : list (string * V)) : forall done rem,
    map fst rem = map fst u -> NoDup (map fst (done ++ rem)) -> dict_update (done ++ rem) u = done ++ u.
  Proof.
    induction u as [|[k v] u IH]; intros done rem Hk Hn.
    - destruct rem; [reflexivity|discriminate Hk].
    - destruct rem as [|[k' w] rem]; [discriminate Hk|]. cbn [map fst] in Hk. injection Hk as -> Hk.
      cbn [dict_update]. rewrite dict_set_app_notin.
      2:{ rewrite map_app in Hn. cbn [map fst] in Hn. apply NoDup_app_mid_notin in Hn. exact Hn. }
      change (done ++ (k, v) :: rem) with (done ++ [(k, v)] ++ rem). rewrite app_assoc. rewrite IH.
      + rewrite <- app_assoc. reflexivity.
      + exact Hk.
      + rewrite <- app_assoc. rewrite map_app in *. cbn [map fst app] in *. exact Hn.
  Qed.

  Lemma np_set_params_body_spec kw name value (o : dobj K) kws a :
    o_func o = Some kws ->
    np_set_params_body py_val kw_lookup kw (name, value) o a
    = (mk_dobj (o_support o) None
         (Some (dict_set name (kw_lookup kw name (py_default py_val (fst (Params.popfirst a)) value)) kws)),
       inr (snd (Params.popfirst a))).
  Proof.
    intros Hf. unfold np_set_params_body. destruct (Params.popfirst a) as [first a']. cbn [fst snd].
    unfold wr_keyword. rewrite Hf. destruct o as [sup fr fn]. unfold set_func, del_frozen, py_hasattr.
    cbn [o_support o_frozen o_func]. destruct fr; reflexivity.
  Qed.

  Lemma np_set_params_loop kw : forall r done (o : dobj K) a,
    o_func o = Some (done ++ r) -> NoDup (map fst (done ++ r)) ->
    py_for (np_set_params_body py_val kw_lookup kw) r o a
    = (mk_dobj (o_support o) (match r with [] => o_frozen o | _ :: _ => None end) (Some (done ++ fst (assign r a kw))),
       inr (snd (assign r a kw))).
  Proof.
    induction r as [|[n v] r IH]; intros done o a Hf Hn.
    - cbn [py_for assign fst snd]. destruct o as [sup fr fn]. cbn [o_func o_support o_frozen] in *. rewrite Hf. reflexivity.
    - cbn [py_for]. rewrite (np_set_params_body_spec kw n v o (done ++ (n, v) :: r) a Hf).
      cbn [assign]. destruct (Params.popfirst a) as [first a']. cbn [fst snd].
      rewrite dict_set_app_notin.
      2:{ rewrite map_app in Hn. cbn [map fst] in Hn. apply NoDup_app_mid_notin in Hn. exact Hn. }
      set (v' := kw_lookup kw n (py_default py_val first v)).
      specialize (IH (done ++ [(n, v')]) (mk_dobj (o_support o) None (Some (done ++ (n, v') :: r))) a').
      rewrite IH.
      + cbn [o_support o_frozen]. destruct (assign r a' kw) as [r' rest]. cbn [fst snd].
        rewrite <- app_assoc. cbn [app]. destruct r; reflexivity.
      + cbn [o_func]. rewrite <- app_assoc. reflexivity.
      + rewrite <- app_assoc. cbn [app]. rewrite map_app in *. cbn [map fst] in *. exact Hn.
  Qed.

  (** set_params of an updateable object, in one step *)
  Lemma np_set_params_core (o : dobj K) kws a kw :
    o_func o = Some kws -> NoDup (map fst kws) -> cache_ok o kws ->
    np_set_params func py_val kw_lookup o a kw
    = match func (o_support o) (fst (assign kws a kw)) with
      | Some w => (mk_dobj (o_support o) (Some (Some (normalize w))) (Some (fst (assign kws a kw))), inr (snd (assign kws a kw)))
      | None => (mk_dobj (o_support o) (match kws with [] => o_frozen o | _ :: _ => None end) (Some kws), inl DValue)
      end.
  Proof.
    intros Hf Hn Hc. unfold np_set_params, np_is_updateable, rd_keywords. rewrite Hf. cbn [py_is_none negb]. rewrite Hf.
    rewrite (np_set_params_loop kw kws [] o a) by (cbn [app]; assumption). cbn [app].
    pose proof (assign_keys kws a kw) as Hk. destruct (assign kws a kw) as [kws' rest]. cbn [fst snd] in *.
    unfold np_set_params_try. rewrite np_pmf_spec. cbn [o_frozen o_func o_support].
    destruct kws as [|kv kws].
    - destruct kws'; [|discriminate Hk]. destruct (o_frozen o) as [[p|]|] eqn:Ef.
      + destruct (Hc p Ef) as [w [Hw ->]]. rewrite Hw. destruct o as [sup fr fn]. cbn [o_support o_frozen o_func] in *.
        reflexivity.
      + destruct (func (o_support o) []); [reflexivity|]. unfold upd_keywords. cbn [o_func dict_update set_func o_support o_frozen]. reflexivity.
      + destruct (func (o_support o) []); [reflexivity|]. unfold upd_keywords. cbn [o_func dict_update set_func o_support o_frozen]. reflexivity.
    - destruct (func (o_support o) kws'); [reflexivity|]. unfold upd_keywords, set_func. cbn [o_func o_support o_frozen].
      change kws' with ([] ++ kws') at 1. rewrite (dict_update_restore (kv :: kws) [] kws'); [reflexivity | exact Hk | cbn [app]; rewrite Hk; exact Hn].
  Qed.

  Lemma np_set_params_frozen (o : dobj K) a kw : o_func o = None -> np_set_params func py_val kw_lookup o a kw = (o, inr a).
  Proof. intros Hf. unfold np_set_params, np_is_updateable. rewrite Hf. reflexivity. Qed.
End Generic.

(** * Cells of DistModel.v *)
Section Cells.
  Variable W : nat -> nat -> list (string * Qc) -> option vec.
  Variable func : list nat -> list (string * Qc) -> option vec.

  (** the object [o] represents the cell [c]: same support; a frozen cell has no function and holds its array unless the
      max_time setter dropped it; a parametric cell holds its keywords, its underlying function evaluated on
      [np.arange(m+1)] is [W f m], and whatever is cached is up to date *)
  Definition dist_repr (c : cell) (o : dobj Qc) : Prop :=
    o_support o = seq 0 (S (c_maxt c)) /\
    match c_dist c with
    | Frozen p => o_func o = None /\ o_frozen o = (if c_stale c then Some None else Some (Some p))
    | Param f kw => o_func o = Some kw /\ (forall m kws, func (seq 0 (S m)) kws = W f m kws) /\ cache_ok func o kw
    end.

  (** kwargs.get(name, default) on a dict name -> number *)
  Definition cell_lookup (kw : list (string * Qc)) (name : string) (d : Qc) : Qc :=
    match dict_get name kw with Some x => x | None => d end.

  Lemma np_is_updateable_cell c o : dist_repr c o -> np_is_updateable o = (o, inr (cell_updateable c)).
  Proof.
    intros [_ H]. unfold np_is_updateable, cell_updateable. destruct (c_dist c); [destruct H as [-> _]|destruct H as [-> _]]; reflexivity.
  Qed.

  Lemma np_get_params_cell c o : dist_repr c o -> np_get_params o = (o, inr (cell_kw c)).
  Proof.
    intros [_ H]. unfold np_get_params, np_is_updateable, rd_keywords, cell_kw.
    destruct (c_dist c); [destruct H as [-> _]|destruct H as [-> _]]; reflexivity.
  Qed.

  Lemma np_max_time_set_cell c o v : dist_repr c o ->
    if (v <? 0)%Z then np_max_time_set o v = (o, inl DValue)
    else exists o', np_max_time_set o v = (o', inr tt) /\ dist_repr (cell_set_maxt c (Z.to_nat v)) o'.
  Proof.
    intros [Hs H]. unfold np_max_time_set. destruct (v <? 0)%Z eqn:E; [reflexivity|].
    eexists. split; [reflexivity|]. apply Z.ltb_ge in E. unfold dist_repr, cell_set_maxt, cell_updateable, set_frozen, set_support, np_arange.
    cbn [o_support o_frozen o_func c_maxt c_dist c_stale]. split.
    - replace (v + 1)%Z with (Z.succ v) by lia. rewrite Z2Nat.inj_succ by exact E. reflexivity.
    - destruct (c_dist c) as [p|f kw].
      + destruct H as [Hf _]. split; [exact Hf|reflexivity].
      + destruct H as [Hf [Hw _]]. split; [exact Hf|]. split; [exact Hw|]. intros p Hp. discriminate Hp.
  Qed.

  Lemma np_pmf_cell c o : dist_repr c o ->
    exists o', np_pmf func o = (o', match cell_pmf W c with inl e => inl e | inr p => inr (Some p) end) /\ dist_repr c o'.
  Proof.
    intros [Hs H]. rewrite np_pmf_spec. unfold cell_pmf. destruct (c_dist c) as [p|f kw] eqn:Ed.
    - destruct H as [Hf Hz]. rewrite Hz, Hf. destruct (c_stale c) eqn:Est; (eexists; split; [reflexivity|]);
        (split; [exact Hs|]); rewrite Ed, Est; (split; assumption).
    - destruct H as [Hf [Hw Hc]]. rewrite Hf, Hs, Hw.
      destruct (o_frozen o) as [[p|]|] eqn:Ef.
      + destruct (Hc p Ef) as [w [Hw' ->]]. rewrite Hs, Hw in Hw'. rewrite Hw'.
        eexists. split; [reflexivity|]. split; [exact Hs|]. rewrite Ed. split; [exact Hf|]. split; [exact Hw|exact Hc].
      + destruct (W f (c_maxt c) kw) as [w|] eqn:Ew.
        * eexists. split; [reflexivity|]. unfold set_frozen. cbn [o_support o_frozen o_func]. split; [exact Hs|]. rewrite Ed.
          split; [exact Hf|]. split; [exact Hw|]. intros p Hp. cbn [o_frozen o_support] in *. injection Hp as <-. exists w.
          rewrite Hs, Hw. split; [exact Ew|reflexivity].
        * eexists. split; [reflexivity|]. split; [exact Hs|]. rewrite Ed. split; [exact Hf|]. split; [exact Hw|exact Hc].
      + destruct (W f (c_maxt c) kw) as [w|] eqn:Ew.
        * eexists. split; [reflexivity|]. unfold set_frozen. cbn [o_support o_frozen o_func]. split; [exact Hs|]. rewrite Ed.
          split; [exact Hf|]. split; [exact Hw|]. intros p Hp. cbn [o_frozen o_support] in *. injection Hp as <-. exists w.
          rewrite Hs, Hw. split; [exact Ew|reflexivity].
        * eexists. split; [reflexivity|]. split; [exact Hs|]. rewrite Ed. split; [exact Hf|]. split; [exact Hw|exact Hc].
  Qed.

  Lemma assign_set_kw kw : forall a kwargs, assign (fun x : option Qc => x) cell_lookup kw a kwargs = set_kw kw a kwargs.
  Proof.
    induction kw as [|[n v] r IH]; intros a kwargs; [reflexivity|]. cbn [assign set_kw].
    destruct a as [|x a']; cbn [Params.popfirst DistModel.popfirst]; rewrite IH; unfold py_default, cell_lookup;
      [|destruct x]; reflexivity.
  Qed.

  Lemma np_set_params_cell c o a kw : dist_repr c o -> NoDup (map fst (cell_kw c)) ->
    exists o', match cell_set_params W c a kw with
               | inl c' => np_set_params func (fun x : option Qc => x) cell_lookup o a kw = (o', inl DValue) /\ dist_repr c' o'
               | inr (c', rest) => np_set_params func (fun x : option Qc => x) cell_lookup o a kw = (o', inr rest) /\ dist_repr c' o'
               end.
  Proof.
    intros [Hs H] Hn. unfold cell_set_params, cell_kw in *. destruct (c_dist c) as [p|f kws] eqn:Ed.
    - destruct H as [Hf Hz]. exists o. split; [apply np_set_params_frozen; exact Hf|]. split; [exact Hs|]. rewrite Ed. split; assumption.
    - destruct H as [Hf [Hw Hc]].
      pose proof (np_set_params_core func (fun x : option Qc => x) cell_lookup o kws a kw Hf Hn Hc) as E.
      rewrite assign_set_kw, Hs, Hw in E. destruct (set_kw kws a kw) as [kws' rest]. cbn [fst snd] in E.
      destruct (W f (c_maxt c) kws') as [w|] eqn:Ew.
      + eexists. split; [exact E|]. unfold dist_repr. cbn [c_maxt c_dist o_support o_func]. split; [reflexivity|].
        split; [reflexivity|]. split; [exact Hw|]. intros p Hp. cbn [o_frozen o_support] in *. injection Hp as <-. exists w.
        rewrite Hw. split; [exact Ew|reflexivity].
      + eexists. split; [exact E|]. unfold dist_repr. cbn [o_support o_func]. split; [reflexivity|]. rewrite Ed.
        split; [reflexivity|]. split; [exact Hw|]. intros p Hp. cbn [o_frozen o_support] in *.
        destruct kws; [|discriminate Hp]. destruct (Hc p Hp) as [w [Hw' ->]]. exists w. rewrite Hs in Hw'. split; [exact Hw'|reflexivity].
  Qed.
End Cells.

(** * Distributions of Params.v: keyword values are [val]s, the parametric function is [fam_weights] *)
Definition vals (kws : list (string * Qc)) : list (string * val) := map (fun kv => (fst kv, V (snd kv))) kws.
Definition dist_kws (d : dist) : list (string * Qc) := match d with Frozen _ => [] | Param _ kws => kws end.
(** the underlying function of the object of [d]: a non-finite keyword value ([Bad]) makes it raise *)
Definition pfunc (d : dist) : list nat -> list (string * val) -> option vec :=
  fun sup kws =>
    match d with
    | Frozen _ => None
    | Param f _ => match all_vals kws with None => None | Some k => fam_weights f (length sup - 1) k end
    end.
(** kwargs.get(name, default) on Params.kwargs: the key "name" is the one-component path *)
Definition params_lookup (kw : kwargs) (name : string) (d : val) : val := kw_get_or [name] kw d.
(** the dict of an updateable distribution as the [pdict] of Params.v *)
Definition pdict_of_vals (l : list (string * val)) : option pdict := option_map dist_kw_dict (all_vals l).

Definition pdist_repr (maxt : nat) (d : dist) (o : dobj val) : Prop :=
  o_support o = seq 0 (S maxt) /\
  match d with
  | Frozen p => o_func o = None /\ o_frozen o = Some (Some p)
  | Param f kws => o_func o = Some (vals kws) /\ cache_ok (pfunc d) o (vals kws)
  end.

Lemma all_vals_vals kws : all_vals (vals kws) = Some kws.
Proof. induction kws as [|[n v] r IH]; [reflexivity|]. cbn [vals map fst snd all_vals]. fold (vals r). rewrite IH. reflexivity. Qed.
Lemma all_vals_inv l : forall k, all_vals l = Some k -> l = vals k.
Proof.
  induction l as [|[n [q|]] l IH]; intros k H; cbn [all_vals] in H; [injection H as <-; reflexivity| |discriminate H].
  destruct (all_vals l) as [k'|]; [|discriminate H]. injection H as <-. cbn [vals map fst snd]. fold (vals k'). rewrite (IH k' eq_refl). reflexivity.
Qed.
Lemma vals_keys kws : map fst (vals kws) = map fst kws.
Proof. unfold vals. rewrite map_map. reflexivity. Qed.
Lemma pdict_of_vals_vals kws : pdict_of_vals (vals kws) = Some (dist_kw_dict kws).
Proof. unfold pdict_of_vals. rewrite all_vals_vals. reflexivity. Qed.

Lemma assign_dist_assign kws : forall a kw, assign (@Some val) params_lookup (vals kws) a kw = dist_assign kws a kw.
Proof.
  induction kws as [|[n v] r IH]; intros a kw; [reflexivity|]. cbn [vals map fst snd assign dist_assign]. fold (vals r).
  destruct (Params.popfirst a) as [first a']. rewrite IH. unfold params_lookup, py_default, val_or.
  destruct (dist_assign r a' kw). destruct first; reflexivity.
Qed.

Lemma seq_len_pred m : length (seq 0 (S m)) - 1 = m.
Proof. rewrite seq_length. lia. Qed.

Lemma np_get_params_params maxt d o : pdist_repr maxt d o -> np_get_params o = (o, inr (vals (dist_kws d))).
Proof.
  intros [_ H]. unfold np_get_params, np_is_updateable, rd_keywords. destruct d; [destruct H as [-> _]|destruct H as [-> _]]; reflexivity.
Qed.

Lemma np_pmf_params maxt d o : pdist_repr maxt d o ->
  exists o', np_pmf (pfunc d) o = (o', match pmf maxt d with None => inl DValue | Some p => inr (Some p) end)
             /\ pdist_repr maxt d o'.
Proof.
  intros [Hs H]. rewrite np_pmf_spec. destruct d as [p|f kws].
  - destruct H as [Hf Hz]. rewrite Hz. exists o. split; [reflexivity|]. split; [exact Hs|]. split; assumption.
  - destruct H as [Hf Hc]. rewrite Hf. cbn [pmf].
    assert (Ev : forall sup, pfunc (Param f kws) sup (vals kws) = fam_weights f (length sup - 1) kws)
      by (intros sup; unfold pfunc; rewrite all_vals_vals; reflexivity).
    destruct (o_frozen o) as [[p|]|] eqn:Ef.
    + destruct (Hc p Ef) as [w [Hw ->]]. rewrite Ev, Hs, seq_len_pred in Hw. rewrite Hw. exists o. cbn [option_map].
      split; [reflexivity|]. split; [exact Hs|]. split; assumption.
    + rewrite Ev, Hs, seq_len_pred. destruct (fam_weights f maxt kws) as [w|] eqn:Ew; cbn [option_map].
      * eexists. split; [reflexivity|]. unfold set_frozen. split; [exact Hs|]. cbn [o_func]. split; [exact Hf|].
        intros p Hp. cbn [o_frozen o_support] in *. injection Hp as <-. exists w. rewrite Ev, Hs, seq_len_pred. split; [exact Ew|reflexivity].
      * exists o. split; [reflexivity|]. split; [exact Hs|]. split; assumption.
    + rewrite Ev, Hs, seq_len_pred. destruct (fam_weights f maxt kws) as [w|] eqn:Ew; cbn [option_map].
      * eexists. split; [reflexivity|]. unfold set_frozen. split; [exact Hs|]. cbn [o_func]. split; [exact Hf|].
        intros p Hp. cbn [o_frozen o_support] in *. injection Hp as <-. exists w. rewrite Ev, Hs, seq_len_pred. split; [exact Ew|reflexivity].
      * exists o. split; [reflexivity|]. split; [exact Hs|]. split; assumption.
Qed.

Lemma np_set_params_params maxt d o a kw : pdist_repr maxt d o -> NoDup (map fst (dist_kws d)) ->
  exists o', np_set_params (pfunc d) (@Some val) params_lookup o a kw
             = (o', match snd (dist_set_params maxt d a kw) with None => inl DValue | Some a' => inr a' end)
             /\ pdist_repr maxt (fst (dist_set_params maxt d a kw)) o'.
Proof.
  intros [Hs H] Hn. destruct d as [p|f kws].
  - destruct H as [Hf Hz]. exists o. cbn [dist_set_params fst snd]. split; [apply np_set_params_frozen; exact Hf|].
    split; [exact Hs|]. split; assumption.
  - destruct H as [Hf Hc]. cbn [dist_kws] in Hn.
    rewrite (np_set_params_core (pfunc (Param f kws)) _ _ o (vals kws) a kw Hf) by (rewrite ?vals_keys; assumption).
    rewrite assign_dist_assign. cbn [dist_set_params]. destruct (dist_assign kws a kw) as [new a'] eqn:Ea. cbn [fst snd].
    assert (Hfail : pdist_repr maxt (Param f kws)
              (mk_dobj (o_support o) (match vals kws with [] => o_frozen o | _ :: _ => None end) (Some (vals kws)))).
    { split; [exact Hs|]. cbn [o_func]. split; [reflexivity|]. intros p Hp. cbn [o_frozen o_support] in *.
      destruct (vals kws) eqn:Ev; [|discriminate Hp]. rewrite <- Ev. destruct (Hc p Hp) as [w [Hw ->]]. exists w.
      rewrite <- Ev in Hw. split; [exact Hw|reflexivity]. }
    unfold pfunc at 1. destruct (all_vals new) as [kws'|] eqn:Eall.
    + rewrite Hs, seq_len_pred. destruct (fam_weights f maxt kws') as [w|] eqn:Ew; cbn [fst snd].
      * eexists. split; [reflexivity|]. apply all_vals_inv in Eall. subst new. split; [reflexivity|]. cbn [o_func].
        split; [reflexivity|]. intros p Hp. cbn [o_frozen o_support] in *. injection Hp as <-. exists w.
        unfold pfunc. rewrite all_vals_vals, seq_len_pred. split; [exact Ew|reflexivity].
      * eexists. split; [reflexivity|]. rewrite Hs in Hfail. exact Hfail.
    + cbn [fst snd]. eexists. split; [reflexivity|]. exact Hfail.
Qed.

(** * Composite, leaf branch: the dict [self._distributions] of Distribution objects *)
(** for key, obj in objects.items(): BODY  (NumpyParams.py_for_items with the exceptions of this file): objects are
    replaced in place, an exception stops the loop and leaves the remaining objects untouched *)
Fixpoint py_for_items_d {O C} (body : string -> O -> C -> O * dres C) (objects : list (string * O)) (c : C)
  : list (string * O) * dres C :=
  match objects with
  | [] => ([], inr c)
  | (key, obj) :: rest =>
      match body key obj c with
      | (obj, inl e) => ((key, obj) :: rest, inl e)
      | (obj, inr c) => let '(rest, r) := py_for_items_d body rest c in ((key, obj) :: rest, r)
      end
  end.

(** the body of the loop of set_distribution_params:
      if not distribution.is_updateable: continue
      t_stage_kwargs = global_kwargs.copy() ; t_stage_kwargs.update(kwargs.get(t_stage, {}))
      args = distribution.set_params( *args, **t_stage_kwargs) *)
Definition np_leaf_set_body {O} (is_updateable : O -> O * dres bool) (set_params : O -> args -> kwargs -> O * dres args)
    (kwargs1 : list (string * kwargs)) (global_kwargs : kwargs) : string -> O -> args -> O * dres args :=
  fun t_stage distribution args =>
    match is_updateable distribution with
    | (distribution, inl e) => (distribution, inl e)
    | (distribution, inr x1) =>
        if negb x1 then (distribution, inr args)
        else
          let t_stage_kwargs := global_kwargs in
          let t_stage_kwargs := kw_update (sub_kwargs t_stage kwargs1) t_stage_kwargs in
          match set_params distribution args t_stage_kwargs with
          | (distribution, inl e) => (distribution, inl e)
          | (distribution, inr x2) => let args := x2 in (distribution, inr args)
          end
    end.

(** Composite.set_distribution_params( *args, **kwargs), leaf branch; generic in the class of the objects *)
Definition np_leaf_set_distribution_params {O} (is_updateable : O -> O * dres bool)
    (set_params : O -> args -> kwargs -> O * dres args)
    (distributions : list (string * O)) (args0 : args) (kwargs0 : kwargs) : list (string * O) * dres args :=
  let '(kwargs1, global_kwargs) := Params.unflatten_and_split kwargs0 (map fst distributions) in
  match py_for_items_d (np_leaf_set_body is_updateable set_params kwargs1 global_kwargs) distributions args0 with
  | (distributions, inl e) => (distributions, inl e)
  | (distributions, inr args1) => (distributions, inr args1)
  end.

(** Composite.get_distribution_params(as_dict=True, as_flat), leaf branch *)
Definition np_leaf_get_body {O} (is_updateable : O -> O * dres bool) (get_params : O -> bool -> O * dres pdict) (as_flat : bool)
  : string -> O -> pdict -> O * dres pdict :=
  fun t_stage distribution params =>
    match is_updateable distribution with
    | (distribution, inl e) => (distribution, inl e)
    | (distribution, inr x1) =>
        if negb x1 then (distribution, inr params)
        else
          match get_params distribution as_flat with
          | (distribution, inl e) => (distribution, inl e)
          | (distribution, inr x2) =>
              let params := kw_set [t_stage] (Node x2) params in
              (distribution, inr params)
          end
    end.
Definition np_leaf_get_distribution_params {O} (fuel : nat) (is_updateable : O -> O * dres bool)
    (get_params : O -> bool -> O * dres pdict) (distributions : list (string * O)) (as_flat : bool)
  : list (string * O) * dres pdict :=
  let params := ([] : pdict) in
  match py_for_items_d (np_leaf_get_body is_updateable get_params as_flat) distributions params with
  | (distributions, inl e) => (distributions, inl e)
  | (distributions, inr params) =>
      let params := if as_flat || negb true then np_flatten fuel params [] else params in
      (distributions, inr params)
  end.

(** a Distribution object of Params.v together with its underlying parametric function *)
Definition pobj := ((list nat -> list (string * val) -> option vec) * dobj val)%type.
Definition pobj_is_updateable (fo : pobj) : pobj * dres bool :=
  let '(o, r) := np_is_updateable (snd fo) in ((fst fo, o), r).
Definition pobj_set_params (fo : pobj) (a : args) (kw : kwargs) : pobj * dres args :=
  let '(o, r) := np_set_params (fst fo) (@Some val) params_lookup (snd fo) a kw in ((fst fo, o), r).
(** the dict name -> value that Distribution.get_params returns enters the nested parameter dict as a [Node] of leaves *)
Definition pobj_get_params (fo : pobj) (as_flat : bool) : pobj * dres pdict :=
  let '(o, r) := np_get_params (snd fo) in
  ((fst fo, o), match r with
                | inl e => inl e
                | inr l => match pdict_of_vals l with Some d => inr d | None => inl DValue end
                end).

Definition pobj_repr (maxt : nat) (d : dist) (fo : pobj) : Prop := fst fo = pfunc d /\ pdist_repr maxt d (snd fo).
Definition dists_repr (maxt : nat) (ds : list (string * dist)) (objs : list (string * pobj)) : Prop :=
  Forall2 (fun td to => fst td = fst to /\ pobj_repr maxt (snd td) (snd to)) ds objs.
(** the keyword dict of every distribution has distinct keys *)
Definition dists_nodup (ds : list (string * dist)) : Prop := Forall (fun td => NoDup (map fst (dist_kws (snd td)))) ds.
Definition to_dres {R} (o : option R) : dres R := match o with None => inl DValue | Some r => inr r end.

Lemma dists_repr_keys maxt ds objs : dists_repr maxt ds objs -> map fst objs = map fst ds.
Proof. induction 1 as [|td to ds objs [Hk _] _ IH]; [reflexivity|]. cbn [map]. rewrite Hk, IH. reflexivity. Qed.

Lemma pfunc_set_params maxt d a kw : pfunc (fst (dist_set_params maxt d a kw)) = pfunc d.
Proof.
  destruct d as [p|f kws]; [reflexivity|]. cbn [dist_set_params]. destruct (dist_assign kws a kw) as [new a'].
  destruct (all_vals new) as [k|]; [|reflexivity]. destruct (fam_weights f maxt k); reflexivity.
Qed.

Lemma pobj_is_updateable_eq fn o : pobj_is_updateable (fn, o) = ((fn, o), inr (negb (py_is_none (o_func o)))).
Proof. reflexivity. Qed.

Lemma pobj_set_params_eq fn o a kw :
  pobj_set_params (fn, o) a kw = ((fn, fst (np_set_params fn (@Some val) params_lookup o a kw)), snd (np_set_params fn (@Some val) params_lookup o a kw)).
Proof. unfold pobj_set_params. cbn [fst snd]. destruct (np_set_params fn (@Some val) params_lookup o a kw); reflexivity. Qed.

Lemma np_leaf_set_loop maxt split glob : forall ds objs a, dists_repr maxt ds objs -> dists_nodup ds ->
  exists objs', py_for_items_d (np_leaf_set_body pobj_is_updateable pobj_set_params split glob) objs a
                = (objs', to_dres (snd (set_dists_for maxt split glob ds a)))
                /\ dists_repr maxt (fst (set_dists_for maxt split glob ds a)) objs'.
Proof.
  intros ds objs a H. revert a. induction H as [|[t d] [t' [fn o]] ds objs [Hk [Hfn Hr]] Hrest IH]; intros a Hn.
  - exists []. split; [reflexivity|constructor].
  - cbn [fst snd] in Hk, Hfn, Hr. subst t' fn. inversion Hn as [|? ? Hn1 Hn2]; subst. cbn [snd] in Hn1.
    cbn [py_for_items_d set_dists_for]. unfold np_leaf_set_body at 1. rewrite pobj_is_updateable_eq.
    destruct d as [p|f kws].
    + destruct Hr as [Hs [Hf Hz]]. rewrite Hf. cbn [py_is_none negb].
      destruct (IH a Hn2) as [objs' [E Hrep]]. rewrite E.
      destruct (set_dists_for maxt split glob ds a) as [r' res]. cbn [fst snd] in *.
      eexists. split; [reflexivity|]. constructor; [|exact Hrep]. cbn [fst snd]. split; [reflexivity|].
      split; [reflexivity|]. split; [exact Hs|]. split; assumption.
    + pose proof Hr as [_ [Hf _]]. rewrite Hf. cbn [py_is_none negb].
      rewrite pobj_set_params_eq.
      destruct (np_set_params_params maxt (Param f kws) o a (obj_kwargs t split glob) Hr Hn1) as [o' [E Hrep]].
      unfold obj_kwargs in E at 1. rewrite E. cbn [fst snd].
      pose proof (pfunc_set_params maxt (Param f kws) a (obj_kwargs t split glob)) as Hp.
      destruct (dist_set_params maxt (Param f kws) a (obj_kwargs t split glob)) as [d' [a'|]]; cbn [fst snd to_dres] in *.
      * destruct (IH a' Hn2) as [objs' [E' Hrep']]. rewrite E'.
        destruct (set_dists_for maxt split glob ds a') as [r' res]. cbn [fst snd] in *.
        eexists. split; [reflexivity|]. constructor; [|exact Hrep']. cbn [fst snd]. split; [reflexivity|].
        split; [symmetry; exact Hp|exact Hrep].
      * eexists. split; [reflexivity|]. constructor; [|exact Hrest]. cbn [fst snd]. split; [reflexivity|].
        split; [symmetry; exact Hp|exact Hrep].
Qed.

Lemma np_leaf_set_distribution_params_eq maxt ds objs a kw : dists_repr maxt ds objs -> dists_nodup ds ->
  let R := (let '(split, glob) := Params.unflatten_and_split kw (map fst ds) in set_dists_for maxt split glob ds a) in
  exists objs', np_leaf_set_distribution_params pobj_is_updateable pobj_set_params objs a kw = (objs', to_dres (snd R))
                /\ dists_repr maxt (fst R) objs'.
Proof.
  intros H Hn. cbv zeta. unfold np_leaf_set_distribution_params. rewrite (dists_repr_keys maxt ds objs H).
  destruct (Params.unflatten_and_split kw (map fst ds)) as [split glob].
  destruct (np_leaf_set_loop maxt split glob ds objs a H Hn) as [objs' [E Hrep]]. rewrite E.
  exists objs'. split; [|exact Hrep]. destruct (snd (set_dists_for maxt split glob ds a)); reflexivity.
Qed.

(** Unilateral: [u_set_distribution_params] is the leaf branch on the model's dict of distributions *)
Lemma np_leaf_set_distribution_params_uni u objs a kw : dists_repr (u_maxt u) (u_dists u) objs -> dists_nodup (u_dists u) ->
  exists objs', np_leaf_set_distribution_params pobj_is_updateable pobj_set_params objs a kw
                = (objs', match snd (u_set_distribution_params u a kw) with None => inl DValue | Some a' => inr a' end)
                /\ dists_repr (u_maxt u) (u_dists (fst (u_set_distribution_params u a kw))) objs'.
Proof.
  intros H Hn. destruct (np_leaf_set_distribution_params_eq (u_maxt u) (u_dists u) objs a kw H Hn) as [objs' [E Hrep]].
  exists objs'. unfold u_set_distribution_params. destruct (Params.unflatten_and_split kw (map fst (u_dists u))) as [split glob].
  destruct (set_dists_for (u_maxt u) split glob (u_dists u) a) as [ds' res]. cbn [fst snd u_with_dists u_dists] in *.
  split; [exact E|exact Hrep].
Qed.

Lemma dist_kw_dict_flat kws : NoDup (map fst kws) -> exists l, dist_kw_dict kws = leaves l /\ NoDup (map fst l).
Proof.
  intros Hn. exists (map (fun kv => ([fst kv], snd kv)) kws). split.
  - unfold dist_kw_dict, leaves. rewrite map_map. reflexivity.
  - rewrite map_map. cbn [fst]. induction kws as [|[k v] kws IH]; cbn [map fst] in *; [constructor|].
    apply NoDup_cons_iff in Hn. destruct Hn as [Hni Hn]. constructor; [|apply IH; exact Hn].
    intros Hin. apply in_map_iff in Hin. destruct Hin as [x [Hx Hin]]. injection Hx as Hx. apply Hni. rewrite <- Hx.
    apply in_map. exact Hin.
Qed.

Lemma np_leaf_get_loop maxt fl : forall ds objs acc, dists_repr maxt ds objs ->
  py_for_items_d (np_leaf_get_body pobj_is_updateable pobj_get_params fl) objs acc
  = (objs, inr (fold_left (fun acc td => match snd td with
                                         | Frozen _ => acc
                                         | Param _ kws => kw_set [fst td] (Node (dist_kw_dict kws)) acc
                                         end) ds acc)).
Proof.
  intros ds objs acc H. revert acc. induction H as [|[t d] [t' [fn o]] ds objs [Hk [Hfn Hr]] Hrest IH]; intros acc; [reflexivity|].
  cbn [fst snd] in Hk, Hfn, Hr. subst t'. cbn [py_for_items_d fold_left fst snd].
  unfold np_leaf_get_body at 1. rewrite pobj_is_updateable_eq.
  destruct d as [p|f kws].
  - destruct Hr as [Hs [Hf Hz]]. rewrite Hf. cbn [py_is_none negb]. rewrite IH. reflexivity.
  - pose proof Hr as [_ [Hf _]]. rewrite Hf. cbn [py_is_none negb]. unfold pobj_get_params. cbn [fst snd].
    rewrite (np_get_params_params maxt (Param f kws) o Hr). cbn [dist_kws]. rewrite pdict_of_vals_vals. rewrite IH. reflexivity.
Qed.

Lemma depth1_dists ds : dists_nodup ds -> forall acc, depth1 acc ->
  depth1 (fold_left (fun acc td => match snd td with
                                   | Frozen _ => acc
                                   | Param _ kws => kw_set [fst td] (Node (dist_kw_dict kws)) acc
                                   end) ds acc).
Proof.
  induction 1 as [|[t d] ds Hn _ IH]; intros acc Hd; [exact Hd|]. cbn [fold_left fst snd] in *. apply IH.
  destruct d as [p|f kws]; [exact Hd|]. apply depth1_kw_set; [exact Hd|]. apply dist_kw_dict_flat. exact Hn.
Qed.

Lemma np_leaf_get_distribution_params_eq fuel maxt ds objs fl : dists_repr maxt ds objs -> dists_nodup ds ->
  np_leaf_get_distribution_params (S (S fuel)) pobj_is_updateable pobj_get_params objs fl = (objs, inr (dists_get_params ds fl)).
Proof.
  intros H Hn. unfold np_leaf_get_distribution_params, dists_get_params. cbv zeta. rewrite (np_leaf_get_loop maxt fl ds objs [] H).
  destruct fl; [|reflexivity]. cbn [orb maybe_flatten]. rewrite np_flatten_depth1 by (apply depth1_dists; [exact Hn|constructor]).
  reflexivity.
Qed.
