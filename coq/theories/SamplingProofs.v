(** SamplingProofs: proofs of the C16 statements of Sampling.v. *)
From LymphModel Require Import Base States Linalg Graph Transition Observation Dist Unilateral UniStatements
  Models Bilateral Midline BiStatements Sampling.
From LymphModel Require Import TransitionProofs ObservationProofs PriorProofs LikelihoodProofs MidlineProofs.
From Coq Require Import Permutation.
Local Open Scope nat_scope.
Open Scope Qc_scope.

(** * Order facts on Qc *)
Lemma div_mul_cancel a s : s <> 0 -> (a / s) * s = a.
Proof. intros H. field. exact H. Qed.
Lemma Qclt_neq0 s : 0 < s -> s <> 0.
Proof. intros H E. apply Qclt_not_eq in H. apply H. symmetry. exact E. Qed.
Lemma div_nonneg a s : 0 <= a -> 0 < s -> 0 <= a / s.
Proof.
  intros Ha Hs. pose proof (div_mul_cancel a s (Qclt_neq0 s Hs)) as E.
  revert E. generalize (a / s). intros y E. subst a. revert Ha Hs.
  qc2q. generalize (this y) (this s). intros; nra.
Qed.
Lemma div_pos a s : 0 < a -> 0 < s -> 0 < a / s.
Proof.
  intros Ha Hs. pose proof (div_mul_cancel a s (Qclt_neq0 s Hs)) as E.
  revert E. generalize (a / s). intros y E. subst a. revert Ha Hs.
  qc2q. generalize (this y) (this s). intros; nra.
Qed.
Lemma div_self s : s <> 0 -> s / s = 1.
Proof. intros H. field. exact H. Qed.
Lemma Qc_le_add_nonneg a c : 0 <= c -> a <= a + c.
Proof. revert a c. intros a c. qc2q. generalize (this a) (this c). intros; lra. Qed.
Lemma Qc_le_lt_false a c : a <= c -> c < a -> False.
Proof. intros H1 H2. exact (Qclt_not_le _ _ H2 H1). Qed.

(** * cumsum, np_cdf *)
Lemma last_cons_default {A} (l : list A) : forall x d, last (x :: l) d = last l x.
Proof.
  induction l as [|a l IH]; intros x d; [reflexivity|].
  change (last (x :: a :: l) d) with (last (a :: l) d). rewrite (IH a d), (IH a x). reflexivity.
Qed.
Lemma last_cumsum p : forall acc, last (cumsum acc p) acc = acc + sumQ p.
Proof.
  induction p as [|a p IH]; intros acc; cbn [cumsum sumQ].
  - cbn [last]. ring.
  - rewrite last_cons_default, IH. ring.
Qed.
Lemma sumQ_firstn_S p : forall k, sumQ (firstn (S k) p) = sumQ (firstn k p) + nth k p 0.
Proof.
  induction p as [|a p IH]; intros k.
  - rewrite !firstn_nil. destruct k; cbn [nth sumQ]; ring.
  - destruct k as [|k].
    + cbn [firstn nth sumQ]. ring.
    + change (firstn (S (S k)) (a :: p)) with (a :: firstn (S k) p).
      change (firstn (S k) (a :: p)) with (a :: firstn k p).
      cbn [sumQ nth]. rewrite IH. ring.
Qed.
Lemma cumsum_spec p : forall acc,
  cumsum acc p = map (fun j => acc + sumQ (firstn (S j) p)) (seq 0 (length p)).
Proof.
  induction p as [|a p IH]; intros acc; [reflexivity|].
  cbn [cumsum length seq map]. f_equal.
  - cbn [firstn sumQ]. ring.
  - rewrite IH, <- seq_shift, map_map. apply map_ext. intros j.
    change (firstn (S (S j)) (a :: p)) with (a :: firstn (S j) p). cbn [sumQ]. ring.
Qed.
Lemma np_cdf_spec p : np_cdf p = map (fun j => cdf p (S j)) (seq 0 (length p)).
Proof.
  unfold np_cdf. cbv zeta. rewrite last_cumsum, cumsum_spec, map_map. apply map_ext. intros j.
  unfold cdf. f_equal; ring.
Qed.

(** * counting the entries <= u of a monotone sequence *)
Section Count.
  Variable f : nat -> Qc.
  Variable u : Qc.
  Hypothesis mono : forall a, f a <= f (S a).
  Hypothesis start : f 0%nat <= u.
  Definition cnt (n : nat) : nat := length (filter (fun x => Qc_leb x u) (map (fun j => f (S j)) (seq 0 n))).

  Lemma cnt_S n : cnt (S n) = (cnt n + (if Qc_leb (f (S n)) u then 1 else 0))%nat.
  Proof.
    unfold cnt. rewrite seq_S, map_app, filter_app, app_length. cbn [Nat.add map filter].
    destruct (Qc_leb (f (S n)) u); reflexivity.
  Qed.
  Lemma mono_le a b : (a <= b)%nat -> f a <= f b.
  Proof.
    induction 1 as [|b Hab IH]; [apply Qcle_refl|].
    eapply Qcle_trans; [exact IH|apply mono].
  Qed.
  Lemma cnt_inv n : (cnt n <= n)%nat /\ f (cnt n) <= u /\ ((cnt n < n)%nat -> u < f (S (cnt n))).
  Proof.
    induction n as [|n (Hle & Hlo & Hhi)].
    - unfold cnt. cbn. repeat split; [lia|exact start|lia].
    - rewrite cnt_S. destruct (Qc_leb (f (S n)) u) eqn:E.
      + apply Qc_leb_spec in E.
        assert (Hm : cnt n = n).
        { destruct (Nat.eq_dec (cnt n) n) as [H|H]; [exact H|].
          exfalso. assert (Hlt : (cnt n < n)%nat) by lia.
          apply (Qc_le_lt_false _ _ (Qcle_trans _ _ _ (mono_le (S (cnt n)) (S n) ltac:(lia)) E) (Hhi Hlt)). }
        rewrite Hm. replace (n + 1)%nat with (S n) by lia. repeat split; [lia|exact E|lia].
      + assert (Hgt : u < f (S n)).
        { destruct (Qclt_le_dec u (f (S n))) as [H|H]; [exact H|]. apply Qc_leb_spec in H. congruence. }
        rewrite Nat.add_0_r. repeat split; [lia|exact Hlo|].
        intros _. destruct (Nat.eq_dec (cnt n) n) as [H|H].
        * rewrite H. exact Hgt.
        * apply Hhi. lia.
  Qed.
  Lemma cell_unique k m : f k <= u -> u < f (S k) -> f m <= u -> u < f (S m) -> k = m.
  Proof.
    intros K1 K2 M1 M2.
    destruct (lt_eq_lt_dec k m) as [[H|H]|H]; [exfalso|exact H|exfalso].
    - apply (Qc_le_lt_false _ _ (Qcle_trans _ _ _ (mono_le (S k) m ltac:(lia)) M1) K2).
    - apply (Qc_le_lt_false _ _ (Qcle_trans _ _ _ (mono_le (S m) k ltac:(lia)) K1) M2).
  Qed.
End Count.

(** * choice_interval *)
Lemma valid_nth_nonneg p k : valid_weights p -> 0 <= nth k p 0.
Proof.
  intros [Hn _]. destruct (Nat.lt_ge_cases k (length p)) as [H|H].
  - apply Hn, nth_In, H.
  - rewrite nth_overflow by exact H. apply Qcle_refl.
Qed.
Lemma cdf_S p k : sumQ p <> 0 -> cdf p (S k) = cdf p k + nth k p 0 / sumQ p.
Proof. intros H. unfold cdf. rewrite sumQ_firstn_S. field. exact H. Qed.
Lemma cdf_mono p k : valid_weights p -> cdf p k <= cdf p (S k).
Proof.
  intros Hv. rewrite cdf_S by (apply Qclt_neq0, Hv).
  apply Qc_le_add_nonneg, div_nonneg; [apply valid_nth_nonneg, Hv|apply Hv].
Qed.
Lemma cdf_0 p : cdf p 0 = 0.
Proof. unfold cdf. cbn [firstn sumQ]. unfold Qcdiv. ring. Qed.
Lemma cdf_full p k : valid_weights p -> (length p <= k)%nat -> cdf p k = 1.
Proof. intros Hv Hk. unfold cdf. rewrite firstn_all2 by exact Hk. apply div_self, Qclt_neq0, Hv. Qed.
Lemma cell_len_spec' p k : cell_len p k = nth k p 0 / sumQ p.
Proof. unfold cell_len, cdf. rewrite sumQ_firstn_S. unfold Qcdiv. ring. Qed.
Lemma cell_len_spec p k : valid_weights p -> cell_len p k = nth k p 0 / sumQ p.
Proof. intros _. apply cell_len_spec'. Qed.

Lemma choice_cnt p u : choice p u = cnt (cdf p) u (length p).
Proof. unfold choice, searchsorted_right, cnt. rewrite np_cdf_spec. reflexivity. Qed.

Lemma choice_interval : C16_choice_interval_stmt.
Proof.
  intros p u k Hv [Hu0 Hu1].
  assert (Hstart : cdf p 0 <= u) by (rewrite cdf_0; exact Hu0).
  pose proof (cnt_inv (cdf p) u (fun a => cdf_mono p a Hv) Hstart (length p)) as (Hle & Hlo & Hhi).
  rewrite <- choice_cnt in Hle, Hlo, Hhi.
  assert (Hlt : (choice p u < length p)%nat).
  { destruct (Nat.eq_dec (choice p u) (length p)) as [E|E]; [|lia].
    exfalso. rewrite E, (cdf_full p (length p) Hv (le_n _)) in Hlo. exact (Qc_le_lt_false _ _ Hlo Hu1). }
  split; [|split; [apply cell_len_spec, Hv|exact Hlt]].
  split.
  - intros <-. split; [exact Hlo|apply Hhi, Hlt].
  - intros [K1 K2]. symmetry.
    apply (cell_unique (cdf p) u (fun a => cdf_mono p a Hv) k (choice p u) K1 K2 Hlo (Hhi Hlt)).
Qed.

Lemma choice_iff p u k : valid_weights p -> unit_u u -> (choice p u = k <-> in_cell p k u).
Proof. intros Hv Hu. apply (choice_interval p u k Hv Hu). Qed.
Lemma choice_lt p u : valid_weights p -> unit_u u -> (choice p u < length p)%nat.
Proof. intros Hv Hu. apply (choice_interval p u 0%nat Hv Hu). Qed.
Lemma in_cell_lt p u k : valid_weights p -> unit_u u -> in_cell p k u -> (k < length p)%nat.
Proof. intros Hv Hu H. apply (choice_iff p u k Hv Hu) in H. subst k. apply choice_lt; assumption. Qed.
Lemma in_cell_pos p u k : valid_weights p -> in_cell p k u -> 0 < nth k p 0 / sumQ p.
Proof.
  intros Hv [H1 H2]. rewrite <- (cell_len_spec p k Hv). unfold cell_len.
  assert (H : cdf p k < cdf p (S k)) by (eapply Qcle_lt_trans; eassumption).
  revert H. generalize (cdf p k) (cdf p (S k)). intros a c. qc2q. generalize (this a) (this c). intros; lra.
Qed.

(** * renormalisation of stage_dist *)
Lemma sumQ_map_div s l : sumQ (map (fun a => a / s) l) = sumQ l / s.
Proof. induction l as [|a l IH]; cbn [map sumQ]; [unfold Qcdiv; ring|]. rewrite IH. unfold Qcdiv. ring. Qed.
Lemma cdf_scale sd c k : c <> 0 -> sumQ sd <> 0 -> cdf (map (fun a => a / c) sd) k = cdf sd k.
Proof.
  intros Hc Hs. unfold cdf. rewrite firstn_map, !sumQ_map_div. field. split; assumption.
Qed.
Lemma valid_scale sd c : valid_weights sd -> 0 < c -> valid_weights (map (fun a => a / c) sd).
Proof.
  intros [Hn Hs] Hc. split.
  - intros a Ha. apply in_map_iff in Ha. destruct Ha as [b [<- Hb]]. apply div_nonneg; [apply Hn, Hb|exact Hc].
  - rewrite sumQ_map_div. apply div_pos; assumption.
Qed.
Lemma stage_dist_renormalised : C16_stage_dist_renormalised_stmt.
Proof.
  intros sd s Hv. unfold renorm_stage_dist. destruct (Qc_eqb (sumQ sd) 1).
  - split; [exact Hv|]. split; [reflexivity|]. apply cell_len_spec, Hv.
  - split; [apply valid_scale; [exact Hv|apply Hv]|]. split; [apply map_length|].
    unfold cell_len. rewrite !cdf_scale by (apply Qclt_neq0, Hv). apply (cell_len_spec sd s Hv).
Qed.

(** * the samplers as per-patient functions of their own coordinates *)
Lemma uni_stream : C16_uni_stream_stmt.
Proof.
  intros u num sd xs. unfold draw_patients_uni, chunk_s, chunk_t, chunk_3, draw_diagnosis, draw_diagnosis_with. cbv zeta.
  generalize (firstn num xs) (firstn num (skipn num xs)) (firstn num (skipn num (skipn num xs))).
  intros A. induction A as [|a A IH]; intros [|b B] [|c C]; try reflexivity.
  cbn [map map2 map3]. f_equal. apply IH.
Qed.
Lemma bi_stream : C16_bi_stream_stmt.
Proof.
  intros b num sd xs. unfold draw_patients_bi, chunk_s, chunk_t, chunk_3, chunk_4, draw_diagnosis, draw_diagnosis_with. cbv zeta.
  generalize (firstn num xs) (firstn num (skipn num xs)) (firstn num (skipn num (skipn num xs)))
             (firstn num (skipn num (skipn num (skipn num xs)))).
  intros A. induction A as [|a A IH]; intros [|x B] [|c C] [|d D]; try reflexivity.
  cbn [map map2 map4]. f_equal. apply IH.
Qed.

Lemma scatter_route {T X R} (i1 c1 i0 c0 : T -> X -> R) m : forall ts X1 X1' X0 X0',
  mask_scatter m (combine (map2 i1 (mask_select m ts) X1) (map2 c1 (mask_select m ts) X1'))
                 (combine (map2 i0 (mask_select (map negb m) ts) X0) (map2 c0 (mask_select (map negb m) ts) X0'))
  = map3 (fun (e : bool) t xx => if e then (i1 t (fst xx), c1 t (snd xx)) else (i0 t (fst xx), c0 t (snd xx)))
         m ts (mask_scatter m (combine X1 X1') (combine X0 X0')).
Proof.
  induction m as [|e m IH]; intros ts X1 X1' X0 X0'; [reflexivity|].
  destruct ts as [|t ts]; [destruct e; reflexivity|].
  destruct e.
  - cbn [map negb mask_select]. destruct X1 as [|a X1]; [reflexivity|]. destruct X1' as [|a' X1']; [reflexivity|].
    cbn [map2 combine mask_scatter map3 fst snd]. f_equal. apply IH.
  - cbn [map negb mask_select]. destruct X0 as [|a X0]; [reflexivity|]. destruct X0' as [|a' X0']; [reflexivity|].
    cbn [map2 combine mask_scatter map3 fst snd]. f_equal. apply IH.
Qed.

Lemma ml_assemble {X R} (f : Qc -> nat) (g : nat -> Qc -> nat) (h : nat -> Qc -> bool) (F : bool -> nat -> X -> nat * nat)
  (D : Qc -> Qc -> Qc -> X -> R) (mk : nat -> nat -> bool -> nat * nat -> R) :
  (forall a b c xx, mk (f a) (g (f a) b) (h (g (f a) b) c) (F (h (g (f a) b) c) (g (f a) b) xx) = D a b c xx) ->
  forall A B C XX,
    map4 mk (map f A) (map2 g (map f A) B) (map2 h (map2 g (map f A) B) C)
         (map3 F (map2 h (map2 g (map f A) B) C) (map2 g (map f A) B) XX)
    = map4 D A B C XX.
Proof.
  intros H A. induction A as [|a A IH]; intros [|b B] [|c C] [|xx XX]; try reflexivity.
  cbn [map map2 map3 map4]. f_equal; [apply H|apply IH].
Qed.
Lemma map2_const_l {A B C} (f : B -> C) : forall (l1 : list A) l2, length l1 = length l2 ->
  map2 (fun _ x => f x) l1 l2 = map f l2.
Proof. induction l1 as [|a l1 IH]; intros [|b l2] H; try discriminate; [reflexivity|]. cbn [map2 map]. f_equal. apply IH. cbn in H. lia. Qed.
Lemma map3_compose {R} (f : Qc -> nat) (g : nat -> Qc -> nat) (h : nat -> Qc -> R) : forall A B C,
  map2 h (map2 g (map f A) B) C = map3 (fun a b c => h (g (f a) b) c) A B C.
Proof. induction A as [|a A IH]; intros [|b B] [|c C]; try reflexivity. cbn [map map2 map3]. f_equal. apply IH. Qed.
Lemma map3_length {A B C D} (f : A -> B -> C -> D) : forall la lb lc, length la = length lb -> length lb = length lc ->
  length (map3 f la lb lc) = length la.
Proof.
  induction la as [|a la IH]; intros [|b lb] [|c lc] H1 H2; try discriminate; [reflexivity|].
  cbn [map3 length]. f_equal. apply IH; cbn in *; lia.
Qed.
Lemma mask_select_length {A} m : forall (l : list A), length l = length m -> length (mask_select m l) = count_true m.
Proof.
  unfold count_true. induction m as [|e m IH]; intros [|a l] H; try discriminate; [reflexivity|].
  cbn [mask_select filter]. destruct e; cbn [length]; [f_equal|]; apply IH; cbn in H; lia.
Qed.
Lemma mask_select_negb_length {A} m : forall (l : list A), length l = length m ->
  length (mask_select (map negb m) l) = count_true (map negb m).
Proof. intros l H. apply mask_select_length. rewrite map_length. exact H. Qed.
Lemma chunk_length {A} num (xs : list A) k : (k + num <= length xs)%nat -> length (firstn num (skipn k xs)) = num.
Proof. intros H. rewrite firstn_length_le; [reflexivity|]. rewrite skipn_length. lia. Qed.

Lemma ml_stream : C16_ml_stream_stmt.
Proof.
  intros ml num sd xs Hc Hlen. unfold draw_patients_ml. rewrite Hc.
  unfold ml_obs_coords, ml_exts, chunk_s, chunk_t, chunk_3, draw_diagnosis_with. cbv zeta.
  set (A := firstn num xs). set (B := firstn num (skipn num xs)). set (C := firstn num (skipn num (skipn num xs))).
  set (xs3 := skipn num (skipn num (skipn num xs))).
  assert (HA : length A = num) by (apply firstn_length_le; lia).
  assert (HB : length B = num) by (apply chunk_length; lia).
  assert (HC : length C = num) by (unfold C; rewrite firstn_length_le; [reflexivity|rewrite !skipn_length; lia]).
  set (f := choice (renorm_stage_dist sd)). set (g := draw_diag_time (ml_ipsi ml)).
  set (h := fun t x => ext_of_index (choice (ext_probs ml t) x)).
  assert (HT : length (map2 g (map f A) B) = num) by (rewrite map2_length, map_length; lia).
  assert (HE : (if ml_evo ml then map2 h (map2 g (map f A) B) C
                else map (fun x => ext_of_index (choice [1 - ml_midext ml; ml_midext ml] x)) C)
               = map2 h (map2 g (map f A) B) C).
  { destruct (ml_evo ml) eqn:Ev; [reflexivity|]. symmetry. unfold h, ext_probs. rewrite Ev.
    apply map2_const_l. lia. }
  fold h. rewrite HE. clear HE.
  set (E := map2 h (map2 g (map f A) B) C).
  assert (HEl : length E = num) by (unfold E; rewrite map2_length; lia).
  rewrite (mask_select_length E (map2 g (map f A) B)) by lia.
  rewrite (mask_select_negb_length E (map2 g (map f A) B)) by lia.
  rewrite scatter_route.
  assert (HE3 : map3 (fun a b c => ext_of_index (choice (ext_probs ml (g (f a) b)) c)) A B C = E).
  { unfold E. rewrite (map3_compose f g h). reflexivity. }
  rewrite HE3. f_equal. unfold E.
  apply (ml_assemble f g h). intros a b c xx. unfold draw_one_ml. cbv zeta. fold f g. fold (h (g (f a) b) c).
  destruct (h (g (f a) b) c); reflexivity.
Qed.

(** * the coordinates are a rearrangement of the stream *)
Lemma firstn_add {A} n m : forall (l : list A), firstn (n + m) l = firstn n l ++ firstn m (skipn n l).
Proof.
  induction n as [|n IH]; intros l; [reflexivity|]. destruct l as [|a l].
  - cbn [skipn]. rewrite !firstn_nil. reflexivity.
  - cbn [Nat.add firstn skipn app]. f_equal. apply IH.
Qed.
Lemma chunks_partition : C16_chunks_partition_stmt.
Proof.
  intros A num xs. unfold chunk_s, chunk_t, chunk_3, chunk_4. split.
  - replace (3 * num)%nat with (num + (num + num))%nat by lia. rewrite !firstn_add. reflexivity.
  - replace (4 * num)%nat with (num + (num + (num + num)))%nat by lia. rewrite !firstn_add. reflexivity.
Qed.
Lemma count_true_split m : (count_true m + count_true (map negb m) = length m)%nat.
Proof. unfold count_true. induction m as [|[|] m IH]; cbn [map negb filter length]; lia. Qed.
Lemma scatter_length {A} m : forall (ts fs : list A), (count_true m <= length ts)%nat -> (count_true (map negb m) <= length fs)%nat ->
  length (mask_scatter m ts fs) = length m.
Proof.
  unfold count_true. induction m as [|[|] m IH]; intros ts fs H1 H2; [reflexivity| |]; cbn [map negb filter length] in *.
  - destruct ts as [|a ts]; [cbn in H1; lia|]. cbn [mask_scatter length]. f_equal. apply IH; cbn in H1; lia.
  - destruct fs as [|a fs]; [cbn in H2; lia|]. cbn [mask_scatter length]. f_equal. apply IH; cbn in H2; lia.
Qed.
Lemma scatter_perm {A} m : forall (ts fs : list A), length ts = count_true m -> length fs = count_true (map negb m) ->
  Permutation (mask_scatter m ts fs) (ts ++ fs).
Proof.
  unfold count_true. induction m as [|[|] m IH]; intros ts fs H1 H2; cbn [map negb filter length] in *.
  - destruct ts; [|discriminate]. destruct fs; [|discriminate]. constructor.
  - destruct ts as [|a ts]; [discriminate|]. cbn [mask_scatter app]. apply perm_skip. apply IH; cbn in H1; lia.
  - destruct fs as [|a fs]; [discriminate|]. cbn [mask_scatter]. apply Permutation_cons_app. apply IH; cbn in H2; lia.
Qed.
Lemma flat_pairs_combine {A} : forall (X X' : list A), length X = length X' ->
  Permutation (flat_pairs (combine X X')) (X ++ X').
Proof.
  unfold flat_pairs. induction X as [|a X IH]; intros [|a' X'] H; try discriminate; [constructor|].
  cbn [combine flat_map fst snd app]. apply perm_skip. apply Permutation_cons_app. apply IH. cbn in H. lia.
Qed.
Lemma ml_coords_rearrange : C16_ml_coords_rearrange_stmt.
Proof.
  intros A num exts xs Hm Hlen. unfold ml_obs_coords. cbv zeta.
  set (xs3 := skipn num (skipn num (skipn num xs))).
  set (k := count_true exts). set (k' := count_true (map negb exts)).
  assert (Hk : (k + k' = num)%nat) by (unfold k, k'; rewrite count_true_split; exact Hm).
  assert (H3 : (2 * num <= length xs3)%nat) by (unfold xs3; rewrite !skipn_length; lia).
  set (X1 := firstn k xs3). set (X1' := firstn k (skipn k xs3)).
  set (xs5 := skipn k (skipn k xs3)).
  set (X0 := firstn k' xs5). set (X0' := firstn k' (skipn k' xs5)).
  assert (L1 : length X1 = k) by (apply firstn_length_le; lia).
  assert (L1' : length X1' = k) by (apply chunk_length; lia).
  assert (L5 : (2 * k' <= length xs5)%nat) by (unfold xs5; rewrite !skipn_length; lia).
  assert (L0 : length X0 = k') by (apply firstn_length_le; lia).
  assert (L0' : length X0' = k') by (apply chunk_length; lia).
  split.
  - rewrite scatter_length; [exact Hm| |]; rewrite combine_length; fold k k'; lia.
  - unfold chunk_s, chunk_t, chunk_3.
    replace (5 * num)%nat with (num + (num + (num + (k + (k + (k' + k'))))))%nat by lia.
    rewrite !firstn_add. fold xs3. fold X1. fold X1'. fold xs5. fold X0. fold X0'.
    apply Permutation_app_head, Permutation_app_head, Permutation_app_head.
    eapply Permutation_trans.
    { apply Permutation_flat_map. apply scatter_perm; rewrite combine_length; fold k k'; lia. }
    unfold flat_pairs. rewrite flat_map_app.
    replace (X1 ++ X1' ++ X0 ++ X0') with ((X1 ++ X1') ++ (X0 ++ X0')) by (rewrite <- app_assoc; reflexivity).
    apply Permutation_app; apply flat_pairs_combine; lia.
Qed.
Lemma ml_central_not_implemented : C16_ml_central_not_implemented_stmt.
Proof. intros ml c num sd xs H. unfold table_ml, draw_patients_ml. rewrite H. reflexivity. Qed.

(** * the predictive distributions are distributions *)
Lemma mul_nonneg a c : 0 <= a -> 0 <= c -> 0 <= a * c.
Proof. revert a c. intros a c. qc2q. generalize (this a) (this c). intros; nra. Qed.
Lemma add_nonneg a c : 0 <= a -> 0 <= c -> 0 <= a + c.
Proof. revert a c. intros a c. qc2q. generalize (this a) (this c). intros; lra. Qed.
Lemma is_dist_valid p : is_dist p -> valid_weights p.
Proof. intros [Hn Hs]. split; [exact Hn|]. rewrite Hs. reflexivity. Qed.
Lemma is_dist_cell p k : is_dist p -> cell_len p k = nth k p 0.
Proof. intros [_ Hs]. rewrite cell_len_spec', Hs. unfold Qcdiv. field. discriminate. Qed.

Lemma u_states_length u : length (u_states u) = Nat.pow (u_base u) (u_n u).
Proof. unfold u_states, state_list, u_base, u_n. apply all_states_length. Qed.

Lemma pred_valid uo sd : base_ok (u_base uo) = true -> mods_in_unit (map snd (u_mods uo)) ->
  length sd = length (u_states uo) -> (forall a, In a sd -> 0 <= a) -> sumQ sd = 1 ->
  is_dist (obs_dist_of uo sd).
Proof.
  intros Hb Hm Hl Hn Hs.
  assert (Hl' : length sd = Nat.pow (u_base uo) (u_n uo)) by (rewrite Hl; apply u_states_length).
  rewrite (obs_dist_spec observation_entries uo sd Hb Hl'). split.
  - intros a Ha. apply in_map_iff in Ha. destruct Ha as [z [<- Hz]]. apply sumQ_nonneg. intros c Hc.
    apply in_map_iff in Hc. destruct Hc as [[x p] [<- Hxp]].
    apply mul_nonneg; [apply Hn; eapply in_combine_r; exact Hxp|].
    apply (obs_entries_in_unit_interval (map snd (u_mods uo)) (u_n uo) (u_base uo) x z Hb Hm).
    + eapply in_combine_l. exact Hxp.
    + rewrite map_length. exact Hz.
  - rewrite (sumQ_swap (fun z (xp : state * Qc) => let '(x, p) := xp in
               p * obs_spec (map snd (u_mods uo)) (u_n uo) (u_base uo) x z)).
    rewrite (sumQ_map_ext _ (fun xp => snd xp)).
    + rewrite <- (map_map snd (fun a => a)), map_id, map_snd_combine by exact Hl. exact Hs.
    + intros [x p] Hxp. rewrite sumQ_map_scale. cbn [snd].
      pose proof (obs_row_sums (map snd (u_mods uo)) (u_n uo) (u_base uo) x Hb) as HR.
      rewrite map_length in HR. unfold u_obs_list. rewrite HR; [ring|]. eapply in_combine_l. exact Hxp.
Qed.

Lemma evo_row_dist u t : wf_graphb (u_graph u) = true -> params_in_unit (u_graph u) -> (t <= u_maxt u)%nat ->
  length (nth t (state_dist_evo u) []) = length (u_states u) /\
  (forall a, In a (nth t (state_dist_evo u) []) -> 0 <= a) /\ sumQ (nth t (state_dist_evo u) []) = 1.
Proof.
  intros Hwf Hp Ht. rewrite (evo_spec_correct transition_entries u t Hwf Ht). split; [apply map_length|]. split.
  - intros a Ha. apply in_map_iff in Ha. destruct Ha as [x [<- Hx]].
    apply (evo_nonneg entries_in_unit_interval _ t x Hwf Hp Hx).
  - apply (evo_sum_one row_sums _ t Hwf).
Qed.

Lemma obs_probs_dist u t : wf_uni u = true -> uni_in_unit u -> (t <= u_maxt u)%nat -> is_dist (obs_probs u t).
Proof.
  intros Hwf [Hp Hm] Ht. destruct (evo_row_dist u t (wf_uni_graph u Hwf) Hp Ht) as (Hl & Hn & Hs).
  apply pred_valid; [apply wf_uni_base, Hwf|exact Hm|exact Hl|exact Hn|exact Hs].
Qed.
Lemma predictive_is_dist : C16_predictive_is_dist_stmt.
Proof. exact obs_probs_dist. Qed.

(** * draw_is_predictive: unilateral, bilateral *)
Lemma stage_facts u sd xs s : stages_ok u sd -> unit_u xs ->
  (choice (renorm_stage_dist sd) xs = s <-> in_cell (renorm_stage_dist sd) s xs) /\
  (in_cell (renorm_stage_dist sd) s xs ->
     valid_weights (stage_pmf u s) /\ length (stage_pmf u s) = S (u_maxt u)).
Proof.
  intros [Hsd Hst] Hxs. destruct (stage_dist_renormalised sd s Hsd) as (Hv' & Hl' & _).
  split; [apply choice_iff; assumption|].
  intros Hc. apply Hst. rewrite <- Hl'. apply (in_cell_lt _ xs s Hv' Hxs Hc).
Qed.
Lemma time_facts p xt t n : valid_weights p -> length p = S n -> unit_u xt ->
  (choice p xt = t <-> in_cell p t xt) /\ (in_cell p t xt -> (t <= n)%nat).
Proof.
  intros Hv Hl Hxt. split; [apply choice_iff; assumption|].
  intros Hc. pose proof (in_cell_lt p xt t Hv Hxt Hc). lia.
Qed.

Lemma uni_draw_is_predictive : C16_uni_draw_is_predictive_stmt.
Proof.
  intros u sd xs xt xo s t o Hwf Hunit Hok Hxs Hxt Hxo.
  destruct (stage_facts u sd xs s Hok Hxs) as [HS1 HS2].
  assert (HO : forall t, (t <= u_maxt u)%nat -> is_dist (obs_probs u t)) by (intros; apply obs_probs_dist; assumption).
  split; [|split; [apply (stage_dist_renormalised sd s (proj1 Hok))|split; [apply cell_len_spec'|]]].
  - unfold draw_one_uni, draw_diag_time. cbv zeta. split.
    + intros E. injection E as E1 E2 E3. rewrite E1 in E2. rewrite E1, E2 in E3.
      apply HS1 in E1. destruct (HS2 E1) as [Hpv Hpl].
      destruct (time_facts _ xt t _ Hpv Hpl Hxt) as [HT1 HT2]. apply HT1 in E2.
      split; [exact E1|]. split; [exact E2|].
      apply (choice_iff _ xo o (is_dist_valid _ (HO t (HT2 E2))) Hxo). exact E3.
    + intros (C1 & C2 & C3). destruct (HS2 C1) as [Hpv Hpl].
      destruct (time_facts _ xt t _ Hpv Hpl Hxt) as [HT1 HT2].
      apply HS1 in C1. rewrite C1. pose proof (HT2 C2) as Ht. apply HT1 in C2. rewrite C2.
      apply (choice_iff _ xo o (is_dist_valid _ (HO t Ht)) Hxo) in C3. rewrite C3. reflexivity.
  - intros Ht. apply is_dist_cell, HO, Ht.
Qed.

Lemma bi_draw_is_predictive : C16_bi_draw_is_predictive_stmt.
Proof.
  intros b sd xs xt xi xc s t oi oc Hwf Hui Huc Hok Hxs Hxt Hxi Hxc.
  unfold wf_bi_sampler in Hwf.
  assert (Hwi : wf_uni (b_ipsi b) = true /\ wf_uni (b_contra b) = true).
  { unfold wf_bilateral in Hwf. rewrite !andb_true_iff in Hwf. tauto. }
  destruct Hwi as [Hwi Hwc]. destruct (wf_bilateral_parts b Hwf) as (_ & _ & Hmt & _).
  destruct (stage_facts (b_ipsi b) sd xs s Hok Hxs) as [HS1 HS2].
  assert (HOi : forall t, (t <= u_maxt (b_ipsi b))%nat -> is_dist (obs_probs (b_ipsi b) t))
    by (intros; apply obs_probs_dist; assumption).
  assert (HOc : forall t, (t <= u_maxt (b_ipsi b))%nat -> is_dist (obs_probs (b_contra b) t))
    by (intros; apply obs_probs_dist; try assumption; lia).
  split; [|split; [apply (stage_dist_renormalised sd s (proj1 Hok))|split; [apply cell_len_spec'|]]].
  - unfold draw_one_bi, draw_diag_time. cbv zeta. split.
    + intros E. injection E as E1 E2 E3 E4. rewrite E1 in E2. rewrite E1, E2 in E3, E4.
      apply HS1 in E1. destruct (HS2 E1) as [Hpv Hpl].
      destruct (time_facts _ xt t _ Hpv Hpl Hxt) as [HT1 HT2]. apply HT1 in E2.
      split; [exact E1|]. split; [exact E2|]. split.
      * apply (choice_iff _ xi oi (is_dist_valid _ (HOi t (HT2 E2))) Hxi). exact E3.
      * apply (choice_iff _ xc oc (is_dist_valid _ (HOc t (HT2 E2))) Hxc). exact E4.
    + intros (C1 & C2 & C3 & C4). destruct (HS2 C1) as [Hpv Hpl].
      destruct (time_facts _ xt t _ Hpv Hpl Hxt) as [HT1 HT2].
      apply HS1 in C1. rewrite C1. pose proof (HT2 C2) as Ht. apply HT1 in C2. rewrite C2.
      apply (choice_iff _ xi oi (is_dist_valid _ (HOi t Ht)) Hxi) in C3. rewrite C3.
      apply (choice_iff _ xc oc (is_dist_valid _ (HOc t Ht)) Hxc) in C4. rewrite C4. reflexivity.
  - intros Ht. split; apply is_dist_cell; [apply HOi|apply HOc]; exact Ht.
Qed.

(** * draw_is_predictive: midline *)
Lemma qpow_unit q t : 0 <= q <= 1 -> 0 <= qpow q t <= 1.
Proof. intros H. induction t as [|t IH]; cbn [qpow]; [apply Qc_unit_1|apply Qc_unit_mul; assumption]. Qed.

Lemma wf_ml_parts ml : wf_ml_sampler ml = true ->
  wf_midline ml = true /\ wf_bilateral (ml_ext ml) = true /\ wf_bilateral (ml_noext ml) = true /\
  u_states (b_ipsi (ml_noext ml)) = u_states (b_ipsi (ml_ext ml)).
Proof.
  unfold wf_ml_sampler. rewrite !andb_true_iff, Nat.eqb_eq. intros [[Hwf Hn] _].
  pose proof Hwf as Hwf'. unfold wf_midline in Hwf'. rewrite !andb_true_iff, !Nat.eqb_eq in Hwf'.
  destruct Hwf' as [[[[He Hno] Hm] Hb] Hl].
  repeat split; try assumption.
  destruct (wf_bilateral_parts _ Hno) as (_ & _ & _ & Hbn).
  unfold u_states, state_list. unfold u_base in *. rewrite Hn. f_equal. congruence.
Qed.
Lemma wf_bilateral_unis b : wf_bilateral b = true -> wf_uni (b_ipsi b) = true /\ wf_uni (b_contra b) = true.
Proof. unfold wf_bilateral. rewrite !andb_true_iff. tauto. Qed.

Lemma ext_probs_spec ml t : (t <= ml_maxt ml)%nat -> ext_probs ml t = [ext_prob ml t false; ext_prob ml t true].
Proof.
  intros Ht. unfold ext_probs, ext_prob. destruct (ml_evo ml); [|reflexivity].
  unfold midext_evo. rewrite (nth_map_seq _ (0, 0) (S (ml_maxt ml)) 0 t) by lia. reflexivity.
Qed.
Lemma ext_prob_unit ml t e : 0 <= ml_midext ml <= 1 -> 0 <= ext_prob ml t e <= 1.
Proof.
  intros Hp. pose proof (Qc_unit_compl _ Hp) as Hq. pose proof (qpow_unit _ t Hq) as Hw.
  unfold ext_prob. destruct (ml_evo ml), e; try assumption. apply Qc_unit_compl, Hw.
Qed.
Lemma ext_probs_dist ml t : 0 <= ml_midext ml <= 1 -> (t <= ml_maxt ml)%nat -> is_dist (ext_probs ml t).
Proof.
  intros Hp Ht. rewrite (ext_probs_spec ml t Ht). split.
  - intros a [<-|[<-|[]]]; apply ext_prob_unit, Hp.
  - cbn [sumQ]. unfold ext_prob. destruct (ml_evo ml); ring.
Qed.

(** non-negativity of the contralateral joint with the extension flag *)
Lemma chain_nonneg ml : wf_midline ml = true ->
  params_in_unit (u_graph (b_contra (ml_ext ml))) -> params_in_unit (u_graph (b_contra (ml_noext ml))) ->
  0 <= ml_midext ml <= 1 ->
  forall t e x, In x (u_states (b_contra (ml_ext ml))) -> 0 <= chain_contra ml t e x.
Proof.
  intros Hwf Hpe Hpn Hp. destruct (wf_midline_parts ml Hwf) as (_ & He & Hn & _ & _ & HS).
  pose proof (Qc_unit_compl _ Hp) as Hq.
  induction t as [|t IH]; intros e x Hx.
  - cbn [chain_contra]. destruct e; [apply Qcle_refl|].
    destruct (list_eq_dec Nat.eq_dec x (healthy (nlnls (u_graph (b_contra (ml_noext ml)))))); discriminate.
  - cbn [chain_contra]. destruct e.
    + apply sumQ_nonneg. intros a Ha. apply in_map_iff in Ha. destruct Ha as [y [<- Hy]].
      pose proof (IH true y Hy) as H1. pose proof (IH false y Hy) as H2.
      destruct (entries_in_unit_interval _ y x He Hpe Hy Hx) as [H3 _].
      destruct Hp as [Hp0 _].
      apply mul_nonneg; [|exact H3]. apply add_nonneg; [exact H1|apply mul_nonneg; assumption].
    + apply sumQ_nonneg. intros a Ha. apply in_map_iff in Ha. destruct Ha as [y [<- Hy]].
      change (state_list (u_graph (b_contra (ml_noext ml)))) with (u_states (b_contra (ml_noext ml))) in Hy.
      rewrite HS in Hy. pose proof (IH false y Hy) as H2.
      assert (Hx' : In x (state_list (u_graph (b_contra (ml_noext ml))))).
      { change (In x (u_states (b_contra (ml_noext ml)))). rewrite HS. exact Hx. }
      assert (Hy' : In y (state_list (u_graph (b_contra (ml_noext ml))))).
      { change (In y (u_states (b_contra (ml_noext ml)))). rewrite HS. exact Hy. }
      destruct (entries_in_unit_interval _ y x Hn Hpn Hy' Hx') as [H3 _].
      destruct Hq as [Hq0 _].
      apply mul_nonneg; [apply mul_nonneg; assumption|exact H3].
Qed.
Lemma contra_spec_nonneg ml : wf_midline ml = true ->
  params_in_unit (u_graph (b_contra (ml_ext ml))) -> params_in_unit (u_graph (b_contra (ml_noext ml))) ->
  0 <= ml_midext ml <= 1 ->
  forall t e x, In x (u_states (b_contra (ml_ext ml))) -> 0 <= ml_contra_spec ml t e x.
Proof.
  intros Hwf Hpe Hpn Hp t e x Hx. destruct (wf_midline_parts ml Hwf) as (_ & He & Hn & _ & _ & HS).
  unfold ml_contra_spec. destruct (ml_evo ml); [apply chain_nonneg; assumption|].
  unfold static_contra. destruct e.
  - apply mul_nonneg; [apply Hp|]. apply (evo_nonneg entries_in_unit_interval _ t x He Hpe Hx).
  - apply mul_nonneg; [apply (Qc_unit_compl _ Hp)|].
    apply (evo_nonneg entries_in_unit_interval _ t x Hn Hpn).
    change (In x (u_states (b_contra (ml_noext ml)))). rewrite HS. exact Hx.
Qed.
Lemma contra_spec_sum ml t e : wf_midline ml = true ->
  sumQ (map (ml_contra_spec ml t e) (u_states (b_contra (case_model ml e)))) = ext_prob ml t e.
Proof.
  intros Hwf. unfold ml_contra_spec, ext_prob. destruct (ml_evo ml) eqn:Ev.
  - destruct (midext_marginal ml t Hwf Ev) as [H1 H2]. destruct e; assumption.
  - destruct (static_marginal ml t Hwf Ev) as [H1 H2]. destruct e; assumption.
Qed.

Lemma Qc_ltb_true x y : x < y -> Qc_ltb x y = true.
Proof.
  intros H. unfold Qc_ltb. destruct (Qc_leb y x) eqn:E; [|reflexivity].
  apply Qc_leb_spec in E. exfalso. exact (Qc_le_lt_false _ _ E H).
Qed.

(** the normalised row is the model's conditional P(X^c_t | e_t = e) *)
Lemma contra_cond_row ml t e : wf_midline ml = true -> (t <= ml_maxt ml)%nat -> 0 < ext_prob ml t e ->
  nth t (contra_cond ml e) []
  = map (fun x => ml_contra_spec ml t e x / ext_prob ml t e) (u_states (b_contra (case_model ml e))).
Proof.
  intros Hwf Ht Hpos. unfold contra_cond. rewrite (contra_evo_tab ml Hwf).
  pose proof (contra_spec_sum ml t e Hwf) as Hsum.
  destruct e; cbn [fst snd case_model] in *; unfold normalise_rows; rewrite map_map;
    rewrite nth_map_seq by lia; cbn [Nat.add]; cbv zeta;
    rewrite Hsum, (Qc_ltb_true _ _ Hpos), map_map; reflexivity.
Qed.
Lemma contra_cond_dist ml t e : wf_midline ml = true ->
  params_in_unit (u_graph (b_contra (ml_ext ml))) -> params_in_unit (u_graph (b_contra (ml_noext ml))) ->
  0 <= ml_midext ml <= 1 -> (t <= ml_maxt ml)%nat -> 0 < ext_prob ml t e ->
  length (nth t (contra_cond ml e) []) = length (u_states (b_contra (case_model ml e))) /\
  (forall a, In a (nth t (contra_cond ml e) []) -> 0 <= a) /\ sumQ (nth t (contra_cond ml e) []) = 1.
Proof.
  intros Hwf Hpe Hpn Hp Ht Hpos. rewrite (contra_cond_row ml t e Hwf Ht Hpos).
  destruct (wf_midline_parts ml Hwf) as (_ & _ & _ & _ & _ & HS).
  split; [apply map_length|]. split.
  - intros a Ha. apply in_map_iff in Ha. destruct Ha as [x [<- Hx]]. apply div_nonneg; [|exact Hpos].
    apply contra_spec_nonneg; try assumption. destruct e; cbn [case_model] in Hx; [exact Hx|rewrite <- HS; exact Hx].
  - rewrite <- (map_map (ml_contra_spec ml t e) (fun a => a / ext_prob ml t e)), sumQ_map_div, contra_spec_sum by exact Hwf.
    apply div_self, Qclt_neq0, Hpos.
Qed.

Lemma index_ext_roundtrip k : (k < 2)%nat -> index_of_ext (ext_of_index k) = k.
Proof. destruct k as [|[|k]]; intros H; [reflexivity|reflexivity|lia]. Qed.
Lemma ext_index_roundtrip e : ext_of_index (index_of_ext e) = e.
Proof. destruct e; reflexivity. Qed.

Section MidlineDraw.
  Variable ml : midline.
  Hypothesis Hwfs : wf_ml_sampler ml = true.
  Hypothesis Hunit : ml_in_unit ml.

  Lemma ml_ipsi_dist e t : (t <= ml_maxt ml)%nat -> is_dist (ml_ipsi_probs ml e t).
  Proof.
    intros Ht. destruct (wf_ml_parts ml Hwfs) as (Hwf & Hbe & Hbn & HSi).
    destruct (wf_bilateral_unis _ Hbe) as [Hie Hce]. destruct (wf_bilateral_unis _ Hbn) as [Hin Hcn].
    destruct Hunit as ((Hpie & Hmie) & (Hpce & Hmce) & (Hpin & Hmin) & (Hpcn & Hmcn) & Hp).
    destruct (evo_row_dist (ml_ipsi ml) t (wf_uni_graph _ Hie) Hpie Ht) as (Hl & Hn & Hs).
    unfold ml_ipsi_probs, obs_probs_of. apply pred_valid; try assumption.
    - destruct e; cbn [case_model]; apply wf_uni_base; assumption.
    - destruct e; cbn [case_model]; assumption.
    - rewrite Hl. unfold ml_ipsi. destruct e; cbn [case_model]; [reflexivity|rewrite HSi; reflexivity].
  Qed.
  Lemma ml_contra_dist e t : (t <= ml_maxt ml)%nat -> 0 < ext_prob ml t e -> is_dist (ml_contra_probs ml e t).
  Proof.
    intros Ht Hpos. destruct (wf_ml_parts ml Hwfs) as (Hwf & Hbe & Hbn & HSi).
    destruct (wf_bilateral_unis _ Hbe) as [Hie Hce]. destruct (wf_bilateral_unis _ Hbn) as [Hin Hcn].
    destruct Hunit as ((Hpie & Hmie) & (Hpce & Hmce) & (Hpin & Hmin) & (Hpcn & Hmcn) & Hp).
    destruct (contra_cond_dist ml t e Hwf Hpce Hpcn Hp Ht Hpos) as (Hl & Hn & Hs).
    unfold ml_contra_probs, obs_probs_of. apply pred_valid; try assumption.
    - destruct e; cbn [case_model]; apply wf_uni_base; assumption.
    - destruct e; cbn [case_model]; assumption.
  Qed.
  Lemma ext_cell_pos t e xe : (t <= ml_maxt ml)%nat -> in_cell (ext_probs ml t) (index_of_ext e) xe -> 0 < ext_prob ml t e.
  Proof.
    intros Ht Hc. destruct Hunit as (_ & _ & _ & _ & Hp).
    pose proof (ext_probs_dist ml t Hp Ht) as Hd.
    pose proof (in_cell_pos _ xe _ (is_dist_valid _ Hd) Hc) as H.
    rewrite <- cell_len_spec', (is_dist_cell _ _ Hd), (ext_probs_spec ml t Ht) in H.
    destruct e; exact H.
  Qed.

  Lemma ml_draw_is_predictive_aux sd xs xt xe xi xc s t e oi oc :
    stages_ok (ml_ipsi ml) sd -> unit_u xs -> unit_u xt -> unit_u xe -> unit_u xi -> unit_u xc ->
    (draw_one_ml ml sd xs xt xe (xi, xc) = (s, t, e, oi, oc)
     <-> in_cell (renorm_stage_dist sd) s xs /\ in_cell (stage_pmf (ml_ipsi ml) s) t xt
         /\ in_cell (ext_probs ml t) (index_of_ext e) xe
         /\ in_cell (ml_ipsi_probs ml e t) oi xi /\ in_cell (ml_contra_probs ml e t) oc xc).
  Proof.
    intros Hok Hxs Hxt Hxe Hxi Hxc.
    destruct (stage_facts (ml_ipsi ml) sd xs s Hok Hxs) as [HS1 HS2].
    assert (Hp : 0 <= ml_midext ml <= 1) by (destruct Hunit as (_ & _ & _ & _ & Hp); exact Hp).
    unfold draw_one_ml, draw_diag_time. cbv zeta. cbn [fst snd]. split.
    - intros E. injection E as E1 E2 E3 E4 E5. rewrite E1 in E2. rewrite E1, E2 in E3. rewrite E1, E2, E3 in E4, E5.
      apply HS1 in E1. destruct (HS2 E1) as [Hpv Hpl].
      destruct (time_facts _ xt t _ Hpv Hpl Hxt) as [HT1 HT2]. apply HT1 in E2.
      pose proof (HT2 E2) as Ht. change (u_maxt (ml_ipsi ml)) with (ml_maxt ml) in Ht.
      pose proof (ext_probs_dist ml t Hp Ht) as Hed.
      assert (HE : in_cell (ext_probs ml t) (index_of_ext e) xe).
      { rewrite <- E3. rewrite index_ext_roundtrip.
        - apply (choice_iff _ xe _ (is_dist_valid _ Hed) Hxe). reflexivity.
        - pose proof (choice_lt _ xe (is_dist_valid _ Hed) Hxe) as Hlt.
          rewrite (ext_probs_spec ml t Ht) in Hlt at 2. exact Hlt. }
      pose proof (ext_cell_pos t e xe Ht HE) as Hpos.
      split; [exact E1|]. split; [exact E2|]. split; [exact HE|]. split.
      + apply (choice_iff _ xi oi (is_dist_valid _ (ml_ipsi_dist e t Ht)) Hxi). exact E4.
      + apply (choice_iff _ xc oc (is_dist_valid _ (ml_contra_dist e t Ht Hpos)) Hxc). exact E5.
    - intros (C1 & C2 & C3 & C4 & C5). destruct (HS2 C1) as [Hpv Hpl].
      destruct (time_facts _ xt t _ Hpv Hpl Hxt) as [HT1 HT2].
      apply HS1 in C1. rewrite C1. pose proof (HT2 C2) as Ht. change (u_maxt (ml_ipsi ml)) with (ml_maxt ml) in Ht.
      apply HT1 in C2. rewrite C2.
      pose proof (ext_probs_dist ml t Hp Ht) as Hed.
      pose proof (ext_cell_pos t e xe Ht C3) as Hpos.
      apply (choice_iff _ xe _ (is_dist_valid _ Hed) Hxe) in C3. rewrite C3, ext_index_roundtrip.
      apply (choice_iff _ xi oi (is_dist_valid _ (ml_ipsi_dist e t Ht)) Hxi) in C4. rewrite C4.
      apply (choice_iff _ xc oc (is_dist_valid _ (ml_contra_dist e t Ht Hpos)) Hxc) in C5. rewrite C5. reflexivity.
  Qed.
End MidlineDraw.

Lemma ml_draw_is_predictive : C16_ml_draw_is_predictive_stmt.
Proof.
  intros ml sd xs xt xe xi xc s t e oi oc Hwfs Hunit Hok Hxs Hxt Hxe Hxi Hxc.
  split; [apply ml_draw_is_predictive_aux; assumption|].
  split; [apply (stage_dist_renormalised sd s (proj1 Hok))|]. split; [apply cell_len_spec'|].
  intros Ht. assert (Hp : 0 <= ml_midext ml <= 1) by (destruct Hunit as (_ & _ & _ & _ & Hp); exact Hp).
  destruct (wf_ml_parts ml Hwfs) as (Hwf & _).
  split; [|split].
  - rewrite (is_dist_cell _ _ (ext_probs_dist ml t Hp Ht)), (ext_probs_spec ml t Ht). destruct e; reflexivity.
  - apply is_dist_cell, ml_ipsi_dist; assumption.
  - intros Hpos. split; [apply is_dist_cell, ml_contra_dist; assumption|apply contra_cond_row; assumption].
Qed.

(** * table round trip *)
Fixpoint leqb (a b : list nat) : bool :=
  match a, b with
  | [], [] => true
  | x :: a', y :: b' => Nat.eqb x y && leqb a' b'
  | _, _ => false
  end.
Lemma leqb_spec a : forall b, leqb a b = true <-> a = b.
Proof.
  induction a as [|x a IH]; intros [|y b]; cbn [leqb]; try (split; [discriminate|discriminate]); [tauto|].
  rewrite andb_true_iff, Nat.eqb_eq, IH. split; [intros [-> ->]; reflexivity|intros E; inversion E; tauto].
Qed.
Lemma leqb_refl a : leqb a a = true.
Proof. apply leqb_spec. reflexivity. Qed.
Lemma leqb_neq a b : a <> b -> leqb a b = false.
Proof. intros H. destruct (leqb a b) eqn:E; [|reflexivity]. apply leqb_spec in E. contradiction. Qed.
Lemma leqb_split n a b : leqb a b = leqb (firstn n a) (firstn n b) && leqb (skipn n a) (skipn n b).
Proof.
  apply Bool.eq_iff_eq_true. rewrite andb_true_iff, !leqb_spec. split.
  - intros ->. split; reflexivity.
  - intros [H1 H2]. rewrite <- (firstn_skipn n a), <- (firstn_skipn n b), H1, H2. reflexivity.
Qed.
Lemma Forall_firstn' {A} (P : A -> Prop) n : forall l, Forall P l -> Forall P (firstn n l).
Proof. induction n as [|n IH]; intros [|a l] H; cbn [firstn]; try constructor; inversion H; subst; auto. Qed.
Lemma Forall_skipn' {A} (P : A -> Prop) n : forall l, Forall P l -> Forall P (skipn n l).
Proof. induction n as [|n IH]; intros [|a l] H; cbn [skipn]; try assumption; inversion H; subst; auto. Qed.

Lemma mem_false_In s l x : mem s l = false -> In x l -> str_eqb x s = false.
Proof.
  induction l as [|a l IH]; intros Hm Hx; [destruct Hx|]. cbn [mem] in Hm. apply orb_false_iff in Hm.
  destruct Hm as [H1 H2]. destruct Hx as [<-|Hx]; [|apply IH; assumption].
  unfold str_eqb in *. rewrite String.eqb_sym. exact H1.
Qed.
Lemma str_eqb_refl s : str_eqb s s = true.
Proof. apply String.eqb_refl. Qed.

Definition own_pattern (lnls : list string) (zm : state) : pattern :=
  map (fun '(l, d) => (l, Some (ind_of_bit d))) (combine lnls zm).
Lemma binary_own_pattern lnls zm : binary_pattern (own_pattern lnls zm) = true.
Proof.
  unfold binary_pattern, own_pattern. apply forallb_forall. intros kv H. apply in_map_iff in H.
  destruct H as [[l d] [<- _]]. cbn [snd]. unfold ind_of_bit. destruct (Nat.eqb d 0); reflexivity.
Qed.
Lemma matches_own_pattern lnls : nodupb lnls = true -> forall zm zm',
  length zm = length lnls -> length zm' = length lnls ->
  Forall (fun d => (d < 2)%nat) zm -> Forall (fun d => (d < 2)%nat) zm' ->
  matches_pattern lnls (own_pattern lnls zm) 2 zm' = leqb zm' zm.
Proof.
  unfold matches_pattern, own_pattern.
  induction lnls as [|l0 ls IH]; intros Hnd [|d0 zr] [|d0' zr'] L1 L2 F1 F2; try discriminate; [reflexivity|].
  cbn [nodupb] in Hnd. apply andb_true_iff in Hnd. destruct Hnd as [Hm Hnd]. apply negb_true_iff in Hm.
  cbn [combine map forallb leqb pat_get]. rewrite str_eqb_refl.
  inversion F1 as [|? ? Hd0 F1']; subst. inversion F2 as [|? ? Hd0' F2']; subst.
  f_equal.
  - destruct d0 as [|[|?]]; destruct d0' as [|[|?]]; try lia; reflexivity.
  - rewrite <- (IH Hnd zr zr') by (cbn in L1, L2; try lia; assumption).
    apply forallb_ext_in. intros [l d] Hin. apply in_combine_l in Hin.
    rewrite (mem_false_In _ _ _ Hm Hin). reflexivity.
Qed.

Lemma diag_of_obs_cons m0 ms lnls z :
  diag_of_obs (m0 :: ms) lnls z
  = (m0, own_pattern lnls (firstn (length lnls) z)) :: diag_of_obs ms lnls (skipn (length lnls) z).
Proof. reflexivity. Qed.
Lemma compatible_own names lnls : nodupb lnls = true -> nodupb names = true -> forall z z',
  length z = (length names * length lnls)%nat -> length z' = (length names * length lnls)%nat ->
  Forall (fun d => (d < 2)%nat) z -> Forall (fun d => (d < 2)%nat) z' ->
  compatible names lnls (diag_of_obs names lnls z) z' = leqb z' z.
Proof.
  intros Hl. induction names as [|m0 ms IH]; intros Hnd z z' L1 L2 F1 F2.
  - destruct z; [|discriminate]. destruct z'; [|discriminate]. reflexivity.
  - cbn [nodupb] in Hnd. apply andb_true_iff in Hnd. destruct Hnd as [Hm Hnd]. apply negb_true_iff in Hm.
    rewrite diag_of_obs_cons. unfold compatible. cbn [length chunk combine forallb diag_get]. rewrite str_eqb_refl.
    cbn [length Nat.mul] in L1, L2.
    rewrite (leqb_split (length lnls) z' z). f_equal.
    + apply matches_own_pattern; try assumption.
      * rewrite firstn_length_le; lia.
      * rewrite firstn_length_le; lia.
      * apply Forall_firstn'; assumption.
      * apply Forall_firstn'; assumption.
    + rewrite <- (IH Hnd (skipn (length lnls) z) (skipn (length lnls) z'))
        by (try (rewrite skipn_length; lia); apply Forall_skipn'; assumption).
      unfold compatible. apply forallb_ext_in. intros [m zm] Hin. apply in_combine_l in Hin.
      rewrite (mem_false_In _ _ _ Hm Hin). reflexivity.
Qed.

Lemma NoDup_app' {A} (l1 l2 : list A) : NoDup l1 -> NoDup l2 -> (forall x, In x l1 -> ~ In x l2) -> NoDup (l1 ++ l2).
Proof.
  induction l1 as [|a l1 IH]; intros H1 H2 Hd; [exact H2|]. inversion H1; subst. cbn [app]. constructor.
  - intros Hin. apply in_app_or in Hin. destruct Hin as [Hin|Hin]; [contradiction|]. apply (Hd a); [left; reflexivity|exact Hin].
  - apply IH; [assumption|assumption|]. intros x Hx. apply Hd. right. exact Hx.
Qed.
Lemma NoDup_map_cons (d : nat) (X : list state) : NoDup X -> NoDup (map (cons d) X).
Proof.
  induction 1 as [|x X Hx Hn IH]; cbn [map]; constructor; [|exact IH].
  intros Hin. apply in_map_iff in Hin. destruct Hin as [y [E Hy]]. inversion E; subst. contradiction.
Qed.
Lemma NoDup_flat_map_cons (X : list state) (ds : list nat) : NoDup ds -> NoDup X ->
  NoDup (flat_map (fun d => map (cons d) X) ds).
Proof.
  intros Hd HX. induction Hd as [|d ds Hnin Hd IH]; cbn [flat_map]; [constructor|].
  apply NoDup_app'; [apply NoDup_map_cons, HX|exact IH|].
  intros x Hx Hx'. apply in_map_iff in Hx. destruct Hx as [y [<- _]].
  apply in_flat_map in Hx'. destruct Hx' as [d' [Hd' Hy']]. apply in_map_iff in Hy'. destruct Hy' as [y' [E _]].
  inversion E; subst. contradiction.
Qed.
Lemma all_states_NoDup b n : NoDup (all_states b n).
Proof.
  induction n as [|n IH]; cbn [all_states]; [constructor; [intros []|constructor]|].
  apply NoDup_flat_map_cons; [apply seq_NoDup|exact IH].
Qed.
Lemma map_const_false {A B} (l : list A) (l' : list B) : length l = length l' ->
  map (fun _ => false) l = map (fun _ => false) l'.
Proof. revert l'. induction l as [|a l IH]; intros [|b l'] H; try discriminate; [reflexivity|]. cbn [map]. f_equal. apply IH. cbn in H. lia. Qed.

Lemma onehot_nodup (L : list state) : NoDup L -> forall o, (o < length L)%nat ->
  map (fun z' => leqb z' (nth o L [])) L = onehot_at o (length L).
Proof.
  unfold onehot_at. induction 1 as [|a r Ha Hn IH]; intros o Ho; [cbn in Ho; lia|].
  cbn [length seq map]. rewrite <- seq_shift, map_map. destruct o as [|o].
  - cbn [nth]. rewrite leqb_refl. f_equal.
    rewrite (map_ext_in _ (fun _ => false)) by (intros z' Hz'; apply leqb_neq; intros ->; contradiction).
    transitivity (map (fun _ : nat => false) (seq 0 (length r))).
    + apply map_const_false. rewrite seq_length. reflexivity.
    + apply map_ext. intros j. reflexivity.
  - cbn [nth]. cbn [length] in Ho. f_equal.
    + apply leqb_neq. intros ->. apply Ha. apply nth_In. lia.
    + rewrite IH by lia. apply map_ext. intros j. reflexivity.
Qed.
Lemma wf_side_diag mods lnls z ts : wf_patient {| p_tstage := ts; p_find := diag_of_obs mods lnls z |} = true.
Proof.
  unfold wf_patient. cbn [p_find]. apply forallb_forall. intros kv H. unfold diag_of_obs in H.
  apply in_map_iff in H. destruct H as [[m zm] [<- _]]. cbn [snd]. apply binary_own_pattern.
Qed.

Lemma table_roundtrip : C16_table_roundtrip_stmt.
Proof.
  intros u o ts Hwf Ho. unfold side_diag.
  rewrite (patient_encoding_spec _ _ _ (wf_side_diag _ _ _ ts)). cbn [p_find]. f_equal.
  assert (Hmn : length (u_mod_names u) = length (u_mods u)) by apply map_length.
  assert (HL : u_obs_list u = all_states 2 (length (u_mod_names u) * length (u_lnls u))).
  { unfold u_obs_list, obs_list, u_n, nlnls, u_lnls. rewrite Hmn. reflexivity. }
  rewrite HL in *. set (L := all_states 2 (length (u_mod_names u) * length (u_lnls u))) in *.
  rewrite <- (onehot_nodup L (all_states_NoDup _ _) o Ho).
  assert (Hz : In (nth o L []) L) by (apply nth_In; exact Ho).
  apply all_states_In in Hz. destruct Hz as [Hzl Hzf].
  apply map_ext_in. intros z' Hz'. apply all_states_In in Hz'. destruct Hz' as [Hl' Hf'].
  apply compatible_own; try assumption.
  - apply wf_uni_lnls, Hwf.
  - unfold wf_uni in Hwf. apply andb_true_iff in Hwf. exact (proj2 Hwf).
Qed.

Lemma data_matrix_single u p enc : patient_encoding (u_lnls u) (u_mod_names u) p = inr enc ->
  data_matrix u [p] None = inr [enc].
Proof. intros H. unfold data_matrix, select. cbn [map sequence]. rewrite H. reflexivity. Qed.

Lemma rows_roundtrip : C16_rows_roundtrip_stmt.
Proof.
  split; [|split].
  - intros u s t o Hwf Ho. apply data_matrix_single. apply table_roundtrip; assumption.
  - intros b s t i c Hi Hc Hoi Hoc. split; apply data_matrix_single; apply table_roundtrip; assumption.
  - intros ml s t e i c Hi Hc Hoi Hoc. split; [reflexivity|].
    split; apply data_matrix_single; apply table_roundtrip; assumption.
Qed.

Lemma seed_determinism : C16_seed_determinism_stmt.
Proof. intros num sd xs xs' ->. repeat split. Qed.

(** * Boolean forms of the hypotheses (for concrete objects) *)
Definition unitb (a : Qc) : bool := Qc_leb 0 a && Qc_leb a 1.
Definition uni_in_unitb (u : uni) : bool :=
  forallb (fun e => unitb (e_spread e) && unitb (e_micro e)) (g_edges (u_graph u))
  && forallb (fun m => unitb (m_spec m) && unitb (m_sens m)) (map snd (u_mods u)).
Definition valid_weightsb (p : vec) : bool := forallb (Qc_leb 0) p && Qc_ltb 0 (sumQ p).
Definition stages_okb (u : uni) (sd : vec) : bool :=
  valid_weightsb sd
  && forallb (fun s => valid_weightsb (stage_pmf u s) && Nat.eqb (length (stage_pmf u s)) (S (u_maxt u))) (seq 0 (length sd)).
Definition ml_in_unitb (ml : midline) : bool :=
  uni_in_unitb (b_ipsi (ml_ext ml)) && uni_in_unitb (b_contra (ml_ext ml))
  && uni_in_unitb (b_ipsi (ml_noext ml)) && uni_in_unitb (b_contra (ml_noext ml)) && unitb (ml_midext ml).
Definition unit_ub (u : Qc) : bool := Qc_leb 0 u && Qc_ltb u 1.

Lemma unitb_ok a : unitb a = true -> 0 <= a <= 1.
Proof. unfold unitb. rewrite andb_true_iff, !Qc_leb_spec. tauto. Qed.
Lemma Qc_ltb_spec x y : Qc_ltb x y = true -> x < y.
Proof.
  unfold Qc_ltb, Qc_leb. destruct (Qclt_le_dec x y) as [H|H]; [intros _; exact H|discriminate].
Qed.
Lemma unit_ub_ok u : unit_ub u = true -> unit_u u.
Proof. unfold unit_ub, unit_u. rewrite andb_true_iff, Qc_leb_spec. intros [H1 H2]. split; [exact H1|apply Qc_ltb_spec, H2]. Qed.
Lemma uni_in_unitb_ok u : uni_in_unitb u = true -> uni_in_unit u.
Proof.
  unfold uni_in_unitb, uni_in_unit, params_in_unit, mods_in_unit. rewrite andb_true_iff, !forallb_forall.
  intros [H1 H2]. split.
  - intros e He. specialize (H1 e He). apply andb_true_iff in H1. destruct H1. split; apply unitb_ok; assumption.
  - intros m Hm. specialize (H2 m Hm). apply andb_true_iff in H2. destruct H2. split; apply unitb_ok; assumption.
Qed.
Lemma valid_weightsb_ok p : valid_weightsb p = true -> valid_weights p.
Proof.
  unfold valid_weightsb, valid_weights. rewrite andb_true_iff, forallb_forall. intros [H1 H2]. split.
  - intros a Ha. apply Qc_leb_spec, H1, Ha.
  - apply Qc_ltb_spec, H2.
Qed.
Lemma stages_okb_ok u sd : stages_okb u sd = true -> stages_ok u sd.
Proof.
  unfold stages_okb, stages_ok. rewrite andb_true_iff, forallb_forall. intros [H1 H2]. split; [apply valid_weightsb_ok, H1|].
  intros s Hs. specialize (H2 s). rewrite andb_true_iff, Nat.eqb_eq in H2.
  destruct H2 as [H3 H4]; [apply in_seq; lia|]. split; [apply valid_weightsb_ok, H3|exact H4].
Qed.
Lemma ml_in_unitb_ok ml : ml_in_unitb ml = true -> ml_in_unit ml.
Proof.
  unfold ml_in_unitb, ml_in_unit. rewrite !andb_true_iff. intros [[[[H1 H2] H3] H4] H5].
  split; [apply uni_in_unitb_ok, H1|]. split; [apply uni_in_unitb_ok, H2|]. split; [apply uni_in_unitb_ok, H3|].
  split; [apply uni_in_unitb_ok, H4|apply (unitb_ok _ H5)].
Qed.

(** * Concrete objects for the non-vacuity examples of properties/C16.v:
    the midline model of C04 (trinary graph T -> II, T -> III, III -> II with growth, two
    modalities, a frozen and a binomial time distribution, max_time = 2, midext_prob = 1/3),
    an unnormalised stage distribution, and a stream of 15 uniforms for 3 patients *)
Definition C16_ex_sd : vec := [qc 1 2; qc 3 2].
Definition C16_ex_stream : list Qc :=
  [qc 1 10; qc 1 4; qc 9 10;                       (* T-stages: cells [0,1/4) and [1/4,1) *)
   qc 3 5; qc 99 100; qc 1 2;                      (* diagnosis times *)
   qc 1 2; qc 9 10; qc 1 5;                        (* extension *)
   qc 1 3; qc 7 8; qc 1 2; qc 1 9; qc 2 3; qc 4 5] (* findings, routed by the extension mask *).
