(** Bridge: the premise [Safe.mid_names_nodup_stmt] of the C12 Midline theorems follows
    from the C10 theorem [mid_names_nodup] (ParamsMidline.v). *)
From LymphModel Require Import Base States Linalg Graph Transition Observation Dist Unilateral Models Params
  ParamsStatements ParamsLemmas ParamsProofs ParamsBilateral ParamsMidline Safe.
Local Open Scope nat_scope.
Local Open Scope string_scope.
Local Open Scope list_scope.

Lemma shape_eqb_refl_trans es1 es2 es3 : shape_eqb es1 es2 = true -> shape_eqb es2 es3 = true -> shape_eqb es1 es3 = true.
Proof.
  revert es2 es3. induction es1 as [|e1 r1 IH]; intros [|e2 r2] [|e3 r3] H1 H2; cbn [shape_eqb] in *; try discriminate; [reflexivity|].
  apply andb_true_iff in H1. destruct H1 as [H1 Hr1]. apply andb_true_iff in H1. destruct H1 as [Hn1 Hk1].
  apply andb_true_iff in H2. destruct H2 as [H2 Hr2]. apply andb_true_iff in H2. destruct H2 as [Hn2 Hk2].
  apply String.eqb_eq in Hn1, Hn2. apply Nat.eqb_eq in Hk1, Hk2. rewrite Hn1, Hn2, Hk1, Hk2, String.eqb_refl, Nat.eqb_refl. cbn [andb].
  apply (IH r2 r3); assumption.
Qed.
Lemma same_shape_trans u1 u2 u3 : same_shape u1 u2 = true -> same_shape u2 u3 = true -> same_shape u1 u3 = true.
Proof.
  unfold same_shape. rewrite !andb_true_iff. intros [Hb1 Hs1] [Hb2 Hs2]. apply Nat.eqb_eq in Hb1, Hb2. split.
  - rewrite Hb1, Hb2. apply Nat.eqb_refl.
  - apply (shape_eqb_refl_trans _ _ _ Hs1 Hs2).
Qed.

Lemma safe_names_ok_mid m : Safe.m_names_ok m = true -> mid_names_ok m = true.
Proof.
  unfold Safe.m_names_ok, m_bis. rewrite !andb_true_iff. intros [[[[[Hb Hsh] _] _] _] Hsym].
  cbn [app forallb] in Hb, Hsh, Hsym. rewrite !andb_true_iff in Hb. rewrite !andb_true_iff in Hsh. rewrite !andb_true_iff in Hsym.
  destruct Hb as [Hext [Hnoext _]]. destruct Hsh as [_ [[Hsn _] _]]. destruct Hsym as [HsL _].
  unfold b_names_ok in Hext, Hnoext. rewrite !andb_true_iff in Hext, Hnoext.
  destruct Hext as [[[Hei Hec] Hse] _]. destruct Hnoext as [[[Hni Hnc] Hsn2] _].
  unfold mid_names_ok, ml_ei, ml_ec, ml_nc. rewrite !andb_true_iff. repeat split; try assumption.
  apply (same_shape_trans _ (b_ipsi (ml_noext m))); assumption.
Qed.
Lemma safe_items_mid m : Safe.m_items m = mid_items m.
Proof.
  rewrite mid_items_split. unfold Safe.m_items, Safe.m_spread_items, mid_spread_items, m_mixing_item, m_midext_item, m_ei, ml_ei, ml_ec, ml_nc.
  destruct (ml_mixing m), (ml_symL m); reflexivity.
Qed.

Theorem safe_mid_names_nodup : Safe.mid_names_nodup_stmt.
Proof.
  intros m H. unfold m_names. rewrite safe_items_mid. apply mid_names_nodup, safe_names_ok_mid, H.
Qed.

Lemma safe_set_ok_mid m : Safe.m_names_ok m = true -> mid_set_ok m = true.
Proof.
  intros H. pose proof (safe_names_ok_mid m H) as Hn. unfold mid_set_ok. rewrite Hn. cbn [andb].
  unfold Safe.m_names_ok, m_bis in H. rewrite !andb_true_iff in H. destruct H as [[[[[Hb Hsh] _] _] _] _].
  cbn [app forallb] in Hb, Hsh. rewrite !andb_true_iff in Hb. rewrite !andb_true_iff in Hsh.
  destruct Hb as [_ [Hnoext _]]. destruct Hsh as [_ [[Hsn _] _]].
  unfold b_names_ok in Hnoext. rewrite !andb_true_iff in Hnoext. destruct Hnoext as [[[Hni _] _] _].
  unfold ml_ni, ml_ei. rewrite Hni. exact Hsn.
Qed.

Theorem safe_mid_set_get_keyword : Safe.mid_set_get_keyword_stmt.
Proof.
  intros m v H Hl r. subst r. unfold m_names. rewrite safe_items_mid in *.
  apply (mid_set_get_keyword m v (safe_set_ok_mid m H) Hl).
Qed.
