(** NumpyPosterior: the posterior / risk path of [lymph.models.Unilateral] ([compute_encoding] (the method),
    [posterior_state_dist], [marginalize], [risk]) and its observation helpers ([diagnosis_prob], [observation_matrix],
    [diagnosis_matrix], [obs_list]) read with numpy's semantics, line by line as the Python code is written
    ([np_<function>]), and the STATIC proofs that these readings equal the hand-written model of Unilateral.v /
    Observation.v.

    The source translator (harness/translate8.py) re-generates every [np_...] term from the Python source on every run
    and checks the generated term against the definition here by [reflexivity] (conversion); the equality with the model
    then follows from the static theorem [np_<function>_model].

    Readings that differ in shape from the model (and are proved equal to it here):
    - the model writes [P(z | x)] as [matvec O enc] (rows of the observation matrix dotted with the encoding); the code
      computes [enc @ O.T]: numpy's [v @ M] with the width of [M.T], which is the number of rows of [O];
    - a boolean array used in [@] is promoted to 0.0 / 1.0 ([map b2q]);
    - an array that may be NaN is an [option]: [x / np.sum(x)] is [None] when the sum is zero (0/0 = NaN, a/0 = inf; neither
      is a rational), and every product with a NaN array is NaN.  [marginalize] receives "Python None or an array that
      may be NaN": [option (option vec)];
    - [diagnosis_matrix] is [(O @ D.T).T] for the boolean data matrix [D] (one row per patient), the model maps
      [matvec O] over the rows of [D].

    What is NOT modelled: numpy raises (ValueError) when the shapes of the operands of [@] / [*] do not fit; the list
    primitives truncate instead.  Under the hypotheses of the theorems all shapes fit, except for a caller-supplied
    [given_state_dist] of the wrong length (the model truncates as well, the theorems hold for every list). *)
From LymphModel Require Import Base States Linalg Graph Transition Observation Dist Unilateral UniStatements
  Numpy NumpyTransition TransitionProofs ObservationProofs PriorProofs LikelihoodProofs NumpyPipelines.
Local Open Scope nat_scope.
Open Scope Qc_scope.

(** * numpy / Python primitives (the translator's reading; trusted base) *)
(** [matrix.compute_encoding(lnls, pattern, base)]: [Observation.compute_encoding], its ValueError = [inl MValue]
    (tied to the source by the pieces [element] / [compute_encoding] of translate.py / translate2.py) *)
Definition mx_compute_encoding (lnl_names : list string) (p : pattern) (b : nat) : res bvec :=
  match compute_encoding lnl_names p b with None => inl MValue | Some e => inr e end.
(** [d.get(key, {})] on a diagnosis (modality name -> pattern): the empty pattern when the key is missing *)
Definition np_diag_get_or_empty (key : string) (d : diagnosis) : pattern :=
  match diag_get key d with None => [] | Some p => p end.
(** [np.sum(v)] of a 1-D array *)
Definition np_sum (v : vec) : Qc := sumQ v.
(** [v / z] for a 1-D array and a scalar: [None] = NaN / inf entries when z = 0 *)
Definition np_div_scalar (v : vec) (z : Qc) : option vec :=
  if Qc_eqb z 0 then None else Some (map (fun a => a / z) v).
(** [enc @ v] for a boolean 1-D array and a 1-D array that may be NaN ([None]) *)
Definition np_bdot_nan (enc : bvec) (v : option vec) : option Qc :=
  match v with None => None | Some v => Some (dot (map b2q enc) v) end.

(** * compute_encoding (the method)
    diagnosis_encoding = np.array([True], dtype=bool)
    for modality in self.get_all_modalities().keys():
        diagnosis_encoding = np.kron(diagnosis_encoding,
            matrix.compute_encoding(lnls=self.graph.lnls.keys(), pattern=given_diagnosis.get(modality, {}), base=2))
    return diagnosis_encoding *)
Definition np_compute_encoding (mod_names lnl_names : list string) (given_diagnosis : diagnosis) : res bvec :=
  let diagnosis_encoding := [true] in
  bind (fold_left (fun (acc : res bvec) (modality : string) => bind acc (fun diagnosis_encoding =>
          bind (mx_compute_encoding lnl_names (np_diag_get_or_empty modality given_diagnosis) 2) (fun x =>
          let diagnosis_encoding := kron_bvec diagnosis_encoding x in
          inr diagnosis_encoding)))
        mod_names (inr diagnosis_encoding)) (fun diagnosis_encoding =>
  inr diagnosis_encoding).

(** * posterior_state_dist
    if given_state_dist is None:
        utils.safe_set_params(self, given_params)                    (given_params is None: no effect)
        given_state_dist = self.state_dist(t_stage, mode=mode)
    if given_diagnosis is None: return given_state_dist
    diagnosis_encoding = self.compute_encoding(given_diagnosis)
    diagnosis_given_state = diagnosis_encoding @ self.observation_matrix().T
    joint_diagnosis_and_state = given_state_dist * diagnosis_given_state
    return joint_diagnosis_and_state / np.sum(joint_diagnosis_and_state) *)
Definition np_posterior_state_dist (transition_matrix : mat) (state_list : list state) (max_time : nat)
  (pmf_of : string -> res vec) (nodes : list (nat * string)) (bnp : state -> nat * string -> res Qc)
  (observation_matrix : mat) (mod_names lnl_names : list string)
  (given_state_dist : option vec) (given_diagnosis : option diagnosis) (t_stage : string) (hmm : bool)
  : res (option vec) :=
  bind (match given_state_dist with
        | None => np_state_dist transition_matrix state_list max_time pmf_of nodes bnp t_stage hmm
        | Some given_state_dist => inr given_state_dist
        end) (fun given_state_dist =>
  match given_diagnosis with
  | None => inr (Some given_state_dist)
  | Some given_diagnosis =>
      bind (np_compute_encoding mod_names lnl_names given_diagnosis) (fun diagnosis_encoding =>
      let diagnosis_given_state := np_vecmat (map b2q diagnosis_encoding) (np_transpose 0 observation_matrix) in
      let joint_diagnosis_and_state := vmul given_state_dist diagnosis_given_state in
      inr (np_div_scalar joint_diagnosis_and_state (np_sum joint_diagnosis_and_state)))
  end).

(** * marginalize
    if given_state_dist is None: given_state_dist = self.state_dist(t_stage=t_stage, mode=mode)
    marginalize_over_states = matrix.compute_encoding(lnls=self.graph.lnls.keys(), pattern=involvement,
                                                      base=3 if self.is_trinary else 2)
    return marginalize_over_states @ given_state_dist *)
Definition np_marginalize (transition_matrix : mat) (state_list : list state) (max_time : nat)
  (pmf_of : string -> res vec) (nodes : list (nat * string)) (bnp : state -> nat * string -> res Qc)
  (lnl_names : list string) (is_trinary : bool)
  (involvement : pattern) (given_state_dist : option (option vec)) (t_stage : string) (hmm : bool) : res (option Qc) :=
  bind (match given_state_dist with
        | None => bind (np_state_dist transition_matrix state_list max_time pmf_of nodes bnp t_stage hmm)
                       (fun x => inr (Some x))
        | Some given_state_dist => inr given_state_dist
        end) (fun given_state_dist =>
  bind (mx_compute_encoding lnl_names involvement (if is_trinary then 3 else 2)%nat) (fun marginalize_over_states =>
  inr (np_bdot_nan marginalize_over_states given_state_dist))).

(** * risk
    posterior_state_dist = self.posterior_state_dist(given_params=given_params, given_state_dist=given_state_dist,
                                                     given_diagnosis=given_diagnosis, t_stage=t_stage, mode=mode)
    return self.marginalize(involvement, posterior_state_dist)          (t_stage="early", mode="HMM": unused) *)
Definition np_risk (transition_matrix : mat) (state_list : list state) (max_time : nat)
  (pmf_of : string -> res vec) (nodes : list (nat * string)) (bnp : state -> nat * string -> res Qc)
  (observation_matrix : mat) (mod_names lnl_names : list string) (is_trinary : bool)
  (involvement : pattern) (given_state_dist : option vec) (given_diagnosis : option diagnosis)
  (t_stage : string) (hmm : bool) : res (option Qc) :=
  bind (np_posterior_state_dist transition_matrix state_list max_time pmf_of nodes bnp observation_matrix mod_names
          lnl_names given_state_dist given_diagnosis t_stage hmm) (fun posterior_state_dist =>
  bind (np_marginalize transition_matrix state_list max_time pmf_of nodes bnp lnl_names is_trinary involvement
          (Some posterior_state_dist) "early" true) (fun x =>
  inr x)).

(** * proofs: compute_encoding *)
Lemma fold_res_inl {A B} (f : A -> B -> res A) e : forall l,
  fold_left (fun (acc : res A) (b : B) => bind acc (fun a => f a b)) l (inl e) = inl e.
Proof. induction l as [|b l IH]; [reflexivity|]. exact IH. Qed.

Theorem np_compute_encoding_model u d :
  np_compute_encoding (u_mod_names u) (u_lnls u) d = diagnosis_encoding u d.
Proof.
  unfold np_compute_encoding, diagnosis_encoding. cbv zeta. rewrite bind_inr_id.
  apply fold_left_ext2. intros [e|enc] m; cbn [bind]; [reflexivity|].
  unfold mx_compute_encoding, np_diag_get_or_empty.
  destruct (compute_encoding (u_lnls u) match diag_get m d with None => [] | Some p => p end 2); reflexivity.
Qed.

(** the encoding of a diagnosis has one entry per column of the observation matrix *)
Lemma kron_bvec_len u v : length (kron_bvec u v) = (length u * length v)%nat.
Proof. unfold kron_bvec. apply flat_map_length_const. intros a _. apply map_length. Qed.
Lemma compute_encoding_len lnls p b e : base_ok b = true -> compute_encoding lnls p b = Some e ->
  length e = (b ^ length lnls)%nat.
Proof.
  intros Hb. rewrite compute_encoding_gen by exact Hb. destruct (forallb (enc_okb b p) lnls); [|discriminate].
  intros E. inversion E. rewrite map_length. apply all_states_length.
Qed.
Lemma diagnosis_encoding_len u d enc : diagnosis_encoding u d = inr enc ->
  length enc = (2 ^ (length (u_mods u) * u_n u))%nat.
Proof.
  unfold diagnosis_encoding, u_mod_names. rewrite <- (map_length fst (u_mods u)).
  change (u_n u) with (length (u_lnls u)).
  generalize (map fst (u_mods u)) as names. intros names.
  assert (G : forall acc0, fold_left (fun (acc : res bvec) m =>
      bind acc (fun enc =>
        let pat := match diag_get m d with None => [] | Some p => p end in
        match compute_encoding (u_lnls u) pat 2 with
        | None => inl MValue
        | Some e => inr (kron_bvec enc e)
        end)) names (inr acc0) = inr enc -> length enc = (length acc0 * 2 ^ (length names * length (u_lnls u)))%nat).
  { induction names as [|m names IH]; intros acc0; cbn [fold_left length bind].
    - intros E. inversion E. cbn [Nat.mul Nat.pow]. lia.
    - cbv zeta.
      destruct (compute_encoding (u_lnls u) match diag_get m d with None => [] | Some p => p end 2) as [e'|] eqn:Ec.
      + intros E. rewrite (IH _ E), kron_bvec_len, (compute_encoding_len _ _ 2 _ eq_refl Ec).
        cbn [Nat.mul]. rewrite Nat.pow_add_r. lia.
      + rewrite (fold_res_inl (fun enc0 m0 =>
          match compute_encoding (u_lnls u) match diag_get m0 d with None => [] | Some p => p end 2 with
          | None => inl MValue | Some e => inr (kron_bvec enc0 e) end)). discriminate. }
  intros E. rewrite (G [true] E). cbn [length]. lia.
Qed.

(** * proofs: posterior_state_dist *)
Lemma dot_comm : forall u v : vec, dot u v = dot v u.
Proof. induction u as [|a u IH]; intros [|b v]; cbn [dot]; try reflexivity. rewrite IH. ring. Qed.

Lemma np_vecmat_obs_T u enc : wf_graphb (u_graph u) = true ->
  length enc = (2 ^ (length (u_mods u) * u_n u))%nat ->
  np_vecmat (map b2q enc) (np_transpose 0 (observation_matrix u)) = matvec (observation_matrix u) (map b2q enc).
Proof.
  intros Hwf Hl.
  rewrite (np_vecmat_transpose (2 ^ (length (u_mods u) * u_n u)) (map b2q enc) (observation_matrix u)).
  - unfold matvec. apply map_ext. intros r. apply dot_comm.
  - assert (2 ^ (length (u_mods u) * u_n u) <> 0)%nat by (apply Nat.pow_nonzero; lia). lia.
  - rewrite map_length. exact Hl.
  - apply (observation_matrix_shape u Hwf).
Qed.

Lemma np_posterior_core u prior d : wf_graphb (u_graph u) = true -> forall T sl m pmf nodes bnp t hmm,
  np_posterior_state_dist T sl m pmf nodes bnp (observation_matrix u) (u_mod_names u) (u_lnls u) (Some prior) d t hmm
  = posterior_of u prior d.
Proof.
  intros Hwf T sl m pmf nodes bnp t hmm. unfold np_posterior_state_dist, posterior_of. cbn [bind].
  destruct d as [dg|]; [|reflexivity].
  rewrite np_compute_encoding_model. destruct (diagnosis_encoding u dg) as [e|enc] eqn:Ee; cbn [bind]; [reflexivity|].
  cbv zeta. rewrite (np_vecmat_obs_T u enc Hwf (diagnosis_encoding_len u dg enc Ee)).
  unfold np_div_scalar, np_sum.
  destruct (Qc_eqb (sumQ (vmul prior (matvec (observation_matrix u) (map b2q enc)))) 0); reflexivity.
Qed.

(** with a given state distribution the T-stage, the mode and the LNLs are not read *)
Theorem np_posterior_given_model u prior d t hmm : wf_graphb (u_graph u) = true ->
  np_posterior_state_dist (transition_matrix u) (u_states u) (u_maxt u) (get_pmf u) (np_enumerate (lnls (u_graph u)))
    (bn_reading (u_graph u)) (observation_matrix u) (u_mod_names u) (u_lnls u) (Some prior) d t hmm
  = posterior_of u prior d.
Proof. intros Hwf. apply np_posterior_core. exact Hwf. Qed.

Theorem np_posterior_state_dist_model u given d t hmm : wf_graphb (u_graph u) = true -> lnls (u_graph u) <> [] ->
  np_posterior_state_dist (transition_matrix u) (u_states u) (u_maxt u) (get_pmf u) (np_enumerate (lnls (u_graph u)))
    (bn_reading (u_graph u)) (observation_matrix u) (u_mod_names u) (u_lnls u) given d t hmm
  = bind (match given with None => state_dist u t hmm | Some sd => inr sd end) (fun prior => posterior_of u prior d).
Proof.
  intros Hwf Hl. destruct given as [sd|]; cbn [bind]; [apply np_posterior_core; exact Hwf|].
  unfold np_posterior_state_dist at 1. rewrite (np_state_dist_model u t hmm Hwf Hl).
  destruct (state_dist u t hmm) as [e|prior]; cbn [bind]; [reflexivity|].
  exact (np_posterior_core u prior d Hwf (transition_matrix u) (u_states u) (u_maxt u) (get_pmf u)
           (np_enumerate (lnls (u_graph u))) (bn_reading (u_graph u)) t hmm).
Qed.

(** * proofs: marginalize *)
Lemma is_trinary_base g : wf_graphb g = true -> (if Nat.eqb (g_base g) 3 then 3 else 2)%nat = g_base g.
Proof. intros Hwf. destruct (wfb_base g Hwf) as [-> | ->]; reflexivity. Qed.

(** a given distribution (not NaN): [marginalize_of]; a NaN array: NaN, unless the involvement pattern is invalid *)
Theorem np_marginalize_given_model u inv t hmm : wf_graphb (u_graph u) = true ->
  (forall sd,
   np_marginalize (transition_matrix u) (u_states u) (u_maxt u) (get_pmf u) (np_enumerate (lnls (u_graph u)))
     (bn_reading (u_graph u)) (u_lnls u) (Nat.eqb (u_base u) 3) inv (Some (Some sd)) t hmm
   = bind (marginalize_of u inv sd) (fun r => inr (Some r)))
  /\
   np_marginalize (transition_matrix u) (u_states u) (u_maxt u) (get_pmf u) (np_enumerate (lnls (u_graph u)))
     (bn_reading (u_graph u)) (u_lnls u) (Nat.eqb (u_base u) 3) inv (Some None) t hmm
   = match compute_encoding (u_lnls u) inv (u_base u) with None => inl MValue | Some _ => inr None end.
Proof.
  intros Hwf. unfold np_marginalize, marginalize_of, mx_compute_encoding, u_base. cbn [bind].
  rewrite (is_trinary_base _ Hwf). split; [intros sd|];
    destruct (compute_encoding (u_lnls u) inv (g_base (u_graph u))); reflexivity.
Qed.

Theorem np_marginalize_model u inv t hmm : wf_graphb (u_graph u) = true -> lnls (u_graph u) <> [] ->
  np_marginalize (transition_matrix u) (u_states u) (u_maxt u) (get_pmf u) (np_enumerate (lnls (u_graph u)))
    (bn_reading (u_graph u)) (u_lnls u) (Nat.eqb (u_base u) 3) inv None t hmm
  = bind (state_dist u t hmm) (fun sd => bind (marginalize_of u inv sd) (fun r => inr (Some r))).
Proof.
  intros Hwf Hl. unfold np_marginalize. rewrite (np_state_dist_model u t hmm Hwf Hl).
  destruct (state_dist u t hmm) as [e|sd]; cbn [bind]; [reflexivity|].
  unfold marginalize_of, mx_compute_encoding, u_base. rewrite (is_trinary_base _ Hwf).
  destruct (compute_encoding (u_lnls u) inv (g_base (u_graph u))); reflexivity.
Qed.

(** * proofs: risk *)
(** the code, exactly: the involvement pattern is encoded (and may raise ValueError) even when the posterior is NaN *)
Definition risk_code (u : uni) (inv : pattern) (prior : res vec) (d : option diagnosis) : res (option Qc) :=
  bind prior (fun prior =>
  bind (posterior_of u prior d) (fun po =>
    match compute_encoding (u_lnls u) inv (u_base u) with
    | None => inl MValue
    | Some enc => inr (match po with None => None | Some post => Some (dot (map b2q enc) post) end)
    end)).

Lemma np_risk_code u inv given d t hmm : wf_graphb (u_graph u) = true -> lnls (u_graph u) <> [] ->
  np_risk (transition_matrix u) (u_states u) (u_maxt u) (get_pmf u) (np_enumerate (lnls (u_graph u)))
    (bn_reading (u_graph u)) (observation_matrix u) (u_mod_names u) (u_lnls u) (Nat.eqb (u_base u) 3) inv given d t hmm
  = risk_code u inv (match given with None => state_dist u t hmm | Some sd => inr sd end) d.
Proof.
  intros Hwf Hl. unfold np_risk. rewrite (np_posterior_state_dist_model u given d t hmm Hwf Hl).
  assert (G : forall pr : res vec,
    bind (bind pr (fun prior => posterior_of u prior d)) (fun posterior_state_dist =>
      bind (np_marginalize (transition_matrix u) (u_states u) (u_maxt u) (get_pmf u) (np_enumerate (lnls (u_graph u)))
              (bn_reading (u_graph u)) (u_lnls u) (Nat.eqb (u_base u) 3) inv (Some posterior_state_dist) "early" true)
           (fun x => inr x))
    = risk_code u inv pr d); [|destruct given; apply G].
  intros pr. unfold risk_code.
  destruct pr as [e|prior]; cbn [bind]; [reflexivity|].
  destruct (posterior_of u prior d) as [e|po]; cbn [bind]; [reflexivity|].
  rewrite bind_inr_id. unfold np_marginalize, mx_compute_encoding, u_base. cbn [bind]. rewrite (is_trinary_base _ Hwf).
  destruct (compute_encoding (u_lnls u) inv (g_base (u_graph u))); cbn [bind]; [|reflexivity].
  destruct po; reflexivity.
Qed.

(** the code agrees with the model's [risk] whenever the involvement pattern can be encoded in the model's base, and
    also for an invalid pattern unless the posterior is NaN (the model answers NaN, the code raises ValueError) *)
Lemma risk_code_model u inv prior d :
  (compute_encoding (u_lnls u) inv (u_base u) <> None \/ forall p, posterior_of u p d <> inr None) ->
  risk_code u inv prior d
  = bind prior (fun prior => bind (posterior_of u prior d) (fun po =>
      match po with None => inr None | Some post => bind (marginalize_of u inv post) (fun r => inr (Some r)) end)).
Proof.
  intros H. unfold risk_code, marginalize_of. destruct prior as [e|prior]; cbn [bind]; [reflexivity|].
  destruct (posterior_of u prior d) as [e|[post|]] eqn:Ep; cbn [bind]; [reflexivity| |].
  - destruct (compute_encoding (u_lnls u) inv (u_base u)); reflexivity.
  - destruct H as [H|H]; [|exfalso; exact (H prior Ep)].
    destruct (compute_encoding (u_lnls u) inv (u_base u)); [reflexivity|congruence].
Qed.

Theorem np_risk_model u inv d t hmm : wf_graphb (u_graph u) = true -> lnls (u_graph u) <> [] ->
  compute_encoding (u_lnls u) inv (u_base u) <> None ->
  np_risk (transition_matrix u) (u_states u) (u_maxt u) (get_pmf u) (np_enumerate (lnls (u_graph u)))
    (bn_reading (u_graph u)) (observation_matrix u) (u_mod_names u) (u_lnls u) (Nat.eqb (u_base u) 3) inv None d t hmm
  = risk u inv d t hmm.
Proof.
  intros Hwf Hl Hinv. rewrite (np_risk_code u inv None d t hmm Hwf Hl). unfold risk.
  apply risk_code_model. left. exact Hinv.
Qed.

(** the corner in which code and model differ: NaN posterior and an involvement pattern that cannot be encoded *)
Theorem np_risk_nan_invalid u inv d t hmm prior : wf_graphb (u_graph u) = true -> lnls (u_graph u) <> [] ->
  state_dist u t hmm = inr prior -> posterior_of u prior d = inr None ->
  compute_encoding (u_lnls u) inv (u_base u) = None ->
  np_risk (transition_matrix u) (u_states u) (u_maxt u) (get_pmf u) (np_enumerate (lnls (u_graph u)))
    (bn_reading (u_graph u)) (observation_matrix u) (u_mod_names u) (u_lnls u) (Nat.eqb (u_base u) 3) inv None d t hmm
  = inl MValue
  /\ risk u inv d t hmm = inr None.
Proof.
  intros Hwf Hl Hs Hp He. split.
  - rewrite (np_risk_code u inv None d t hmm Hwf Hl). unfold risk_code. rewrite Hs. cbn [bind]. rewrite Hp. cbn [bind].
    rewrite He. reflexivity.
  - unfold risk. rewrite Hs. cbn [bind]. rewrite Hp. reflexivity.
Qed.

(** with a given state distribution *)
Theorem np_risk_given_model u inv sd d t hmm : wf_graphb (u_graph u) = true -> lnls (u_graph u) <> [] ->
  compute_encoding (u_lnls u) inv (u_base u) <> None ->
  np_risk (transition_matrix u) (u_states u) (u_maxt u) (get_pmf u) (np_enumerate (lnls (u_graph u)))
    (bn_reading (u_graph u)) (observation_matrix u) (u_mod_names u) (u_lnls u) (Nat.eqb (u_base u) 3) inv (Some sd) d t hmm
  = bind (posterior_of u sd d) (fun po =>
      match po with None => inr None | Some post => bind (marginalize_of u inv post) (fun r => inr (Some r)) end).
Proof.
  intros Hwf Hl Hinv. rewrite (np_risk_code u inv (Some sd) d t hmm Hwf Hl).
  rewrite (risk_code_model u inv (inr sd) d) by (left; exact Hinv). reflexivity.
Qed.

(** * diagnosis_prob
    prob = 1.0
    for name, modality in self.get_all_modalities().items():
        if name in diagnosis:
            mod_diagnosis = diagnosis[name]
            for lnl in self.graph.lnls.values():
                try: lnl_diagnosis = mod_diagnosis[lnl.name]
                except KeyError: continue
                except IndexError as idx_err: raise ValueError(...) from idx_err          (dead: a dict lookup)
                prob *= lnl.comp_obs_prob(lnl_diagnosis, modality.confusion_matrix)
    return prob
    [nodes] = the LNL nodes, each read as (name, current state); [cm modality] = modality.confusion_matrix;
    [cop node obs table] = node.comp_obs_prob(obs, table) *)
(** [pattern[key]]: [None] = KeyError, [Some v] = the stored value ([v = None]: the value None / NaN) *)
Fixpoint pat_find (l : string) (p : pattern) : option (option indicator) :=
  match p with [] => None | (k, v) :: r => if str_eqb l k then Some v else pat_find l r end.

Definition np_diagnosis_prob (mods : list (string * modality)) (cm : modality -> mat) (nodes : list (string * nat))
  (cop : string * nat -> option indicator -> mat -> Qc) (diagnosis : diagnosis) : Qc :=
  let prob := 1 in
  let prob := fold_left (fun (prob : Qc) '(name, modality) =>
      match diag_get name diagnosis with
      | None => prob
      | Some mod_diagnosis =>
          let prob := fold_left (fun (prob : Qc) (lnl : string * nat) =>
              match pat_find (fst lnl) mod_diagnosis with
              | None => prob
              | Some lnl_diagnosis =>
                  let prob := prob * cop lnl lnl_diagnosis (cm modality) in
                  prob
              end) nodes prob in
          prob
      end) mods prob in
  prob.

(** [AbstractNode.comp_obs_prob(obs, obs_table)] for a node in state [snd node] (obligation comp_obs_prob of
    harness/translate2.py): an unknown finding is the factor 1, else the table entry *)
Definition obs_prob_reading (node : string * nat) (obs : option indicator) (table : mat) : Qc :=
  match obs with None => 1 | Some ind => mget table (snd node) (obs_of_indicator ind) end.

Lemma pat_get_find l p : pat_get l p = match pat_find l p with Some v => v | None => None end.
Proof.
  induction p as [|[k v] p IH]; cbn [pat_get pat_find]; [reflexivity|]. destruct (str_eqb l k); [reflexivity|exact IH].
Qed.

Theorem np_diagnosis_prob_model b mods lnl_names x d :
  np_diagnosis_prob mods (confusion_matrix b) (combine lnl_names x) obs_prob_reading d
  = diagnosis_prob b mods lnl_names x d.
Proof.
  unfold np_diagnosis_prob, diagnosis_prob. cbv zeta.
  apply fold_left_ext2. intros pr [name m]. destruct (diag_get name d) as [pat|]; [|reflexivity].
  apply fold_left_ext2. intros pr' [l s]. cbn [fst]. rewrite pat_get_find.
  destruct (pat_find l pat) as [[ind|]|]; unfold obs_prob_reading, conf; cbn [snd]; [reflexivity|ring|reflexivity].
Qed.

(** * observation_matrix
    return matrix.generate_observation(modalities=self.get_all_modalities().values(), num_lnls=len(self.graph.lnls),
                                       base=3 if self.is_trinary else 2) *)
Definition np_observation_matrix (modalities : list modality) (lnl_names : list string) (is_trinary : bool) : mat :=
  generate_observation modalities (length lnl_names) (if is_trinary then 3 else 2)%nat.

Theorem np_observation_matrix_model u : wf_graphb (u_graph u) = true ->
  np_observation_matrix (map snd (u_mods u)) (u_lnls u) (Nat.eqb (u_base u) 3) = observation_matrix u.
Proof.
  intros Hwf. unfold np_observation_matrix, observation_matrix, u_base. rewrite (is_trinary_base _ Hwf). reflexivity.
Qed.

(** * diagnosis_matrix
    _hash = hash((t_stage, self.modalities_hash(), self._cache_version))
    if _hash not in self._diagnosis_matrix_cache:
        self._diagnosis_matrix_cache[_hash] = (self.observation_matrix() @ self.data_matrix(t_stage).T)
    return self._diagnosis_matrix_cache[_hash].T
    (the cache is transparent; [data_matrix t_stage] = the boolean data matrix, one row per patient, or an exception) *)
(** [A @ B] for two 2-D arrays *)
Definition np_matmul (A B : mat) : mat := map (fun r => np_vecmat r B) A.

Definition np_diagnosis_matrix (observation_matrix : mat) (data_matrix : option string -> res (list bvec))
  (t_stage : option string) : res mat :=
  bind (data_matrix t_stage) (fun x =>
  let cached := np_matmul observation_matrix (map (map b2q) (np_transpose false x)) in
  inr (np_transpose 0 cached)).

Lemma nth_map_default {A B} (h : A -> B) (da : A) (db : B) : forall l j, (j < length l)%nat ->
  nth j (map h l) db = h (nth j l da).
Proof. induction l as [|a l IH]; intros [|j] H; cbn [length map nth] in *; try lia; [reflexivity|]. apply IH. lia. Qed.

(** the transpose of a matrix given entry-wise: rows indexed by [la] (not empty), columns by [lb] *)
Lemma np_transpose_tab {A B C} (d : C) (db : B) (f : A -> B -> C) (la : list A) (lb : list B) : la <> [] ->
  np_transpose d (map (fun a => map (f a) lb) la) = map (fun b => map (fun a => f a b) la) lb.
Proof.
  intros Hla. unfold np_transpose.
  assert (W : match map (fun a => map (f a) lb) la with [] => 0%nat | r :: _ => length r end = length lb).
  { destruct la as [|a la]; [congruence|]. cbn [map]. apply map_length. }
  rewrite W.
  transitivity (map (fun b => map (fun a => f a b) la) (map (fun i => nth i lb db) (seq 0 (length lb))));
    [|rewrite map_nth_seq; reflexivity].
  rewrite map_map.
  apply map_ext_in. intros j Hj. apply in_seq in Hj. rewrite map_map. apply map_ext. intros a.
  apply nth_map_default. lia.
Qed.

Lemma np_transpose_b2q (D : list bvec) : map (map b2q) (np_transpose false D) = np_transpose 0 (map (map b2q) D).
Proof.
  unfold np_transpose.
  replace (match map (map b2q) D with [] => 0%nat | r :: _ => length r end)
    with (match D with [] => 0%nat | r :: _ => length r end)
    by (destruct D as [|r D']; cbn [map]; [reflexivity|symmetry; apply map_length]).
  rewrite map_map. apply map_ext. intros j. rewrite !map_map. apply map_ext. intros r.
  change 0 with (b2q false). symmetry. apply map_nth.
Qed.

Lemma np_diagnosis_matrix_shape_eq N (O : mat) (D : list bvec) : (0 < N)%nat -> O <> [] ->
  Forall (fun r => length r = N) O -> Forall (fun r => length r = N) D ->
  np_transpose 0 (np_matmul O (map (map b2q) (np_transpose false D))) = map (fun enc => matvec O (map b2q enc)) D.
Proof.
  intros HN HO HrO HrD. rewrite np_transpose_b2q. unfold np_matmul.
  rewrite (map_ext_in _ (fun o => map (fun enc => dot o (map b2q enc)) D)).
  - rewrite (np_transpose_tab 0 [] (fun o enc => dot o (map b2q enc)) O D HO). reflexivity.
  - intros o Ho. rewrite Forall_forall in HrO.
    rewrite (np_vecmat_transpose N o (map (map b2q) D) HN (HrO o Ho)).
    + rewrite map_map. reflexivity.
    + apply Forall_forall. intros r Hr. apply in_map_iff in Hr. destruct Hr as [enc [<- Henc]].
      rewrite map_length. rewrite Forall_forall in HrD. exact (HrD enc Henc).
Qed.

(** every row of the data matrix has one entry per column of the observation matrix *)
Lemma patient_encoding_len lnls mods p e :
  patient_encoding lnls mods p = inr e -> length e = (2 ^ (length mods * length lnls))%nat.
Proof.
  unfold patient_encoding.
  set (step := fun (acc : res bvec) m =>
      bind acc (fun enc =>
        match diag_get m (p_find p) with
        | None => inr (kron_bvec enc (repeat true (Nat.pow 2 (length lnls))))
        | Some pat => match compute_encoding lnls pat 2 with
                      | None => inl MValue
                      | Some e => inr (kron_bvec enc e)
                      end
        end)).
  assert (Hinl : forall e0 l, fold_left step l (inl e0) = inl e0).
  { intros e0 l. induction l as [|m l IH]; [reflexivity|]. exact IH. }
  assert (G : forall acc0, fold_left step mods (inr acc0) = inr e ->
              length e = (length acc0 * 2 ^ (length mods * length lnls))%nat).
  { induction mods as [|m mods IH]; intros acc0; cbn [fold_left length].
    - intros E. inversion E. cbn [Nat.mul Nat.pow]. lia.
    - unfold step at 2. cbn [bind]. destruct (diag_get m (p_find p)) as [pat|].
      + destruct (compute_encoding lnls pat 2) as [e'|] eqn:Ec.
        * intros E. rewrite (IH _ E), kron_bvec_len, (compute_encoding_len _ _ 2 _ eq_refl Ec).
          cbn [Nat.mul]. rewrite Nat.pow_add_r. lia.
        * rewrite Hinl. discriminate.
      + intros E. rewrite (IH _ E), kron_bvec_len, repeat_length. cbn [Nat.mul]. rewrite Nat.pow_add_r. lia. }
  intros E. rewrite (G [true] E). cbn [length]. lia.
Qed.

Lemma sequence_map_Forall' {A B} (f : A -> res B) (P : B -> Prop) : (forall a b, f a = inr b -> P b) ->
  forall l bs, sequence (map f l) = inr bs -> Forall P bs.
Proof.
  intros H. induction l as [|a l IH]; intros bs; cbn [map sequence].
  - intros E. inversion E. constructor.
  - destruct (f a) as [e|b] eqn:Ea; cbn [bind]; [discriminate|].
    destruct (sequence (map f l)) as [e|t]; cbn [bind]; [discriminate|].
    intros E. inversion E. constructor; [exact (H a b Ea)|apply IH; reflexivity].
Qed.

Lemma data_matrix_rows u data t D : data_matrix u data t = inr D ->
  Forall (fun r => length r = (2 ^ (length (u_mods u) * u_n u))%nat) D.
Proof.
  unfold data_matrix. apply sequence_map_Forall'. intros p e E.
  rewrite (patient_encoding_len _ _ _ _ E). unfold u_mod_names. rewrite map_length. reflexivity.
Qed.

Theorem np_diagnosis_matrix_model u data t : wf_graphb (u_graph u) = true ->
  np_diagnosis_matrix (observation_matrix u) (data_matrix u data) t = diagnosis_matrix u data t.
Proof.
  intros Hwf. unfold np_diagnosis_matrix, diagnosis_matrix.
  destruct (data_matrix u data t) as [e|D] eqn:ED; cbn [bind]; [reflexivity|]. cbv zeta. f_equal.
  apply (np_diagnosis_matrix_shape_eq (2 ^ (length (u_mods u) * u_n u))).
  - assert (2 ^ (length (u_mods u) * u_n u) <> 0)%nat by (apply Nat.pow_nonzero; lia). lia.
  - pose proof (nstates_pos _ Hwf) as Hp. destruct (observation_matrix_shape u Hwf) as [Hlen _].
    intros E. rewrite E in Hlen. cbn [length] in Hlen. unfold u_base, u_n in Hlen. lia.
  - apply (observation_matrix_shape u Hwf).
  - apply (data_matrix_rows u data t D ED).
Qed.

(** * obs_list
    possible_obs_list = []
    for modality in self.get_all_modalities().values():
        possible_obs = np.arange(modality.confusion_matrix.shape[1])
        for _ in self.graph.lnls: possible_obs_list.append(possible_obs.copy())
    return np.array(list(product( *possible_obs_list ))) *)
(** [M.shape[1]] (of a 2-D array with at least one row) *)
Definition np_shape1 (M : mat) : nat := ncols M.
(** [np.array(list(product( *lists )))]: the cartesian product in lexicographic order, one row per tuple *)
Definition np_product (ls : list (list nat)) : list (list nat) :=
  fold_right (fun l acc => flat_map (fun a => map (cons a) acc) l) [[]] ls.

Definition np_obs_list (modalities : list modality) (cm : modality -> mat) (lnl_names : list string) : list state :=
  let possible_obs_list : list (list nat) := [] in
  let possible_obs_list := fold_left (fun (possible_obs_list : list (list nat)) (modality : modality) =>
      let possible_obs := seq 0 (np_shape1 (cm modality)) in
      let possible_obs_list := fold_left (fun (possible_obs_list : list (list nat)) (_ : string) =>
          let possible_obs_list := possible_obs_list ++ [possible_obs] in
          possible_obs_list) lnl_names possible_obs_list in
      possible_obs_list) modalities possible_obs_list in
  np_product possible_obs_list.

Lemma np_product_repeat b : forall k, np_product (repeat (seq 0 b) k) = all_states b k.
Proof. induction k as [|k IH]; cbn [repeat np_product fold_right all_states]; [reflexivity|]. fold (np_product (repeat (seq 0 b) k)). rewrite IH. reflexivity. Qed.

Lemma fold_append_repeat {A B} (x : A) : forall (names : list B) (l0 : list A),
  fold_left (fun (l : list A) (_ : B) => l ++ [x]) names l0 = l0 ++ repeat x (length names).
Proof.
  induction names as [|n names IH]; intros l0; cbn [fold_left length repeat]; [rewrite app_nil_r; reflexivity|].
  rewrite IH, <- app_assoc. reflexivity.
Qed.

Lemma repeat_add {A} (x : A) a b : repeat x (a + b) = repeat x a ++ repeat x b.
Proof. induction a as [|a IH]; cbn [Nat.add repeat app]; [reflexivity|]. rewrite IH. reflexivity. Qed.

Lemma confusion_ncols b m : ncols (confusion_matrix b m) = 2%nat.
Proof. unfold confusion_matrix. destruct (Nat.eqb b 3); [destruct (m_path m)|]; reflexivity. Qed.

Theorem np_obs_list_eq b (mods : list modality) (names : list string) :
  np_obs_list mods (confusion_matrix b) names = obs_list (length mods) (length names).
Proof.
  unfold np_obs_list, obs_list. cbv zeta.
  assert (G : forall l0, fold_left (fun (l : list (list nat)) (m : modality) =>
      fold_left (fun (l : list (list nat)) (_ : string) => l ++ [seq 0 (np_shape1 (confusion_matrix b m))]) names l)
      mods l0 = l0 ++ repeat (seq 0 2) (length mods * length names)).
  { induction mods as [|m mods IH]; intros l0; cbn [fold_left length Nat.mul repeat]; [rewrite app_nil_r; reflexivity|].
    rewrite IH, fold_append_repeat. unfold np_shape1. rewrite confusion_ncols, repeat_add, app_assoc. reflexivity. }
  rewrite G. cbn [app]. apply np_product_repeat.
Qed.

Theorem np_obs_list_model u :
  np_obs_list (map snd (u_mods u)) (confusion_matrix (u_base u)) (u_lnls u) = u_obs_list u.
Proof. rewrite np_obs_list_eq. unfold u_obs_list. rewrite map_length. reflexivity. Qed.
