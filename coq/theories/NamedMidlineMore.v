(** NamedMidlineMore: the named-parameter theorems of C17 (literal subsets) and the
    [named_subset_scored] theorem of C12 for models.Midline.

    Route: a literal-subset call [set_named_params( *v)] on a Midline is the keyword-only
    call [m_set_params m [] (combine named (vals v))].
    - every declared name reads its value afterwards: [mid_keyword_over_positional]
      (ParamsMidlineMore.v);
    - every other reported parameter keeps its value: [chain_kw_keep] below, from the chain
      inversion lemmas [m_chain_inv_mix] / [m_chain_inv_nomix] of ParamsMidline.v and the
      refined shape [nform] of the reported names: none of the keywords a leaf looks up for
      an undeclared parameter is a reported name.  No synchronisation hypothesis is needed:
      every reported parameter is read from the very leaf whose plan starts from its own
      current values;
    - [get_named_params]: no reported name is a proper in-order sub-name of another one
      ([nform_lit]).
    New file; nothing existing is changed. *)
From LymphModel Require Import Base States Linalg Graph Transition Observation Dist Unilateral Models Params
  ParamsStatements ParamsLemmas ParamsProofs ParamsBilateral ParamsMidline ParamsMidlineMore
  Safe ParamsMidlineSafe Named NamedProofs NamedMidline.
From Coq Require Import Lia.
Local Open Scope nat_scope.
Local Open Scope string_scope.
Local Open Scope list_scope.

(** * The refined shape of the reported names of a Midline model *)
Definition kind (s : string) : Prop := In s ["spread"; "growth"; "micro"].
Definition dkw (m : midline) : list string := dist_kw_names (u_dists (ml_ei m)).

Inductive nform (m : midline) : path -> Prop :=
| NF_ipsiT n s : TNp (ml_ei m) n -> kind s -> nform m ["ipsi"; n; s]
| NF_ipsiL n s : LNp (ml_ei m) n -> kind s -> ml_symL m = false -> nform m ["ipsi"; n; s]
| NF_contraT n s : TNp (ml_ei m) n -> kind s -> ml_mixing m <> None -> nform m ["contra"; n; s]
| NF_contraL n s : LNp (ml_ei m) n -> kind s -> ml_symL m = false -> nform m ["contra"; n; s]
| NF_mixing : ml_mixing m <> None -> nform m ["mixing"]
| NF_noext n s : TNp (ml_ei m) n -> kind s -> ml_mixing m = None -> nform m ["noext"; "contra"; n; s]
| NF_ext n s : TNp (ml_ei m) n -> kind s -> ml_mixing m = None -> nform m ["ext"; "contra"; n; s]
| NF_lnl n s : LNp (ml_ei m) n -> kind s -> ml_symL m = true -> nform m [n; s]
| NF_dist t k : TS (ml_ei m) t -> In k (dkw m) -> nform m [t; k]
| NF_midext : nform m ["midext"; "prob"].

Lemma T_key u k : In k (map fst (u_tumor_items u)) -> exists n s, k = [n; s] /\ TNp u n /\ kind s.
Proof.
  intros H. pose proof (hT_Ti u k H) as Hh. apply sel_params_heads in H. destruct H as (e & s & _ & _ & -> & Hs).
  exists (e_name e), s. repeat split; assumption.
Qed.
Lemma L_key u k : In k (map fst (u_lnl_items u)) -> exists n s, k = [n; s] /\ LNp u n /\ kind s.
Proof.
  intros H. pose proof (hL_Li u k H) as Hh. apply sel_params_heads in H. destruct H as (e & s & _ & _ & -> & Hs).
  exists (e_name e), s. repeat split; assumption.
Qed.
Lemma D_key u k : In k (map fst (u_dist_items u)) -> exists t s, k = [t; s] /\ TS u t /\ In s (dist_kw_names (u_dists u)).
Proof. intros H. apply dists_items_heads in H. destruct H as (t & s & Ht & -> & Hs). exists t, s. repeat split; assumption. Qed.

Lemma TNp_ec m s : mid_names_ok m = true -> TNp (ml_ec m) s <-> TNp (ml_ei m) s.
Proof.
  intros Hok. destruct (m_ok_parts m Hok) as (_ & _ & _ & Hs & _). unfold TNp, tumor_edges. unfold u_edges in Hs.
  rewrite (shape_filter_names is_tumor_spread _ kind_sel_tumor _ Hs). tauto.
Qed.

Lemma mid_nform m K : mid_names_ok m = true -> In K (map fst (mid_items m)) -> nform m K.
Proof.
  intros Hok.
  assert (HTi : forall k, In k (map fst (u_tumor_items (ml_ei m))) -> exists n s, k = [n; s] /\ TNp (ml_ei m) n /\ kind s) by apply T_key.
  assert (HTn : forall k, In k (map fst (u_tumor_items (ml_nc m))) -> exists n s, k = [n; s] /\ TNp (ml_ei m) n /\ kind s).
  { intros k Hk. destruct (T_key _ _ Hk) as (n & s & -> & Hn & Hs). exists n, s. repeat split; [apply (TNp_nc m Hok), Hn | exact Hs]. }
  assert (HTe : forall k, In k (map fst (u_tumor_items (ml_ec m))) -> exists n s, k = [n; s] /\ TNp (ml_ei m) n /\ kind s).
  { intros k Hk. destruct (T_key _ _ Hk) as (n & s & -> & Hn & Hs). exists n, s. repeat split; [apply (TNp_ec m n Hok), Hn | exact Hs]. }
  assert (HLi : forall k, In k (map fst (u_lnl_items (ml_ei m))) -> exists n s, k = [n; s] /\ LNp (ml_ei m) n /\ kind s) by apply L_key.
  assert (HLe : forall k, In k (map fst (u_lnl_items (ml_ec m))) -> exists n s, k = [n; s] /\ LNp (ml_ei m) n /\ kind s).
  { intros k Hk. destruct (L_key _ _ Hk) as (n & s & -> & Hn & Hs). exists n, s. repeat split; [apply (LNp_ec m Hok), Hn | exact Hs]. }
  assert (HD : forall k, In k (map fst (u_dist_items (ml_ei m))) -> exists t s, k = [t; s] /\ TS (ml_ei m) t /\ In s (dkw m)) by apply D_key.
  unfold mid_items, m_mixing_item, m_midext_item.
  destruct (ml_mixing m) as [mix|] eqn:Emix, (ml_symL m) eqn:EsymL;
    rewrite ?map_app, ?pre_app, ?map_app, ?in_app_iff, ?in_pre_keys; cbn [map fst In]; intros Hin;
    repeat match goal with H : _ \/ _ |- _ => destruct H end;
    repeat match goal with H : exists k', _ /\ _ |- _ => destruct H as (? & -> & ?) end; subst; try tauto.
  all: try (match goal with H : In ?k (map fst (u_tumor_items _)) |- _ =>
              first [ destruct (HTi k H) as (n & s & -> & Hn & Hs) | destruct (HTn k H) as (n & s & -> & Hn & Hs)
                    | destruct (HTe k H) as (n & s & -> & Hn & Hs) ] end).
  all: try (match goal with H : In ?k (map fst (u_lnl_items _)) |- _ =>
              first [ destruct (HLi k H) as (n & s & -> & Hn & Hs) | destruct (HLe k H) as (n & s & -> & Hn & Hs) ] end).
  all: try (match goal with H : In ?k (map fst (u_dist_items _)) |- _ => destruct (HD k H) as (n & s & -> & Hn & Hs) end).
  all: cbn [app].
  all: first [ apply NF_ipsiT; assumption | apply NF_ipsiL; (assumption || congruence)
             | apply NF_contraT; (assumption || congruence) | apply NF_contraL; (assumption || congruence)
             | apply NF_mixing; congruence | apply NF_noext; (assumption || congruence) | apply NF_ext; (assumption || congruence)
             | apply NF_lnl; (assumption || congruence) | apply NF_dist; assumption | apply NF_midext ].
Qed.

(** * No reported name is a proper in-order sub-name of another one *)
Section NameFacts.
  Variable m : midline.
  Hypothesis Hok : mid_names_ok m = true.
  Let ei := ml_ei m.
  Let Hei : u_names_ok ei = true. Proof. apply (m_ok_parts m Hok). Qed.

  Lemma TNp_res s : TNp ei s -> In s reserved -> False.
  Proof. intros H Hr. exact (in_reserved_not_edge ei s Hei Hr (TNp_EN _ _ H)). Qed.
  Lemma LNp_res s : LNp ei s -> In s reserved -> False.
  Proof. intros H Hr. exact (in_reserved_not_edge ei s Hei Hr (LNp_EN _ _ H)). Qed.
  Lemma TS_res s : TS ei s -> In s reserved -> False.
  Proof. intros H Hr. exact (in_reserved_not_tstage ei s Hei Hr H). Qed.
  Lemma TL_disj s : TNp ei s -> LNp ei s -> False.
  Proof. apply (TNp_LNp_disj ei Hei). Qed.
  Lemma T_TS_disj s : TNp ei s -> TS ei s -> False.
  Proof. intros H1 H2. exact (EN_TS_disj ei Hei s (TNp_EN _ _ H1) H2). Qed.
  Lemma L_TS_disj s : LNp ei s -> TS ei s -> False.
  Proof. intros H1 H2. exact (EN_TS_disj ei Hei s (LNp_EN _ _ H1) H2). Qed.
  Lemma kind_res s : kind s -> In s reserved.
  Proof. unfold kind. cbn. intuition. Qed.
  Lemma kind_not_mixing : kind "mixing" -> False.
  Proof. unfold kind. cbn. intuition discriminate. Qed.
End NameFacts.

(** closes a goal [False] (or any goal, after [exfalso]) from the side conditions of two
    shapes that have been identified *)
Ltac nf_res := cbn; tauto.
Ltac nf_solve Hok :=
  exfalso;
  first
    [ congruence
    | match goal with H : kind "mixing" |- _ => exact (kind_not_mixing H) end
    | match goal with H1 : TNp _ ?s, H2 : LNp _ ?s |- _ => exact (TL_disj _ Hok s H1 H2) end
    | match goal with H1 : TNp _ ?s, H2 : TS _ ?s |- _ => exact (T_TS_disj _ Hok s H1 H2) end
    | match goal with H1 : LNp _ ?s, H2 : TS _ ?s |- _ => exact (L_TS_disj _ Hok s H1 H2) end
    | match goal with H : TNp _ ?s |- _ => apply (TNp_res _ Hok s H); nf_res end
    | match goal with H : LNp _ ?s |- _ => apply (LNp_res _ Hok s H); nf_res end
    | match goal with H : TS _ ?s |- _ => apply (TS_res _ Hok s H); nf_res end
    | match goal with H1 : TNp _ ?s, H2 : kind ?s |- _ => apply (TNp_res _ Hok s H1), kind_res, H2 end
    | match goal with H1 : LNp _ ?s, H2 : kind ?s |- _ => apply (LNp_res _ Hok s H1), kind_res, H2 end
    | match goal with H1 : TS _ ?s, H2 : kind ?s |- _ => apply (TS_res _ Hok s H1), kind_res, H2 end ].

Ltac subseq_inv :=
  repeat match goal with
         | H : Subseq (_ :: _) _ |- _ => inversion H; clear H; subst
         | H : Subseq [] _ |- _ => clear H
         end.

Lemma nform_lit m n p : mid_names_ok m = true -> (n = ["mixing"] -> ~ In "mixing" (dkw m)) ->
  nform m n -> nform m p -> Subseq n p -> n = p.
Proof.
  intros Hok Hmk Hn Hp Hs.
  destruct Hn; destruct Hp; subseq_inv; try reflexivity; try (nf_solve Hok).
Qed.

(** * get_named_params for a literal subset (class independent) *)
Lemma lit_get_named_items (its : list (path * Qc)) named qs :
  NoDup (map fst its) -> NoDup named -> incl named (map fst its) -> length qs = length named ->
  (forall n p, In n named -> In p (map fst its) -> does_contain_in_order p n = true -> p = n) ->
  (forall n q, In (n, q) (combine named qs) -> kw_get n its = Some q) ->
  get_named_items its named = combine named qs.
Proof.
  intros Hnd Hndn Hincl Hlen Hlit Hval. unfold get_named_items. cbv zeta.
  set (names := map fst its) in *. rewrite create_alias_map_NoDup by exact Hndn.
  set (ow := owners _).
  apply entries_combine; [symmetry; exact Hlen|]. intros n q Hin.
  assert (Hn : In n named) by (apply in_combine_l in Hin; exact Hin).
  assert (Ha : aliases_of names n = [n]).
  { unfold aliases_of. rewrite (filter_ext_in _ (fun p => path_eqb p n)).
    - apply filter_eq_single; [exact Hnd | apply Hincl, Hn].
    - intros p Hp. destruct (does_contain_in_order p n) eqn:E.
      + rewrite (Hlit n p Hn Hp E). symmetry. apply path_eqb_refl.
      + destruct (path_eqb p n) eqn:E2; [|reflexivity]. apply path_eqb_eq in E2. subst. rewrite dcio_refl in E. discriminate. }
  unfold named_entry, alias_entry, read_param. cbn [fst snd]. rewrite Ha.
  assert (Hl : last_opt (match owned_by ow n [n] with [] => [n] | l => l end) = Some n).
  { unfold owned_by. cbn [filter]. destruct (match kw_get n ow with Some o => path_eqb o n | None => false end); reflexivity. }
  rewrite Hl, (Hval n q Hin). reflexivity.
Qed.

(** * Look-ups that find nothing *)
Lemma eff_none X kw name t : kw_last (name :: t) kw = None -> kw_last t kw = None -> eff X kw name t = None.
Proof. intros H1 H2. unfold eff. rewrite H1. destruct (mem (head_of t) X); [reflexivity | exact H2]. Qed.

Section KwNone.
  Variable kw : kwargs.
  Hypothesis Hnd : NoDup (map fst kw).
  Let klg K : kw_last K kw = kw_get K kw := kw_last_get kw Hnd K.

  Section WithX4.
    Variables (split : list (string * kwargs)) (glob : kwargs).
    Hypothesis Hu : unflatten_and_split kw X4 = (split, glob).

    Lemma n_lk_side side n t : In side X4 ->
      (forall c, In c [side :: n :: t; n :: t; side :: t; t] -> kw_get c kw = None) ->
      u_lk (obj_kwargs side split glob) (n :: t) = None.
    Proof.
      intros Hs Hc. unfold u_lk. rewrite !kw_last_NoDup by (apply (obj_kwargs_NoDup kw X4); exact Hu).
      rewrite !(obj_kwargs_lookup kw X4 side _ split glob not_empty_X4 Hu Hs).
      rewrite !eff_none; try reflexivity; rewrite klg; apply Hc; cbn; tauto.
    Qed.
    Lemma n_lk_glob n t : (forall c, In c [n :: t; t] -> kw_get c kw = None) -> u_lk glob (n :: t) = None.
    Proof.
      intros Hc. unfold u_lk.
      destruct (glob_lookup kw X4 (n :: t) split glob not_empty_X4 Hu) as [Hg Hgnd].
      destruct (glob_lookup kw X4 t split glob not_empty_X4 Hu) as [Hg2 _].
      rewrite !kw_last_NoDup by exact Hgnd. rewrite Hg, Hg2, !klg, !Hc by (cbn; tauto).
      destruct (mem (head_of (n :: t)) X4), (mem (head_of t) X4); reflexivity.
    Qed.
    Lemma n_lk_mixing : kw_get ["mixing"] kw = None -> kw_get ["mixing"] glob = None.
    Proof.
      intros Hc. destruct (glob_lookup kw X4 ["mixing"] split glob not_empty_X4 Hu) as [Hg _]. rewrite Hg. cbn.
      rewrite klg. exact Hc.
    Qed.
    Lemma n_lk_nested side nsplit ng n t : (side = "noext" \/ side = "ext") ->
      unflatten_and_split (sub_kwargs side split) ["contra"] = (nsplit, ng) ->
      (forall c, In c [side :: "contra" :: n :: t; n :: t; side :: "contra" :: t; t] -> kw_get c kw = None) ->
      u_lk (obj_kwargs "contra" nsplit glob) (n :: t) = None.
    Proof.
      intros Hside Hun Hc. assert (Hs : In side X4) by (destruct Hside as [-> | ->]; cbn; tauto).
      destruct (glob_lookup kw X4 (n :: t) split glob not_empty_X4 Hu) as [Hg Hgnd].
      destruct (glob_lookup kw X4 t split glob not_empty_X4 Hu) as [Hg2 _].
      assert (Hcn : ~ In "" ["contra"]) by (cbn; intuition discriminate).
      assert (Hlook : forall K, kw_get K kw = None -> kw_get (side :: "contra" :: K) kw = None ->
                kw_get K (kw_update (sub_kwargs "contra" nsplit) glob) = None).
      { intros K H1 H2.
        destruct (sub_kwargs_lookup (sub_kwargs side split) ["contra"] "contra" K nsplit ng Hcn Hun (or_introl eq_refl)) as [Hsub Hsnd].
        destruct (sub_kwargs_lookup kw X4 side ("contra" :: K) split glob not_empty_X4 Hu Hs) as [Hsub2 Hsnd2].
        rewrite kw_get_update, kw_get_rev_NoDup by exact Hsnd. rewrite Hsub, kw_last_NoDup by exact Hsnd2. rewrite Hsub2, klg, H2.
        destruct (glob_lookup kw X4 K split glob not_empty_X4 Hu) as [HgK _]. rewrite HgK, klg, H1.
        destruct (mem (head_of K) X4); reflexivity. }
      unfold u_lk, obj_kwargs. rewrite !kw_last_NoDup by (apply kw_update_NoDup, Hgnd).
      rewrite !Hlook; try reflexivity; apply Hc; cbn; tauto.
    Qed.
  End WithX4.

  Lemma n_lk_dist XDl dsplit dglob ikw ckw t k :
    In "ext" XDl -> (forall s, In s XDl -> In s ["ext"; "noext"; "central"; "unknown"]) ->
    unflatten_and_split kw XDl = (dsplit, dglob) -> side_kwargs (obj_kwargs "ext" dsplit dglob) = (ikw, ckw) ->
    (forall c, In c [["ext"; "ipsi"; t; k]; ["ipsi"; t; k]; ["ext"; t; k]; [t; k];
                     ["ext"; "ipsi"; k]; ["ipsi"; k]; ["ext"; k]; [k]] -> kw_get c kw = None) ->
    u_lk ikw [t; k] = None.
  Proof.
    intros Hext Hsub Hud Hsk Hc.
    assert (HeD : ~ In "" XDl) by (intros H; apply Hsub in H; cbn in H; intuition discriminate).
    set (ekw := obj_kwargs "ext" dsplit dglob) in *.
    assert (Hend : NoDup (map fst ekw)) by (apply (obj_kwargs_NoDup kw XDl); exact Hud).
    assert (Hekw : forall K, kw_last K ekw = eff XDl kw "ext" K)
      by (intros K; rewrite kw_last_NoDup by exact Hend; apply (obj_kwargs_lookup kw XDl "ext" K dsplit dglob HeD Hud Hext)).
    destruct (side_kwargs_lk ekw ikw ckw Hsk) as [Hlk _]. rewrite Hlk. unfold side_lk.
    rewrite !eff_none; try reflexivity; rewrite Hekw; apply eff_none; rewrite klg; apply Hc; cbn; tauto.
  Qed.
End KwNone.

(** * A parameter without keyword keeps its value (keyword-only call) *)
Lemma block_keep lk ps qs k old : all_unit (plan lk ps []) = Some qs -> In (k, old) ps -> lk k = None ->
  In (k, old) (combine (map fst ps) qs).
Proof.
  intros Hq Hin Hlk. apply all_unit_Some_vals in Hq. destruct Hq as [Hp _].
  destruct (plan_nil_In lk ps qs k old Hp Hin) as (q & Hq & Hv). rewrite Hlk in Hv. cbn in Hv. injection Hv as ->. exact Hq.
Qed.
Lemma dist_block_keep maxt ds lk (ps : list (path * Qc)) dsi k old :
  dists_put maxt ds (plan lk ps []) = Some dsi -> length ps = length (dists_items ds) -> map fst ps = map fst (dists_items ds) ->
  In (k, old) ps -> lk k = None -> In (k, old) (dists_items dsi).
Proof.
  intros Hdp Hlen Hkeys Hin Hlk.
  destruct (dists_put_spec _ _ _ _ Hdp) as (qD & HuD & HiD & _); [rewrite plan_length; exact Hlen|].
  apply unwrap_Some in HuD. rewrite HiD, <- Hkeys.
  destruct (plan_nil_In lk ps qD k old HuD Hin) as (q & Hq & Hv). rewrite Hlk in Hv. cbn in Hv. injection Hv as ->. exact Hq.
Qed.
Lemma dist_keys_after maxt ds new dsi : dists_put maxt ds new = Some dsi -> length new = length (dists_items ds) ->
  map fst (dists_items dsi) = map fst (dists_items ds).
Proof.
  intros Hdp Hl. destruct (dists_put_spec _ _ _ _ Hdp Hl) as (qD & HuD & HiD & _). rewrite HiD. apply map_fst_combine.
  rewrite map_length, (unwrap_length _ _ HuD). symmetry. exact Hl.
Qed.
Lemma in_pre_items_iff p (X : list (path * Qc)) K v : In (K, v) (pre p X) <-> exists k, K = p ++ k /\ In (k, v) X.
Proof.
  unfold pre, prefix. rewrite in_map_iff. split.
  - intros ([k x] & E & Hin). cbn [fst snd] in E. injection E as <- <-. exists k. split; [reflexivity | exact Hin].
  - intros (k & -> & Hin). exists (k, v). split; [reflexivity | exact Hin].
Qed.
Lemma in_items_key {A B} (l : list (A * B)) k v : In (k, v) l -> In k (map fst l).
Proof. intros H. apply in_map_iff. exists (k, v). split; [reflexivity | exact H]. Qed.
Lemma keys_combine_len (ps : list (path * Qc)) (qs : list Qc) : length qs = length ps -> map fst (combine (map fst ps) qs) = map fst ps.
Proof. intros H. apply map_fst_combine. rewrite map_length. symmetry. exact H. Qed.

Section Keep.
  Variables (m0 : midline) (kw : kwargs) (m' : midline) (r : args).
  Hypothesis Hok : mid_set_ok m0 = true.
  Hypothesis Hnd : NoDup (map fst kw).
  Hypothesis Hch : andthen (m_set_spread_params m0 [] kw) (fun m1 a1 => m_set_distribution_params m1 a1 kw) = (m', Some r).
  Hypothesis Hkeys : forall c, In c (map fst kw) -> nform m0 c.
  Hypothesis Hmk : In ["mixing"] (map fst kw) -> ~ In "mixing" (dkw m0).
  Let ei := ml_ei m0.
  Let ec := ml_ec m0.
  Let nc := ml_nc m0.
  Let Hok' : mid_names_ok m0 = true. Proof. unfold mid_set_ok in Hok. rewrite !andb_true_iff in Hok. apply Hok. Qed.
  Let Hei : u_names_ok ei = true. Proof. apply (m_ok_parts m0 Hok'). Qed.

  Lemma kw_absent K c : ~ In K (map fst kw) -> (In c (map fst kw) -> nform m0 c -> c = K) -> kw_get c kw = None.
  Proof. intros HK H. apply kw_get_In_None. intros Hin. apply HK. rewrite <- (H Hin (Hkeys c Hin)). exact Hin. Qed.

  Ltac cand_solve HK :=
    let c := fresh "c" in let Hc := fresh "Hc" in let Hcin := fresh "Hcin" in let Hf := fresh "Hf" in
    intros c Hc; apply (kw_absent _ c HK); intros Hcin Hf; cbn [In] in Hc;
    repeat (destruct Hc as [<-|Hc];
            [inversion Hf; subst; try reflexivity; try (nf_solve Hok'); try (exfalso; apply (Hmk Hcin); assumption) |]);
    destruct Hc.

  Lemma chain_kw_keep :
    mid_names_ok m' = true /\ ml_midext m' = ml_midext m0 /\
    map fst (mid_spread_items m' ++ u_dist_items (ml_ei m')) = map fst (mid_spread_items m0 ++ u_dist_items ei) /\
    (forall K old, ~ In K (map fst kw) -> In (K, old) (mid_spread_items m0 ++ u_dist_items ei) -> In (K, old) (mid_items m')).
  Proof.
    destruct (m_ok_parts m0 Hok') as (_ & Hec & Hnc & _ & _ & _ & _ & HbsymL).
    pose proof (keys_T_nc m0 Hok') as KTnc. pose proof (keys_T_ec m0 Hok') as KTec. pose proof (keys_L_ec m0 Hok') as KLec.
    fold ei ec nc in KTnc, KTec, KLec.
    assert (HTi : forall k, In k (map fst (u_tumor_items ei)) -> exists n s, k = [n; s] /\ TNp ei n /\ kind s) by apply T_key.
    assert (HTn : forall k, In k (map fst (u_tumor_items nc)) -> exists n s, k = [n; s] /\ TNp ei n /\ kind s).
    { intros k Hk. destruct (T_key _ _ Hk) as (n & s & -> & Hn & Hs). exists n, s. repeat split; [apply (TNp_nc m0 Hok'), Hn | exact Hs]. }
    assert (HTe : forall k, In k (map fst (u_tumor_items ec)) -> exists n s, k = [n; s] /\ TNp ei n /\ kind s).
    { intros k Hk. destruct (T_key _ _ Hk) as (n & s & -> & Hn & Hs). exists n, s. repeat split; [apply (TNp_ec m0 n Hok'), Hn | exact Hs]. }
    assert (HLi : forall k, In k (map fst (u_lnl_items ei)) -> exists n s, k = [n; s] /\ LNp ei n /\ kind s) by apply L_key.
    assert (HLe : forall k, In k (map fst (u_lnl_items ec)) -> exists n s, k = [n; s] /\ LNp ei n /\ kind s).
    { intros k Hk. destruct (L_key _ _ Hk) as (n & s & -> & Hn & Hs). exists n, s. repeat split; [apply (LNp_ec m0 Hok'), Hn | exact Hs]. }
    assert (HDk : forall k, In k (map fst (u_dist_items ei)) -> exists t s, k = [t; s] /\ TS ei t /\ In s (dkw m0)) by apply D_key.
    (* the distribution block, common to all settings *)
    assert (HD : forall m2 dsplit dglob ikw ckw dsi K old,
               unflatten_and_split kw (XD m2) = (dsplit, dglob) -> side_kwargs (obj_kwargs "ext" dsplit dglob) = (ikw, ckw) ->
               dists_put (u_maxt ei) (u_dists ei) (plan (u_lk ikw) (u_dist_items ei) []) = Some dsi ->
               ~ In K (map fst kw) -> In (K, old) (u_dist_items ei) -> In (K, old) (dists_items dsi)).
    { intros m2 dsplit dglob ikw ckw dsi K old HuD Hsk Hdp HK Hin.
      apply (dist_block_keep _ _ _ _ _ K old Hdp); [reflexivity | reflexivity | exact Hin|].
      destruct (HDk K (in_items_key _ _ _ Hin)) as (t & s & -> & Ht & Hs). destruct (XD_props m2) as [Hx1 Hx2].
      apply (n_lk_dist kw Hnd (XD m2) dsplit dglob ikw ckw t s Hx1 Hx2 HuD Hsk). cand_solve HK. }
    destruct (ml_mixing m0) as [cur|] eqn:Emix.
    - (* with mixing *)
      destruct (m_chain_inv_mix m0 [] kw m' r cur Hok Emix Hch)
        as (split & glob & qI & qC & mix & qE & qLi & qLe & qLn & m2 & dsplit & dglob & ikw & ckw & dsi & Hc).
      cbv zeta in Hc. fold ei ec nc in Hc. assert (Hif : forall b : bool, (if b then @nil val else []) = []) by (intros []; reflexivity).
      rewrite ?skipn_nil', ?Hif, ?skipn_nil' in Hc. clear Hif.
      destruct Hc as (Hu & HqI & HqC & Hmx & HqLi & HqLe & HqLn & HuD & Hsk & Hdp & Hei' & (dsc & Hec' & Hecok) & (dsn & Hnc' & Hncok) & Hmix' & Hd' & Hs' & Hb').
      assert (Hnames' : mid_names_ok m' = true).
      { apply (mid_names_ok_final m0 m' qI qLi dsi qE qLe dsc qC qLn dsn _ Hok Hei' Hec' Hnc' Hecok Hncok Hdp); [apply plan_length | exact Hs' | exact Hb']. }
      split; [exact Hnames'|]. split; [exact Hd'|].
      destruct (leaf_after_items ei qI qLi dsi) as (I1 & I2 & I3); [apply (plan_lengths _ _ _ _ HqI) | apply (plan_lengths _ _ _ _ HqLi)|].
      destruct (leaf_after_items nc qC qLn dsn) as (N1 & _ & _); [apply (plan_lengths _ _ _ _ HqC) | apply (plan_lengths _ _ _ _ HqLn)|].
      pose proof (leaf_after_lnl ec qE qLe dsc (plan_lengths _ _ _ _ HqLe)) as E2.
      fold (leaf_after ei qI qLi dsi) in Hei'. fold (leaf_after nc qC qLn dsn) in Hnc'. fold (leaf_after ec qE qLe dsc) in Hec'.
      pose proof (dist_keys_after _ _ _ _ Hdp (plan_length _ _ _)) as KD.
      unfold mid_items, mid_spread_items. rewrite Hmix', Hs', Emix. unfold m_mixing_item, m_midext_item. rewrite Hmix', Emix.
      fold ei ec nc. rewrite Hei', Hnc', Hec', I1, I2, I3, N1, E2.
      destruct (ml_symL m0) eqn:EsymL.
      + split.
        { rewrite !map_app, !pre_keys, KD, !keys_combine_len by (eapply plan_lengths; eassumption). reflexivity. }
        intros K old HK. rewrite ?in_app_iff, ?in_pre_items_iff. cbn [In].
        intros [[(k & -> & Hk)|[(k & -> & Hk)|[[E|[]]|Hk]]]|Hk].
        * left. exists k. split; [reflexivity|]. destruct (HTi k (in_items_key _ _ _ Hk)) as (n & s & -> & Hn & Hs).
          apply (block_keep _ _ _ _ _ HqI Hk). apply (n_lk_side kw Hnd split glob Hu "ipsi" n [s]); [cbn; tauto|]. cand_solve HK.
        * right. left. exists k. split; [reflexivity|]. destruct (HTn k (in_items_key _ _ _ Hk)) as (n & s & -> & Hn & Hs).
          apply (block_keep _ _ _ _ _ HqC Hk). apply (n_lk_side kw Hnd split glob Hu "contra" n [s]); [cbn; tauto|]. cand_solve HK.
        * right. right. left. left. injection E as <- <-.
          rewrite (n_lk_mixing kw Hnd split glob Hu) in Hmx by (apply kw_get_In_None, HK).
          cbn [hd_error val_or] in Hmx. apply check_unit_Some in Hmx. destruct Hmx as [[= ->] _]. reflexivity.
        * right. right. right. left. destruct (HLi K (in_items_key _ _ _ Hk)) as (n & s & -> & Hn & Hs).
          apply (block_keep _ _ _ _ _ HqLi Hk). apply (n_lk_glob kw Hnd split glob Hu n [s]). cand_solve HK.
        * right. right. right. right. left. apply (HD m2 dsplit dglob ikw ckw dsi K old HuD Hsk Hdp HK Hk).
      + split.
        { rewrite ?pre_app, !map_app, !pre_keys, KD, !keys_combine_len by (eapply plan_lengths; eassumption). reflexivity. }
        intros K old HK. rewrite ?pre_app, ?in_app_iff, ?in_pre_items_iff. cbn [In].
        intros [[[(k & -> & Hk)|(k & -> & Hk)]|[[(k & -> & Hk)|(k & -> & Hk)]|[E|[]]]]|Hk].
        * left. left. exists k. split; [reflexivity|]. destruct (HTi k (in_items_key _ _ _ Hk)) as (n & s & -> & Hn & Hs).
          apply (block_keep _ _ _ _ _ HqI Hk). apply (n_lk_side kw Hnd split glob Hu "ipsi" n [s]); [cbn; tauto|]. cand_solve HK.
        * left. right. exists k. split; [reflexivity|]. destruct (HLi k (in_items_key _ _ _ Hk)) as (n & s & -> & Hn & Hs).
          apply (block_keep _ _ _ _ _ HqLi Hk). apply (n_lk_side kw Hnd split glob Hu "ipsi" n [s]); [cbn; tauto|]. cand_solve HK.
        * right. left. left. exists k. split; [reflexivity|]. destruct (HTn k (in_items_key _ _ _ Hk)) as (n & s & -> & Hn & Hs).
          apply (block_keep _ _ _ _ _ HqC Hk). apply (n_lk_side kw Hnd split glob Hu "contra" n [s]); [cbn; tauto|]. cand_solve HK.
        * right. left. right. exists k. split; [reflexivity|]. destruct (HLe k (in_items_key _ _ _ Hk)) as (n & s & -> & Hn & Hs).
          apply (block_keep _ _ _ _ _ HqLe Hk). apply (n_lk_side kw Hnd split glob Hu "contra" n [s]); [cbn; tauto|]. cand_solve HK.
        * right. right. left. left. injection E as <- <-.
          rewrite (n_lk_mixing kw Hnd split glob Hu) in Hmx by (apply kw_get_In_None, HK).
          cbn [hd_error val_or] in Hmx. apply check_unit_Some in Hmx. destruct Hmx as [[= ->] _]. reflexivity.
        * right. right. right. left. apply (HD m2 dsplit dglob ikw ckw dsi K old HuD Hsk Hdp HK Hk).
    - (* without mixing *)
      destruct (m_chain_inv_nomix m0 [] kw m' r Hok Emix Hch)
        as (split & glob & nsplit & esplit & ng & eg & qI & qC & qE & qLi & qLe & qLn & m2 & dsplit & dglob & ikw & ckw & dsi & Hc).
      cbv zeta in Hc. fold ei ec nc in Hc.
      assert (Hif : forall b : bool, (if b then @nil val else []) = []) by (intros []; reflexivity).
      rewrite ?skipn_nil', ?Hif, ?skipn_nil' in Hc. clear Hif.
      destruct Hc as (Hu & Hun & Hue & HqI & HqC & HqE & HqLi & HqLe & HqLn & HuD & Hsk & Hdp & Hei' & (dsc & Hec' & Hecok) & (dsn & Hnc' & Hncok) & Hmix' & Hd' & Hs' & Hb').
      assert (Hnames' : mid_names_ok m' = true).
      { apply (mid_names_ok_final m0 m' qI qLi dsi qE qLe dsc qC qLn dsn _ Hok Hei' Hec' Hnc' Hecok Hncok Hdp); [apply plan_length | exact Hs' | exact Hb']. }
      split; [exact Hnames'|]. split; [exact Hd'|].
      destruct (leaf_after_items ei qI qLi dsi) as (I1 & I2 & I3); [apply (plan_lengths _ _ _ _ HqI) | apply (plan_lengths _ _ _ _ HqLi)|].
      destruct (leaf_after_items nc qC qLn dsn) as (N1 & _ & _); [apply (plan_lengths _ _ _ _ HqC) | apply (plan_lengths _ _ _ _ HqLn)|].
      destruct (leaf_after_items ec qE qLe dsc) as (E1 & E2 & _); [apply (plan_lengths _ _ _ _ HqE) | apply (plan_lengths _ _ _ _ HqLe)|].
      fold (leaf_after ei qI qLi dsi) in Hei'. fold (leaf_after nc qC qLn dsn) in Hnc'. fold (leaf_after ec qE qLe dsc) in Hec'.
      pose proof (dist_keys_after _ _ _ _ Hdp (plan_length _ _ _)) as KD.
      unfold mid_items, mid_spread_items. rewrite Hmix', Hs', Emix. unfold m_midext_item.
      fold ei ec nc. rewrite Hei', Hnc', Hec', I1, I2, I3, N1, E1, E2.
      destruct (ml_symL m0) eqn:EsymL.
      + split.
        { rewrite !map_app, !pre_keys, KD, !keys_combine_len by (eapply plan_lengths; eassumption). reflexivity. }
        intros K old HK. rewrite ?in_app_iff, ?in_pre_items_iff. cbn [In].
        intros [[(k & -> & Hk)|[(k & -> & Hk)|[(k & -> & Hk)|Hk]]]|Hk].
        * left. exists k. split; [reflexivity|]. destruct (HTi k (in_items_key _ _ _ Hk)) as (n & s & -> & Hn & Hs).
          apply (block_keep _ _ _ _ _ HqI Hk). apply (n_lk_side kw Hnd split glob Hu "ipsi" n [s]); [cbn; tauto|]. cand_solve HK.
        * right. left. exists k. split; [reflexivity|]. destruct (HTn k (in_items_key _ _ _ Hk)) as (n & s & -> & Hn & Hs).
          apply (block_keep _ _ _ _ _ HqC Hk). apply (n_lk_nested kw Hnd split glob Hu "noext" nsplit ng n [s]); [tauto | exact Hun|]. cand_solve HK.
        * right. right. left. exists k. split; [reflexivity|]. destruct (HTe k (in_items_key _ _ _ Hk)) as (n & s & -> & Hn & Hs).
          apply (block_keep _ _ _ _ _ HqE Hk). apply (n_lk_nested kw Hnd split glob Hu "ext" esplit eg n [s]); [tauto | exact Hue|]. cand_solve HK.
        * right. right. right. left. destruct (HLi K (in_items_key _ _ _ Hk)) as (n & s & -> & Hn & Hs).
          apply (block_keep _ _ _ _ _ HqLi Hk). apply (n_lk_glob kw Hnd split glob Hu n [s]). cand_solve HK.
        * right. right. right. right. left. apply (HD m2 dsplit dglob ikw ckw dsi K old HuD Hsk Hdp HK Hk).
      + split.
        { rewrite ?pre_app, !map_app, !pre_keys, KD, !keys_combine_len by (eapply plan_lengths; eassumption). reflexivity. }
        intros K old HK. rewrite ?pre_app, ?in_app_iff, ?in_pre_items_iff. cbn [In].
        intros [[[(k & -> & Hk)|(k & -> & Hk)]|[(k & -> & Hk)|[(k & -> & Hk)|(k & -> & Hk)]]]|Hk].
        * left. left. exists k. split; [reflexivity|]. destruct (HTi k (in_items_key _ _ _ Hk)) as (n & s & -> & Hn & Hs).
          apply (block_keep _ _ _ _ _ HqI Hk). apply (n_lk_side kw Hnd split glob Hu "ipsi" n [s]); [cbn; tauto|]. cand_solve HK.
        * left. right. exists k. split; [reflexivity|]. destruct (HLi k (in_items_key _ _ _ Hk)) as (n & s & -> & Hn & Hs).
          apply (block_keep _ _ _ _ _ HqLi Hk). apply (n_lk_side kw Hnd split glob Hu "ipsi" n [s]); [cbn; tauto|]. cand_solve HK.
        * right. left. exists k. split; [reflexivity|]. destruct (HTn k (in_items_key _ _ _ Hk)) as (n & s & -> & Hn & Hs).
          apply (block_keep _ _ _ _ _ HqC Hk). apply (n_lk_nested kw Hnd split glob Hu "noext" nsplit ng n [s]); [tauto | exact Hun|]. cand_solve HK.
        * right. right. left. exists k. split; [reflexivity|]. destruct (HTe k (in_items_key _ _ _ Hk)) as (n & s & -> & Hn & Hs).
          apply (block_keep _ _ _ _ _ HqE Hk). apply (n_lk_nested kw Hnd split glob Hu "ext" esplit eg n [s]); [tauto | exact Hue|]. cand_solve HK.
        * right. right. right. left. exists k. split; [reflexivity|]. destruct (HLe k (in_items_key _ _ _ Hk)) as (n & s & -> & Hn & Hs).
          apply (block_keep _ _ _ _ _ HqLe Hk). apply (n_lk_side kw Hnd split glob Hu "contra" n [s]); [cbn; tauto|]. cand_solve HK.
        * right. right. right. right. left. apply (HD m2 dsplit dglob ikw ckw dsi K old HuD Hsk Hdp HK Hk).
  Qed.
End Keep.

(** [nform] depends on the model only through ext.ipsi, the LNL flag and the presence of mixing *)
Lemma nform_ext m1 m2 c : ml_ei m1 = ml_ei m2 -> ml_symL m1 = ml_symL m2 -> ml_mixing m1 = ml_mixing m2 ->
  nform m1 c -> nform m2 c.
Proof.
  intros He Hs Hm H. destruct H; unfold dkw in *; rewrite ?He, ?Hs, ?Hm in *;
    [ apply NF_ipsiT | apply NF_ipsiL | apply NF_contraT | apply NF_contraL | apply NF_mixing | apply NF_noext | apply NF_ext
    | apply NF_lnl | apply NF_dist | apply NF_midext ]; assumption.
Qed.

(** a literal keyword reads its value afterwards (instance of keyword-over-positional; the
    child-prefixed distribution keywords are no reported names) *)
Lemma lit_dist_name_plain m kw K : mid_names_ok m = true -> NoDup (map fst kw) ->
  (forall c, In c (map fst kw) -> nform m c) -> In K (map fst (u_dist_items (ml_ei m))) -> dist_name_plain kw K.
Proof.
  intros Hok' Hnd Hkeys HD. destruct (D_key _ _ HD) as (t & k & -> & Ht & Hk).
  assert (Hno : forall c, (nform m c -> False) -> kw_last c kw = None).
  { intros c Hc. rewrite (kw_last_NoDup _ _ Hnd). apply kw_get_In_None. intros Hin. apply Hc, Hkeys, Hin. }
  repeat split; apply Hno; intros Hf; inversion Hf; subst; nf_solve Hok'.
Qed.
Lemma mid_kw_value m kw K q : mid_set_ok m = true -> NoDup (map fst kw) ->
  (forall c, In c (map fst kw) -> In c (map fst (mid_items m))) -> kw_get K kw = Some (V q) ->
  let r := m_set_params m [] kw in snd r <> None -> option_map (kw_get K) (m_got (fst r)) = Some (Some q).
Proof.
  intros Hok Hnd Hsub Hkw.
  assert (Hok' : mid_names_ok m = true) by (unfold mid_set_ok in Hok; rewrite !andb_true_iff in Hok; apply Hok).
  assert (HKin : In K (map fst kw)) by (apply in_items_key with (v := V q), kw_get_Some_In, Hkw).
  apply (mid_keyword_over_positional m [] kw K q Hok Hnd (Hsub K HKin) Hkw).
  apply lit_dist_name_plain; [exact Hok' | exact Hnd|]. intros c Hc. apply (mid_nform m c Hok'), Hsub, Hc.
Qed.

(** * Keyword-only [Midline.set_params] with literal parameter names: complete description
      of what [get_params] reports afterwards *)
Lemma mid_kw_only m kw m' r : mid_set_ok m = true -> NoDup (map fst kw) ->
  (forall c, In c (map fst kw) -> In c (map fst (mid_items m))) ->
  (In ["mixing"] (map fst kw) -> ~ In "mixing" (dkw m)) ->
  m_set_params m [] kw = (m', Some r) ->
  mid_names_ok m' = true /\ map fst (mid_items m') = map fst (mid_items m) /\
  (forall K q, kw_get K kw = Some (V q) -> kw_get K (mid_items m') = Some q) /\
  (forall K old, In (K, old) (mid_items m) -> ~ In K (map fst kw) -> kw_get K (mid_items m') = Some old).
Proof.
  intros Hok Hnd Hsub Hmk Hset.
  assert (Hok' : mid_names_ok m = true) by (unfold mid_set_ok in Hok; rewrite !andb_true_iff in Hok; apply Hok).
  assert (Hkeys : forall c, In c (map fst kw) -> nform m c) by (intros c Hc; apply (mid_nform m c Hok'), Hsub, Hc).
  (* values of the keywords: keyword over positional *)
  assert (Hvals : forall m1, mid_names_ok m1 = true -> m_set_params m [] kw = (m1, Some r) ->
                   forall K q, kw_get K kw = Some (V q) -> kw_get K (mid_items m1) = Some q).
  { intros m1 Hn1 Hset1 K q Hkw. pose proof (mid_kw_value m kw K q Hok Hnd Hsub Hkw) as Hv. cbv zeta in Hv.
    rewrite Hset1 in Hv. cbn [fst snd] in Hv. specialize (Hv ltac:(discriminate)).
    rewrite (m_got_spec m1 Hn1) in Hv. cbn [option_map] in Hv. injection Hv as Hv. exact Hv. }
  rewrite (m_set_params_unfold m [] kw Hok') in Hset.
  rewrite popat_nil in Hset by (rewrite mid_items_split, !app_length; cbn [m_midext_item length]; lia).
  cbv beta iota zeta in Hset.
  set (mp := match kw_get ["midext"; "prob"] kw with Some v => Some v | None => None end) in *.
  assert (H0 : exists m0, match mp with None => Some m | Some v => option_map (ml_with_midext m) (check_unit v) end = Some m0
                          /\ mid_set_ok m0 = true /\ ml_ei m0 = ml_ei m /\ mid_spread_items m0 = mid_spread_items m
                          /\ ml_symL m0 = ml_symL m /\ ml_mixing m0 = ml_mixing m
                          /\ (kw_get ["midext"; "prob"] kw = None -> ml_midext m0 = ml_midext m)).
  { destruct mp as [vm|] eqn:Emp.
    - destruct (check_unit vm) as [x|] eqn:Ex; [|discriminate Hset]. exists (ml_with_midext m x).
      split; [reflexivity|]. split; [exact Hok|]. repeat split.
      intros Hn. unfold mp in Emp. rewrite Hn in Emp. discriminate.
    - exists m. repeat split. exact Hok. }
  destruct H0 as (m0 & E0 & Hok0 & Hei0 & Hsp0 & Hs0 & Hm0 & Hme0). rewrite E0 in Hset. cbn [app] in Hset.
  assert (Hkeys0 : forall c, In c (map fst kw) -> nform m0 c).
  { intros c Hc. apply (nform_ext m m0); [symmetry; exact Hei0 | symmetry; exact Hs0 | symmetry; exact Hm0 | apply Hkeys, Hc]. }
  assert (Hmk0 : In ["mixing"] (map fst kw) -> ~ In "mixing" (dkw m0)) by (unfold dkw; rewrite Hei0; exact Hmk).
  destruct (chain_kw_keep m0 kw m' r Hok0 Hnd Hset Hkeys0 Hmk0) as (Hn' & Hd' & Hk' & Hkeep).
  rewrite Hsp0, Hei0 in Hk', Hkeep.
  split; [exact Hn'|]. split.
  { rewrite !mid_items_split, !app_assoc. rewrite (map_app fst (mid_spread_items m' ++ _)), (map_app fst (mid_spread_items m ++ _)), Hk'. reflexivity. }
  split.
  { apply (Hvals m' Hn'). rewrite (m_set_params_unfold m [] kw Hok').
    rewrite popat_nil by (rewrite mid_items_split, !app_length; cbn [m_midext_item length]; lia).
    cbv beta iota zeta. fold mp. rewrite E0. exact Hset. }
  intros K old Hin HK. apply kw_get_NoDup_In; [apply mid_items_NoDup, Hn'|].
  rewrite mid_items_split, app_assoc, in_app_iff in Hin. destruct Hin as [Hin|Hin].
  - apply Hkeep; assumption.
  - cbn in Hin. destruct Hin as [E|[]]. injection E as <- <-.
    rewrite mid_items_split, !in_app_iff. right. right. left. unfold m_midext_item.
    rewrite Hd', Hme0; [reflexivity|]. apply kw_get_In_None, HK.
Qed.

(** * Statements *)
(** the one hypothesis beyond well-formedness: if "mixing" is declared, no distribution
    keyword is itself called "mixing" (otherwise the global keyword "mixing" also reaches the
    distribution parameter "t_mixing": see [C17_midline_mixing_keyword_refuted_stmt]) *)
Definition mixing_kw_ok (ml : midline) (named : list path) : Prop :=
  In ["mixing"] named -> ~ In "mixing" (dist_kw_names (u_dists (ml_ei ml))).

(** Midline analogue of [C17_literal_subset_roundtrip_stmt] (all four use_mixing x LNL
    symmetry settings, with or without central / unknown models, every graph, NO hypothesis
    on the current values or on the synchronisation of the sub-models).  [covered m] is
    replaced by [mid_set_ok ml] (the C10 well-formedness of the four leaves of ext / noext;
    implied by [Safe.m_names_ok], true of every constructed object); added: [mixing_kw_ok]. *)
Definition C17_midline_literal_subset_roundtrip_stmt : Prop :=
  forall ml named qs s' its,
    mid_set_ok ml = true -> param_items (MMid ml) = Some its -> NoDup named -> incl named (map fst its) ->
    length qs = length named -> mixing_kw_ok ml named ->
    set_named_params (mk_nstate (MMid ml) (Some named)) (vals qs) [] = (s', inr tt) ->
    get_named_params s' = inr (combine named qs) /\ get_num_dims s' = inr (length named) /\
    exists its', param_items (ns_model s') = Some its' /\ map fst its' = map fst its /\
      (forall n q, In (n, q) (combine named qs) -> kw_get n its' = Some q) /\
      (forall k old, In (k, old) its -> ~ In k named -> kw_get k its' = Some old).

(** the four hypotheses of the general C17 theorems hold for a literal subset
    ([names_consistent] is about [cands], which is not defined for Midline) *)
Definition C17_midline_literal_subset_hyps_stmt : Prop :=
  forall ml named, mid_names_ok ml = true -> incl named (map fst (mid_items ml)) -> mixing_kw_ok ml named ->
    (forall n p, In n named -> In p (map fst (mid_items ml)) -> does_contain_in_order p n = true -> p = n)
    /\ no_ties (map fst (mid_items ml)) named = true
    /\ each_owns (map fst (mid_items ml)) named = true /\ each_matches (map fst (mid_items ml)) named = true.

(** instance of the class-generic [C17_extra_keyword_raises_stmt] *)
Definition C17_midline_extra_keyword_raises_stmt : Prop :=
  forall ml np a kw k, mid_names_ok ml = true -> In k (map fst kw) ->
    ~ In k (match np with Some l => l | None => map fst (mid_items ml) end) ->
    let s := mk_nstate (MMid ml) np in
    set_named_params s a kw = (s, inl ExtraParamsError)
    /\ safe_set_params s (GDict kw) = (s, inl ExtraParamsError)
    /\ likelihood_outcome s (GDict kw) = (s, Raised ExtraParamsError)
    /\ Raised ExtraParamsError <> MinusInf.

(** Midline analogue of [Safe.C12_{uni,bi}_named_subset_scored_stmt], in the vocabulary of
    Safe.v ([m_names_ok], [m_names]) *)
Definition C12_midline_named_subset_scored_stmt : Prop :=
  forall R (lik : model -> R) m names v g, m_names_ok m = true -> NoDup names -> incl names (m_names m) ->
    length v = length names -> both_forms names (vals v) g ->
    let r := likelihood_given R lik (Some names) (MMid m) g in
    snd r = LMinusInf \/
    (snd r = LVal (lik (fst r)) /\
     forall k q, In (k, q) (combine names v) -> option_map (kw_get k) (param_items (fst r)) = Some (Some q)).
(** ... and, when scored, every parameter outside the declared names is scored at its
    previous value *)
Definition C12_midline_named_subset_untouched_stmt : Prop :=
  forall R (lik : model -> R) m names v g, m_names_ok m = true -> NoDup names -> incl names (m_names m) ->
    length v = length names -> both_forms names (vals v) g -> mixing_kw_ok m names ->
    let r := likelihood_given R lik (Some names) (MMid m) g in
    snd r = LVal (lik (fst r)) ->
    option_map (map fst) (param_items (fst r)) = Some (m_names m) /\
    forall k old, In (k, old) (m_items m) -> ~ In k names -> option_map (kw_get k) (param_items (fst r)) = Some (Some old).

(** * Proofs *)
Lemma combine_vals_get (named : list path) qs n q : NoDup named -> In (n, q) (combine named qs) ->
  kw_get n (combine named (vals qs)) = Some (V q).
Proof. intros Hnd Hin. apply kw_get_NoDup_In; [apply combine_keys_NoDup, Hnd | apply in_combine_vals, Hin]. Qed.
Lemma combine_vals_keys (named : list path) qs : length qs = length named -> map fst (combine named (vals qs)) = named.
Proof. intros H. apply map_fst_combine. rewrite vals_length. symmetry. exact H. Qed.

Theorem midline_literal_subset_hyps : C17_midline_literal_subset_hyps_stmt.
Proof.
  intros ml named Hok Hincl Hmk.
  assert (Hlit : forall n p, In n named -> In p (map fst (mid_items ml)) -> does_contain_in_order p n = true -> p = n).
  { intros n p Hn Hp Hd. symmetry. apply (nform_lit ml n p Hok).
    - intros ->. apply Hmk, Hn.
    - apply (mid_nform ml n Hok), Hincl, Hn.
    - apply (mid_nform ml p Hok), Hp.
    - apply does_contain_in_order_spec, Hd. }
  split; [exact Hlit|]. repeat split.
  - unfold no_ties. apply forallb_forall. intros k Hk. apply forallb_forall. intros n1 H1. apply forallb_forall. intros n2 H2.
    destruct (does_contain_in_order k n1) eqn:E1; [|reflexivity]. destruct (does_contain_in_order k n2) eqn:E2; [|reflexivity].
    rewrite <- (Hlit n1 k H1 Hk E1), <- (Hlit n2 k H2 Hk E2), path_eqb_refl. apply Bool.implb_true_r.
  - unfold each_owns. apply forallb_forall. intros n Hn. apply existsb_exists. exists n. split; [apply Hincl, Hn|].
    rewrite dcio_refl. cbn [andb]. apply forallb_forall. intros n' Hn'.
    destruct (does_contain_in_order n n') eqn:E; [|reflexivity].
    rewrite (Hlit n' n Hn' (Hincl _ Hn) E). cbn [implb]. apply Nat.leb_refl.
  - unfold each_matches. apply forallb_forall. intros n Hn. apply existsb_exists. exists n. split; [apply Hincl, Hn | apply dcio_refl].
Qed.

Theorem midline_literal_subset_roundtrip : C17_midline_literal_subset_roundtrip_stmt.
Proof.
  intros ml named qs s' its Hok Hits Hnd Hincl Hlen Hmk H.
  assert (Hok' : mid_names_ok ml = true) by (unfold mid_set_ok in Hok; rewrite !andb_true_iff in Hok; apply Hok).
  assert (Eits : its = mid_items ml) by (rewrite (mid_param_items ml Hok') in Hits; injection Hits as <-; reflexivity). subst its.
  destruct (set_named_inv (MMid ml) named (vals qs) [] s' _ Hits H) as (_ & m1 & rest & Hset & ->).
  assert (Ekw : named_kwargs named (vals qs) [] = combine named (vals qs)).
  { unfold named_kwargs. cbn [kw_update fold_left]. apply dict_of_NoDup_id, combine_keys_NoDup, Hnd. }
  rewrite Ekw in Hset. cbn [set_params] in Hset. destruct (m_set_params ml [] (combine named (vals qs))) as [ml' o] eqn:Eset.
  injection Hset as <- ->.
  assert (Hkeys : map fst (combine named (vals qs)) = named) by (apply combine_vals_keys, Hlen).
  destruct (mid_kw_only ml (combine named (vals qs)) ml' rest Hok) as (Hn' & Hk' & Hval & Hkeep); try exact Eset.
  { rewrite Hkeys. exact Hnd. }
  { rewrite Hkeys. exact Hincl. }
  { rewrite Hkeys. exact Hmk. }
  rewrite Hkeys in Hkeep.
  assert (Hvals : forall n q, In (n, q) (combine named qs) -> kw_get n (mid_items ml') = Some q)
    by (intros n q Hin; apply Hval, combine_vals_get; assumption).
  cbn [ns_model mk_nstate].
  assert (Hget : get_named_params (mk_nstate (MMid ml') (Some named)) = inr (combine named qs)).
  { unfold get_named_params, named_params. cbn [ns_model ns_named mk_nstate].
    rewrite (mid_param_items ml' Hn'), (param_names_items _ _ (mid_param_items ml' Hn')). f_equal.
    apply lit_get_named_items; try assumption.
    - apply mid_items_NoDup, Hn'.
    - rewrite Hk'. exact Hincl.
    - rewrite Hk'. apply (midline_literal_subset_hyps ml named Hok' Hincl Hmk). }
  split; [exact Hget|]. split.
  { unfold get_num_dims. rewrite Hget, combine_length, Hlen, Nat.min_id. reflexivity. }
  exists (mid_items ml'). split; [apply mid_param_items, Hn'|]. split; [exact Hk'|]. split; [exact Hvals | exact Hkeep].
Qed.

Theorem midline_extra_keyword_raises : C17_midline_extra_keyword_raises_stmt.
Proof.
  intros ml np a kw k Hok Hin Hni s.
  apply (extra_keyword_raises s a kw (match np with Some l => l | None => map fst (mid_items ml) end) k); [|exact Hin | exact Hni].
  unfold named_params, s. cbn [ns_model ns_named mk_nstate]. rewrite (param_names_items _ _ (mid_param_items ml Hok)). reflexivity.
Qed.

(** C12: both forms of a proposal for the declared names are the same keyword-only call *)
Lemma path_mem_In k l : In k l -> path_mem k l = true.
Proof. intros H. apply (proj2 (memp_In k l)), H. Qed.
Lemma mid_named_given R (lik : model -> R) m names v g : mid_names_ok m = true -> NoDup names ->
  length v = length names -> both_forms names (vals v) g ->
  likelihood_given R lik (Some names) (MMid m) g =
  (MMid (fst (m_set_params m [] (combine names (vals v)))),
   match snd (m_set_params m [] (combine names (vals v))) with
   | Some _ => LVal (lik (MMid (fst (m_set_params m [] (combine names (vals v))))))
   | None => LMinusInf
   end).
Proof.
  intros Hok Hnd Hlen Hg.
  assert (Hkeys : map fst (combine names (vals v)) = names) by (apply combine_vals_keys, Hlen).
  assert (Hset : forall a kw, forallb (fun k => path_mem k names) (map fst kw) = true ->
            kw_update kw (dict_of (combine names a)) = combine names (vals v) ->
            Safe.set_named_params (Some names) (MMid m) a kw =
            (MMid (fst (m_set_params m [] (combine names (vals v)))),
             match snd (m_set_params m [] (combine names (vals v))) with Some _ => SetOk | None => SetValueError end)).
  { intros a kw Hf Hk. unfold Safe.set_named_params, Safe.named_params.
    rewrite (param_names_items _ _ (mid_param_items m Hok)), Hf, Hk. cbn [set_params].
    destruct (m_set_params m [] (combine names (vals v))) as [m' [r|]]; reflexivity. }
  unfold likelihood_given, Safe.safe_set_params. destruct Hg as [-> | ->].
  - rewrite (Hset (vals v) []); [|reflexivity|].
    + destruct (snd (m_set_params m [] (combine names (vals v)))); reflexivity.
    + cbn [kw_update fold_left]. apply dict_of_NoDup_id, combine_keys_NoDup, Hnd.
  - rewrite (Hset [] (combine names (vals v))).
    + destruct (snd (m_set_params m [] (combine names (vals v)))); reflexivity.
    + rewrite Hkeys. apply forallb_forall. intros k Hk. apply path_mem_In, Hk.
    + replace (combine names (@nil val)) with (@nil (path * val)) by (destruct names; reflexivity).
      change (kw_update (combine names (vals v)) (dict_of [])) with (dict_of (combine names (vals v))).
      apply dict_of_NoDup_id. rewrite Hkeys. exact Hnd.
Qed.

Theorem midline_named_subset_scored : C12_midline_named_subset_scored_stmt.
Proof.
  intros R lik m names v g Hsafe Hnd Hincl Hlen Hg r. subst r.
  pose proof (safe_set_ok_mid m Hsafe) as Hok. pose proof (safe_names_ok_mid m Hsafe) as Hok'.
  unfold m_names in Hincl. rewrite safe_items_mid in Hincl.
  rewrite (mid_named_given R lik m names v g Hok' Hnd Hlen Hg). cbn [fst snd].
  destruct (snd (m_set_params m [] (combine names (vals v)))) as [rest|] eqn:Eo; [right | left; reflexivity].
  split; [reflexivity|]. intros k q Hin.
  apply (mid_kw_value m (combine names (vals v)) k q Hok).
  - rewrite combine_vals_keys by exact Hlen. exact Hnd.
  - rewrite combine_vals_keys by exact Hlen. exact Hincl.
  - apply combine_vals_get; assumption.
  - rewrite Eo. discriminate.
Qed.

Theorem midline_named_subset_untouched : C12_midline_named_subset_untouched_stmt.
Proof.
  intros R lik m names v g Hsafe Hnd Hincl Hlen Hg Hmk r. subst r.
  pose proof (safe_set_ok_mid m Hsafe) as Hok. pose proof (safe_names_ok_mid m Hsafe) as Hok'.
  unfold m_names in *. rewrite safe_items_mid in *.
  rewrite (mid_named_given R lik m names v g Hok' Hnd Hlen Hg). cbn [fst snd].
  destruct (m_set_params m [] (combine names (vals v))) as [m' [rest|]] eqn:Eset; cbn [fst snd]; [|discriminate]. intros _.
  assert (Hkeys : map fst (combine names (vals v)) = names) by (apply combine_vals_keys, Hlen).
  destruct (mid_kw_only m (combine names (vals v)) m' rest Hok) as (Hn' & Hk' & _ & Hkeep); try exact Eset.
  { rewrite Hkeys. exact Hnd. }
  { rewrite Hkeys. exact Hincl. }
  { rewrite Hkeys. exact Hmk. }
  rewrite Hkeys in Hkeep. rewrite (mid_param_items m' Hn'). cbn [option_map]. split; [rewrite Hk'; reflexivity|].
  intros k old Hin Hni. rewrite (Hkeep k old Hin Hni). reflexivity.
Qed.

(** * [mixing_kw_ok] is needed: a distribution keyword called "mixing" *)
(** observation: in a Midline with the mixing parameter whose "late" distribution has a
    keyword "mixing", the declared name "mixing" also sets "late_mixing" (the keyword
    travels to every distribution as a global name), although that parameter is not declared *)
Definition C17_midline_mixing_keyword_refuted_stmt : Prop :=
  exists (ml : midline) (named : list path) (qs : list Qc) (k : path),
    m_names_ok ml = true /\ NoDup named /\ length qs = length named /\ ~ In k named /\
    option_map (fun ns => forallb (fun n => memp n ns) named) (param_names (MMid ml)) = Some true /\
    ~ mixing_kw_ok ml named /\
    let r := set_named_params (mk_nstate (MMid ml) (Some named)) (vals qs) [] in
    snd r = inr tt /\
    option_map (fun l => option_map qout (kw_get k l)) (param_items (MMid ml)) = Some (Some (1, 3)%Z) /\
    option_map (fun l => option_map qout (kw_get k l)) (param_items (ns_model (fst r))) = Some (Some (1, 4)%Z).

Definition C17_mix_g : graph := force_graph (build_graph 2 [ (("tumor", "T"), CList ["II"]); (("lnl", "II"), CList []) ]).
Definition C17_mix_mid : midline :=
  new_midline (new_uni C17_mix_g [("late", Param 0 [("mixing", qc 1 3)])] 3) true false false false true.
Theorem midline_mixing_keyword_refuted : C17_midline_mixing_keyword_refuted_stmt.
Proof.
  exists C17_mix_mid, [["mixing"]], [qc 1 4], ["late"; "mixing"].
  split; [vm_compute; reflexivity|]. split; [repeat constructor; intros []|]. split; [reflexivity|].
  split; [intros [H|[]]; discriminate H|]. split; [vm_compute; reflexivity|].
  split; [intros H; apply H; [left; reflexivity | vm_compute; left; reflexivity]|].
  cbv zeta. split; [vm_compute; reflexivity|]. split; vm_compute; reflexivity.
Qed.
