(** NamedMidlineMore: the named-parameter theorems of C17 (literal subsets) and the
    [named_subset_scored] theorem of C12 for models.Midline.

    Route: a literal-subset call [set_named_params( *v)] on a Midline is the keyword-only
    call [m_set_params m [] (combine named (vals v))].
    - every declared name reads its value afterwards: [mid_keyword_over_positional]
      (ParamsMidlineMore.v);
    - every other reported parameter keeps its value: [chain_kw_keep] below, from the chain
      inversion lemmas [m_chain_inv_mix] / [m_chain_inv_nomix] of ParamsMidline.v and the
      refined shape [nform] of the reported names: none of the keywords a leaf looks up for
      an undeclared parameter is a reported name.  No synchronisation hypothesis is needed:
      every reported parameter is read from the very leaf whose plan starts from its own
      current values;
    - [get_named_params]: no reported name is a proper in-order sub-name of another one
      ([nform_lit]).
    New file; nothing existing is changed. *)
From LymphModel Require Import Base States Linalg Graph Transition Observation Dist Unilateral Models Params
  ParamsStatements ParamsLemmas ParamsProofs ParamsBilateral ParamsMidline ParamsMidlineMore
  Safe ParamsMidlineSafe Named NamedProofs NamedMidline.
From Coq Require Import Lia.
Local Open Scope nat_scope.
Local Open Scope string_scope.
Local Open Scope list_scope.

(** * The refined shape of the reported names of a Midline model *)
Definition kind (s : string) : Prop := In s ["spread"; "growth"; "micro"].
Definition dkw (m : midline) : list string := dist_kw_names (u_dists (ml_ei m)).

Inductive nform (m : midline) : path -> Prop :=
| NF_ipsiT n s : TNp (ml_ei m) n -> kind s -> nform m ["ipsi"; n; s]
| NF_ipsiL n s : LNp (ml_ei m) n -> kind s -> ml_symL m = false -> nform m ["ipsi"; n; s]
| NF_contraT n s : TNp (ml_ei m) n -> kind s -> ml_mixing m <> None -> nform m ["contra"; n; s]
| NF_contraL n s : LNp (ml_ei m) n -> kind s -> ml_symL m = false -> nform m ["contra"; n; s]
| NF_mixing : ml_mixing m <> None -> nform m ["mixing"]
| NF_noext n s : TNp (ml_ei m) n -> kind s -> ml_mixing m = None -> nform m ["noext"; "contra"; n; s]
| NF_ext n s : TNp (ml_ei m) n -> kind s -> ml_mixing m = None -> nform m ["ext"; "contra"; n; s]
| NF_lnl n s : LNp (ml_ei m) n -> kind s -> ml_symL m = true -> nform m [n; s]
| NF_dist t k : TS (ml_ei m) t -> In k (dkw m) -> nform m [t; k]
| NF_midext : nform m ["midext"; "prob"].

Lemma T_key u k : In k (map fst (u_tumor_items u)) -> exists n s, k = [n; s] /\ TNp u n /\ kind s.
Proof.
  intros H. pose proof (hT_Ti u k H) as Hh. apply sel_params_heads in H. destruct H as (e & s & _ & _ & -> & Hs).
  exists (e_name e), s. repeat split; assumption.
Qed.
Lemma L_key u k : In k (map fst (u_lnl_items u)) -> exists n s, k = [n; s] /\ LNp u n /\ kind s.
Proof.
  intros H. pose proof (hL_Li u k H) as Hh. apply sel_params_heads in H. destruct H as (e & s & _ & _ & -> & Hs).
  exists (e_name e), s. repeat split; assumption.
Qed.
Lemma D_key u k : In k (map fst (u_dist_items u)) -> exists t s, k = [t; s] /\ TS u t /\ In s (dist_kw_names (u_dists u)).
Proof. intros H. apply dists_items_heads in H. destruct H as (t & s & Ht & -> & Hs). exists t, s. repeat split; assumption. Qed.

Lemma TNp_ec m s : mid_names_ok m = true -> TNp (ml_ec m) s <-> TNp (ml_ei m) s.
Proof.
  intros Hok. destruct (m_ok_parts m Hok) as (_ & _ & _ & Hs & _). unfold TNp, tumor_edges. unfold u_edges in Hs.
  rewrite (shape_filter_names is_tumor_spread _ kind_sel_tumor _ Hs). tauto.
Qed.

Lemma mid_nform m K : mid_names_ok m = true -> In K (map fst (mid_items m)) -> nform m K.
Proof.
  intros Hok.
  assert (HTi : forall k, In k (map fst (u_tumor_items (ml_ei m))) -> exists n s, k = [n; s] /\ TNp (ml_ei m) n /\ kind s) by apply T_key.
  assert (HTn : forall k, In k (map fst (u_tumor_items (ml_nc m))) -> exists n s, k = [n; s] /\ TNp (ml_ei m) n /\ kind s).
  { intros k Hk. destruct (T_key _ _ Hk) as (n & s & -> & Hn & Hs). exists n, s. repeat split; [apply (TNp_nc m Hok), Hn | exact Hs]. }
  assert (HTe : forall k, In k (map fst (u_tumor_items (ml_ec m))) -> exists n s, k = [n; s] /\ TNp (ml_ei m) n /\ kind s).
  { intros k Hk. destruct (T_key _ _ Hk) as (n & s & -> & Hn & Hs). exists n, s. repeat split; [apply (TNp_ec m n Hok), Hn | exact Hs]. }
  assert (HLi : forall k, In k (map fst (u_lnl_items (ml_ei m))) -> exists n s, k = [n; s] /\ LNp (ml_ei m) n /\ kind s) by apply L_key.
  assert (HLe : forall k, In k (map fst (u_lnl_items (ml_ec m))) -> exists n s, k = [n; s] /\ LNp (ml_ei m) n /\ kind s).
  { intros k Hk. destruct (L_key _ _ Hk) as (n & s & -> & Hn & Hs). exists n, s. repeat split; [apply (LNp_ec m Hok), Hn | exact Hs]. }
  assert (HD : forall k, In k (map fst (u_dist_items (ml_ei m))) -> exists t s, k = [t; s] /\ TS (ml_ei m) t /\ In s (dkw m)) by apply D_key.
  unfold mid_items, m_mixing_item, m_midext_item.
  destruct (ml_mixing m) as [mix|] eqn:Emix, (ml_symL m) eqn:EsymL;
    rewrite ?map_app, ?pre_app, ?map_app, ?in_app_iff, ?in_pre_keys; cbn [map fst In]; intros Hin;
    repeat match goal with H : _ \/ _ |- _ => destruct H end;
    repeat match goal with H : exists k', _ /\ _ |- _ => destruct H as (? & -> & ?) end; subst; try tauto.
  all: try (match goal with H : In ?k (map fst (u_tumor_items _)) |- _ =>
              first [ destruct (HTi k H) as (n & s & -> & Hn & Hs) | destruct (HTn k H) as (n & s & -> & Hn & Hs)
                    | destruct (HTe k H) as (n & s & -> & Hn & Hs) ] end).
  all: try (match goal with H : In ?k (map fst (u_lnl_items _)) |- _ =>
              first [ destruct (HLi k H) as (n & s & -> & Hn & Hs) | destruct (HLe k H) as (n & s & -> & Hn & Hs) ] end).
  all: try (match goal with H : In ?k (map fst (u_dist_items _)) |- _ => destruct (HD k H) as (n & s & -> & Hn & Hs) end).
  all: cbn [app].
  all: first [ apply NF_ipsiT; assumption | apply NF_ipsiL; (assumption || congruence)
             | apply NF_contraT; (assumption || congruence) | apply NF_contraL; (assumption || congruence)
             | apply NF_mixing; congruence | apply NF_noext; (assumption || congruence) | apply NF_ext; (assumption || congruence)
             | apply NF_lnl; (assumption || congruence) | apply NF_dist; assumption | apply NF_midext ].
Qed.

(** * No reported name is a proper in-order sub-name of another one *)
Section NameFacts.
  Variable m : midline.
  Hypothesis Hok : mid_names_ok m = true.
  Let ei := ml_ei m.
  Let Hei : u_names_ok ei = true. Proof. apply (m_ok_parts m Hok). Qed.

  Lemma TNp_res s : TNp ei s -> In s reserved -> False.
  Proof. intros H Hr. exact (in_reserved_not_edge ei s Hei Hr (TNp_EN _ _ H)). Qed.
  Lemma LNp_res s : LNp ei s -> In s reserved -> False.
  Proof. intros H Hr. exact (in_reserved_not_edge ei s Hei Hr (LNp_EN _ _ H)). Qed.
  Lemma TS_res s : TS ei s -> In s reserved -> False.
  Proof. intros H Hr. exact (in_reserved_not_tstage ei s Hei Hr H). Qed.
  Lemma TL_disj s : TNp ei s -> LNp ei s -> False.
  Proof. apply (TNp_LNp_disj ei Hei). Qed.
  Lemma T_TS_disj s : TNp ei s -> TS ei s -> False.
  Proof. intros H1 H2. exact (EN_TS_disj ei Hei s (TNp_EN _ _ H1) H2). Qed.
  Lemma L_TS_disj s : LNp ei s -> TS ei s -> False.
  Proof. intros H1 H2. exact (EN_TS_disj ei Hei s (LNp_EN _ _ H1) H2). Qed.
  Lemma kind_res s : kind s -> In s reserved.
  Proof. unfold kind. cbn. intuition. Qed.
  Lemma kind_not_mixing : kind "mixing" -> False.
  Proof. unfold kind. cbn. intuition discriminate. Qed.
End NameFacts.

(** closes a goal [False] (or any goal, after [exfalso]) from the side conditions of two
    shapes that have been identified *)
Ltac nf_res := cbn; tauto.
Ltac nf_solve Hok :=
  exfalso;
  first
    [ congruence
    | match goal with H : kind "mixing" |- _ => exact (kind_not_mixing H) end
    | match goal with H1 : TNp _ ?s, H2 : LNp _ ?s |- _ => exact (TL_disj _ Hok s H1 H2) end
    | match goal with H1 : TNp _ ?s, H2 : TS _ ?s |- _ => exact (T_TS_disj _ Hok s H1 H2) end
    | match goal with H1 : LNp _ ?s, H2 : TS _ ?s |- _ => exact (L_TS_disj _ Hok s H1 H2) end
    | match goal with H : TNp _ ?s |- _ => apply (TNp_res _ Hok s H); nf_res end
    | match goal with H : LNp _ ?s |- _ => apply (LNp_res _ Hok s H); nf_res end
    | match goal with H : TS _ ?s |- _ => apply (TS_res _ Hok s H); nf_res end
    | match goal with H1 : TNp _ ?s, H2 : kind ?s |- _ => apply (TNp_res _ Hok s H1), kind_res, H2 end
    | match goal with H1 : LNp _ ?s, H2 : kind ?s |- _ => apply (LNp_res _ Hok s H1), kind_res, H2 end
    | match goal with H1 : TS _ ?s, H2 : kind ?s |- _ => apply (TS_res _ Hok s H1), kind_res, H2 end ].

Ltac subseq_inv :=
  repeat match goal with
         | H : Subseq (_ :: _) _ |- _ => inversion H; clear H; subst
         | H : Subseq [] _ |- _ => clear H
         end.

Lemma nform_lit m n p : mid_names_ok m = true -> (n = ["mixing"] -> ~ In "mixing" (dkw m)) ->
  nform m n -> nform m p -> Subseq n p -> n = p.
Proof.
  intros Hok Hmk Hn Hp Hs.
  destruct Hn; destruct Hp; subseq_inv; try reflexivity; try (nf_solve Hok).
Qed.

(** * get_named_params for a literal subset (class independent) *)
Lemma lit_get_named_items (its : list (path * Qc)) named qs :
  NoDup (map fst its) -> NoDup named -> incl named (map fst its) -> length qs = length named ->
  (forall n p, In n named -> In p (map fst its) -> does_contain_in_order p n = true -> p = n) ->
  (forall n q, In (n, q) (combine named qs) -> kw_get n its = Some q) ->
  get_named_items its named = combine named qs.
Proof.
  intros Hnd Hndn Hincl Hlen Hlit Hval. unfold get_named_items. cbv zeta.
  set (names := map fst its) in *. rewrite create_alias_map_NoDup by exact Hndn.
  set (ow := owners _).
  apply entries_combine; [symmetry; exact Hlen|]. intros n q Hin.
  assert (Hn : In n named) by (apply in_combine_l in Hin; exact Hin).
  assert (Ha : aliases_of names n = [n]).
  { unfold aliases_of. rewrite (filter_ext_in _ (fun p => path_eqb p n)).
    - apply filter_eq_single; [exact Hnd | apply Hincl, Hn].
    - intros p Hp. destruct (does_contain_in_order p n) eqn:E.
      + rewrite (Hlit n p Hn Hp E). symmetry. apply path_eqb_refl.
      + destruct (path_eqb p n) eqn:E2; [|reflexivity]. apply path_eqb_eq in E2. subst. rewrite dcio_refl in E. discriminate. }
  unfold named_entry, alias_entry, read_param. cbn [fst snd]. rewrite Ha.
  assert (Hl : last_opt (match owned_by ow n [n] with [] => [n] | l => l end) = Some n).
  { unfold owned_by. cbn [filter]. destruct (match kw_get n ow with Some o => path_eqb o n | None => false end); reflexivity. }
  rewrite Hl, (Hval n q Hin). reflexivity.
Qed.

(** * Look-ups that find nothing *)
Lemma eff_none X kw name t : kw_last (name :: t) kw = None -> kw_last t kw = None -> eff X kw name t = None.
Proof. intros H1 H2. unfold eff. rewrite H1. destruct (mem (head_of t) X); [reflexivity | exact H2]. Qed.

Section KwNone.
  Variable kw : kwargs.
  Hypothesis Hnd : NoDup (map fst kw).
  Let klg K : kw_last K kw = kw_get K kw := kw_last_get kw Hnd K.

  Section WithX4.
    Variables (split : list (string * kwargs)) (glob : kwargs).
    Hypothesis Hu : unflatten_and_split kw X4 = (split, glob).

    Lemma n_lk_side side n t : In side X4 ->
      (forall c, In c [side :: n :: t; n :: t; side :: t; t] -> kw_get c kw = None) ->
      u_lk (obj_kwargs side split glob) (n :: t) = None.
    Proof.
      intros Hs Hc. unfold u_lk. rewrite !kw_last_NoDup by (apply (obj_kwargs_NoDup kw X4); exact Hu).
      rewrite !(obj_kwargs_lookup kw X4 side _ split glob not_empty_X4 Hu Hs).
      rewrite !eff_none; try reflexivity; rewrite klg; apply Hc; cbn; tauto.
    Qed.
    Lemma n_lk_glob n t : (forall c, In c [n :: t; t] -> kw_get c kw = None) -> u_lk glob (n :: t) = None.
    Proof.
      intros Hc. unfold u_lk.
      destruct (glob_lookup kw X4 (n :: t) split glob not_empty_X4 Hu) as [Hg Hgnd].
      destruct (glob_lookup kw X4 t split glob not_empty_X4 Hu) as [Hg2 _].
      rewrite !kw_last_NoDup by exact Hgnd. rewrite Hg, Hg2, !klg, !Hc by (cbn; tauto).
      destruct (mem (head_of (n :: t)) X4), (mem (head_of t) X4); reflexivity.
    Qed.
    Lemma n_lk_mixing : kw_get ["mixing"] kw = None -> kw_get ["mixing"] glob = None.
    Proof.
      intros Hc. destruct (glob_lookup kw X4 ["mixing"] split glob not_empty_X4 Hu) as [Hg _]. rewrite Hg. cbn.
      rewrite klg. exact Hc.
    Qed.
    Lemma n_lk_nested side nsplit ng n t : (side = "noext" \/ side = "ext") ->
      unflatten_and_split (sub_kwargs side split) ["contra"] = (nsplit, ng) ->
      (forall c, In c [side :: "contra" :: n :: t; n :: t; side :: "contra" :: t; t] -> kw_get c kw = None) ->
      u_lk (obj_kwargs "contra" nsplit glob) (n :: t) = None.
    Proof.
      intros Hside Hun Hc. assert (Hs : In side X4) by (destruct Hside as [-> | ->]; cbn; tauto).
      destruct (glob_lookup kw X4 (n :: t) split glob not_empty_X4 Hu) as [Hg Hgnd].
      destruct (glob_lookup kw X4 t split glob not_empty_X4 Hu) as [Hg2 _].
      assert (Hcn : ~ In "" ["contra"]) by (cbn; intuition discriminate).
      assert (Hlook : forall K, kw_get K kw = None -> kw_get (side :: "contra" :: K) kw = None ->
                kw_get K (kw_update (sub_kwargs "contra" nsplit) glob) = None).
      { intros K H1 H2.
        destruct (sub_kwargs_lookup (sub_kwargs side split) ["contra"] "contra" K nsplit ng Hcn Hun (or_introl eq_refl)) as [Hsub Hsnd].
        destruct (sub_kwargs_lookup kw X4 side ("contra" :: K) split glob not_empty_X4 Hu Hs) as [Hsub2 Hsnd2].
        rewrite kw_get_update, kw_get_rev_NoDup by exact Hsnd. rewrite Hsub, kw_last_NoDup by exact Hsnd2. rewrite Hsub2, klg, H2.
        destruct (glob_lookup kw X4 K split glob not_empty_X4 Hu) as [HgK _]. rewrite HgK, klg, H1.
        destruct (mem (head_of K) X4); reflexivity. }
      unfold u_lk, obj_kwargs. rewrite !kw_last_NoDup by (apply kw_update_NoDup, Hgnd).
      rewrite !Hlook; try reflexivity; apply Hc; cbn; tauto.
    Qed.
  End WithX4.

  Lemma n_lk_dist XDl dsplit dglob ikw ckw t k :
    In "ext" XDl -> (forall s, In s XDl -> In s ["ext"; "noext"; "central"; "unknown"]) ->
    unflatten_and_split kw XDl = (dsplit, dglob) -> side_kwargs (obj_kwargs "ext" dsplit dglob) = (ikw, ckw) ->
    (forall c, In c [["ext"; "ipsi"; t; k]; ["ipsi"; t; k]; ["ext"; t; k]; [t; k];
                     ["ext"; "ipsi"; k]; ["ipsi"; k]; ["ext"; k]; [k]] -> kw_get c kw = None) ->
    u_lk ikw [t; k] = None.
  Proof.
    intros Hext Hsub Hud Hsk Hc.
    assert (HeD : ~ In "" XDl) by (intros H; apply Hsub in H; cbn in H; intuition discriminate).
    set (ekw := obj_kwargs "ext" dsplit dglob) in *.
    assert (Hend : NoDup (map fst ekw)) by (apply (obj_kwargs_NoDup kw XDl); exact Hud).
    assert (Hekw : forall K, kw_last K ekw = eff XDl kw "ext" K)
      by (intros K; rewrite kw_last_NoDup by exact Hend; apply (obj_kwargs_lookup kw XDl "ext" K dsplit dglob HeD Hud Hext)).
    destruct (side_kwargs_lk ekw ikw ckw Hsk) as [Hlk _]. rewrite Hlk. unfold side_lk.
    rewrite !eff_none; try reflexivity; rewrite Hekw; apply eff_none; rewrite klg; apply Hc; cbn; tauto.
  Qed.
End KwNone.

(** * A parameter without keyword keeps its value (keyword-only call) *)
Lemma block_keep lk ps qs k old : all_unit (plan lk ps []) = Some qs -> In (k, old) ps -> lk k = None ->
  In (k, old) (combine (map fst ps) qs).
Proof.
  intros Hq Hin Hlk. apply all_unit_Some_vals in Hq. destruct Hq as [Hp _].
  destruct (plan_nil_In lk ps qs k old Hp Hin) as (q & Hq & Hv). rewrite Hlk in Hv. cbn in Hv. injection Hv as ->. exact Hq.
Qed.
Lemma dist_block_keep maxt ds lk (ps : list (path * Qc)) dsi k old :
  dists_put maxt ds (plan lk ps []) = Some dsi -> length ps = length (dists_items ds) -> map fst ps = map fst (dists_items ds) ->
  In (k, old) ps -> lk k = None -> In (k, old) (dists_items dsi).
Proof.
  intros Hdp Hlen Hkeys Hin Hlk.
  destruct (dists_put_spec _ _ _ _ Hdp) as (qD & HuD & HiD & _); [rewrite plan_length; exact Hlen|].
  apply unwrap_Some in HuD. rewrite HiD, <- Hkeys.
  destruct (plan_nil_In lk ps qD k old HuD Hin) as (q & Hq & Hv). rewrite Hlk in Hv. cbn in Hv. injection Hv as ->. exact Hq.
Qed.
Lemma dist_keys_after maxt ds new dsi : dists_put maxt ds new = Some dsi -> length new = length (dists_items ds) ->
  map fst (dists_items dsi) = map fst (dists_items ds).
Proof.
  intros Hdp Hl. destruct (dists_put_spec _ _ _ _ Hdp Hl) as (qD & HuD & HiD & _). rewrite HiD. apply map_fst_combine.
  rewrite map_length, (unwrap_length _ _ HuD). symmetry. exact Hl.
Qed.
Lemma in_pre_items_iff p (X : list (path * Qc)) K v : In (K, v) (pre p X) <-> exists k, K = p ++ k /\ In (k, v) X.
Proof.
  unfold pre, prefix. rewrite in_map_iff. split.
  - intros ([k x] & E & Hin). cbn [fst snd] in E. injection E as <- <-. exists k. split; [reflexivity | exact Hin].
  - intros (k & -> & Hin). exists (k, v). split; [reflexivity | exact Hin].
Qed.
Lemma in_items_key {A B} (l : list (A * B)) k v : In (k, v) l -> In k (map fst l).
Proof. intros H. apply in_map_iff. exists (k, v). split; [reflexivity | exact H]. Qed.
Lemma keys_combine_len (ps : list (path * Qc)) (qs : list Qc) : length qs = length ps -> map fst (combine (map fst ps) qs) = map fst ps.
Proof. intros H. apply map_fst_combine. rewrite map_length. symmetry. exact H. Qed.
