(** NamedMidlineMore: the named-parameter theorems of C17 (literal subsets) and the
    [named_subset_scored] theorem of C12 for models.Midline.

    Route: a literal-subset call [set_named_params( *v)] on a Midline is the keyword-only
    call [m_set_params m [] (combine named (vals v))].
    - every declared name reads its value afterwards: [mid_keyword_over_positional]
      (ParamsMidlineMore.v);
    - every other reported parameter keeps its value: [chain_kw_keep] below, from the chain
      inversion lemmas [m_chain_inv_mix] / [m_chain_inv_nomix] of ParamsMidline.v and the
      refined shape [nform] of the reported names: none of the keywords a leaf looks up for
      an undeclared parameter is a reported name.  No synchronisation hypothesis is needed:
      every reported parameter is read from the very leaf whose plan starts from its own
      current values;
    - [get_named_params]: no reported name is a proper in-order sub-name of another one
      ([nform_lit]);
    - acceptable proposals are accepted (last part of the file, [mid_kw_accept]): a forward
      traversal of [Midline.set_params] for a keyword-only call: every keyword dict a leaf
      receives binds only values of the call's keywords under names prefixed by routing words
      ([Fr]); a spread look-up therefore never returns a distribution value, and the keyword of
      a distribution name reaches every leaf of every sub-model unchanged ([Tp], [dist_lk_exact]).
    New file; nothing existing is changed. *)
From LymphModel Require Import Base States Linalg Graph Transition Observation Dist Unilateral Models Params
  ParamsStatements ParamsLemmas ParamsProofs ParamsBilateral ParamsMidline ParamsMidlineMore
  Safe ParamsMidlineSafe Named NamedProofs NamedMidline.
From LymphModel Require SafeProofs SafeMidline.
From Coq Require Import Lia.
Local Open Scope nat_scope.
Local Open Scope string_scope.
Local Open Scope list_scope.

(** * The refined shape of the reported names of a Midline model *)
Definition kind (s : string) : Prop := In s ["spread"; "growth"; "micro"].
Definition dkw (m : midline) : list string := dist_kw_names (u_dists (ml_ei m)).

Inductive nform (m : midline) : path -> Prop :=
| NF_ipsiT n s : TNp (ml_ei m) n -> kind s -> nform m ["ipsi"; n; s]
| NF_ipsiL n s : LNp (ml_ei m) n -> kind s -> ml_symL m = false -> nform m ["ipsi"; n; s]
| NF_contraT n s : TNp (ml_ei m) n -> kind s -> ml_mixing m <> None -> nform m ["contra"; n; s]
| NF_contraL n s : LNp (ml_ei m) n -> kind s -> ml_symL m = false -> nform m ["contra"; n; s]
| NF_mixing : ml_mixing m <> None -> nform m ["mixing"]
| NF_noext n s : TNp (ml_ei m) n -> kind s -> ml_mixing m = None -> nform m ["noext"; "contra"; n; s]
| NF_ext n s : TNp (ml_ei m) n -> kind s -> ml_mixing m = None -> nform m ["ext"; "contra"; n; s]
| NF_lnl n s : LNp (ml_ei m) n -> kind s -> ml_symL m = true -> nform m [n; s]
| NF_dist t k : TS (ml_ei m) t -> In k (dkw m) -> nform m [t; k]
| NF_midext : nform m ["midext"; "prob"].

Lemma T_key u k : In k (map fst (u_tumor_items u)) -> exists n s, k = [n; s] /\ TNp u n /\ kind s.
Proof.
  intros H. pose proof (hT_Ti u k H) as Hh. apply sel_params_heads in H. destruct H as (e & s & _ & _ & -> & Hs).
  exists (e_name e), s. repeat split; assumption.
Qed.
Lemma L_key u k : In k (map fst (u_lnl_items u)) -> exists n s, k = [n; s] /\ LNp u n /\ kind s.
Proof.
  intros H. pose proof (hL_Li u k H) as Hh. apply sel_params_heads in H. destruct H as (e & s & _ & _ & -> & Hs).
  exists (e_name e), s. repeat split; assumption.
Qed.
Lemma D_key u k : In k (map fst (u_dist_items u)) -> exists t s, k = [t; s] /\ TS u t /\ In s (dist_kw_names (u_dists u)).
Proof. intros H. apply dists_items_heads in H. destruct H as (t & s & Ht & -> & Hs). exists t, s. repeat split; assumption. Qed.

Lemma TNp_ec m s : mid_names_ok m = true -> TNp (ml_ec m) s <-> TNp (ml_ei m) s.
Proof.
  intros Hok. destruct (m_ok_parts m Hok) as (_ & _ & _ & Hs & _). unfold TNp, tumor_edges. unfold u_edges in Hs.
  rewrite (shape_filter_names is_tumor_spread _ kind_sel_tumor _ Hs). tauto.
Qed.

Lemma mid_nform m K : mid_names_ok m = true -> In K (map fst (mid_items m)) -> nform m K.
Proof.
  intros Hok.
  assert (HTi : forall k, In k (map fst (u_tumor_items (ml_ei m))) -> exists n s, k = [n; s] /\ TNp (ml_ei m) n /\ kind s) by apply T_key.
  assert (HTn : forall k, In k (map fst (u_tumor_items (ml_nc m))) -> exists n s, k = [n; s] /\ TNp (ml_ei m) n /\ kind s).
  { intros k Hk. destruct (T_key _ _ Hk) as (n & s & -> & Hn & Hs). exists n, s. repeat split; [apply (TNp_nc m Hok), Hn | exact Hs]. }
  assert (HTe : forall k, In k (map fst (u_tumor_items (ml_ec m))) -> exists n s, k = [n; s] /\ TNp (ml_ei m) n /\ kind s).
  { intros k Hk. destruct (T_key _ _ Hk) as (n & s & -> & Hn & Hs). exists n, s. repeat split; [apply (TNp_ec m n Hok), Hn | exact Hs]. }
  assert (HLi : forall k, In k (map fst (u_lnl_items (ml_ei m))) -> exists n s, k = [n; s] /\ LNp (ml_ei m) n /\ kind s) by apply L_key.
  assert (HLe : forall k, In k (map fst (u_lnl_items (ml_ec m))) -> exists n s, k = [n; s] /\ LNp (ml_ei m) n /\ kind s).
  { intros k Hk. destruct (L_key _ _ Hk) as (n & s & -> & Hn & Hs). exists n, s. repeat split; [apply (LNp_ec m Hok), Hn | exact Hs]. }
  assert (HD : forall k, In k (map fst (u_dist_items (ml_ei m))) -> exists t s, k = [t; s] /\ TS (ml_ei m) t /\ In s (dkw m)) by apply D_key.
  unfold mid_items, m_mixing_item, m_midext_item.
  destruct (ml_mixing m) as [mix|] eqn:Emix, (ml_symL m) eqn:EsymL;
    rewrite ?map_app, ?pre_app, ?map_app, ?in_app_iff, ?in_pre_keys; cbn [map fst In]; intros Hin;
    repeat match goal with H : _ \/ _ |- _ => destruct H end;
    repeat match goal with H : exists k', _ /\ _ |- _ => destruct H as (? & -> & ?) end; subst; try tauto.
  all: try (match goal with H : In ?k (map fst (u_tumor_items _)) |- _ =>
              first [ destruct (HTi k H) as (n & s & -> & Hn & Hs) | destruct (HTn k H) as (n & s & -> & Hn & Hs)
                    | destruct (HTe k H) as (n & s & -> & Hn & Hs) ] end).
  all: try (match goal with H : In ?k (map fst (u_lnl_items _)) |- _ =>
              first [ destruct (HLi k H) as (n & s & -> & Hn & Hs) | destruct (HLe k H) as (n & s & -> & Hn & Hs) ] end).
  all: try (match goal with H : In ?k (map fst (u_dist_items _)) |- _ => destruct (HD k H) as (n & s & -> & Hn & Hs) end).
  all: cbn [app].
  all: first [ apply NF_ipsiT; assumption | apply NF_ipsiL; (assumption || congruence)
             | apply NF_contraT; (assumption || congruence) | apply NF_contraL; (assumption || congruence)
             | apply NF_mixing; congruence | apply NF_noext; (assumption || congruence) | apply NF_ext; (assumption || congruence)
             | apply NF_lnl; (assumption || congruence) | apply NF_dist; assumption | apply NF_midext ].
Qed.

(** * No reported name is a proper in-order sub-name of another one *)
Section NameFacts.
  Variable m : midline.
  Hypothesis Hok : mid_names_ok m = true.
  Let ei := ml_ei m.
  Let Hei : u_names_ok ei = true. Proof. apply (m_ok_parts m Hok). Qed.

  Lemma TNp_res s : TNp ei s -> In s reserved -> False.
  Proof. intros H Hr. exact (in_reserved_not_edge ei s Hei Hr (TNp_EN _ _ H)). Qed.
  Lemma LNp_res s : LNp ei s -> In s reserved -> False.
  Proof. intros H Hr. exact (in_reserved_not_edge ei s Hei Hr (LNp_EN _ _ H)). Qed.
  Lemma TS_res s : TS ei s -> In s reserved -> False.
  Proof. intros H Hr. exact (in_reserved_not_tstage ei s Hei Hr H). Qed.
  Lemma TL_disj s : TNp ei s -> LNp ei s -> False.
  Proof. apply (TNp_LNp_disj ei Hei). Qed.
  Lemma T_TS_disj s : TNp ei s -> TS ei s -> False.
  Proof. intros H1 H2. exact (EN_TS_disj ei Hei s (TNp_EN _ _ H1) H2). Qed.
  Lemma L_TS_disj s : LNp ei s -> TS ei s -> False.
  Proof. intros H1 H2. exact (EN_TS_disj ei Hei s (LNp_EN _ _ H1) H2). Qed.
  Lemma kind_res s : kind s -> In s reserved.
  Proof. unfold kind. cbn. intuition. Qed.
  Lemma kind_not_mixing : kind "mixing" -> False.
  Proof. unfold kind. cbn. intuition discriminate. Qed.
End NameFacts.

(** closes a goal [False] (or any goal, after [exfalso]) from the side conditions of two
    shapes that have been identified *)
Ltac nf_res := cbn; tauto.
Ltac nf_solve Hok :=
  exfalso;
  first
    [ congruence
    | match goal with H : kind "mixing" |- _ => exact (kind_not_mixing H) end
    | match goal with H1 : TNp _ ?s, H2 : LNp _ ?s |- _ => exact (TL_disj _ Hok s H1 H2) end
    | match goal with H1 : TNp _ ?s, H2 : TS _ ?s |- _ => exact (T_TS_disj _ Hok s H1 H2) end
    | match goal with H1 : LNp _ ?s, H2 : TS _ ?s |- _ => exact (L_TS_disj _ Hok s H1 H2) end
    | match goal with H : TNp _ ?s |- _ => apply (TNp_res _ Hok s H); nf_res end
    | match goal with H : LNp _ ?s |- _ => apply (LNp_res _ Hok s H); nf_res end
    | match goal with H : TS _ ?s |- _ => apply (TS_res _ Hok s H); nf_res end
    | match goal with H1 : TNp _ ?s, H2 : kind ?s |- _ => apply (TNp_res _ Hok s H1), kind_res, H2 end
    | match goal with H1 : LNp _ ?s, H2 : kind ?s |- _ => apply (LNp_res _ Hok s H1), kind_res, H2 end
    | match goal with H1 : TS _ ?s, H2 : kind ?s |- _ => apply (TS_res _ Hok s H1), kind_res, H2 end ].

Ltac subseq_inv :=
  repeat match goal with
         | H : Subseq (_ :: _) _ |- _ => inversion H; clear H; subst
         | H : Subseq [] _ |- _ => clear H
         end.

Lemma nform_lit m n p : mid_names_ok m = true -> (n = ["mixing"] -> ~ In "mixing" (dkw m)) ->
  nform m n -> nform m p -> Subseq n p -> n = p.
Proof.
  intros Hok Hmk Hn Hp Hs.
  destruct Hn; destruct Hp; subseq_inv; try reflexivity; try (nf_solve Hok).
Qed.

(** * get_named_params for a literal subset (class independent) *)
Lemma lit_get_named_items (its : list (path * Qc)) named qs :
  NoDup (map fst its) -> NoDup named -> incl named (map fst its) -> length qs = length named ->
  (forall n p, In n named -> In p (map fst its) -> does_contain_in_order p n = true -> p = n) ->
  (forall n q, In (n, q) (combine named qs) -> kw_get n its = Some q) ->
  get_named_items its named = combine named qs.
Proof.
  intros Hnd Hndn Hincl Hlen Hlit Hval. unfold get_named_items. cbv zeta.
  set (names := map fst its) in *. rewrite create_alias_map_NoDup by exact Hndn.
  set (ow := owners _).
  apply entries_combine; [symmetry; exact Hlen|]. intros n q Hin.
  assert (Hn : In n named) by (apply in_combine_l in Hin; exact Hin).
  assert (Ha : aliases_of names n = [n]).
  { unfold aliases_of. rewrite (filter_ext_in _ (fun p => path_eqb p n)).
    - apply filter_eq_single; [exact Hnd | apply Hincl, Hn].
    - intros p Hp. destruct (does_contain_in_order p n) eqn:E.
      + rewrite (Hlit n p Hn Hp E). symmetry. apply path_eqb_refl.
      + destruct (path_eqb p n) eqn:E2; [|reflexivity]. apply path_eqb_eq in E2. subst. rewrite dcio_refl in E. discriminate. }
  unfold named_entry, alias_entry, read_param. cbn [fst snd]. rewrite Ha.
  assert (Hl : last_opt (match owned_by ow n [n] with [] => [n] | l => l end) = Some n).
  { unfold owned_by. cbn [filter]. destruct (match kw_get n ow with Some o => path_eqb o n | None => false end); reflexivity. }
  rewrite Hl, (Hval n q Hin). reflexivity.
Qed.

(** * Look-ups that find nothing *)
Lemma eff_none X kw name t : kw_last (name :: t) kw = None -> kw_last t kw = None -> eff X kw name t = None.
Proof. intros H1 H2. unfold eff. rewrite H1. destruct (mem (head_of t) X); [reflexivity | exact H2]. Qed.

Section KwNone.
  Variable kw : kwargs.
  Hypothesis Hnd : NoDup (map fst kw).
  Let klg K : kw_last K kw = kw_get K kw := kw_last_get kw Hnd K.

  Section WithX4.
    Variables (split : list (string * kwargs)) (glob : kwargs).
    Hypothesis Hu : unflatten_and_split kw X4 = (split, glob).

    Lemma n_lk_side side n t : In side X4 ->
      (forall c, In c [side :: n :: t; n :: t; side :: t; t] -> kw_get c kw = None) ->
      u_lk (obj_kwargs side split glob) (n :: t) = None.
    Proof.
      intros Hs Hc. unfold u_lk. rewrite !kw_last_NoDup by (apply (obj_kwargs_NoDup kw X4); exact Hu).
      rewrite !(obj_kwargs_lookup kw X4 side _ split glob not_empty_X4 Hu Hs).
      rewrite !eff_none; try reflexivity; rewrite klg; apply Hc; cbn; tauto.
    Qed.
    Lemma n_lk_glob n t : (forall c, In c [n :: t; t] -> kw_get c kw = None) -> u_lk glob (n :: t) = None.
    Proof.
      intros Hc. unfold u_lk.
      destruct (glob_lookup kw X4 (n :: t) split glob not_empty_X4 Hu) as [Hg Hgnd].
      destruct (glob_lookup kw X4 t split glob not_empty_X4 Hu) as [Hg2 _].
      rewrite !kw_last_NoDup by exact Hgnd. rewrite Hg, Hg2, !klg, !Hc by (cbn; tauto).
      destruct (mem (head_of (n :: t)) X4), (mem (head_of t) X4); reflexivity.
    Qed.
    Lemma n_lk_mixing : kw_get ["mixing"] kw = None -> kw_get ["mixing"] glob = None.
    Proof.
      intros Hc. destruct (glob_lookup kw X4 ["mixing"] split glob not_empty_X4 Hu) as [Hg _]. rewrite Hg. cbn.
      rewrite klg. exact Hc.
    Qed.
    Lemma n_lk_nested side nsplit ng n t : (side = "noext" \/ side = "ext") ->
      unflatten_and_split (sub_kwargs side split) ["contra"] = (nsplit, ng) ->
      (forall c, In c [side :: "contra" :: n :: t; n :: t; side :: "contra" :: t; t] -> kw_get c kw = None) ->
      u_lk (obj_kwargs "contra" nsplit glob) (n :: t) = None.
    Proof.
      intros Hside Hun Hc. assert (Hs : In side X4) by (destruct Hside as [-> | ->]; cbn; tauto).
      destruct (glob_lookup kw X4 (n :: t) split glob not_empty_X4 Hu) as [Hg Hgnd].
      destruct (glob_lookup kw X4 t split glob not_empty_X4 Hu) as [Hg2 _].
      assert (Hcn : ~ In "" ["contra"]) by (cbn; intuition discriminate).
      assert (Hlook : forall K, kw_get K kw = None -> kw_get (side :: "contra" :: K) kw = None ->
                kw_get K (kw_update (sub_kwargs "contra" nsplit) glob) = None).
      { intros K H1 H2.
        destruct (sub_kwargs_lookup (sub_kwargs side split) ["contra"] "contra" K nsplit ng Hcn Hun (or_introl eq_refl)) as [Hsub Hsnd].
        destruct (sub_kwargs_lookup kw X4 side ("contra" :: K) split glob not_empty_X4 Hu Hs) as [Hsub2 Hsnd2].
        rewrite kw_get_update, kw_get_rev_NoDup by exact Hsnd. rewrite Hsub, kw_last_NoDup by exact Hsnd2. rewrite Hsub2, klg, H2.
        destruct (glob_lookup kw X4 K split glob not_empty_X4 Hu) as [HgK _]. rewrite HgK, klg, H1.
        destruct (mem (head_of K) X4); reflexivity. }
      unfold u_lk, obj_kwargs. rewrite !kw_last_NoDup by (apply kw_update_NoDup, Hgnd).
      rewrite !Hlook; try reflexivity; apply Hc; cbn; tauto.
    Qed.
  End WithX4.

  Lemma n_lk_dist XDl dsplit dglob ikw ckw t k :
    In "ext" XDl -> (forall s, In s XDl -> In s ["ext"; "noext"; "central"; "unknown"]) ->
    unflatten_and_split kw XDl = (dsplit, dglob) -> side_kwargs (obj_kwargs "ext" dsplit dglob) = (ikw, ckw) ->
    (forall c, In c [["ext"; "ipsi"; t; k]; ["ipsi"; t; k]; ["ext"; t; k]; [t; k];
                     ["ext"; "ipsi"; k]; ["ipsi"; k]; ["ext"; k]; [k]] -> kw_get c kw = None) ->
    u_lk ikw [t; k] = None.
  Proof.
    intros Hext Hsub Hud Hsk Hc.
    assert (HeD : ~ In "" XDl) by (intros H; apply Hsub in H; cbn in H; intuition discriminate).
    set (ekw := obj_kwargs "ext" dsplit dglob) in *.
    assert (Hend : NoDup (map fst ekw)) by (apply (obj_kwargs_NoDup kw XDl); exact Hud).
    assert (Hekw : forall K, kw_last K ekw = eff XDl kw "ext" K)
      by (intros K; rewrite kw_last_NoDup by exact Hend; apply (obj_kwargs_lookup kw XDl "ext" K dsplit dglob HeD Hud Hext)).
    destruct (side_kwargs_lk ekw ikw ckw Hsk) as [Hlk _]. rewrite Hlk. unfold side_lk.
    rewrite !eff_none; try reflexivity; rewrite Hekw; apply eff_none; rewrite klg; apply Hc; cbn; tauto.
  Qed.
End KwNone.

(** * A parameter without keyword keeps its value (keyword-only call) *)
Lemma block_keep lk ps qs k old : all_unit (plan lk ps []) = Some qs -> In (k, old) ps -> lk k = None ->
  In (k, old) (combine (map fst ps) qs).
Proof.
  intros Hq Hin Hlk. apply all_unit_Some_vals in Hq. destruct Hq as [Hp _].
  destruct (plan_nil_In lk ps qs k old Hp Hin) as (q & Hq & Hv). rewrite Hlk in Hv. cbn in Hv. injection Hv as ->. exact Hq.
Qed.
Lemma dist_block_keep maxt ds lk (ps : list (path * Qc)) dsi k old :
  dists_put maxt ds (plan lk ps []) = Some dsi -> length ps = length (dists_items ds) -> map fst ps = map fst (dists_items ds) ->
  In (k, old) ps -> lk k = None -> In (k, old) (dists_items dsi).
Proof.
  intros Hdp Hlen Hkeys Hin Hlk.
  destruct (dists_put_spec _ _ _ _ Hdp) as (qD & HuD & HiD & _); [rewrite plan_length; exact Hlen|].
  apply unwrap_Some in HuD. rewrite HiD, <- Hkeys.
  destruct (plan_nil_In lk ps qD k old HuD Hin) as (q & Hq & Hv). rewrite Hlk in Hv. cbn in Hv. injection Hv as ->. exact Hq.
Qed.
Lemma dist_keys_after maxt ds new dsi : dists_put maxt ds new = Some dsi -> length new = length (dists_items ds) ->
  map fst (dists_items dsi) = map fst (dists_items ds).
Proof.
  intros Hdp Hl. destruct (dists_put_spec _ _ _ _ Hdp Hl) as (qD & HuD & HiD & _). rewrite HiD. apply map_fst_combine.
  rewrite map_length, (unwrap_length _ _ HuD). symmetry. exact Hl.
Qed.
Lemma in_pre_items_iff p (X : list (path * Qc)) K v : In (K, v) (pre p X) <-> exists k, K = p ++ k /\ In (k, v) X.
Proof.
  unfold pre, prefix. rewrite in_map_iff. split.
  - intros ([k x] & E & Hin). cbn [fst snd] in E. injection E as <- <-. exists k. split; [reflexivity | exact Hin].
  - intros (k & -> & Hin). exists (k, v). split; [reflexivity | exact Hin].
Qed.
Lemma in_items_key {A B} (l : list (A * B)) k v : In (k, v) l -> In k (map fst l).
Proof. intros H. apply in_map_iff. exists (k, v). split; [reflexivity | exact H]. Qed.
Lemma keys_combine_len (ps : list (path * Qc)) (qs : list Qc) : length qs = length ps -> map fst (combine (map fst ps) qs) = map fst ps.
Proof. intros H. apply map_fst_combine. rewrite map_length. symmetry. exact H. Qed.

Section Keep.
  Variables (m0 : midline) (kw : kwargs) (m' : midline) (r : args).
  Hypothesis Hok : mid_set_ok m0 = true.
  Hypothesis Hnd : NoDup (map fst kw).
  Hypothesis Hch : andthen (m_set_spread_params m0 [] kw) (fun m1 a1 => m_set_distribution_params m1 a1 kw) = (m', Some r).
  Hypothesis Hkeys : forall c, In c (map fst kw) -> nform m0 c.
  Hypothesis Hmk : In ["mixing"] (map fst kw) -> ~ In "mixing" (dkw m0).
  Let ei := ml_ei m0.
  Let ec := ml_ec m0.
  Let nc := ml_nc m0.
  Let Hok' : mid_names_ok m0 = true. Proof. unfold mid_set_ok in Hok. rewrite !andb_true_iff in Hok. apply Hok. Qed.
  Let Hei : u_names_ok ei = true. Proof. apply (m_ok_parts m0 Hok'). Qed.

  Lemma kw_absent K c : ~ In K (map fst kw) -> (In c (map fst kw) -> nform m0 c -> c = K) -> kw_get c kw = None.
  Proof. intros HK H. apply kw_get_In_None. intros Hin. apply HK. rewrite <- (H Hin (Hkeys c Hin)). exact Hin. Qed.

  Ltac cand_solve HK :=
    let c := fresh "c" in let Hc := fresh "Hc" in let Hcin := fresh "Hcin" in let Hf := fresh "Hf" in
    intros c Hc; apply (kw_absent _ c HK); intros Hcin Hf; cbn [In] in Hc;
    repeat (destruct Hc as [<-|Hc];
            [inversion Hf; subst; try reflexivity; try (nf_solve Hok'); try (exfalso; apply (Hmk Hcin); assumption) |]);
    destruct Hc.

  Lemma chain_kw_keep :
    mid_names_ok m' = true /\ ml_midext m' = ml_midext m0 /\
    map fst (mid_spread_items m' ++ u_dist_items (ml_ei m')) = map fst (mid_spread_items m0 ++ u_dist_items ei) /\
    (forall K old, ~ In K (map fst kw) -> In (K, old) (mid_spread_items m0 ++ u_dist_items ei) -> In (K, old) (mid_items m')).
  Proof.
    destruct (m_ok_parts m0 Hok') as (_ & Hec & Hnc & _ & _ & _ & _ & HbsymL).
    pose proof (keys_T_nc m0 Hok') as KTnc. pose proof (keys_T_ec m0 Hok') as KTec. pose proof (keys_L_ec m0 Hok') as KLec.
    fold ei ec nc in KTnc, KTec, KLec.
    assert (HTi : forall k, In k (map fst (u_tumor_items ei)) -> exists n s, k = [n; s] /\ TNp ei n /\ kind s) by apply T_key.
    assert (HTn : forall k, In k (map fst (u_tumor_items nc)) -> exists n s, k = [n; s] /\ TNp ei n /\ kind s).
    { intros k Hk. destruct (T_key _ _ Hk) as (n & s & -> & Hn & Hs). exists n, s. repeat split; [apply (TNp_nc m0 Hok'), Hn | exact Hs]. }
    assert (HTe : forall k, In k (map fst (u_tumor_items ec)) -> exists n s, k = [n; s] /\ TNp ei n /\ kind s).
    { intros k Hk. destruct (T_key _ _ Hk) as (n & s & -> & Hn & Hs). exists n, s. repeat split; [apply (TNp_ec m0 n Hok'), Hn | exact Hs]. }
    assert (HLi : forall k, In k (map fst (u_lnl_items ei)) -> exists n s, k = [n; s] /\ LNp ei n /\ kind s) by apply L_key.
    assert (HLe : forall k, In k (map fst (u_lnl_items ec)) -> exists n s, k = [n; s] /\ LNp ei n /\ kind s).
    { intros k Hk. destruct (L_key _ _ Hk) as (n & s & -> & Hn & Hs). exists n, s. repeat split; [apply (LNp_ec m0 Hok'), Hn | exact Hs]. }
    assert (HDk : forall k, In k (map fst (u_dist_items ei)) -> exists t s, k = [t; s] /\ TS ei t /\ In s (dkw m0)) by apply D_key.
    (* the distribution block, common to all settings *)
    assert (HD : forall m2 dsplit dglob ikw ckw dsi K old,
               unflatten_and_split kw (XD m2) = (dsplit, dglob) -> side_kwargs (obj_kwargs "ext" dsplit dglob) = (ikw, ckw) ->
               dists_put (u_maxt ei) (u_dists ei) (plan (u_lk ikw) (u_dist_items ei) []) = Some dsi ->
               ~ In K (map fst kw) -> In (K, old) (u_dist_items ei) -> In (K, old) (dists_items dsi)).
    { intros m2 dsplit dglob ikw ckw dsi K old HuD Hsk Hdp HK Hin.
      apply (dist_block_keep _ _ _ _ _ K old Hdp); [reflexivity | reflexivity | exact Hin|].
      destruct (HDk K (in_items_key _ _ _ Hin)) as (t & s & -> & Ht & Hs). destruct (XD_props m2) as [Hx1 Hx2].
      apply (n_lk_dist kw Hnd (XD m2) dsplit dglob ikw ckw t s Hx1 Hx2 HuD Hsk). cand_solve HK. }
    destruct (ml_mixing m0) as [cur|] eqn:Emix.
    - (* with mixing *)
      destruct (m_chain_inv_mix m0 [] kw m' r cur Hok Emix Hch)
        as (split & glob & qI & qC & mix & qE & qLi & qLe & qLn & m2 & dsplit & dglob & ikw & ckw & dsi & Hc).
      cbv zeta in Hc. fold ei ec nc in Hc. assert (Hif : forall b : bool, (if b then @nil val else []) = []) by (intros []; reflexivity).
      rewrite ?skipn_nil', ?Hif, ?skipn_nil' in Hc. clear Hif.
      destruct Hc as (Hu & HqI & HqC & Hmx & HqLi & HqLe & HqLn & HuD & Hsk & Hdp & Hei' & (dsc & Hec' & Hecok) & (dsn & Hnc' & Hncok) & Hmix' & Hd' & Hs' & Hb').
      assert (Hnames' : mid_names_ok m' = true).
      { apply (mid_names_ok_final m0 m' qI qLi dsi qE qLe dsc qC qLn dsn _ Hok Hei' Hec' Hnc' Hecok Hncok Hdp); [apply plan_length | exact Hs' | exact Hb']. }
      split; [exact Hnames'|]. split; [exact Hd'|].
      destruct (leaf_after_items ei qI qLi dsi) as (I1 & I2 & I3); [apply (plan_lengths _ _ _ _ HqI) | apply (plan_lengths _ _ _ _ HqLi)|].
      destruct (leaf_after_items nc qC qLn dsn) as (N1 & _ & _); [apply (plan_lengths _ _ _ _ HqC) | apply (plan_lengths _ _ _ _ HqLn)|].
      pose proof (leaf_after_lnl ec qE qLe dsc (plan_lengths _ _ _ _ HqLe)) as E2.
      fold (leaf_after ei qI qLi dsi) in Hei'. fold (leaf_after nc qC qLn dsn) in Hnc'. fold (leaf_after ec qE qLe dsc) in Hec'.
      pose proof (dist_keys_after _ _ _ _ Hdp (plan_length _ _ _)) as KD.
      unfold mid_items, mid_spread_items. rewrite Hmix', Hs', Emix. unfold m_mixing_item, m_midext_item. rewrite Hmix', Emix.
      fold ei ec nc. rewrite Hei', Hnc', Hec', I1, I2, I3, N1, E2.
      destruct (ml_symL m0) eqn:EsymL.
      + split.
        { rewrite !map_app, !pre_keys, KD, !keys_combine_len by (eapply plan_lengths; eassumption). reflexivity. }
        intros K old HK. rewrite ?in_app_iff, ?in_pre_items_iff. cbn [In].
        intros [[(k & -> & Hk)|[(k & -> & Hk)|[[E|[]]|Hk]]]|Hk].
        * left. exists k. split; [reflexivity|]. destruct (HTi k (in_items_key _ _ _ Hk)) as (n & s & -> & Hn & Hs).
          apply (block_keep _ _ _ _ _ HqI Hk). apply (n_lk_side kw Hnd split glob Hu "ipsi" n [s]); [cbn; tauto|]. cand_solve HK.
        * right. left. exists k. split; [reflexivity|]. destruct (HTn k (in_items_key _ _ _ Hk)) as (n & s & -> & Hn & Hs).
          apply (block_keep _ _ _ _ _ HqC Hk). apply (n_lk_side kw Hnd split glob Hu "contra" n [s]); [cbn; tauto|]. cand_solve HK.
        * right. right. left. left. injection E as <- <-.
          rewrite (n_lk_mixing kw Hnd split glob Hu) in Hmx by (apply kw_get_In_None, HK).
          cbn [hd_error val_or] in Hmx. apply check_unit_Some in Hmx. destruct Hmx as [[= ->] _]. reflexivity.
        * right. right. right. left. destruct (HLi K (in_items_key _ _ _ Hk)) as (n & s & -> & Hn & Hs).
          apply (block_keep _ _ _ _ _ HqLi Hk). apply (n_lk_glob kw Hnd split glob Hu n [s]). cand_solve HK.
        * right. right. right. right. left. apply (HD m2 dsplit dglob ikw ckw dsi K old HuD Hsk Hdp HK Hk).
      + split.
        { rewrite ?pre_app, !map_app, !pre_keys, KD, !keys_combine_len by (eapply plan_lengths; eassumption). reflexivity. }
        intros K old HK. rewrite ?pre_app, ?in_app_iff, ?in_pre_items_iff. cbn [In].
        intros [[[(k & -> & Hk)|(k & -> & Hk)]|[[(k & -> & Hk)|(k & -> & Hk)]|[E|[]]]]|Hk].
        * left. left. exists k. split; [reflexivity|]. destruct (HTi k (in_items_key _ _ _ Hk)) as (n & s & -> & Hn & Hs).
          apply (block_keep _ _ _ _ _ HqI Hk). apply (n_lk_side kw Hnd split glob Hu "ipsi" n [s]); [cbn; tauto|]. cand_solve HK.
        * left. right. exists k. split; [reflexivity|]. destruct (HLi k (in_items_key _ _ _ Hk)) as (n & s & -> & Hn & Hs).
          apply (block_keep _ _ _ _ _ HqLi Hk). apply (n_lk_side kw Hnd split glob Hu "ipsi" n [s]); [cbn; tauto|]. cand_solve HK.
        * right. left. left. exists k. split; [reflexivity|]. destruct (HTn k (in_items_key _ _ _ Hk)) as (n & s & -> & Hn & Hs).
          apply (block_keep _ _ _ _ _ HqC Hk). apply (n_lk_side kw Hnd split glob Hu "contra" n [s]); [cbn; tauto|]. cand_solve HK.
        * right. left. right. exists k. split; [reflexivity|]. destruct (HLe k (in_items_key _ _ _ Hk)) as (n & s & -> & Hn & Hs).
          apply (block_keep _ _ _ _ _ HqLe Hk). apply (n_lk_side kw Hnd split glob Hu "contra" n [s]); [cbn; tauto|]. cand_solve HK.
        * right. right. left. left. injection E as <- <-.
          rewrite (n_lk_mixing kw Hnd split glob Hu) in Hmx by (apply kw_get_In_None, HK).
          cbn [hd_error val_or] in Hmx. apply check_unit_Some in Hmx. destruct Hmx as [[= ->] _]. reflexivity.
        * right. right. right. left. apply (HD m2 dsplit dglob ikw ckw dsi K old HuD Hsk Hdp HK Hk).
    - (* without mixing *)
      destruct (m_chain_inv_nomix m0 [] kw m' r Hok Emix Hch)
        as (split & glob & nsplit & esplit & ng & eg & qI & qC & qE & qLi & qLe & qLn & m2 & dsplit & dglob & ikw & ckw & dsi & Hc).
      cbv zeta in Hc. fold ei ec nc in Hc.
      assert (Hif : forall b : bool, (if b then @nil val else []) = []) by (intros []; reflexivity).
      rewrite ?skipn_nil', ?Hif, ?skipn_nil' in Hc. clear Hif.
      destruct Hc as (Hu & Hun & Hue & HqI & HqC & HqE & HqLi & HqLe & HqLn & HuD & Hsk & Hdp & Hei' & (dsc & Hec' & Hecok) & (dsn & Hnc' & Hncok) & Hmix' & Hd' & Hs' & Hb').
      assert (Hnames' : mid_names_ok m' = true).
      { apply (mid_names_ok_final m0 m' qI qLi dsi qE qLe dsc qC qLn dsn _ Hok Hei' Hec' Hnc' Hecok Hncok Hdp); [apply plan_length | exact Hs' | exact Hb']. }
      split; [exact Hnames'|]. split; [exact Hd'|].
      destruct (leaf_after_items ei qI qLi dsi) as (I1 & I2 & I3); [apply (plan_lengths _ _ _ _ HqI) | apply (plan_lengths _ _ _ _ HqLi)|].
      destruct (leaf_after_items nc qC qLn dsn) as (N1 & _ & _); [apply (plan_lengths _ _ _ _ HqC) | apply (plan_lengths _ _ _ _ HqLn)|].
      destruct (leaf_after_items ec qE qLe dsc) as (E1 & E2 & _); [apply (plan_lengths _ _ _ _ HqE) | apply (plan_lengths _ _ _ _ HqLe)|].
      fold (leaf_after ei qI qLi dsi) in Hei'. fold (leaf_after nc qC qLn dsn) in Hnc'. fold (leaf_after ec qE qLe dsc) in Hec'.
      pose proof (dist_keys_after _ _ _ _ Hdp (plan_length _ _ _)) as KD.
      unfold mid_items, mid_spread_items. rewrite Hmix', Hs', Emix. unfold m_midext_item.
      fold ei ec nc. rewrite Hei', Hnc', Hec', I1, I2, I3, N1, E1, E2.
      destruct (ml_symL m0) eqn:EsymL.
      + split.
        { rewrite !map_app, !pre_keys, KD, !keys_combine_len by (eapply plan_lengths; eassumption). reflexivity. }
        intros K old HK. rewrite ?in_app_iff, ?in_pre_items_iff. cbn [In].
        intros [[(k & -> & Hk)|[(k & -> & Hk)|[(k & -> & Hk)|Hk]]]|Hk].
        * left. exists k. split; [reflexivity|]. destruct (HTi k (in_items_key _ _ _ Hk)) as (n & s & -> & Hn & Hs).
          apply (block_keep _ _ _ _ _ HqI Hk). apply (n_lk_side kw Hnd split glob Hu "ipsi" n [s]); [cbn; tauto|]. cand_solve HK.
        * right. left. exists k. split; [reflexivity|]. destruct (HTn k (in_items_key _ _ _ Hk)) as (n & s & -> & Hn & Hs).
          apply (block_keep _ _ _ _ _ HqC Hk). apply (n_lk_nested kw Hnd split glob Hu "noext" nsplit ng n [s]); [tauto | exact Hun|]. cand_solve HK.
        * right. right. left. exists k. split; [reflexivity|]. destruct (HTe k (in_items_key _ _ _ Hk)) as (n & s & -> & Hn & Hs).
          apply (block_keep _ _ _ _ _ HqE Hk). apply (n_lk_nested kw Hnd split glob Hu "ext" esplit eg n [s]); [tauto | exact Hue|]. cand_solve HK.
        * right. right. right. left. destruct (HLi K (in_items_key _ _ _ Hk)) as (n & s & -> & Hn & Hs).
          apply (block_keep _ _ _ _ _ HqLi Hk). apply (n_lk_glob kw Hnd split glob Hu n [s]). cand_solve HK.
        * right. right. right. right. left. apply (HD m2 dsplit dglob ikw ckw dsi K old HuD Hsk Hdp HK Hk).
      + split.
        { rewrite ?pre_app, !map_app, !pre_keys, KD, !keys_combine_len by (eapply plan_lengths; eassumption). reflexivity. }
        intros K old HK. rewrite ?pre_app, ?in_app_iff, ?in_pre_items_iff. cbn [In].
        intros [[[(k & -> & Hk)|(k & -> & Hk)]|[(k & -> & Hk)|[(k & -> & Hk)|(k & -> & Hk)]]]|Hk].
        * left. left. exists k. split; [reflexivity|]. destruct (HTi k (in_items_key _ _ _ Hk)) as (n & s & -> & Hn & Hs).
          apply (block_keep _ _ _ _ _ HqI Hk). apply (n_lk_side kw Hnd split glob Hu "ipsi" n [s]); [cbn; tauto|]. cand_solve HK.
        * left. right. exists k. split; [reflexivity|]. destruct (HLi k (in_items_key _ _ _ Hk)) as (n & s & -> & Hn & Hs).
          apply (block_keep _ _ _ _ _ HqLi Hk). apply (n_lk_side kw Hnd split glob Hu "ipsi" n [s]); [cbn; tauto|]. cand_solve HK.
        * right. left. exists k. split; [reflexivity|]. destruct (HTn k (in_items_key _ _ _ Hk)) as (n & s & -> & Hn & Hs).
          apply (block_keep _ _ _ _ _ HqC Hk). apply (n_lk_nested kw Hnd split glob Hu "noext" nsplit ng n [s]); [tauto | exact Hun|]. cand_solve HK.
        * right. right. left. exists k. split; [reflexivity|]. destruct (HTe k (in_items_key _ _ _ Hk)) as (n & s & -> & Hn & Hs).
          apply (block_keep _ _ _ _ _ HqE Hk). apply (n_lk_nested kw Hnd split glob Hu "ext" esplit eg n [s]); [tauto | exact Hue|]. cand_solve HK.
        * right. right. right. left. exists k. split; [reflexivity|]. destruct (HLe k (in_items_key _ _ _ Hk)) as (n & s & -> & Hn & Hs).
          apply (block_keep _ _ _ _ _ HqLe Hk). apply (n_lk_side kw Hnd split glob Hu "contra" n [s]); [cbn; tauto|]. cand_solve HK.
        * right. right. right. right. left. apply (HD m2 dsplit dglob ikw ckw dsi K old HuD Hsk Hdp HK Hk).
  Qed.
End Keep.

(** [nform] depends on the model only through ext.ipsi, the LNL flag and the presence of mixing *)
Lemma nform_ext m1 m2 c : ml_ei m1 = ml_ei m2 -> ml_symL m1 = ml_symL m2 -> ml_mixing m1 = ml_mixing m2 ->
  nform m1 c -> nform m2 c.
Proof.
  intros He Hs Hm H. destruct H; unfold dkw in *; rewrite ?He, ?Hs, ?Hm in *;
    [ apply NF_ipsiT | apply NF_ipsiL | apply NF_contraT | apply NF_contraL | apply NF_mixing | apply NF_noext | apply NF_ext
    | apply NF_lnl | apply NF_dist | apply NF_midext ]; assumption.
Qed.

(** a literal keyword reads its value afterwards (instance of keyword-over-positional; the
    child-prefixed distribution keywords are no reported names) *)
Lemma lit_dist_name_plain m kw K : mid_names_ok m = true -> NoDup (map fst kw) ->
  (forall c, In c (map fst kw) -> nform m c) -> In K (map fst (u_dist_items (ml_ei m))) -> dist_name_plain kw K.
Proof.
  intros Hok' Hnd Hkeys HD. destruct (D_key _ _ HD) as (t & k & -> & Ht & Hk).
  assert (Hno : forall c, (nform m c -> False) -> kw_last c kw = None).
  { intros c Hc. rewrite (kw_last_NoDup _ _ Hnd). apply kw_get_In_None. intros Hin. apply Hc, Hkeys, Hin. }
  repeat split; apply Hno; intros Hf; inversion Hf; subst; nf_solve Hok'.
Qed.
Lemma mid_kw_value m kw K q : mid_set_ok m = true -> NoDup (map fst kw) ->
  (forall c, In c (map fst kw) -> In c (map fst (mid_items m))) -> kw_get K kw = Some (V q) ->
  let r := m_set_params m [] kw in snd r <> None -> option_map (kw_get K) (m_got (fst r)) = Some (Some q).
Proof.
  intros Hok Hnd Hsub Hkw.
  assert (Hok' : mid_names_ok m = true) by (unfold mid_set_ok in Hok; rewrite !andb_true_iff in Hok; apply Hok).
  assert (HKin : In K (map fst kw)) by (apply in_items_key with (v := V q), kw_get_Some_In, Hkw).
  apply (mid_keyword_over_positional m [] kw K q Hok Hnd (Hsub K HKin) Hkw).
  apply lit_dist_name_plain; [exact Hok' | exact Hnd|]. intros c Hc. apply (mid_nform m c Hok'), Hsub, Hc.
Qed.

(** * Keyword-only [Midline.set_params] with literal parameter names: complete description
      of what [get_params] reports afterwards *)
Lemma mid_kw_only m kw m' r : mid_set_ok m = true -> NoDup (map fst kw) ->
  (forall c, In c (map fst kw) -> In c (map fst (mid_items m))) ->
  (In ["mixing"] (map fst kw) -> ~ In "mixing" (dkw m)) ->
  m_set_params m [] kw = (m', Some r) ->
  mid_names_ok m' = true /\ map fst (mid_items m') = map fst (mid_items m) /\
  (forall K q, kw_get K kw = Some (V q) -> kw_get K (mid_items m') = Some q) /\
  (forall K old, In (K, old) (mid_items m) -> ~ In K (map fst kw) -> kw_get K (mid_items m') = Some old).
Proof.
  intros Hok Hnd Hsub Hmk Hset.
  assert (Hok' : mid_names_ok m = true) by (unfold mid_set_ok in Hok; rewrite !andb_true_iff in Hok; apply Hok).
  assert (Hkeys : forall c, In c (map fst kw) -> nform m c) by (intros c Hc; apply (mid_nform m c Hok'), Hsub, Hc).
  (* values of the keywords: keyword over positional *)
  assert (Hvals : forall m1, mid_names_ok m1 = true -> m_set_params m [] kw = (m1, Some r) ->
                   forall K q, kw_get K kw = Some (V q) -> kw_get K (mid_items m1) = Some q).
  { intros m1 Hn1 Hset1 K q Hkw. pose proof (mid_kw_value m kw K q Hok Hnd Hsub Hkw) as Hv. cbv zeta in Hv.
    rewrite Hset1 in Hv. cbn [fst snd] in Hv. specialize (Hv ltac:(discriminate)).
    rewrite (m_got_spec m1 Hn1) in Hv. cbn [option_map] in Hv. injection Hv as Hv. exact Hv. }
  rewrite (m_set_params_unfold m [] kw Hok') in Hset.
  rewrite popat_nil in Hset by (rewrite mid_items_split, !app_length; cbn [m_midext_item length]; lia).
  cbv beta iota zeta in Hset.
  set (mp := match kw_get ["midext"; "prob"] kw with Some v => Some v | None => None end) in *.
  assert (H0 : exists m0, match mp with None => Some m | Some v => option_map (ml_with_midext m) (check_unit v) end = Some m0
                          /\ mid_set_ok m0 = true /\ ml_ei m0 = ml_ei m /\ mid_spread_items m0 = mid_spread_items m
                          /\ ml_symL m0 = ml_symL m /\ ml_mixing m0 = ml_mixing m
                          /\ (kw_get ["midext"; "prob"] kw = None -> ml_midext m0 = ml_midext m)).
  { destruct mp as [vm|] eqn:Emp.
    - destruct (check_unit vm) as [x|] eqn:Ex; [|discriminate Hset]. exists (ml_with_midext m x).
      split; [reflexivity|]. split; [exact Hok|]. repeat split.
      intros Hn. unfold mp in Emp. rewrite Hn in Emp. discriminate.
    - exists m. repeat split. exact Hok. }
  destruct H0 as (m0 & E0 & Hok0 & Hei0 & Hsp0 & Hs0 & Hm0 & Hme0). rewrite E0 in Hset. cbn [app] in Hset.
  assert (Hkeys0 : forall c, In c (map fst kw) -> nform m0 c).
  { intros c Hc. apply (nform_ext m m0); [symmetry; exact Hei0 | symmetry; exact Hs0 | symmetry; exact Hm0 | apply Hkeys, Hc]. }
  assert (Hmk0 : In ["mixing"] (map fst kw) -> ~ In "mixing" (dkw m0)) by (unfold dkw; rewrite Hei0; exact Hmk).
  destruct (chain_kw_keep m0 kw m' r Hok0 Hnd Hset Hkeys0 Hmk0) as (Hn' & Hd' & Hk' & Hkeep).
  rewrite Hsp0, Hei0 in Hk', Hkeep.
  split; [exact Hn'|]. split.
  { rewrite !mid_items_split, !app_assoc. rewrite (map_app fst (mid_spread_items m' ++ _)), (map_app fst (mid_spread_items m ++ _)), Hk'. reflexivity. }
  split.
  { apply (Hvals m' Hn'). rewrite (m_set_params_unfold m [] kw Hok').
    rewrite popat_nil by (rewrite mid_items_split, !app_length; cbn [m_midext_item length]; lia).
    cbv beta iota zeta. fold mp. rewrite E0. exact Hset. }
  intros K old Hin HK. apply kw_get_NoDup_In; [apply mid_items_NoDup, Hn'|].
  rewrite mid_items_split, app_assoc, in_app_iff in Hin. destruct Hin as [Hin|Hin].
  - apply Hkeep; assumption.
  - cbn in Hin. destruct Hin as [E|[]]. injection E as <- <-.
    rewrite mid_items_split, !in_app_iff. right. right. left. unfold m_midext_item.
    rewrite Hd', Hme0; [reflexivity|]. apply kw_get_In_None, HK.
Qed.

(** * Statements *)
(** the one hypothesis beyond well-formedness: if "mixing" is declared, no distribution
    keyword is itself called "mixing" (otherwise the global keyword "mixing" also reaches the
    distribution parameter "t_mixing": see [C17_midline_mixing_keyword_refuted_stmt]) *)
Definition mixing_kw_ok (ml : midline) (named : list path) : Prop :=
  In ["mixing"] named -> ~ In "mixing" (dist_kw_names (u_dists (ml_ei ml))).

(** Midline analogue of [C17_literal_subset_roundtrip_stmt] (all four use_mixing x LNL
    symmetry settings, with or without central / unknown models, every graph, NO hypothesis
    on the current values or on the synchronisation of the sub-models).  [covered m] is
    replaced by [mid_set_ok ml] (the C10 well-formedness of the four leaves of ext / noext;
    implied by [Safe.m_names_ok], true of every constructed object); added: [mixing_kw_ok]. *)
Definition C17_midline_literal_subset_roundtrip_stmt : Prop :=
  forall ml named qs s' its,
    mid_set_ok ml = true -> param_items (MMid ml) = Some its -> NoDup named -> incl named (map fst its) ->
    length qs = length named -> mixing_kw_ok ml named ->
    set_named_params (mk_nstate (MMid ml) (Some named)) (vals qs) [] = (s', inr tt) ->
    get_named_params s' = inr (combine named qs) /\ get_num_dims s' = inr (length named) /\
    exists its', param_items (ns_model s') = Some its' /\ map fst its' = map fst its /\
      (forall n q, In (n, q) (combine named qs) -> kw_get n its' = Some q) /\
      (forall k old, In (k, old) its -> ~ In k named -> kw_get k its' = Some old).

(** the four hypotheses of the general C17 theorems hold for a literal subset
    ([names_consistent] is about [cands], which is not defined for Midline) *)
Definition C17_midline_literal_subset_hyps_stmt : Prop :=
  forall ml named, mid_names_ok ml = true -> incl named (map fst (mid_items ml)) -> mixing_kw_ok ml named ->
    (forall n p, In n named -> In p (map fst (mid_items ml)) -> does_contain_in_order p n = true -> p = n)
    /\ no_ties (map fst (mid_items ml)) named = true
    /\ each_owns (map fst (mid_items ml)) named = true /\ each_matches (map fst (mid_items ml)) named = true.

(** instance of the class-generic [C17_extra_keyword_raises_stmt] *)
Definition C17_midline_extra_keyword_raises_stmt : Prop :=
  forall ml np a kw k, mid_names_ok ml = true -> In k (map fst kw) ->
    ~ In k (match np with Some l => l | None => map fst (mid_items ml) end) ->
    let s := mk_nstate (MMid ml) np in
    set_named_params s a kw = (s, inl ExtraParamsError)
    /\ safe_set_params s (GDict kw) = (s, inl ExtraParamsError)
    /\ likelihood_outcome s (GDict kw) = (s, Raised ExtraParamsError)
    /\ Raised ExtraParamsError <> MinusInf.

(** Midline analogue of [Safe.C12_{uni,bi}_named_subset_scored_stmt], in the vocabulary of
    Safe.v ([m_names_ok], [m_names]) *)
Definition C12_midline_named_subset_scored_stmt : Prop :=
  forall R (lik : model -> R) m names v g, m_names_ok m = true -> NoDup names -> incl names (m_names m) ->
    length v = length names -> both_forms names (vals v) g ->
    let r := likelihood_given R lik (Some names) (MMid m) g in
    snd r = LMinusInf \/
    (snd r = LVal (lik (fst r)) /\
     forall k q, In (k, q) (combine names v) -> option_map (kw_get k) (param_items (fst r)) = Some (Some q)).
(** ... and, when scored, every parameter outside the declared names is scored at its
    previous value *)
Definition C12_midline_named_subset_untouched_stmt : Prop :=
  forall R (lik : model -> R) m names v g, m_names_ok m = true -> NoDup names -> incl names (m_names m) ->
    length v = length names -> both_forms names (vals v) g -> mixing_kw_ok m names ->
    let r := likelihood_given R lik (Some names) (MMid m) g in
    snd r = LVal (lik (fst r)) ->
    option_map (map fst) (param_items (fst r)) = Some (m_names m) /\
    forall k old, In (k, old) (m_items m) -> ~ In k names -> option_map (kw_get k) (param_items (fst r)) = Some (Some old).

(** * Proofs *)
Lemma combine_vals_get (named : list path) qs n q : NoDup named -> In (n, q) (combine named qs) ->
  kw_get n (combine named (vals qs)) = Some (V q).
Proof. intros Hnd Hin. apply kw_get_NoDup_In; [apply combine_keys_NoDup, Hnd | apply in_combine_vals, Hin]. Qed.
Lemma combine_vals_keys (named : list path) qs : length qs = length named -> map fst (combine named (vals qs)) = named.
Proof. intros H. apply map_fst_combine. rewrite vals_length. symmetry. exact H. Qed.

Theorem midline_literal_subset_hyps : C17_midline_literal_subset_hyps_stmt.
Proof.
  intros ml named Hok Hincl Hmk.
  assert (Hlit : forall n p, In n named -> In p (map fst (mid_items ml)) -> does_contain_in_order p n = true -> p = n).
  { intros n p Hn Hp Hd. symmetry. apply (nform_lit ml n p Hok).
    - intros ->. apply Hmk, Hn.
    - apply (mid_nform ml n Hok), Hincl, Hn.
    - apply (mid_nform ml p Hok), Hp.
    - apply does_contain_in_order_spec, Hd. }
  split; [exact Hlit|]. repeat split.
  - unfold no_ties. apply forallb_forall. intros k Hk. apply forallb_forall. intros n1 H1. apply forallb_forall. intros n2 H2.
    destruct (does_contain_in_order k n1) eqn:E1; [|reflexivity]. destruct (does_contain_in_order k n2) eqn:E2; [|reflexivity].
    rewrite <- (Hlit n1 k H1 Hk E1), <- (Hlit n2 k H2 Hk E2), path_eqb_refl. apply Bool.implb_true_r.
  - unfold each_owns. apply forallb_forall. intros n Hn. apply existsb_exists. exists n. split; [apply Hincl, Hn|].
    rewrite dcio_refl. cbn [andb]. apply forallb_forall. intros n' Hn'.
    destruct (does_contain_in_order n n') eqn:E; [|reflexivity].
    rewrite (Hlit n' n Hn' (Hincl _ Hn) E). cbn [implb]. apply Nat.leb_refl.
  - unfold each_matches. apply forallb_forall. intros n Hn. apply existsb_exists. exists n. split; [apply Hincl, Hn | apply dcio_refl].
Qed.

Theorem midline_literal_subset_roundtrip : C17_midline_literal_subset_roundtrip_stmt.
Proof.
  intros ml named qs s' its Hok Hits Hnd Hincl Hlen Hmk H.
  assert (Hok' : mid_names_ok ml = true) by (unfold mid_set_ok in Hok; rewrite !andb_true_iff in Hok; apply Hok).
  assert (Eits : its = mid_items ml) by (rewrite (mid_param_items ml Hok') in Hits; injection Hits as <-; reflexivity). subst its.
  destruct (set_named_inv (MMid ml) named (vals qs) [] s' _ Hits H) as (_ & m1 & rest & Hset & ->).
  assert (Ekw : named_kwargs named (vals qs) [] = combine named (vals qs)).
  { unfold named_kwargs. cbn [kw_update fold_left]. apply dict_of_NoDup_id, combine_keys_NoDup, Hnd. }
  rewrite Ekw in Hset. cbn [set_params] in Hset. destruct (m_set_params ml [] (combine named (vals qs))) as [ml' o] eqn:Eset.
  injection Hset as <- ->.
  assert (Hkeys : map fst (combine named (vals qs)) = named) by (apply combine_vals_keys, Hlen).
  destruct (mid_kw_only ml (combine named (vals qs)) ml' rest Hok) as (Hn' & Hk' & Hval & Hkeep); try exact Eset.
  { rewrite Hkeys. exact Hnd. }
  { rewrite Hkeys. exact Hincl. }
  { rewrite Hkeys. exact Hmk. }
  rewrite Hkeys in Hkeep.
  assert (Hvals : forall n q, In (n, q) (combine named qs) -> kw_get n (mid_items ml') = Some q)
    by (intros n q Hin; apply Hval, combine_vals_get; assumption).
  cbn [ns_model mk_nstate].
  assert (Hget : get_named_params (mk_nstate (MMid ml') (Some named)) = inr (combine named qs)).
  { unfold get_named_params, named_params. cbn [ns_model ns_named mk_nstate].
    rewrite (mid_param_items ml' Hn'), (param_names_items _ _ (mid_param_items ml' Hn')). f_equal.
    apply lit_get_named_items; try assumption.
    - apply mid_items_NoDup, Hn'.
    - rewrite Hk'. exact Hincl.
    - rewrite Hk'. apply (midline_literal_subset_hyps ml named Hok' Hincl Hmk). }
  split; [exact Hget|]. split.
  { unfold get_num_dims. rewrite Hget, combine_length, Hlen, Nat.min_id. reflexivity. }
  exists (mid_items ml'). split; [apply mid_param_items, Hn'|]. split; [exact Hk'|]. split; [exact Hvals | exact Hkeep].
Qed.

Theorem midline_extra_keyword_raises : C17_midline_extra_keyword_raises_stmt.
Proof.
  intros ml np a kw k Hok Hin Hni s.
  apply (extra_keyword_raises s a kw (match np with Some l => l | None => map fst (mid_items ml) end) k); [|exact Hin | exact Hni].
  unfold named_params, s. cbn [ns_model ns_named mk_nstate]. rewrite (param_names_items _ _ (mid_param_items ml Hok)). reflexivity.
Qed.

(** C12: both forms of a proposal for the declared names are the same keyword-only call *)
Lemma path_mem_In k l : In k l -> path_mem k l = true.
Proof. intros H. apply (proj2 (memp_In k l)), H. Qed.
Lemma mid_named_given R (lik : model -> R) m names v g : mid_names_ok m = true -> NoDup names ->
  length v = length names -> both_forms names (vals v) g ->
  likelihood_given R lik (Some names) (MMid m) g =
  (MMid (fst (m_set_params m [] (combine names (vals v)))),
   match snd (m_set_params m [] (combine names (vals v))) with
   | Some _ => LVal (lik (MMid (fst (m_set_params m [] (combine names (vals v))))))
   | None => LMinusInf
   end).
Proof.
  intros Hok Hnd Hlen Hg.
  assert (Hkeys : map fst (combine names (vals v)) = names) by (apply combine_vals_keys, Hlen).
  assert (Hset : forall a kw, forallb (fun k => path_mem k names) (map fst kw) = true ->
            kw_update kw (dict_of (combine names a)) = combine names (vals v) ->
            Safe.set_named_params (Some names) (MMid m) a kw =
            (MMid (fst (m_set_params m [] (combine names (vals v)))),
             match snd (m_set_params m [] (combine names (vals v))) with Some _ => SetOk | None => SetValueError end)).
  { intros a kw Hf Hk. unfold Safe.set_named_params, Safe.named_params.
    rewrite (param_names_items _ _ (mid_param_items m Hok)), Hf, Hk. cbn [set_params].
    destruct (m_set_params m [] (combine names (vals v))) as [m' [r|]]; reflexivity. }
  unfold likelihood_given, Safe.safe_set_params. destruct Hg as [-> | ->].
  - rewrite (Hset (vals v) []); [|reflexivity|].
    + destruct (snd (m_set_params m [] (combine names (vals v)))); reflexivity.
    + cbn [kw_update fold_left]. apply dict_of_NoDup_id, combine_keys_NoDup, Hnd.
  - rewrite (Hset [] (combine names (vals v))).
    + destruct (snd (m_set_params m [] (combine names (vals v)))); reflexivity.
    + rewrite Hkeys. apply forallb_forall. intros k Hk. apply path_mem_In, Hk.
    + replace (combine names (@nil val)) with (@nil (path * val)) by (destruct names; reflexivity).
      change (kw_update (combine names (vals v)) (dict_of [])) with (dict_of (combine names (vals v))).
      apply dict_of_NoDup_id. rewrite Hkeys. exact Hnd.
Qed.

Theorem midline_named_subset_scored : C12_midline_named_subset_scored_stmt.
Proof.
  intros R lik m names v g Hsafe Hnd Hincl Hlen Hg r. subst r.
  pose proof (safe_set_ok_mid m Hsafe) as Hok. pose proof (safe_names_ok_mid m Hsafe) as Hok'.
  unfold m_names in Hincl. rewrite safe_items_mid in Hincl.
  rewrite (mid_named_given R lik m names v g Hok' Hnd Hlen Hg). cbn [fst snd].
  destruct (snd (m_set_params m [] (combine names (vals v)))) as [rest|] eqn:Eo; [right | left; reflexivity].
  split; [reflexivity|]. intros k q Hin.
  apply (mid_kw_value m (combine names (vals v)) k q Hok).
  - rewrite combine_vals_keys by exact Hlen. exact Hnd.
  - rewrite combine_vals_keys by exact Hlen. exact Hincl.
  - apply combine_vals_get; assumption.
  - rewrite Eo. discriminate.
Qed.

Theorem midline_named_subset_untouched : C12_midline_named_subset_untouched_stmt.
Proof.
  intros R lik m names v g Hsafe Hnd Hincl Hlen Hg Hmk r. subst r.
  pose proof (safe_set_ok_mid m Hsafe) as Hok. pose proof (safe_names_ok_mid m Hsafe) as Hok'.
  unfold m_names in *. rewrite safe_items_mid in *.
  rewrite (mid_named_given R lik m names v g Hok' Hnd Hlen Hg). cbn [fst snd].
  destruct (m_set_params m [] (combine names (vals v))) as [m' [rest|]] eqn:Eset; cbn [fst snd]; [|discriminate]. intros _.
  assert (Hkeys : map fst (combine names (vals v)) = names) by (apply combine_vals_keys, Hlen).
  destruct (mid_kw_only m (combine names (vals v)) m' rest Hok) as (Hn' & Hk' & _ & Hkeep); try exact Eset.
  { rewrite Hkeys. exact Hnd. }
  { rewrite Hkeys. exact Hincl. }
  { rewrite Hkeys. exact Hmk. }
  rewrite Hkeys in Hkeep. rewrite (mid_param_items m' Hn'). cbn [option_map]. split; [rewrite Hk'; reflexivity|].
  intros k old Hin Hni. rewrite (Hkeep k old Hin Hni). reflexivity.
Qed.

(** * [mixing_kw_ok] is needed: a distribution keyword called "mixing" *)
(** observation: in a Midline with the mixing parameter whose "late" distribution has a
    keyword "mixing", the declared name "mixing" also sets "late_mixing" (the keyword
    travels to every distribution as a global name), although that parameter is not declared *)
Definition C17_midline_mixing_keyword_refuted_stmt : Prop :=
  exists (ml : midline) (named : list path) (qs : list Qc) (k : path),
    m_names_ok ml = true /\ NoDup named /\ length qs = length named /\ ~ In k named /\
    option_map (fun ns => forallb (fun n => memp n ns) named) (param_names (MMid ml)) = Some true /\
    ~ mixing_kw_ok ml named /\
    let r := set_named_params (mk_nstate (MMid ml) (Some named)) (vals qs) [] in
    snd r = inr tt /\
    option_map (fun l => option_map qout (kw_get k l)) (param_items (MMid ml)) = Some (Some (1, 3)%Z) /\
    option_map (fun l => option_map qout (kw_get k l)) (param_items (ns_model (fst r))) = Some (Some (1, 4)%Z).

Definition C17_mix_g : graph := force_graph (build_graph 2 [ (("tumor", "T"), CList ["II"]); (("lnl", "II"), CList []) ]).
Definition C17_mix_mid : midline :=
  new_midline (new_uni C17_mix_g [("late", Param 0 [("mixing", qc 1 3)])] 3) true false false false true.
Theorem midline_mixing_keyword_refuted : C17_midline_mixing_keyword_refuted_stmt.
Proof.
  exists C17_mix_mid, [["mixing"]], [qc 1 4], ["late"; "mixing"].
  split; [vm_compute; reflexivity|]. split; [repeat constructor; intros []|]. split; [reflexivity|].
  split; [intros [H|[]]; discriminate H|]. split; [vm_compute; reflexivity|].
  split; [intros H; apply H; [left; reflexivity | vm_compute; left; reflexivity]|].
  cbv zeta. split; [vm_compute; reflexivity|]. split; vm_compute; reflexivity.
Qed.

(** * Acceptable literal-subset proposals are accepted (forward direction) *)
(** ** keyword dicts derived from the call's keywords: every binding comes from a keyword
       whose name is the key prefixed by routing words *)
Definition routing : list string := ["ipsi"; "contra"; "noext"; "ext"; "central"; "unknown"].
Definition Fr (kw kw' : kwargs) : Prop :=
  NoDup (map fst kw') /\
  forall K v, kw_get K kw' = Some v -> exists P, Forall (fun w => In w routing) P /\ kw_get (P ++ K) kw = Some v.

Lemma Fr_refl kw : NoDup (map fst kw) -> Fr kw kw.
Proof. intros H. split; [exact H|]. intros K v Hv. exists []. split; [constructor | exact Hv]. Qed.
Lemma Fr_step kw kw' name K v : Fr kw kw' -> In name routing -> kw_get (name :: K) kw' = Some v ->
  exists P, Forall (fun w => In w routing) P /\ kw_get (P ++ K) kw = Some v.
Proof.
  intros [_ H] Hn Hv. destruct (H _ _ Hv) as (P & HP & Hk). exists (P ++ [name]). split.
  - apply Forall_app. split; [exact HP | constructor; [exact Hn | constructor]].
  - rewrite <- app_assoc. exact Hk.
Qed.
Lemma Fr_obj kw kw' X name split glob : Fr kw kw' -> ~ In "" X -> In name X -> In name routing ->
  unflatten_and_split kw' X = (split, glob) -> Fr kw (obj_kwargs name split glob).
Proof.
  intros HF He Hin Hr Hu. split; [apply (obj_kwargs_NoDup kw' X); exact Hu|]. intros K v Hv.
  rewrite (obj_kwargs_lookup kw' X name K split glob He Hu Hin) in Hv. unfold eff in Hv.
  rewrite !(kw_last_NoDup _ _ (proj1 HF)) in Hv. destruct (kw_get (name :: K) kw') as [w|] eqn:E.
  - injection Hv as <-. apply (Fr_step kw kw' name K w HF Hr E).
  - destruct (mem (head_of K) X); [discriminate|]. apply (proj2 HF), Hv.
Qed.
Lemma Fr_glob kw kw' X split glob : Fr kw kw' -> ~ In "" X -> unflatten_and_split kw' X = (split, glob) -> Fr kw glob.
Proof.
  intros HF He Hu. split; [apply (glob_lookup kw' X [] split glob He Hu)|]. intros K v Hv.
  destruct (glob_lookup kw' X K split glob He Hu) as [Hg _]. rewrite Hg in Hv. destruct (mem (head_of K) X); [discriminate|].
  rewrite (kw_last_NoDup _ _ (proj1 HF)) in Hv. apply (proj2 HF), Hv.
Qed.
Lemma Fr_side kw kw' ikw ckw : Fr kw kw' -> side_kwargs kw' = (ikw, ckw) -> Fr kw ikw /\ Fr kw ckw.
Proof.
  intros HF Hs. unfold side_kwargs in Hs. destruct (unflatten_and_split kw' ["ipsi"; "contra"]) as [split glob] eqn:Hu.
  injection Hs as <- <-. split; apply (Fr_obj kw kw' ["ipsi"; "contra"] _ split glob HF not_empty_in_sides); try exact Hu; cbn; tauto.
Qed.
Lemma Fr_nested kw side split glob nsplit ng : NoDup (map fst kw) -> (side = "noext" \/ side = "ext") ->
  unflatten_and_split kw X4 = (split, glob) -> unflatten_and_split (sub_kwargs side split) ["contra"] = (nsplit, ng) ->
  Fr kw (obj_kwargs "contra" nsplit glob).
Proof.
  intros Hnd Hside Hu Hun. assert (Hs : In side X4) by (destruct Hside as [-> | ->]; cbn; tauto).
  destruct (glob_lookup kw X4 [] split glob not_empty_X4 Hu) as [_ Hgnd].
  assert (Hcn : ~ In "" ["contra"]) by (cbn; intuition discriminate).
  split; [apply kw_update_NoDup, Hgnd|]. intros K v Hv. unfold obj_kwargs in Hv.
  destruct (sub_kwargs_lookup (sub_kwargs side split) ["contra"] "contra" K nsplit ng Hcn Hun (or_introl eq_refl)) as [Hsub Hsnd].
  destruct (sub_kwargs_lookup kw X4 side ("contra" :: K) split glob not_empty_X4 Hu Hs) as [Hsub2 Hsnd2].
  rewrite kw_get_update, kw_get_rev_NoDup in Hv by exact Hsnd. rewrite Hsub, kw_last_NoDup in Hv by exact Hsnd2.
  rewrite Hsub2, (kw_last_NoDup _ _ Hnd) in Hv.
  destruct (kw_get (side :: "contra" :: K) kw) as [w|] eqn:E.
  - injection Hv as <-. exists [side; "contra"]. split; [|exact E].
    constructor; [destruct Hside as [-> | ->]; cbn; tauto | constructor; [cbn; tauto | constructor]].
  - destruct (glob_lookup kw X4 K split glob not_empty_X4 Hu) as [Hg _]. rewrite Hg in Hv. destruct (mem (head_of K) X4); [discriminate|].
    rewrite (kw_last_NoDup _ _ Hnd) in Hv. exists []. split; [constructor | exact Hv].
Qed.

Lemma routing_reserved w : In w routing -> In w reserved.
Proof. unfold routing. cbn. intuition. Qed.
Lemma app_eq_two1 {A} (P : list A) x a b : P ++ [x] = [a; b] -> P = [a] /\ x = b.
Proof.
  destruct P as [|p1 [|p2 P]]; cbn; intros E; try discriminate.
  - injection E as -> ->. auto.
  - injection E as _ _ E. destruct P; discriminate.
Qed.
Lemma app_eq_two2 {A} (P : list A) x y a b : P ++ [x; y] = [a; b] -> P = [] /\ x = a /\ y = b.
Proof.
  destruct P as [|p1 P]; cbn; intros E.
  - injection E as -> ->. auto.
  - injection E as _ E. destruct P as [|p2 P]; [discriminate|]. injection E as _ E. destruct P; discriminate.
Qed.

(** every value a plan of spread parameters can take passes the range check *)
Lemma all_unit_plan_ok lk (ps : list (path * Qc)) :
  (forall k old, In (k, old) ps -> in_unit old = true /\ forall v, lk k = Some v -> exists q, v = V q /\ in_unit q = true) ->
  exists qs, all_unit (plan lk ps []) = Some qs /\ forallb in_unit qs = true.
Proof.
  induction ps as [|[k old] r IH]; intros H; [exists []; split; reflexivity|].
  destruct IH as (qs & Hq & Hu); [intros k' old' Hin; apply H; right; exact Hin|].
  destruct (H k old (or_introl eq_refl)) as [Ho Hv]. cbn [plan hd_error tl all_unit]. rewrite Hq.
  destruct (lk k) as [v|] eqn:E.
  - destruct (Hv v eq_refl) as (q & -> & Hqu). cbn [pick check_unit]. rewrite Hqu. exists (q :: qs). split; [reflexivity|]. cbn [forallb]. rewrite Hqu, Hu. reflexivity.
  - cbn [pick val_or check_unit]. rewrite Ho. exists (old :: qs). split; [reflexivity|]. cbn [forallb]. rewrite Ho, Hu. reflexivity.
Qed.

Section Forward.
  Variables (ml : midline) (kw : kwargs).
  Hypothesis Hsafe : m_names_ok ml = true.
  Hypothesis Hnd : NoDup (map fst kw).
  Hypothesis Hkeys : forall c, In c (map fst kw) -> nform ml c.
  Hypothesis Hmk : In ["mixing"] (map fst kw) -> ~ In "mixing" (dkw ml).
  Hypothesis Hunit : forall c v, In (c, v) kw -> ~ In c (map fst (u_dist_items (ml_ei ml))) -> exists q, v = V q /\ in_unit q = true.
  Let ei := ml_ei ml.
  Let Hok' : mid_names_ok ml = true := safe_names_ok_mid ml Hsafe.
  Let Hei : u_names_ok ei = true. Proof. apply (m_ok_parts ml Hok'). Qed.

  Lemma spread_hit kwL n s v : Fr kw kwL -> EN ei n -> u_lk kwL [n; s] = Some v -> exists q, v = V q /\ in_unit q = true.
  Proof.
    intros HF Hn Hv. unfold u_lk in Hv. rewrite !(kw_last_NoDup _ _ (proj1 HF)) in Hv.
    assert (Hhit : forall K, (K = [n; s] \/ K = [s]) -> kw_get K kwL = Some v -> exists q, v = V q /\ in_unit q = true).
    { intros K HK Hg. destruct (proj2 HF K v Hg) as (P & HP & Hk). apply (Hunit (P ++ K) v (kw_get_Some_In _ _ _ Hk)).
      intros HD. destruct (D_key _ _ HD) as (t & k' & E & Ht & _). destruct HK as [-> | ->].
      - apply app_eq_two2 in E. destruct E as (_ & -> & _). exact (EN_TS_disj ei Hei _ Hn Ht).
      - apply app_eq_two1 in E. destruct E as (-> & _). inversion HP as [|? ? Hr _]; subst.
        exact (in_reserved_not_tstage ei t Hei (routing_reserved _ Hr) Ht). }
    destruct (kw_get [n; s] kwL) as [w|] eqn:E1.
    - injection Hv as <-. apply (Hhit [n; s]); [left; reflexivity | exact E1].
    - apply (Hhit [s]); [right; reflexivity | exact Hv].
  Qed.

  Definition like (u : uni) : Prop := SafeMidline.like_ei ml u.
  Definition evalid (u : uni) : Prop := forallb edge_vals_ok (u_edges u) = true.
  Definition ud (u : uni) : nat * list (string * dist) := (u_maxt u, u_dists u).

  Lemma sel_keys_form sel u k : (sel = T \/ sel = L) -> like u -> In k (map fst (u_sel_items sel u)) -> exists n s, k = [n; s] /\ EN ei n.
  Proof.
    intros Hsel (_ & HT & HL & _) Hk. destruct Hsel as [-> | ->].
    - change (u_sel_items T u) with (u_tumor_items u) in Hk. rewrite HT in Hk. apply (SafeMidline.TK_form ml k Hk).
    - change (u_sel_items L u) with (u_lnl_items u) in Hk. rewrite HL in Hk. apply (SafeMidline.LK_form ml k Hk).
  Qed.

  Lemma spread_plan_ok sel u kwL : (sel = T \/ sel = L) -> Fr kw kwL -> like u -> evalid u ->
    exists qs, all_unit (plan (u_lk kwL) (u_sel_items sel u) []) = Some qs /\ forallb in_unit qs = true.
  Proof.
    intros Hsel HF Hl Hv. apply all_unit_plan_ok. intros k old Hin. split.
    - pose proof (sel_params_vals_unit (u_tri u) sel (u_edges u) Hv) as Hall. rewrite forallb_forall in Hall.
      apply Hall. apply in_map_iff. exists (k, old). split; [reflexivity | exact Hin].
    - intros v Hlk. destruct (sel_keys_form sel u k Hsel Hl (in_items_key _ _ _ Hin)) as (n & s & -> & Hn).
      apply (spread_hit kwL n s v HF Hn Hlk).
  Qed.
  Lemma evalid_put sel u qs : evalid u -> forallb in_unit qs = true -> evalid (u_put_sel sel u qs).
  Proof. intros Hv Hu. unfold evalid, u_put_sel, u_edges. cbn [u_with_graph u_graph with_edges g_edges]. apply edges_put_vals_ok; assumption. Qed.

  Lemma leaf_spread_ok sel u kwL : (sel = T \/ sel = L) -> Fr kw kwL -> like u -> evalid u ->
    exists qs, lift_graph u (graph_set_params_sel sel (u_graph u) [] kwL) = (u_put_sel sel u qs, Some [])
               /\ forallb in_unit qs = true /\ length qs = length (u_sel_items sel u)
               /\ like (u_put_sel sel u qs) /\ evalid (u_put_sel sel u qs) /\ ud (u_put_sel sel u qs) = ud u.
  Proof.
    intros Hsel HF Hl Hv.
    destruct (spread_plan_ok sel u kwL Hsel HF Hl Hv) as (qs & Hq & Hu).
    exists qs. pose proof (leaf_step_ok sel u [] kwL qs (proj1 Hl) Hq) as Hs. rewrite skipn_nil' in Hs.
    split; [exact Hs|]. split; [exact Hu|]. split; [apply (plan_lengths _ _ _ _ Hq)|]. split; [|split; [|reflexivity]].
    - apply (SafeMidline.like_ei_sk ml _ u Hl). pose proof (SafeProofs.sk_uni_graph_set sel u [] kwL) as Hsk. rewrite Hs in Hsk. exact Hsk.
    - apply evalid_put; assumption.
  Qed.

  (** ** the state between the steps *)
  Definition St (mk : midline) : Prop := sk_mid mk = sk_mid ml.
  Definition Inv (mk : midline) : Prop := forall l u, ml_leaf mk l = Some u -> like u /\ evalid u.
  Definition Fd (mk : midline) : Prop :=
    (forall l, option_map ud (ml_leaf mk l) = option_map ud (ml_leaf ml l)) /\ ml_unknown mk = ml_unknown ml.

  Lemma St_names mk : St mk -> m_names_ok mk = true.
  Proof. intros H. apply (SafeMidline.m_names_ok_sk mk ml H Hsafe). Qed.
  Lemma Inv_with_leaf mk l u' : Inv mk -> ml_leaf mk l <> None -> like u' -> evalid u' -> Inv (ml_with_leaf mk l u').
  Proof.
    intros HI Hl Hlk Hev l' u Hu. destruct (leaf_id_dec l l') as [<-|Hne].
    - rewrite (ml_leaf_with_same mk l u' Hl) in Hu. injection Hu as <-. split; assumption.
    - rewrite (ml_leaf_with_other mk l l' u' Hne) in Hu. apply (HI l' u Hu).
  Qed.
  Lemma Fd_with_leaf mk l u u' : Fd mk -> ml_leaf mk l = Some u -> ud u' = ud u -> Fd (ml_with_leaf mk l u').
  Proof.
    intros [HF Hk] Hl Hud. split.
    - intros l'. destruct (leaf_id_dec l l') as [<-|Hne].
      + rewrite (ml_leaf_with_same mk l u') by congruence. rewrite <- HF, Hl. cbn [option_map]. rewrite Hud. reflexivity.
      + rewrite (ml_leaf_with_other mk l l' u' Hne). apply HF.
    - destruct (ml_with_leaf_frame mk l u') as (_ & _ & _ & Hu & _). rewrite Hu. exact Hk.
  Qed.
  Lemma Inv_mixing mk q : Inv mk -> Inv (ml_with_mixing mk q).
  Proof. intros H l u Hu. apply (H l u). destruct l; exact Hu. Qed.
  Lemma Fd_mixing mk q : Fd mk -> Fd (ml_with_mixing mk q).
  Proof. intros [H Hk]. split; [|exact Hk]. intros l. rewrite <- H. destruct l; reflexivity. Qed.

  (** one leaf step inside the composite: success and the invariants of the new state *)
  Lemma leaf_step sel mk l u kwL : (sel = T \/ sel = L) -> Fr kw kwL -> Inv mk -> Fd mk -> ml_leaf mk l = Some u ->
    exists qs, lift_graph u (graph_set_params_sel sel (u_graph u) [] kwL) = (u_put_sel sel u qs, Some [])
               /\ forallb in_unit qs = true /\ length qs = length (u_sel_items sel u)
               /\ Inv (ml_with_leaf mk l (u_put_sel sel u qs)) /\ Fd (ml_with_leaf mk l (u_put_sel sel u qs)).
  Proof.
    intros Hsel HF HI HFd Hl. destruct (HI l u Hl) as [Hlk Hev].
    destruct (leaf_spread_ok sel u kwL Hsel HF Hlk Hev) as (qs & Hs & Hu & Hlen & Hlk' & Hev' & Hud).
    exists qs. split; [exact Hs|]. split; [exact Hu|]. split; [exact Hlen|]. split.
    - apply Inv_with_leaf; [exact HI | congruence | exact Hlk' | exact Hev'].
    - apply (Fd_with_leaf mk l u); assumption.
  Qed.

  (** ** tumour spread *)
  Lemma central_T_ok mk ikw : St mk -> Inv mk -> Fd mk -> Fr kw ikw ->
    exists m1, (match ml_central mk with
                | None => (mk, true)
                | Some c => let '(c', ok) := ok_of (b_set_tumor_spread_params c [] ikw) in (ml_with_central mk c', ok)
                end) = (m1, true)
               /\ Inv m1 /\ Fd m1 /\ ml_ext m1 = ml_ext mk /\ ml_noext m1 = ml_noext mk /\ ml_mixing m1 = ml_mixing mk.
  Proof.
    intros HS HI HFd HF. destruct (ml_central mk) as [c|] eqn:Ec; [|exists mk; split; [reflexivity|]; split; [exact HI|]; split; [exact HFd|]; repeat split].
    pose proof (St_names mk HS) as Hn.
    destruct (SafeMidline.m_ok_bi mk c Hn (SafeMidline.m_ok_central mk c Ec)) as (Hbc & _).
    destruct (SafeMidline.m_ok_flags mk Hn) as (_ & _ & Hcen). pose proof (Hcen c Ec) as HcT.
    assert (Hli : ml_leaf mk LCentralIpsi = Some (b_ipsi c)) by (cbn [ml_leaf]; rewrite Ec; reflexivity).
    assert (Hlc : ml_leaf mk LCentralContra = Some (b_contra c)) by (cbn [ml_leaf]; rewrite Ec; reflexivity).
    destruct (HI _ _ Hli) as [Hlki Hevi]. destruct (HI _ _ Hlc) as [Hlkc Hevc].
    destruct (side_kwargs ikw) as [ikw' ckw'] eqn:Hsk. destruct (side_kwargs_lk ikw ikw' ckw' Hsk) as [Hlk _].
    destruct (Fr_side kw ikw ikw' ckw' HF Hsk) as [HFi _].
    destruct (spread_plan_ok T (b_ipsi c) ikw' (or_introl eq_refl) HFi Hlki Hevi) as (qs & Hq & Hu).
    pose proof (b_side_spec T true c [] ikw kind_sel_tumor Hbc) as Hs. unfold side_plan, side_result, side_len in Hs.
    rewrite app_nil_r in Hs. rewrite (plan_ext (side_lk "ipsi" ikw) (u_lk ikw')) in Hs by (intros k _; symmetry; apply Hlk).
    rewrite Hq in Hs. rewrite <- (plan_lengths _ _ _ _ Hq), firstn_all in Hs.
    unfold b_set_tumor_spread_params. rewrite HcT. change is_tumor_spread with T.
    pose proof (SafeProofs.sk_bi_set_side T true c [] ikw) as Hsk'. rewrite Hs in Hsk' |- *. cbn [fst snd ok_of] in Hsk' |- *.
    set (c' := b_with c (u_put_sel T (b_ipsi c) qs) (u_put_sel T (b_contra c) qs)) in *.
    assert (Hski : sk_uni (b_ipsi c') = sk_uni (b_ipsi c)) by (apply (f_equal b_ipsi) in Hsk'; exact Hsk').
    assert (Hskc : sk_uni (b_contra c') = sk_uni (b_contra c)) by (apply (f_equal b_contra) in Hsk'; exact Hsk').
    exists (ml_with_central mk c'). split; [reflexivity|]. split; [|split; [|repeat split]].
    - intros l u Hl. destruct l; [ | | exact (HI LExtIpsi u Hl) | exact (HI LExtContra u Hl) | exact (HI LNoextIpsi u Hl) | exact (HI LNoextContra u Hl)]; cbn in Hl; injection Hl as <-.
      + split; [apply (SafeMidline.like_ei_sk ml _ _ Hlki Hski) | apply evalid_put; assumption].
      + split; [apply (SafeMidline.like_ei_sk ml _ _ Hlkc Hskc) | apply evalid_put; assumption].
    - destruct HFd as [HFl Hk]. split; [|exact Hk]. intros l. rewrite <- HFl. destruct l; cbn; rewrite ?Ec; reflexivity.
  Qed.

  Definition mixvalid (mk : midline) : Prop := forall cur, ml_mixing mk = Some cur -> in_unit cur = true.

  Lemma top_hit P K v : Forall (fun w => In w routing) P -> (K = ["mixing"] \/ K = ["midext"; "prob"]) -> kw_get (P ++ K) kw = Some v ->
    exists q, v = V q /\ in_unit q = true.
  Proof.
    intros HP HK Hk. apply (Hunit (P ++ K) v (kw_get_Some_In _ _ _ Hk)).
    intros HD. destruct (D_key _ _ HD) as (t & k' & E & Ht & _). destruct HK as [-> | ->].
    - apply app_eq_two1 in E. destruct E as (-> & _). inversion HP as [|? ? Hr _]; subst.
      exact (in_reserved_not_tstage ei t Hei (routing_reserved _ Hr) Ht).
    - apply app_eq_two2 in E. destruct E as (_ & <- & _). apply (in_reserved_not_tstage ei "midext" Hei); [cbn; tauto | exact Ht].
  Qed.

  Lemma tumor_ok mk : St mk -> Inv mk -> Fd mk -> mixvalid mk ->
    exists mk', m_set_tumor_spread_params mk [] kw = (mk', Some []) /\ Inv mk' /\ Fd mk'.
  Proof.
    intros HS HI HFd Hmv. unfold m_set_tumor_spread_params. change ["ipsi"; "noext"; "ext"; "contra"] with X4.
    destruct (unflatten_and_split kw X4) as [split glob] eqn:Hu.
    set (ikw := obj_kwargs "ipsi" split glob).
    assert (HF0 : Fr kw kw) by (apply Fr_refl, Hnd).
    assert (HFi : Fr kw ikw) by (apply (Fr_obj kw kw X4 "ipsi" split glob HF0 not_empty_X4); [cbn; tauto | cbn; tauto | exact Hu]).
    destruct (central_T_ok mk ikw HS HI HFd HFi) as (m1 & E1 & HI1 & HF1 & Hx1 & Hn1 & Hm1). rewrite E1. cbn [negb].
    unfold u_set_tumor_spread_params, ok_of.
    (* ext.ipsi *)
    destruct (leaf_step T m1 LExtIpsi (b_ipsi (ml_ext m1)) ikw (or_introl eq_refl) HFi HI1 HF1 eq_refl) as (q2 & Hs2 & Hu2 & Hl2 & HI2 & HF2).
    change is_tumor_spread with T. rewrite Hs2. cbn [fst snd negb].
    change (ml_with_ext m1 (b_with_ipsi (ml_ext m1) (u_put_sel T (b_ipsi (ml_ext m1)) q2)))
      with (ml_with_leaf m1 LExtIpsi (u_put_sel T (b_ipsi (ml_ext m1)) q2)).
    set (m2 := ml_with_leaf m1 LExtIpsi (u_put_sel T (b_ipsi (ml_ext m1)) q2)) in *.
    (* noext.ipsi *)
    destruct (leaf_step T m2 LNoextIpsi (b_ipsi (ml_noext m2)) ikw (or_introl eq_refl) HFi HI2 HF2 eq_refl) as (q3 & Hs3 & Hu3 & Hl3 & HI3 & HF3).
    rewrite Hs3. cbv beta iota.
    change (ml_with_noext m2 (b_with_ipsi (ml_noext m2) (u_put_sel T (b_ipsi (ml_noext m2)) q3)))
      with (ml_with_leaf m2 LNoextIpsi (u_put_sel T (b_ipsi (ml_noext m2)) q3)).
    set (m3 := ml_with_leaf m2 LNoextIpsi (u_put_sel T (b_ipsi (ml_noext m2)) q3)) in *.
    assert (Hmix3 : ml_mixing m3 = ml_mixing mk) by (rewrite <- Hm1; reflexivity).
    destruct (ml_mixing m3) as [cur|] eqn:Emix.
    - (* with mixing *)
      set (ckw := obj_kwargs "contra" split glob).
      assert (HFc : Fr kw ckw) by (apply (Fr_obj kw kw X4 "contra" split glob HF0 not_empty_X4); [cbn; tauto | cbn; tauto | exact Hu]).
      destruct (leaf_step T m3 LNoextContra (b_contra (ml_noext m3)) ckw (or_introl eq_refl) HFc HI3 HF3 eq_refl) as (q4 & Hs4 & Hu4 & Hl4 & HI4 & HF4).
      rewrite Hs4. cbv beta iota.
      change (ml_with_noext m3 (b_with_contra (ml_noext m3) (u_put_sel T (b_contra (ml_noext m3)) q4)))
        with (ml_with_leaf m3 LNoextContra (u_put_sel T (b_contra (ml_noext m3)) q4)).
      set (m4 := ml_with_leaf m3 LNoextContra (u_put_sel T (b_contra (ml_noext m3)) q4)) in *.
      rewrite popfirst_eq. cbn [hd_error tl val_or]. cbv beta iota.
      assert (Hmp : exists mix, check_unit (match kw_get ["mixing"] glob with Some v => v | None => V cur end) = Some mix /\ in_unit mix = true).
      { destruct (kw_get ["mixing"] glob) as [v|] eqn:Eg.
        - destruct (proj2 (Fr_glob kw kw X4 split glob HF0 not_empty_X4 Hu) _ _ Eg) as (P & HP & Hk).
          destruct (top_hit P ["mixing"] v HP (or_introl eq_refl) Hk) as (q & -> & Hq). exists q. cbn [check_unit]. rewrite Hq. auto.
        - exists cur. assert (Hc : in_unit cur = true) by (apply Hmv; rewrite <- Hmix3; reflexivity).
          cbn [check_unit]. rewrite Hc. auto. }
      destruct Hmp as (mix & Emp & Hmixu). rewrite Emp.
      set (m5 := ml_with_mixing m4 mix).
      destruct (HI1 LExtIpsi _ eq_refl) as [Hlk_ei Hev_ei]. destruct (HI3 LNoextContra _ eq_refl) as [Hlk_nc Hev_nc].
      destruct (HI4 LExtContra _ eq_refl) as [Hlk_ec Hev_ec].
      change (mixed_kwargs mix m5) with
        (map (fun p : (path * Qc) * Qc => (fst (fst p), V (mix * snd (fst p) + (1 - mix) * snd p)%Qc))
           (combine (items (u_get_tumor_spread_params (u_put_sel T (b_ipsi (ml_ext m1)) q2) true))
                    (map snd (items (u_get_tumor_spread_params (u_put_sel T (b_contra (ml_noext m3)) q4) true))))).
      assert (HlT : forall u, like u -> length (u_sel_items T u) = length (SafeMidline.TK ml)).
      { intros u (_ & HT & _). change (u_sel_items T u) with (u_tumor_items u). rewrite <- HT, map_length. reflexivity. }
      pose proof (SafeMidline.step_mixed (SafeMidline.TK ml) (b_ipsi (ml_ext m1)) (b_contra (ml_noext m3)) (b_contra (ml_ext m5)) mix q2 q4
                    (proj1 Hlk_ei) (proj1 Hlk_nc) (proj1 Hlk_ec) (proj1 (proj2 Hlk_ei)) (proj1 (proj2 Hlk_nc)) (proj1 (proj2 Hlk_ec))) as Hs6.
      rewrite Hl2, (HlT _ Hlk_ei) in Hs6. rewrite Hl4, (HlT _ Hlk_nc) in Hs6.
      specialize (Hs6 eq_refl eq_refl Hmixu Hu2 Hu4). unfold T. rewrite Hs6. cbn [fst snd].
      set (ec' := u_put_sel is_tumor_spread (b_contra (ml_ext m5)) (SafeMidline.mixed mix q2 q4)) in *.
      exists (ml_with_leaf m5 LExtContra ec'). split; [reflexivity|]. split.
      + apply (Inv_with_leaf m5 LExtContra ec'); [apply Inv_mixing, HI4 | discriminate | | ].
        * apply (SafeMidline.like_ei_sk ml _ _ Hlk_ec). match type of Hs6 with lift_graph ?u (graph_set_params_sel ?sel _ ?a ?k) = _ => pose proof (SafeProofs.sk_uni_graph_set sel u a k) as Hsk end.
          rewrite Hs6 in Hsk. exact Hsk.
        * apply evalid_put; [exact Hev_ec | apply SafeMidline.mixed_unit; assumption].
      + apply (Fd_with_leaf m5 LExtContra (b_contra (ml_ext m5)) ec'); [apply Fd_mixing, HF4 | reflexivity | reflexivity].
    - (* without mixing *)
      destruct (unflatten_and_split (sub_kwargs "noext" split) ["contra"]) as [nsplit g1] eqn:Hu1.
      set (nkw := obj_kwargs "contra" nsplit glob).
      assert (HFn : Fr kw nkw) by (apply (Fr_nested kw "noext" split glob nsplit g1 Hnd); [tauto | exact Hu | exact Hu1]).
      destruct (leaf_step T m3 LNoextContra (b_contra (ml_noext m3)) nkw (or_introl eq_refl) HFn HI3 HF3 eq_refl) as (q4 & Hs4 & Hu4 & Hl4 & HI4 & HF4).
      rewrite Hs4. cbv beta iota.
      change (ml_with_noext m3 (b_with_contra (ml_noext m3) (u_put_sel T (b_contra (ml_noext m3)) q4)))
        with (ml_with_leaf m3 LNoextContra (u_put_sel T (b_contra (ml_noext m3)) q4)).
      set (m4 := ml_with_leaf m3 LNoextContra (u_put_sel T (b_contra (ml_noext m3)) q4)) in *.
      destruct (unflatten_and_split (sub_kwargs "ext" split) ["contra"]) as [esplit g2] eqn:Hu2'.
      set (ekw := obj_kwargs "contra" esplit glob).
      assert (HFe : Fr kw ekw) by (apply (Fr_nested kw "ext" split glob esplit g2 Hnd); [tauto | exact Hu | exact Hu2']).
      destruct (leaf_step T m4 LExtContra (b_contra (ml_ext m4)) ekw (or_introl eq_refl) HFe HI4 HF4 eq_refl) as (q5 & Hs5 & Hu5 & Hl5 & HI5 & HF5).
      rewrite Hs5.
      exists (ml_with_leaf m4 LExtContra (u_put_sel T (b_contra (ml_ext m4)) q5)). split; [reflexivity|]. split; assumption.
  Qed.

  (** ** LNL spread *)
  Lemma lnl_block_ok ls : forall mk kwL, Fr kw kwL -> Inv mk -> Fd mk ->
    exists mk', m_set_lnl_block mk ls [] kwL = (mk', Some []) /\ Inv mk' /\ Fd mk'.
  Proof.
    induction ls as [|l r IH]; intros mk kwL HF HI HFd; [exists mk; split; [reflexivity|]; split; assumption|].
    cbn [m_set_lnl_block]. destruct (ml_leaf mk l) as [u|] eqn:El; [|apply IH; assumption].
    destruct (leaf_step L mk l u kwL (or_intror eq_refl) HF HI HFd El) as (qs & Hs & _ & _ & HI' & HF').
    unfold u_set_lnl_spread_params. change sel_lnl with L. rewrite Hs.
    destruct r as [|l2 r2]; [eexists; split; [reflexivity|]; split; assumption|].
    apply IH; assumption.
  Qed.
  Lemma lnl_ok mk : Inv mk -> Fd mk -> exists mk', m_set_lnl_spread_params mk [] kw = (mk', Some []) /\ Inv mk' /\ Fd mk'.
  Proof.
    intros HI HFd. unfold m_set_lnl_spread_params. change ["ipsi"; "noext"; "ext"; "contra"] with X4.
    destruct (unflatten_and_split kw X4) as [split glob] eqn:Hu.
    assert (HF0 : Fr kw kw) by (apply Fr_refl, Hnd).
    destruct (ml_symL mk).
    - apply lnl_block_ok; [apply (Fr_glob kw kw X4 split glob HF0 not_empty_X4 Hu) | exact HI | exact HFd].
    - destruct (lnl_block_ok [LCentralIpsi; LExtIpsi; LNoextIpsi] mk (obj_kwargs "ipsi" split glob)) as (m1 & E1 & HI1 & HF1); try assumption.
      { apply (Fr_obj kw kw X4 "ipsi" split glob HF0 not_empty_X4); [cbn; tauto | cbn; tauto | exact Hu]. }
      rewrite E1. cbn [andthen]. apply lnl_block_ok; try assumption.
      apply (Fr_obj kw kw X4 "contra" split glob HF0 not_empty_X4); [cbn; tauto | cbn; tauto | exact Hu].
  Qed.

  (** ** distributions: the keyword for a distribution name reaches every leaf unchanged, and
         nothing else does *)
  Definition dkey (K : path) : Prop := In K (map fst (u_dist_items ei)).
  Definition Tp (kw' : kwargs) : Prop := forall K, dkey K -> kw_get K kw' = kw_get K kw.
  Definition dplan (u : uni) : list val := plan (fun K => kw_get K kw) (u_dist_items u) [].
  Definition dhyp (u : uni) : Prop := dists_put (u_maxt u) (u_dists u) (dplan u) <> None.

  Lemma app_eq_len {A} (P Q S S' : list A) : length S = length S' -> P ++ S = Q ++ S' -> P = Q /\ S = S'.
  Proof.
    revert Q. induction P as [|p P IH]; intros [|q Q] Hl E; cbn in E.
    - auto.
    - exfalso. subst S. cbn in Hl. rewrite app_length in Hl. lia.
    - exfalso. subst S'. cbn in Hl. rewrite app_length in Hl. lia.
    - injection E as -> E. destruct (IH Q Hl E) as [-> ->]. auto.
  Qed.

  Lemma nform_tail3 c P name t k : nform ml c -> c = P ++ [name; t; k] -> TS ei t -> False.
  Proof.
    intros Hf E Ht.
    destruct Hf;
      try (apply (f_equal (@length _)) in E; rewrite app_length in E; cbn in E; lia);
      try (match type of E with [?a; ?b; ?c] = _ => change [a; b; c] with ([] ++ [a; b; c]) in E end;
           apply eq_sym, app_eq_len in E; [|reflexivity]; destruct E as [_ E]; injection E as _ <- _);
      try (match type of E with [?w; ?a; ?b; ?c] = _ => change [w; a; b; c] with ([w] ++ [a; b; c]) in E end;
           apply eq_sym, app_eq_len in E; [|reflexivity]; destruct E as [_ E]; injection E as _ <- _);
      nf_solve Hok'.
  Qed.
  Lemma nform_tail1 c P k : nform ml c -> c = P ++ [k] -> Forall (fun w => In w routing) P -> c <> ["mixing"] -> False.
  Proof.
    intros Hf E HP Hnm.
    assert (Hr : forall w, In w P -> In w reserved) by (intros w Hw; rewrite Forall_forall in HP; apply routing_reserved, HP, Hw).
    destruct Hf; try (apply Hnm; reflexivity);
      try (match type of E with [?a; ?b; ?c] = _ => change [a; b; c] with ([a; b] ++ [c]) in E end);
      try (match type of E with [?w; ?a; ?b; ?c] = _ => change [w; a; b; c] with ([w; a; b] ++ [c]) in E end);
      try (match type of E with [?a; ?b] = _ => change [a; b] with ([a] ++ [b]) in E end);
      apply eq_sym, app_eq_len in E; try reflexivity; destruct E as [-> _].
    all: try (match goal with H : TNp _ ?n |- _ => apply (TNp_res ml Hok' n H), Hr; cbn; tauto end).
    all: try (match goal with H : LNp _ ?n |- _ => apply (LNp_res ml Hok' n H), Hr; cbn; tauto end).
    all: try (match goal with H : TS _ ?n |- _ => apply (TS_res ml Hok' n H), Hr; cbn; tauto end).
    rewrite Forall_forall in HP. specialize (HP "midext" (or_introl eq_refl)). cbn in HP. intuition discriminate.
  Qed.

  Lemma dkey_form K : dkey K -> exists t k, K = [t; k] /\ TS ei t /\ In k (dkw ml).
  Proof. apply D_key. Qed.

  Lemma dist_prefixed_none kw' name K : Fr kw kw' -> dkey K -> kw_get (name :: K) kw' = None.
  Proof.
    intros HF HK. destruct (kw_get (name :: K) kw') as [v|] eqn:E; [exfalso|reflexivity].
    destruct (proj2 HF _ _ E) as (P & _ & Hk). destruct (dkey_form K HK) as (t & k & -> & Ht & _).
    apply (nform_tail3 (P ++ [name; t; k]) P name t k); [|reflexivity | exact Ht].
    apply Hkeys. apply in_items_key with (v := v), kw_get_Some_In, Hk.
  Qed.
  Lemma Tp_obj kw' X name split glob : Fr kw kw' -> Tp kw' -> (forall w, In w X -> In w routing) -> In name X ->
    unflatten_and_split kw' X = (split, glob) -> Tp (obj_kwargs name split glob).
  Proof.
    intros HF HT HX Hin Hu K HK.
    assert (He : ~ In "" X) by (intros H; apply HX in H; cbn in H; intuition discriminate).
    rewrite (obj_kwargs_lookup kw' X name K split glob He Hu Hin). unfold eff.
    rewrite !(kw_last_NoDup _ _ (proj1 HF)), (dist_prefixed_none kw' name K HF HK).
    destruct (dkey_form K HK) as (t & k & -> & Ht & _). unfold head_of. cbn [partition_key fst].
    assert (Hm : mem t X = false).
    { apply mem_false. intros H. apply (in_reserved_not_tstage ei t Hei (routing_reserved _ (HX _ H)) Ht). }
    rewrite Hm. apply HT, HK.
  Qed.
  Lemma Tp_refl : Tp kw. Proof. intros K _. reflexivity. Qed.
  Lemma Tp_side kw' ikw ckw : Fr kw kw' -> Tp kw' -> side_kwargs kw' = (ikw, ckw) -> Tp ikw /\ Tp ckw.
  Proof.
    intros HF HT Hs. unfold side_kwargs in Hs. destruct (unflatten_and_split kw' ["ipsi"; "contra"]) as [split glob] eqn:Hu.
    injection Hs as <- <-. split; apply (Tp_obj kw' ["ipsi"; "contra"] _ split glob HF HT); try exact Hu;
      try (intros w Hw; cbn in Hw |- *; tauto); cbn; tauto.
  Qed.

  Lemma dist_lk_exact kwL K : Fr kw kwL -> Tp kwL -> dkey K -> u_lk kwL K = kw_get K kw.
  Proof.
    intros HF HT HK. destruct (dkey_form K HK) as (t & k & -> & Ht & Hk). unfold u_lk.
    rewrite !(kw_last_NoDup _ _ (proj1 HF)), (HT _ HK). destruct (kw_get [t; k] kw) as [v|]; [reflexivity|].
    destruct (kw_get [k] kwL) as [v|] eqn:E; [exfalso|reflexivity].
    destruct (proj2 HF _ _ E) as (P & HP & Hg).
    assert (Hin : In (P ++ [k]) (map fst kw)) by (apply in_items_key with (v := v), kw_get_Some_In, Hg).
    apply (nform_tail1 (P ++ [k]) P k (Hkeys _ Hin) eq_refl HP). intros Em.
    change ["mixing"] with ([] ++ ["mixing"]) in Em. apply app_eq_len in Em; [|reflexivity]. destruct Em as [-> Em]. injection Em as ->.
    exact (Hmk Hin Hk).
  Qed.

  Lemma leaf_dist_ok u kwL : Fr kw kwL -> Tp kwL -> u_names_ok u = true -> map fst (u_dist_items u) = map fst (u_dist_items ei) -> dhyp u ->
    exists u', u_set_distribution_params u [] kwL = (u', Some []).
  Proof.
    intros HF HT Hn HD Hh. pose proof (u_set_dist_spec u kwL Hn []) as Hs.
    rewrite (plan_ext (u_lk kwL) (fun K => kw_get K kw)) in Hs.
    - fold (dplan u) in Hs. unfold dhyp in Hh. destruct (dists_put (u_maxt u) (u_dists u) (dplan u)) as [ds'|]; [|congruence].
      rewrite skipn_nil' in Hs. eexists. exact Hs.
    - intros K HK. apply dist_lk_exact; [exact HF | exact HT | unfold dkey; rewrite <- HD; exact HK].
  Qed.
  Lemma bi_dist_ok b ckw : Fr kw ckw -> Tp ckw ->
    u_names_ok (b_ipsi b) = true -> map fst (u_dist_items (b_ipsi b)) = map fst (u_dist_items ei) -> dhyp (b_ipsi b) ->
    u_names_ok (b_contra b) = true -> map fst (u_dist_items (b_contra b)) = map fst (u_dist_items ei) -> dhyp (b_contra b) ->
    exists b', b_set_distribution_params b [] ckw = (b', Some []).
  Proof.
    intros HF HT Hni HDi Hhi Hnc HDc Hhc. unfold b_set_distribution_params. destruct (side_kwargs ckw) as [ikw' ckw'] eqn:Hsk.
    destruct (Fr_side kw ckw ikw' ckw' HF Hsk) as [HFi HFc]. destruct (Tp_side ckw ikw' ckw' HF HT Hsk) as [HTi HTc].
    destruct (leaf_dist_ok (b_ipsi b) ikw' HFi HTi Hni HDi Hhi) as (i' & ->).
    destruct (leaf_dist_ok (b_contra b) ckw' HFc HTc Hnc HDc Hhc) as (c' & ->). eexists. reflexivity.
  Qed.

  Lemma XD_routing mk w : In w (XD mk) -> In w routing.
  Proof. intros H. apply (proj2 (XD_props mk)) in H. cbn in H |- *. tauto. Qed.
  Lemma dist_ok mk : St mk -> (forall u, In u (m_unis mk) -> dhyp u) -> exists mk', m_set_distribution_params mk [] kw = (mk', Some []).
  Proof.
    intros HS Hh. pose proof (St_names mk HS) as Hn.
    destruct (SafeMidline.keys_sk mk ml Hsafe HS) as (_ & _ & HDK).
    assert (Hb : forall b, In b (m_bis mk) ->
              u_names_ok (b_ipsi b) = true /\ map fst (u_dist_items (b_ipsi b)) = map fst (u_dist_items ei) /\ dhyp (b_ipsi b) /\
              u_names_ok (b_contra b) = true /\ map fst (u_dist_items (b_contra b)) = map fst (u_dist_items ei) /\ dhyp (b_contra b)).
    { intros b Hin. destruct (SafeMidline.m_ok_bi mk b Hn Hin) as (_ & (Hni & _ & _ & HDi) & (Hnc & _ & _ & HDc) & _).
      assert (Hui : In (b_ipsi b) (m_unis mk)) by (apply in_flat_map; exists b; split; [exact Hin | left; reflexivity]).
      assert (Huc : In (b_contra b) (m_unis mk)) by (apply in_flat_map; exists b; split; [exact Hin | right; left; reflexivity]).
      repeat split; try assumption; try (apply Hh; assumption).
      - rewrite HDi, HDK. reflexivity.
      - rewrite HDc, HDK. reflexivity. }
    unfold m_set_distribution_params. fold (XD mk). destruct (unflatten_and_split kw (XD mk)) as [split glob] eqn:Hu.
    assert (HF0 : Fr kw kw) by (apply Fr_refl, Hnd).
    assert (HeD : ~ In "" (XD mk)) by (intros H; apply XD_routing in H; cbn in H; intuition discriminate).
    assert (Hchild : forall child b, In child (XD mk) -> In b (m_bis mk) -> exists b', b_set_distribution_params b [] (obj_kwargs child split glob) = (b', Some [])).
    { intros child b Hc Hin. destruct (Hb b Hin) as (H1 & H2 & H3 & H4 & H5 & H6). apply bi_dist_ok; try assumption.
      - apply (Fr_obj kw kw (XD mk) child split glob HF0 HeD Hc (XD_routing mk child Hc) Hu).
      - apply (Tp_obj kw (XD mk) child split glob HF0 Tp_refl (XD_routing mk) Hc Hu). }
    destruct (Hchild "ext" (ml_ext mk)) as (e' & ->); [apply XD_props | left; reflexivity|].
    autorewrite with mlf.
    destruct (Hchild "noext" (ml_noext mk)) as (n' & ->); [unfold XD; cbn; tauto | right; left; reflexivity|].
    autorewrite with mlf.
    destruct (ml_central mk) as [c|] eqn:Ec.
    - destruct (Hchild "central" c) as (c' & ->); [unfold XD; rewrite Ec; cbn; tauto | apply SafeMidline.m_ok_central, Ec|].
      autorewrite with mlf. destruct (ml_unknown mk) as [k|] eqn:Ek; [|eexists; reflexivity].
      destruct (Hchild "unknown" k) as (k' & ->); [unfold XD; rewrite Ec, Ek; cbn; tauto | apply SafeMidline.m_ok_unknown, Ek|].
      eexists; reflexivity.
    - autorewrite with mlf. destruct (ml_unknown mk) as [k|] eqn:Ek; [|eexists; reflexivity].
      destruct (Hchild "unknown" k) as (k' & ->); [unfold XD; rewrite Ec, Ek; cbn; tauto | apply SafeMidline.m_ok_unknown, Ek|].
      eexists; reflexivity.
  Qed.

  (** ** the whole call *)
  Lemma dhyp_ud u u0 : ud u = ud u0 -> dhyp u0 -> dhyp u.
  Proof. unfold ud, dhyp, dplan, u_dist_items. intros E. injection E as -> ->. auto. Qed.
  Lemma unis_leaf mk u : In u (m_unis mk) ->
    (exists l, ml_leaf mk l = Some u) \/ (exists k, ml_unknown mk = Some k /\ (u = b_ipsi k \/ u = b_contra k)).
  Proof.
    unfold m_unis, m_bis, opt_list. intros H. apply in_flat_map in H. destruct H as (b & Hb & Hu).
    cbn [app In] in Hb. destruct Hb as [<-|[<-|Hb]].
    - left. destruct Hu as [<-|[<-|[]]]; [exists LExtIpsi | exists LExtContra]; reflexivity.
    - left. destruct Hu as [<-|[<-|[]]]; [exists LNoextIpsi | exists LNoextContra]; reflexivity.
    - apply in_app_iff in Hb. destruct (ml_central mk) as [c|] eqn:Ec, (ml_unknown mk) as [k|] eqn:Ek; cbn in Hb;
        repeat (destruct Hb as [Hb|Hb]); subst; try contradiction.
      all: try (left; destruct Hu as [<-|[<-|[]]]; [exists LCentralIpsi | exists LCentralContra]; cbn [ml_leaf]; rewrite Ec; reflexivity).
      all: right; exists b; split; [reflexivity|]; destruct Hu as [<-|[<-|[]]]; tauto.
  Qed.
  Lemma leaf_unis mk l u : ml_leaf mk l = Some u -> In u (m_unis mk).
  Proof.
    intros H. unfold m_unis, m_bis, opt_list. apply in_flat_map.
    destruct l; cbn [ml_leaf] in H; try (destruct (ml_central mk) as [c|] eqn:Ec; cbn [option_map] in H; [|discriminate]); injection H as <-.
    - exists c. split; [cbn; tauto | left; reflexivity].
    - exists c. split; [cbn; tauto | right; left; reflexivity].
    - exists (ml_ext mk). split; [left; reflexivity | left; reflexivity].
    - exists (ml_ext mk). split; [left; reflexivity | right; left; reflexivity].
    - exists (ml_noext mk). split; [right; left; reflexivity | left; reflexivity].
    - exists (ml_noext mk). split; [right; left; reflexivity | right; left; reflexivity].
  Qed.
  Lemma unknown_unis mk k : ml_unknown mk = Some k -> In (b_ipsi k) (m_unis mk) /\ In (b_contra k) (m_unis mk).
  Proof.
    intros H. unfold m_unis. split; apply in_flat_map; exists k; (split; [apply SafeMidline.m_ok_unknown, H | cbn; tauto]).
  Qed.

  Lemma mid_kw_accept :
    (forall l u, ml_leaf ml l = Some u -> evalid u) -> mixvalid ml -> (forall u, In u (m_unis ml) -> dhyp u) ->
    exists m', m_set_params ml [] kw = (m', Some []).
  Proof.
    intros Hev Hmv Hd.
    assert (HI : Inv ml).
    { intros l u Hl. split; [|apply (Hev l u Hl)]. pose proof (leaf_unis ml l u Hl) as Hin. unfold m_unis in Hin.
      apply in_flat_map in Hin. destruct Hin as (b & Hb & Hu). destruct (SafeMidline.m_ok_bi ml b Hsafe Hb) as (_ & Hi & Hc & _).
      destruct Hu as [<-|[<-|[]]]; assumption. }
    assert (HFd : Fd ml) by (split; reflexivity).
    rewrite (m_set_params_unfold ml [] kw Hok').
    rewrite popat_nil by (rewrite mid_items_split, !app_length; cbn [m_midext_item length]; lia).
    cbv beta iota zeta.
    assert (H0 : exists m0, match match kw_get ["midext"; "prob"] kw with Some v => Some v | None => None end with
                            | None => Some ml | Some v => option_map (ml_with_midext ml) (check_unit v) end = Some m0
                            /\ St m0 /\ Inv m0 /\ Fd m0 /\ mixvalid m0).
    { destruct (kw_get ["midext"; "prob"] kw) as [v|] eqn:E.
      - destruct (top_hit [] ["midext"; "prob"] v (Forall_nil _) (or_intror eq_refl) E) as (q & -> & Hq).
        exists (ml_with_midext ml q). cbn [check_unit]. rewrite Hq. split; [reflexivity|]. split; [reflexivity|].
        split; [intros l u Hl; apply (HI l u); destruct l; exact Hl|]. split; [|exact Hmv].
        split; [intros l; destruct l; reflexivity | reflexivity].
      - exists ml. split; [reflexivity|]. split; [reflexivity|]. split; [exact HI|]. split; [exact HFd | exact Hmv]. }
    destruct H0 as (m0 & -> & HS0 & HI0 & HF0 & Hmv0). cbn [app].
    destruct (tumor_ok m0 HS0 HI0 HF0 Hmv0) as (m1 & E1 & HI1 & HF1).
    assert (HS1 : St m1) by (pose proof (SafeProofs.sk_mid_set_tumor m0 [] kw) as H; rewrite E1 in H; cbn [fst] in H; unfold St; rewrite H; exact HS0).
    destruct (lnl_ok m1 HI1 HF1) as (m2 & E2 & HI2 & HF2).
    assert (HS2 : St m2) by (pose proof (SafeProofs.sk_mid_set_lnl m1 [] kw) as H; rewrite E2 in H; cbn [fst] in H; unfold St; rewrite H; exact HS1).
    unfold m_set_spread_params. rewrite E1. cbn [andthen]. rewrite E2. cbn [andthen].
    apply (dist_ok m2 HS2). intros u Hu. destruct HF2 as [HFl HFk].
    destruct (unis_leaf m2 u Hu) as [(l & Hl)|(k & Hk & Hor)].
    - pose proof (HFl l) as E. rewrite Hl in E. destruct (ml_leaf ml l) as [u0|] eqn:El; [|discriminate].
      cbn [option_map] in E. injection E as E. apply (dhyp_ud u u0); [unfold ud; congruence|]. apply Hd, (leaf_unis ml l u0 El).
    - rewrite HFk in Hk. destruct (unknown_unis ml k Hk) as [H1 H2]. destruct Hor as [-> | ->]; apply Hd; assumption.
  Qed.
End Forward.

(** ** Statement: an acceptable literal-subset proposal is accepted *)
(** the current state is valid: every spread / growth / micro value of every leaf of ext,
    noext, central lies in [0,1], and so does the mixing parameter (what every setter
    guarantees of the values it has written; true of every constructed object) *)
Definition m_spread_valid (ml : midline) : Prop :=
  (forall l u, ml_leaf ml l = Some u -> forallb edge_vals_ok (u_edges u) = true) /\
  (forall cur, ml_mixing ml = Some cur -> in_unit cur = true).
(** the proposal is acceptable: every value for a name that is not a distribution parameter
    lies in [0,1]; the distributions of EVERY sub-model (ext, noext, central, unknown; both
    sides) accept their own current keywords overridden by the proposed ones *)
Definition lit_accepts (ml : midline) (named : list path) (qs : list Qc) : Prop :=
  (forall n q, In (n, q) (combine named qs) -> ~ In n (map fst (u_dist_items (ml_ei ml))) -> in_unit q = true) /\
  (forall u, In u (m_unis ml) ->
     dists_put (u_maxt u) (u_dists u) (plan (fun K => kw_get K (combine named (vals qs))) (u_dist_items u) []) <> None).
Definition C17_midline_literal_subset_accepted_stmt : Prop :=
  forall ml named qs, m_names_ok ml = true -> m_spread_valid ml -> NoDup named -> incl named (m_names ml) ->
    length qs = length named -> mixing_kw_ok ml named -> lit_accepts ml named qs ->
    snd (set_named_params (mk_nstate (MMid ml) (Some named)) (vals qs) []) = inr tt.
(** ... hence the complete round trip *)
Definition C17_midline_literal_subset_complete_stmt : Prop :=
  forall ml named qs, m_names_ok ml = true -> m_spread_valid ml -> NoDup named -> incl named (m_names ml) ->
    length qs = length named -> mixing_kw_ok ml named -> lit_accepts ml named qs ->
    exists s', set_named_params (mk_nstate (MMid ml) (Some named)) (vals qs) [] = (s', inr tt) /\
      get_named_params s' = inr (combine named qs) /\ get_num_dims s' = inr (length named) /\
      exists its', param_items (ns_model s') = Some its' /\ map fst its' = m_names ml /\
        (forall n q, In (n, q) (combine named qs) -> kw_get n its' = Some q) /\
        (forall k old, In (k, old) (m_items ml) -> ~ In k named -> kw_get k its' = Some old).
(** C12: an acceptable proposal for the declared names is scored (never -inf, never a raise) *)
Definition C12_midline_named_subset_accepted_stmt : Prop :=
  forall R (lik : model -> R) m names v g, m_names_ok m = true -> m_spread_valid m -> NoDup names -> incl names (m_names m) ->
    length v = length names -> both_forms names (vals v) g -> mixing_kw_ok m names -> lit_accepts m names v ->
    let r := likelihood_given R lik (Some names) (MMid m) g in snd r = LVal (lik (fst r)).

Lemma in_combine_vals_inv (l : list path) qs c v : In (c, v) (combine l (vals qs)) -> exists q, v = V q /\ In (c, q) (combine l qs).
Proof.
  revert qs. induction l as [|x l IH]; intros [|y qs]; cbn; try tauto.
  intros [E|H]; [injection E as <- <-; exists y; split; [reflexivity | left; reflexivity]|].
  destruct (IH qs H) as (q & -> & Hq). exists q. split; [reflexivity | right; exact Hq].
Qed.

Lemma mid_lit_accept ml named qs : m_names_ok ml = true -> m_spread_valid ml -> NoDup named -> incl named (m_names ml) ->
  length qs = length named -> mixing_kw_ok ml named -> lit_accepts ml named qs ->
  exists m', m_set_params ml [] (combine named (vals qs)) = (m', Some []).
Proof.
  intros Hsafe [Hev Hmv] Hnd Hincl Hlen Hmk [Hu Hd].
  pose proof (safe_names_ok_mid ml Hsafe) as Hok'. unfold m_names in Hincl. rewrite safe_items_mid in Hincl.
  assert (Hkeys : map fst (combine named (vals qs)) = named) by (apply combine_vals_keys, Hlen).
  apply (mid_kw_accept ml (combine named (vals qs)) Hsafe).
  - rewrite Hkeys. exact Hnd.
  - rewrite Hkeys. intros c Hc. apply (mid_nform ml c Hok'), Hincl, Hc.
  - rewrite Hkeys. exact Hmk.
  - intros c v Hin Hnd'. destruct (in_combine_vals_inv named qs c v Hin) as (q & -> & Hq). exists q. split; [reflexivity | apply (Hu c q Hq Hnd')].
  - exact Hev.
  - exact Hmv.
  - exact Hd.
Qed.

Theorem midline_literal_subset_accepted : C17_midline_literal_subset_accepted_stmt.
Proof.
  intros ml named qs Hsafe Hval Hnd Hincl Hlen Hmk Hacc.
  destruct (mid_lit_accept ml named qs Hsafe Hval Hnd Hincl Hlen Hmk Hacc) as (m' & Hset).
  pose proof (safe_names_ok_mid ml Hsafe) as Hok'.
  unfold set_named_params, named_params. cbn [ns_model ns_named mk_nstate].
  rewrite (param_names_items _ _ (mid_param_items ml Hok')). cbn [map forallb].
  assert (Ekw : named_kwargs named (vals qs) [] = combine named (vals qs)).
  { unfold named_kwargs. cbn [kw_update fold_left]. apply dict_of_NoDup_id, combine_keys_NoDup, Hnd. }
  rewrite Ekw. cbn [set_params]. rewrite Hset. reflexivity.
Qed.

Theorem midline_literal_subset_complete : C17_midline_literal_subset_complete_stmt.
Proof.
  intros ml named qs Hsafe Hval Hnd Hincl Hlen Hmk Hacc.
  pose proof (midline_literal_subset_accepted ml named qs Hsafe Hval Hnd Hincl Hlen Hmk Hacc) as Hret.
  destruct (set_named_params (mk_nstate (MMid ml) (Some named)) (vals qs) []) as [s' o] eqn:E. cbn [snd] in Hret. subst o.
  exists s'. split; [reflexivity|].
  pose proof (safe_names_ok_mid ml Hsafe) as Hok'. unfold m_names in *. rewrite safe_items_mid in *.
  apply (midline_literal_subset_roundtrip ml named qs s' (mid_items ml) (safe_set_ok_mid ml Hsafe) (mid_param_items ml Hok') Hnd Hincl Hlen Hmk E).
Qed.

Theorem midline_named_subset_accepted : C12_midline_named_subset_accepted_stmt.
Proof.
  intros R lik m names v g Hsafe Hval Hnd Hincl Hlen Hg Hmk Hacc r. subst r.
  destruct (mid_lit_accept m names v Hsafe Hval Hnd Hincl Hlen Hmk Hacc) as (m' & Hset).
  rewrite (mid_named_given R lik m names v g (safe_names_ok_mid m Hsafe) Hnd Hlen Hg). rewrite Hset. reflexivity.
Qed.

(** boolean forms of the two hypotheses, for concrete objects *)
Definition all_leaf_ids : list leaf_id := [LCentralIpsi; LCentralContra; LExtIpsi; LExtContra; LNoextIpsi; LNoextContra].
Definition m_spread_validb (ml : midline) : bool :=
  forallb (fun l => match ml_leaf ml l with Some u => forallb edge_vals_ok (u_edges u) | None => true end) all_leaf_ids
  && match ml_mixing ml with Some cur => in_unit cur | None => true end.
Definition lit_acceptsb (ml : midline) (named : list path) (qs : list Qc) : bool :=
  forallb (fun nq => memp (fst nq) (map fst (u_dist_items (ml_ei ml))) || in_unit (snd nq)) (combine named qs)
  && forallb (fun u => is_some (dists_put (u_maxt u) (u_dists u)
                                   (plan (fun K => kw_get K (combine named (vals qs))) (u_dist_items u) []))) (m_unis ml).
Lemma m_spread_validb_ok ml : m_spread_validb ml = true -> m_spread_valid ml.
Proof.
  unfold m_spread_validb. rewrite andb_true_iff, forallb_forall. intros [H1 H2]. split.
  - intros l u Hl. specialize (H1 l). rewrite Hl in H1. apply H1. destruct l; cbn; tauto.
  - intros cur E. rewrite E in H2. exact H2.
Qed.
Lemma lit_acceptsb_ok ml named qs : lit_acceptsb ml named qs = true -> lit_accepts ml named qs.
Proof.
  unfold lit_acceptsb. rewrite andb_true_iff, !forallb_forall. intros [H1 H2]. split.
  - intros n q Hin Hnd. specialize (H1 (n, q) Hin). cbn [fst snd] in H1. apply orb_true_iff in H1. destruct H1 as [H1|H1]; [|exact H1].
    exfalso. apply Hnd, memp_In, H1.
  - intros u Hu. specialize (H2 u Hu). destruct (dists_put _ _ _); [discriminate | discriminate H2].
Qed.
