(** Params: the parameter plumbing of lymph (get_params / set_params of every
    model class), mirrored method by method.  Executable definitions only.

    Conventions
    - A parameter NAME is a [path]: the Python key "ipsi_TtoII_spread" is
      ["ipsi";"TtoII";"spread"], "midext_prob" is ["midext";"prob"], "" is [].
      [key.partition("_")] = (head, tail).  This is exact because component names
      (edges, T-stages, distribution keywords) contain no "_".
    - A VALUE passed by the user is a [val]: [V q] (any finite number) or [Bad]
      (NaN, +inf, -inf: fails every range check and makes the families raise).
    - Python dicts are insertion-ordered association lists with unique keys;
      [kw_set] is [d[k] = v] (replace in place or append), [kw_update src dst] is
      [dst.update(src)].
    - Exceptions are values: every setter has type
      [S -> args -> kwargs -> S * option args]; [None] = the call raised
      (ValueError; KeyError only for structurally different sub-models), and the
      returned [S] is the object as Python leaves it (partial update).
    - The dicts built by get_params are [pdict]s: ordered maps from key paths to
      [ptree]s (a flat key like "TtoII_spread" is the 2-element path, a nested key
      like "ipsi" a 1-element path; both occur in the same dict in the code). *)
From LymphModel Require Import Base States Linalg Graph Transition Observation Dist Unilateral Models.
Local Open Scope nat_scope.
Local Open Scope string_scope.
Local Open Scope list_scope.

(** * Names, values, arguments *)
Definition path := list string.
Inductive val := V (q : Qc) | Bad.
Definition args := list val.
Definition kwargs := list (path * val).

Fixpoint path_eqb (a b : path) : bool :=
  match a, b with
  | [], [] => true
  | x :: a', y :: b' => String.eqb x y && path_eqb a' b'
  | _, _ => false
  end.

(** utils.popfirst *)
Definition popfirst {A} (l : list A) : option A * list A :=
  match l with [] => (None, []) | a :: r => (Some a, r) end.

(** utils.popat *)
Definition popat {A} (l : list A) (idx : Z) : list A * option A * list A :=
  let n := Z.of_nat (length l) in
  let idx := if (idx <? 0)%Z then (idx + n)%Z else idx in
  if (idx <? 0)%Z then ([], None, l)
  else if (idx >=? n)%Z then (l, None, [])
  else let k := Z.to_nat idx in (firstn k l, nth_error l k, skipn (S k) l).

(** * Dictionaries keyed by paths *)
Fixpoint kw_get {A} (k : path) (d : list (path * A)) : option A :=
  match d with [] => None | (k', v) :: r => if path_eqb k k' then Some v else kw_get k r end.
(** d[k] = v *)
Fixpoint kw_set {A} (k : path) (v : A) (d : list (path * A)) : list (path * A) :=
  match d with
  | [] => [(k, v)]
  | (k', v') :: r => if path_eqb k k' then (k, v) :: r else (k', v') :: kw_set k v r
  end.
(** dst.update(src) *)
Definition kw_update {A} (src dst : list (path * A)) : list (path * A) :=
  fold_left (fun d kv => kw_set (fst kv) (snd kv) d) src dst.
(** dict(items) *)
Definition dict_of {A} (items : list (path * A)) : list (path * A) := kw_update items [].
Definition kw_has {A} (k : path) (d : list (path * A)) : bool :=
  match kw_get k d with Some _ => true | None => false end.
Definition kw_get_or (k : path) (kw : kwargs) (d : val) : val :=
  match kw_get k kw with Some v => v | None => d end.

(** key.partition("_") *)
Definition partition_key (k : path) : string * path :=
  match k with [] => ("", []) | h :: t => (h, t) end.

(** kwargs.get(key, {}) on the unflattened part *)
Definition sub_kwargs (key : string) (split : list (string * kwargs)) : kwargs :=
  match dict_get key split with Some d => d | None => [] end.

(** utils.unflatten_and_split(mapping, expected_keys) *)
Definition unflatten_and_split (kw : kwargs) (expected : list string) : list (string * kwargs) * kwargs :=
  fold_left (fun (acc : list (string * kwargs) * kwargs) (kv : path * val) =>
      let '(split, glob) := acc in
      let '(hd, tl) := partition_key (fst kv) in
      if mem hd expected
      then (dict_set hd (kw_set tl (snd kv) (sub_kwargs hd split)) split, glob)
      else (split, kw_set (fst kv) (snd kv) glob))
    kw ([], []).

(** global_kwargs.copy(); .update(kwargs.get(key, {})) *)
Definition obj_kwargs (key : string) (split : list (string * kwargs)) (glob : kwargs) : kwargs :=
  kw_update (sub_kwargs key split) glob.

(** * Nested parameter dictionaries *)
Inductive ptree := Leaf (v : Qc) | Node (cs : list (path * ptree)).
Definition pdict := list (path * ptree).

(** the (key, value) items of utils.flatten before [dict(items)] *)
Fixpoint flat_items (pre : path) (t : ptree) : list (path * Qc) :=
  match t with
  | Leaf v => [(pre, v)]
  | Node cs =>
      (fix go (cs : list (path * ptree)) : list (path * Qc) :=
         match cs with
         | [] => []
         | kc :: r => flat_items (pre ++ fst kc) (snd kc) ++ go r
         end) cs
  end.
Definition flat_items_dict (d : pdict) : list (path * Qc) := flat_items [] (Node d).
Definition leaves (l : list (path * Qc)) : pdict := map (fun kv => (fst kv, Leaf (snd kv))) l.
(** utils.flatten *)
Definition flatten (d : pdict) : pdict := dict_of (leaves (flat_items_dict d)).
Definition maybe_flatten (as_flat : bool) (d : pdict) : pdict := if as_flat then flatten d else d.

(** items of a flat dict *)
Fixpoint items (d : pdict) : list (path * Qc) :=
  match d with
  | [] => []
  | (k, Leaf v) :: r => (k, v) :: items r
  | (k, Node _) :: r => items r
  end.

(** params[key] (a sub-dict), {} when absent *)
Definition pd_sub (k : path) (d : pdict) : pdict :=
  match kw_get k d with Some (Node cs) => cs | _ => [] end.
(** params[key].update(src) *)
Fixpoint pd_update_at (k : path) (src : pdict) (d : pdict) : pdict :=
  match d with
  | [] => []
  | (k', t) :: r =>
      if path_eqb k k'
      then (k', match t with Node cs => Node (kw_update src cs) | Leaf v => Leaf v end) :: r
      else (k', t) :: pd_update_at k src r
  end.

(** Python == on (nested) dicts: order-insensitive *)
Fixpoint ptree_eqb (a b : ptree) : bool :=
  match a, b with
  | Leaf x, Leaf y => Qc_eqb x y
  | Node ca, Node cb =>
      Nat.eqb (length ca) (length cb) &&
      (fix all (l : list (path * ptree)) : bool :=
         match l with
         | [] => true
         | kc :: r => match kw_get (fst kc) cb with
                      | Some t' => ptree_eqb (snd kc) t'
                      | None => false
                      end && all r
         end) ca
  | _, _ => false
  end.
Definition pdict_eqb (a b : pdict) : bool := ptree_eqb (Node a) (Node b).

(** * Edges  (graph.Edge) *)
Definition in_unit (q : Qc) : bool := Qc_leb 0 q && Qc_leb q 1.
(** the range check [0.0 <= x <= 1.0] of the property setters; [None] = ValueError *)
Definition check_unit (v : val) : option Qc :=
  match v with V q => if in_unit q then Some q else None | Bad => None end.
Definition val_or (o : option val) (d : Qc) : val := match o with Some v => v | None => V d end.

Definition with_spread (e : edge) (q : Qc) : edge :=
  {| e_name := e_name e; e_parent := e_parent e; e_child := e_child e; e_kind := e_kind e;
     e_spread := q; e_micro := e_micro e |}.
Definition with_micro (e : edge) (q : Qc) : edge :=
  {| e_name := e_name e; e_parent := e_parent e; e_child := e_child e; e_kind := e_kind e;
     e_spread := e_spread e; e_micro := q |}.
Definition is_lnl_spread (e : edge) : bool := match e_kind e with ELnl => true | _ => false end.
(** trinary LNL-to-LNL arcs carry the micro modifier *)
Definition has_micro (tri : bool) (e : edge) : bool := tri && is_lnl_spread e.

(** Edge.get_params(as_dict=True) *)
Definition edge_get_params (tri : bool) (e : edge) : pdict :=
  if is_growth e then [(["growth"], Leaf (e_spread e))]
  else (["spread"], Leaf (e_spread e)) ::
       (if has_micro tri e then [(["micro"], Leaf (e_micro e))] else []).

(** Edge.set_params( *args, **kwargs) with set_spread_prob / set_micro_mod *)
Definition edge_set_params (tri : bool) (e : edge) (a : args) (kw : kwargs) : edge * option args :=
  let '(first, a1) := popfirst a in
  let value := val_or first (e_spread e) in
  let key := if is_growth e then ["growth"] else ["spread"] in
  match check_unit (kw_get_or key kw value) with
  | None => (e, None)
  | Some s =>
      let e1 := with_spread e s in
      if has_micro tri e then
        let '(first2, a2) := popfirst a1 in
        match check_unit (kw_get_or ["micro"] kw (val_or first2 (e_micro e))) with
        | None => (e1, None)
        | Some m => (with_micro e1 m, Some a2)
        end
      else (e1, Some a1)
  end.

(** utils.get_params_from(objects, as_flat) for a dict of edges *)
Definition edges_get_params (tri : bool) (es : list edge) (as_flat : bool) : pdict :=
  maybe_flatten as_flat
    (fold_left (fun d e => kw_set [e_name e] (Node (edge_get_params tri e)) d) es []).

(** utils.set_params_for(objects, *args, **kwargs) for the sub-dict of the edges
    selected by [sel] (the objects are mutated in place, i.e. inside [es]) *)
Fixpoint set_edges_for (tri : bool) (sel : edge -> bool) (split : list (string * kwargs)) (glob : kwargs)
    (es : list edge) (a : args) : list edge * option args :=
  match es with
  | [] => ([], Some a)
  | e :: r =>
      if sel e then
        match edge_set_params tri e a (obj_kwargs (e_name e) split glob) with
        | (e', None) => (e' :: r, None)
        | (e', Some a') => let '(r', o) := set_edges_for tri sel split glob r a' in (e' :: r', o)
        end
      else let '(r', o) := set_edges_for tri sel split glob r a in (e :: r', o)
  end.

Definition g_tri (g : graph) : bool := Nat.eqb (g_base g) 3.
Definition with_edges (g : graph) (es : list edge) : graph :=
  {| g_base := g_base g; g_nodes := g_nodes g; g_edges := es |}.
Definition sel_all (e : edge) : bool := true.
Definition sel_lnl (e : edge) : bool := negb (is_tumor_spread e).

Definition graph_set_params_sel (sel : edge -> bool) (g : graph) (a : args) (kw : kwargs) : graph * option args :=
  let '(split, glob) := unflatten_and_split kw (map e_name (filter sel (g_edges g))) in
  let '(es, o) := set_edges_for (g_tri g) sel split glob (g_edges g) a in
  (with_edges g es, o).

(** graph.Representation.get_params / set_params *)
Definition graph_get_params (g : graph) (as_flat : bool) : pdict := edges_get_params (g_tri g) (g_edges g) as_flat.
Definition graph_set_params : graph -> args -> kwargs -> graph * option args := graph_set_params_sel sel_all.

(** utils.synchronize_params(get_from, set_to) on the edges selected by [sel]:
    [obj.set_params( **get_from[key].get_params(as_dict=True))] *)
Definition edge_kwargs (tri : bool) (e : edge) : kwargs := map (fun kv => (fst kv, V (snd kv))) (items (edge_get_params tri e)).
Fixpoint find_edge (name : string) (es : list edge) : option edge :=
  match es with [] => None | e :: r => if str_eqb name (e_name e) then Some e else find_edge name r end.
Fixpoint sync_edges (tri_from tri_to : bool) (sel : edge -> bool) (from : list edge) (to : list edge)
  : list edge * bool :=
  match to with
  | [] => ([], true)
  | e :: r =>
      if sel e then
        match find_edge (e_name e) (filter sel from) with
        | None => (e :: r, false)                               (* KeyError *)
        | Some ef =>
            match edge_set_params tri_to e [] (edge_kwargs tri_from ef) with
            | (e', None) => (e' :: r, false)
            | (e', Some _) => let '(r', ok) := sync_edges tri_from tri_to sel from r in (e' :: r', ok)
            end
        end
      else let '(r', ok) := sync_edges tri_from tri_to sel from r in (e :: r', ok)
  end.

(** * Distributions  (diagnosis_times.Distribution) *)
(** Distribution.get_params(as_dict=True) of an updateable distribution *)
Definition dist_kw_dict (kws : list (string * Qc)) : pdict := map (fun kv => ([fst kv], Leaf (snd kv))) kws.

(** the loop of Distribution.set_params over the stored keywords *)
Fixpoint dist_assign (kws : list (string * Qc)) (a : args) (kw : kwargs) : list (string * val) * args :=
  match kws with
  | [] => ([], a)
  | (name, value) :: r =>
      let '(first, a') := popfirst a in
      let v := kw_get_or [name] kw (val_or first value) in
      let '(r', a'') := dist_assign r a' kw in
      ((name, v) :: r', a'')
  end.
Fixpoint all_vals (l : list (string * val)) : option (list (string * Qc)) :=
  match l with
  | [] => Some []
  | (k, V q) :: r => option_map (cons (k, q)) (all_vals r)
  | (_, Bad) :: _ => None
  end.
(** Distribution.set_params: on ValueError the old keywords are restored *)
Definition dist_set_params (maxt : nat) (d : dist) (a : args) (kw : kwargs) : dist * option args :=
  match d with
  | Frozen _ => (d, Some a)
  | Param f kws =>
      let '(new, a') := dist_assign kws a kw in
      match all_vals new with
      | None => (d, None)
      | Some kws' =>
          match fam_weights f maxt kws' with
          | None => (d, None)
          | Some _ => (Param f kws', Some a')
          end
      end
  end.

(** Composite.get_distribution_params, leaf *)
Definition dists_get_params (ds : list (string * dist)) (as_flat : bool) : pdict :=
  maybe_flatten as_flat
    (fold_left (fun acc td => match snd td with
                              | Frozen _ => acc
                              | Param _ kws => kw_set [fst td] (Node (dist_kw_dict kws)) acc
                              end) ds []).
(** Composite.set_distribution_params, leaf: args are used up one by one *)
Fixpoint set_dists_for (maxt : nat) (split : list (string * kwargs)) (glob : kwargs)
    (ds : list (string * dist)) (a : args) : list (string * dist) * option args :=
  match ds with
  | [] => ([], Some a)
  | (t, d) :: r =>
      match d with
      | Frozen _ => let '(r', o) := set_dists_for maxt split glob r a in ((t, d) :: r', o)
      | Param _ _ =>
          match dist_set_params maxt d a (obj_kwargs t split glob) with
          | (d', None) => ((t, d') :: r, None)
          | (d', Some a') => let '(r', o) := set_dists_for maxt split glob r a' in ((t, d') :: r', o)
          end
      end
  end.

(** * models.Unilateral *)
Definition u_tri (u : uni) : bool := g_tri (u_graph u).
Definition u_with_graph (u : uni) (g : graph) : uni :=
  {| u_graph := g; u_mods := u_mods u; u_dists := u_dists u; u_maxt := u_maxt u |}.
Definition u_with_dists (u : uni) (ds : list (string * dist)) : uni :=
  {| u_graph := u_graph u; u_mods := u_mods u; u_dists := ds; u_maxt := u_maxt u |}.

Definition u_get_tumor_spread_params (u : uni) (as_flat : bool) : pdict :=
  edges_get_params (u_tri u) (tumor_edges (u_graph u)) as_flat.
Definition u_get_lnl_spread_params (u : uni) (as_flat : bool) : pdict :=
  edges_get_params (u_tri u) (lnl_edges (u_graph u)) as_flat.
Definition u_get_spread_params (u : uni) (as_flat : bool) : pdict :=
  maybe_flatten as_flat (kw_update (u_get_lnl_spread_params u as_flat) (u_get_tumor_spread_params u as_flat)).
Definition u_get_distribution_params (u : uni) (as_flat : bool) : pdict := dists_get_params (u_dists u) as_flat.
Definition u_get_params (u : uni) (as_flat : bool) : pdict :=
  maybe_flatten as_flat (kw_update (u_get_distribution_params u as_flat) (u_get_spread_params u as_flat)).

Definition lift_graph (u : uni) (r : graph * option args) : uni * option args := (u_with_graph u (fst r), snd r).
Definition u_set_tumor_spread_params (u : uni) (a : args) (kw : kwargs) : uni * option args :=
  lift_graph u (graph_set_params_sel is_tumor_spread (u_graph u) a kw).
Definition u_set_lnl_spread_params (u : uni) (a : args) (kw : kwargs) : uni * option args :=
  lift_graph u (graph_set_params_sel sel_lnl (u_graph u) a kw).
(** sequencing: the second call runs on the state left by the first one unless it raised *)
Definition andthen {S} (r : S * option args) (f : S -> args -> S * option args) : S * option args :=
  match r with (s, None) => (s, None) | (s, Some a) => f s a end.
Definition u_set_spread_params (u : uni) (a : args) (kw : kwargs) : uni * option args :=
  andthen (u_set_tumor_spread_params u a kw) (fun u1 a1 => u_set_lnl_spread_params u1 a1 kw).
Definition u_set_distribution_params (u : uni) (a : args) (kw : kwargs) : uni * option args :=
  let '(split, glob) := unflatten_and_split kw (map fst (u_dists u)) in
  let '(ds, o) := set_dists_for (u_maxt u) split glob (u_dists u) a in
  (u_with_dists u ds, o).
Definition u_set_params (u : uni) (a : args) (kw : kwargs) : uni * option args :=
  andthen (u_set_spread_params u a kw) (fun u1 a1 => u_set_distribution_params u1 a1 kw).

(** synchronize_params between the edge dicts of two unilateral models *)
Definition u_sync (sel : edge -> bool) (from to : uni) : uni * bool :=
  let '(es, ok) := sync_edges (u_tri from) (u_tri to) sel (g_edges (u_graph from)) (g_edges (u_graph to)) in
  (u_with_graph to (with_edges (u_graph to) es), ok).

(** * models.Bilateral *)
Definition b_with (b : bilateral) (i c : uni) : bilateral :=
  {| b_ipsi := i; b_contra := c; b_symT := b_symT b; b_symL := b_symL b |}.

Definition b_get_tumor_spread_params (b : bilateral) (as_flat : bool) : pdict :=
  let params := [ (["ipsi"], Node (u_get_tumor_spread_params (b_ipsi b) as_flat));
                  (["contra"], Node (u_get_tumor_spread_params (b_contra b) as_flat)) ] in
  let params := if b_symT b then pd_sub ["ipsi"] params else params in
  maybe_flatten as_flat params.
Definition b_get_lnl_spread_params (b : bilateral) (as_flat : bool) : pdict :=
  let params := [ (["ipsi"], Node (u_get_lnl_spread_params (b_ipsi b) as_flat));
                  (["contra"], Node (u_get_lnl_spread_params (b_contra b) as_flat)) ] in
  let params := if b_symL b then pd_sub ["ipsi"] params else params in
  maybe_flatten as_flat params.
Definition b_get_spread_params (b : bilateral) (as_flat : bool) : pdict :=
  let params := b_get_tumor_spread_params b false in
  let params :=
    if negb (b_symT b) && negb (b_symL b) then
      let params := pd_update_at ["ipsi"] (pd_sub ["ipsi"] (b_get_lnl_spread_params b false)) params in
      pd_update_at ["contra"] (pd_sub ["contra"] (b_get_lnl_spread_params b false)) params
    else kw_update (b_get_lnl_spread_params b as_flat) params in
  maybe_flatten as_flat params.
(** Composite.get_distribution_params, branch: the first child's parameters *)
Definition b_get_distribution_params (b : bilateral) (as_flat : bool) : pdict :=
  maybe_flatten as_flat (u_get_distribution_params (b_ipsi b) as_flat).
Definition b_get_params (b : bilateral) (as_flat : bool) : pdict :=
  maybe_flatten as_flat (kw_update (b_get_distribution_params b as_flat) (b_get_spread_params b as_flat)).

Definition side_kwargs (kw : kwargs) : kwargs * kwargs :=
  let '(split, glob) := unflatten_and_split kw ["ipsi"; "contra"] in
  (obj_kwargs "ipsi" split glob, obj_kwargs "contra" split glob).

(** shared shape of Bilateral.set_tumor_spread_params / set_lnl_spread_params *)
Definition b_set_side_params (sel : edge -> bool) (sym : bool) (b : bilateral) (a : args) (kw : kwargs)
  : bilateral * option args :=
  let '(ikw, ckw) := side_kwargs kw in
  match lift_graph (b_ipsi b) (graph_set_params_sel sel (u_graph (b_ipsi b)) a ikw) with
  | (i', None) => (b_with b i' (b_contra b), None)
  | (i', Some a1) =>
      if sym then
        let '(c', ok) := u_sync sel i' (b_contra b) in
        (b_with b i' c', if ok then Some a1 else None)
      else
        let '(c', o) := lift_graph (b_contra b) (graph_set_params_sel sel (u_graph (b_contra b)) a1 ckw) in
        (b_with b i' c', o)
  end.
Definition b_set_tumor_spread_params (b : bilateral) : args -> kwargs -> bilateral * option args :=
  b_set_side_params is_tumor_spread (b_symT b) b.
Definition b_set_lnl_spread_params (b : bilateral) : args -> kwargs -> bilateral * option args :=
  b_set_side_params sel_lnl (b_symL b) b.
Definition b_set_spread_params (b : bilateral) (a : args) (kw : kwargs) : bilateral * option args :=
  andthen (b_set_tumor_spread_params b a kw) (fun b1 a1 => b_set_lnl_spread_params b1 a1 kw).
(** Composite.set_distribution_params, branch: every child receives ALL args, the
    remainder of the last child is returned *)
Definition b_set_distribution_params (b : bilateral) (a : args) (kw : kwargs) : bilateral * option args :=
  let '(ikw, ckw) := side_kwargs kw in
  match u_set_distribution_params (b_ipsi b) a ikw with
  | (i', None) => (b_with b i' (b_contra b), None)
  | (i', Some _) =>
      let '(c', o) := u_set_distribution_params (b_contra b) a ckw in (b_with b i' c', o)
  end.
Definition b_set_params (b : bilateral) (a : args) (kw : kwargs) : bilateral * option args :=
  andthen (b_set_spread_params b a kw) (fun b1 a1 => b_set_distribution_params b1 a1 kw).

(** * models.Midline *)
Definition ml_with_models (m : midline) (ext noext : bilateral) (central unknown : option bilateral) : midline :=
  {| ml_ext := ext; ml_noext := noext; ml_central := central; ml_unknown := unknown;
     ml_mixing := ml_mixing m; ml_midext := ml_midext m; ml_evo := ml_evo m; ml_symL := ml_symL m |}.
Definition ml_with_ext (m : midline) (b : bilateral) := ml_with_models m b (ml_noext m) (ml_central m) (ml_unknown m).
Definition ml_with_noext (m : midline) (b : bilateral) := ml_with_models m (ml_ext m) b (ml_central m) (ml_unknown m).
Definition ml_with_central (m : midline) (b : bilateral) := ml_with_models m (ml_ext m) (ml_noext m) (Some b) (ml_unknown m).
Definition ml_with_unknown (m : midline) (b : bilateral) := ml_with_models m (ml_ext m) (ml_noext m) (ml_central m) (Some b).
Definition ml_with_mixing (m : midline) (q : Qc) : midline :=
  {| ml_ext := ml_ext m; ml_noext := ml_noext m; ml_central := ml_central m; ml_unknown := ml_unknown m;
     ml_mixing := Some q; ml_midext := ml_midext m; ml_evo := ml_evo m; ml_symL := ml_symL m |}.
Definition ml_with_midext (m : midline) (q : Qc) : midline :=
  {| ml_ext := ml_ext m; ml_noext := ml_noext m; ml_central := ml_central m; ml_unknown := ml_unknown m;
     ml_mixing := ml_mixing m; ml_midext := q; ml_evo := ml_evo m; ml_symL := ml_symL m |}.
Definition b_with_ipsi (b : bilateral) (u : uni) : bilateral := b_with b u (b_contra b).
Definition b_with_contra (b : bilateral) (u : uni) : bilateral := b_with b (b_ipsi b) u.

Definition m_get_tumor_spread_params (m : midline) (as_flat : bool) : pdict :=
  let params := [ (["ipsi"], Node (u_get_tumor_spread_params (b_ipsi (ml_ext m)) as_flat)) ] in
  let params :=
    match ml_mixing m with
    | Some mix =>
        kw_set ["mixing"] (Leaf mix)
          (kw_set ["contra"] (Node (u_get_tumor_spread_params (b_contra (ml_noext m)) as_flat)) params)
    | None =>
        kw_set ["ext"] (Node [(["contra"], Node (u_get_tumor_spread_params (b_contra (ml_ext m)) as_flat))])
          (kw_set ["noext"] (Node [(["contra"], Node (u_get_tumor_spread_params (b_contra (ml_noext m)) as_flat))])
             params)
    end in
  maybe_flatten as_flat params.
(** the comparison [ext_lnl_params != noext_lnl_params] only triggers a warning
    (since the fix 0d1d468; it used to raise ValueError): [false] = warning issued *)
Definition m_lnl_synced (m : midline) : bool :=
  pdict_eqb (b_get_lnl_spread_params (ml_ext m) false) (b_get_lnl_spread_params (ml_noext m) false).
(** always [Some]: the ext model's LNL parameters are returned whether or not the
    noext model agrees (the [option] is kept for type stability) *)
Definition m_get_lnl_spread_params (m : midline) (as_flat : bool) : option pdict :=
  Some (maybe_flatten as_flat (b_get_lnl_spread_params (ml_ext m) false)).
Definition m_get_spread_params (m : midline) (as_flat : bool) : option pdict :=
  let params := m_get_tumor_spread_params m false in
  match m_get_lnl_spread_params m false with
  | None => None
  | Some lnl =>
      let params :=
        if ml_symL m then kw_update lnl params
        else
          let params := if kw_has ["contra"] params then params else kw_set ["contra"] (Node []) params in
          let params := pd_update_at ["ipsi"] (pd_sub ["ipsi"] lnl) params in
          pd_update_at ["contra"] (pd_sub ["contra"] lnl) params in
      Some (maybe_flatten as_flat params)
  end.
(** Composite.get_distribution_params, branch: first child = ext *)
Definition m_get_distribution_params (m : midline) (as_flat : bool) : pdict :=
  maybe_flatten as_flat (b_get_distribution_params (ml_ext m) as_flat).
Definition m_get_params (m : midline) (as_flat : bool) : option pdict :=
  match m_get_spread_params m as_flat with
  | None => None
  | Some sp =>
      let params := kw_update sp [] in
      let params := kw_update (m_get_distribution_params m as_flat) params in
      let params := kw_set ["midext"; "prob"] (Leaf (ml_midext m)) params in
      Some (maybe_flatten as_flat params)
  end.

(** discard the remaining args of a call whose return value the code ignores *)
Definition ok_of {S} (r : S * option args) : S * bool :=
  (fst r, match snd r with Some _ => true | None => false end).

(** the mixed contralateral tumor spread of the ext model:
    zip(ext.ipsi.get_tumor_spread_params().items(), noext.contra.get_tumor_spread_params().values()) *)
Definition mixed_kwargs (mix : Qc) (m : midline) : kwargs :=
  map (fun p => (fst (fst p), V (mix * snd (fst p) + (1 - mix) * snd p)%Qc))
      (combine (items (u_get_tumor_spread_params (b_ipsi (ml_ext m)) true))
               (map snd (items (u_get_tumor_spread_params (b_contra (ml_noext m)) true)))).

Definition m_set_tumor_spread_params (m : midline) (a : args) (kw : kwargs) : midline * option args :=
  let '(split, glob) := unflatten_and_split kw ["ipsi"; "noext"; "ext"; "contra"] in
  let ipsi_kw := obj_kwargs "ipsi" split glob in
  (* central.set_tumor_spread_params( *args, **ipsi_kwargs); return value ignored *)
  let '(m1, ok1) :=
    match ml_central m with
    | None => (m, true)
    | Some c => let '(c', ok) := ok_of (b_set_tumor_spread_params c a ipsi_kw) in (ml_with_central m c', ok)
    end in
  if negb ok1 then (m1, None) else
  let '(ei, ok2) := ok_of (u_set_tumor_spread_params (b_ipsi (ml_ext m1)) a ipsi_kw) in
  let m2 := ml_with_ext m1 (b_with_ipsi (ml_ext m1) ei) in
  if negb ok2 then (m2, None) else
  let '(ni, o3) := u_set_tumor_spread_params (b_ipsi (ml_noext m2)) a ipsi_kw in
  let m3 := ml_with_noext m2 (b_with_ipsi (ml_noext m2) ni) in
  match o3 with
  | None => (m3, None)
  | Some a3 =>
      match ml_mixing m3 with
      | Some cur =>
          let contra_kw := obj_kwargs "contra" split glob in
          let '(nc, o4) := u_set_tumor_spread_params (b_contra (ml_noext m3)) a3 contra_kw in
          let m4 := ml_with_noext m3 (b_with_contra (ml_noext m3) nc) in
          match o4 with
          | None => (m4, None)
          | Some a4 =>
              let '(first, a5) := popfirst a4 in
              let mp := match kw_get ["mixing"] glob with Some v => v | None => val_or first cur end in
              match check_unit mp with
              | None => (m4, None)
              | Some mix =>
                  let m5 := ml_with_mixing m4 mix in
                  let '(ec, ok6) := ok_of (u_set_tumor_spread_params (b_contra (ml_ext m5)) [] (mixed_kwargs mix m5)) in
                  let m6 := ml_with_ext m5 (b_with_contra (ml_ext m5) ec) in
                  (m6, if ok6 then Some a5 else None)
              end
          end
      | None =>
          let '(noext_split, _) := unflatten_and_split (sub_kwargs "noext" split) ["contra"] in
          let noext_contra_kw := obj_kwargs "contra" noext_split glob in
          let '(nc, o4) := u_set_tumor_spread_params (b_contra (ml_noext m3)) a3 noext_contra_kw in
          let m4 := ml_with_noext m3 (b_with_contra (ml_noext m3) nc) in
          match o4 with
          | None => (m4, None)
          | Some a4 =>
              let '(ext_split, _) := unflatten_and_split (sub_kwargs "ext" split) ["contra"] in
              let ext_contra_kw := obj_kwargs "contra" ext_split glob in
              let '(ec, o5) := u_set_tumor_spread_params (b_contra (ml_ext m4)) a4 ext_contra_kw in
              (ml_with_ext m4 (b_with_contra (ml_ext m4) ec), o5)
          end
      end
  end.

(** the unilateral models that receive one block of LNL spread arguments, in call
    order; every call but the last one has its return value ignored *)
Inductive leaf_id := LCentralIpsi | LCentralContra | LExtIpsi | LExtContra | LNoextIpsi | LNoextContra.
Definition ml_leaf (m : midline) (l : leaf_id) : option uni :=
  match l with
  | LCentralIpsi => option_map b_ipsi (ml_central m)
  | LCentralContra => option_map b_contra (ml_central m)
  | LExtIpsi => Some (b_ipsi (ml_ext m))
  | LExtContra => Some (b_contra (ml_ext m))
  | LNoextIpsi => Some (b_ipsi (ml_noext m))
  | LNoextContra => Some (b_contra (ml_noext m))
  end.
Definition ml_with_leaf (m : midline) (l : leaf_id) (u : uni) : midline :=
  match l with
  | LCentralIpsi => match ml_central m with Some c => ml_with_central m (b_with_ipsi c u) | None => m end
  | LCentralContra => match ml_central m with Some c => ml_with_central m (b_with_contra c u) | None => m end
  | LExtIpsi => ml_with_ext m (b_with_ipsi (ml_ext m) u)
  | LExtContra => ml_with_ext m (b_with_contra (ml_ext m) u)
  | LNoextIpsi => ml_with_noext m (b_with_ipsi (ml_noext m) u)
  | LNoextContra => ml_with_noext m (b_with_contra (ml_noext m) u)
  end.
(** call set_lnl_spread_params( *a, **kw) on each leaf in turn with the SAME args;
    the result of the last existing leaf is returned (absent leaves are skipped) *)
Fixpoint m_set_lnl_block (m : midline) (ls : list leaf_id) (a : args) (kw : kwargs) : midline * option args :=
  match ls with
  | [] => (m, Some a)
  | l :: r =>
      match ml_leaf m l with
      | None => m_set_lnl_block m r a kw
      | Some u =>
          let '(u', o) := u_set_lnl_spread_params u a kw in
          let m' := ml_with_leaf m l u' in
          match o with
          | None => (m', None)
          | Some a' => match r with [] => (m', Some a') | _ => m_set_lnl_block m' r a kw end
          end
      end
  end.

Definition m_set_lnl_spread_params (m : midline) (a : args) (kw : kwargs) : midline * option args :=
  let '(split, glob) := unflatten_and_split kw ["ipsi"; "noext"; "ext"; "contra"] in
  if ml_symL m then
    m_set_lnl_block m [LCentralIpsi; LCentralContra; LExtIpsi; LExtContra; LNoextIpsi; LNoextContra] a glob
  else
    andthen (m_set_lnl_block m [LCentralIpsi; LExtIpsi; LNoextIpsi] a (obj_kwargs "ipsi" split glob))
      (fun m1 a1 => m_set_lnl_block m1 [LCentralContra; LExtContra; LNoextContra] a1 (obj_kwargs "contra" split glob)).

Definition m_set_spread_params (m : midline) (a : args) (kw : kwargs) : midline * option args :=
  andthen (m_set_tumor_spread_params m a kw) (fun m1 a1 => m_set_lnl_spread_params m1 a1 kw).

(** Composite.set_distribution_params, branch over ext, noext, central, unknown *)
Definition m_set_distribution_params (m : midline) (a : args) (kw : kwargs) : midline * option args :=
  let '(split, glob) := unflatten_and_split kw
      (["ext"; "noext"] ++ (match ml_central m with Some _ => ["central"] | None => [] end)
                        ++ (match ml_unknown m with Some _ => ["unknown"] | None => [] end)) in
  let '(e', o1) := b_set_distribution_params (ml_ext m) a (obj_kwargs "ext" split glob) in
  let m1 := ml_with_ext m e' in
  match o1 with
  | None => (m1, None)
  | Some _ =>
      let '(n', o2) := b_set_distribution_params (ml_noext m1) a (obj_kwargs "noext" split glob) in
      let m2 := ml_with_noext m1 n' in
      match o2 with
      | None => (m2, None)
      | Some _ =>
          let '(m3, o3) :=
            match ml_central m2 with
            | None => (m2, o2)
            | Some c => let '(c', o) := b_set_distribution_params c a (obj_kwargs "central" split glob) in
                        (ml_with_central m2 c', o)
            end in
          match o3 with
          | None => (m3, None)
          | Some _ =>
              match ml_unknown m3 with
              | None => (m3, o3)
              | Some k => let '(k', o) := b_set_distribution_params k a (obj_kwargs "unknown" split glob) in
                          (ml_with_unknown m3 k', o)
              end
          end
      end
  end.

Definition m_set_params (m : midline) (a : args) (kw : kwargs) : midline * option args :=
  match m_get_params m true with
  | None => (m, None)                                    (* get_params raised: cannot happen any more *)
  | Some ps =>
      let '(before, last, after) := popat a (Z.of_nat (length ps) - 1)%Z in
      let mp := match kw_get ["midext"; "prob"] kw with Some v => Some v | None => last end in
      let r0 := match mp with
                | None => Some m
                | Some v => option_map (ml_with_midext m) (check_unit v)
                end in
      match r0 with
      | None => (m, None)
      | Some m0 =>
          andthen (m_set_spread_params m0 (before ++ after) kw)
                  (fun m1 a1 => m_set_distribution_params m1 a1 kw)
      end
  end.

(** * models.HPVUnilateral *)
Definition h_with (h : hpvmodel) (p n : uni) : hpvmodel := {| h_hpv := p; h_nohpv := n |}.
(** base_2_key = first tumour name + "toII" *)
Definition h_base2_key (h : hpvmodel) : string :=
  match tumors (u_graph (h_hpv h)) with t :: _ => edge_name t "II" | [] => edge_name "" "II" end.
(** [None] = KeyError (no arc from the first tumour to an LNL called II) *)
Definition h_get_tumor_spread_params (h : hpvmodel) (as_flat : bool) : option pdict :=
  let k := h_base2_key h in
  match kw_get [k] (u_get_tumor_spread_params (h_nohpv h) false) with
  | None => None
  | Some t =>
      let sub := [([k], t)] in
      let params := [ (["hpv"], Node (u_get_tumor_spread_params (h_hpv h) as_flat));
                      (["nohpv"], Node (if as_flat then flatten sub else sub)) ] in
      Some (maybe_flatten as_flat params)
  end.
Definition h_get_lnl_spread_params (h : hpvmodel) (as_flat : bool) : pdict :=
  maybe_flatten as_flat (u_get_lnl_spread_params (h_hpv h) as_flat).
Definition h_get_spread_params (h : hpvmodel) (as_flat : bool) : option pdict :=
  match h_get_tumor_spread_params h false with
  | None => None
  | Some params => Some (maybe_flatten as_flat (kw_update (h_get_lnl_spread_params h as_flat) params))
  end.
Definition h_get_distribution_params (h : hpvmodel) (as_flat : bool) : pdict :=
  maybe_flatten as_flat (u_get_distribution_params (h_hpv h) as_flat).
Definition h_get_params (h : hpvmodel) (as_flat : bool) : option pdict :=
  match h_get_spread_params h as_flat with
  | None => None
  | Some sp => Some (maybe_flatten as_flat (kw_update (h_get_distribution_params h as_flat) sp))
  end.

Definition hpv_kwargs (kw : kwargs) : kwargs * kwargs :=
  let '(split, glob) := unflatten_and_split kw ["HPV"; "noHPV"] in
  (obj_kwargs "HPV" split glob, obj_kwargs "noHPV" split glob).
Definition h_set_tumor_spread_params (h : hpvmodel) (a : args) (kw : kwargs) : hpvmodel * option args :=
  let '(pkw, nkw) := hpv_kwargs kw in
  match u_set_tumor_spread_params (h_hpv h) a pkw with
  | (p', None) => (h_with h p' (h_nohpv h), None)
  | (p', Some a1) =>
      match u_set_tumor_spread_params (h_nohpv h) a1 nkw with
      | (n', None) => (h_with h p' n', None)
      | (n', Some a2) => let '(n'', ok) := u_sync sel_lnl p' n' in (h_with h p' n'', if ok then Some a2 else None)
      end
  end.
Definition h_set_lnl_spread_params (h : hpvmodel) (a : args) (kw : kwargs) : hpvmodel * option args :=
  let '(pkw, nkw) := hpv_kwargs kw in
  match u_set_lnl_spread_params (h_hpv h) a pkw with
  | (p', None) => (h_with h p' (h_nohpv h), None)
  | (p', Some a1) => let '(n', o) := u_set_lnl_spread_params (h_nohpv h) a1 nkw in (h_with h p' n', o)
  end.
Definition h_set_spread_params (h : hpvmodel) (a : args) (kw : kwargs) : hpvmodel * option args :=
  andthen (h_set_tumor_spread_params h a kw) (fun h1 a1 => h_set_lnl_spread_params h1 a1 kw).
Definition h_set_distribution_params (h : hpvmodel) (a : args) (kw : kwargs) : hpvmodel * option args :=
  let '(split, glob) := unflatten_and_split kw ["hpv"; "nohpv"] in
  match u_set_distribution_params (h_hpv h) a (obj_kwargs "hpv" split glob) with
  | (p', None) => (h_with h p' (h_nohpv h), None)
  | (p', Some _) =>
      let '(n', o) := u_set_distribution_params (h_nohpv h) a (obj_kwargs "nohpv" split glob) in (h_with h p' n', o)
  end.
Definition h_set_params (h : hpvmodel) (a : args) (kw : kwargs) : hpvmodel * option args :=
  andthen (h_set_spread_params h a kw) (fun h1 a1 => h_set_distribution_params h1 a1 kw).

(** * Uniform interface over the four model classes *)
Inductive model := MUni (u : uni) | MBi (b : bilateral) | MMid (m : midline) | MHpv (h : hpvmodel).

(** Model.get_params(as_dict=True, as_flat); [None] = the call raised *)
Definition get_params (m : model) (as_flat : bool) : option pdict :=
  match m with
  | MUni u => Some (u_get_params u as_flat)
  | MBi b => Some (b_get_params b as_flat)
  | MMid ml => m_get_params ml as_flat
  | MHpv h => h_get_params h as_flat
  end.
(** Model.set_params( *args, **kwargs) *)
Definition set_params (m : model) (a : args) (kw : kwargs) : model * option args :=
  match m with
  | MUni u => let '(u', o) := u_set_params u a kw in (MUni u', o)
  | MBi b => let '(b', o) := b_set_params b a kw in (MBi b', o)
  | MMid ml => let '(ml', o) := m_set_params ml a kw in (MMid ml', o)
  | MHpv h => let '(h', o) := h_set_params h a kw in (MHpv h', o)
  end.
(** get_params(as_dict=True) as (name, value) pairs; names; get_params(as_dict=False) *)
Definition param_items (m : model) : option (list (path * Qc)) := option_map items (get_params m true).
Definition param_names (m : model) : option (list path) := option_map (map fst) (param_items m).
Definition param_values (m : model) : option (list Qc) := option_map (map snd) (param_items m).
(** the flat form obtained from the nested one *)
Definition nested_items (m : model) : option (list (path * Qc)) := option_map flat_items_dict (get_params m false).

(** every unilateral model inside a composite, with its attribute path *)
Definition b_leaves (pre : path) (b : bilateral) : list (path * uni) :=
  [(pre ++ ["ipsi"], b_ipsi b); (pre ++ ["contra"], b_contra b)].
Definition model_leaves (m : model) : list (path * uni) :=
  match m with
  | MUni u => [([], u)]
  | MBi b => b_leaves [] b
  | MMid ml => b_leaves ["ext"] (ml_ext ml) ++ b_leaves ["noext"] (ml_noext ml)
               ++ (match ml_central ml with Some c => b_leaves ["central"] c | None => [] end)
               ++ (match ml_unknown ml with Some k => b_leaves ["unknown"] k | None => [] end)
  | MHpv h => [(["hpv"], h_hpv h); (["nohpv"], h_nohpv h)]
  end.

(** * Constructors (fresh objects as the public constructors build them) *)
Definition new_uni (g : graph) (ds : list (string * dist)) (maxt : nat) : uni :=
  {| u_graph := g; u_mods := []; u_dists := ds; u_maxt := maxt |}.
(** models.Bilateral(graph_dict, is_symmetric={"tumor_spread": symT, "lnl_spread": symL}) *)
Definition new_bilateral (u : uni) (symT symL : bool) : bilateral :=
  {| b_ipsi := u; b_contra := u; b_symT := symT; b_symL := symL |}.
(** models.Midline(graph_dict, is_symmetric={"lnl_spread": symL}, use_mixing, use_central,
    use_midext_evo, marginalize_unknown): mixing_param = 0.0, midext_prob = 0.0 *)
Definition new_midline (u : uni) (use_mixing use_central use_midext_evo marginalize_unknown symL : bool) : midline :=
  {| ml_ext := new_bilateral u false symL; ml_noext := new_bilateral u false symL;
     ml_central := if use_central then Some (new_bilateral u true symL) else None;
     ml_unknown := if marginalize_unknown then Some (new_bilateral u false symL) else None;
     ml_mixing := if use_mixing then Some 0%Qc else None; ml_midext := 0%Qc;
     ml_evo := use_midext_evo; ml_symL := symL |}.
Definition new_hpv (u : uni) : hpvmodel := {| h_hpv := u; h_nohpv := u |}.

(** * The setters as one operation alphabet *)
Inductive setter := SetParams | SetTumorSpread | SetLnlSpread | SetSpread | SetDist.
Definition call_setter (s : setter) (m : model) (a : args) (kw : kwargs) : model * option args :=
  match m with
  | MUni u =>
      let '(u', o) := match s with
                      | SetParams => u_set_params u a kw | SetTumorSpread => u_set_tumor_spread_params u a kw
                      | SetLnlSpread => u_set_lnl_spread_params u a kw | SetSpread => u_set_spread_params u a kw
                      | SetDist => u_set_distribution_params u a kw end in (MUni u', o)
  | MBi b =>
      let '(b', o) := match s with
                      | SetParams => b_set_params b a kw | SetTumorSpread => b_set_tumor_spread_params b a kw
                      | SetLnlSpread => b_set_lnl_spread_params b a kw | SetSpread => b_set_spread_params b a kw
                      | SetDist => b_set_distribution_params b a kw end in (MBi b', o)
  | MMid ml =>
      let '(ml', o) := match s with
                       | SetParams => m_set_params ml a kw | SetTumorSpread => m_set_tumor_spread_params ml a kw
                       | SetLnlSpread => m_set_lnl_spread_params ml a kw | SetSpread => m_set_spread_params ml a kw
                       | SetDist => m_set_distribution_params ml a kw end in (MMid ml', o)
  | MHpv h =>
      let '(h', o) := match s with
                      | SetParams => h_set_params h a kw | SetTumorSpread => h_set_tumor_spread_params h a kw
                      | SetLnlSpread => h_set_lnl_spread_params h a kw | SetSpread => h_set_spread_params h a kw
                      | SetDist => h_set_distribution_params h a kw end in (MHpv h', o)
  end.

(** * Helpers to write down values *)
Definition vals (l : list Qc) : args := map V l.
Definition kw_of (names : list path) (l : list Qc) : kwargs := combine names (vals l).
Definition force_model (r : model * option args) : model := fst r.

(** what the correspondence check prints *)
Definition out_items (l : list (path * Qc)) : list (path * (Z * Z)) := map (fun kv => (fst kv, qout (snd kv))) l.
Definition out_val (v : val) : option (Z * Z) := match v with V q => Some (qout q) | Bad => None end.
Definition out_res (o : option args) : option (list (option (Z * Z))) := option_map (map out_val) o.
Definition out_leaf (u : uni) : list (path * (Z * Z)) := out_items (items (u_get_params u true)).
Definition out_model (m : model) :=
  (option_map out_items (param_items m), option_map out_items (nested_items m),
   map (fun pu => (fst pu, out_leaf (snd pu))) (model_leaves m),
   match m with MMid ml => (option_map qout (ml_mixing ml), qout (ml_midext ml)) | _ => (None, qout 0%Qc) end).
(** a history of setter calls from a given object: what is observable after each call *)
Fixpoint run_calls (m : model) (cs : list (setter * args * kwargs)) :=
  match cs with
  | [] => []
  | (s, a, kw) :: r => let '(m', o) := call_setter s m a kw in (out_res o, out_model m') :: run_calls m' r
  end.
