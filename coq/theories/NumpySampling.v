(** NumpySampling: the samplers of lymph ([utils.draw_diagnosis], [Distribution.draw_diag_times],
    [Unilateral.draw_diagnosis], [Unilateral.draw_patients], [Bilateral.draw_patients]) read line by line as the Python
    code is written, with the random number generator threaded through the statements, and the STATIC proofs that these
    readings equal the hand-written model of Sampling.v ([draw_diagnosis_with], [draw_diag_time], [draw_diagnosis],
    [draw_patients_uni], [table_uni], [draw_patients_bi], [table_bi]).

    Reading of the generator (trusted base, see also the docstring of harness/translate13.py): [rng] is a mutable object;
    its state is the STREAM of uniform numbers on [0, 1) it is going to produce, next one first (a [list Qc]; the real
    stream never ends, the lemmas assume that the list is at least as long as the number of uniforms consumed).
    [rng_next] pops one number.  [rng.choice(a, p=p)] (size = None) pops ONE uniform u and returns
    [a[searchsorted(cumsum(p) / sum(p), u, side="right")]] = [nth (Sampling.choice p u) a]; [rng.choice(a, p=p, size=n)]
    does that n times, in order, and returns the n results as an array ([Generator.choice] draws [random(size)], which
    fills the output array in order from the same bit stream that n scalar calls would use).  A function that is handed
    the generator returns its value TOGETHER WITH the generator's new state.

    The source translator (harness/translate13.py) re-generates every [np_...] term from the Python source on every run
    and checks the generated term against the definition here by [reflexivity] (conversion); the equality with the model
    follows from the static theorems [np_..._model].

    NOT modelled: numpy raises ValueError when [a] and [p] differ in length, when p has negative entries or does not sum
    to 1 (within a tolerance); IndexError for an index out of range.  The list primitives return a default element
    instead; the theorems carry the hypothesis that the drawn indices are in range (stated on the MODEL's result), which
    [uni_draw_diagnosis_in_range], [uni_draws_in_range_ok], [bi_draws_in_range_ok] discharge from the hypotheses of the
    C16 theorems (weights valid, uniforms in [0, 1)); [np_uni_draw_patients_C16], [np_bi_draw_patients_C16].
    pandas' [sort_index] is not interpreted (a parameter of [np_bi_draw_patients]). *)
From LymphModel Require Import Base States Linalg Graph Transition Observation Dist Unilateral UniStatements
  Models Bilateral BiStatements LikelihoodProofs BilateralProofs Numpy NumpyTransition NumpyPipelines NumpyPosterior Sampling
  SamplingProofs.
Local Open Scope nat_scope.
Open Scope Qc_scope.

(** * the generator *)
Definition rng_next (rng : list Qc) : Qc * list Qc := (hd 0 rng, tl rng).

(** the type of [rng.choice(..., size=size)]: a scalar for size = None, an array otherwise *)
Definition np_sized (A : Type) (size : option nat) : Type := match size with None => A | Some _ => list A end.

(** [n] draws one after the other; [d] stands for an index out of range (numpy: IndexError) *)
Fixpoint np_rng_choices {A} (d : A) (a : list A) (p : vec) (n : nat) (rng : list Qc) : list A * list Qc :=
  match n with
  | O => ([], rng)
  | S n' => let '(u, rng) := rng_next rng in
            let '(r, rng) := np_rng_choices d a p n' rng in
            (nth (choice p u) a d :: r, rng)
  end.
(** rng.choice(a=a, p=p, size=size) *)
Definition np_rng_choice {A} (d : A) (a : list A) (p : vec) (size : option nat) (rng : list Qc)
  : np_sized A size * list Qc :=
  match size return np_sized A size * list Qc with
  | None => let '(u, rng) := rng_next rng in (nth (choice p u) a d, rng)
  | Some n => np_rng_choices d a p n rng
  end.

(** [E for x in l] where evaluating E uses the generator: the elements are evaluated in order *)
Fixpoint py_comp_rng {X Y} (f : X -> list Qc -> Y * list Qc) (l : list X) (rng : list Qc) : list Y * list Qc :=
  match l with
  | [] => ([], rng)
  | x :: r => let '(y, rng) := f x rng in
              let '(ys, rng) := py_comp_rng f r rng in
              (y :: ys, rng)
  end.

(** * numpy / pandas primitives *)
(** np.arange(n) *)
Definition np_arange (n : nat) : list nat := seq 0 n.
(** M[idx] for a list / 1-D array of row indices *)
Definition np_take_rows {A} (M : list (list A)) (idx : list nat) : list (list A) := map (fun i => nth i M []) idx.
(** M.astype(bool) for an integer array *)
Definition np_truth (d : nat) : bool := negb (Nat.eqb d 0).
Definition np_astype_bool (M : list (list nat)) : list (list bool) := map (map np_truth) M.
(** sum(x) (the builtin, on numbers), np.array(x) / s *)
Definition py_sum (x : vec) : Qc := sumQ x.
Definition np_array_div (x : vec) (s : Qc) : vec := map (fun a => a / s) x.
(** np.concatenate([A, B], axis=1) *)
Definition np_concat1 {A} (X Y : list (list A)) : list (list A) := map2 (@app A) X Y.

(** column labels with three levels; pd.MultiIndex.from_product([A, B, C]): lexicographic order, last level fastest *)
Definition label := (string * string * string)%type.
Definition pd_from_product (A B C : list string) : list label :=
  flat_map (fun a => flat_map (fun b => map (fun c => (a, b, c)) C) B) A.
(** a DataFrame: labelled boolean columns given as the rows of a 2-D array (column k of [fr_rows] has the label
    [nth k fr_cols]) and further columns of strings added by [frame[key] = values] *)
Record np_frame := mk_frame { fr_cols : list label; fr_rows : list (list bool); fr_extra : list (label * list string) }.
(** pd.DataFrame(data, columns=cols) *)
Definition pd_DataFrame (data : list (list bool)) (cols : list label) : np_frame := mk_frame cols data [].
(** frame[key] = values  (key not among the labels of the frame: a new column at the end) *)
Definition pd_set_column (f : np_frame) (key : label) (values : list string) : np_frame :=
  mk_frame (fr_cols f) (fr_rows f) (fr_extra f ++ [(key, values)]).
(** frame.reorder_levels(order=[1, 0, 2], axis="columns"): the first two levels of every label swap places *)
Definition pd_reorder_102 (f : np_frame) : np_frame :=
  mk_frame (map (fun '(a, b, c) => (b, a, c)) (fr_cols f)) (fr_rows f) (fr_extra f).

(** * general lemmas *)
Lemma np_rng_choices_eq {A} (d : A) a p : forall n rng, (n <= length rng)%nat ->
  np_rng_choices d a p n rng = (map (fun u => nth (choice p u) a d) (firstn n rng), skipn n rng).
Proof.
  induction n as [|n IH]; intros rng H; [reflexivity|].
  destruct rng as [|u rng]; cbn [length] in H; [lia|].
  cbn [np_rng_choices rng_next hd tl]. rewrite IH by lia. reflexivity.
Qed.

Lemma py_comp_rng_map2 {X Y} (f : X -> list Qc -> Y * list Qc) (g : X -> Qc -> Y) :
  (forall x rng, f x rng = (g x (hd 0 rng), tl rng)) ->
  forall l rng, (length l <= length rng)%nat -> py_comp_rng f l rng = (map2 g l rng, skipn (length l) rng).
Proof.
  intros Hf. induction l as [|x l IH]; intros rng H; [reflexivity|].
  destruct rng as [|u rng]; cbn [length] in H; [lia|].
  cbn [py_comp_rng]. rewrite Hf. cbn [hd tl]. rewrite IH by lia. reflexivity.
Qed.

Lemma map2_map_l {X A B C} (f : A -> B -> C) (h : X -> A) : forall l lb, map2 f (map h l) lb = map2 (fun x b => f (h x) b) l lb.
Proof. induction l as [|x l IH]; intros [|b lb]; cbn [map map2]; try reflexivity. rewrite IH. reflexivity. Qed.

Lemma map2_ext_Forall {A B C} (P : C -> Prop) (f f' : A -> B -> C) : (forall a b, P (f a b) -> f' a b = f a b) ->
  forall la lb, Forall P (map2 f la lb) -> map2 f' la lb = map2 f la lb.
Proof.
  intros H. induction la as [|a la IH]; intros [|b lb] HF; cbn [map2] in *; try reflexivity.
  inversion HF; subst. rewrite H by assumption. rewrite IH by assumption. reflexivity.
Qed.

Lemma map2_firstn_l {A B C} (f : A -> B -> C) : forall la lb, map2 f la (firstn (length la) lb) = map2 f la lb.
Proof. induction la as [|a la IH]; intros [|b lb]; cbn [length firstn map2]; try reflexivity. rewrite IH. reflexivity. Qed.

Lemma nth_arange k n : (k < n)%nat -> nth k (np_arange n) 0%nat = k.
Proof. intros H. unfold np_arange. rewrite seq_nth by exact H. reflexivity. Qed.

(** * utils.draw_diagnosis *)
(** state_dists_given_time = state_evolution[diagnosis_times]
    observation_dists_given_time = state_dists_given_time @ observation_matrix
    drawn_observation_idxs = [rng.choice(a=np.arange(len(possible_diagnosis)), p=dist) for dist in observation_dists_given_time]
    return possible_diagnosis[drawn_observation_idxs].astype(bool) *)
Definition np_draw_diagnosis (diagnosis_times : list nat) (state_evolution observation_matrix : mat)
  (possible_diagnosis : list (list nat)) (rng : list Qc) : list (list bool) * list Qc :=
  let state_dists_given_time := np_take_rows state_evolution diagnosis_times in
  let observation_dists_given_time := np_matmul state_dists_given_time observation_matrix in
  let '(drawn_observation_idxs, rng) := py_comp_rng (fun dist rng =>
      np_rng_choice 0%nat (np_arange (length possible_diagnosis)) dist None rng) observation_dists_given_time rng in
  (np_astype_bool (np_take_rows possible_diagnosis drawn_observation_idxs), rng).

(** the rows of [possible_diagnosis] that the model's indices select, as booleans *)
Definition obs_rows (possible_diagnosis : list (list nat)) (idx : list nat) : list (list bool) :=
  map (fun o => map np_truth (nth o possible_diagnosis [])) idx.

Lemma comp_choice_arange (n : nat) (ps : list vec) : forall rng, (length ps <= length rng)%nat ->
  py_comp_rng (fun dist rng => np_rng_choice 0%nat (np_arange n) dist None rng) ps rng
  = (map2 (fun p u => nth (choice p u) (np_arange n) 0%nat) ps rng, skipn (length ps) rng).
Proof. intros rng H. apply (py_comp_rng_map2 _ (fun p u => nth (choice p u) (np_arange n) 0%nat)); [|exact H]. reflexivity. Qed.

Theorem np_draw_diagnosis_model times evo O PD xs :
  (length times <= length xs)%nat ->
  Forall (fun o => (o < length PD)%nat) (draw_diagnosis_with (ncols O) evo O times xs) ->
  np_draw_diagnosis times evo O PD xs
  = (obs_rows PD (draw_diagnosis_with (ncols O) evo O times xs), skipn (length times) xs).
Proof.
  intros Hlen Hrange. unfold np_draw_diagnosis. cbv zeta.
  rewrite comp_choice_arange by (unfold np_matmul, np_take_rows; rewrite !map_length; exact Hlen).
  unfold np_matmul, np_take_rows, np_astype_bool, obs_rows, draw_diagnosis_with in *. rewrite !map_length, map_map.
  f_equal. rewrite map_map, !map2_map_l. unfold np_vecmat.
  rewrite (map2_ext_Forall (fun o => (o < length PD)%nat)
             (fun t x => choice (vecmat_w (ncols O) (nth t evo []) O) x)); [reflexivity| |exact Hrange].
  intros t x H. apply nth_arange. exact H.
Qed.

(** * Distribution.draw_diag_times *)
(** return rng.choice(a=self.support, p=self.pmf, size=num) *)
Definition np_draw_diag_times (support : list nat) (pmf : vec) (num : option nat) (rng : list Qc)
  : np_sized nat num * list Qc :=
  np_rng_choice 0%nat support pmf num rng.

(** num = None (the call of draw_patients): one uniform, the time [draw_diag_time] of the model *)
Theorem np_draw_diag_times_model u s x xs : (draw_diag_time u s x <= u_maxt u)%nat ->
  np_draw_diag_times (np_arange (u_maxt u + 1)) (stage_pmf u s) None (x :: xs) = (draw_diag_time u s x, xs).
Proof.
  intros H. unfold np_draw_diag_times, np_rng_choice, rng_next, draw_diag_time in *. cbn [hd tl].
  rewrite nth_arange by lia. reflexivity.
Qed.
(** num = n: n uniforms in order *)
Theorem np_draw_diag_times_array_model u s n xs : (n <= length xs)%nat ->
  Forall (fun t => (t <= u_maxt u)%nat) (map (draw_diag_time u s) (firstn n xs)) ->
  np_draw_diag_times (np_arange (u_maxt u + 1)) (stage_pmf u s) (Some n) xs
  = (map (draw_diag_time u s) (firstn n xs), skipn n xs).
Proof.
  intros Hn HF. unfold np_draw_diag_times, np_rng_choice. rewrite np_rng_choices_eq by exact Hn. f_equal.
  rewrite Forall_map in HF. apply map_ext_in. intros a Ha. rewrite Forall_forall in HF. specialize (HF a Ha).
  apply nth_arange. cbv beta in HF. lia.
Qed.

(** * Unilateral.draw_diagnosis *)
(** state_probs_given_time = self.state_dist_evo()[diag_times]
    obs_probs_given_time = state_probs_given_time @ self.observation_matrix()
    obs_indices = np.arange(len(self.obs_list))
    drawn_obs_idx = [rng.choice(obs_indices, p=obs_prob) for obs_prob in obs_probs_given_time]
    return self.obs_list[drawn_obs_idx].astype(bool) *)
Definition np_uni_draw_diagnosis (transition_matrix : mat) (state_list : list state) (max_time : nat)
  (observation_matrix : mat) (obs_list : list state) (diag_times : list nat) (rng : list Qc)
  : list (list bool) * list Qc :=
  let state_probs_given_time := np_take_rows (np_state_dist_evo transition_matrix state_list max_time) diag_times in
  let obs_probs_given_time := np_matmul state_probs_given_time observation_matrix in
  let obs_indices := np_arange (length obs_list) in
  let '(drawn_obs_idx, rng) := py_comp_rng (fun obs_prob rng =>
      np_rng_choice 0%nat obs_indices obs_prob None rng) obs_probs_given_time rng in
  (np_astype_bool (np_take_rows obs_list drawn_obs_idx), rng).

Lemma ncols_observation_matrix u : wf_graphb (u_graph u) = true -> ncols (observation_matrix u) = obs_width u.
Proof. intros Hwf. apply (ncols_shape _ _ _ (observation_matrix_shape u Hwf) (nstates_pos _ Hwf)). Qed.

Theorem np_uni_draw_diagnosis_model u times xs :
  wf_graphb (u_graph u) = true -> (length times <= length xs)%nat ->
  Forall (fun o => (o < length (u_obs_list u))%nat) (draw_diagnosis u times xs) ->
  np_uni_draw_diagnosis (transition_matrix u) (u_states u) (u_maxt u) (observation_matrix u) (u_obs_list u) times xs
  = (obs_rows (u_obs_list u) (draw_diagnosis u times xs), skipn (length times) xs).
Proof.
  intros Hwf Hlen Hrange.
  change (np_draw_diagnosis times (np_state_dist_evo (transition_matrix u) (u_states u) (u_maxt u))
            (observation_matrix u) (u_obs_list u) xs
          = (obs_rows (u_obs_list u) (draw_diagnosis u times xs), skipn (length times) xs)).
  rewrite (np_state_dist_evo_model u Hwf). unfold draw_diagnosis in *.
  rewrite <- (ncols_observation_matrix u Hwf) in *. apply np_draw_diagnosis_model; assumption.
Qed.

(** * Unilateral.draw_patients *)
(** if sum(stage_dist) != 1.0: stage_dist = np.array(stage_dist) / sum(stage_dist)
    drawn_t_stages = rng.choice(a=self.get_t_stages("distributions"), p=stage_dist, size=num)
    distributions = self.get_all_distributions()
    drawn_diag_times = [distributions[t_stage].draw_diag_times(rng=rng) for t_stage in drawn_t_stages]
    drawn_obs = self.draw_diagnosis(drawn_diag_times, rng=rng)
    modality_names = list(self.get_all_modalities().keys()); lnl_names = list(self.graph.lnls.keys())
    multi_cols = pd.MultiIndex.from_product([modality_names, ["ipsi"], lnl_names])
    dataset = pd.DataFrame(drawn_obs, columns=multi_cols); dataset[(RAW_T_COL)] = drawn_t_stages
    return dataset
    [t_stages] = the keys of the dict of distributions; [dist_support t], [dist_pmf t] = .support, .pmf of the
    distribution stored under the key t; [mod_keys], [lnl_keys] = the keys of the dicts of modalities / LNLs *)
Definition np_uni_draw_patients (transition_matrix : mat) (state_list : list state) (max_time : nat)
  (observation_matrix : mat) (obs_list : list state) (t_stages : list string) (dist_support : string -> list nat)
  (dist_pmf : string -> vec) (mod_keys lnl_keys : list string) (num : nat) (stage_dist : vec) (rng : list Qc)
  : np_frame * list Qc :=
  let stage_dist := if negb (Qc_eqb (py_sum stage_dist) 1) then np_array_div stage_dist (py_sum stage_dist)
                    else stage_dist in
  let '(drawn_t_stages, rng) := np_rng_choice ""%string t_stages stage_dist (Some num) rng in
  let '(drawn_diag_times, rng) := py_comp_rng (fun t_stage rng =>
      np_draw_diag_times (dist_support t_stage) (dist_pmf t_stage) None rng) drawn_t_stages rng in
  let '(drawn_obs, rng) := np_uni_draw_diagnosis transition_matrix state_list max_time observation_matrix obs_list
                             drawn_diag_times rng in
  let modality_names := mod_keys in
  let lnl_names := lnl_keys in
  let multi_cols := pd_from_product modality_names ["ipsi"%string] lnl_names in
  let dataset := pd_DataFrame drawn_obs multi_cols in
  let dataset := pd_set_column dataset ("tumor"%string, "1"%string, "t_stage"%string) drawn_t_stages in
  (dataset, rng).

(** the readings of [self] for a model [u] *)
Definition total_pmf (u : uni) (t : string) : vec := match get_pmf u t with inr p => p | inl _ => [] end.
Definition uni_support (u : uni) (t : string) : list nat := np_arange (u_maxt u + 1).
Definition RAW_T_COL : label := ("tumor"%string, "1"%string, "t_stage"%string).

Lemma renorm_np sd :
  (if negb (Qc_eqb (py_sum sd) 1) then np_array_div sd (py_sum sd) else sd) = renorm_stage_dist sd.
Proof. unfold renorm_stage_dist, py_sum, np_array_div. destruct (Qc_eqb (sumQ sd) 1); reflexivity. Qed.

Lemma map3_length_eq {A B C D} (f : A -> B -> C -> D) : forall la lb lc n,
  length la = n -> length lb = n -> length lc = n -> length (map3 f la lb lc) = n.
Proof.
  induction la as [|a la IH]; intros [|b lb] [|c lc] n Ha Hb Hc; cbn [length map3] in *; subst; try congruence; try discriminate.
  f_equal. apply IH; congruence.
Qed.
Lemma map3_triple_map {A B C D} (g : A * B * C -> D) : forall (la : list A) (lb : list B) (lc : list C),
  map g (map3 (fun a b c => (a, b, c)) la lb lc) = map3 (fun a b c => g (a, b, c)) la lb lc.
Proof. induction la as [|a la IH]; intros [|b lb] [|c lc]; cbn [map map3]; try reflexivity. rewrite IH. reflexivity. Qed.
Lemma map3_proj1 {A B C D} (g : A -> D) : forall (la : list A) (lb : list B) (lc : list C),
  length la = length lb -> length lb = length lc -> map3 (fun a _ _ => g a) la lb lc = map g la.
Proof.
  induction la as [|a la IH]; intros [|b lb] [|c lc] H1 H2; cbn [length map map3] in *; try reflexivity; try discriminate.
  rewrite IH by congruence. reflexivity.
Qed.
Lemma map3_proj2 {A B C D} (g : B -> D) : forall (la : list A) (lb : list B) (lc : list C),
  length la = length lb -> length lb = length lc -> map3 (fun _ b _ => g b) la lb lc = map g lb.
Proof.
  induction la as [|a la IH]; intros [|b lb] [|c lc] H1 H2; cbn [length map map3] in *; try reflexivity; try discriminate.
  rewrite IH by congruence. reflexivity.
Qed.
Lemma map3_proj3 {A B C D} (g : C -> D) : forall (la : list A) (lb : list B) (lc : list C),
  length la = length lb -> length lb = length lc -> map3 (fun _ _ c => g c) la lb lc = map g lc.
Proof.
  induction la as [|a la IH]; intros [|b lb] [|c lc] H1 H2; cbn [length map map3] in *; try reflexivity; try discriminate.
  rewrite IH by congruence. reflexivity.
Qed.

(** the three lists behind [draw_patients_uni] *)
Definition drawn_stages (sd : vec) (num : nat) (xs : list Qc) : list nat := map (choice (renorm_stage_dist sd)) (firstn num xs).
Definition drawn_times (u : uni) (sd : vec) (num : nat) (xs : list Qc) : list nat :=
  map2 (draw_diag_time u) (drawn_stages sd num xs) (firstn num (skipn num xs)).
Definition drawn_obs_idx (u : uni) (sd : vec) (num : nat) (xs : list Qc) : list nat :=
  draw_diagnosis u (drawn_times u sd num xs) (firstn num (skipn num (skipn num xs))).

Lemma draw_patients_uni_parts u num sd xs :
  draw_patients_uni u num sd xs
  = map3 (fun s t o => (s, t, o)) (drawn_stages sd num xs) (drawn_times u sd num xs) (drawn_obs_idx u sd num xs).
Proof. reflexivity. Qed.

Lemma drawn_lengths u num sd xs : (3 * num <= length xs)%nat ->
  length (drawn_stages sd num xs) = num /\ length (drawn_times u sd num xs) = num /\ length (drawn_obs_idx u sd num xs) = num.
Proof.
  intros H.
  assert (H1 : length (drawn_stages sd num xs) = num) by (unfold drawn_stages; rewrite map_length, firstn_length_le; lia).
  assert (H2 : length (drawn_times u sd num xs) = num).
  { unfold drawn_times. rewrite map2_length, H1, firstn_length_le by (rewrite skipn_length; lia). apply Nat.min_id. }
  split; [exact H1|]. split; [exact H2|].
  unfold drawn_obs_idx, draw_diagnosis, draw_diagnosis_with. rewrite map2_length, H2, firstn_length_le by (rewrite !skipn_length; lia).
  apply Nat.min_id.
Qed.

Lemma draw_patients_uni_projs u num sd xs : (3 * num <= length xs)%nat ->
  map (fun d => fst (fst d)) (draw_patients_uni u num sd xs) = drawn_stages sd num xs /\
  map (fun d => snd (fst d)) (draw_patients_uni u num sd xs) = drawn_times u sd num xs /\
  map (fun d => snd d) (draw_patients_uni u num sd xs) = drawn_obs_idx u sd num xs.
Proof.
  intros H. destruct (drawn_lengths u num sd xs H) as [H1 [H2 H3]]. rewrite draw_patients_uni_parts, !map3_triple_map.
  cbn [fst snd]. split; [|split].
  - rewrite (map3_proj1 (fun a => a)) by congruence. apply map_id.
  - rewrite (map3_proj2 (fun a => a)) by congruence. apply map_id.
  - rewrite (map3_proj3 (fun a => a)) by congruence. apply map_id.
Qed.

(** the hypothesis "all drawn indices are in range", on the model's result *)
Definition uni_draws_in_range (u : uni) (ds : list (nat * nat * nat)) : Prop :=
  Forall (fun d => (snd (fst d) <= u_maxt u)%nat /\ (snd d < length (u_obs_list u))%nat) ds.

(** what the frame contains, in terms of the model's draws *)
Definition uni_frame (u : uni) (ds : list (nat * nat * nat)) : np_frame :=
  mk_frame (pd_from_product (u_mod_names u) ["ipsi"%string] (u_lnls u))
           (obs_rows (u_obs_list u) (map (fun d => snd d) ds))
           [(RAW_T_COL, map (fun d => stage_name u (fst (fst d))) ds)].

Theorem np_uni_draw_patients_model u num sd xs :
  wf_graphb (u_graph u) = true -> (3 * num <= length xs)%nat ->
  uni_draws_in_range u (draw_patients_uni u num sd xs) ->
  np_uni_draw_patients (transition_matrix u) (u_states u) (u_maxt u) (observation_matrix u) (u_obs_list u)
                       (stage_names u) (uni_support u) (total_pmf u) (u_mod_names u) (u_lnls u) num sd xs
  = (uni_frame u (draw_patients_uni u num sd xs), skipn num (skipn num (skipn num xs))).
Proof.
  intros Hwf Hlen Hrange.
  destruct (drawn_lengths u num sd xs Hlen) as [L1 [L2 L3]].
  destruct (draw_patients_uni_projs u num sd xs Hlen) as [P1 [P2 P3]].
  assert (Rt : Forall (fun t => (t <= u_maxt u)%nat) (drawn_times u sd num xs)).
  { rewrite <- P2. apply Forall_map. eapply Forall_impl; [|exact Hrange]. intros d [H _]. exact H. }
  assert (Ro : Forall (fun o => (o < length (u_obs_list u))%nat) (drawn_obs_idx u sd num xs)).
  { rewrite <- P3. apply Forall_map. eapply Forall_impl; [|exact Hrange]. intros d [_ H]. exact H. }
  unfold np_uni_draw_patients, uni_frame. rewrite renorm_np.
  (* the T-stages *)
  unfold np_rng_choice at 1. rewrite np_rng_choices_eq by lia.
  fold (stage_name u). rewrite <- (map_map (choice (renorm_stage_dist sd)) (stage_name u)). fold (drawn_stages sd num xs).
  (* the times *)
  rewrite (py_comp_rng_map2 _ (fun t x => nth (choice (total_pmf u t) x) (uni_support u t) 0%nat))
    by (try reflexivity; rewrite map_length, L1, skipn_length; lia).
  rewrite map_length, L1, map2_map_l.
  assert (Et : map2 (fun s x => nth (choice (total_pmf u (stage_name u s)) x) (uni_support u (stage_name u s)) 0%nat)
                    (drawn_stages sd num xs) (skipn num xs) = drawn_times u sd num xs).
  { unfold drawn_times. rewrite <- (map2_firstn_l _ (drawn_stages sd num xs) (skipn num xs)), L1.
    apply (map2_ext_Forall (fun t => (t <= u_maxt u)%nat)); [|exact Rt].
    intros s x H. unfold uni_support. change (total_pmf u (stage_name u s)) with (stage_pmf u s). apply nth_arange. lia. }
  rewrite Et.
  (* the observations *)
  assert (Eo : draw_diagnosis u (drawn_times u sd num xs) (skipn num (skipn num xs)) = drawn_obs_idx u sd num xs).
  { unfold drawn_obs_idx, draw_diagnosis, draw_diagnosis_with. rewrite <- (map2_firstn_l _ (drawn_times u sd num xs) (skipn num (skipn num xs))), L2. reflexivity. }
  rewrite np_uni_draw_diagnosis_model; [|exact Hwf|rewrite L2, !skipn_length; lia|rewrite Eo; exact Ro].
  rewrite Eo, L2. cbv zeta. unfold pd_set_column, pd_DataFrame. cbn [fr_cols fr_rows fr_extra app].
  rewrite P3, <- P1, map_map. reflexivity.
Qed.

(** * Bilateral.draw_patients *)
(** the first two steps, shared by the unilateral and the bilateral sampler *)
Lemma np_draw_stages u num sd xs : (num <= length xs)%nat ->
  np_rng_choices ""%string (stage_names u) (renorm_stage_dist sd) num xs
  = (map (stage_name u) (drawn_stages sd num xs), skipn num xs).
Proof.
  intros H. rewrite np_rng_choices_eq by exact H. unfold drawn_stages. rewrite map_map. reflexivity.
Qed.
Lemma np_draw_times u num sd xs : (2 * num <= length xs)%nat ->
  Forall (fun t => (t <= u_maxt u)%nat) (drawn_times u sd num xs) ->
  py_comp_rng (fun t_stage rng => np_draw_diag_times (uni_support u t_stage) (total_pmf u t_stage) None rng)
              (map (stage_name u) (drawn_stages sd num xs)) (skipn num xs)
  = (drawn_times u sd num xs, skipn num (skipn num xs)).
Proof.
  intros Hlen Rt.
  assert (L1 : length (drawn_stages sd num xs) = num) by (unfold drawn_stages; rewrite map_length, firstn_length_le; lia).
  rewrite (py_comp_rng_map2 _ (fun t x => nth (choice (total_pmf u t) x) (uni_support u t) 0%nat))
    by (try reflexivity; rewrite map_length, L1, skipn_length; lia).
  rewrite map_length, L1, map2_map_l. f_equal.
  unfold drawn_times. rewrite <- (map2_firstn_l _ (drawn_stages sd num xs) (skipn num xs)), L1.
  apply (map2_ext_Forall (fun t => (t <= u_maxt u)%nat)); [|exact Rt].
  intros s x H. unfold uni_support. change (total_pmf u (stage_name u s)) with (stage_pmf u s). apply nth_arange. lia.
Qed.

(** if sum(stage_dist) != 1.0: stage_dist = np.array(stage_dist) / sum(stage_dist)
    drawn_t_stages = rng.choice(a=self.t_stages, p=stage_dist, size=num)
    drawn_diag_times = [self.get_distribution(t_stage).draw_diag_times(rng=rng) for t_stage in drawn_t_stages]
    drawn_obs_ipsi = self.ipsi.draw_diagnosis(drawn_diag_times, rng=rng)
    drawn_obs_contra = self.contra.draw_diagnosis(drawn_diag_times, rng=rng)
    drawn_obs = np.concatenate([drawn_obs_ipsi, drawn_obs_contra], axis=1)
    sides = ["ipsi", "contra"]; modality_names = list(self.get_all_modalities().keys())
    lnl_names = list(self.ipsi.graph.lnls.keys())
    multi_cols = pd.MultiIndex.from_product([sides, modality_names, lnl_names])
    dataset = pd.DataFrame(drawn_obs, columns=multi_cols)
    dataset = dataset.reorder_levels(order=[1, 0, 2], axis="columns")
    dataset = dataset.sort_index(axis="columns", level=0)
    dataset[("tumor", "1", "t_stage")] = drawn_t_stages
    return dataset *)
Definition np_bi_draw_patients (ipsi_transition_matrix : mat) (ipsi_state_list : list state) (ipsi_max_time : nat)
  (ipsi_observation_matrix : mat) (ipsi_obs_list : list state)
  (contra_transition_matrix : mat) (contra_state_list : list state) (contra_max_time : nat)
  (contra_observation_matrix : mat) (contra_obs_list : list state)
  (t_stages : list string) (dist_support : string -> list nat) (dist_pmf : string -> vec) (mod_keys lnl_keys : list string)
  (pd_sort_index_columns : np_frame -> np_frame) (num : nat) (stage_dist : vec) (rng : list Qc) : np_frame * list Qc :=
  let stage_dist := if negb (Qc_eqb (py_sum stage_dist) 1) then np_array_div stage_dist (py_sum stage_dist)
                    else stage_dist in
  let '(drawn_t_stages, rng) := np_rng_choice ""%string t_stages stage_dist (Some num) rng in
  let '(drawn_diag_times, rng) := py_comp_rng (fun t_stage rng =>
      np_draw_diag_times (dist_support t_stage) (dist_pmf t_stage) None rng) drawn_t_stages rng in
  let '(drawn_obs_ipsi, rng) := np_uni_draw_diagnosis ipsi_transition_matrix ipsi_state_list ipsi_max_time
                                  ipsi_observation_matrix ipsi_obs_list drawn_diag_times rng in
  let '(drawn_obs_contra, rng) := np_uni_draw_diagnosis contra_transition_matrix contra_state_list contra_max_time
                                    contra_observation_matrix contra_obs_list drawn_diag_times rng in
  let drawn_obs := np_concat1 drawn_obs_ipsi drawn_obs_contra in
  let sides := ["ipsi"%string; "contra"%string] in
  let modality_names := mod_keys in
  let lnl_names := lnl_keys in
  let multi_cols := pd_from_product sides modality_names lnl_names in
  let dataset := pd_DataFrame drawn_obs multi_cols in
  let dataset := pd_reorder_102 dataset in
  let dataset := pd_sort_index_columns dataset in
  let dataset := pd_set_column dataset ("tumor"%string, "1"%string, "t_stage"%string) drawn_t_stages in
  (dataset, rng).

Definition bi_obs_ipsi (b : bilateral) (sd : vec) (num : nat) (xs : list Qc) : list nat :=
  drawn_obs_idx (b_ipsi b) sd num xs.
Definition bi_obs_contra (b : bilateral) (sd : vec) (num : nat) (xs : list Qc) : list nat :=
  draw_diagnosis (b_contra b) (drawn_times (b_ipsi b) sd num xs) (firstn num (skipn num (skipn num (skipn num xs)))).

Lemma draw_patients_bi_parts b num sd xs :
  draw_patients_bi b num sd xs
  = map4 (fun s t i c => (s, t, i, c)) (drawn_stages sd num xs) (drawn_times (b_ipsi b) sd num xs)
         (bi_obs_ipsi b sd num xs) (bi_obs_contra b sd num xs).
Proof. reflexivity. Qed.

Lemma map4_quad_map {A B C D E} (g : A * B * C * D -> E) : forall (la : list A) (lb : list B) (lc : list C) (ld : list D),
  map g (map4 (fun a b c d => (a, b, c, d)) la lb lc ld) = map4 (fun a b c d => g (a, b, c, d)) la lb lc ld.
Proof. induction la as [|a la IH]; intros [|b lb] [|c lc] [|d ld]; cbn [map map4]; try reflexivity. rewrite IH. reflexivity. Qed.
Ltac map4_proj_tac :=
  let IH := fresh "IH" in
  intros la; induction la as [|a la IH]; intros [|b lb] [|c lc] [|d ld] H1 H2 H3; cbn [length map map4] in *;
  try reflexivity; try discriminate; rewrite IH by congruence; reflexivity.
Lemma map4_proj1 {A B C D E} (g : A -> E) : forall (la : list A) (lb : list B) (lc : list C) (ld : list D),
  length la = length lb -> length lb = length lc -> length lc = length ld -> map4 (fun a _ _ _ => g a) la lb lc ld = map g la.
Proof. map4_proj_tac. Qed.
Lemma map4_proj2 {A B C D E} (g : B -> E) : forall (la : list A) (lb : list B) (lc : list C) (ld : list D),
  length la = length lb -> length lb = length lc -> length lc = length ld -> map4 (fun _ b _ _ => g b) la lb lc ld = map g lb.
Proof. map4_proj_tac. Qed.
Lemma map4_proj3 {A B C D E} (g : C -> E) : forall (la : list A) (lb : list B) (lc : list C) (ld : list D),
  length la = length lb -> length lb = length lc -> length lc = length ld -> map4 (fun _ _ c _ => g c) la lb lc ld = map g lc.
Proof. map4_proj_tac. Qed.
Lemma map4_proj4 {A B C D E} (g : D -> E) : forall (la : list A) (lb : list B) (lc : list C) (ld : list D),
  length la = length lb -> length lb = length lc -> length lc = length ld -> map4 (fun _ _ _ d => g d) la lb lc ld = map g ld.
Proof. map4_proj_tac. Qed.

Lemma bi_drawn_lengths b num sd xs : (4 * num <= length xs)%nat ->
  length (drawn_stages sd num xs) = num /\ length (drawn_times (b_ipsi b) sd num xs) = num /\
  length (bi_obs_ipsi b sd num xs) = num /\ length (bi_obs_contra b sd num xs) = num.
Proof.
  intros H. destruct (drawn_lengths (b_ipsi b) num sd xs) as [H1 [H2 H3]]; [lia|].
  split; [exact H1|]. split; [exact H2|]. split; [exact H3|].
  unfold bi_obs_contra, draw_diagnosis, draw_diagnosis_with.
  rewrite map2_length, H2, firstn_length_le by (rewrite !skipn_length; lia). apply Nat.min_id.
Qed.

Lemma draw_patients_bi_projs b num sd xs : (4 * num <= length xs)%nat ->
  map (fun d => fst (fst (fst d))) (draw_patients_bi b num sd xs) = drawn_stages sd num xs /\
  map (fun d => snd (fst (fst d))) (draw_patients_bi b num sd xs) = drawn_times (b_ipsi b) sd num xs /\
  map (fun d => snd (fst d)) (draw_patients_bi b num sd xs) = bi_obs_ipsi b sd num xs /\
  map (fun d => snd d) (draw_patients_bi b num sd xs) = bi_obs_contra b sd num xs.
Proof.
  intros H. destruct (bi_drawn_lengths b num sd xs H) as [H1 [H2 [H3 H4]]].
  rewrite draw_patients_bi_parts, !map4_quad_map. cbn [fst snd].
  rewrite (map4_proj1 (fun a => a)), (map4_proj2 (fun a => a)), (map4_proj3 (fun a => a)), (map4_proj4 (fun a => a)) by congruence.
  rewrite !map_id. repeat split.
Qed.

Definition bi_draws_in_range (b : bilateral) (ds : list (nat * nat * nat * nat)) : Prop :=
  Forall (fun d => (snd (fst (fst d)) <= u_maxt (b_ipsi b))%nat /\
                   (snd (fst d) < length (u_obs_list (b_ipsi b)))%nat /\
                   (snd d < length (u_obs_list (b_contra b)))%nat) ds.

(** what the frame contains, in terms of the model's draws: per patient the ipsilateral observation followed by the
    contralateral one under the labels (side, modality, LNL), then the two relabelling steps, then the T-stage column *)
Definition bi_frame (b : bilateral) (sort_cols : np_frame -> np_frame) (ds : list (nat * nat * nat * nat)) : np_frame :=
  pd_set_column
    (sort_cols (pd_reorder_102 (pd_DataFrame
       (np_concat1 (obs_rows (u_obs_list (b_ipsi b)) (map (fun d => snd (fst d)) ds))
                   (obs_rows (u_obs_list (b_contra b)) (map (fun d => snd d) ds)))
       (pd_from_product ["ipsi"%string; "contra"%string] (u_mod_names (b_ipsi b)) (u_lnls (b_ipsi b))))))
    RAW_T_COL (map (fun d => stage_name (b_ipsi b) (fst (fst (fst d)))) ds).

Theorem np_bi_draw_patients_model b sort_cols num sd xs :
  wf_graphb (u_graph (b_ipsi b)) = true -> wf_graphb (u_graph (b_contra b)) = true -> (4 * num <= length xs)%nat ->
  bi_draws_in_range b (draw_patients_bi b num sd xs) ->
  np_bi_draw_patients
    (transition_matrix (b_ipsi b)) (u_states (b_ipsi b)) (u_maxt (b_ipsi b)) (observation_matrix (b_ipsi b)) (u_obs_list (b_ipsi b))
    (transition_matrix (b_contra b)) (u_states (b_contra b)) (u_maxt (b_contra b)) (observation_matrix (b_contra b))
    (u_obs_list (b_contra b))
    (stage_names (b_ipsi b)) (uni_support (b_ipsi b)) (total_pmf (b_ipsi b)) (u_mod_names (b_ipsi b)) (u_lnls (b_ipsi b))
    sort_cols num sd xs
  = (bi_frame b sort_cols (draw_patients_bi b num sd xs), skipn num (skipn num (skipn num (skipn num xs)))).
Proof.
  intros Hwi Hwc Hlen Hrange.
  destruct (bi_drawn_lengths b num sd xs Hlen) as [L1 [L2 [L3 L4]]].
  destruct (draw_patients_bi_projs b num sd xs Hlen) as [P1 [P2 [P3 P4]]].
  assert (Rt : Forall (fun t => (t <= u_maxt (b_ipsi b))%nat) (drawn_times (b_ipsi b) sd num xs)).
  { rewrite <- P2. apply Forall_map. eapply Forall_impl; [|exact Hrange]. intros d [H _]. exact H. }
  assert (Ri : Forall (fun o => (o < length (u_obs_list (b_ipsi b)))%nat) (bi_obs_ipsi b sd num xs)).
  { rewrite <- P3. apply Forall_map. eapply Forall_impl; [|exact Hrange]. intros d [_ [H _]]. exact H. }
  assert (Rc : Forall (fun o => (o < length (u_obs_list (b_contra b)))%nat) (bi_obs_contra b sd num xs)).
  { rewrite <- P4. apply Forall_map. eapply Forall_impl; [|exact Hrange]. intros d [_ [_ H]]. exact H. }
  unfold np_bi_draw_patients, bi_frame. rewrite renorm_np.
  unfold np_rng_choice at 1. rewrite np_draw_stages by lia. cbv beta iota.
  rewrite np_draw_times by (try exact Rt; lia). cbv beta iota.
  assert (Ei : draw_diagnosis (b_ipsi b) (drawn_times (b_ipsi b) sd num xs) (skipn num (skipn num xs)) = bi_obs_ipsi b sd num xs).
  { unfold bi_obs_ipsi, drawn_obs_idx, draw_diagnosis, draw_diagnosis_with.
    rewrite <- (map2_firstn_l _ (drawn_times (b_ipsi b) sd num xs) (skipn num (skipn num xs))), L2. reflexivity. }
  assert (Ec : draw_diagnosis (b_contra b) (drawn_times (b_ipsi b) sd num xs) (skipn num (skipn num (skipn num xs)))
               = bi_obs_contra b sd num xs).
  { unfold bi_obs_contra, draw_diagnosis, draw_diagnosis_with.
    rewrite <- (map2_firstn_l _ (drawn_times (b_ipsi b) sd num xs) (skipn num (skipn num (skipn num xs)))), L2. reflexivity. }
  rewrite (np_uni_draw_diagnosis_model (b_ipsi b)); [|exact Hwi|rewrite L2, !skipn_length; lia|rewrite Ei; exact Ri].
  cbv beta iota. rewrite L2.
  rewrite (np_uni_draw_diagnosis_model (b_contra b)); [|exact Hwc|rewrite L2, !skipn_length; lia|rewrite Ec; exact Rc].
  cbv beta iota zeta. rewrite L2, Ei, Ec, P3, P4, <- P1, map_map. reflexivity.
Qed.

(** * the drawn indices are in range under the hypotheses of the C16 theorems *)
Lemma obs_probs_length u t : wf_graphb (u_graph u) = true -> length (obs_probs u t) = length (u_obs_list u).
Proof.
  intros Hwf. unfold obs_probs, obs_probs_of, obs_dist_of, u_obs_list, obs_list.
  rewrite vecmat_w_length by apply (observation_matrix_shape u Hwf). rewrite all_states_length. reflexivity.
Qed.
Lemma draw_diagnosis_obs_probs u times xs :
  draw_diagnosis u times xs = map2 (fun t x => choice (obs_probs u t) x) times xs.
Proof. reflexivity. Qed.

Lemma Forall_map2 {A B C} (P : C -> Prop) (f : A -> B -> C) (PA : A -> Prop) (PB : B -> Prop) :
  (forall a b, PA a -> PB b -> P (f a b)) -> forall la lb, Forall PA la -> Forall PB lb -> Forall P (map2 f la lb).
Proof.
  intros H. induction la as [|a la IH]; intros [|b lb] Ha Hb; cbn [map2]; try constructor.
  - inversion Ha; inversion Hb; subst. apply H; assumption.
  - inversion Ha; inversion Hb; subst. apply IH; assumption.
Qed.
Lemma Forall_map3 {A B C D} (P : D -> Prop) (f : A -> B -> C -> D) (PA : A -> Prop) (PB : B -> Prop) (PC : C -> Prop) :
  (forall a b c, PA a -> PB b -> PC c -> P (f a b c)) ->
  forall la lb lc, Forall PA la -> Forall PB lb -> Forall PC lc -> Forall P (map3 f la lb lc).
Proof.
  intros H. induction la as [|a la IH]; intros [|b lb] [|c lc] Ha Hb Hc; cbn [map3]; try constructor.
  - inversion Ha; inversion Hb; inversion Hc; subst. apply H; assumption.
  - inversion Ha; inversion Hb; inversion Hc; subst. apply IH; assumption.
Qed.
Lemma Forall_map4 {A B C D E} (P : E -> Prop) (f : A -> B -> C -> D -> E) (PA : A -> Prop) (PB : B -> Prop) (PC : C -> Prop)
  (PD : D -> Prop) : (forall a b c d, PA a -> PB b -> PC c -> PD d -> P (f a b c d)) ->
  forall la lb lc ld, Forall PA la -> Forall PB lb -> Forall PC lc -> Forall PD ld -> Forall P (map4 f la lb lc ld).
Proof.
  intros H. induction la as [|a la IH]; intros [|b lb] [|c lc] [|d ld] Ha Hb Hc Hd; cbn [map4]; try constructor.
  - inversion Ha; inversion Hb; inversion Hc; inversion Hd; subst. apply H; assumption.
  - inversion Ha; inversion Hb; inversion Hc; inversion Hd; subst. apply IH; assumption.
Qed.

(** Unilateral.draw_diagnosis *)
Theorem uni_draw_diagnosis_in_range u times xs :
  wf_uni u = true -> uni_in_unit u -> Forall (fun t => (t <= u_maxt u)%nat) times -> Forall unit_u xs ->
  Forall (fun o => (o < length (u_obs_list u))%nat) (draw_diagnosis u times xs).
Proof.
  intros Hwf Hunit Ht Hx. rewrite draw_diagnosis_obs_probs.
  apply (Forall_map2 _ _ (fun t => (t <= u_maxt u)%nat) unit_u); [|exact Ht|exact Hx].
  intros t x H1 H2. rewrite <- (obs_probs_length u t (wf_uni_graph u Hwf)).
  apply choice_lt; [|exact H2]. apply is_dist_valid, obs_probs_dist; assumption.
Qed.

(** Unilateral.draw_patients *)
Lemma draw_one_uni_in_range u sd xs xt xo :
  wf_uni u = true -> uni_in_unit u -> stages_ok u sd -> unit_u xs -> unit_u xt -> unit_u xo ->
  (snd (fst (draw_one_uni u sd xs xt xo)) <= u_maxt u)%nat /\
  (snd (draw_one_uni u sd xs xt xo) < length (u_obs_list u))%nat.
Proof.
  intros Hwf Hunit Hok Hxs Hxt Hxo.
  destruct (draw_one_uni u sd xs xt xo) as [[s t] o] eqn:E. cbn [fst snd].
  destruct (uni_draw_is_predictive u sd xs xt xo s t o Hwf Hunit Hok Hxs Hxt Hxo) as [[H _] _].
  destruct (H E) as (C1 & C2 & C3).
  destruct (stage_facts u sd xs s Hok Hxs) as [_ HS2]. destruct (HS2 C1) as [Hpv Hpl].
  destruct (time_facts _ xt t _ Hpv Hpl Hxt) as [_ HT2]. pose proof (HT2 C2) as Ht.
  split; [exact Ht|]. rewrite <- (obs_probs_length u t (wf_uni_graph u Hwf)).
  apply (in_cell_lt _ xo o); [|exact Hxo|exact C3]. apply is_dist_valid, obs_probs_dist; assumption.
Qed.

Theorem uni_draws_in_range_ok u num sd xs :
  wf_uni u = true -> uni_in_unit u -> stages_ok u sd -> Forall unit_u xs ->
  uni_draws_in_range u (draw_patients_uni u num sd xs).
Proof.
  intros Hwf Hunit Hok Hx. rewrite uni_stream. unfold uni_draws_in_range.
  apply (Forall_map3 _ _ unit_u unit_u unit_u).
  - intros a b c Ha Hb Hc. apply draw_one_uni_in_range; assumption.
  - apply Forall_firstn'. exact Hx.
  - apply Forall_firstn', Forall_skipn'. exact Hx.
  - apply Forall_firstn', Forall_skipn', Forall_skipn'. exact Hx.
Qed.

(** Bilateral.draw_patients *)
Lemma draw_one_bi_in_range b sd xs xt xi xc :
  wf_bilateral b = true -> uni_in_unit (b_ipsi b) -> uni_in_unit (b_contra b) -> stages_ok (b_ipsi b) sd ->
  unit_u xs -> unit_u xt -> unit_u xi -> unit_u xc ->
  (snd (fst (fst (draw_one_bi b sd xs xt xi xc))) <= u_maxt (b_ipsi b))%nat /\
  (snd (fst (draw_one_bi b sd xs xt xi xc)) < length (u_obs_list (b_ipsi b)))%nat /\
  (snd (draw_one_bi b sd xs xt xi xc) < length (u_obs_list (b_contra b)))%nat.
Proof.
  intros Hwf Hui Huc Hok Hxs Hxt Hxi Hxc.
  destruct (wf_bi_parts b Hwf) as (Hwi & Hwc & Hmt & _).
  destruct (draw_one_bi b sd xs xt xi xc) as [[[s t] oi] oc] eqn:E. cbn [fst snd].
  destruct (bi_draw_is_predictive b sd xs xt xi xc s t oi oc Hwf Hui Huc Hok Hxs Hxt Hxi Hxc) as [[H _] _].
  destruct (H E) as (C1 & C2 & C3 & C4).
  destruct (stage_facts (b_ipsi b) sd xs s Hok Hxs) as [_ HS2]. destruct (HS2 C1) as [Hpv Hpl].
  destruct (time_facts _ xt t _ Hpv Hpl Hxt) as [_ HT2]. pose proof (HT2 C2) as Ht.
  split; [exact Ht|]. split.
  - rewrite <- (obs_probs_length (b_ipsi b) t (wf_uni_graph _ Hwi)).
    apply (in_cell_lt _ xi oi); [|exact Hxi|exact C3]. apply is_dist_valid, obs_probs_dist; assumption.
  - rewrite <- (obs_probs_length (b_contra b) t (wf_uni_graph _ Hwc)).
    apply (in_cell_lt _ xc oc); [|exact Hxc|exact C4]. apply is_dist_valid, obs_probs_dist; try assumption. lia.
Qed.

Theorem bi_draws_in_range_ok b num sd xs :
  wf_bilateral b = true -> uni_in_unit (b_ipsi b) -> uni_in_unit (b_contra b) -> stages_ok (b_ipsi b) sd ->
  Forall unit_u xs -> bi_draws_in_range b (draw_patients_bi b num sd xs).
Proof.
  intros Hwf Hui Huc Hok Hx. rewrite bi_stream. unfold bi_draws_in_range.
  apply (Forall_map4 _ _ unit_u unit_u unit_u unit_u).
  - intros a c d e Ha Hc Hd He. apply draw_one_bi_in_range; assumption.
  - apply Forall_firstn'. exact Hx.
  - apply Forall_firstn', Forall_skipn'. exact Hx.
  - apply Forall_firstn', Forall_skipn', Forall_skipn'. exact Hx.
  - apply Forall_firstn', Forall_skipn', Forall_skipn', Forall_skipn'. exact Hx.
Qed.

(** the samplers under the hypotheses of the C16 theorems alone *)
Corollary np_uni_draw_patients_C16 u num sd xs :
  wf_uni u = true -> uni_in_unit u -> stages_ok u sd -> Forall unit_u xs -> (3 * num <= length xs)%nat ->
  np_uni_draw_patients (transition_matrix u) (u_states u) (u_maxt u) (observation_matrix u) (u_obs_list u)
                       (stage_names u) (uni_support u) (total_pmf u) (u_mod_names u) (u_lnls u) num sd xs
  = (uni_frame u (draw_patients_uni u num sd xs), skipn num (skipn num (skipn num xs))).
Proof.
  intros Hwf Hunit Hok Hx Hlen. apply np_uni_draw_patients_model; [apply wf_uni_graph; exact Hwf|exact Hlen|].
  apply uni_draws_in_range_ok; assumption.
Qed.
Corollary np_bi_draw_patients_C16 b sort_cols num sd xs :
  wf_bilateral b = true -> uni_in_unit (b_ipsi b) -> uni_in_unit (b_contra b) -> stages_ok (b_ipsi b) sd ->
  Forall unit_u xs -> (4 * num <= length xs)%nat ->
  np_bi_draw_patients
    (transition_matrix (b_ipsi b)) (u_states (b_ipsi b)) (u_maxt (b_ipsi b)) (observation_matrix (b_ipsi b)) (u_obs_list (b_ipsi b))
    (transition_matrix (b_contra b)) (u_states (b_contra b)) (u_maxt (b_contra b)) (observation_matrix (b_contra b))
    (u_obs_list (b_contra b))
    (stage_names (b_ipsi b)) (uni_support (b_ipsi b)) (total_pmf (b_ipsi b)) (u_mod_names (b_ipsi b)) (u_lnls (b_ipsi b))
    sort_cols num sd xs
  = (bi_frame b sort_cols (draw_patients_bi b num sd xs), skipn num (skipn num (skipn num (skipn num xs)))).
Proof.
  intros Hwf Hui Huc Hok Hx Hlen. destruct (wf_bi_parts b Hwf) as (Hwi & Hwc & _).
  apply np_bi_draw_patients_model; [apply wf_uni_graph; exact Hwi|apply wf_uni_graph; exact Hwc|exact Hlen|].
  apply bi_draws_in_range_ok; assumption.
Qed.

(** * reading the unilateral table back: [table_uni]
    The frame is read by position: the labels of [pd.MultiIndex.from_product([modality_names, ["ipsi"], lnl_names])] come
    in blocks of [length lnl_names] columns, one block per modality in the order of [modality_names]
    ([from_product_blocks]); cutting every row into the same blocks gives the findings per modality and LNL, which is how
    Sampling.v reads a drawn observation ([diag_of_obs]); the column added under RAW_T_COL is the T-stage. *)
Lemma from_product_blocks (mods lnls : list string) (side : string) :
  pd_from_product mods [side] lnls = flat_map (fun m => map (fun l => (m, side, l)) lnls) mods.
Proof.
  unfold pd_from_product. induction mods as [|m mods IH]; [reflexivity|].
  cbn [flat_map] in *. rewrite IH, app_nil_r. reflexivity.
Qed.
Lemma chunk_flat_map_blocks {A B C} (f : A -> B -> C) (lb : list B) : forall la,
  chunk (length lb) (length la) (flat_map (fun a => map (f a) lb) la) = map (fun a => map (f a) lb) la.
Proof.
  induction la as [|a la IH]; cbn [length chunk flat_map map]; [reflexivity|].
  assert (Hn : length (map (f a) lb) = length lb) by apply map_length.
  rewrite firstn_app, skipn_app, Hn, Nat.sub_diag, firstn_O, skipn_O, app_nil_r.
  rewrite firstn_all2, skipn_all2 by (rewrite Hn; lia). cbn [app]. rewrite IH. reflexivity.
Qed.
(** the labels, cut into blocks like the rows, are the blocks (modality, "ipsi", LNL) per modality *)
Corollary uni_labels_blocks mods lnls :
  chunk (length lnls) (length mods) (pd_from_product mods ["ipsi"%string] lnls)
  = map (fun m => map (fun l => (m, "ipsi"%string, l)) lnls) mods.
Proof. rewrite from_product_blocks. apply chunk_flat_map_blocks. Qed.

Definition ind_of_bool (v : bool) : indicator := if v then IInvolved else IHealthy.
(** a boolean row cut into one block per modality *)
Definition bools_diag (mods lnls : list string) (row : list bool) : diagnosis :=
  map (fun '(m, zm) => (m, map (fun '(l, d) => (l, Some (ind_of_bool d))) (combine lnls zm)))
      (combine mods (chunk (length lnls) (length mods) row)).

Lemma chunk_map {A B} (f : A -> B) n : forall k l, chunk n k (map f l) = map (map f) (chunk n k l).
Proof.
  induction k as [|k IH]; intros l; cbn [chunk map]; [reflexivity|].
  rewrite firstn_map, skipn_map, IH. reflexivity.
Qed.
Lemma combine_map_r {A B C} (f : B -> C) : forall (la : list A) lb,
  combine la (map f lb) = map (fun p => (fst p, f (snd p))) (combine la lb).
Proof. induction la as [|a la IH]; intros [|b lb]; cbn [map combine fst snd]; try reflexivity. rewrite IH. reflexivity. Qed.

Lemma bools_diag_obs mods lnls z : bools_diag mods lnls (map np_truth z) = diag_of_obs mods lnls z.
Proof.
  unfold bools_diag, diag_of_obs. rewrite chunk_map, combine_map_r, map_map.
  apply map_ext. intros [m zm]. cbn [fst snd]. f_equal. rewrite combine_map_r, map_map.
  apply map_ext. intros [l d]. cbn [fst snd]. unfold ind_of_bool, np_truth, ind_of_bit. destruct (Nat.eqb d 0); reflexivity.
Qed.

Definition read_uni_frame (u : uni) (f : np_frame) : list trow :=
  map2 (fun row ts => {| tr_stage := ts; tr_ext := None; tr_time := None;
                         tr_ipsi := bools_diag (u_mod_names u) (u_lnls u) row; tr_contra := None |})
       (fr_rows f) (snd (hd (RAW_T_COL, []) (fr_extra f))).

Theorem uni_frame_table u ds : read_uni_frame u (uni_frame u ds) = map (uni_row u) ds.
Proof.
  unfold read_uni_frame, uni_frame, obs_rows. cbn [fr_rows fr_extra hd snd]. rewrite map_map, map2_map_map.
  apply map_ext. intros [[s t] o]. cbn [fst snd uni_row]. rewrite bools_diag_obs. reflexivity.
Qed.
Corollary uni_frame_table_uni u num sd xs :
  read_uni_frame u (uni_frame u (draw_patients_uni u num sd xs)) = table_uni u num sd xs.
Proof. apply uni_frame_table. Qed.
