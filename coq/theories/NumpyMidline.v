(** NumpyMidline: the numerical core of [lymph.models.Midline] ([midext_evo], [contra_state_dist_evo], [state_dist],
    [obs_dist], [_hmm_likelihood]) read with numpy's array semantics, line by line as the Python code is written
    ([np_<function>]), and the STATIC proofs that these readings equal the hand-written model of Midline.v ([midext_evo],
    [contra_state_dist_evo], [ml_state_dist], [ml_state_dist_central], [ml_hmm_likelihood_factors]) for every [ml] with
    [wf_midline ml = true] (the likelihood needs two more hypotheses, stated in Section HmmLikelihood).

    Same architecture as NumpyPipelines.v (whose primitives and lemmas are reused): the source translator
    (harness/translate7.py) re-generates every [np_...] term from the Python source on every run and checks the generated
    term against the definition here by [reflexivity] (conversion); the equality with the model then follows from the
    static theorem [np_..._model].

    Arrays: a 1-D float array is a [vec], a 1-D integer array a [list nat], a 2-D array a [mat] (list of rows), a 3-D
    array a [list mat]; a value that is a 2-D or a 3-D array depending on the call (the result of Midline.state_dist /
    obs_dist) is an [nd].  In-place operations ([A *= x], [A[i] = row], [A[:, j] = col]) rebind the name; this is sound
    because the translator only accepts them on names bound to a freshly created array (no other name, no view).

    What is NOT modelled: numpy raises (ValueError / IndexError) when shapes do not fit; the list primitives truncate or
    leave the array unchanged.  Under the hypotheses of the theorems all shapes fit (this is what the shape lemmas
    below establish: e.g. the in-place scaling by the (max_time + 1) x 1 column needs a state_dist_evo with exactly
    max_time + 1 rows, the recursion writes rows 1 .. max_time of an array with max_time + 1 rows; [marg += joint] adds
    arrays of equal shape).  [matrix.fast_trace] is read as [Linalg.fast_trace] (tied to the source by the piece
    fast_trace of harness/translate4.py, NumpyMatrix.np_fast_trace_eq). *)
From LymphModel Require Import Base States Linalg Graph Transition Observation Dist Unilateral UniStatements Models
  Bilateral Midline BiStatements Numpy NumpyTransition TransitionProofs ObservationProofs PriorProofs MidlineProofs
  NumpyPipelines.
From LymphModel Require NumpyMatrix.
Local Open Scope nat_scope.
Open Scope Qc_scope.

(** * numpy primitives (the translator's reading; trusted base) *)
(** [np.arange(n)] *)
Definition np_arange (n : nat) : list nat := seq 0 n.
(** [q ** v] for a float [q] and a 1-D integer array [v]; [q - v], [q * v] for a float [q] and a 1-D float array [v];
    [u + v] for two 1-D float arrays of equal length *)
Definition np_spow (q : Qc) (v : list nat) : vec := map (Dist.qpow q) v.
Definition np_rsub (q : Qc) (v : vec) : vec := map (fun x => q - x) v.
Definition np_smul (q : Qc) (v : vec) : vec := vscale q v.
Definition np_vadd (u v : vec) : vec := vadd u v.
(** [M[:, j]] (read) and [M[:, j] = v] (v as long as M has rows) *)
Definition np_getcol (M : mat) (j : nat) : vec := map (fun r => nth j r 0) M.
Definition np_set_col (M : mat) (j : nat) (v : vec) : mat := map2 (fun row x => set_nth j x row) M v.
(** [v.reshape(-1, 1)]: an n x 1 array *)
Definition np_reshape_col (v : vec) : mat := map (fun a => [a]) v.
(** [A *= c] for a float c; [A *= C] for an n x 1 array C (broadcast along the rows), A with n rows *)
Definition np_imul_s (A : mat) (c : Qc) : mat := map (map (fun x => x * c)) A.
Definition np_imul_colm (A C : mat) : mat := map2 (fun row c => map (fun x => x * nth 0 c 0) row) A C.
(** [np.zeros_like(A)] *)
Definition np_zeros_like (A : mat) : mat := map (map (fun _ => 0)) A.
(** [A @ B] for two 2-D arrays; [np.diag(v)]; [A.shape[1]] (A with at least one row) *)
Definition np_matmul (A B : mat) : mat := map (fun r => np_vecmat r B) A.
Definition np_diag (v : vec) : mat := diag v.
Definition np_shape1 (A : mat) : nat := ncols A.
(** [np.empty(shape=(a, b, c))] (the content is unspecified; every slab is overwritten before the array is read),
    [R[i] = M] and [R[i]] for a 3-D array R *)
Definition np_empty3 (a b c : nat) : list mat := repeat (repeat (repeat 0 c) b) a.
Definition np_set_slab (R : list mat) (i : nat) (M : mat) : list mat := set_nth i M R.
Definition np_slab (R : list mat) (i : nat) : mat := nth i R [].
(** a 2-D or a 3-D array *)
Inductive nd := Nd2 (m : mat) | Nd3 (ms : list mat).

(** what a method of Midline reads from one of its Unilateral sub-models ([self.ext.ipsi], [self.ext.contra],
    [self.noext.contra]): the transition matrix, the state list and max_time (the arguments of
    [NumpyPipelines.np_state_dist_evo], which the translator re-generates from Unilateral.state_dist_evo) *)
Record uctx := { uc_T : mat; uc_sl : list state; uc_maxt : nat }.
Definition uctx_of (u : uni) : uctx := {| uc_T := transition_matrix u; uc_sl := u_states u; uc_maxt := u_maxt u |}.

(** * the functions, line by line *)
(** time_steps = np.arange(self.max_time + 1)
    midext_states = np.zeros(shape=(self.max_time + 1, 2), dtype=float)
    midext_states[:, 0] = (1.0 - self.midext_prob) ** time_steps
    midext_states[:, 1] = 1.0 - midext_states[:, 0]
    return midext_states *)
Definition np_midext_evo (max_time : nat) (midext_prob : Qc) : mat :=
  let time_steps := np_arange (max_time + 1) in
  let midext_states := np_zeros2 (max_time + 1) 2 in
  let midext_states := np_set_col midext_states 0 (np_spow (1 - midext_prob) time_steps) in
  let midext_states := np_set_col midext_states 1 (np_rsub 1 (np_getcol midext_states 0)) in
  midext_states.

(** noext_contra_dist_evo = self.noext.contra.state_dist_evo()
    if not self.use_midext_evo:
        ext_contra_dist_evo = self.ext.contra.state_dist_evo()
        noext_contra_dist_evo *= 1.0 - self.midext_prob
        ext_contra_dist_evo *= self.midext_prob
    else:
        ext_contra_dist_evo = np.zeros_like(noext_contra_dist_evo)
        midext_evo = self.midext_evo()
        noext_contra_dist_evo *= midext_evo[:, 0].reshape(-1, 1)
        for t in range(self.max_time):
            ext_contra_dist_evo[t + 1] = (
                self.midext_prob * noext_contra_dist_evo[t] + ext_contra_dist_evo[t]
            ) @ self.ext.contra.transition_matrix()
    return noext_contra_dist_evo, ext_contra_dist_evo *)
Definition np_contra_state_dist_evo (noext_contra ext_contra : uctx) (max_time : nat) (midext_prob : Qc)
  (use_midext_evo : bool) : mat * mat :=
  let noext_contra_dist_evo := np_state_dist_evo (uc_T noext_contra) (uc_sl noext_contra) (uc_maxt noext_contra) in
  if negb use_midext_evo then
    let ext_contra_dist_evo := np_state_dist_evo (uc_T ext_contra) (uc_sl ext_contra) (uc_maxt ext_contra) in
    let noext_contra_dist_evo := np_imul_s noext_contra_dist_evo (1 - midext_prob) in
    let ext_contra_dist_evo := np_imul_s ext_contra_dist_evo midext_prob in
    (noext_contra_dist_evo, ext_contra_dist_evo)
  else
    let ext_contra_dist_evo := np_zeros_like noext_contra_dist_evo in
    let midext_evo := np_midext_evo max_time midext_prob in
    let noext_contra_dist_evo := np_imul_colm noext_contra_dist_evo (np_reshape_col (np_getcol midext_evo 0)) in
    let ext_contra_dist_evo := fold_left (fun (ext_contra_dist_evo : mat) (t : nat) =>
        np_set_row ext_contra_dist_evo (t + 1)
          (np_vecmat (np_vadd (np_smul midext_prob (np_row noext_contra_dist_evo t)) (np_row ext_contra_dist_evo t))
                     (uc_T ext_contra)))
      (np_range 0 max_time) ext_contra_dist_evo in
    (noext_contra_dist_evo, ext_contra_dist_evo).

(** if central: return self.central.state_dist(t_stage, mode)
    ipsi_dist_evo = self.ext.ipsi.state_dist_evo()
    noext_contra_dist_evo, ext_contra_dist_evo = self.contra_state_dist_evo()
    if mode == "HMM":
        result = np.empty(shape=(2, ipsi_dist_evo.shape[1], ipsi_dist_evo.shape[1]))
        time_marg_matrix = np.diag(self.get_distribution(t_stage).pmf)
        result[0] = ipsi_dist_evo.T @ time_marg_matrix @ noext_contra_dist_evo
        result[1] = ipsi_dist_evo.T @ time_marg_matrix @ ext_contra_dist_evo
        return result
    raise NotImplementedError("Only HMM mode is supported as of now.")
    [hmm] = (mode == "HMM"); [central_state_dist t hmm] = self.central.state_dist(t, mode), AttributeError included *)
Definition np_ml_state_dist (noext_contra ext_contra ext_ipsi : uctx) (max_time : nat) (midext_prob : Qc)
  (use_midext_evo : bool) (pmf_of : string -> res vec) (central_state_dist : string -> bool -> res mat)
  (t_stage : string) (hmm : bool) (central : bool) : res nd :=
  if central then
    bind (central_state_dist t_stage hmm) (fun x => inr (Nd2 x))
  else
    let ipsi_dist_evo := np_state_dist_evo (uc_T ext_ipsi) (uc_sl ext_ipsi) (uc_maxt ext_ipsi) in
    let '(noext_contra_dist_evo, ext_contra_dist_evo) :=
      np_contra_state_dist_evo noext_contra ext_contra max_time midext_prob use_midext_evo in
    if hmm then
      let result := np_empty3 2 (np_shape1 ipsi_dist_evo) (np_shape1 ipsi_dist_evo) in
      bind (pmf_of t_stage) (fun x =>
      let time_marg_matrix := np_diag x in
      let result := np_set_slab result 0
        (np_matmul (np_matmul (np_transpose 0 ipsi_dist_evo) time_marg_matrix) noext_contra_dist_evo) in
      let result := np_set_slab result 1
        (np_matmul (np_matmul (np_transpose 0 ipsi_dist_evo) time_marg_matrix) ext_contra_dist_evo) in
      inr (Nd3 result))
    else inl MNotImpl.

(** if given_state_dist is None:
        given_state_dist = self.state_dist(t_stage=t_stage, mode=mode, central=central)
    if given_state_dist.ndim == 2:
        return self.ext.obs_dist(given_state_dist=given_state_dist)
    obs_dist = [self.ext.obs_dist(given_state_dist=given_state_dist[0]),
                self.ext.obs_dist(given_state_dist=given_state_dist[1])]
    return np.stack(obs_dist)
    [ext_obs_dist sd] = self.ext.obs_dist(given_state_dist=sd) (Bilateral.obs_dist with a given 2-D array) *)
Definition np_ml_obs_dist (noext_contra ext_contra ext_ipsi : uctx) (max_time : nat) (midext_prob : Qc)
  (use_midext_evo : bool) (pmf_of : string -> res vec) (central_state_dist : string -> bool -> res mat)
  (ext_obs_dist : mat -> mat)
  (given_state_dist : option nd) (t_stage : string) (hmm : bool) (central : bool) : res nd :=
  bind (match given_state_dist with
        | None => np_ml_state_dist noext_contra ext_contra ext_ipsi max_time midext_prob use_midext_evo pmf_of
                                   central_state_dist t_stage hmm central
        | Some given_state_dist => inr given_state_dist
        end) (fun given_state_dist =>
  match given_state_dist with
  | Nd2 given_state_dist => inr (Nd2 (ext_obs_dist given_state_dist))
  | Nd3 given_state_dist =>
      let obs_dist := [ext_obs_dist (np_slab given_state_dist 0); ext_obs_dist (np_slab given_state_dist 1)] in
      inr (Nd3 obs_dist)
  end).

(** * midext_evo *)
Lemma set_col_tab (f : nat -> vec) (g : nat -> Qc) j : forall l,
  np_set_col (map f l) j (map g l) = map (fun t => set_nth j (g t) (f t)) l.
Proof. intros l. unfold np_set_col. exact (map2_map_map (fun row x => set_nth j x row) f g l). Qed.

Definition midext_row (p : Qc) (t : nat) : vec := [Dist.qpow (1 - p) t; 1 - Dist.qpow (1 - p) t].

(** row t = [(1-p)^t; 1 - (1-p)^t], t = 0 .. max_time *)
Lemma np_midext_evo_closed max_time p : np_midext_evo max_time p = map (midext_row p) (seq 0 (S max_time)).
Proof.
  unfold np_midext_evo, np_arange, np_zeros2, np_spow, np_rsub, np_getcol. cbv zeta. rewrite Nat.add_1_r.
  set (L := seq 0 (S max_time)).
  assert (H0 : repeat (repeat 0 2) (S max_time) = map (fun _ : nat => [0; 0]) L).
  { unfold L. rewrite map_const_repeat, seq_length. reflexivity. }
  rewrite H0, set_col_tab. cbn [set_nth].
  rewrite !map_map. cbn [nth].
  exact (set_col_tab (fun t => [Dist.qpow (1 - p) t; 0]) (fun t => 1 - Dist.qpow (1 - p) t) 1%nat L).
Qed.

Theorem np_midext_evo_model ml :
  map (fun r => (nth 0 r 0, nth 1 r 0)) (np_midext_evo (ml_maxt ml) (ml_midext ml)) = midext_evo ml.
Proof. rewrite np_midext_evo_closed, map_map. reflexivity. Qed.

(** the same rows as a 2-D array, and the two-state chain of matrix.evolve_midext (NumpyMatrix.v) *)
Corollary np_midext_evo_rows ml :
  np_midext_evo (ml_maxt ml) (ml_midext ml) = map (fun ab : Qc * Qc => [fst ab; snd ab]) (midext_evo ml).
Proof. rewrite np_midext_evo_closed. unfold midext_evo. rewrite map_map. reflexivity. Qed.
Corollary np_midext_evo_evolve_midext max_time p : np_midext_evo max_time p = NumpyMatrix.evolve_midext max_time p.
Proof. rewrite np_midext_evo_closed, NumpyMatrix.evolve_midext_closed. reflexivity. Qed.

(** * contra_state_dist_evo *)
Lemma map2_map_l {X A B C} (g : A -> B -> C) (h : X -> A) : forall l lb,
  map2 g (map h l) lb = map2 (fun x b => g (h x) b) l lb.
Proof. induction l as [|x l IH]; intros [|b lb]; cbn [map map2]; try reflexivity. rewrite IH. reflexivity. Qed.
Lemma map2_swap {A B C} (g : A -> B -> C) : forall la lb, map2 g la lb = map2 (fun b a => g a b) lb la.
Proof. induction la as [|a la IH]; intros [|b lb]; cbn [map2]; try reflexivity. rewrite IH. reflexivity. Qed.
Lemma map2_ext {A B C} (g g' : A -> B -> C) : (forall a b, g a b = g' a b) -> forall la lb, map2 g la lb = map2 g' la lb.
Proof. intros H. induction la as [|a la IH]; intros [|b lb]; cbn [map2]; try reflexivity. rewrite H, IH. reflexivity. Qed.

(** the static coin: [A *= c] is the model's [map (vscale c)] *)
Lemma np_imul_s_vscale A c : np_imul_s A c = map (vscale c) A.
Proof. unfold np_imul_s, vscale. apply map_ext. intros r. apply map_ext. intros x. ring. Qed.

(** the evolving extension: [A *= midext_evo[:, 0].reshape(-1, 1)] scales row t by (1-p)^t *)
Lemma np_imul_colm_midext ml (A : mat) :
  np_imul_colm A (np_reshape_col (np_getcol (np_midext_evo (ml_maxt ml) (ml_midext ml)) 0))
  = map2 (fun '(a, _) r => vscale a r) (midext_evo ml) A.
Proof.
  rewrite np_midext_evo_closed. unfold np_imul_colm, np_reshape_col, np_getcol, midext_evo.
  rewrite !map_map, map2_map_r, map2_map_l, map2_swap. apply map2_ext. intros t r.
  unfold midext_row, vscale. cbn [nth]. apply map_ext. intros x. ring.
Qed.

Lemma np_zeros_like_rows N (A : mat) : Forall (fun r => length r = N) A -> np_zeros_like A = repeat (zeros N) (length A).
Proof.
  induction 1 as [|r A Hr _ IH]; cbn [np_zeros_like map length repeat]; [reflexivity|].
  unfold np_zeros_like in IH. rewrite IH. f_equal. rewrite map_const_repeat, Hr. reflexivity.
Qed.

(** the recursion [ext[t + 1] = (p * noext[t] + ext[t]) @ T] over rows 0 .. max_time - 1, started from an all-zero
    array whose row 0 is [cur], fills in the model's [ext_rows] *)
Lemma ext_loop p T w z : forall rows r pre_n pre_e cur, length pre_n = length pre_e ->
  fold_left (fun (E : mat) (t : nat) =>
      np_set_row E (t + 1) (vecmat_w w (np_vadd (np_smul p (np_row (pre_n ++ r :: rows) t)) (np_row E t)) T))
    (seq (length pre_e) (length rows)) (pre_e ++ cur :: repeat z (length rows))
  = pre_e ++ ext_rows p T w (r :: rows) cur.
Proof.
  induction rows as [|r' rows IH]; intros r pre_n pre_e cur Hl; cbn [length seq fold_left repeat]; [reflexivity|].
  rewrite ext_rows_cons2.
  set (F := fun (E : mat) (t : nat) =>
      np_set_row E (t + 1) (vecmat_w w (np_vadd (np_smul p (np_row (pre_n ++ r :: r' :: rows) t)) (np_row E t)) T)).
  assert (Hstep : F (pre_e ++ cur :: z :: repeat z (length rows)) (length pre_e)
                  = (pre_e ++ [cur]) ++ vecmat_w w (vadd (vscale p r) cur) T :: repeat z (length rows)).
  { unfold F, np_set_row, np_row, np_vadd, np_smul.
    replace (nth (length pre_e) (pre_n ++ r :: r' :: rows) []) with r by (rewrite <- Hl; symmetry; apply nth_middle).
    rewrite nth_middle, set_nth_app. cbn [set_nth]. rewrite <- app_assoc. reflexivity. }
  change (fold_left F (seq (S (length pre_e)) (length rows))
                 (F (pre_e ++ cur :: z :: repeat z (length rows)) (length pre_e))
          = pre_e ++ cur :: ext_rows p T w (r' :: rows) (vecmat_w w (vadd (vscale p r) cur) T)).
  rewrite Hstep. unfold F.
  replace (pre_n ++ r :: r' :: rows) with ((pre_n ++ [r]) ++ r' :: rows) by (rewrite <- app_assoc; reflexivity).
  replace (S (length pre_e)) with (length (pre_e ++ [cur])) by (rewrite app_length; cbn [length]; lia).
  rewrite IH by (rewrite !app_length; cbn [length]; lia).
  rewrite <- app_assoc. reflexivity.
Qed.

Lemma state_dist_evo_length u : length (state_dist_evo u) = S (u_maxt u).
Proof. unfold state_dist_evo. apply evo_rows_length. Qed.

Theorem np_contra_state_dist_evo_model ml : wf_midline ml = true ->
  np_contra_state_dist_evo (uctx_of (b_contra (ml_noext ml))) (uctx_of (b_contra (ml_ext ml)))
                           (ml_maxt ml) (ml_midext ml) (ml_evo ml)
  = contra_state_dist_evo ml.
Proof.
  intros Hwf. destruct (wf_midline_parts ml Hwf) as (Hi & He & Hn & Hme & Hmn & HS).
  unfold np_contra_state_dist_evo, contra_state_dist_evo, uctx_of. cbn [uc_T uc_sl uc_maxt]. cbv zeta.
  rewrite (np_state_dist_evo_model _ Hn).
  destruct (ml_evo ml); cbn [negb].
  - rewrite np_imul_colm_midext. f_equal.
    set (w := nstates (b_contra (ml_ext ml))).
    assert (Hw : (u_base (b_contra (ml_noext ml)) ^ u_n (b_contra (ml_noext ml)))%nat = w).
    { unfold w. rewrite nstates_length, <- HS. symmetry. apply u_states_len. }
    assert (Hc : ncols (transition_matrix (b_contra (ml_ext ml))) = w).
    { apply ncols_square. apply (transition_matrix_shape _ He). }
    unfold np_vecmat. rewrite Hc.
    rewrite (np_zeros_like_rows w) by (rewrite <- Hw; apply (state_dist_evo_rows _ Hn)).
    rewrite state_dist_evo_length, Hmn.
    set (N' := map2 (fun '(a, _) r => vscale a r) (midext_evo ml) (state_dist_evo (b_contra (ml_noext ml)))).
    assert (HN : length N' = S (ml_maxt ml)).
    { unfold N', midext_evo. rewrite map2_length, map_length, seq_length, state_dist_evo_length, Hmn. apply Nat.min_id. }
    destruct N' as [|r rows]; [discriminate HN|]. cbn [length] in HN. injection HN as HN.
    unfold np_range. rewrite Nat.sub_0_r, <- HN.
    exact (ext_loop (ml_midext ml) (transition_matrix (b_contra (ml_ext ml))) w (zeros w) rows r [] [] (zeros w) eq_refl).
  - rewrite (np_state_dist_evo_model _ He), !np_imul_s_vscale. reflexivity.
Qed.

(** * state_dist *)
(** the value of Midline.state_dist in the model: the central model's joint (2-D), or the two slices (3-D), or
    NotImplementedError for mode = "BN" *)
Definition ml_state_dist_nd (ml : midline) (t : string) (hmm central : bool) : res nd :=
  if central then bind (ml_state_dist_central ml t hmm) (fun m => inr (Nd2 m))
  else if hmm then bind (ml_state_dist ml t) (fun sd => inr (Nd3 [fst sd; snd sd]))
  else inl MNotImpl.

Lemma np_transpose_evo T v k : np_transpose 0 (evo_rows T v k) = transpose_w (length v) (evo_rows T v k).
Proof. destruct k; reflexivity. Qed.

Theorem np_ml_state_dist_model ml t hmm central : wf_midline ml = true ->
  np_ml_state_dist (uctx_of (b_contra (ml_noext ml))) (uctx_of (b_contra (ml_ext ml))) (uctx_of (b_ipsi (ml_ext ml)))
                   (ml_maxt ml) (ml_midext ml) (ml_evo ml) (get_pmf (b_ipsi (ml_ext ml))) (ml_state_dist_central ml)
                   t hmm central
  = ml_state_dist_nd ml t hmm central.
Proof.
  intros Hwf. destruct (wf_midline_parts ml Hwf) as (Hi & He & Hn & Hme & Hmn & HS).
  unfold np_ml_state_dist, ml_state_dist_nd. destruct central; [reflexivity|].
  rewrite (np_contra_state_dist_evo_model ml Hwf).
  unfold uctx_of. cbn [uc_T uc_sl uc_maxt]. rewrite (np_state_dist_evo_model _ Hi).
  unfold ml_state_dist. destruct (contra_state_dist_evo ml) as [ne ee]. destruct hmm; [|reflexivity].
  destruct (get_pmf (b_ipsi (ml_ext ml)) t) as [e|pm]; cbn [bind]; [reflexivity|].
  cbv zeta. unfold np_empty3, np_set_slab. cbn [repeat set_nth fst snd].
  unfold state_dist_evo. rewrite np_transpose_evo, onehot0_length. reflexivity.
Qed.

(** the two branches spelled out *)
Corollary np_ml_state_dist_hmm ml t : wf_midline ml = true ->
  np_ml_state_dist (uctx_of (b_contra (ml_noext ml))) (uctx_of (b_contra (ml_ext ml))) (uctx_of (b_ipsi (ml_ext ml)))
                   (ml_maxt ml) (ml_midext ml) (ml_evo ml) (get_pmf (b_ipsi (ml_ext ml))) (ml_state_dist_central ml)
                   t true false
  = bind (ml_state_dist ml t) (fun sd => inr (Nd3 [fst sd; snd sd])).
Proof. intros Hwf. apply (np_ml_state_dist_model ml t true false Hwf). Qed.
Corollary np_ml_state_dist_central ml t hmm : wf_midline ml = true ->
  np_ml_state_dist (uctx_of (b_contra (ml_noext ml))) (uctx_of (b_contra (ml_ext ml))) (uctx_of (b_ipsi (ml_ext ml)))
                   (ml_maxt ml) (ml_midext ml) (ml_evo ml) (get_pmf (b_ipsi (ml_ext ml))) (ml_state_dist_central ml)
                   t hmm true
  = bind (ml_state_dist_central ml t hmm) (fun m => inr (Nd2 m)).
Proof. intros Hwf. apply (np_ml_state_dist_model ml t hmm true Hwf). Qed.

(** * obs_dist *)
(** Midline.v has no definition for Midline.obs_dist; its value is the ext model's Bilateral.obs_dist
    ([Bilateral.bi_obs_dist_of (ml_ext ml)]) of the 2-D array, resp. of each of the two slices of the 3-D array *)
Definition ml_obs_dist_of (ml : midline) (sd : nd) : nd :=
  match sd with
  | Nd2 m => Nd2 (bi_obs_dist_of (ml_ext ml) m)
  | Nd3 ms => Nd3 [bi_obs_dist_of (ml_ext ml) (nth 0 ms []); bi_obs_dist_of (ml_ext ml) (nth 1 ms [])]
  end.
Definition ml_obs_dist_nd (ml : midline) (t : string) (hmm central : bool) : res nd :=
  bind (ml_state_dist_nd ml t hmm central) (fun sd => inr (ml_obs_dist_of ml sd)).

Theorem np_ml_obs_dist_model ml t hmm central : wf_midline ml = true ->
  np_ml_obs_dist (uctx_of (b_contra (ml_noext ml))) (uctx_of (b_contra (ml_ext ml))) (uctx_of (b_ipsi (ml_ext ml)))
                 (ml_maxt ml) (ml_midext ml) (ml_evo ml) (get_pmf (b_ipsi (ml_ext ml))) (ml_state_dist_central ml)
                 (bi_obs_dist_of (ml_ext ml)) None t hmm central
  = ml_obs_dist_nd ml t hmm central
  /\ forall sd,
  np_ml_obs_dist (uctx_of (b_contra (ml_noext ml))) (uctx_of (b_contra (ml_ext ml))) (uctx_of (b_ipsi (ml_ext ml)))
                 (ml_maxt ml) (ml_midext ml) (ml_evo ml) (get_pmf (b_ipsi (ml_ext ml))) (ml_state_dist_central ml)
                 (bi_obs_dist_of (ml_ext ml)) (Some sd) t hmm central
  = inr (ml_obs_dist_of ml sd).
Proof.
  intros Hwf. unfold np_ml_obs_dist, ml_obs_dist_nd. split.
  - rewrite (np_ml_state_dist_model ml t hmm central Hwf).
    destruct (ml_state_dist_nd ml t hmm central) as [e|[m|ms]]; reflexivity.
  - intros [m|ms]; reflexivity.
Qed.

(** HMM, central = False: the observation distribution of each slice of the model's joint *)
Corollary np_ml_obs_dist_hmm ml t : wf_midline ml = true ->
  np_ml_obs_dist (uctx_of (b_contra (ml_noext ml))) (uctx_of (b_contra (ml_ext ml))) (uctx_of (b_ipsi (ml_ext ml)))
                 (ml_maxt ml) (ml_midext ml) (ml_evo ml) (get_pmf (b_ipsi (ml_ext ml))) (ml_state_dist_central ml)
                 (bi_obs_dist_of (ml_ext ml)) None t true false
  = bind (ml_state_dist ml t) (fun sd =>
      inr (Nd3 [bi_obs_dist_of (ml_ext ml) (fst sd); bi_obs_dist_of (ml_ext ml) (snd sd)])).
Proof.
  intros Hwf. rewrite (proj1 (np_ml_obs_dist_model ml t true false Hwf)).
  unfold ml_obs_dist_nd, ml_state_dist_nd. destruct (ml_state_dist ml t) as [e|[a b]]; reflexivity.
Qed.

(** * _hmm_likelihood *)
(** [try: BODY except AttributeError: pass]: the value of the variables BODY assigns, or their old value *)
Definition np_except_attr {A} (body : res A) (dflt : A) : res A :=
  match body with inl MAttr => inr dflt | other => other end.
(** [A += B] for two 2-D arrays of equal shape *)
Definition np_iadd2 (A B : mat) : mat := madd A B.

(** the sub-models that hold a cohort ([getattr(self, "ext")], [getattr(self, "noext")], [self.unknown]) and their sides *)
Inductive mlcase := CExt | CNoext | CUnknown.
Inductive mlside := SIpsi | SContra.

(** llh = 0.0 if log else 1.0
    ipsi_dist_evo = self.ext.ipsi.state_dist_evo()
    contra_dist_evo = {}
    contra_dist_evo["noext"], contra_dist_evo["ext"] = self.contra_state_dist_evo()
    t_stages = self.t_stages if for_t_stage is None else [for_t_stage]
    for stage in t_stages:
        diag_time_matrix = np.diag(self.get_distribution(stage).pmf)
        num_states = ipsi_dist_evo.shape[1]
        marg_joint_state_dist = np.zeros(shape=(num_states, num_states))
        for case in ["ext", "noext"]:                                                  (unrolled)
            joint_state_dist = ipsi_dist_evo.T @ diag_time_matrix @ contra_dist_evo[case]
            marg_joint_state_dist += joint_state_dist
            _model = getattr(self, case)
            patient_llhs = matrix.fast_trace(_model.ipsi.diagnosis_matrix(stage),
                                             joint_state_dist @ _model.contra.diagnosis_matrix(stage).T)
            llh = utils.add_or_mult(llh, patient_llhs, log=log)
        try:
            marg_patient_llhs = matrix.fast_trace(self.unknown.ipsi.diagnosis_matrix(stage),
                                                  marg_joint_state_dist @ self.unknown.contra.diagnosis_matrix(stage).T)
            llh = utils.add_or_mult(llh, marg_patient_llhs, log=log)
        except AttributeError:
            pass
    if self.use_central:
        if log: llh += self.central.likelihood(log=log, t_stage=for_t_stage)
        else:   llh *= self.central.likelihood(log=log, t_stage=for_t_stage)
    return llh
    [llh] is kept as the list of its factors (as in NumpyPipelines.np_hmm_likelihood): the neutral start value is the empty
    list, add_or_mult appends, [llh += / *= central likelihood] appends the central model's factors.
    [dm c s stage] = MODEL.SIDE.diagnosis_matrix(stage), the attribute access included (AttributeError when there is no
    [unknown] model or no data in it); [central_likelihood t] = the factors of self.central.likelihood(log, t_stage=t) *)
Definition np_ml_hmm_likelihood (noext_contra ext_contra ext_ipsi : uctx) (max_time : nat) (midext_prob : Qc)
  (use_midext_evo : bool) (pmf_of : string -> res vec) (all_t_stages : list string)
  (dm : mlcase -> mlside -> string -> res mat) (use_central : bool) (central_likelihood : option string -> res vec)
  (for_t_stage : option string) : res vec :=
  let llh : vec := [] in
  let ipsi_dist_evo := np_state_dist_evo (uc_T ext_ipsi) (uc_sl ext_ipsi) (uc_maxt ext_ipsi) in
  let '(cde_noext, cde_ext) := np_contra_state_dist_evo noext_contra ext_contra max_time midext_prob use_midext_evo in
  let t_stages := match for_t_stage with None => all_t_stages | Some for_t_stage => [for_t_stage] end in
  bind (fold_left (fun (acc : res vec) (stage : string) => bind acc (fun llh =>
      bind (pmf_of stage) (fun x =>
      let diag_time_matrix := np_diag x in
      let num_states := np_shape1 ipsi_dist_evo in
      let marg_joint_state_dist := np_zeros2 num_states num_states in
      let joint_state_dist := np_matmul (np_matmul (np_transpose 0 ipsi_dist_evo) diag_time_matrix) cde_ext in
      let marg_joint_state_dist := np_iadd2 marg_joint_state_dist joint_state_dist in
      bind (dm CExt SIpsi stage) (fun a =>
      bind (dm CExt SContra stage) (fun b =>
      let patient_llhs := fast_trace a (np_matmul joint_state_dist (np_transpose 0 b)) in
      let llh := llh ++ patient_llhs in
      let joint_state_dist := np_matmul (np_matmul (np_transpose 0 ipsi_dist_evo) diag_time_matrix) cde_noext in
      let marg_joint_state_dist := np_iadd2 marg_joint_state_dist joint_state_dist in
      bind (dm CNoext SIpsi stage) (fun a =>
      bind (dm CNoext SContra stage) (fun b =>
      let patient_llhs := fast_trace a (np_matmul joint_state_dist (np_transpose 0 b)) in
      let llh := llh ++ patient_llhs in
      bind (np_except_attr
              (bind (dm CUnknown SIpsi stage) (fun a =>
               bind (dm CUnknown SContra stage) (fun b =>
               let marg_patient_llhs := fast_trace a (np_matmul marg_joint_state_dist (np_transpose 0 b)) in
               let llh := llh ++ marg_patient_llhs in
               inr llh))) llh) (fun llh =>
      inr llh))))))))
    t_stages (inr llh)) (fun llh =>
  if use_central then bind (central_likelihood for_t_stage) (fun x => let llh := llh ++ x in inr llh)
  else inr llh).

(** the instantiation of the readings with the model *)
Definition side_uni (b : bilateral) (s : mlside) : uni := match s with SIpsi => b_ipsi b | SContra => b_contra b end.
Definition side_patients (s : mlside) (data : list bpatient) : list patient :=
  match s with SIpsi => map ipsi_patient data | SContra => map contra_patient data end.
Definition ml_dm (ml : midline) (data : ml_data) (c : mlcase) (s : mlside) (stage : string) : res mat :=
  match c with
  | CExt => diagnosis_matrix (side_uni (ml_ext ml) s) (side_patients s (d_ext data)) (Some stage)
  | CNoext => diagnosis_matrix (side_uni (ml_noext ml) s) (side_patients s (d_noext data)) (Some stage)
  | CUnknown => match ml_unknown ml, d_unknown data with
                | Some um, Some du => diagnosis_matrix (side_uni um s) (side_patients s du) (Some stage)
                | _, _ => inl MAttr
                end
  end.
Definition ml_use_central (ml : midline) : bool := match ml_central ml with Some _ => true | None => false end.
Definition ml_central_likelihood (ml : midline) (data : ml_data) (t : option string) : res vec :=
  match ml_central ml, d_central data with
  | Some c, Some dc => bi_hmm_likelihood_factors c dc t
  | _, _ => inl MAttr
  end.

(** ** errors of diagnosis_matrix: never AttributeError *)
Lemma patient_encoding_err l m p e : patient_encoding l m p = inl e -> e = MValue.
Proof.
  unfold patient_encoding.
  assert (G : forall acc, (forall e0, acc = inl e0 -> e0 = MValue) ->
    fold_left (fun (acc : res bvec) m0 => bind acc (fun enc =>
        match diag_get m0 (p_find p) with
        | None => inr (kron_bvec enc (repeat true (Nat.pow 2 (length l))))
        | Some pat => match compute_encoding l pat 2 with None => inl MValue | Some e1 => inr (kron_bvec enc e1) end
        end)) m acc = inl e -> e = MValue).
  { induction m as [|m0 m IH]; intros acc Hacc; cbn [fold_left]; [apply Hacc|].
    apply IH. intros e0. destruct acc as [e1|enc]; cbn [bind].
    - apply Hacc.
    - destruct (diag_get m0 (p_find p)) as [pat|]; [|discriminate].
      destruct (compute_encoding l pat 2); [discriminate|]. intros H. injection H as <-. reflexivity. }
  apply G. intros e0 H. discriminate H.
Qed.
Lemma sequence_err {A} (P : merr -> Prop) : forall (l : list (res A)), (forall r e, In r l -> r = inl e -> P e) ->
  forall e, sequence l = inl e -> P e.
Proof.
  induction l as [|r l IH]; intros H e; cbn [sequence]; [discriminate|].
  destruct r as [e1|a] eqn:Er; cbn [bind].
  - intros E. injection E as <-. apply (H (inl e1)); [left; reflexivity|reflexivity].
  - destruct (sequence l) as [e2|t] eqn:Es; cbn [bind]; [|discriminate].
    intros E. injection E as <-. apply (IH (fun r0 e0 Hin => H r0 e0 (or_intror Hin)) e2 eq_refl).
Qed.
Lemma diagnosis_matrix_err u data t e : diagnosis_matrix u data t = inl e -> e = MValue.
Proof.
  unfold diagnosis_matrix, data_matrix.
  destruct (sequence (map (patient_encoding (u_lnls u) (u_mod_names u)) (select data t))) as [e1|D] eqn:Es; cbn [bind];
    [|discriminate].
  intros E. injection E as <-. refine (sequence_err (fun e0 => e0 = MValue) _ _ e1 Es). intros r e0 Hin ->.
  apply in_map_iff in Hin. destruct Hin as [p [Hp _]]. apply (patient_encoding_err _ _ _ _ Hp).
Qed.

(** ** shapes *)
Lemma vecmat_w_0_nil : forall (M : mat) v, Forall (fun r : vec => r = []) M -> vecmat_w 0 v M = [].
Proof.
  induction M as [|r M IH]; intros [|a v] H; cbn [vecmat_w zeros repeat]; try reflexivity.
  inversion H; subst. rewrite IH by assumption. reflexivity.
Qed.

(** [J @ DM.T] with numpy's width (the number of rows of DM.T = the width of DM, lost when DM has no rows) is the model's
    product with the explicit width N: for a DM without rows both are arrays with zero columns *)
Lemma matmul_np_transpose N (J DM : mat) : Forall (fun r => length r = N) DM ->
  np_matmul J (np_transpose 0 DM) = matmul J (transpose_w N DM).
Proof.
  intros H. destruct DM as [|r DM].
  - change (np_matmul J (np_transpose 0 [])) with (matmul J []). unfold matmul. apply map_ext. intros v.
    assert (Hn : ncols (transpose_w N []) = 0%nat) by (unfold transpose_w; destruct N; reflexivity).
    rewrite Hn. cbn [ncols]. rewrite (vecmat_w_0_nil (transpose_w N [])); [destruct v; reflexivity|].
    unfold transpose_w. apply Forall_forall. intros x Hx. apply in_map_iff in Hx. destruct Hx as [j [<- _]]. reflexivity.
  - inversion H; subst. reflexivity.
Qed.

Lemma joint_shape ni ie pm (ce : mat) nc : Forall (fun r => length r = nc) ce -> ncols ce = nc ->
  is_shape ni nc (joint_of_evos ni ie pm ce).
Proof.
  intros Hr Hc. unfold joint_of_evos, matmul. split.
  - rewrite !map_length. unfold transpose_w. rewrite map_length, seq_length. reflexivity.
  - apply Forall_forall. intros r Hin. apply in_map_iff in Hin. destruct Hin as [v [<- _]]. rewrite Hc.
    apply vecmat_w_length. exact Hr.
Qed.

Lemma vadd_zeros_l : forall v : vec, vadd (repeat 0 (length v)) v = v.
Proof. induction v as [|a v IH]; cbn [length repeat vadd map2]; [reflexivity|]. unfold vadd in IH. rewrite IH. f_equal. ring. Qed.
Lemma madd_zeros_l c : forall (A : mat) r, is_shape r c A -> madd (np_zeros2 r c) A = A.
Proof.
  unfold np_zeros2, madd. induction A as [|row A IH]; intros r [Hl Hr]; cbn [length] in Hl; subst r; cbn [repeat map2];
    [reflexivity|].
  inversion Hr as [|? ? H1 H2]; subst. rewrite (IH (length A)) by (split; [reflexivity|exact H2]).
  rewrite vadd_zeros_l. reflexivity.
Qed.

Lemma tab_shape {X} (f : nat -> X -> Qc) (Sx : list X) (L : list nat) : L <> [] ->
  Forall (fun r => length r = length Sx) (map (fun t => map (f t) Sx) L) /\ ncols (map (fun t => map (f t) Sx) L) = length Sx.
Proof.
  intros HL. split; [|apply (ncols_tab f Sx L HL)].
  apply Forall_forall. intros r Hr. apply in_map_iff in Hr. destruct Hr as [t [<- _]]. apply map_length.
Qed.

Lemma contra_evo_shape ml ne ee : wf_midline ml = true -> contra_state_dist_evo ml = (ne, ee) ->
  let N := nstates (b_contra (ml_ext ml)) in
  (Forall (fun r => length r = N) ne /\ ncols ne = N) /\ (Forall (fun r => length r = N) ee /\ ncols ee = N).
Proof.
  intros Hwf E. destruct (wf_midline_parts ml Hwf) as (Hi & He & Hn & Hme & Hmn & HS).
  replace ne with (fst (contra_state_dist_evo ml)) by (rewrite E; reflexivity).
  replace ee with (snd (contra_state_dist_evo ml)) by (rewrite E; reflexivity).
  rewrite (contra_evo_tab ml Hwf). cbn [fst snd]. cbv zeta. rewrite nstates_length, HS.
  assert (HL : seq 0 (S (ml_maxt ml)) <> []) by (cbn [seq]; discriminate).
  split; apply tab_shape; exact HL.
Qed.

Section HmmLikelihood.
  Variables (ml : midline) (data : ml_data).
  Hypothesis Hwf : wf_midline ml = true.
  (** both sides have the same number of LNLs (lymph builds them from one graph dictionary): [marg += joint] adds an
      N_ipsi x N_contra array to an N_ipsi x N_ipsi array of zeros *)
  Hypothesis Hsame : u_n (b_ipsi (ml_ext ml)) = u_n (b_contra (ml_ext ml)).
  Hypothesis Hunk : forall um, ml_unknown ml = Some um -> wf_graphb (u_graph (b_contra um)) = true.

  Theorem np_ml_hmm_likelihood_model t :
    np_ml_hmm_likelihood (uctx_of (b_contra (ml_noext ml))) (uctx_of (b_contra (ml_ext ml))) (uctx_of (b_ipsi (ml_ext ml)))
                         (ml_maxt ml) (ml_midext ml) (ml_evo ml) (get_pmf (b_ipsi (ml_ext ml))) (ml_t_stages ml)
                         (ml_dm ml data) (ml_use_central ml) (ml_central_likelihood ml data) t
    = ml_hmm_likelihood_factors ml data t.
  Proof.
    destruct (wf_midline_parts ml Hwf) as (Hi & He & Hn & Hme & Hmn & HS).
    unfold np_ml_hmm_likelihood, ml_hmm_likelihood_factors.
    rewrite (np_contra_state_dist_evo_model ml Hwf). unfold uctx_of. cbn [uc_T uc_sl uc_maxt].
    rewrite (np_state_dist_evo_model _ Hi).
    destruct (contra_state_dist_evo ml) as [ne ee] eqn:Ece. cbv zeta.
    destruct (contra_evo_shape ml ne ee Hwf Ece) as [[Hne1 Hne2] [Hee1 Hee2]].
    set (ie := state_dist_evo (b_ipsi (ml_ext ml))).
    set (stages := match t with None => ml_t_stages ml | Some ts => [ts] end).
    assert (HN : nstates (b_contra (ml_ext ml)) = nstates (b_ipsi (ml_ext ml))).
    { unfold wf_midline in Hwf. rewrite !andb_true_iff in Hwf. destruct Hwf as [[[[Hbe _] _] _] _].
      destruct (wf_bilateral_parts _ Hbe) as (_ & _ & _ & Hb). unfold nstates. rewrite Hb, Hsame. reflexivity. }
    rewrite (fold_left_ext2 _ (fun (acc : res vec) (stage : string) => bind acc (fun llh =>
               bind (ml_stage_factors ml data ie ne ee stage) (fun x => inr (llh ++ x))))).
    - rewrite fold_bind_sequence. cbn [app].
      destruct (sequence (map (ml_stage_factors ml data ie ne ee) stages)) as [e|ls]; cbn [bind]; [reflexivity|].
      unfold ml_use_central, ml_central_likelihood. destruct (ml_central ml) as [c|]; [|reflexivity].
      destruct (d_central data) as [dc|]; cbn [bind]; [|reflexivity].
      destruct (bi_hmm_likelihood_factors c dc t); reflexivity.
    - intros [e|llh] stage; cbn [bind]; [reflexivity|]. unfold ml_stage_factors.
      destruct (get_pmf (b_ipsi (ml_ext ml)) stage) as [e|pm]; cbn [bind]; [reflexivity|]. cbv zeta.
      assert (HJ : forall ce, np_matmul (np_matmul (np_transpose 0 ie) (np_diag pm)) ce
                              = joint_of_evos (nstates (b_ipsi (ml_ext ml))) ie pm ce).
      { intros ce. unfold ie, state_dist_evo. rewrite np_transpose_evo, onehot0_length. reflexivity. }
      rewrite !HJ.
      assert (HS1 : np_shape1 ie = nstates (b_ipsi (ml_ext ml))).
      { unfold np_shape1, ie, state_dist_evo. rewrite ncols_evo_rows, onehot0_length. reflexivity. }
      rewrite HS1.
      set (je := joint_of_evos (nstates (b_ipsi (ml_ext ml))) ie pm ee).
      set (jn := joint_of_evos (nstates (b_ipsi (ml_ext ml))) ie pm ne).
      assert (Hmarg : np_iadd2 (np_iadd2 (np_zeros2 (nstates (b_ipsi (ml_ext ml))) (nstates (b_ipsi (ml_ext ml)))) je) jn
                      = madd je jn).
      { unfold np_iadd2. rewrite madd_zeros_l; [reflexivity|]. rewrite <- HN at 2. apply joint_shape; assumption. }
      rewrite Hmarg. unfold bi_llhs_of_joint. cbn [ml_dm side_uni side_patients].
      destruct (diagnosis_matrix (b_ipsi (ml_ext ml)) (map ipsi_patient (d_ext data)) (Some stage)) as [e|DMie];
        cbn [bind]; [reflexivity|].
      destruct (diagnosis_matrix (b_contra (ml_ext ml)) (map contra_patient (d_ext data)) (Some stage)) as [e|DMce] eqn:E1;
        cbn [bind]; [reflexivity|].
      rewrite (matmul_np_transpose (nstates (b_contra (ml_ext ml))) je DMce)
        by (apply (diagnosis_matrix_rows _ _ _ _ He E1)).
      destruct (diagnosis_matrix (b_ipsi (ml_noext ml)) (map ipsi_patient (d_noext data)) (Some stage)) as [e|DMin];
        cbn [bind]; [reflexivity|].
      destruct (diagnosis_matrix (b_contra (ml_noext ml)) (map contra_patient (d_noext data)) (Some stage)) as [e|DMcn] eqn:E2;
        cbn [bind]; [reflexivity|].
      rewrite (matmul_np_transpose (nstates (b_contra (ml_noext ml))) jn DMcn)
        by (apply (diagnosis_matrix_rows _ _ _ _ Hn E2)).
      destruct (ml_unknown ml) as [um|] eqn:Eum; [destruct (d_unknown data) as [du|]|];
        cbn [np_except_attr bind]; try (rewrite <- !app_assoc; reflexivity).
      destruct (diagnosis_matrix (b_ipsi um) (map ipsi_patient du) (Some stage)) as [e|DMiu] eqn:E3; cbn [bind].
      { rewrite (diagnosis_matrix_err _ _ _ _ E3). reflexivity. }
      destruct (diagnosis_matrix (b_contra um) (map contra_patient du) (Some stage)) as [e|DMcu] eqn:E4; cbn [bind].
      { rewrite (diagnosis_matrix_err _ _ _ _ E4). reflexivity. }
      cbn [np_except_attr bind].
      rewrite (matmul_np_transpose (nstates (b_contra um)) (madd je jn) DMcu)
        by (apply (diagnosis_matrix_rows _ _ _ _ (Hunk um eq_refl) E4)).
      rewrite <- !app_assoc. reflexivity.
  Qed.
End HmmLikelihood.
