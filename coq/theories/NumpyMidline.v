(** NumpyMidline: the numerical core of [lymph.models.Midline] ([midext_evo], [contra_state_dist_evo], [state_dist],
    [obs_dist]) read with numpy's array semantics, line by line as the Python code is written ([np_<function>]), and the
    STATIC proofs that these readings equal the hand-written model of Midline.v ([midext_evo], [contra_state_dist_evo],
    [ml_state_dist], [ml_state_dist_central]) for every [ml] with [wf_midline ml = true].

    Same architecture as NumpyPipelines.v (whose primitives and lemmas are reused): the source translator
    (harness/translate7.py) re-generates every [np_...] term from the Python source on every run and checks the generated
    term against the definition here by [reflexivity] (conversion); the equality with the model then follows from the
    static theorem [np_..._model].

    Arrays: a 1-D float array is a [vec], a 1-D integer array a [list nat], a 2-D array a [mat] (list of rows), a 3-D
    array a [list mat]; a value that is a 2-D or a 3-D array depending on the call (the result of Midline.state_dist /
    obs_dist) is an [nd].  In-place operations ([A *= x], [A[i] = row], [A[:, j] = col]) rebind the name; this is sound
    because the translator only accepts them on names bound to a freshly created array (no other name, no view).

    What is NOT modelled: numpy raises (ValueError / IndexError) when shapes do not fit; the list primitives truncate or
    leave the array unchanged.  Under the hypotheses of the theorems all shapes fit (this is what the shape lemmas
    below establish: e.g. the in-place scaling by the (max_time + 1) x 1 column needs a state_dist_evo with exactly
    max_time + 1 rows, the recursion writes rows 1 .. max_time of an array with max_time + 1 rows). *)
From LymphModel Require Import Base States Linalg Graph Transition Observation Dist Unilateral UniStatements Models
  Bilateral Midline BiStatements Numpy NumpyTransition TransitionProofs ObservationProofs PriorProofs MidlineProofs
  NumpyPipelines.
From LymphModel Require NumpyMatrix.
Local Open Scope nat_scope.
Open Scope Qc_scope.

(** * numpy primitives (the translator's reading; trusted base) *)
(** [np.arange(n)] *)
Definition np_arange (n : nat) : list nat := seq 0 n.
(** [q ** v] for a float [q] and a 1-D integer array [v]; [q - v], [q * v] for a float [q] and a 1-D float array [v];
    [u + v] for two 1-D float arrays of equal length *)
Definition np_spow (q : Qc) (v : list nat) : vec := map (Dist.qpow q) v.
Definition np_rsub (q : Qc) (v : vec) : vec := map (fun x => q - x) v.
Definition np_smul (q : Qc) (v : vec) : vec := vscale q v.
Definition np_vadd (u v : vec) : vec := vadd u v.
(** [M[:, j]] (read) and [M[:, j] = v] (v as long as M has rows) *)
Definition np_getcol (M : mat) (j : nat) : vec := map (fun r => nth j r 0) M.
Definition np_set_col (M : mat) (j : nat) (v : vec) : mat := map2 (fun row x => set_nth j x row) M v.
(** [v.reshape(-1, 1)]: an n x 1 array *)
Definition np_reshape_col (v : vec) : mat := map (fun a => [a]) v.
(** [A *= c] for a float c; [A *= C] for an n x 1 array C (broadcast along the rows), A with n rows *)
Definition np_imul_s (A : mat) (c : Qc) : mat := map (map (fun x => x * c)) A.
Definition np_imul_colm (A C : mat) : mat := map2 (fun row c => map (fun x => x * nth 0 c 0) row) A C.
(** [np.zeros_like(A)] *)
Definition np_zeros_like (A : mat) : mat := map (map (fun _ => 0)) A.
(** [A @ B] for two 2-D arrays; [np.diag(v)]; [A.shape[1]] (A with at least one row) *)
Definition np_matmul (A B : mat) : mat := map (fun r => np_vecmat r B) A.
Definition np_diag (v : vec) : mat := diag v.
Definition np_shape1 (A : mat) : nat := ncols A.
(** [np.empty(shape=(a, b, c))] (the content is unspecified; every slab is overwritten before the array is read),
    [R[i] = M] and [R[i]] for a 3-D array R *)
Definition np_empty3 (a b c : nat) : list mat := repeat (repeat (repeat 0 c) b) a.
Definition np_set_slab (R : list mat) (i : nat) (M : mat) : list mat := set_nth i M R.
Definition np_slab (R : list mat) (i : nat) : mat := nth i R [].
(** a 2-D or a 3-D array *)
Inductive nd := Nd2 (m : mat) | Nd3 (ms : list mat).

(** what a method of Midline reads from one of its Unilateral sub-models ([self.ext.ipsi], [self.ext.contra],
    [self.noext.contra]): the transition matrix, the state list and max_time (the arguments of
    [NumpyPipelines.np_state_dist_evo], which the translator re-generates from Unilateral.state_dist_evo) *)
Record uctx := { uc_T : mat; uc_sl : list state; uc_maxt : nat }.
Definition uctx_of (u : uni) : uctx := {| uc_T := transition_matrix u; uc_sl := u_states u; uc_maxt := u_maxt u |}.

(** * the functions, line by line *)
(** time_steps = np.arange(self.max_time + 1)
    midext_states = np.zeros(shape=(self.max_time + 1, 2), dtype=float)
    midext_states[:, 0] = (1.0 - self.midext_prob) ** time_steps
    midext_states[:, 1] = 1.0 - midext_states[:, 0]
    return midext_states *)
Definition np_midext_evo (max_time : nat) (midext_prob : Qc) : mat :=
  let time_steps := np_arange (max_time + 1) in
  let midext_states := np_zeros2 (max_time + 1) 2 in
  let midext_states := np_set_col midext_states 0 (np_spow (1 - midext_prob) time_steps) in
  let midext_states := np_set_col midext_states 1 (np_rsub 1 (np_getcol midext_states 0)) in
  midext_states.

(** noext_contra_dist_evo = self.noext.contra.state_dist_evo()
    if not self.use_midext_evo:
        ext_contra_dist_evo = self.ext.contra.state_dist_evo()
        noext_contra_dist_evo *= 1.0 - self.midext_prob
        ext_contra_dist_evo *= self.midext_prob
    else:
        ext_contra_dist_evo = np.zeros_like(noext_contra_dist_evo)
        midext_evo = self.midext_evo()
        noext_contra_dist_evo *= midext_evo[:, 0].reshape(-1, 1)
        for t in range(self.max_time):
            ext_contra_dist_evo[t + 1] = (
                self.midext_prob * noext_contra_dist_evo[t] + ext_contra_dist_evo[t]
            ) @ self.ext.contra.transition_matrix()
    return noext_contra_dist_evo, ext_contra_dist_evo *)
Definition np_contra_state_dist_evo (noext_contra ext_contra : uctx) (max_time : nat) (midext_prob : Qc)
  (use_midext_evo : bool) : mat * mat :=
  let noext_contra_dist_evo := np_state_dist_evo (uc_T noext_contra) (uc_sl noext_contra) (uc_maxt noext_contra) in
  if negb use_midext_evo then
    let ext_contra_dist_evo := np_state_dist_evo (uc_T ext_contra) (uc_sl ext_contra) (uc_maxt ext_contra) in
    let noext_contra_dist_evo := np_imul_s noext_contra_dist_evo (1 - midext_prob) in
    let ext_contra_dist_evo := np_imul_s ext_contra_dist_evo midext_prob in
    (noext_contra_dist_evo, ext_contra_dist_evo)
  else
    let ext_contra_dist_evo := np_zeros_like noext_contra_dist_evo in
    let midext_evo := np_midext_evo max_time midext_prob in
    let noext_contra_dist_evo := np_imul_colm noext_contra_dist_evo (np_reshape_col (np_getcol midext_evo 0)) in
    let ext_contra_dist_evo := fold_left (fun (ext_contra_dist_evo : mat) (t : nat) =>
        np_set_row ext_contra_dist_evo (t + 1)
          (np_vecmat (np_vadd (np_smul midext_prob (np_row noext_contra_dist_evo t)) (np_row ext_contra_dist_evo t))
                     (uc_T ext_contra)))
      (np_range 0 max_time) ext_contra_dist_evo in
    (noext_contra_dist_evo, ext_contra_dist_evo).

(** if central: return self.central.state_dist(t_stage, mode)
    ipsi_dist_evo = self.ext.ipsi.state_dist_evo()
    noext_contra_dist_evo, ext_contra_dist_evo = self.contra_state_dist_evo()
    if mode == "HMM":
        result = np.empty(shape=(2, ipsi_dist_evo.shape[1], ipsi_dist_evo.shape[1]))
        time_marg_matrix = np.diag(self.get_distribution(t_stage).pmf)
        result[0] = ipsi_dist_evo.T @ time_marg_matrix @ noext_contra_dist_evo
        result[1] = ipsi_dist_evo.T @ time_marg_matrix @ ext_contra_dist_evo
        return result
    raise NotImplementedError("Only HMM mode is supported as of now.")
    [hmm] = (mode == "HMM"); [central_state_dist t hmm] = self.central.state_dist(t, mode), AttributeError included *)
Definition np_ml_state_dist (noext_contra ext_contra ext_ipsi : uctx) (max_time : nat) (midext_prob : Qc)
  (use_midext_evo : bool) (pmf_of : string -> res vec) (central_state_dist : string -> bool -> res mat)
  (t_stage : string) (hmm : bool) (central : bool) : res nd :=
  if central then
    bind (central_state_dist t_stage hmm) (fun x => inr (Nd2 x))
  else
    let ipsi_dist_evo := np_state_dist_evo (uc_T ext_ipsi) (uc_sl ext_ipsi) (uc_maxt ext_ipsi) in
    let '(noext_contra_dist_evo, ext_contra_dist_evo) :=
      np_contra_state_dist_evo noext_contra ext_contra max_time midext_prob use_midext_evo in
    if hmm then
      let result := np_empty3 2 (np_shape1 ipsi_dist_evo) (np_shape1 ipsi_dist_evo) in
      bind (pmf_of t_stage) (fun x =>
      let time_marg_matrix := np_diag x in
      let result := np_set_slab result 0
        (np_matmul (np_matmul (np_transpose 0 ipsi_dist_evo) time_marg_matrix) noext_contra_dist_evo) in
      let result := np_set_slab result 1
        (np_matmul (np_matmul (np_transpose 0 ipsi_dist_evo) time_marg_matrix) ext_contra_dist_evo) in
      inr (Nd3 result))
    else inl MNotImpl.

(** if given_state_dist is None:
        given_state_dist = self.state_dist(t_stage=t_stage, mode=mode, central=central)
    if given_state_dist.ndim == 2:
        return self.ext.obs_dist(given_state_dist=given_state_dist)
    obs_dist = [self.ext.obs_dist(given_state_dist=given_state_dist[0]),
                self.ext.obs_dist(given_state_dist=given_state_dist[1])]
    return np.stack(obs_dist)
    [ext_obs_dist sd] = self.ext.obs_dist(given_state_dist=sd) (Bilateral.obs_dist with a given 2-D array) *)
Definition np_ml_obs_dist (noext_contra ext_contra ext_ipsi : uctx) (max_time : nat) (midext_prob : Qc)
  (use_midext_evo : bool) (pmf_of : string -> res vec) (central_state_dist : string -> bool -> res mat)
  (ext_obs_dist : mat -> mat)
  (given_state_dist : option nd) (t_stage : string) (hmm : bool) (central : bool) : res nd :=
  bind (match given_state_dist with
        | None => np_ml_state_dist noext_contra ext_contra ext_ipsi max_time midext_prob use_midext_evo pmf_of
                                   central_state_dist t_stage hmm central
        | Some given_state_dist => inr given_state_dist
        end) (fun given_state_dist =>
  match given_state_dist with
  | Nd2 given_state_dist => inr (Nd2 (ext_obs_dist given_state_dist))
  | Nd3 given_state_dist =>
      let obs_dist := [ext_obs_dist (np_slab given_state_dist 0); ext_obs_dist (np_slab given_state_dist 1)] in
      inr (Nd3 obs_dist)
  end).

(** * midext_evo *)
Lemma set_col_tab (f : nat -> vec) (g : nat -> Qc) j : forall l,
  np_set_col (map f l) j (map g l) = map (fun t => set_nth j (g t) (f t)) l.
Proof. intros l. unfold np_set_col. exact (map2_map_map (fun row x => set_nth j x row) f g l). Qed.

Definition midext_row (p : Qc) (t : nat) : vec := [Dist.qpow (1 - p) t; 1 - Dist.qpow (1 - p) t].

(** row t = [(1-p)^t; 1 - (1-p)^t], t = 0 .. max_time *)
Lemma np_midext_evo_closed max_time p : np_midext_evo max_time p = map (midext_row p) (seq 0 (S max_time)).
Proof.
  unfold np_midext_evo, np_arange, np_zeros2, np_spow, np_rsub, np_getcol. cbv zeta. rewrite Nat.add_1_r.
  set (L := seq 0 (S max_time)).
  assert (H0 : repeat (repeat 0 2) (S max_time) = map (fun _ : nat => [0; 0]) L).
  { unfold L. rewrite map_const_repeat, seq_length. reflexivity. }
  rewrite H0, set_col_tab. cbn [set_nth].
  rewrite !map_map. cbn [nth].
  exact (set_col_tab (fun t => [Dist.qpow (1 - p) t; 0]) (fun t => 1 - Dist.qpow (1 - p) t) 1%nat L).
Qed.

Theorem np_midext_evo_model ml :
  map (fun r => (nth 0 r 0, nth 1 r 0)) (np_midext_evo (ml_maxt ml) (ml_midext ml)) = midext_evo ml.
Proof. rewrite np_midext_evo_closed, map_map. reflexivity. Qed.

(** the same rows as a 2-D array, and the two-state chain of matrix.evolve_midext (NumpyMatrix.v) *)
Corollary np_midext_evo_rows ml :
  np_midext_evo (ml_maxt ml) (ml_midext ml) = map (fun ab : Qc * Qc => [fst ab; snd ab]) (midext_evo ml).
Proof. rewrite np_midext_evo_closed. unfold midext_evo. rewrite map_map. reflexivity. Qed.
Corollary np_midext_evo_evolve_midext max_time p : np_midext_evo max_time p = NumpyMatrix.evolve_midext max_time p.
Proof. rewrite np_midext_evo_closed, NumpyMatrix.evolve_midext_closed. reflexivity. Qed.

(** * contra_state_dist_evo *)
Lemma map2_map_l {X A B C} (g : A -> B -> C) (h : X -> A) : forall l lb,
  map2 g (map h l) lb = map2 (fun x b => g (h x) b) l lb.
Proof. induction l as [|x l IH]; intros [|b lb]; cbn [map map2]; try reflexivity. rewrite IH. reflexivity. Qed.
Lemma map2_swap {A B C} (g : A -> B -> C) : forall la lb, map2 g la lb = map2 (fun b a => g a b) lb la.
Proof. induction la as [|a la IH]; intros [|b lb]; cbn [map2]; try reflexivity. rewrite IH. reflexivity. Qed.
Lemma map2_ext {A B C} (g g' : A -> B -> C) : (forall a b, g a b = g' a b) -> forall la lb, map2 g la lb = map2 g' la lb.
Proof. intros H. induction la as [|a la IH]; intros [|b lb]; cbn [map2]; try reflexivity. rewrite H, IH. reflexivity. Qed.

(** the static coin: [A *= c] is the model's [map (vscale c)] *)
Lemma np_imul_s_vscale A c : np_imul_s A c = map (vscale c) A.
Proof. unfold np_imul_s, vscale. apply map_ext. intros r. apply map_ext. intros x. ring. Qed.

(** the evolving extension: [A *= midext_evo[:, 0].reshape(-1, 1)] scales row t by (1-p)^t *)
Lemma np_imul_colm_midext ml (A : mat) :
  np_imul_colm A (np_reshape_col (np_getcol (np_midext_evo (ml_maxt ml) (ml_midext ml)) 0))
  = map2 (fun '(a, _) r => vscale a r) (midext_evo ml) A.
Proof.
  rewrite np_midext_evo_closed. unfold np_imul_colm, np_reshape_col, np_getcol, midext_evo.
  rewrite !map_map, map2_map_r, map2_map_l, map2_swap. apply map2_ext. intros t r.
  unfold midext_row, vscale. cbn [nth]. apply map_ext. intros x. ring.
Qed.

Lemma np_zeros_like_rows N (A : mat) : Forall (fun r => length r = N) A -> np_zeros_like A = repeat (zeros N) (length A).
Proof.
  induction 1 as [|r A Hr _ IH]; cbn [np_zeros_like map length repeat]; [reflexivity|].
  unfold np_zeros_like in IH. rewrite IH. f_equal. rewrite map_const_repeat, Hr. reflexivity.
Qed.

(** the recursion [ext[t + 1] = (p * noext[t] + ext[t]) @ T] over rows 0 .. max_time - 1, started from an all-zero
    array whose row 0 is [cur], fills in the model's [ext_rows] *)
Lemma ext_loop p T w z : forall rows r pre_n pre_e cur, length pre_n = length pre_e ->
  fold_left (fun (E : mat) (t : nat) =>
      np_set_row E (t + 1) (vecmat_w w (np_vadd (np_smul p (np_row (pre_n ++ r :: rows) t)) (np_row E t)) T))
    (seq (length pre_e) (length rows)) (pre_e ++ cur :: repeat z (length rows))
  = pre_e ++ ext_rows p T w (r :: rows) cur.
Proof.
  induction rows as [|r' rows IH]; intros r pre_n pre_e cur Hl; cbn [length seq fold_left repeat]; [reflexivity|].
  rewrite ext_rows_cons2.
  set (F := fun (E : mat) (t : nat) =>
      np_set_row E (t + 1) (vecmat_w w (np_vadd (np_smul p (np_row (pre_n ++ r :: r' :: rows) t)) (np_row E t)) T)).
  assert (Hstep : F (pre_e ++ cur :: z :: repeat z (length rows)) (length pre_e)
                  = (pre_e ++ [cur]) ++ vecmat_w w (vadd (vscale p r) cur) T :: repeat z (length rows)).
  { unfold F, np_set_row, np_row, np_vadd, np_smul.
    replace (nth (length pre_e) (pre_n ++ r :: r' :: rows) []) with r by (rewrite <- Hl; symmetry; apply nth_middle).
    rewrite nth_middle, set_nth_app. cbn [set_nth]. rewrite <- app_assoc. reflexivity. }
  rewrite Hstep. unfold F.
  replace (pre_n ++ r :: r' :: rows) with ((pre_n ++ [r]) ++ r' :: rows) by (rewrite <- app_assoc; reflexivity).
  replace (S (length pre_e)) with (length (pre_e ++ [cur])) by (rewrite app_length; cbn [length]; lia).
  rewrite IH by (rewrite !app_length; cbn [length]; lia).
  rewrite <- app_assoc. reflexivity.
Qed.

Lemma state_dist_evo_length u : length (state_dist_evo u) = S (u_maxt u).
Proof. unfold state_dist_evo. apply evo_rows_length. Qed.

Theorem np_contra_state_dist_evo_model ml : wf_midline ml = true ->
  np_contra_state_dist_evo (uctx_of (b_contra (ml_noext ml))) (uctx_of (b_contra (ml_ext ml)))
                           (ml_maxt ml) (ml_midext ml) (ml_evo ml)
  = contra_state_dist_evo ml.
Proof.
  intros Hwf. destruct (wf_midline_parts ml Hwf) as (Hi & He & Hn & Hme & Hmn & HS).
  unfold np_contra_state_dist_evo, contra_state_dist_evo, uctx_of. cbn [uc_T uc_sl uc_maxt]. cbv zeta.
  rewrite (np_state_dist_evo_model _ Hn).
  destruct (ml_evo ml); cbn [negb].
  - rewrite np_imul_colm_midext. f_equal.
    set (w := nstates (b_contra (ml_ext ml))).
    assert (Hw : (u_base (b_contra (ml_noext ml)) ^ u_n (b_contra (ml_noext ml)))%nat = w).
    { unfold w. rewrite nstates_length, <- HS. symmetry. apply u_states_len. }
    assert (Hc : ncols (transition_matrix (b_contra (ml_ext ml))) = w).
    { apply ncols_square. apply (transition_matrix_shape _ He). }
    unfold np_vecmat. rewrite Hc.
    rewrite (np_zeros_like_rows w) by (rewrite <- Hw; apply (state_dist_evo_rows _ Hn)).
    rewrite state_dist_evo_length, Hmn.
    set (N' := map2 (fun '(a, _) r => vscale a r) (midext_evo ml) (state_dist_evo (b_contra (ml_noext ml)))).
    assert (HN : length N' = S (ml_maxt ml)).
    { unfold N', midext_evo. rewrite map2_length, map_length, seq_length, state_dist_evo_length, Hmn. apply Nat.min_id. }
    destruct N' as [|r rows]; [discriminate HN|]. cbn [length] in HN. injection HN as HN.
    unfold np_range. rewrite Nat.sub_0_r, <- HN.
    exact (ext_loop (ml_midext ml) (transition_matrix (b_contra (ml_ext ml))) w (zeros w) rows r [] [] (zeros w) eq_refl).
  - rewrite (np_state_dist_evo_model _ He), !np_imul_s_vscale. reflexivity.
Qed.
