(** Observation: [Modality.confusion_matrix] (clinical / pathological, binary /
    trinary), [matrix.generate_observation] (Impl), [obs_list], the entry-wise
    Spec [obs_spec], [matrix.compute_encoding] and [Unilateral.diagnosis_prob].
    Executable definitions only. *)
From LymphModel Require Import Base States Linalg Graph.
Local Open Scope nat_scope.
Open Scope Qc_scope.

Record modality := { m_spec : Qc; m_sens : Qc; m_path : bool }.

(** Modality.compute_confusion_matrix, Clinical/Pathological overrides *)
Definition confusion_matrix (b : nat) (m : modality) : mat :=
  let r0 := [m_spec m; 1 - m_spec m] in
  let r1 := [1 - m_sens m; m_sens m] in
  if Nat.eqb b 3 then (if m_path m then [r0; r1; r1] else [r0; r0; r1]) else [r0; r1].

(** matrix.generate_observation(modalities, num_lnls, base) *)
Definition generate_observation (mods : list modality) (n b : nat) : mat :=
  fold_left (fun (O : mat) m => row_wise_kron O (kron_pow (confusion_matrix b m) n))
    mods (repeat [1] (Nat.pow b n)).

(** Unilateral.obs_list: product over (modality, LNL) of {0,1} *)
Definition obs_list (nmods n : nat) : list state := all_states 2 (nmods * n).

(** Spec: entry = product over modalities and LNLs of confusion entries *)
Fixpoint chunk {A} (n k : nat) (l : list A) : list (list A) :=
  match k with O => [] | S k' => firstn n l :: chunk n k' (skipn n l) end.
Definition conf (b : nat) (m : modality) (s z : nat) : Qc := mget (confusion_matrix b m) s z.
Definition obs_spec (mods : list modality) (n b : nat) (x z : state) : Qc :=
  prodQ (map (fun '(m, zm) => prodQ (map (fun '(s, o) => conf b m s o) (combine x zm)))
             (combine mods (chunk n (length mods) z))).
Definition obs_spec_matrix (mods : list modality) (n b : nat) : mat :=
  map (fun x => map (obs_spec mods n b x) (obs_list (length mods) n)) (all_states b n).

(** * matrix.compute_encoding *)
(** an involvement indicator for one LNL; [None] = unknown / absent / NaN *)
Inductive indicator := IHealthy | IInvolved | IMicro | IMacro | INotMacro.
Definition pattern := list (string * option indicator).   (* a dict; missing key = unknown *)

(** element_map; [None] = the value is no key of the map for this base (ValueError) *)
Definition element (b : nat) (i : indicator) : option bvec :=
  if Nat.eqb b 2 then
    match i with IHealthy => Some [true; false] | IInvolved => Some [false; true] | _ => None end
  else
    match i with
    | IHealthy => Some [true; false; false] | IInvolved => Some [false; true; true]
    | IMicro => Some [false; true; false] | IMacro => Some [false; false; true]
    | INotMacro => Some [true; true; false]
    end.

Fixpoint pat_get (l : string) (p : pattern) : option indicator :=
  match p with [] => None | (k, v) :: r => if str_eqb l k then v else pat_get l r end.

(** tile_and_repeat(mat=element, tile=(1, b^j), repeat=(1, b^(n-j-1)))[0] *)
Definition tile_and_repeat_row {A} (el : list A) (t r : nat) : list A := repeat_each r (tile t el).

Definition compute_encoding (lnl_names : list string) (p : pattern) (b : nat) : option bvec :=
  let n := length lnl_names in
  fold_left (fun (acc : option bvec) '(j, l) =>
      match acc with None => None | Some enc =>
        match pat_get l p with
        | None => Some enc
        | Some ind =>
            match element b ind with
            | None => None
            | Some el => Some (map2 andb enc (tile_and_repeat_row el (Nat.pow b j) (Nat.pow b (n - j - 1))))
            end
        end
      end)
    (combine (seq 0 n) lnl_names) (Some (repeat true (Nat.pow b n))).

(** Spec of an encoding: state x is marked iff every LNL value matches its indicator *)
Definition matches_ind (b : nat) (i : indicator) (d : nat) : bool :=
  match element b i with Some el => nth d el false | None => false end.
Definition matches_pattern (lnl_names : list string) (p : pattern) (b : nat) (x : state) : bool :=
  forallb (fun '(l, d) => match pat_get l p with None => true | Some i => matches_ind b i d end)
          (combine lnl_names x).

(** * Unilateral.diagnosis_prob for the current state [x] *)
Definition diagnosis := list (string * pattern).   (* modality name -> pattern over LNLs *)
Fixpoint diag_get (m : string) (d : diagnosis) : option pattern :=
  match d with [] => None | (k, v) :: r => if str_eqb m k then Some v else diag_get m r end.
Definition obs_of_indicator (i : indicator) : nat := match i with IHealthy => 0 | _ => 1 end.
Definition diagnosis_prob (b : nat) (mods : list (string * modality)) (lnl_names : list string)
  (x : state) (d : diagnosis) : Qc :=
  fold_left (fun (pr : Qc) '(name, m) =>
      match diag_get name d with
      | None => pr
      | Some pat =>
          fold_left (fun (pr' : Qc) '(l, s) =>
              match pat_get l pat with
              | None => pr'
              | Some ind => pr' * conf b m s (obs_of_indicator ind)
              end) (combine lnl_names x) pr
      end) mods 1.
