(** Transition: [utils.comp_transition_tensor], [Edge.transition_tensor],
    [matrix.generate_transition] (Impl), the per-LNL rule [lnl_factor] and
    [trans_spec] (Spec), and the node-level [comp_trans_prob] /
    [Unilateral.transition_prob].  Executable definitions only. *)
From LymphModel Require Import Base States Linalg Graph.
Local Open Scope nat_scope.
Open Scope Qc_scope.

(** * utils.comp_transition_tensor: tensor[p][c][n] *)
Definition eye_row (n i : nat) : vec := map (fun j => if Nat.eqb i j then 1 else 0) (seq 0 n).
Definition eye (n : nat) : mat := map (eye_row n) (seq 0 n).
Definition tensor := list mat.
Fixpoint set_nth {A} (i : nat) (v : A) (l : list A) : list A :=
  match l, i with
  | [], _ => []
  | _ :: r, O => v :: r
  | a :: r, S i' => a :: set_nth i' v r
  end.
(** tensor[p, c, :] = row *)
Definition tensor_set (T : tensor) (p c : nat) (row : vec) : tensor :=
  set_nth p (set_nth c row (nth p T [])) T.
Definition tget (T : tensor) (p c n : nat) : Qc := nth n (nth c (nth p T []) []) 0.
Definition pad (num_child : nat) : vec := repeat 0 (num_child - 2).

Definition comp_transition_tensor (num_parent num_child : nat) (is_tumor is_grow : bool)
  (spread micro : Qc) : tensor :=
  let T := repeat (eye num_child) num_parent in
  if is_tumor then tensor_set T 0 0 ([1 - spread; spread] ++ pad num_child)
  else if is_grow then tensor_set T 1 1 [0; 1 - spread; spread]
  else if Nat.eqb num_parent 3 then
    let ms := spread * micro in
    let T1 := tensor_set T 1 0 ([1 - ms; ms] ++ pad num_child) in
    tensor_set T1 2 0 ([1 - spread; spread] ++ pad num_child)
  else tensor_set T 1 0 ([1 - spread; spread] ++ pad num_child).

(** Edge.get_micro_mod: 1.0 unless the parent is a trinary LNL *)
Definition edge_micro (b : nat) (e : edge) : Qc :=
  match e_kind e with ETumor => 1 | _ => if Nat.eqb b 3 then e_micro e else 1 end.

(** Edge.transition_tensor *)
Definition transition_tensor (b : nat) (e : edge) : tensor :=
  comp_transition_tensor (if is_tumor_spread e then 1%nat else b) b
    (is_tumor_spread e) (is_growth e) (e_spread e) (edge_micro b e).

(** * matrix.generate_transition (Impl) *)
(** The index grids of the code are matrices that are constant along columns
    ([current_state_idx], [parent_state_idx]) or along rows ([new_state_idx], the
    transpose); fancy indexing [tensor[P, C, N]] is element-wise look-up. *)
Definition update_rule (c nw : nat) (m gr : Qc) : Qc :=
  if Nat.eqb nw (c + 1) then 1 - (1 - m) * (1 - gr) else m * gr.

Definition lnl_transition_matrix (g : graph) (i : nat) (lnl : string) : mat :=
  let b := g_base g in let n := nlnls g in
  let cur := state_idx_col i n b in
  let init : mat := map (fun c => map (fun nw => if Nat.eqb nw c then 1 else 0) cur) cur in
  fold_left (fun (M : mat) (e : edge) =>
    let T := transition_tensor b e in
    let par := if is_tumor_spread e then repeat 0%nat (Nat.pow b n)
               else state_idx_col (index_of (e_parent e) (lnls g)) n b in
    let grid : mat := map2 (fun p c => map (fun nw => tget T p c nw) cur) par cur in
    map3 (fun c Mrow Grow => map3 (update_rule c) cur Mrow Grow) cur M grid)
    (inc_edges g lnl) init.

Definition generate_transition (g : graph) : mat :=
  let N := Nat.pow (g_base g) (nlnls g) in
  fold_left (fun (TM : mat) '(i, lnl) => hadamard TM (lnl_transition_matrix g i lnl))
    (combine (seq 0 (nlnls g)) (lnls g)) (repeat (ones N) N).

(** * Spec: the per-LNL one-step rule *)
(** probability that the arc [e] does NOT infect its (healthy) child in state x *)
Definition parent_digit (g : graph) (e : edge) (x : state) : nat :=
  digit (index_of (e_parent e) (lnls g)) x.
Definition arc_prob (g : graph) (e : edge) (x : state) : Qc :=
  match e_kind e with
  | ETumor => e_spread e
  | EGrowth => 0
  | ELnl => match parent_digit g e x with
            | O => 0
            | S O => if Nat.eqb (g_base g) 3 then e_spread e * e_micro e else e_spread e
            | _ => e_spread e
            end
  end.
(** probability that a microscopic LNL turns macroscopic: noisy-or over its growth
    arcs (a graph built by [build_graph] has exactly one per LNL when trinary, none
    when binary, see [growth_prob_built]) *)
Definition growth_prob (g : graph) (lnl : string) : Qc :=
  1 - prodQ (map (fun e => 1 - e_spread e) (filter is_growth (inc_edges g lnl))).
Definition stay_healthy (g : graph) (lnl : string) (x : state) : Qc :=
  prodQ (map (fun e => 1 - arc_prob g e x) (inc_edges g lnl)).

(** [lnl_factor g x lnl a c]: probability that LNL [lnl], currently in state [a]
    while the whole system is in state [x], is in state [c] after one step *)
Definition lnl_factor (g : graph) (x : state) (lnl : string) (a c : nat) : Qc :=
  match a, c with
  | O, O => stay_healthy g lnl x
  | O, S O => 1 - stay_healthy g lnl x
  | S O, S O => 1 - growth_prob g lnl
  | S O, S (S O) => growth_prob g lnl
  | S (S O), S (S O) => 1
  | _, _ => 0
  end.

Definition trans_spec (g : graph) (x y : state) : Qc :=
  prodQ (map (fun '(i, lnl) => lnl_factor g x lnl (digit i x) (digit i y))
             (combine (seq 0 (nlnls g)) (lnls g))).
Definition trans_spec_matrix (g : graph) : mat :=
  map (fun x => map (trans_spec g x) (state_list g)) (state_list g).

(** * Node level: LymphNodeLevel.comp_trans_prob and Unilateral.transition_prob *)
Definition comp_trans_prob (g : graph) (cur : state) (i : nat) (lnl : string) (new_state : nat) : Qc :=
  let b := g_base g in
  let st := digit i cur in
  let probs := map (fun e =>
      let ps := if is_tumor_spread e then 0%nat else parent_digit g e cur in
      tget (transition_tensor b e) ps st new_state) (inc_edges g lnl) in
  if Nat.eqb new_state st then fold_left Qcmult probs 1
  else fold_left (fun tp ep => 1 - (1 - tp) * (1 - ep)) probs 0.
Definition transition_prob (g : graph) (cur new_state : state) : Qc :=
  fold_left (fun tp '(i, lnl) => tp * comp_trans_prob g cur i lnl (digit i new_state))
    (combine (seq 0 (nlnls g)) (lnls g)) 1.

(** * Well-formedness (a boolean predicate; [build_graph] results satisfy it, Graph proofs) *)
Definition wf_edge (g : graph) (e : edge) : bool :=
  mem (e_child e) (lnls g) &&
  match e_kind e with
  | ETumor => mem (e_parent e) (tumors g)
  | ELnl => mem (e_parent e) (lnls g) && negb (str_eqb (e_parent e) (e_child e))
  | EGrowth => str_eqb (e_parent e) (e_child e) && Nat.eqb (g_base g) 3
  end.
Definition wf_graphb (g : graph) : bool :=
  (Nat.eqb (g_base g) 2 || Nat.eqb (g_base g) 3) && nodupb (lnls g) && forallb (wf_edge g) (g_edges g).
Definition params_in_unit (g : graph) : Prop :=
  forall e, In e (g_edges g) -> 0 <= e_spread e <= 1 /\ 0 <= e_micro e <= 1.

(** * Statements of the C05 theorems (proved in TransitionProofs.v, closed in properties/C05.v) *)
Definition C05_transition_entries_stmt : Prop :=
  forall g, wf_graphb g = true -> generate_transition g = trans_spec_matrix g.
Definition C05_row_sums_stmt : Prop :=
  forall g x, wf_graphb g = true -> In x (state_list g) ->
    sumQ (map (trans_spec g x) (state_list g)) = 1.
Definition C05_entries_in_unit_interval_stmt : Prop :=
  forall g x y, wf_graphb g = true -> params_in_unit g -> In x (state_list g) -> In y (state_list g) ->
    0 <= trans_spec g x y <= 1.
Definition C05_never_regresses_never_skips_stmt : Prop :=
  forall g x y, wf_graphb g = true -> In x (state_list g) -> In y (state_list g) ->
    trans_spec g x y <> 0 -> forall i, (i < nlnls g)%nat -> (digit i x <= digit i y <= digit i x + 1)%nat.
Definition C05_transition_prob_agrees_stmt : Prop :=
  forall g x y, wf_graphb g = true -> In x (state_list g) -> In y (state_list g) ->
    transition_prob g x y = trans_spec g x y.
