(** Machine: the caches of the lymph models as a generic state machine (C09).

    Part 1 (Section [Machine]) is GENERIC: all types and all numeric functions are
    the fields of one signature record [sig], so every theorem holds for ANY pure
    functions of the configuration; a change in the numerical core does not touch
    C09.  It models, for any number of live model instances:

    - [Unilateral._data_matrix_cache] / [_diagnosis_matrix_cache] (cachetools LRU
      stores) keyed by hash((t_stage, modalities_hash(), _cache_version)); the hash
      key is modelled by the content it hashes: the T-stage, the list of (modality
      name, confusion matrix) in insertion order, the version counter (collisions of
      Python's [hash] are outside the model);
    - [_cache_version], bumped by [load_patient_data]; [_patient_data];
    - [Modality._confusion_matrix] (per modality object; dropped by the spec / sens
      setters; a new object starts without it);
    - [Distribution._frozen] (per distribution object; filled on construction, dropped
      by [max_time] and by [set_params], refilled by the latter);
    - one module-level value-keyed [functools.lru_cache] of a pure function
      ([utils.comp_transition_tensor]; [get_state_idx_matrix] is the same kind), shared
      by ALL instances.  The identity-keyed module caches ([matrix.generate_transition],
      [generate_observation]) receive a fresh [dict_values] object on every call and
      therefore never hit: they are modelled as what they are, plain function calls.
      [Representation._state_list] is computed once from the immutable graph: part of
      [static].
    - [Evict*] steps drop ARBITRARY entries of any cache at any time (covers the LRU
      policy of both kinds of store, and the paths on which the code leaves a cache
      empty, e.g. a rejected [Distribution.set_params]).

    Exceptions are values of the abstract result types; caching the error value of a
    pure computation is observationally the same as recomputing it.

    A composite model (Bilateral, Midline, HPVUnilateral) is a set of leaf instances:
    its mutators are sequences of leaf mutators ([set_modality] on every leaf;
    [Midline.load_patient_data] = one [Load] per leaf with the sub-cohort of that leaf)
    and its queries are pure functions of leaf queries and of cache-free composite
    fields (mixing parameter, midext_prob), so the theorems below, which hold for every
    operation list over any number of instances, cover them.

    Part 2 instantiates the signature with the numerical model of Unilateral.v.

    Executable definitions and statements only (plus the specifications of the
    instance's boolean equality tests, which the signature record carries); proofs are
    in MachineProofs.v. *)
From LymphModel Require Import Base States Linalg Graph Transition Observation Dist Unilateral.
Local Open Scope nat_scope.

Inductive err := ENoData | ENoKey | ERejected | ENoInst.

(** * The signature: types and pure functions *)
Record sig : Type := {
  sg_static : Type;   (* what is fixed at construction: graph structure, base, class flags *)
  sg_tstage : Type;   sg_mname : Type;
  sg_mval : Type;     (* settings of one modality: spec, sens, kind *)
  sg_mupd : Type;     (* in-place edit of a modality: [m.spec = v], [m.sens = v] *)
  sg_cmval : Type;    (* a confusion matrix *)
  sg_table : Type;    (* a loaded patient table *)
  sg_params : Type;   (* edge parameters *)
  sg_pupd : Type;     (* argument of a parameter setter *)
  sg_dval : Type;     (* one distribution: frozen array, or function + keywords *)
  sg_dupd : Type;     (* argument of set_distribution_params *)
  sg_pmfval : Type;   sg_tkey : Type;   sg_tval : Type;
  sg_dmval : Type;    (* data matrix *)
  sg_omval : Type;    (* observation matrix *)
  sg_gval : Type;     (* diagnosis matrix *)
  sg_qname : Type;    (* any other query with its arguments *)
  sg_qval : Type;
  (* equality tests used by the dict / cache look-ups (boolean, so that the cached machine computes) *)
  sg_tstage_eqb : sg_tstage -> sg_tstage -> bool;
  sg_tstage_eqb_spec : forall a b, sg_tstage_eqb a b = true <-> a = b;
  sg_mname_eqb : sg_mname -> sg_mname -> bool;
  sg_mname_eqb_spec : forall a b, sg_mname_eqb a b = true <-> a = b;
  sg_cmval_eqb : sg_cmval -> sg_cmval -> bool;
  sg_cmval_eqb_spec : forall a b, sg_cmval_eqb a b = true <-> a = b;
  sg_tkey_eqb : sg_tkey -> sg_tkey -> bool;
  sg_tkey_eqb_spec : forall a b, sg_tkey_eqb a b = true <-> a = b;
  sg_cm : sg_static -> sg_mval -> sg_cmval;                  (* Modality.compute_confusion_matrix *)
  sg_apply_mupd : sg_mupd -> sg_mval -> option sg_mval;      (* None = the setter raises, nothing changes *)
  sg_params0 : sg_static -> sg_params;                       (* parameters of a new model *)
  sg_maxt0 : sg_static -> nat;                               (* max_time given to the constructor *)
  sg_apply_pupd : sg_pupd -> sg_params -> sg_params;
  sg_updateable : sg_dval -> bool;                           (* Distribution.is_updateable *)
  sg_apply_dupd : nat -> sg_dupd -> sg_tstage -> sg_dval -> sg_dval;  (* Distribution.set_params at this max_time *)
  sg_pmf_of : nat -> sg_dval -> sg_pmfval;                   (* Distribution.pmf at this max_time *)
  sg_tkeys : sg_static -> sg_params -> list sg_tkey;         (* arguments of the module-level cached function *)
  sg_tensor : sg_tkey -> sg_tval;                            (* utils.comp_transition_tensor *)
  sg_encode : sg_static -> list (sg_mname * sg_cmval) -> sg_table -> sg_dmval;   (* generate_data_encoding *)
  sg_selectT : sg_tstage -> sg_table -> sg_dmval -> sg_dmval;                    (* full[has_t_stage] *)
  sg_observe : sg_static -> list (sg_mname * sg_cmval) -> sg_omval;              (* generate_observation *)
  sg_diagf : sg_omval -> sg_dmval -> sg_gval;                                    (* obs @ data.T *)
  (* T-stages whose diagnosis matrix a query reads, given the distributions' stages and the data *)
  sg_qstages : sg_qname -> sg_static -> list sg_tstage -> option sg_table -> list (option sg_tstage);
  (* any other query: it sees the whole configuration, and the values the code reads through caches
     (transition tensors, pmfs, confusion matrices, diagnosis matrices) *)
  sg_qfun : sg_qname -> sg_static -> sg_params -> list sg_tval -> nat -> list (sg_tstage * sg_dval) ->
            list (sg_tstage * sg_pmfval) -> list (sg_mname * sg_mval) -> list (sg_mname * sg_cmval) ->
            option sg_table -> list (option sg_gval) -> sg_qval
}.

(** * Association lists with dict semantics, caches *)
Section Assoc.
  Context {K V : Type} (dec : K -> K -> bool).
  Fixpoint lookup (k : K) (c : list (K * V)) : option V :=
    match c with [] => None | (k', v) :: r => if dec k k' then Some v else lookup k r end.
  (** d[k] = v : replace in place, or append *)
  Fixpoint aset (k : K) (v : V) (c : list (K * V)) : list (K * V) :=
    match c with
    | [] => [(k, v)]
    | (k', v') :: r => if dec k k' then (k, v) :: r else (k', v') :: aset k v r
    end.
  (** del d[k] : None = KeyError *)
  Fixpoint adel (k : K) (c : list (K * V)) : option (list (K * V)) :=
    match c with
    | [] => None
    | (k', v') :: r => if dec k k' then Some r else option_map (cons (k', v')) (adel k r)
    end.
  (** look up; on a miss store the value computed by the caller *)
  Definition memo (k : K) (v0 : V) (c : list (K * V)) : V * list (K * V) :=
    match lookup k c with Some v => (v, c) | None => (v0, (k, v0) :: c) end.
  (** a pure function through a shared cache, argument by argument *)
  Fixpoint memo_list (f : K -> V) (ks : list K) (c : list (K * V)) : list V * list (K * V) :=
    match ks with
    | [] => ([], c)
    | k :: r => let '(v, c1) := memo k (f k) c in let '(vs, c2) := memo_list f r c1 in (v :: vs, c2)
    end.
End Assoc.
Fixpoint remove_nth {A} (k : nat) (l : list A) : list A :=
  match l, k with [] , _ => [] | _ :: r, O => r | a :: r, S k' => a :: remove_nth k' r end.
Fixpoint upd_nth {A} (k : nat) (a : A) (l : list A) : list A :=
  match l, k with [], _ => [] | _ :: r, O => a :: r | b :: r, S k' => b :: upd_nth k' a r end.
(** table loaded by the v-th call of load_patient_data (v = 0: none) *)
Definition table_at {A} (h : list A) (v : nat) : option A := match v with O => None | S v' => nth_error h v' end.

(** which components enter the cache key: the real one, and two faulty variants used
    only to show that the theorems are not vacuous *)
Inductive kmode := KFull | KNoVersion | KNoMods.

Section Machine.
  Variable M : sig.
  Local Notation static := (sg_static M).   Local Notation tstage := (sg_tstage M).
  Local Notation mname := (sg_mname M).     Local Notation mval := (sg_mval M).
  Local Notation mupd := (sg_mupd M).       Local Notation cmval := (sg_cmval M).
  Local Notation table := (sg_table M).     Local Notation params := (sg_params M).
  Local Notation pupd := (sg_pupd M).       Local Notation dval := (sg_dval M).
  Local Notation dupd := (sg_dupd M).       Local Notation pmfval := (sg_pmfval M).
  Local Notation tkey := (sg_tkey M).       Local Notation tval := (sg_tval M).
  Local Notation dmval := (sg_dmval M).     Local Notation omval := (sg_omval M).
  Local Notation gval := (sg_gval M).       Local Notation qname := (sg_qname M).
  Local Notation qval := (sg_qval M).
  Local Notation tstage_dec := (sg_tstage_eqb M).   Local Notation mname_dec := (sg_mname_eqb M).
  Local Notation cmval_dec := (sg_cmval_eqb M).     Local Notation tkey_dec := (sg_tkey_eqb M).

  (** ** Configuration = what a freshly constructed model is built from *)
  Record cfg := { c_static : static; c_mods : list (mname * mval); c_data : option table;
                  c_params : params; c_dists : list (tstage * dval); c_maxt : nat }.

  (** content hashed by modalities_hash: names and confusion matrices, insertion order *)
  Definition mkey := list (mname * cmval).
  Definition key := (option tstage * mkey * nat)%type.
  Fixpoint mkey_dec (a b : mkey) : bool :=
    match a, b with
    | [], [] => true
    | (n1, c1) :: a', (n2, c2) :: b' => mname_dec n1 n2 && cmval_dec c1 c2 && mkey_dec a' b'
    | _, _ => false
    end.
  Definition key_dec (a b : key) : bool :=
    let '(t1, m1, v1) := a in let '(t2, m2, v2) := b in
    Nat.eqb v1 v2 && mkey_dec m1 m2 &&
    match t1, t2 with Some x, Some y => tstage_dec x y | None, None => true | _, _ => false end.
  Definition mk_key (mode : kmode) (t : option tstage) (mc : mkey) (v : nat) : key :=
    match mode with KFull => (t, mc, v) | KNoVersion => (t, mc, 0) | KNoMods => (t, [], v) end.

  (** ** Live state of one model instance *)
  Record inst := {
    i_static : static;
    i_mods : list (mname * (mval * option cmval));      (* Modality objects with _confusion_matrix *)
    i_data : option table;                              (* _patient_data *)
    i_version : nat;                                    (* _cache_version *)
    i_params : params;
    i_dists : list (tstage * (dval * option pmfval));   (* Distribution objects with _frozen *)
    i_maxt : nat;
    i_dcache : list (key * dmval);                      (* _data_matrix_cache *)
    i_gcache : list (key * gval) }.                     (* _diagnosis_matrix_cache *)
  Definition mcache := list (tkey * tval).              (* the module-level lru_cache *)
  Definition state := (list inst * mcache)%type.
  Definition init : state := ([], []).

  Definition set_mods (x : inst) m := {| i_static := i_static x; i_mods := m; i_data := i_data x; i_version := i_version x;
    i_params := i_params x; i_dists := i_dists x; i_maxt := i_maxt x; i_dcache := i_dcache x; i_gcache := i_gcache x |}.
  Definition set_dists (x : inst) d := {| i_static := i_static x; i_mods := i_mods x; i_data := i_data x; i_version := i_version x;
    i_params := i_params x; i_dists := d; i_maxt := i_maxt x; i_dcache := i_dcache x; i_gcache := i_gcache x |}.
  Definition set_dcache (x : inst) c := {| i_static := i_static x; i_mods := i_mods x; i_data := i_data x; i_version := i_version x;
    i_params := i_params x; i_dists := i_dists x; i_maxt := i_maxt x; i_dcache := c; i_gcache := i_gcache x |}.
  Definition set_gcache (x : inst) c := {| i_static := i_static x; i_mods := i_mods x; i_data := i_data x; i_version := i_version x;
    i_params := i_params x; i_dists := i_dists x; i_maxt := i_maxt x; i_dcache := i_dcache x; i_gcache := c |}.
  Definition set_mods_caches (x : inst) m (c : list (key * dmval) * list (key * gval)) := {| i_static := i_static x; i_mods := m;
    i_data := i_data x; i_version := i_version x; i_params := i_params x; i_dists := i_dists x; i_maxt := i_maxt x;
    i_dcache := fst c; i_gcache := snd c |}.
  Definition set_params_dists (x : inst) p d := {| i_static := i_static x; i_mods := i_mods x; i_data := i_data x;
    i_version := i_version x; i_params := p; i_dists := d; i_maxt := i_maxt x; i_dcache := i_dcache x; i_gcache := i_gcache x |}.
  Definition set_maxt_dists (x : inst) m d := {| i_static := i_static x; i_mods := i_mods x; i_data := i_data x;
    i_version := i_version x; i_params := i_params x; i_dists := d; i_maxt := m; i_dcache := i_dcache x; i_gcache := i_gcache x |}.
  (** load_patient_data: store the table, bump the version; the caches are NOT cleared *)
  Definition set_data (x : inst) tb := {| i_static := i_static x; i_mods := i_mods x; i_data := Some tb;
    i_version := S (i_version x); i_params := i_params x; i_dists := i_dists x; i_maxt := i_maxt x;
    i_dcache := i_dcache x; i_gcache := i_gcache x |}.

  (** a new model: no modalities, no distributions, no data, empty caches *)
  Definition new_inst (s : static) : inst := {| i_static := s; i_mods := []; i_data := None; i_version := 0;
    i_params := sg_params0 M s; i_dists := []; i_maxt := sg_maxt0 M s; i_dcache := []; i_gcache := [] |}.
  Definition new_cfg (s : static) : cfg := {| c_static := s; c_mods := []; c_data := None; c_params := sg_params0 M s;
    c_dists := []; c_maxt := sg_maxt0 M s |}.

  (** ** Abstraction: forget every cache and the version *)
  Definition strip {A B C} (l : list (A * (B * C))) : list (A * B) := map (fun e => (fst e, fst (snd e))) l.
  Definition abs_i (x : inst) : cfg := {| c_static := i_static x; c_mods := strip (i_mods x); c_data := i_data x;
    c_params := i_params x; c_dists := strip (i_dists x); c_maxt := i_maxt x |}.
  Definition abs (st : state) : list cfg := map abs_i (fst st).

  (** ** The pure functions of the configuration (Spec) *)
  Definition content (s : static) (mods : list (mname * mval)) : mkey := map (fun e => (fst e, sg_cm M s (snd e))) mods.
  Definition dm_fun (s : static) (t : option tstage) (mc : mkey) (tb : table) : dmval :=
    let full := sg_encode M s mc tb in
    match t with None => full | Some ts => sg_selectT M ts tb full end.
  Definition gm_fun (s : static) (t : option tstage) (mc : mkey) (tb : table) : gval :=
    sg_diagf M (sg_observe M s mc) (dm_fun s t mc tb).
  Definition dm_spec (c : cfg) (t : option tstage) : option dmval :=
    option_map (dm_fun (c_static c) t (content (c_static c) (c_mods c))) (c_data c).
  Definition gm_spec (c : cfg) (t : option tstage) : option gval :=
    option_map (gm_fun (c_static c) t (content (c_static c) (c_mods c))) (c_data c).
  Definition pmfs_spec (c : cfg) : list (tstage * pmfval) :=
    map (fun e => (fst e, sg_pmf_of M (c_maxt c) (snd e))) (c_dists c).
  Definition query_spec (c : cfg) (q : qname) : qval :=
    let s := c_static c in
    sg_qfun M q s (c_params c) (map (sg_tensor M) (sg_tkeys M s (c_params c))) (c_maxt c) (c_dists c) (pmfs_spec c)
      (c_mods c) (content s (c_mods c)) (c_data c)
      (map (gm_spec c) (sg_qstages M q s (map fst (c_dists c)) (c_data c))).

  (** ** Operations *)
  Inductive iop :=
  (* mutators *)
  | SetMod (n : mname) (v : mval)              (* set_modality: a NEW Modality object under this name *)
  | UpdMod (n : mname) (u : mupd)              (* get_modality(n).spec = v  /  .sens = v *)
  | DelMod (n : mname)
  | ReplaceMods (l : list (mname * mval))      (* replace_all_modalities *)
  | ClearMods
  | Load (tb : table)                          (* load_patient_data *)
  | SetParams (pu : pupd) (du : dupd)          (* set_params: spread parameters, then distribution parameters *)
  | SetDist (t : tstage) (d : dval)            (* set_distribution: a NEW Distribution object *)
  | DelDist (t : tstage)
  | ReplaceDists (l : list (tstage * dval))
  | ClearDists
  | SetMaxTime (m : nat)
  (* queries *)
  | DataMatrix (t : option tstage)
  | DiagMatrix (t : option tstage)
  | PatientData                                (* the patient_data property *)
  | Query (q : qname)                          (* likelihood, state_dist, risk, ... *)
  (* cache evictions *)
  | EvictD (k : nat) | EvictG (k : nat) | EvictCM (n : mname) | EvictFrozen (t : tstage).
  Inductive op := New (s : static) | At (i : nat) (o : iop) | EvictM (k : nat).

  Inductive output := ONone | OErr (e : err) | ODM (v : dmval) | OGM (v : gval) | OTable (tb : table) | OQ (v : qval).

  Definition is_query (o : op) : bool :=
    match o with
    | At _ (DataMatrix _ | DiagMatrix _ | PatientData | Query _) => true
    | _ => false
    end.
  Definition is_evict (o : op) : bool :=
    match o with EvictM _ | At _ (EvictD _ | EvictG _ | EvictCM _ | EvictFrozen _) => true | _ => false end.

  (** replace_all_*: clear, then set one by one *)
  Definition replace_assoc {K V} (dec : K -> K -> bool) (l : list (K * V)) : list (K * V) :=
    fold_left (fun acc e => aset dec (fst e) (snd e) acc) l [].

  (** ** Spec machine: cache free, every query recomputes from the configuration *)
  Definition sistep (o : iop) (c : cfg) : output * cfg :=
    let with_mods m := {| c_static := c_static c; c_mods := m; c_data := c_data c; c_params := c_params c;
                          c_dists := c_dists c; c_maxt := c_maxt c |} in
    let with_dists d := {| c_static := c_static c; c_mods := c_mods c; c_data := c_data c; c_params := c_params c;
                           c_dists := d; c_maxt := c_maxt c |} in
    match o with
    | SetMod n v => (ONone, with_mods (aset mname_dec n v (c_mods c)))
    | UpdMod n u =>
        match lookup mname_dec n (c_mods c) with
        | None => (OErr ENoKey, c)
        | Some v => match sg_apply_mupd M u v with
                    | None => (OErr ERejected, c)
                    | Some v' => (ONone, with_mods (aset mname_dec n v' (c_mods c)))
                    end
        end
    | DelMod n => match adel mname_dec n (c_mods c) with None => (OErr ENoKey, c) | Some m => (ONone, with_mods m) end
    | ReplaceMods l => (ONone, with_mods (replace_assoc mname_dec l))
    | ClearMods => (ONone, with_mods [])
    | Load tb => (ONone, {| c_static := c_static c; c_mods := c_mods c; c_data := Some tb; c_params := c_params c;
                            c_dists := c_dists c; c_maxt := c_maxt c |})
    | SetParams pu du =>
        (ONone, {| c_static := c_static c; c_mods := c_mods c; c_data := c_data c;
                   c_params := sg_apply_pupd M pu (c_params c);
                   c_dists := map (fun e => (fst e, if sg_updateable M (snd e)
                                                    then sg_apply_dupd M (c_maxt c) du (fst e) (snd e) else snd e)) (c_dists c);
                   c_maxt := c_maxt c |})
    | SetDist t d => (ONone, with_dists (aset tstage_dec t d (c_dists c)))
    | DelDist t => match adel tstage_dec t (c_dists c) with None => (OErr ENoKey, c) | Some d => (ONone, with_dists d) end
    | ReplaceDists l => (ONone, with_dists (replace_assoc tstage_dec l))
    | ClearDists => (ONone, with_dists [])
    | SetMaxTime m => (ONone, {| c_static := c_static c; c_mods := c_mods c; c_data := c_data c; c_params := c_params c;
                                 c_dists := c_dists c; c_maxt := m |})
    | DataMatrix t => (match dm_spec c t with Some v => ODM v | None => OErr ENoData end, c)
    | DiagMatrix t => (match gm_spec c t with Some v => OGM v | None => OErr ENoData end, c)
    | PatientData => (match c_data c with Some tb => OTable tb | None => OErr ENoData end, c)
    | Query q => (OQ (query_spec c q), c)
    | EvictD _ | EvictG _ | EvictCM _ | EvictFrozen _ => (ONone, c)
    end.
  Definition sstep (cs : list cfg) (o : op) : output * list cfg :=
    match o with
    | New s => (ONone, cs ++ [new_cfg s])
    | EvictM _ => (ONone, cs)
    | At i io => match nth_error cs i with
                 | None => (OErr ENoInst, cs)
                 | Some c => let '(out, c') := sistep io c in (out, upd_nth i c' cs)
                 end
    end.
  Fixpoint srun (cs : list cfg) (ops : list op) : list output * list cfg :=
    match ops with
    | [] => ([], cs)
    | o :: r => let '(out, cs1) := sstep cs o in let '(outs, cs2) := srun cs1 r in (out :: outs, cs2)
    end.

  (** ** Cached machine: the code *)
  (** reading [modality.confusion_matrix] of every modality (modalities_hash,
      observation_matrix): the value, and the objects with the cache filled *)
  Definition cm_read (s : static) (e : mname * (mval * option cmval)) : cmval :=
    match snd (snd e) with Some m => m | None => sg_cm M s (fst (snd e)) end.
  Definition content_c (s : static) (mods : list (mname * (mval * option cmval))) : mkey :=
    map (fun e => (fst e, cm_read s e)) mods.
  Definition fill_cms (s : static) (mods : list (mname * (mval * option cmval))) :=
    map (fun e => (fst e, (fst (snd e), Some (cm_read s e)))) mods.
  (** reading [distribution.pmf] *)
  Definition pmf_read (m : nat) (e : tstage * (dval * option pmfval)) : pmfval :=
    match snd (snd e) with Some p => p | None => sg_pmf_of M m (fst (snd e)) end.
  Definition pmfs_c (m : nat) (ds : list (tstage * (dval * option pmfval))) : list (tstage * pmfval) :=
    map (fun e => (fst e, pmf_read m e)) ds.
  Definition fill_pmfs (m : nat) (ds : list (tstage * (dval * option pmfval))) :=
    map (fun e => (fst e, (fst (snd e), Some (pmf_read m e)))) ds.

  (** the two per-instance stores *)
  Definition caches := (list (key * dmval) * list (key * gval))%type.

  Section Keyed.
    Variable mode : kmode.
    (** The four procedures below are the bodies of data_matrix / diagnosis_matrix; they
        read [s] = the immutable part, [ver] = _cache_version, [mc] = the content that
        modalities_hash() hashed, [tb] = _patient_data, and update the two stores. *)
    (** data_matrix(None), data present: [full_hash] lookup / generate_data_encoding *)
    Definition dm_none (s : static) (ver : nat) (mc : mkey) (tb : table) (c : caches) : dmval * caches :=
      let '(v, dc) := memo key_dec (mk_key mode None mc ver) (sg_encode M s mc tb) (fst c) in (v, (dc, snd c)).
    (** diagnosis_matrix(None), data present *)
    Definition gm_none (s : static) (ver : nat) (mc : mkey) (tb : table) (c : caches) : gval * caches :=
      let k := mk_key mode None mc ver in
      match lookup key_dec k (snd c) with
      | Some g => (g, c)
      | None => let '(d, c1) := dm_none s ver mc tb c in
                let g := sg_diagf M (sg_observe M s mc) d in
                (g, (fst c1, (k, g) :: snd c1))
      end.
    (** data_matrix(t): the full matrix through the cache, then the [t_hash] lookup; on
        a miss the rows are selected with [self.patient_data], a property that first
        calls diagnosis_matrix() *)
    Definition dm_at (t : option tstage) (s : static) (ver : nat) (mc : mkey) (tb : table) (c : caches)
      : dmval * caches :=
      let '(full, c1) := dm_none s ver mc tb c in
      match t with
      | None => (full, c1)       (* t_hash = full_hash: a hit *)
      | Some ts =>
          let k := mk_key mode (Some ts) mc ver in
          match lookup key_dec k (fst c1) with
          | Some v => (v, c1)
          | None => let '(_, c2) := gm_none s ver mc tb c1 in
                    let v := sg_selectT M ts tb full in
                    (v, ((k, v) :: fst c2, snd c2))
          end
      end.
    (** diagnosis_matrix(t) once the modalities hash has been computed: cache lookup;
        on a miss observation_matrix() @ data_matrix(t).T, which raises without data *)
    Definition gm_at (t : option tstage) (s : static) (ver : nat) (data : option table) (mc : mkey) (c : caches)
      : option gval * caches :=
      let k := mk_key mode t mc ver in
      match lookup key_dec k (snd c) with
      | Some g => (Some g, c)
      | None =>
          match data with
          | None => (None, c)
          | Some tb => let '(d, c1) := dm_at t s ver mc tb c in
                       let g := sg_diagf M (sg_observe M s mc) d in
                       (Some g, (fst c1, (k, g) :: snd c1))
          end
      end.
    Fixpoint gm_list (ts : list (option tstage)) (s : static) (ver : nat) (data : option table) (mc : mkey) (c : caches)
      : list (option gval) * caches :=
      match ts with
      | [] => ([], c)
      | t :: r => let '(g, c1) := gm_at t s ver data mc c in
                  let '(gs, c2) := gm_list r s ver data mc c1 in (g :: gs, c2)
      end.

    Definition istep (o : iop) (x : inst) (mc : mcache) : output * inst * mcache :=
      let s := i_static x in
      match o with
      | SetMod n v => (ONone, set_mods x (aset mname_dec n (v, None) (i_mods x)), mc)
      | UpdMod n u =>
          match lookup mname_dec n (i_mods x) with
          | None => (OErr ENoKey, x, mc)
          | Some (v, _) => match sg_apply_mupd M u v with
                           | None => (OErr ERejected, x, mc)       (* the setter raises before touching anything *)
                           | Some v' => (ONone, set_mods x (aset mname_dec n (v', None) (i_mods x)), mc)
                           end
          end
      | DelMod n => match adel mname_dec n (i_mods x) with
                    | None => (OErr ENoKey, x, mc)
                    | Some m => (ONone, set_mods x m, mc)
                    end
      | ReplaceMods l => (ONone, set_mods x (map (fun e => (fst e, (snd e, None))) (replace_assoc mname_dec l)), mc)
      | ClearMods => (ONone, set_mods x [], mc)
      | Load tb => (ONone, set_data x tb, mc)
      | SetParams pu du =>
          (* every updateable distribution drops _frozen and recomputes it *)
          (ONone, set_params_dists x (sg_apply_pupd M pu (i_params x))
                    (map (fun e => if sg_updateable M (fst (snd e))
                                   then let d' := sg_apply_dupd M (i_maxt x) du (fst e) (fst (snd e)) in
                                        (fst e, (d', Some (sg_pmf_of M (i_maxt x) d')))
                                   else e) (i_dists x)), mc)
      | SetDist t d => (ONone, set_dists x (aset tstage_dec t (d, Some (sg_pmf_of M (i_maxt x) d)) (i_dists x)), mc)
      | DelDist t => match adel tstage_dec t (i_dists x) with
                     | None => (OErr ENoKey, x, mc)
                     | Some d => (ONone, set_dists x d, mc)
                     end
      | ReplaceDists l =>
          (ONone, set_dists x (map (fun e => (fst e, (snd e, Some (sg_pmf_of M (i_maxt x) (snd e)))))
                                   (replace_assoc tstage_dec l)), mc)
      | ClearDists => (ONone, set_dists x [], mc)
      | SetMaxTime m => (ONone, set_maxt_dists x m (map (fun e => (fst e, (fst (snd e), None))) (i_dists x)), mc)
      | DataMatrix t =>
          match i_data x with
          | None => (OErr ENoData, x, mc)                 (* raised before anything is hashed *)
          | Some tb => let '(v, c) := dm_at t s (i_version x) (content_c s (i_mods x)) tb (i_dcache x, i_gcache x) in
                       (ODM v, set_mods_caches x (fill_cms s (i_mods x)) c, mc)
          end
      | DiagMatrix t =>
          let '(g, c) := gm_at t s (i_version x) (i_data x) (content_c s (i_mods x)) (i_dcache x, i_gcache x) in
          (match g with Some v => OGM v | None => OErr ENoData end, set_mods_caches x (fill_cms s (i_mods x)) c, mc)
      | PatientData =>
          match i_data x with
          | None => (OErr ENoData, x, mc)
          | Some tb => let '(_, c) := gm_at None s (i_version x) (i_data x) (content_c s (i_mods x))
                                            (i_dcache x, i_gcache x) in
                       (OTable tb, set_mods_caches x (fill_cms s (i_mods x)) c, mc)
          end
      | Query q =>
          (* confusion matrices, transition tensors, pmfs and diagnosis matrices are all read through their caches *)
          let k := content_c s (i_mods x) in
          let '(tv, mc') := memo_list tkey_dec (sg_tensor M) (sg_tkeys M s (i_params x)) mc in
          let pm := pmfs_c (i_maxt x) (i_dists x) in
          let '(gs, c) := gm_list (sg_qstages M q s (map fst (i_dists x)) (i_data x)) s (i_version x) (i_data x) k
                                  (i_dcache x, i_gcache x) in
          (OQ (sg_qfun M q s (i_params x) tv (i_maxt x) (strip (i_dists x)) pm (strip (i_mods x)) k (i_data x) gs),
           set_dists (set_mods_caches x (fill_cms s (i_mods x)) c) (fill_pmfs (i_maxt x) (i_dists x)), mc')
      | EvictD k => (ONone, set_dcache x (remove_nth k (i_dcache x)), mc)
      | EvictG k => (ONone, set_gcache x (remove_nth k (i_gcache x)), mc)
      | EvictCM n => (ONone, set_mods x (map (fun e => if mname_dec n (fst e) then (fst e, (fst (snd e), None)) else e)
                                             (i_mods x)), mc)
      | EvictFrozen t => (ONone, set_dists x (map (fun e => if tstage_dec t (fst e) then (fst e, (fst (snd e), None)) else e)
                                                  (i_dists x)), mc)
      end.
    Definition cstep_gen (st : state) (o : op) : output * state :=
      match o with
      | New s => (ONone, (fst st ++ [new_inst s], snd st))
      | EvictM k => (ONone, (fst st, remove_nth k (snd st)))
      | At i io => match nth_error (fst st) i with
                   | None => (OErr ENoInst, st)
                   | Some x => let '(out, x', mc') := istep io x (snd st) in (out, (upd_nth i x' (fst st), mc'))
                   end
      end.
    Fixpoint crun_gen (st : state) (ops : list op) : list output * state :=
      match ops with
      | [] => ([], st)
      | o :: r => let '(out, st1) := cstep_gen st o in let '(outs, st2) := crun_gen st1 r in (out :: outs, st2)
      end.
  End Keyed.
  Definition cstep := cstep_gen KFull.
  Definition crun := crun_gen KFull.

  (** ** The invariant *)
  (** [h]: ghost history of one instance, the tables in loading order; the version
      counts them, so the table loaded as version v is [table_at h v]. *)
  Definition caches_coherent (h : list table) (s : static) (c : caches) : Prop :=
    (forall t mc v val, In ((t, mc, v), val) (fst c) -> exists tb, table_at h v = Some tb /\ val = dm_fun s t mc tb) /\
    (forall t mc v val, In ((t, mc, v), val) (snd c) -> exists tb, table_at h v = Some tb /\ val = gm_fun s t mc tb).
  Definition cm_coherent (s : static) (mods : list (mname * (mval * option cmval))) : Prop :=
    forall n v c, In (n, (v, Some c)) mods -> c = sg_cm M s v.
  Definition pmf_coherent (m : nat) (ds : list (tstage * (dval * option pmfval))) : Prop :=
    forall t d p, In (t, (d, Some p)) ds -> p = sg_pmf_of M m d.
  Definition inst_coherent (h : list table) (x : inst) : Prop :=
    i_version x = length h /\
    i_data x = table_at h (i_version x) /\
    cm_coherent (i_static x) (i_mods x) /\
    pmf_coherent (i_maxt x) (i_dists x) /\
    caches_coherent h (i_static x) (i_dcache x, i_gcache x).
  Definition mcache_coherent (mc : mcache) : Prop := forall k v, In (k, v) mc -> v = sg_tensor M k.
  Definition cache_coherent (st : state) : Prop :=
    (exists hs, Forall2 inst_coherent hs (fst st)) /\ mcache_coherent (snd st).

  (** a freshly constructed machine holding given configurations: empty caches *)
  Definition fresh_i (c : cfg) : inst := {| i_static := c_static c; i_mods := map (fun e => (fst e, (snd e, None))) (c_mods c);
    i_data := c_data c; i_version := match c_data c with Some _ => 1 | None => 0 end; i_params := c_params c;
    i_dists := map (fun e => (fst e, (snd e, None))) (c_dists c); i_maxt := c_maxt c; i_dcache := []; i_gcache := [] |}.
  Definition fresh (cs : list cfg) : state := (map fresh_i cs, []).

  (** ** Statements *)
  Definition cache_coherent_init_prop : Prop := cache_coherent init.
  Definition cache_coherent_step_prop : Prop :=
    forall st o, cache_coherent st -> cache_coherent (snd (cstep st o)).
  (** one step of the code = one step of the cache-free machine on the abstraction *)
  Definition step_simulation_prop : Prop :=
    forall st o, cache_coherent st ->
      fst (cstep st o) = fst (sstep (abs st) o) /\ abs (snd (cstep st o)) = snd (sstep (abs st) o).
  Definition history_independent_prop : Prop :=
    forall ops, fst (crun init ops) = fst (srun [] ops) /\ abs (snd (crun init ops)) = snd (srun [] ops).
  Definition history_independent_from_prop : Prop :=
    forall st ops, cache_coherent st ->
      fst (crun st ops) = fst (srun (abs st) ops) /\ abs (snd (crun st ops)) = snd (srun (abs st) ops)
      /\ cache_coherent (snd (crun st ops)).
  (** an output is a function of the abstraction only: two coherent states with the
      same configuration answer every operation alike, in particular the state reached
      by any history and the freshly constructed machine with that configuration *)
  Definition output_depends_on_abs_prop : Prop :=
    forall st1 st2 o, cache_coherent st1 -> cache_coherent st2 -> abs st1 = abs st2 ->
      fst (cstep st1 o) = fst (cstep st2 o) /\ abs (snd (cstep st1 o)) = abs (snd (cstep st2 o)).
  Definition fresh_equiv_prop : Prop :=
    forall ops o, let st := snd (crun init ops) in
      cache_coherent (fresh (abs st)) /\ abs (fresh (abs st)) = abs st /\
      fst (cstep st o) = fst (cstep (fresh (abs st)) o).
  Definition queries_are_pure_prop : Prop :=
    forall st o, is_query o = true \/ is_evict o = true -> abs (snd (cstep st o)) = abs st.
  (** repeating a query, with any queries / evictions on any instances in between,
      returns the same answer *)
  Definition repeated_query_prop : Prop :=
    forall st o between, cache_coherent st -> is_query o = true ->
      forallb (fun b => is_query b || is_evict b) between = true ->
      fst (cstep (snd (crun (snd (cstep st o)) between)) o) = fst (cstep st o).
End Machine.

Arguments ONone {M}.  Arguments OErr {M} e.

(** closed statements: for every signature *)
Definition C09_cache_coherent_init_stmt : Prop := forall M, cache_coherent_init_prop M.
Definition C09_cache_coherent_step_stmt : Prop := forall M, cache_coherent_step_prop M.
Definition C09_step_simulation_stmt : Prop := forall M, step_simulation_prop M.
Definition C09_history_independent_stmt : Prop := forall M, history_independent_prop M.
Definition C09_history_independent_from_stmt : Prop := forall M, history_independent_from_prop M.
Definition C09_output_depends_on_abs_stmt : Prop := forall M, output_depends_on_abs_prop M.
Definition C09_fresh_equiv_stmt : Prop := forall M, fresh_equiv_prop M.
Definition C09_queries_are_pure_stmt : Prop := forall M, queries_are_pure_prop M.
Definition C09_repeated_query_stmt : Prop := forall M, repeated_query_prop M.

(** * The theorems are not vacuous: faulty keys are NOT history independent *)
(** a toy signature over [nat] in which every function keeps its arguments visible *)
Definition toy_sig : sig := {|
  sg_static := unit; sg_tstage := nat; sg_mname := nat; sg_mval := nat; sg_mupd := nat; sg_cmval := nat;
  sg_table := list nat; sg_params := nat; sg_pupd := nat; sg_dval := nat; sg_dupd := nat; sg_pmfval := nat;
  sg_tkey := nat; sg_tval := nat; sg_dmval := list nat; sg_omval := nat; sg_gval := list nat;
  sg_qname := option nat; sg_qval := list nat;
  sg_tstage_eqb := Nat.eqb; sg_tstage_eqb_spec := Nat.eqb_eq; sg_mname_eqb := Nat.eqb; sg_mname_eqb_spec := Nat.eqb_eq;
  sg_cmval_eqb := Nat.eqb; sg_cmval_eqb_spec := Nat.eqb_eq; sg_tkey_eqb := Nat.eqb; sg_tkey_eqb_spec := Nat.eqb_eq;
  sg_cm := fun _ v => v;
  sg_apply_mupd := fun u _ => Some u;
  sg_params0 := fun _ => 0; sg_maxt0 := fun _ => 1;
  sg_apply_pupd := fun u _ => u;
  sg_updateable := fun d => Nat.ltb 0 d;
  sg_apply_dupd := fun _ u _ _ => u;
  sg_pmf_of := fun m d => m + d;
  sg_tkeys := fun _ p => [p];
  sg_tensor := fun k => 2 * k;
  sg_encode := fun _ mc tb => map (fun r => r + length mc) tb;           (* one row per patient *)
  sg_selectT := fun ts tb full => map snd (filter (fun e => Nat.eqb (fst e) ts) (combine tb full));
  sg_observe := fun _ mc => list_sum (map snd mc);
  sg_diagf := fun o d => map (fun r => 100 * o + r) d;
  sg_qstages := fun q _ _ _ => [q];
  sg_qfun := fun _ _ p tv m _ pm _ mc _ gs =>
               p :: m :: list_sum tv :: list_sum (map snd pm) :: list_sum (map snd mc)
                 :: concat (map (fun g => match g with Some l => l | None => [] end) gs)
|}.

(** the changelog's pattern: load, query, reload a SMALLER cohort, query *)
Definition stale_version_history : list (op toy_sig) :=
  [New toy_sig tt; At toy_sig 0 (Load toy_sig [1; 2; 3]); At toy_sig 0 (DataMatrix toy_sig None);
   At toy_sig 0 (Load toy_sig [4]); At toy_sig 0 (DataMatrix toy_sig None)].
(** replace a modality by one of equal name and different values *)
Definition stale_mods_history : list (op toy_sig) :=
  [New toy_sig tt; At toy_sig 0 (SetMod toy_sig 7 1); At toy_sig 0 (Load toy_sig [1; 2]);
   At toy_sig 0 (DiagMatrix toy_sig None); At toy_sig 0 (SetMod toy_sig 7 5); At toy_sig 0 (DiagMatrix toy_sig None)].
Definition C09_stale_version_refuted_stmt : Prop :=
  fst (crun_gen toy_sig KNoVersion (init toy_sig) stale_version_history) <> fst (srun toy_sig [] stale_version_history)
  /\ fst (crun toy_sig (init toy_sig) stale_version_history) = fst (srun toy_sig [] stale_version_history).
Definition C09_stale_mods_refuted_stmt : Prop :=
  fst (crun_gen toy_sig KNoMods (init toy_sig) stale_mods_history) <> fst (srun toy_sig [] stale_mods_history)
  /\ fst (crun toy_sig (init toy_sig) stale_mods_history) = fst (srun toy_sig [] stale_mods_history).

(** * Part 2: the signature of [models.Unilateral] with the numerical model of Unilateral.v *)
Open Scope Qc_scope.
Local Open Scope string_scope.

(** in-place edit of a Modality: [true] = spec, [false] = sens; the setters reject values outside [0,1] *)
Definition uni_apply_mupd (u : bool * Qc) (m : modality) : option modality :=
  let '(is_spec, v) := u in
  if Qc_leb 0 v && Qc_leb v 1
  then Some (if is_spec then {| m_spec := v; m_sens := m_sens m; m_path := m_path m |}
             else {| m_spec := m_spec m; m_sens := v; m_path := m_path m |})
  else None.

(** keyword arguments "<t_stage>_<param>" of set_params reaching Distribution.set_params;
    an invalid value makes the function raise and the old keywords are restored *)
Definition uni_apply_dupd (maxt : nat) (du : list (string * string * Qc)) (t : string) (d : dist) : dist :=
  match d with
  | Frozen _ => d
  | Param f kw =>
      let kw' := fold_left (fun (acc : list (string * Qc)) '(t', k, v) =>
                     if str_eqb t t' && match dict_get k acc with Some _ => true | None => false end
                     then dict_set k v acc else acc) du kw in
      match fam_weights f maxt kw' with Some _ => Param f kw' | None => d end
  end.

(** the arguments of utils.comp_transition_tensor for one edge *)
Definition tensor_key := (nat * nat * bool * bool * Qc * Qc)%type.
Definition edge_tensor_key (b : nat) (e : edge) : tensor_key :=
  (if is_tumor_spread e then 1%nat else b, b, is_tumor_spread e, is_growth e, e_spread e, edge_micro b e).
Definition tensor_of_key (k : tensor_key) : tensor :=
  let '(np, nc, it, ig, sp, mi) := k in comp_transition_tensor np nc it ig sp mi.
Lemma Qc_eqb_spec (a b : Qc) : Qc_eqb a b = true <-> a = b.
Proof. unfold Qc_eqb. destruct (Qc_eq_dec a b); split; intros H; auto; try discriminate; contradiction. Qed.
Fixpoint list_eqb {A} (eqb : A -> A -> bool) (a b : list A) : bool :=
  match a, b with [], [] => true | x :: a', y :: b' => eqb x y && list_eqb eqb a' b' | _, _ => false end.
Lemma list_eqb_spec {A} (eqb : A -> A -> bool) : (forall x y, eqb x y = true <-> x = y) ->
  forall a b, list_eqb eqb a b = true <-> a = b.
Proof.
  intros H a. induction a as [|x a IH]; intros [|y b]; cbn [list_eqb]; split; intros E; try reflexivity; try discriminate.
  - apply andb_prop in E. destruct E as [E1 E2]. apply H in E1. apply IH in E2. congruence.
  - inversion E; subst. apply andb_true_intro. split; [apply H; reflexivity | apply IH; reflexivity].
Qed.
Definition mat_eqb : mat -> mat -> bool := list_eqb (list_eqb Qc_eqb).
Lemma mat_eqb_spec a b : mat_eqb a b = true <-> a = b.
Proof. apply list_eqb_spec, list_eqb_spec, Qc_eqb_spec. Qed.
Definition tensor_key_eqb (a b : tensor_key) : bool :=
  let '(p1, c1, t1, g1, s1, m1) := a in let '(p2, c2, t2, g2, s2, m2) := b in
  Nat.eqb p1 p2 && Nat.eqb c1 c2 && Bool.eqb t1 t2 && Bool.eqb g1 g2 && Qc_eqb s1 s2 && Qc_eqb m1 m2.
Lemma tensor_key_eqb_spec a b : tensor_key_eqb a b = true <-> a = b.
Proof.
  destruct a as [[[[[p1 c1] t1] g1] s1] m1], b as [[[[[p2 c2] t2] g2] s2] m2]. cbn [tensor_key_eqb]. split.
  - intros E. repeat (apply andb_prop in E; destruct E as [E ?]).
    apply Nat.eqb_eq in E. apply Nat.eqb_eq in H3. apply Bool.eqb_prop in H2. apply Bool.eqb_prop in H1.
    apply Qc_eqb_spec in H0. apply Qc_eqb_spec in H. congruence.
  - intros E; inversion E; subst. rewrite !Nat.eqb_refl, !Bool.eqb_reflx.
    rewrite (proj2 (Qc_eqb_spec s2 s2) eq_refl), (proj2 (Qc_eqb_spec m2 m2) eq_refl). reflexivity.
Qed.

(** generate_observation reads the modalities only through their confusion matrices *)
Definition generate_observation_cm (cms : list mat) (n b : nat) : mat :=
  fold_left (fun (O : mat) c => row_wise_kron O (kron_pow c n)) cms (repeat [1] (Nat.pow b n)).
(** generate_data_encoding: all rows of the table, in table order; it reads the names only *)
Definition encode_table (lnl_names mod_names : list string) (tb : list patient) : res (list bvec) :=
  sequence (map (patient_encoding lnl_names mod_names) tb).
(** full_data_matrix[patient_data[t_stage] == t] *)
Definition select_rows (ts : string) (tb : list patient) (full : res (list bvec)) : res (list bvec) :=
  bind full (fun rows => inr (map snd (filter (fun e => str_eqb (p_tstage (fst e)) ts) (combine tb rows)))).

Inductive uquery :=
| QLik (t : option string)                                    (* likelihood(t_stage=t): the per-patient factors *)
| QStateDist (t : string)                                     (* state_dist(t, "HMM") *)
| QObsDist (t : string)                                       (* obs_dist(t_stage=t) *)
| QRisk (inv : pattern) (d : option diagnosis) (t : string)   (* risk(involvement, given_diagnosis, t_stage) *)
| QTransition | QObservation.                                 (* transition_matrix(), observation_matrix() *)
Inductive uanswer :=
| AVec (v : res vec) | ARisk (r : res (option Qc)) | AMat (m : mat).

Definition uni_of (g : graph) (mods : list (string * modality)) (ds : list (string * dist)) (maxt : nat) : uni :=
  {| u_graph := g; u_mods := mods; u_dists := ds; u_maxt := maxt |}.

Definition uni_query (q : uquery) (u : uni) (data : option (list patient)) : uanswer :=
  match q with
  | QLik t =>
      AVec match data with
           | Some tb => hmm_likelihood_factors u tb t
           | None => match t with
                     | None => inr []                                     (* no valid T-stage *)
                     | Some ts => bind (get_pmf u ts) (fun _ => inl MAttr) (* diagnosis_matrix: no data *)
                     end
           end
  | QStateDist t => AVec (state_dist u t true)
  | QObsDist t => AVec (obs_dist u t true)
  | QRisk inv d t => ARisk (risk u inv d t true)
  | QTransition => AMat (transition_matrix u)
  | QObservation => AMat (observation_matrix u)
  end.

Definition uni_sig : sig := {|
  sg_static := graph * nat;           (* the graph as constructed, the constructor's max_time *)
  sg_tstage := string; sg_mname := string; sg_mval := modality; sg_mupd := bool * Qc; sg_cmval := mat;
  sg_table := list patient; sg_params := graph; sg_pupd := list (string * (Qc * Qc));
  sg_dval := dist; sg_dupd := list (string * string * Qc); sg_pmfval := option vec;
  sg_tkey := tensor_key; sg_tval := tensor; sg_dmval := res (list bvec); sg_omval := mat; sg_gval := res mat;
  sg_qname := uquery; sg_qval := uanswer;
  sg_tstage_eqb := String.eqb; sg_tstage_eqb_spec := String.eqb_eq; sg_mname_eqb := String.eqb; sg_mname_eqb_spec := String.eqb_eq;
  sg_cmval_eqb := mat_eqb; sg_cmval_eqb_spec := mat_eqb_spec; sg_tkey_eqb := tensor_key_eqb; sg_tkey_eqb_spec := tensor_key_eqb_spec;
  sg_cm := fun s m => confusion_matrix (g_base (fst s)) m;
  sg_apply_mupd := uni_apply_mupd;
  sg_params0 := fst; sg_maxt0 := snd;
  sg_apply_pupd := fun ps g => set_edges g ps;
  sg_updateable := fun d => match d with Param _ _ => true | Frozen _ => false end;
  sg_apply_dupd := uni_apply_dupd;
  sg_pmf_of := pmf;
  sg_tkeys := fun _ g => map (edge_tensor_key (g_base g)) (g_edges g);
  sg_tensor := tensor_of_key;
  sg_encode := fun s mc tb => encode_table (lnls (fst s)) (map fst mc) tb;
  sg_selectT := select_rows;
  sg_observe := fun s mc => generate_observation_cm (map snd mc) (nlnls (fst s)) (g_base (fst s));
  sg_diagf := fun O D => bind D (fun rows => inr (map (fun enc => matvec O (map b2q enc)) rows));
  sg_qstages := fun q _ stages data =>
      match q, data with
      | QLik None, Some tb =>      (* get_t_stages("valid") reads self.patient_data, i.e. diagnosis_matrix() *)
          None :: map Some (filter (fun t => existsb (fun p => str_eqb (p_tstage p) t) tb) stages)
      | QLik (Some t), _ => if mem t stages then [Some t] else []
      | _, _ => []
      end;
  sg_qfun := fun q _ g _ maxt ds _ mods _ data _ => uni_query q (uni_of g mods ds maxt) data
|}.

(** printable outputs for the correspondence check *)
Inductive pout :=
| PNone | PErr (tag : string) | PBMat (m : list (list bool)) | PMat (m : list (list (Z * Z)))
| PVec (v : list (Z * Z)) | POptQ (o : option (Z * Z)) | PLen (n : nat).
Definition merr_tag (e : merr) : string :=
  match e with MKey => "KeyError" | MValue => "ValueError" | MNotImpl => "NotImplementedError" | MAttr => "AttributeError" end.
Definition err_name (e : err) : string :=
  match e with ENoData => "AttributeError" | ENoKey => "KeyError" | ERejected => "ValueError" | ENoInst => "NoInstance" end.
Definition show_res {A} (f : A -> pout) (r : res A) : pout := match r with inl e => PErr (merr_tag e) | inr a => f a end.
Definition show_output (o : output uni_sig) : pout :=
  match o with
  | ONone => PNone
  | OErr e => PErr (err_name e)
  | ODM _ v => show_res PBMat v
  | OGM _ v => show_res (fun m => PMat (qoutm m)) v
  | OTable _ tb => PLen (length tb)
  | OQ _ (AVec v) => show_res (fun x => PVec (qouts x)) v
  | OQ _ (ARisk r) => show_res (fun x => POptQ (option_map qout x)) r
  | OQ _ (AMat m) => PMat (qoutm m)
  end.
(** what the harness evaluates: the outputs of the cache-free machine on a history
    (equal to those of the cached machine by C09_history_independent) *)
Definition uni_run (ops : list (op uni_sig)) : list pout := map show_output (fst (srun uni_sig [] ops)).
Definition uni_run_cached (ops : list (op uni_sig)) : list pout := map show_output (fst (crun uni_sig (init uni_sig) ops)).
(** the observable configuration after a history: per instance (edge spreads, modality
    names, distribution stages, max_time, number of loaded rows) *)
Definition uni_config (ops : list (op uni_sig)) :=
  map (fun c => (map (fun e => (e_name e, (qout (e_spread e), qout (e_micro e)))) (g_edges (c_params uni_sig c)),
                 map (fun e => (fst e, (qout (m_spec (snd e)), qout (m_sens (snd e)), m_path (snd e)))) (c_mods uni_sig c),
                 map (fun e => (fst e, option_map qouts (pmf (c_maxt uni_sig c) (snd e)))) (c_dists uni_sig c),
                 c_maxt uni_sig c, option_map (@length _) (c_data uni_sig c)))
      (snd (srun uni_sig [] ops)).

(** short constructors for the harness *)
Definition uop := op uni_sig.
Definition U_New (g : graph) (maxt : nat) : uop := New uni_sig (g, maxt).
Definition U_SetMod (i : nat) (n : string) (m : modality) : uop := At uni_sig i (SetMod uni_sig n m).
Definition U_UpdMod (i : nat) (n : string) (is_spec : bool) (v : Qc) : uop := At uni_sig i (UpdMod uni_sig n (is_spec, v)).
Definition U_DelMod (i : nat) (n : string) : uop := At uni_sig i (DelMod uni_sig n).
Definition U_ReplaceMods (i : nat) (l : list (string * modality)) : uop := At uni_sig i (ReplaceMods uni_sig l).
Definition U_ClearMods (i : nat) : uop := At uni_sig i (ClearMods uni_sig).
Definition U_Load (i : nat) (tb : list patient) : uop := At uni_sig i (Load uni_sig tb).
Definition U_SetParams (i : nat) (ps : list (string * (Qc * Qc))) (du : list (string * string * Qc)) : uop :=
  At uni_sig i (SetParams uni_sig ps du).
Definition U_SetDist (i : nat) (t : string) (d : dist) : uop := At uni_sig i (SetDist uni_sig t d).
Definition U_DelDist (i : nat) (t : string) : uop := At uni_sig i (DelDist uni_sig t).
Definition U_ReplaceDists (i : nat) (l : list (string * dist)) : uop := At uni_sig i (ReplaceDists uni_sig l).
Definition U_ClearDists (i : nat) : uop := At uni_sig i (ClearDists uni_sig).
Definition U_SetMaxTime (i : nat) (m : nat) : uop := At uni_sig i (SetMaxTime uni_sig m).
Definition U_DataMatrix (i : nat) (t : option string) : uop := At uni_sig i (DataMatrix uni_sig t).
Definition U_DiagMatrix (i : nat) (t : option string) : uop := At uni_sig i (DiagMatrix uni_sig t).
Definition U_PatientData (i : nat) : uop := At uni_sig i (PatientData uni_sig).
Definition U_Query (i : nat) (q : uquery) : uop := At uni_sig i (Query uni_sig q).
Definition U_EvictD (i k : nat) : uop := At uni_sig i (EvictD uni_sig k).
Definition U_EvictG (i k : nat) : uop := At uni_sig i (EvictG uni_sig k).
Definition U_EvictCM (i : nat) (n : string) : uop := At uni_sig i (EvictCM uni_sig n).
Definition U_EvictFrozen (i : nat) (t : string) : uop := At uni_sig i (EvictFrozen uni_sig t).
Definition U_EvictM (k : nat) : uop := EvictM uni_sig k.

(** output of every step together with the observable configuration of the instance the
    step addressed: edge parameters, modalities, distributions (stage, keywords of a
    parametric one), max_time *)
Definition cfg_view (c : cfg uni_sig) :=
  (map (fun e => (e_name e, (qout (e_spread e), qout (e_micro e)))) (g_edges (c_params uni_sig c)),
   map (fun e => (fst e, (qout (m_spec (snd e)), qout (m_sens (snd e)), m_path (snd e)))) (c_mods uni_sig c),
   map (fun e => (fst e, match snd e with
                         | Frozen _ => None
                         | Param _ kw => Some (map (fun kv => (fst kv, qout (snd kv))) kw)
                         end)) (c_dists uni_sig c),
   c_maxt uni_sig c).
Fixpoint uni_trace_from (cs : list (cfg uni_sig)) (ops : list uop) :=
  match ops with
  | [] => []
  | o :: r =>
      let '(out, cs1) := sstep uni_sig cs o in
      let target := match o with At _ i _ => i | New _ _ => length cs | EvictM _ _ => 0%nat end in
      (show_output out, option_map cfg_view (nth_error cs1 target)) :: uni_trace_from cs1 r
  end.
Definition uni_trace (ops : list uop) := uni_trace_from [] ops.

(** the instance's observation function is the one of Observation.v *)
Definition C09_observe_faithful_stmt : Prop :=
  forall mods n b, generate_observation mods n b = generate_observation_cm (map (confusion_matrix b) mods) n b.
(** ... and its data / diagnosis matrices are those of Unilateral.v whenever the full encoding succeeds *)
Definition C09_uni_matrices_faithful_stmt : Prop :=
  forall (c : cfg uni_sig) tb t full,
    c_data uni_sig c = Some tb ->
    let u := uni_of (c_params uni_sig c) (c_mods uni_sig c) (c_dists uni_sig c) (c_maxt uni_sig c) in
    lnls (c_params uni_sig c) = lnls (fst (c_static uni_sig c)) ->
    g_base (c_params uni_sig c) = g_base (fst (c_static uni_sig c)) ->
    data_matrix u tb None = inr full ->
    dm_spec uni_sig c t = Some (data_matrix u tb t) /\ gm_spec uni_sig c t = Some (diagnosis_matrix u tb t).

(** * A concrete history for the non-vacuity examples: two live models sharing the
    module cache, the changelog's stale-cache pattern (load, edit a modality in place,
    reload a smaller cohort, query one T-stage), evictions in between *)
Definition C09_ex_graph : graph :=
  force_graph (build_graph 2 [(("tumor", "T"), CList ["II"; "III"]); (("lnl", "II"), CList ["III"]); (("lnl", "III"), CList [])]).
Definition C09_ex_patient (t : string) (a b : option indicator) : patient :=
  {| p_tstage := t; p_find := [("CT", [("II", a); ("III", b)])] |}.
Definition C09_ex_history : list uop :=
  [U_New C09_ex_graph 3;
   U_New C09_ex_graph 3;
   U_SetParams 0 [("TtoII", (qc 1 4, qc 1 1)); ("TtoIII", (qc 1 8, qc 1 1)); ("IItoIII", (qc 1 2, qc 1 1))] [];
   U_SetParams 1 [("TtoII", (qc 1 4, qc 1 1)); ("TtoIII", (qc 1 2, qc 1 1)); ("IItoIII", (qc 0 1, qc 1 1))] [];
   U_SetMod 0 "CT" {| m_spec := qc 3 4; m_sens := qc 7 8; m_path := false |};
   U_SetMod 1 "CT" {| m_spec := qc 1 1; m_sens := qc 1 2; m_path := true |};
   U_SetDist 0 "early" (Frozen (normalize [qc 1 1; qc 2 1; qc 1 1; qc 0 1]));
   U_SetDist 0 "late" (Param 0 [("p", qc 1 2)]);
   U_SetDist 1 "late" (Param 0 [("p", qc 1 2)]);
   U_Load 0 [C09_ex_patient "early" (Some IInvolved) None; C09_ex_patient "late" (Some IHealthy) (Some IInvolved);
             C09_ex_patient "early" None None];
   U_Load 1 [C09_ex_patient "late" (Some IInvolved) (Some IInvolved)];
   U_DataMatrix 0 (Some "early");                       (* 11 *)
   U_DiagMatrix 0 None;                                 (* 12 *)
   U_Query 1 (QLik None);                               (* 13 *)
   U_Query 0 (QLik None);                               (* 14 *)
   U_UpdMod 0 "CT" true (qc 1 2);
   U_EvictG 0 0;
   U_Load 0 [C09_ex_patient "late" (Some IInvolved) None];
   U_EvictM 1;
   U_DiagMatrix 0 (Some "late");                        (* 19 *)
   U_Query 0 (QLik (Some "late"));                      (* 20 *)
   U_Query 1 (QLik None);                               (* 21 = 13 *)
   U_SetParams 0 [] [("late", "p", qc 1 4)];
   U_EvictFrozen 0 "late";
   U_Query 0 (QStateDist "late");                       (* 24 *)
   U_Query 0 (QRisk [("II", Some IInvolved)] (Some [("CT", [("III", Some IInvolved)])]) "late");   (* 25 *)
   U_PatientData 0].
