(** BnProofs: the binary Bayesian-network state distribution [bn_spec]
    (UniStatements.v; [C07_bn_spec] shows that [state_dist_bn] computes it) is a
    probability distribution: every entry is non-negative when the parameters lie in
    [0,1], and the entries sum to one when the LNL arcs form a directed acyclic graph.

    Acyclicity is a BOOLEAN predicate: [topo_orderb g ord] checks that [ord] is a
    duplicate-free listing of all LNL names in which every LNL-to-LNL arc goes from an
    earlier to a later name; [topo_sort g] computes a candidate order (Kahn's algorithm,
    bounded by the number of LNLs) and [acyclicb g := topo_orderb g (topo_sort g)].
    The sum-to-one theorem is also available for a user-supplied order
    ([bn_sum_one_ord]), and [acyclicb] is complete: it is [true] as soon as ANY order
    passes the check ([acyclicb_complete]).

    Proof of sum-to-one: [bn_spec g x] is the product over LNLs [v] of a factor that
    reads digit [v] of [x] and the digits of [v]'s LNL parents.  Eliminating the LNLs in
    reverse topological order, the factor of the sink-most remaining LNL [v] is the only
    one that reads digit [v], and its two values add up to 1; summing out one digit of
    [all_states 2 n] is the lemma [sum_set_digit]. *)
From LymphModel Require Import Base States Linalg Graph Transition Observation Dist Unilateral UniStatements.
From LymphModel Require Import TransitionProofs GraphProofs PriorProofs.
From Coq Require Import Permutation.
Local Open Scope nat_scope.
Open Scope Qc_scope.

(** * Acyclicity of the LNL arcs (boolean) *)
Definition is_lnl_arc (e : edge) : bool := match e_kind e with ELnl => true | _ => false end.

(** every LNL arc goes from an earlier to a later element of [ord] *)
Definition arcs_forward (g : graph) (ord : list string) : bool :=
  forallb (fun e => negb (is_lnl_arc e) || Nat.ltb (index_of (e_parent e) ord) (index_of (e_child e) ord))
          (g_edges g).
(** [ord] lists every LNL exactly once and all LNL arcs go forward *)
Definition topo_orderb (g : graph) (ord : list string) : bool :=
  nodupb ord && Nat.eqb (length ord) (nlnls g) && forallb (fun s => mem s (lnls g)) ord && arcs_forward g ord.

(** Kahn's algorithm: repeatedly take the first remaining LNL none of whose incoming LNL
    arcs starts at a remaining LNL *)
Definition ready (g : graph) (remaining : list string) (v : string) : bool :=
  forallb (fun e => negb (is_lnl_arc e) || negb (mem (e_parent e) remaining)) (inc_edges g v).
Fixpoint topo_sort_aux (g : graph) (fuel : nat) (remaining : list string) : list string :=
  match fuel with
  | O => []
  | S f => match find (ready g remaining) remaining with
           | None => []
           | Some v => v :: topo_sort_aux g f (filter (fun s => negb (str_eqb s v)) remaining)
           end
  end.
Definition topo_sort (g : graph) : list string := topo_sort_aux g (nlnls g) (lnls g).
Definition acyclicb (g : graph) : bool := topo_orderb g (topo_sort g).
Definition acyclic (g : graph) : Prop := acyclicb g = true.

(** * Statements *)
Definition C07_bn_nonneg_stmt : Prop :=
  forall g x, wf_graphb g = true -> g_base g = 2%nat -> params_in_unit g -> In x (state_list g) ->
    0 <= bn_spec g x.
Definition C07_bn_sum_one_stmt : Prop :=
  forall g, wf_graphb g = true -> g_base g = 2%nat -> acyclic g ->
    sumQ (map (bn_spec g) (state_list g)) = 1.
(** the same for an order supplied by the user *)
Definition C07_bn_sum_one_ord_stmt : Prop :=
  forall g ord, wf_graphb g = true -> g_base g = 2%nat -> topo_orderb g ord = true ->
    sumQ (map (bn_spec g) (state_list g)) = 1.
(** [acyclicb] finds an order whenever one exists *)
Definition C07_bn_acyclicb_complete_stmt : Prop :=
  forall g ord, topo_orderb g ord = true -> acyclicb g = true.

(** * [bn_spec] as a product of per-LNL factors *)
Definition bn_stay (g : graph) (x : state) (lnl : string) : Qc :=
  prodQ (map (bn_arc g x) (inc_edges g lnl)).
Definition bn_factor (g : graph) (x : state) (lnl : string) : Qc :=
  if Nat.eqb (digit (index_of lnl (lnls g)) x) 0 then bn_stay g x lnl else 1 - bn_stay g x lnl.

Lemma bn_spec_factors g x : nodupb (lnls g) = true ->
  bn_spec g x = prodQ (map (bn_factor g x) (lnls g)).
Proof.
  intros Hnd. unfold bn_spec, nlnls.
  rewrite (prodQ_map_ext _ (fun p => bn_factor g x (snd p))).
  - rewrite <- (map_map snd (bn_factor g x)).
    rewrite map_snd_combine by (rewrite seq_length; reflexivity). reflexivity.
  - intros [i lnl] Hin. apply index_of_combine in Hin; [|exact Hnd]. cbn [Nat.add] in Hin. subst i.
    reflexivity.
Qed.

(** * Non-negativity *)
Lemma bn_arc_unit g x e : 0 <= e_spread e <= 1 -> 0 <= bn_arc g x e <= 1.
Proof.
  intros Hs. unfold bn_arc. apply Qc_unit_compl.
  destruct (e_kind e); [exact Hs| |exact Qc_unit_0].
  destruct (Nat.eqb (parent_digit g e x) 0); [exact Qc_unit_0|exact Hs].
Qed.

Lemma bn_stay_unit g x lnl : params_in_unit g -> 0 <= bn_stay g x lnl <= 1.
Proof.
  intros Hp. unfold bn_stay. apply prodQ_map_unit. intros e He.
  apply inc_edges_In in He. destruct He as [He _]. apply bn_arc_unit. apply (Hp e He).
Qed.

Lemma bn_factor_unit g x lnl : params_in_unit g -> 0 <= bn_factor g x lnl <= 1.
Proof.
  intros Hp. unfold bn_factor. pose proof (bn_stay_unit g x lnl Hp) as H.
  destruct (Nat.eqb (digit (index_of lnl (lnls g)) x) 0); [exact H|apply Qc_unit_compl; exact H].
Qed.

Lemma bn_nonneg : C07_bn_nonneg_stmt.
Proof.
  intros g x Hwf _ Hp _. rewrite bn_spec_factors by (apply wf_nodup; exact Hwf).
  apply prodQ_nonneg. intros a Ha. apply in_map_iff in Ha. destruct Ha as [lnl [<- _]].
  apply bn_factor_unit. exact Hp.
Qed.

(** every entry is also at most one (not part of C07, but free) *)
Lemma bn_le_one g x : wf_graphb g = true -> params_in_unit g -> bn_spec g x <= 1.
Proof.
  intros Hwf Hp. rewrite bn_spec_factors by (apply wf_nodup; exact Hwf).
  apply prodQ_map_unit. intros lnl _. apply bn_factor_unit. exact Hp.
Qed.

(** * Summing out one digit of [all_states 2 n] *)
Lemma sum_set_digit : forall (n k : nat) (H : state -> Qc), (k < n)%nat ->
  sumQ (map (fun x => H (set_nth k 0%nat x) + H (set_nth k 1%nat x)) (all_states 2 n))
  = (1 + 1) * sumQ (map H (all_states 2 n)).
Proof.
  induction n as [|n IH]; intros k H Hk; [lia|].
  cbn [all_states seq flat_map]. rewrite app_nil_r, !map_app, !sumQ_app, !map_map.
  destruct k as [|k].
  - cbn [set_nth]. rewrite !sumQ_map_plus. ring.
  - cbn [set_nth].
    rewrite (IH k (fun y => H (0%nat :: y))) by lia.
    rewrite (IH k (fun y => H (1%nat :: y))) by lia. symmetry. apply Qcmult_plus_distr_r.
Qed.

Lemma digit_set_nth_other j k d x : j <> k -> digit j (set_nth k d x) = digit j x.
Proof.
  unfold digit. revert j k. induction x as [|a x IH]; intros j k Hjk; [destruct k; reflexivity|].
  destruct k as [|k]; cbn [set_nth].
  - destruct j as [|j]; [congruence|reflexivity].
  - destruct j as [|j]; [reflexivity|]. cbn [nth]. apply IH. congruence.
Qed.

Lemma digit_set_nth_same (k d : nat) (x : state) : (k < length x)%nat -> digit k (set_nth k d x) = d.
Proof.
  unfold digit. revert k. induction x as [|a x IH]; intros k Hk; cbn [length] in Hk; [lia|].
  destruct k as [|k]; cbn [set_nth nth]; [reflexivity|]. apply IH. lia.
Qed.

(** * Which digits a factor reads *)
Lemma index_of_inj v p l : In v l -> index_of p l = index_of v l -> p = v.
Proof.
  induction l as [|a l IH]; cbn [In index_of]; [tauto|]. intros Hin.
  destruct (str_eqb p a) eqn:Ep, (str_eqb v a) eqn:Ev; intros H.
  - apply seqb_eq in Ep, Ev. congruence.
  - discriminate.
  - discriminate.
  - apply IH; [|congruence]. destruct Hin as [Hin|Hin]; [|exact Hin].
    subst a. rewrite seqb_refl in Ev. discriminate.
Qed.

(** no LNL arc [v -> u] *)
Definition no_arc (g : graph) (v u : string) : Prop :=
  forall e, In e (inc_edges g u) -> is_lnl_arc e = true -> e_parent e <> v.

Lemma bn_stay_set g v u d x : In v (lnls g) -> no_arc g v u ->
  bn_stay g (set_nth (index_of v (lnls g)) d x) u = bn_stay g x u.
Proof.
  intros Hv Hno. unfold bn_stay. apply prodQ_map_ext. intros e He.
  unfold bn_arc. pose proof (Hno e He) as Hne. unfold is_lnl_arc in Hne.
  destruct (e_kind e); try reflexivity.
  unfold parent_digit. rewrite digit_set_nth_other; [reflexivity|].
  intros Heq. apply (Hne eq_refl). apply (index_of_inj v _ (lnls g) Hv Heq).
Qed.

Lemma bn_factor_set_other g v u d x : In v (lnls g) -> u <> v -> no_arc g v u ->
  bn_factor g (set_nth (index_of v (lnls g)) d x) u = bn_factor g x u.
Proof.
  intros Hv Huv Hno. unfold bn_factor. rewrite bn_stay_set by assumption.
  rewrite digit_set_nth_other; [reflexivity|].
  intros Heq. apply Huv. apply (index_of_inj v _ (lnls g) Hv Heq).
Qed.

Lemma bn_factor_set_same g v x : In v (lnls g) -> no_arc g v v -> length x = nlnls g ->
  bn_factor g (set_nth (index_of v (lnls g)) 0%nat x) v + bn_factor g (set_nth (index_of v (lnls g)) 1%nat x) v = 1.
Proof.
  intros Hv Hno Hlen. unfold bn_factor. rewrite !bn_stay_set by assumption.
  assert (Hk : (index_of v (lnls g) < length x)%nat) by (rewrite Hlen; apply index_of_lt; exact Hv).
  rewrite !digit_set_nth_same by exact Hk. cbn [Nat.eqb]. ring.
Qed.

(** * Elimination in reverse topological order *)
(** [el] is an elimination order: its head is an LNL that has no arc into itself or into
    any later element of [el] *)
Fixpoint elim_ok (g : graph) (el : list string) : Prop :=
  match el with
  | [] => True
  | v :: rest => In v (lnls g) /\ ~ In v rest /\ (forall u, In u (v :: rest) -> no_arc g v u) /\ elim_ok g rest
  end.

Fixpoint pow2 (k : nat) : Qc := match k with O => 1 | S k' => (1 + 1) * pow2 k' end.

Lemma pow2_pos k : 0 < pow2 k.
Proof.
  induction k as [|k IH]; cbn [pow2]; [reflexivity|].
  revert IH. generalize (pow2 k). intros p H. qc2q. revert H. generalize (this p). intros; lra.
Qed.

Lemma sum_ones n : sumQ (map (fun _ : state => 1) (all_states 2 n)) = pow2 n.
Proof.
  unfold state. induction n as [|n IH]; cbn [all_states seq flat_map pow2].
  - cbn [map sumQ]. ring.
  - rewrite app_nil_r, !map_app, !sumQ_app, !map_map. rewrite IH. ring.
Qed.

Lemma elim_sum g el : elim_ok g el ->
  pow2 (length el) * sumQ (map (fun x => prodQ (map (bn_factor g x) el)) (all_states 2 (nlnls g)))
  = pow2 (nlnls g).
Proof.
  induction el as [|v rest IH]; intros Hok.
  - cbn [length pow2 map prodQ]. rewrite sum_ones. ring.
  - destruct Hok as [Hv [Hnin [Hno Hok]]]. specialize (IH Hok). rewrite <- IH.
    cbn [length pow2 map prodQ].
    rewrite <- Qcmult_assoc, (Qcmult_comm (1 + 1)), <- !Qcmult_assoc. f_equal.
    rewrite Qcmult_comm.
    rewrite <- (sum_set_digit (nlnls g) (index_of v (lnls g))
                  (fun x => bn_factor g x v * prodQ (map (bn_factor g x) rest)))
      by (apply index_of_lt; exact Hv).
    apply sumQ_map_ext. intros x Hx. apply all_states_In in Hx. destruct Hx as [Hlen _].
    assert (Hrest : forall d, prodQ (map (bn_factor g (set_nth (index_of v (lnls g)) d x)) rest)
                              = prodQ (map (bn_factor g x) rest)).
    { intros d. apply prodQ_map_ext. intros u Hu. apply bn_factor_set_other.
      - exact Hv.
      - intros ->. apply Hnin, Hu.
      - apply Hno. right. exact Hu. }
    rewrite !Hrest, <- Qcmult_plus_distr_l.
    rewrite bn_factor_set_same; [ring|exact Hv| |exact Hlen].
    apply Hno. left. reflexivity.
Qed.

(** * From a topological order to an elimination order *)
Lemma index_of_app_in s l1 l2 : In s l1 -> index_of s (l1 ++ l2) = index_of s l1.
Proof.
  induction l1 as [|a l1 IH]; cbn [In app index_of]; [tauto|]. intros H.
  destruct (str_eqb s a) eqn:E; [reflexivity|]. f_equal. apply IH.
  destruct H as [H|H]; [|exact H]. subst a. rewrite seqb_refl in E. discriminate.
Qed.
Lemma index_of_app_notin s l1 l2 : ~ In s l1 -> index_of s (l1 ++ l2) = (length l1 + index_of s l2)%nat.
Proof.
  induction l1 as [|a l1 IH]; cbn [In app index_of length]; [reflexivity|]. intros H.
  destruct (str_eqb s a) eqn:E.
  - apply seqb_eq in E. exfalso. apply H. left. congruence.
  - rewrite IH by tauto. reflexivity.
Qed.
Lemma index_of_head s l : index_of s (s :: l) = 0%nat.
Proof. cbn [index_of]. rewrite seqb_refl. reflexivity. Qed.

Lemma arcs_forward_spec g ord e : arcs_forward g ord = true -> In e (g_edges g) -> is_lnl_arc e = true ->
  (index_of (e_parent e) ord < index_of (e_child e) ord)%nat.
Proof.
  unfold arcs_forward. rewrite forallb_forall. intros H He Hk. specialize (H e He).
  rewrite Hk in H. cbn [negb orb] in H. apply Nat.ltb_lt. exact H.
Qed.

Lemma topo_elim_prefix g ord : NoDup ord -> (forall s, In s ord -> In s (lnls g)) -> arcs_forward g ord = true ->
  forall pre suf, ord = pre ++ suf -> elim_ok g (rev pre).
Proof.
  intros Hnd Hin Harc pre. induction pre as [|v pre IH] using rev_ind; intros suf Heq; [exact I|].
  rewrite rev_app_distr. cbn [rev app elim_ok].
  rewrite <- app_assoc in Heq. cbn [app] in Heq.
  assert (Hvpre : ~ In v pre).
  { rewrite Heq in Hnd. apply NoDup_remove_2 in Hnd. intros H. apply Hnd. apply in_or_app. left. exact H. }
  assert (Hiv : index_of v ord = length pre).
  { rewrite Heq, index_of_app_notin by exact Hvpre. rewrite index_of_head. lia. }
  split; [|split; [|split]].
  - apply Hin. rewrite Heq. apply in_or_app. right. left. reflexivity.
  - rewrite <- in_rev. exact Hvpre.
  - intros u Hu e He Hk Hpar.
    apply inc_edges_In in He. destruct He as [He Hch].
    pose proof (arcs_forward_spec g ord e Harc He Hk) as Hlt. rewrite Hpar, Hch, Hiv in Hlt.
    destruct Hu as [Hu|Hu].
    + subst u. rewrite Hiv in Hlt. lia.
    + apply in_rev in Hu. rewrite Heq, index_of_app_in in Hlt by exact Hu.
      pose proof (index_of_lt u pre Hu). lia.
  - apply (IH (v :: suf)). exact Heq.
Qed.

Lemma prodQ_perm l l' : Permutation l l' -> prodQ l = prodQ l'.
Proof.
  induction 1 as [|a l l' _ IH|a b l|l l' l'' _ IH1 _ IH2]; cbn [prodQ].
  - reflexivity.
  - rewrite IH. reflexivity.
  - ring.
  - rewrite IH1. exact IH2.
Qed.

Lemma topo_orderb_spec g ord : topo_orderb g ord = true ->
  NoDup ord /\ length ord = nlnls g /\ (forall s, In s ord -> In s (lnls g)) /\ arcs_forward g ord = true.
Proof.
  unfold topo_orderb. rewrite !andb_true_iff, Nat.eqb_eq, forallb_forall.
  intros [[[H1 H2] H3] H4]. split; [apply nodupb_NoDup; exact H1|]. split; [exact H2|]. split; [|exact H4].
  intros s Hs. apply gmem_In. apply H3, Hs.
Qed.

Lemma Qc_cancel_l a s : 0 < a -> a * s = a -> s = 1.
Proof.
  intros Ha H. assert (Hne : a <> 0) by (intros ->; discriminate Ha).
  replace s with ((a * s) / a) by (field; exact Hne). rewrite H. field. exact Hne.
Qed.

Lemma bn_sum_one_ord : C07_bn_sum_one_ord_stmt.
Proof.
  intros g ord Hwf Hb Hord.
  apply topo_orderb_spec in Hord. destruct Hord as [Hnd [Hlen [Hin Harc]]].
  pose proof (wf_nodup g Hwf) as Hndl.
  assert (Hperm : Permutation (rev ord) (lnls g)).
  { apply Permutation_trans with ord; [apply Permutation_sym, Permutation_rev|].
    apply NoDup_Permutation_bis; [exact Hnd| |exact Hin]. unfold nlnls in Hlen. lia. }
  pose proof (topo_elim_prefix g ord Hnd Hin Harc ord [] (eq_sym (app_nil_r ord))) as Hok.
  pose proof (elim_sum g (rev ord) Hok) as Hsum.
  rewrite rev_length, Hlen in Hsum.
  unfold state_list. rewrite Hb.
  rewrite (sumQ_map_ext _ (fun x => prodQ (map (bn_factor g x) (rev ord)))).
  - apply (Qc_cancel_l (pow2 (nlnls g))); [apply pow2_pos|exact Hsum].
  - intros x _. rewrite bn_spec_factors by exact Hndl.
    apply prodQ_perm. apply Permutation_map. apply Permutation_sym. exact Hperm.
Qed.

Lemma bn_sum_one : C07_bn_sum_one_stmt.
Proof. intros g Hwf Hb Hac. exact (bn_sum_one_ord g (topo_sort g) Hwf Hb Hac). Qed.

(** * [acyclicb] is complete: Kahn's algorithm succeeds whenever some order passes the check *)
Lemma index_of_notin s l : ~ In s l -> index_of s l = length l.
Proof.
  intros H. rewrite <- (app_nil_r l) at 1. rewrite index_of_app_notin by exact H. cbn [index_of]. lia.
Qed.
Lemma index_of_lt_In s l : (index_of s l < length l)%nat -> In s l.
Proof.
  intros H. destruct (in_dec string_dec s l) as [Hin|Hin]; [exact Hin|].
  rewrite index_of_notin in H by exact Hin. lia.
Qed.
Lemma index_of_le s l : (index_of s l <= length l)%nat.
Proof.
  destruct (in_dec string_dec s l) as [Hin|Hin].
  - apply Nat.lt_le_incl, index_of_lt, Hin.
  - rewrite index_of_notin by exact Hin. lia.
Qed.

Lemma min_index (ord R : list string) : R <> [] ->
  exists v, In v R /\ forall u, In u R -> (index_of v ord <= index_of u ord)%nat.
Proof.
  induction R as [|a R IH]; intros Hne; [congruence|].
  destruct R as [|b R].
  - exists a. split; [left; reflexivity|]. intros u [<-|[]]. lia.
  - destruct IH as [v [Hv Hmin]]; [discriminate|].
    destruct (Nat.le_gt_cases (index_of a ord) (index_of v ord)) as [Hle|Hgt].
    + exists a. split; [left; reflexivity|]. intros u [<-|Hu]; [lia|]. specialize (Hmin u Hu). lia.
    + exists v. split; [right; exact Hv|]. intros u [<-|Hu]; [lia|]. apply Hmin, Hu.
Qed.

Lemma ready_spec g R v : ready g R v = true <->
  forall e, In e (inc_edges g v) -> is_lnl_arc e = true -> ~ In (e_parent e) R.
Proof.
  unfold ready. rewrite forallb_forall. split; intros H e He.
  - intros Hk Hin. specialize (H e He). rewrite Hk in H. cbn [negb orb] in H.
    apply gmem_In in Hin. rewrite Hin in H. discriminate.
  - destruct (is_lnl_arc e) eqn:Hk; [|reflexivity]. cbn [negb orb].
    destruct (mem (e_parent e) R) eqn:Hm; [|reflexivity].
    exfalso. apply (H e He Hk). apply gmem_In. exact Hm.
Qed.

Lemma ready_exists g ord R : arcs_forward g ord = true -> R <> [] ->
  exists v, In v R /\ ready g R v = true.
Proof.
  intros Harc Hne. destruct (min_index ord R Hne) as [v [Hv Hmin]].
  exists v. split; [exact Hv|]. apply ready_spec. intros e He Hk Hin.
  apply inc_edges_In in He. destruct He as [He Hch].
  pose proof (arcs_forward_spec g ord e Harc He Hk) as Hlt. rewrite Hch in Hlt.
  specialize (Hmin _ Hin). lia.
Qed.

(** every element has no LNL parent among itself and the later elements *)
Fixpoint kahn_ok (g : graph) (out : list string) : Prop :=
  match out with [] => True | v :: rest => ready g (v :: rest) v = true /\ kahn_ok g rest end.

Lemma filter_neq_In v (R : list string) s :
  In s (filter (fun s => negb (str_eqb s v)) R) <-> In s R /\ s <> v.
Proof.
  rewrite filter_In. split; intros [H1 H2]; (split; [exact H1|]).
  - intros ->. rewrite seqb_refl in H2. discriminate.
  - destruct (str_eqb s v) eqn:E; [|reflexivity]. apply seqb_eq in E. contradiction.
Qed.

Lemma filter_neq_length v (R : list string) : NoDup R -> In v R ->
  S (length (filter (fun s => negb (str_eqb s v)) R)) = length R.
Proof.
  induction R as [|a R IH]; intros Hnd Hin; [destruct Hin|].
  inversion Hnd as [|? ? Ha Hnd']; subst. cbn [filter length].
  destruct (str_eqb a v) eqn:E; cbn [negb].
  - apply seqb_eq in E. subst a. f_equal.
    rewrite filter_all; [reflexivity|]. intros s Hs.
    destruct (str_eqb s v) eqn:E'; [|reflexivity]. apply seqb_eq in E'. subst s. contradiction.
  - cbn [length]. f_equal. apply IH; [exact Hnd'|].
    destruct Hin as [Hin|Hin]; [|exact Hin]. subst a. rewrite seqb_refl in E. discriminate.
Qed.

Lemma topo_sort_aux_spec g ord : arcs_forward g ord = true ->
  forall fuel R, NoDup R -> (length R <= fuel)%nat ->
    let out := topo_sort_aux g fuel R in
    kahn_ok g out /\ NoDup out /\ length out = length R /\ (forall s, In s out <-> In s R).
Proof.
  intros Harc. induction fuel as [|f IH]; intros R Hnd Hlen; cbv zeta.
  - destruct R; [|cbn [length] in Hlen; lia]. cbn [topo_sort_aux kahn_ok].
    repeat split; try constructor; tauto.
  - cbn [topo_sort_aux]. destruct R as [|a R'] eqn:ER.
    + cbn [find kahn_ok]. repeat split; try constructor; tauto.
    + rewrite <- ER in *. assert (Hne : R <> []) by (rewrite ER; discriminate).
      destruct (find (ready g R) R) as [v|] eqn:Hf.
      2:{ destruct (ready_exists g ord R Harc Hne) as [v [Hv Hr]].
          rewrite (find_none _ _ Hf v Hv) in Hr. discriminate. }
      apply find_some in Hf. destruct Hf as [Hv Hr].
      set (R1 := filter (fun s => negb (str_eqb s v)) R).
      pose proof (filter_neq_length v R Hnd Hv) as HlenR. fold R1 in HlenR.
      destruct (IH R1) as [Hk [Hnd1 [Hlen1 Hin1]]]; [apply NoDup_filter; exact Hnd|lia|].
      assert (Hset : forall s, In s (v :: topo_sort_aux g f R1) <-> In s R).
      { intros s. cbn [In]. rewrite Hin1. unfold R1. rewrite filter_neq_In.
        destruct (string_dec v s) as [->|Hne']; [tauto|]. split.
        - intros [H|[H _]]; [contradiction|exact H].
        - intros H. right. split; [exact H|congruence]. }
      split; [|split; [|split]].
      * cbn [kahn_ok]. split; [|exact Hk].
        apply ready_spec. intros e He Hke Hin. apply Hset in Hin.
        revert Hin. apply (proj1 (ready_spec g R v) Hr e He Hke).
      * constructor; [|exact Hnd1]. rewrite Hin1. unfold R1. rewrite filter_neq_In. tauto.
      * cbn [length]. rewrite Hlen1. exact HlenR.
      * exact Hset.
Qed.

Lemma kahn_arcs_forward g ord out : arcs_forward g ord = true -> kahn_ok g out -> NoDup out ->
  (forall s, In s ord -> In s out) -> arcs_forward g out = true.
Proof.
  intros Harc Hk Hnd Hincl. unfold arcs_forward. apply forallb_forall. intros e He.
  destruct (is_lnl_arc e) eqn:Hke; [|reflexivity]. cbn [negb orb]. apply Nat.ltb_lt.
  pose proof (arcs_forward_spec g ord e Harc He Hke) as Hlt.
  assert (Hp : In (e_parent e) out).
  { apply Hincl. apply index_of_lt_In. pose proof (index_of_le (e_child e) ord). lia. }
  destruct (in_dec string_dec (e_child e) out) as [Hc|Hc].
  2:{ rewrite (index_of_notin _ _ Hc). apply index_of_lt. exact Hp. }
  apply in_split in Hc. destruct Hc as [pre [post Hout]].
  assert (Hcpre : ~ In (e_child e) pre).
  { rewrite Hout in Hnd. apply NoDup_remove_2 in Hnd. intros H. apply Hnd. apply in_or_app. left. exact H. }
  assert (Hkc : ready g (e_child e :: post) (e_child e) = true).
  { clear -Hk Hout. revert out Hk Hout. induction pre as [|a pre IH]; intros out Hk Hout; subst out.
    - exact (proj1 Hk).
    - apply (IH (pre ++ e_child e :: post)); [exact (proj2 Hk)|reflexivity]. }
  assert (Hppre : In (e_parent e) pre).
  { rewrite Hout in Hp. apply in_app_or in Hp. destruct Hp as [Hp|Hp]; [exact Hp|].
    exfalso. apply (proj1 (ready_spec g _ _) Hkc e); [|exact Hke|exact Hp].
    apply inc_edges_In. split; [exact He|reflexivity]. }
  rewrite Hout. rewrite (index_of_app_in _ _ _ Hppre), (index_of_app_notin _ _ _ Hcpre), index_of_head.
  pose proof (index_of_lt _ _ Hppre). lia.
Qed.

Lemma acyclicb_complete : C07_bn_acyclicb_complete_stmt.
Proof.
  intros g ord Hord. apply topo_orderb_spec in Hord. destruct Hord as [Hnd [Hlen [Hin Harc]]].
  assert (Hndl : NoDup (lnls g)).
  { apply NoDup_incl_NoDup with (l := ord); [exact Hnd|unfold nlnls in Hlen; lia|exact Hin]. }
  assert (Hin' : forall s, In s (lnls g) -> In s ord).
  { apply (NoDup_length_incl Hnd); [unfold nlnls in Hlen; lia|exact Hin]. }
  destruct (topo_sort_aux_spec g ord Harc (nlnls g) (lnls g) Hndl (Nat.le_refl _)) as [Hk [Hnd1 [Hlen1 Hin1]]].
  fold (topo_sort g) in *.
  unfold acyclicb, topo_orderb. rewrite !andb_true_iff. repeat split.
  - apply nodupb_NoDup. exact Hnd1.
  - apply Nat.eqb_eq. exact Hlen1.
  - apply forallb_forall. intros s Hs. apply gmem_In. apply Hin1. exact Hs.
  - apply (kahn_arcs_forward g ord); [exact Harc|exact Hk|exact Hnd1|].
    intros s Hs. apply Hin1. apply Hin. exact Hs.
Qed.

(** hence [acyclic g] holds exactly when some order passes [topo_orderb] *)
Lemma acyclic_iff g : acyclic g <-> exists ord, topo_orderb g ord = true.
Proof.
  split; [intros H; exists (topo_sort g); exact H|intros [ord H]; exact (acyclicb_complete g ord H)].
Qed.

(** * Concrete objects for the non-vacuity examples of properties/C07_bn.v *)
(** binary DAG on three LNLs listed II, III, IV with arcs II -> III, IV -> II, IV -> III: both
    arcs out of IV run against the listing order; the only topological order is IV, II, III *)
Definition C07_bn_ex_dag : graph :=
  set_edges (force_graph (build_graph 2
      [(("tumor", "T"), CList ["II"; "III"; "IV"]); (("lnl", "II"), CList ["III"]);
       (("lnl", "III"), CList []); (("lnl", "IV"), CList ["II"; "III"])]%string))
    [("TtoII", (qc 1 2, 1)); ("TtoIII", (qc 1 4, 1)); ("TtoIV", (qc 1 5, 1));
     ("IItoIII", (qc 1 3, 1)); ("IVtoII", (qc 2 5, 1)); ("IVtoIII", (qc 1 7, 1))]%string.
(** binary graph with the cycle II -> III -> II (accepted by [build_graph], well-formed) *)
Definition C07_bn_ex_cyclic : graph :=
  set_edges (force_graph (build_graph 2
      [(("tumor", "T"), CList ["II"; "III"]); (("lnl", "II"), CList ["III"]);
       (("lnl", "III"), CList ["II"])]%string))
    [("TtoII", (qc 1 2, 1)); ("TtoIII", (qc 1 4, 1));
     ("IItoIII", (qc 1 3, 1)); ("IIItoII", (qc 2 5, 1))]%string.
