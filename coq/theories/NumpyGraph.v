(** NumpyGraph: the construction of [lymph.graph.Representation] and its small accessors read statement by statement, as
    the Python code manipulates its dicts, sets and node / edge objects (the name follows Numpy.v / NumpyParams.v although
    this file is about dicts), and the STATIC proofs that this reading equals the hand-written model of Graph.v.
    The source translator harness/translate10.py regenerates every [np_<function>] below from the Python source on every
    run ([gen_<function>]) and checks the generated term against the one written here by conversion ([reflexivity]).

    Reading of Python values (the conventions of Graph.v):
    - the graph dictionary is a [gdict]: an insertion-ordered list of ((node_type, node_name), connections); a connection
      container is a [conns] (list or set); [graph.items()] is the list itself, iterating [graph] gives its keys;
    - a function that may raise returns [gerr + R] ([inl e] = the exception [e] was raised, [R = unit] for a procedure); the
      exception raised by [if TEST: raise CLS(...)] is named after the test that guards it (see the translator);
    - a Python [set] of strings is a duplicate-free list (only [len] of a set is ever observed): [set()] is [py_set_empty],
      [s.add(x)] is [py_set_add], [set(l)] is [py_set];
    - a dict with string keys is an insertion-ordered association list: [d[k] = v] is [dict_set], [d[k]] is [dict_get]
      ([None] = KeyError), [len(d)] is [length], [d.values()] is [map snd], a dict comprehension
      [{k: v for k, v in d.items() if C}] is [filter];
    - a node object is the record [node]: [Tumor(name=n, state=tumor_state)] is [py_Tumor n],
      [LymphNodeLevel(name=n, allowed_states=allowed_lnl_states)] is [py_LymphNodeLevel n] (all LNLs of a graph share the
      allowed states [range(g_base)], so [lnl.is_trinary] is the graph's [tri] and [lnl.allowed_states] is [seq 0 base]),
      [isinstance(x, Tumor)] is [n_tumor x], [isinstance(x, LymphNodeLevel)] is [negb (n_tumor x)], [x.name] is [n_name x];
    - an edge object is the record [edge] ([e.parent.name] = [e_parent e], [e.child.name] = [e_child e],
      [e.is_growth] = [is_growth e], [e.is_tumor_spread] = [is_tumor_spread e]); the field [e_name] caches [e.get_name()]
      (piece get_name: [np_get_name e "to" = e_name e] for every edge the constructor builds).
      [Edge(parent=p, child=c)] is [py_Edge p c]: TypeError ([EArcIntoTumor]) when [c] is not an LNL (the [child] setter),
      otherwise the record with spread 0 and micro_mod 1 (the defaults of [Edge.__init__]); [parent == child] on node
      objects is identity, and two node objects of one graph are the same object iff they agree in name and class
      ([node_eqb]);
    - [node.out] is the list of the graph's edges whose parent is the node, in creation order ([py_out]): the [parent]
      setter appends every constructed edge to it, and no constructed edge is dropped from [graph.edges] when the arc
      names are pairwise distinct. *)
From LymphModel Require Import Base States Graph Transition GraphStatements GraphProofs.
Local Open Scope nat_scope.
Local Open Scope string_scope.
Local Open Scope list_scope.

(** * Control: a [for] loop whose body may raise *)
Fixpoint py_for {E A B} (body : B -> A -> E + A) (l : list B) (a : A) : E + A :=
  match l with
  | [] => inr a
  | x :: r => match body x a with inl e => inl e | inr a => py_for body r a end
  end.

Lemma py_for_ext {E A B} (f g : B -> A -> E + A) l : (forall x a, In x l -> f x a = g x a) ->
  forall a, py_for f l a = py_for g l a.
Proof.
  induction l as [|x l IH]; intros H a; [reflexivity|]. cbn [py_for].
  rewrite (H x a (or_introl eq_refl)). destruct (g x a); [reflexivity|].
  apply IH. intros y b Hy. apply H. right. exact Hy.
Qed.

(** * Sets of strings (only their size is observed) *)
Definition py_set_empty : list string := [].
Definition py_set_add (x : string) (s : list string) : list string := if mem x s then s else x :: s.
Definition py_set (l : list string) : list string := dedup l.
Definition conns_is_set (c : conns) : bool := match c with CSet _ => true | CList _ => false end.

Lemma set_add_fold_le l : forall acc,
  length (fold_left (fun s x => py_set_add x s) l acc) <= length acc + length l.
Proof.
  induction l as [|x l IH]; intros acc; cbn [fold_left length]; [lia|].
  specialize (IH (py_set_add x acc)). unfold py_set_add in *. destruct (mem x acc); cbn [length] in *; lia.
Qed.
Lemma set_add_fold_full l : forall acc,
  length (fold_left (fun s x => py_set_add x s) l acc) = length acc + length l
  <-> NoDup l /\ forall x, In x l -> ~ In x acc.
Proof.
  induction l as [|x l IH]; intros acc; cbn [fold_left length].
  - split; [intros _; split; [constructor|intros x []]|intros _; lia].
  - unfold py_set_add at 2. destruct (mem x acc) eqn:E.
    + split.
      * intros H. pose proof (set_add_fold_le l acc). lia.
      * intros [_ H]. exfalso. apply (H x (or_introl eq_refl)). apply gmem_In. exact E.
    + apply gmem_nIn in E. replace (length acc + S (length l)) with (length (x :: acc) + length l) by (cbn [length]; lia).
      rewrite IH. split.
      * intros [Hnd H]. split.
        -- constructor; [|exact Hnd]. intros Hin. apply (H x Hin). left. reflexivity.
        -- intros y [<-|Hy]; [exact E|]. intros Hacc. apply (H y Hy). right. exact Hacc.
      * intros [Hnd H]. apply NoDup_cons_iff in Hnd. destruct Hnd as [Hx Hnd]. split; [exact Hnd|].
        intros y Hy [<-|Hacc]; [contradiction|]. apply (H y (or_intror Hy)). exact Hacc.
Qed.
Lemma set_add_fold_nodupb l :
  Nat.eqb (length (fold_left (fun s x => py_set_add x s) l py_set_empty)) (length l) = nodupb l.
Proof.
  pose proof (set_add_fold_full l []) as H. cbn [length Nat.add] in H. unfold py_set_empty.
  destruct (nodupb l) eqn:E.
  - apply Nat.eqb_eq. apply H. split; [apply nodupb_NoDup; exact E|intros x _ []].
  - apply Nat.eqb_neq. intros Hl. apply H in Hl. destruct Hl as [Hnd _]. apply nodupb_NoDup in Hnd. congruence.
Qed.

(** * utils.check_unique_names *)
Definition np_check_unique_names (graph : gdict) : gerr + unit :=
  let node_name_set := py_set_empty in
  match py_for (fun '(((_, node_name), connections) : entry) (node_name_set : list string) =>
          if conns_is_set connections then inl EConnSet
          else if negb (Nat.eqb (length (conns_items connections)) (length (py_set (conns_items connections)))) then inl EDupConn
          else if mem node_name (conns_items connections) then inl ESelfConn
          else
            let node_name_set := py_set_add node_name node_name_set in
            inr node_name_set) graph node_name_set with
  | inl e => inl e
  | inr node_name_set =>
      if negb (Nat.eqb (length node_name_set) (length graph)) then inl EDupName
      else inr tt
  end.

Definition opt_err (o : option gerr) : gerr + unit := match o with Some e => inl e | None => inr tt end.

Lemma np_check_loop d : forall acc,
  py_for (fun '(((_, node_name), connections) : entry) (node_name_set : list string) =>
          if conns_is_set connections then inl EConnSet
          else if negb (Nat.eqb (length (conns_items connections)) (length (py_set (conns_items connections)))) then inl EDupConn
          else if mem node_name (conns_items connections) then inl ESelfConn
          else inr (py_set_add node_name node_name_set)) d acc
  = match check_conns d with
    | Some e => inl e
    | None => inr (fold_left (fun s x => py_set_add x s) (dict_names d) acc)
    end.
Proof.
  induction d as [|[[ty nm] c] d IH]; intros acc; [reflexivity|].
  cbn [py_for check_conns dict_names map]. destruct c as [l|l]; cbn [conns_is_set conns_items]; [|reflexivity].
  unfold py_set. rewrite Nat.eqb_sym, dedup_length_eq.
  destruct (nodupb l); cbn [negb]; [|reflexivity]. destruct (mem nm l); [reflexivity|].
  rewrite IH. reflexivity.
Qed.

Lemma np_check_unique_names_eq d : np_check_unique_names d = opt_err (check_unique_names d).
Proof.
  unfold np_check_unique_names. cbv zeta. rewrite np_check_loop, check_unique_names_spec.
  destruct (check_conns d); [reflexivity|].
  replace (length d) with (length (dict_names d)) by apply map_length.
  rewrite set_add_fold_nodupb. destruct (nodupb (dict_names d)); reflexivity.
Qed.

(** * Node objects and Representation._init_nodes *)
Definition py_Tumor (name : string) : node := {| n_tumor := true; n_name := name |}.
Definition py_LymphNodeLevel (name : string) : node := {| n_tumor := false; n_name := name |}.

(** the properties Representation.tumors / Representation.lnls (dict comprehensions over [self.nodes.items()]) *)
Definition np_tumors (nodes : list (string * node)) : list (string * node) :=
  filter (fun '((n, t) : string * node) => n_tumor t) nodes.
Definition np_lnls (nodes : list (string * node)) : list (string * node) :=
  filter (fun '((n, lnl) : string * node) => negb (n_tumor lnl)) nodes.

Lemma np_tumors_eq nodes : np_tumors nodes = filter (fun kv => n_tumor (snd kv)) nodes.
Proof. apply filter_ext. intros [n t]. reflexivity. Qed.
Lemma np_lnls_eq nodes : np_lnls nodes = filter (fun kv => negb (n_tumor (snd kv))) nodes.
Proof. apply filter_ext. intros [n t]. reflexivity. Qed.

(** _init_nodes(graph, tumor_state, allowed_lnl_states): the new value of [self._nodes] *)
Definition np_init_nodes (graph : gdict) : gerr + list (string * node) :=
  let nodes := ([] : list (string * node)) in
  let nodes :=
    fold_left (fun (nodes : list (string * node)) '(((node_type, node_name), _) : entry) =>
        if str_eqb node_type "tumor" then
          let tumor := py_Tumor node_name in
          let nodes := dict_set node_name tumor nodes in
          nodes
        else if str_eqb node_type "lnl" then
          let lnl := py_LymphNodeLevel node_name in
          let nodes := dict_set node_name lnl nodes in
          nodes
        else nodes) graph nodes in
  if Nat.ltb (length (np_tumors nodes)) 1 then inl ENoTumor
  else if Nat.ltb (length (np_lnls nodes)) 1 then inl ENoLnl
  else inr nodes.

Lemma np_init_nodes_loop d : forall acc,
  fold_left (fun (nodes : list (string * node)) '(((node_type, node_name), _) : entry) =>
        if str_eqb node_type "tumor" then dict_set node_name (py_Tumor node_name) nodes
        else if str_eqb node_type "lnl" then dict_set node_name (py_LymphNodeLevel node_name) nodes
        else nodes) d acc
  = init_nodes d acc.
Proof.
  induction d as [|[[ty nm] c] d IH]; intros acc; [reflexivity|]. cbn [fold_left init_nodes].
  destruct (str_eqb ty "tumor"); [apply IH|]. destruct (str_eqb ty "lnl"); apply IH.
Qed.

Lemma ltb_1_eqb_0 n : Nat.ltb n 1 = Nat.eqb n 0.
Proof. destruct n as [|[|n]]; reflexivity. Qed.

(** the model's [build_graph] up to the nodes *)
Definition model_init_nodes (d : gdict) : gerr + list (string * node) :=
  let nodes := init_nodes d [] in
  if Nat.eqb (length (filter (fun kv => n_tumor (snd kv)) nodes)) 0 then inl ENoTumor
  else if Nat.eqb (length (filter (fun kv => negb (n_tumor (snd kv))) nodes)) 0 then inl ENoLnl
  else inr nodes.

Lemma np_init_nodes_eq d : np_init_nodes d = model_init_nodes d.
Proof.
  unfold np_init_nodes, model_init_nodes. cbv zeta. rewrite np_init_nodes_loop.
  rewrite np_tumors_eq, np_lnls_eq, !ltb_1_eqb_0. reflexivity.
Qed.

(** * Edge objects *)
Definition node_eqb (a b : node) : bool := Bool.eqb (n_tumor a) (n_tumor b) && str_eqb (n_name a) (n_name b).

(** Edge(parent=p, child=c): the [child] setter raises TypeError unless [c] is an LNL; spread_prob = 0.0, micro_mod = 1.0 *)
Definition py_Edge (parent child : node) : gerr + edge :=
  if n_tumor child then inl EArcIntoTumor
  else inr {| e_name := if node_eqb parent child then n_name parent else edge_name (n_name parent) (n_name child);
              e_parent := n_name parent; e_child := n_name child;
              e_kind := if n_tumor parent then ETumor else if node_eqb parent child then EGrowth else ELnl;
              e_spread := 0%Qc; e_micro := 1%Qc |}.

(** Edge.get_name(middle) *)
Definition np_get_name (self : edge) (middle : string) : string :=
  if is_growth self then e_parent self
  else e_parent self ++ middle ++ e_child self.

Lemma py_Edge_get_name p c e : py_Edge p c = inr e -> np_get_name e "to" = e_name e.
Proof.
  unfold py_Edge. destruct (n_tumor c) eqn:Ec; [discriminate|]. intros H. inversion H; subst e. clear H.
  unfold np_get_name, is_growth, node_eqb. cbn [e_kind e_parent e_child e_name]. rewrite Ec.
  destruct (n_tumor p); cbn [Bool.eqb andb]; [reflexivity|].
  destruct (str_eqb (n_name p) (n_name c)); reflexivity.
Qed.

Lemma py_Edge_growth p : n_tumor p = false -> py_Edge p p = inr (mk_growth p).
Proof.
  intros H. unfold py_Edge, mk_growth, node_eqb. rewrite H. cbn [Bool.eqb andb]. rewrite seqb_refl. reflexivity.
Qed.
Lemma py_Edge_spread tri p c : n_tumor c = false -> n_name p <> n_name c -> py_Edge p c = inr (mk_edge tri p c).
Proof.
  intros Hc Hn. unfold py_Edge, mk_edge, node_eqb. rewrite Hc. apply seqb_neq in Hn. rewrite Hn, andb_false_r.
  destruct (n_tumor p); reflexivity.
Qed.
Lemma mk_growth_name p : np_get_name (mk_growth p) "to" = e_name (mk_growth p).
Proof. reflexivity. Qed.
Lemma mk_edge_name tri p c : np_get_name (mk_edge tri p c) "to" = e_name (mk_edge tri p c).
Proof. unfold mk_edge. destruct (n_tumor p); reflexivity. Qed.

(** * Representation._init_edges(graph): the new value of [self._edges] *)
Definition np_init_edges (tri : bool) (nodes : list (string * node)) (graph : gdict) : gerr + list (string * edge) :=
  let edges := ([] : list (string * edge)) in
  match py_for (fun '(((_, start_name), end_names) : entry) (edges : list (string * edge)) =>
          match dict_get start_name nodes with
          | None => inl EUnknownNode
          | Some start =>
              match (if negb (n_tumor start) && tri then
                       match py_Edge start start with
                       | inl e => inl e
                       | inr growth_edge =>
                           let edges := dict_set (np_get_name growth_edge "to") growth_edge edges in
                           inr edges
                       end
                     else inr edges) with
              | inl e => inl e
              | inr edges =>
                  match py_for (fun (end_name : string) (edges : list (string * edge)) =>
                          match dict_get end_name nodes with
                          | None => inl EUnknownNode
                          | Some end_ =>
                              match py_Edge start end_ with
                              | inl e => inl e
                              | inr new_edge =>
                                  let edges := dict_set (np_get_name new_edge "to") new_edge edges in
                                  inr edges
                              end
                          end) (conns_items end_names) edges with
                  | inl e => inl e
                  | inr edges => inr edges
                  end
              end
          end) graph edges with
  | inl e => inl e
  | inr edges => inr edges
  end.

(** the nodes dict stores every node under its own name *)
Definition keyed_by_name (nodes : list (string * node)) : Prop :=
  forall k n, dict_get k nodes = Some n -> n_name n = k.

Lemma np_conn_loop tri nodes start ends : keyed_by_name nodes -> ~ In (n_name start) ends -> forall acc,
  py_for (fun (end_name : string) (edges : list (string * edge)) =>
            match dict_get end_name nodes with
            | None => inl EUnknownNode
            | Some end_ =>
                match py_Edge start end_ with
                | inl e => inl e
                | inr new_edge => inr (dict_set (np_get_name new_edge "to") new_edge edges)
                end
            end) ends acc
  = init_conn_edges tri nodes start ends acc.
Proof.
  intros Hk. induction ends as [|en ends IH]; intros Hn acc; [reflexivity|].
  cbn [py_for init_conn_edges]. destruct (dict_get en nodes) as [c|] eqn:Ec; [|reflexivity].
  destruct (n_tumor c) eqn:Et; [unfold py_Edge; rewrite Et; reflexivity|].
  rewrite (py_Edge_spread tri) by (try exact Et; rewrite (Hk _ _ Ec); intros E; apply Hn; left; symmetry; exact E).
  rewrite mk_edge_name. apply IH. intros Hin. apply Hn. right. exact Hin.
Qed.

Lemma np_init_edges_loop tri nodes d : keyed_by_name nodes -> check_conns d = None -> forall acc,
  py_for (fun '(((_, start_name), end_names) : entry) (edges : list (string * edge)) =>
          match dict_get start_name nodes with
          | None => inl EUnknownNode
          | Some start =>
              match (if negb (n_tumor start) && tri then
                       match py_Edge start start with
                       | inl e => inl e
                       | inr growth_edge => inr (dict_set (np_get_name growth_edge "to") growth_edge edges)
                       end
                     else inr edges) with
              | inl e => inl e
              | inr edges =>
                  match py_for (fun (end_name : string) (edges : list (string * edge)) =>
                          match dict_get end_name nodes with
                          | None => inl EUnknownNode
                          | Some end_ =>
                              match py_Edge start end_ with
                              | inl e => inl e
                              | inr new_edge => inr (dict_set (np_get_name new_edge "to") new_edge edges)
                              end
                          end) (conns_items end_names) edges with
                  | inl e => inl e
                  | inr edges => inr edges
                  end
              end
          end) d acc
  = init_edges tri nodes d acc.
Proof.
  intros Hk. induction d as [|[[ty nm] c] d IH]; intros Hc acc; [reflexivity|].
  pose proof (proj1 (check_conns_None _) Hc) as Hall.
  destruct (Hall _ (or_introl eq_refl)) as [_ [_ Hself]]. unfold ent_name, ent_conns in Hself. cbn [fst snd] in Hself.
  assert (Hc' : check_conns d = None).
  { apply check_conns_None. intros e He. apply Hall. right. exact He. }
  cbn [py_for init_edges]. destruct (dict_get nm nodes) as [start|] eqn:Es; [|reflexivity].
  assert (Hn : ~ In (n_name start) (conns_items c)) by (rewrite (Hk _ _ Es); apply gmem_nIn; exact Hself).
  destruct (n_tumor start) eqn:Et; cbn [negb andb].
  - rewrite (np_conn_loop tri) by assumption.
    destruct (init_conn_edges tri nodes start (conns_items c) acc); [reflexivity|]. apply IH; auto.
  - destruct tri.
    + rewrite py_Edge_growth by exact Et. rewrite mk_growth_name. rewrite (np_conn_loop true) by assumption.
      match goal with |- match match ?X with _ => _ end with _ => _ end = _ => destruct X end; [reflexivity|]. apply IH; auto.
    + rewrite (np_conn_loop false) by assumption.
      match goal with |- match match ?X with _ => _ end with _ => _ end = _ => destruct X end; [reflexivity|]. apply IH; auto.
Qed.

Lemma np_init_edges_eq tri nodes d : keyed_by_name nodes -> check_conns d = None ->
  np_init_edges tri nodes d = init_edges tri nodes d [].
Proof.
  intros Hk Hc. unfold np_init_edges at 1. cbv zeta. rewrite (np_init_edges_loop tri nodes d Hk Hc []).
  destruct (init_edges tri nodes d []); reflexivity.
Qed.

(** * Representation.__init__: check_unique_names(graph_dict); self._init_nodes(...); self._init_edges(graph_dict) *)
Lemma dict_get_set {V} k k' (v : V) d : dict_get k (dict_set k' v d) = if str_eqb k k' then Some v else dict_get k d.
Proof.
  induction d as [|[k0 v0] d IH]; cbn [dict_set dict_get].
  - destruct (str_eqb k k'); reflexivity.
  - destruct (str_eqb k' k0) eqn:E0; cbn [dict_get].
    + apply seqb_eq in E0. subst k0. destruct (str_eqb k k'); reflexivity.
    + rewrite IH. destruct (str_eqb k k0) eqn:E1; [|reflexivity].
      apply seqb_eq in E1. subst k0. destruct (str_eqb k k') eqn:E2; [|reflexivity].
      apply seqb_eq in E2. subst k'. rewrite seqb_refl in E0. discriminate E0.
Qed.
Lemma keyed_by_name_set k n nodes : n_name n = k -> keyed_by_name nodes -> keyed_by_name (dict_set k n nodes).
Proof.
  intros Hn Hk k' n' H. rewrite dict_get_set in H. destruct (str_eqb k' k) eqn:E.
  - apply seqb_eq in E. inversion H; subst. reflexivity.
  - apply Hk. exact H.
Qed.
Lemma init_nodes_keyed d : forall acc, keyed_by_name acc -> keyed_by_name (init_nodes d acc).
Proof.
  induction d as [|[[ty nm] c] d IH]; intros acc H; [exact H|]. cbn [init_nodes].
  destruct (str_eqb ty "tumor"); [apply IH, keyed_by_name_set; [reflexivity|exact H]|].
  destruct (str_eqb ty "lnl"); [apply IH, keyed_by_name_set; [reflexivity|exact H]|]. apply IH, H.
Qed.
Lemma keyed_nil : keyed_by_name [].
Proof. intros k n H. discriminate H. Qed.

(** [tri] is [start.is_trinary] = [len(allowed_states) == 3] with [base = len(allowed_states)] *)
Definition np_Representation (base : nat) (graph_dict : gdict) : gerr + graph :=
  match np_check_unique_names graph_dict with
  | inl e => inl e
  | inr _ =>
      match np_init_nodes graph_dict with
      | inl e => inl e
      | inr nodes =>
          match np_init_edges (Nat.eqb base 3) nodes graph_dict with
          | inl e => inl e
          | inr edges => inr {| g_base := base; g_nodes := map snd nodes; g_edges := map snd edges |}
          end
      end
  end.

Lemma np_Representation_eq base d : np_Representation base d = build_graph base d.
Proof.
  unfold np_Representation, build_graph. rewrite np_check_unique_names_eq.
  destruct (check_unique_names d) as [e|] eqn:Ec; [reflexivity|]. cbn [opt_err].
  assert (Hc : check_conns d = None).
  { rewrite check_unique_names_spec in Ec. destruct (check_conns d); [discriminate Ec|reflexivity]. }
  rewrite np_init_nodes_eq. unfold model_init_nodes. cbv zeta.
  destruct (Nat.eqb (length (filter (fun kv => n_tumor (snd kv)) (init_nodes d []))) 0); [reflexivity|].
  destruct (Nat.eqb (length (filter (fun kv => negb (n_tumor (snd kv))) (init_nodes d []))) 0); [reflexivity|].
  rewrite np_init_edges_eq; [reflexivity | apply init_nodes_keyed, keyed_nil | exact Hc].
Qed.

(** * The built graph as an object: its dicts of nodes and edges *)
Definition node_key (n : node) : string * string := (if n_tumor n then "tumor" else "lnl", n_name n).

Lemma dict_set_keys {V} k (v : V) d :
  map fst (dict_set k v d) = if mem k (map fst d) then map fst d else map fst d ++ [k].
Proof.
  induction d as [|[k0 v0] d IH]; cbn [dict_set map fst mem]; [reflexivity|].
  destruct (str_eqb k k0) eqn:E; cbn [orb map fst].
  - apply seqb_eq in E. subst. reflexivity.
  - rewrite IH. destruct (mem k (map fst d)); reflexivity.
Qed.
Lemma dict_set_NoDup {V} k (v : V) d : NoDup (map fst d) -> NoDup (map fst (dict_set k v d)).
Proof.
  intros H. rewrite dict_set_keys. destruct (mem k (map fst d)) eqn:E; [exact H|].
  apply NoDup_app_intro; [exact H | repeat constructor; intros [] |].
  intros x Hx [<-|[]]. apply gmem_nIn in E. contradiction.
Qed.
Lemma init_nodes_NoDup d : forall acc, NoDup (map fst acc) -> NoDup (map fst (init_nodes d acc)).
Proof.
  induction d as [|[[ty nm] c] d IH]; intros acc H; [exact H|]. cbn [init_nodes].
  destruct (str_eqb ty "tumor"); [apply IH, dict_set_NoDup, H|].
  destruct (str_eqb ty "lnl"); [apply IH, dict_set_NoDup, H|]. apply IH, H.
Qed.
Lemma keyed_values_names nodes : NoDup (map fst nodes) -> keyed_by_name nodes -> map n_name (map snd nodes) = map fst nodes.
Proof.
  intros Hnd Hk. rewrite map_map. apply map_ext_in. intros [k n] Hin. cbn [fst snd].
  apply Hk. apply dict_get_In; assumption.
Qed.

Lemma build_graph_nodes base d g : build_graph base d = inr g -> NoDup (map n_name (g_nodes g)).
Proof.
  unfold build_graph. destruct (check_unique_names d); [discriminate|]. cbv zeta.
  destruct (Nat.eqb _ 0); [discriminate|]. destruct (Nat.eqb _ 0); [discriminate|].
  destruct (init_edges _ _ _ _); [discriminate|]. intros H. inversion H; subst g. clear H. cbn [g_nodes].
  assert (Hnd : NoDup (map fst (init_nodes d []))) by (apply init_nodes_NoDup; constructor).
  rewrite keyed_values_names; [exact Hnd | exact Hnd | apply init_nodes_keyed, keyed_nil].
Qed.
Lemma NoDup_names_keys (ns : list node) : NoDup (map n_name ns) -> NoDup (map node_key ns).
Proof.
  induction ns as [|n ns IH]; cbn [map]; intros H; [constructor|].
  apply NoDup_cons_iff in H. destruct H as [Hn H]. constructor; [|apply IH; exact H].
  intros Hin. apply Hn. apply in_map_iff in Hin. destruct Hin as [m [Hm Hin]].
  apply in_map_iff. exists m. split; [|exact Hin]. unfold node_key in Hm. inversion Hm. reflexivity.
Qed.

(** * Representation.to_dict *)
(** dicts whose keys are pairs of strings *)
Definition key_eqb (a b : string * string) : bool := str_eqb (fst a) (fst b) && str_eqb (snd a) (snd b).
Fixpoint kdict_set {V} (k : string * string) (v : V) (d : list ((string * string) * V)) : list ((string * string) * V) :=
  match d with
  | [] => [(k, v)]
  | (k', v') :: r => if key_eqb k k' then (k, v) :: r else (k', v') :: kdict_set k v r
  end.
Lemma key_eqb_eq a b : key_eqb a b = true <-> a = b.
Proof.
  destruct a as [a1 a2], b as [b1 b2]. unfold key_eqb. cbn [fst snd]. rewrite andb_true_iff, !seqb_eq.
  split; [intros [-> ->]; reflexivity | intros H; inversion H; auto].
Qed.
Lemma kdict_set_fresh {V} k (v : V) acc : ~ In k (map fst acc) -> kdict_set k v acc = acc ++ [(k, v)].
Proof.
  induction acc as [|[k' v'] acc IH]; cbn [kdict_set map fst In app]; intros H; [reflexivity|].
  destruct (key_eqb k k') eqn:E.
  - apply key_eqb_eq in E. exfalso. apply H. left. symmetry. exact E.
  - rewrite IH; [reflexivity|]. intros Hin. apply H. right. exact Hin.
Qed.

(** node.out *)
Definition py_out (edges : list edge) (node : node) : list edge :=
  filter (fun e => str_eqb (e_parent e) (n_name node)) edges.

Definition np_to_dict (g : graph) : list ((string * string) * list string) :=
  let res := ([] : list ((string * string) * list string)) in
  let res :=
    fold_left (fun (res : list ((string * string) * list string)) (node : node) =>
        let node_type := if n_tumor node then "tumor" else "lnl" in
        let res := kdict_set (node_type, n_name node)
                     (map (fun o => e_child o) (filter (fun o => negb (is_growth o)) (py_out (g_edges g) node))) res in
        res) (g_nodes g) res in
  res.

Lemma filter_filter {A} (p q : A -> bool) l : filter q (filter p l) = filter (fun x => p x && q x) l.
Proof.
  induction l as [|a l IH]; cbn [filter]; [reflexivity|].
  destruct (p a); cbn [filter andb]; [destruct (q a)|]; rewrite IH; reflexivity.
Qed.

Lemma np_to_dict_loop (F : node -> list string) ns : forall acc,
  NoDup (map fst acc ++ map node_key ns) ->
  fold_left (fun (res : list ((string * string) * list string)) (node : node) =>
               kdict_set (if n_tumor node then "tumor" else "lnl", n_name node) (F node) res) ns acc
  = acc ++ map (fun n => ((if n_tumor n then "tumor" else "lnl", n_name n), F n)) ns.
Proof.
  induction ns as [|n ns IH]; intros acc H; cbn [fold_left map]; [rewrite app_nil_r; reflexivity|].
  cbn [map] in H. rewrite kdict_set_fresh.
  - rewrite IH; [rewrite <- app_assoc; reflexivity|]. rewrite map_app. cbn [map fst]. rewrite <- app_assoc. exact H.
  - intros Hin. apply (NoDup_app_disj _ _ _ H Hin). left. reflexivity.
Qed.

Lemma np_to_dict_eq g : NoDup (map node_key (g_nodes g)) -> np_to_dict g = to_dict g.
Proof.
  intros H. unfold np_to_dict, to_dict. cbv zeta.
  rewrite (np_to_dict_loop (fun node => map (fun o => e_child o)
             (filter (fun o => negb (is_growth o)) (py_out (g_edges g) node)))) by exact H.
  cbn [app]. apply map_ext. intros n. f_equal. unfold out_children, py_out. rewrite filter_filter. reflexivity.
Qed.
Lemma np_to_dict_built base d g : build_graph base d = inr g -> np_to_dict g = to_dict g.
Proof. intros H. apply np_to_dict_eq, NoDup_names_keys, (build_graph_nodes base d), H. Qed.
