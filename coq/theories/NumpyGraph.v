(** NumpyGraph: the construction of [lymph.graph.Representation] and its small accessors read statement by statement, as
    the Python code manipulates its dicts, sets and node / edge objects (the name follows Numpy.v / NumpyParams.v although
    this file is about dicts), and the STATIC proofs that this reading equals the hand-written model of Graph.v.
    The source translator harness/translate10.py regenerates every [np_<function>] below from the Python source on every
    run ([gen_<function>]) and checks the generated term against the one written here by conversion ([reflexivity]).

    Reading of Python values (the conventions of Graph.v):
    - the graph dictionary is a [gdict]: an insertion-ordered list of ((node_type, node_name), connections); a connection
      container is a [conns] (list or set); [graph.items()] is the list itself, iterating [graph] gives its keys;
    - a function that may raise returns [gerr + R] ([inl e] = the exception [e] was raised, [R = unit] for a procedure); the
      exception raised by [if TEST: raise CLS(...)] is named after the test that guards it (see the translator);
    - a Python [set] of strings is a duplicate-free list (only [len] of a set is ever observed): [set()] is [py_set_empty],
      [s.add(x)] is [py_set_add], [set(l)] is [py_set];
    - a dict with string keys is an insertion-ordered association list: [d[k] = v] is [dict_set], [d[k]] is [dict_get]
      ([None] = KeyError), [len(d)] is [length], [d.values()] is [map snd], a dict comprehension
      [{k: v for k, v in d.items() if C}] is [filter];
    - a node object is the record [node]: [Tumor(name=n, state=tumor_state)] is [py_Tumor n],
      [LymphNodeLevel(name=n, allowed_states=allowed_lnl_states)] is [py_LymphNodeLevel n] (all LNLs of a graph share the
      allowed states [range(g_base)], so [lnl.is_trinary] is the graph's [tri] and [lnl.allowed_states] is [seq 0 base]),
      [isinstance(x, Tumor)] is [n_tumor x], [isinstance(x, LymphNodeLevel)] is [negb (n_tumor x)], [x.name] is [n_name x];
    - an edge object is the record [edge] ([e.parent.name] = [e_parent e], [e.child.name] = [e_child e],
      [e.is_growth] = [is_growth e], [e.is_tumor_spread] = [is_tumor_spread e]); the field [e_name] caches [e.get_name()]
      (piece get_name: [np_get_name e "to" = e_name e] for every edge the constructor builds).
      [Edge(parent=p, child=c)] is [py_Edge p c]: TypeError ([EArcIntoTumor]) when [c] is not an LNL (the [child] setter),
      otherwise the record with spread 0 and micro_mod 1 (the defaults of [Edge.__init__]); [parent == child] on node
      objects is identity, and two node objects of one graph are the same object iff they agree in name and class
      ([node_eqb]);
    - [node.out] is the list of the graph's edges whose parent is the node, in creation order ([py_out]): the [parent]
      setter appends every constructed edge to it, and no constructed edge is dropped from [graph.edges] when the arc
      names are pairwise distinct;
    - a constructed Representation is the model record [graph]: [self.nodes] is [nodes_dict], [self.edges] is [edges_dict]
      (for the graphs [build_graph] returns these are the dicts the constructor built: [edges_dict_built]);
    - the mutable [_state] attributes of the nodes are a heap [node_states] keyed by node name (last section).

    Contents: [np_check_unique_names_eq], [np_init_nodes_eq], [np_init_edges_eq], [np_Representation_eq] (= [build_graph],
    no hypothesis), [np_to_dict_eq] / [np_to_dict_built], [np_gen_state_list_eq], [np_state_list_eq],
    [np_tumor_edges_eq] / [np_lnl_edges_eq] / [np_growth_edges_eq], [py_Edge_get_name] / [np_get_name_built],
    [np_get_state_eq], [np_set_state_positional] / [np_set_state_rejects] / [np_set_state_keyword] /
    [np_set_state_unknown]. *)
From LymphModel Require Import Base States Graph Transition GraphStatements GraphProofs.
Local Open Scope nat_scope.
Local Open Scope string_scope.
Local Open Scope list_scope.

(** * Control: a [for] loop whose body may raise *)
Fixpoint py_for {E A B} (body : B -> A -> E + A) (l : list B) (a : A) : E + A :=
  match l with
  | [] => inr a
  | x :: r => match body x a with inl e => inl e | inr a => py_for body r a end
  end.

Lemma py_for_ext {E A B} (f g : B -> A -> E + A) l : (forall x a, In x l -> f x a = g x a) ->
  forall a, py_for f l a = py_for g l a.
Proof.
  induction l as [|x l IH]; intros H a; [reflexivity|]. cbn [py_for].
  rewrite (H x a (or_introl eq_refl)). destruct (g x a); [reflexivity|].
  apply IH. intros y b Hy. apply H. right. exact Hy.
Qed.

(** * Sets of strings (only their size is observed) *)
Definition py_set_empty : list string := [].
Definition py_set_add (x : string) (s : list string) : list string := if mem x s then s else x :: s.
Definition py_set (l : list string) : list string := dedup l.
Definition conns_is_set (c : conns) : bool := match c with CSet _ => true | CList _ => false end.

Lemma set_add_fold_le l : forall acc,
  length (fold_left (fun s x => py_set_add x s) l acc) <= length acc + length l.
Proof.
  induction l as [|x l IH]; intros acc; cbn [fold_left length]; [lia|].
  specialize (IH (py_set_add x acc)). unfold py_set_add in *. destruct (mem x acc); cbn [length] in *; lia.
Qed.
Lemma set_add_fold_full l : forall acc,
  length (fold_left (fun s x => py_set_add x s) l acc) = length acc + length l
  <-> NoDup l /\ forall x, In x l -> ~ In x acc.
Proof.
  induction l as [|x l IH]; intros acc; cbn [fold_left length].
  - split; [intros _; split; [constructor|intros x []]|intros _; lia].
  - unfold py_set_add at 2. destruct (mem x acc) eqn:E.
    + split.
      * intros H. pose proof (set_add_fold_le l acc). lia.
      * intros [_ H]. exfalso. apply (H x (or_introl eq_refl)). apply gmem_In. exact E.
    + apply gmem_nIn in E. replace (length acc + S (length l)) with (length (x :: acc) + length l) by (cbn [length]; lia).
      rewrite IH. split.
      * intros [Hnd H]. split.
        -- constructor; [|exact Hnd]. intros Hin. apply (H x Hin). left. reflexivity.
        -- intros y [<-|Hy]; [exact E|]. intros Hacc. apply (H y Hy). right. exact Hacc.
      * intros [Hnd H]. apply NoDup_cons_iff in Hnd. destruct Hnd as [Hx Hnd]. split; [exact Hnd|].
        intros y Hy [<-|Hacc]; [contradiction|]. apply (H y (or_intror Hy)). exact Hacc.
Qed.
Lemma set_add_fold_nodupb l :
  Nat.eqb (length (fold_left (fun s x => py_set_add x s) l py_set_empty)) (length l) = nodupb l.
Proof.
  pose proof (set_add_fold_full l []) as H. cbn [length Nat.add] in H. unfold py_set_empty.
  destruct (nodupb l) eqn:E.
  - apply Nat.eqb_eq. apply H. split; [apply nodupb_NoDup; exact E|intros x _ []].
  - apply Nat.eqb_neq. intros Hl. apply H in Hl. destruct Hl as [Hnd _]. apply nodupb_NoDup in Hnd. congruence.
Qed.

(** * utils.check_unique_names *)
Definition np_check_unique_names (graph : gdict) : gerr + unit :=
  let node_name_set := py_set_empty in
  match py_for (fun '(((_, node_name), connections) : entry) (node_name_set : list string) =>
          if conns_is_set connections then inl EConnSet
          else if negb (Nat.eqb (length (conns_items connections)) (length (py_set (conns_items connections)))) then inl EDupConn
          else if mem node_name (conns_items connections) then inl ESelfConn
          else
            let node_name_set := py_set_add node_name node_name_set in
            inr node_name_set) graph node_name_set with
  | inl e => inl e
  | inr node_name_set =>
      if negb (Nat.eqb (length node_name_set) (length graph)) then inl EDupName
      else inr tt
  end.

Definition opt_err (o : option gerr) : gerr + unit := match o with Some e => inl e | None => inr tt end.

Lemma np_check_loop d : forall acc,
  py_for (fun '(((_, node_name), connections) : entry) (node_name_set : list string) =>
          if conns_is_set connections then inl EConnSet
          else if negb (Nat.eqb (length (conns_items connections)) (length (py_set (conns_items connections)))) then inl EDupConn
          else if mem node_name (conns_items connections) then inl ESelfConn
          else inr (py_set_add node_name node_name_set)) d acc
  = match check_conns d with
    | Some e => inl e
    | None => inr (fold_left (fun s x => py_set_add x s) (dict_names d) acc)
    end.
Proof.
  induction d as [|[[ty nm] c] d IH]; intros acc; [reflexivity|].
  cbn [py_for check_conns dict_names map]. destruct c as [l|l]; cbn [conns_is_set conns_items]; [|reflexivity].
  unfold py_set. rewrite Nat.eqb_sym, dedup_length_eq.
  destruct (nodupb l); cbn [negb]; [|reflexivity]. destruct (mem nm l); [reflexivity|].
  rewrite IH. reflexivity.
Qed.

Lemma np_check_unique_names_eq d : np_check_unique_names d = opt_err (check_unique_names d).
Proof.
  unfold np_check_unique_names. cbv zeta. rewrite np_check_loop, check_unique_names_spec.
  destruct (check_conns d); [reflexivity|].
  replace (length d) with (length (dict_names d)) by apply map_length.
  rewrite set_add_fold_nodupb. destruct (nodupb (dict_names d)); reflexivity.
Qed.

(** * Node objects and Representation._init_nodes *)
Definition py_Tumor (name : string) : node := {| n_tumor := true; n_name := name |}.
Definition py_LymphNodeLevel (name : string) : node := {| n_tumor := false; n_name := name |}.

(** the properties Representation.tumors / Representation.lnls (dict comprehensions over [self.nodes.items()]) *)
Definition np_tumors (nodes : list (string * node)) : list (string * node) :=
  filter (fun '((n, t) : string * node) => n_tumor t) nodes.
Definition np_lnls (nodes : list (string * node)) : list (string * node) :=
  filter (fun '((n, lnl) : string * node) => negb (n_tumor lnl)) nodes.

Lemma np_tumors_eq nodes : np_tumors nodes = filter (fun kv => n_tumor (snd kv)) nodes.
Proof. apply filter_ext. intros [n t]. reflexivity. Qed.
Lemma np_lnls_eq nodes : np_lnls nodes = filter (fun kv => negb (n_tumor (snd kv))) nodes.
Proof. apply filter_ext. intros [n t]. reflexivity. Qed.

(** _init_nodes(graph, tumor_state, allowed_lnl_states): the new value of [self._nodes] *)
Definition np_init_nodes (graph : gdict) : gerr + list (string * node) :=
  let nodes := ([] : list (string * node)) in
  let nodes :=
    fold_left (fun (nodes : list (string * node)) '(((node_type, node_name), _) : entry) =>
        if str_eqb node_type "tumor" then
          let tumor := py_Tumor node_name in
          let nodes := dict_set node_name tumor nodes in
          nodes
        else if str_eqb node_type "lnl" then
          let lnl := py_LymphNodeLevel node_name in
          let nodes := dict_set node_name lnl nodes in
          nodes
        else nodes) graph nodes in
  if Nat.ltb (length (np_tumors nodes)) 1 then inl ENoTumor
  else if Nat.ltb (length (np_lnls nodes)) 1 then inl ENoLnl
  else inr nodes.

Lemma np_init_nodes_loop d : forall acc,
  fold_left (fun (nodes : list (string * node)) '(((node_type, node_name), _) : entry) =>
        if str_eqb node_type "tumor" then dict_set node_name (py_Tumor node_name) nodes
        else if str_eqb node_type "lnl" then dict_set node_name (py_LymphNodeLevel node_name) nodes
        else nodes) d acc
  = init_nodes d acc.
Proof.
  induction d as [|[[ty nm] c] d IH]; intros acc; [reflexivity|]. cbn [fold_left init_nodes].
  destruct (str_eqb ty "tumor"); [apply IH|]. destruct (str_eqb ty "lnl"); apply IH.
Qed.

Lemma ltb_1_eqb_0 n : Nat.ltb n 1 = Nat.eqb n 0.
Proof. destruct n as [|[|n]]; reflexivity. Qed.

(** the model's [build_graph] up to the nodes *)
Definition model_init_nodes (d : gdict) : gerr + list (string * node) :=
  let nodes := init_nodes d [] in
  if Nat.eqb (length (filter (fun kv => n_tumor (snd kv)) nodes)) 0 then inl ENoTumor
  else if Nat.eqb (length (filter (fun kv => negb (n_tumor (snd kv))) nodes)) 0 then inl ENoLnl
  else inr nodes.

Lemma np_init_nodes_eq d : np_init_nodes d = model_init_nodes d.
Proof.
  unfold np_init_nodes, model_init_nodes. cbv zeta. rewrite np_init_nodes_loop.
  rewrite np_tumors_eq, np_lnls_eq, !ltb_1_eqb_0. reflexivity.
Qed.

(** * Edge objects *)
Definition node_eqb (a b : node) : bool := Bool.eqb (n_tumor a) (n_tumor b) && str_eqb (n_name a) (n_name b).

(** Edge(parent=p, child=c): the [child] setter raises TypeError unless [c] is an LNL; spread_prob = 0.0, micro_mod = 1.0 *)
Definition py_Edge (parent child : node) : gerr + edge :=
  if n_tumor child then inl EArcIntoTumor
  else inr {| e_name := if node_eqb parent child then n_name parent else edge_name (n_name parent) (n_name child);
              e_parent := n_name parent; e_child := n_name child;
              e_kind := if n_tumor parent then ETumor else if node_eqb parent child then EGrowth else ELnl;
              e_spread := 0%Qc; e_micro := 1%Qc |}.

(** Edge.get_name(middle) *)
Definition np_get_name (self : edge) (middle : string) : string :=
  if is_growth self then e_parent self
  else e_parent self ++ middle ++ e_child self.

Lemma py_Edge_get_name p c e : py_Edge p c = inr e -> np_get_name e "to" = e_name e.
Proof.
  unfold py_Edge. destruct (n_tumor c) eqn:Ec; [discriminate|]. intros H. inversion H; subst e. clear H.
  unfold np_get_name, is_growth, node_eqb. cbn [e_kind e_parent e_child e_name]. rewrite Ec.
  destruct (n_tumor p); cbn [Bool.eqb andb]; [reflexivity|].
  destruct (str_eqb (n_name p) (n_name c)); reflexivity.
Qed.

Lemma py_Edge_growth p : n_tumor p = false -> py_Edge p p = inr (mk_growth p).
Proof.
  intros H. unfold py_Edge, mk_growth, node_eqb. rewrite H. cbn [Bool.eqb andb]. rewrite seqb_refl. reflexivity.
Qed.
Lemma py_Edge_spread tri p c : n_tumor c = false -> n_name p <> n_name c -> py_Edge p c = inr (mk_edge tri p c).
Proof.
  intros Hc Hn. unfold py_Edge, mk_edge, node_eqb. rewrite Hc. apply seqb_neq in Hn. rewrite Hn, andb_false_r.
  destruct (n_tumor p); reflexivity.
Qed.
Lemma mk_growth_name p : np_get_name (mk_growth p) "to" = e_name (mk_growth p).
Proof. reflexivity. Qed.
Lemma mk_edge_name tri p c : np_get_name (mk_edge tri p c) "to" = e_name (mk_edge tri p c).
Proof. unfold mk_edge. destruct (n_tumor p); reflexivity. Qed.

(** * Representation._init_edges(graph): the new value of [self._edges] *)
Definition np_init_edges (tri : bool) (nodes : list (string * node)) (graph : gdict) : gerr + list (string * edge) :=
  let edges := ([] : list (string * edge)) in
  match py_for (fun '(((_, start_name), end_names) : entry) (edges : list (string * edge)) =>
          match dict_get start_name nodes with
          | None => inl EUnknownNode
          | Some start =>
              match (if negb (n_tumor start) && tri then
                       match py_Edge start start with
                       | inl e => inl e
                       | inr growth_edge =>
                           let edges := dict_set (np_get_name growth_edge "to") growth_edge edges in
                           inr edges
                       end
                     else inr edges) with
              | inl e => inl e
              | inr edges =>
                  match py_for (fun (end_name : string) (edges : list (string * edge)) =>
                          match dict_get end_name nodes with
                          | None => inl EUnknownNode
                          | Some end_ =>
                              match py_Edge start end_ with
                              | inl e => inl e
                              | inr new_edge =>
                                  let edges := dict_set (np_get_name new_edge "to") new_edge edges in
                                  inr edges
                              end
                          end) (conns_items end_names) edges with
                  | inl e => inl e
                  | inr edges => inr edges
                  end
              end
          end) graph edges with
  | inl e => inl e
  | inr edges => inr edges
  end.

(** the nodes dict stores every node under its own name *)
Definition keyed_by_name (nodes : list (string * node)) : Prop :=
  forall k n, dict_get k nodes = Some n -> n_name n = k.

Lemma np_conn_loop tri nodes start ends : keyed_by_name nodes -> ~ In (n_name start) ends -> forall acc,
  py_for (fun (end_name : string) (edges : list (string * edge)) =>
            match dict_get end_name nodes with
            | None => inl EUnknownNode
            | Some end_ =>
                match py_Edge start end_ with
                | inl e => inl e
                | inr new_edge => inr (dict_set (np_get_name new_edge "to") new_edge edges)
                end
            end) ends acc
  = init_conn_edges tri nodes start ends acc.
Proof.
  intros Hk. induction ends as [|en ends IH]; intros Hn acc; [reflexivity|].
  cbn [py_for init_conn_edges]. destruct (dict_get en nodes) as [c|] eqn:Ec; [|reflexivity].
  destruct (n_tumor c) eqn:Et; [unfold py_Edge; rewrite Et; reflexivity|].
  rewrite (py_Edge_spread tri) by (try exact Et; rewrite (Hk _ _ Ec); intros E; apply Hn; left; symmetry; exact E).
  rewrite mk_edge_name. apply IH. intros Hin. apply Hn. right. exact Hin.
Qed.

Lemma np_init_edges_loop tri nodes d : keyed_by_name nodes -> check_conns d = None -> forall acc,
  py_for (fun '(((_, start_name), end_names) : entry) (edges : list (string * edge)) =>
          match dict_get start_name nodes with
          | None => inl EUnknownNode
          | Some start =>
              match (if negb (n_tumor start) && tri then
                       match py_Edge start start with
                       | inl e => inl e
                       | inr growth_edge => inr (dict_set (np_get_name growth_edge "to") growth_edge edges)
                       end
                     else inr edges) with
              | inl e => inl e
              | inr edges =>
                  match py_for (fun (end_name : string) (edges : list (string * edge)) =>
                          match dict_get end_name nodes with
                          | None => inl EUnknownNode
                          | Some end_ =>
                              match py_Edge start end_ with
                              | inl e => inl e
                              | inr new_edge => inr (dict_set (np_get_name new_edge "to") new_edge edges)
                              end
                          end) (conns_items end_names) edges with
                  | inl e => inl e
                  | inr edges => inr edges
                  end
              end
          end) d acc
  = init_edges tri nodes d acc.
Proof.
  intros Hk. induction d as [|[[ty nm] c] d IH]; intros Hc acc; [reflexivity|].
  pose proof (proj1 (check_conns_None _) Hc) as Hall.
  destruct (Hall _ (or_introl eq_refl)) as [_ [_ Hself]]. unfold ent_name, ent_conns in Hself. cbn [fst snd] in Hself.
  assert (Hc' : check_conns d = None).
  { apply check_conns_None. intros e He. apply Hall. right. exact He. }
  cbn [py_for init_edges]. destruct (dict_get nm nodes) as [start|] eqn:Es; [|reflexivity].
  assert (Hn : ~ In (n_name start) (conns_items c)) by (rewrite (Hk _ _ Es); apply gmem_nIn; exact Hself).
  destruct (n_tumor start) eqn:Et; cbn [negb andb].
  - rewrite (np_conn_loop tri) by assumption.
    destruct (init_conn_edges tri nodes start (conns_items c) acc); [reflexivity|]. apply IH; auto.
  - destruct tri.
    + rewrite py_Edge_growth by exact Et. rewrite mk_growth_name. rewrite (np_conn_loop true) by assumption.
      match goal with |- match match ?X with _ => _ end with _ => _ end = _ => destruct X end; [reflexivity|]. apply IH; auto.
    + rewrite (np_conn_loop false) by assumption.
      match goal with |- match match ?X with _ => _ end with _ => _ end = _ => destruct X end; [reflexivity|]. apply IH; auto.
Qed.

Lemma np_init_edges_eq tri nodes d : keyed_by_name nodes -> check_conns d = None ->
  np_init_edges tri nodes d = init_edges tri nodes d [].
Proof.
  intros Hk Hc. unfold np_init_edges at 1. cbv zeta. rewrite (np_init_edges_loop tri nodes d Hk Hc []).
  destruct (init_edges tri nodes d []); reflexivity.
Qed.

(** * Representation.__init__: check_unique_names(graph_dict); self._init_nodes(...); self._init_edges(graph_dict) *)
Lemma dict_get_set {V} k k' (v : V) d : dict_get k (dict_set k' v d) = if str_eqb k k' then Some v else dict_get k d.
Proof.
  induction d as [|[k0 v0] d IH]; cbn [dict_set dict_get].
  - destruct (str_eqb k k'); reflexivity.
  - destruct (str_eqb k' k0) eqn:E0; cbn [dict_get].
    + apply seqb_eq in E0. subst k0. destruct (str_eqb k k'); reflexivity.
    + rewrite IH. destruct (str_eqb k k0) eqn:E1; [|reflexivity].
      apply seqb_eq in E1. subst k0. destruct (str_eqb k k') eqn:E2; [|reflexivity].
      apply seqb_eq in E2. subst k'. rewrite seqb_refl in E0. discriminate E0.
Qed.
Lemma keyed_by_name_set k n nodes : n_name n = k -> keyed_by_name nodes -> keyed_by_name (dict_set k n nodes).
Proof.
  intros Hn Hk k' n' H. rewrite dict_get_set in H. destruct (str_eqb k' k) eqn:E.
  - apply seqb_eq in E. inversion H; subst. reflexivity.
  - apply Hk. exact H.
Qed.
Lemma init_nodes_keyed d : forall acc, keyed_by_name acc -> keyed_by_name (init_nodes d acc).
Proof.
  induction d as [|[[ty nm] c] d IH]; intros acc H; [exact H|]. cbn [init_nodes].
  destruct (str_eqb ty "tumor"); [apply IH, keyed_by_name_set; [reflexivity|exact H]|].
  destruct (str_eqb ty "lnl"); [apply IH, keyed_by_name_set; [reflexivity|exact H]|]. apply IH, H.
Qed.
Lemma keyed_nil : keyed_by_name [].
Proof. intros k n H. discriminate H. Qed.

(** [tri] is [start.is_trinary] = [len(allowed_states) == 3] with [base = len(allowed_states)] *)
Definition np_Representation (base : nat) (graph_dict : gdict) : gerr + graph :=
  match np_check_unique_names graph_dict with
  | inl e => inl e
  | inr _ =>
      match np_init_nodes graph_dict with
      | inl e => inl e
      | inr nodes =>
          match np_init_edges (Nat.eqb base 3) nodes graph_dict with
          | inl e => inl e
          | inr edges => inr {| g_base := base; g_nodes := map snd nodes; g_edges := map snd edges |}
          end
      end
  end.

Lemma np_Representation_eq base d : np_Representation base d = build_graph base d.
Proof.
  unfold np_Representation, build_graph. rewrite np_check_unique_names_eq.
  destruct (check_unique_names d) as [e|] eqn:Ec; [reflexivity|]. cbn [opt_err].
  assert (Hc : check_conns d = None).
  { rewrite check_unique_names_spec in Ec. destruct (check_conns d); [discriminate Ec|reflexivity]. }
  rewrite np_init_nodes_eq. unfold model_init_nodes. cbv zeta.
  destruct (Nat.eqb (length (filter (fun kv => n_tumor (snd kv)) (init_nodes d []))) 0); [reflexivity|].
  destruct (Nat.eqb (length (filter (fun kv => negb (n_tumor (snd kv))) (init_nodes d []))) 0); [reflexivity|].
  rewrite np_init_edges_eq; [reflexivity | apply init_nodes_keyed, keyed_nil | exact Hc].
Qed.

(** * The built graph as an object: its dicts of nodes and edges *)
Definition node_key (n : node) : string * string := (if n_tumor n then "tumor" else "lnl", n_name n).

Lemma dict_set_keys {V} k (v : V) d :
  map fst (dict_set k v d) = if mem k (map fst d) then map fst d else map fst d ++ [k].
Proof.
  induction d as [|[k0 v0] d IH]; cbn [dict_set map fst mem]; [reflexivity|].
  destruct (str_eqb k k0) eqn:E; cbn [orb map fst].
  - apply seqb_eq in E. subst. reflexivity.
  - rewrite IH. destruct (mem k (map fst d)); reflexivity.
Qed.
Lemma dict_set_NoDup {V} k (v : V) d : NoDup (map fst d) -> NoDup (map fst (dict_set k v d)).
Proof.
  intros H. rewrite dict_set_keys. destruct (mem k (map fst d)) eqn:E; [exact H|].
  apply NoDup_app_intro; [exact H | repeat constructor; intros [] |].
  intros x Hx [<-|[]]. apply gmem_nIn in E. contradiction.
Qed.
Lemma init_nodes_NoDup d : forall acc, NoDup (map fst acc) -> NoDup (map fst (init_nodes d acc)).
Proof.
  induction d as [|[[ty nm] c] d IH]; intros acc H; [exact H|]. cbn [init_nodes].
  destruct (str_eqb ty "tumor"); [apply IH, dict_set_NoDup, H|].
  destruct (str_eqb ty "lnl"); [apply IH, dict_set_NoDup, H|]. apply IH, H.
Qed.
Lemma keyed_values_names nodes : NoDup (map fst nodes) -> keyed_by_name nodes -> map n_name (map snd nodes) = map fst nodes.
Proof.
  intros Hnd Hk. rewrite map_map. apply map_ext_in. intros [k n] Hin. cbn [fst snd].
  apply Hk. apply dict_get_In; assumption.
Qed.

Lemma build_graph_nodes base d g : build_graph base d = inr g -> NoDup (map n_name (g_nodes g)).
Proof.
  unfold build_graph. destruct (check_unique_names d); [discriminate|]. cbv zeta.
  destruct (Nat.eqb _ 0); [discriminate|]. destruct (Nat.eqb _ 0); [discriminate|].
  destruct (init_edges _ _ _ _); [discriminate|]. intros H. inversion H; subst g. clear H. cbn [g_nodes].
  assert (Hnd : NoDup (map fst (init_nodes d []))) by (apply init_nodes_NoDup; constructor).
  rewrite keyed_values_names; [exact Hnd | exact Hnd | apply init_nodes_keyed, keyed_nil].
Qed.
Lemma NoDup_names_keys (ns : list node) : NoDup (map n_name ns) -> NoDup (map node_key ns).
Proof.
  induction ns as [|n ns IH]; cbn [map]; intros H; [constructor|].
  apply NoDup_cons_iff in H. destruct H as [Hn H]. constructor; [|apply IH; exact H].
  intros Hin. apply Hn. apply in_map_iff in Hin. destruct Hin as [m [Hm Hin]].
  apply in_map_iff. exists m. split; [|exact Hin]. unfold node_key in Hm. inversion Hm. reflexivity.
Qed.

(** * Representation.to_dict *)
(** dicts whose keys are pairs of strings *)
Definition key_eqb (a b : string * string) : bool := str_eqb (fst a) (fst b) && str_eqb (snd a) (snd b).
Fixpoint kdict_set {V} (k : string * string) (v : V) (d : list ((string * string) * V)) : list ((string * string) * V) :=
  match d with
  | [] => [(k, v)]
  | (k', v') :: r => if key_eqb k k' then (k, v) :: r else (k', v') :: kdict_set k v r
  end.
Lemma key_eqb_eq a b : key_eqb a b = true <-> a = b.
Proof.
  destruct a as [a1 a2], b as [b1 b2]. unfold key_eqb. cbn [fst snd]. rewrite andb_true_iff, !seqb_eq.
  split; [intros [-> ->]; reflexivity | intros H; inversion H; auto].
Qed.
Lemma kdict_set_fresh {V} k (v : V) acc : ~ In k (map fst acc) -> kdict_set k v acc = acc ++ [(k, v)].
Proof.
  induction acc as [|[k' v'] acc IH]; cbn [kdict_set map fst In app]; intros H; [reflexivity|].
  destruct (key_eqb k k') eqn:E.
  - apply key_eqb_eq in E. exfalso. apply H. left. symmetry. exact E.
  - rewrite IH; [reflexivity|]. intros Hin. apply H. right. exact Hin.
Qed.

(** node.out *)
Definition py_out (edges : list edge) (node : node) : list edge :=
  filter (fun e => str_eqb (e_parent e) (n_name node)) edges.

Definition np_to_dict (g : graph) : list ((string * string) * list string) :=
  let res := ([] : list ((string * string) * list string)) in
  let res :=
    fold_left (fun (res : list ((string * string) * list string)) (node : node) =>
        let node_type := if n_tumor node then "tumor" else "lnl" in
        let res := kdict_set (node_type, n_name node)
                     (map (fun o => e_child o) (filter (fun o => negb (is_growth o)) (py_out (g_edges g) node))) res in
        res) (g_nodes g) res in
  res.

Lemma filter_filter {A} (p q : A -> bool) l : filter q (filter p l) = filter (fun x => p x && q x) l.
Proof.
  induction l as [|a l IH]; cbn [filter]; [reflexivity|].
  destruct (p a); cbn [filter andb]; [destruct (q a)|]; rewrite IH; reflexivity.
Qed.

Lemma np_to_dict_loop (F : node -> list string) ns : forall acc,
  NoDup (map fst acc ++ map node_key ns) ->
  fold_left (fun (res : list ((string * string) * list string)) (node : node) =>
               kdict_set (if n_tumor node then "tumor" else "lnl", n_name node) (F node) res) ns acc
  = acc ++ map (fun n => ((if n_tumor n then "tumor" else "lnl", n_name n), F n)) ns.
Proof.
  induction ns as [|n ns IH]; intros acc H; cbn [fold_left map]; [rewrite app_nil_r; reflexivity|].
  cbn [map] in H. rewrite kdict_set_fresh.
  - rewrite IH; [rewrite <- app_assoc; reflexivity|]. rewrite map_app. cbn [map fst]. rewrite <- app_assoc. exact H.
  - intros Hin. apply (NoDup_app_disj _ _ _ H Hin). left. reflexivity.
Qed.

Lemma np_to_dict_eq g : NoDup (map node_key (g_nodes g)) -> np_to_dict g = to_dict g.
Proof.
  intros H. unfold np_to_dict, to_dict. cbv zeta.
  rewrite (np_to_dict_loop (fun node => map (fun o => e_child o)
             (filter (fun o => negb (is_growth o)) (py_out (g_edges g) node)))) by exact H.
  cbn [app]. apply map_ext. intros n. f_equal. unfold out_children, py_out. rewrite filter_filter. reflexivity.
Qed.
Lemma np_to_dict_built base d g : build_graph base d = inr g -> np_to_dict g = to_dict g.
Proof. intros H. apply np_to_dict_eq, NoDup_names_keys, (build_graph_nodes base d), H. Qed.

(** * The Representation object of a model graph: [self.nodes], [self.edges] *)
Definition nodes_dict (g : graph) : list (string * node) := map (fun n => (n_name n, n)) (g_nodes g).
Definition edges_dict (g : graph) : list (string * edge) := map (fun e => (e_name e, e)) (g_edges g).

Lemma filter_map_pairs {A} (key : A -> string) (p : A -> bool) (q : string * A -> bool) l :
  (forall a, q (key a, a) = p a) ->
  filter q (map (fun a => (key a, a)) l) = map (fun a => (key a, a)) (filter p l).
Proof.
  intros H. induction l as [|a l IH]; cbn [map filter]; [reflexivity|].
  rewrite H. destruct (p a); cbn [map]; rewrite IH; reflexivity.
Qed.

(** * Representation._gen_state_list / state_list *)
(** itertools.product( *lists): the last position varies fastest *)
Fixpoint py_product {A} (ls : list (list A)) : list (list A) :=
  match ls with
  | [] => [[]]
  | l :: r => flat_map (fun d => map (cons d) (py_product r)) l
  end.

(** the new value of [self._state_list]; [lnl.allowed_states] is [seq 0 base] for every LNL *)
Definition np_gen_state_list (self : graph) : list state :=
  let allowed_states_list := ([] : list (list nat)) in
  let allowed_states_list :=
    fold_left (fun (allowed_states_list : list (list nat)) (lnl : node) =>
        let allowed_states_list := allowed_states_list ++ [seq 0 (g_base self)] in
        allowed_states_list) (map snd (np_lnls (nodes_dict self))) allowed_states_list in
  py_product allowed_states_list.

Lemma fold_append_const {A B} (c : B) (l : list A) : forall acc,
  fold_left (fun (acc : list B) (_ : A) => acc ++ [c]) l acc = acc ++ repeat c (length l).
Proof.
  induction l as [|a l IH]; intros acc; cbn [fold_left length repeat]; [rewrite app_nil_r; reflexivity|].
  rewrite IH, <- app_assoc. reflexivity.
Qed.
Lemma py_product_repeat b n : py_product (repeat (seq 0 b) n) = all_states b n.
Proof. induction n as [|n IH]; cbn [repeat py_product all_states]; [reflexivity|]. rewrite IH. reflexivity. Qed.

Lemma np_gen_state_list_eq g : np_gen_state_list g = state_list g.
Proof.
  unfold np_gen_state_list, state_list, nlnls, lnls. cbv zeta.
  rewrite fold_append_const. cbn [app]. rewrite py_product_repeat. f_equal.
  rewrite !map_length. unfold np_lnls, nodes_dict.
  rewrite (filter_map_pairs n_name (fun n => negb (n_tumor n))) by reflexivity. rewrite map_length. reflexivity.
Qed.

(** the property state_list: [self._state_list] is an attribute that may be unset (AttributeError): an [option];
    the result is the new value of the attribute and the returned value *)
Definition np_state_list (self : graph) (cache : option (list state)) : option (list state) * list state :=
  match cache with
  | Some state_list => (Some state_list, state_list)
  | None =>
      let state_list := np_gen_state_list self in
      (Some state_list, state_list)
  end.
Lemma np_state_list_eq g cache : cache = None \/ cache = Some (state_list g) ->
  np_state_list g cache = (Some (state_list g), state_list g).
Proof. intros [->| ->]; cbn [np_state_list]; [rewrite np_gen_state_list_eq|]; reflexivity. Qed.

(** * Representation.tumor_edges / lnl_edges / growth_edges (dict comprehensions over [self.edges.items()]) *)
Definition np_tumor_edges (edges : list (string * edge)) : list (string * edge) :=
  filter (fun '((n, e) : string * edge) => is_tumor_spread e) edges.
Definition np_lnl_edges (edges : list (string * edge)) : list (string * edge) :=
  filter (fun '((n, e) : string * edge) => negb (is_tumor_spread e)) edges.
Definition np_growth_edges (edges : list (string * edge)) : list (string * edge) :=
  filter (fun '((n, e) : string * edge) => is_growth e) edges.

Lemma np_tumor_edges_eq g : np_tumor_edges (edges_dict g) = map (fun e => (e_name e, e)) (tumor_edges g).
Proof. apply filter_map_pairs. reflexivity. Qed.
Lemma np_lnl_edges_eq g : np_lnl_edges (edges_dict g) = map (fun e => (e_name e, e)) (lnl_edges g).
Proof. apply (filter_map_pairs e_name (fun e => negb (is_tumor_spread e))). reflexivity. Qed.
Lemma np_growth_edges_eq g : np_growth_edges (edges_dict g) = map (fun e => (e_name e, e)) (growth_edges g).
Proof. apply filter_map_pairs. reflexivity. Qed.
Lemma np_tumors_graph g : map snd (np_tumors (nodes_dict g)) = filter n_tumor (g_nodes g).
Proof. unfold np_tumors, nodes_dict. rewrite (filter_map_pairs n_name n_tumor) by reflexivity. rewrite map_map. apply map_id. Qed.
Lemma np_lnls_graph g : map snd (np_lnls (nodes_dict g)) = filter (fun n => negb (n_tumor n)) (g_nodes g).
Proof.
  unfold np_lnls, nodes_dict. rewrite (filter_map_pairs n_name (fun n => negb (n_tumor n))) by reflexivity.
  rewrite map_map. apply map_id.
Qed.

(** * Edge.get_name on the edges of a built graph: the key under which the edge is stored *)
Definition edge_named (e : edge) : Prop := np_get_name e "to" = e_name e.

Lemma dict_set_In {V} k (v : V) d kv : In kv (dict_set k v d) -> kv = (k, v) \/ In kv d.
Proof.
  induction d as [|[k0 v0] d IH]; cbn [dict_set In]; [intros [H|[]]; left; symmetry; exact H|].
  destruct (str_eqb k k0); cbn [In].
  - intros [H|H]; [left; symmetry; exact H|right; right; exact H].
  - intros [H|H]; [right; left; exact H|]. destruct (IH H) as [H'|H']; [left; exact H'|right; right; exact H'].
Qed.
Definition dict_named (es : list (string * edge)) : Prop :=
  forall kv, In kv es -> fst kv = e_name (snd kv) /\ edge_named (snd kv).
Lemma dict_named_set e es : edge_named e -> dict_named es -> dict_named (dict_set (e_name e) e es).
Proof. intros He H kv Hin. apply dict_set_In in Hin. destruct Hin as [->|Hin]; [split; [reflexivity|exact He]|apply H, Hin]. Qed.
Lemma init_conn_edges_named tri nodes start ends : forall acc es,
  init_conn_edges tri nodes start ends acc = inr es -> dict_named acc -> dict_named es.
Proof.
  induction ends as [|en ends IH]; intros acc es H Ha; cbn [init_conn_edges] in H; [inversion H; subst; exact Ha|].
  destruct (dict_get en nodes) as [c|]; [|discriminate]. destruct (n_tumor c); [discriminate|].
  apply (IH _ _ H). apply dict_named_set; [apply mk_edge_name|exact Ha].
Qed.
Lemma init_edges_named tri nodes d : forall acc es,
  init_edges tri nodes d acc = inr es -> dict_named acc -> dict_named es.
Proof.
  induction d as [|[[ty nm] c] d IH]; intros acc es H Ha; cbn [init_edges] in H; [inversion H; subst; exact Ha|].
  destruct (dict_get nm nodes) as [s|]; [|discriminate].
  match type of H with match ?X with _ => _ end = _ => destruct X as [err|acc2] eqn:Ec; [discriminate|] end.
  apply (IH _ _ H). apply (init_conn_edges_named _ _ _ _ _ _ Ec).
  destruct (negb (n_tumor s) && tri); [|exact Ha]. apply dict_named_set; [apply mk_growth_name|exact Ha].
Qed.

Lemma np_get_name_built base d g : build_graph base d = inr g ->
  forall e, In e (g_edges g) -> np_get_name e "to" = e_name e.
Proof.
  unfold build_graph. destruct (check_unique_names d); [discriminate|]. cbv zeta.
  destruct (Nat.eqb _ 0); [discriminate|]. destruct (Nat.eqb _ 0); [discriminate|].
  destruct (init_edges _ _ _ _) as [err|es] eqn:Ee; [discriminate|]. intros H. inversion H; subst g. clear H. cbn [g_edges].
  intros e Hin. apply in_map_iff in Hin. destruct Hin as [kv [<- Hin]].
  apply (init_edges_named _ _ _ _ _ Ee); [intros x []|exact Hin].
Qed.
(** ... and [graph.edges] is the dict [edges_dict g] (every edge is stored under its name) *)
Lemma edges_dict_built base d g : build_graph base d = inr g ->
  exists es, init_edges (Nat.eqb base 3) (init_nodes d []) d [] = inr es /\ g_edges g = map snd es /\ edges_dict g = es.
Proof.
  unfold build_graph. destruct (check_unique_names d); [discriminate|]. cbv zeta.
  destruct (Nat.eqb _ 0); [discriminate|]. destruct (Nat.eqb _ 0); [discriminate|].
  destruct (init_edges _ _ _ _) as [err|es] eqn:Ee; [discriminate|]. intros H. inversion H; subst g. clear H.
  exists es. split; [reflexivity|]. split; [reflexivity|]. unfold edges_dict. cbn [g_edges].
  rewrite map_map. rewrite <- (map_id es) at 2. apply map_ext_in. intros [k e] Hin.
  destruct (init_edges_named _ _ _ _ _ Ee (fun x (F : In x []) => match F with end) _ Hin) as [Hk _].
  cbn [fst snd] in *. rewrite <- Hk. reflexivity.
Qed.

(** * Node states: AbstractNode.state, Representation.get_state / set_state *)
(** Graph.v keeps no node states (a hidden state is a digit list aligned with [lnls g]); here the mutable [_state]
    attributes of the node objects of one graph are a heap keyed by node name (an LNL is created in state 0), a
    function that assigns states returns [state_err + node_states], and the theorems below say what the assumption
    "after [set_state( *x)] the state of the i-th LNL is [digit i x]" of the other translator parts relies on. *)
Definition node_states := list (string * nat).
Inductive state_err := SEValue (* ValueError: not one of the allowed states *) | SEKey (* KeyError: no such node *).
(** node.state (the getter returns [self._state]) *)
Definition py_state (states : node_states) (node : node) : nat :=
  match dict_get (n_name node) states with Some s => s | None => 0 end.
(** x in l on ints *)
Definition nat_mem (x : nat) (l : list nat) : bool := existsb (Nat.eqb x) l.

(** the setter of AbstractNode.state on an LNL ([self.allowed_states] = [seq 0 base]; [int(new_state)] is the identity on
    an int):  new_state = int(new_state); if new_state not in self.allowed_states: raise ValueError; self._state = new_state *)
Definition np_node_set_state (base : nat) (states : node_states) (self : node) (new_state : nat) : state_err + node_states :=
  let new_state := new_state in
  if negb (nat_mem new_state (seq 0 base)) then inl SEValue
  else
    let states := dict_set (n_name self) new_state states in
    inr states.

Definition np_get_state (self : graph) (states : node_states) (as_dict : bool) : list (string * nat) + list nat :=
  let result := ([] : list (string * nat)) in
  let result :=
    fold_left (fun (result : list (string * nat)) (lnl : node) =>
        let result := dict_set (n_name lnl) (py_state states lnl) result in
        result) (map snd (np_lnls (nodes_dict self))) result in
  if as_dict then inl result else inr (map snd result).

Definition np_set_state (self : graph) (states : node_states) (new_states_args : list nat)
    (new_states_kwargs : list (string * nat)) : state_err + node_states :=
  match py_for (fun '((new_lnl_state, lnl) : nat * node) (states : node_states) =>
          match np_node_set_state (g_base self) states lnl new_lnl_state with
          | inl e => inl e
          | inr states => inr states
          end) (combine new_states_args (map snd (np_lnls (nodes_dict self)))) states with
  | inl e => inl e
  | inr states =>
      match py_for (fun '((key, value) : string * nat) (states : node_states) =>
              match dict_get key (nodes_dict self) with
              | None => inl SEKey
              | Some lnl =>
                  if true && negb (n_tumor lnl) then
                    match np_node_set_state (g_base self) states lnl value with
                    | inl e => inl e
                    | inr states => inr states
                    end
                  else inr states
              end) new_states_kwargs states with
      | inl e => inl e
      | inr states => inr states
      end
  end.

Lemma nat_mem_seq v b : nat_mem v (seq 0 b) = Nat.ltb v b.
Proof.
  unfold nat_mem. destruct (Nat.ltb v b) eqn:E.
  - apply Nat.ltb_lt in E. apply existsb_exists. exists v. split; [apply in_seq; lia|apply Nat.eqb_refl].
  - apply Nat.ltb_ge in E. destruct (existsb (Nat.eqb v) (seq 0 b)) eqn:Ex; [|reflexivity].
    apply existsb_exists in Ex. destruct Ex as [y [Hy Hv]]. apply Nat.eqb_eq in Hv. subst y. apply in_seq in Hy. lia.
Qed.
Lemma np_node_set_state_ok base st n v : v < base -> np_node_set_state base st n v = inr (dict_set (n_name n) v st).
Proof. intros H. unfold np_node_set_state. cbv zeta. rewrite nat_mem_seq. apply Nat.ltb_lt in H. rewrite H. reflexivity. Qed.
Lemma np_node_set_state_bad base st n v : base <= v -> np_node_set_state base st n v = inl SEValue.
Proof. intros H. unfold np_node_set_state. cbv zeta. rewrite nat_mem_seq. apply Nat.ltb_ge in H. rewrite H. reflexivity. Qed.

(** the LNL objects of a graph, in order *)
Definition lnl_nodes (g : graph) : list node := filter (fun n => negb (n_tumor n)) (g_nodes g).
Lemma lnl_nodes_names g : map n_name (lnl_nodes g) = lnls g.
Proof. reflexivity. Qed.

(** assigning [vs] to the nodes [ns] one after the other *)
Definition assign_all (st : node_states) (vns : list (nat * node)) : node_states :=
  fold_left (fun st '((v, n) : nat * node) => dict_set (n_name n) v st) vns st.

Lemma set_positional_loop base vns : Forall (fun vn => fst vn < base) vns -> forall st,
  py_for (fun '((new_lnl_state, lnl) : nat * node) (states : node_states) =>
          match np_node_set_state base states lnl new_lnl_state with
          | inl e => inl e
          | inr states => inr states
          end) vns st = inr (assign_all st vns).
Proof.
  induction 1 as [|[v n] vns Hv _ IH]; intros st; [reflexivity|]. cbn [py_for assign_all fold_left fst] in *.
  rewrite np_node_set_state_ok by exact Hv. apply IH.
Qed.

Lemma assign_all_other k vns : ~ In k (map (fun vn => n_name (snd vn)) vns) -> forall st,
  dict_get k (assign_all st vns) = dict_get k st.
Proof.
  induction vns as [|[v n] vns IH]; intros Hk st; [reflexivity|]. cbn [assign_all fold_left map snd In] in *.
  fold (assign_all (dict_set (n_name n) v st) vns). rewrite IH by tauto. rewrite dict_get_set.
  destruct (str_eqb k (n_name n)) eqn:E; [|reflexivity]. apply seqb_eq in E. exfalso. apply Hk. left. symmetry. exact E.
Qed.
Lemma assign_all_nth vns : NoDup (map (fun vn => n_name (snd vn)) vns) -> forall st i d, i < length vns ->
  dict_get (n_name (snd (nth i vns d))) (assign_all st vns) = Some (fst (nth i vns d)).
Proof.
  induction vns as [|[v n] vns IH]; intros Hnd st i d Hi; [cbn [length] in Hi; lia|].
  cbn [map snd] in Hnd. apply NoDup_cons_iff in Hnd. destruct Hnd as [Hn Hnd].
  cbn [assign_all fold_left]. fold (assign_all (dict_set (n_name n) v st) vns). destruct i as [|i]; cbn [nth fst snd].
  - rewrite assign_all_other by exact Hn. rewrite dict_get_set, seqb_refl. reflexivity.
  - apply IH; [exact Hnd|cbn [length] in Hi; lia].
Qed.

Lemma combine_names {A} (vs : list A) (ns : list node) : length vs = length ns ->
  map (fun vn => n_name (snd vn)) (combine vs ns) = map n_name ns.
Proof.
  revert ns. induction vs as [|v vs IH]; intros [|n ns] H; try discriminate H; [reflexivity|].
  cbn [combine map snd]. rewrite IH by (cbn [length] in H; lia). reflexivity.
Qed.

Lemma get_state_loop st ns : forall acc, NoDup (map fst acc ++ map n_name ns) ->
  fold_left (fun (result : list (string * nat)) (lnl : node) => dict_set (n_name lnl) (py_state st lnl) result) ns acc
  = acc ++ map (fun n => (n_name n, py_state st n)) ns.
Proof.
  induction ns as [|n ns IH]; intros acc H; cbn [fold_left map]; [rewrite app_nil_r; reflexivity|].
  cbn [map] in H. rewrite dict_set_fresh.
  - rewrite IH; [rewrite <- app_assoc; reflexivity|]. rewrite map_app. cbn [map fst]. rewrite <- app_assoc. exact H.
  - intros Hin. apply (NoDup_app_disj _ _ _ H Hin). left. reflexivity.
Qed.

(** get_state: the states of the LNLs in the order of [lnls g] (as a list, or as a dict name -> state) *)
Lemma np_get_state_eq g st as_dict : NoDup (lnls g) ->
  np_get_state g st as_dict
  = if as_dict then inl (map (fun n => (n_name n, py_state st n)) (lnl_nodes g)) else inr (map (py_state st) (lnl_nodes g)).
Proof.
  intros Hnd. unfold np_get_state. cbv zeta. rewrite np_lnls_graph. fold (lnl_nodes g).
  rewrite get_state_loop by (cbn [map app]; rewrite lnl_nodes_names; exact Hnd). cbn [app].
  destruct as_dict; [reflexivity|]. rewrite map_map. reflexivity.
Qed.

Lemma nth_combine {A B} (l1 : list A) (l2 : list B) i d1 d2 : length l1 = length l2 ->
  nth i (combine l1 l2) (d1, d2) = (nth i l1 d1, nth i l2 d2).
Proof.
  revert l2 i. induction l1 as [|a l1 IH]; intros [|b l2] [|i] H; try discriminate H; try reflexivity.
  cbn [combine nth]. apply IH. cbn [length] in H. lia.
Qed.

(** set_state( *x) with one allowed state per LNL: afterwards the i-th LNL is in state [digit i x], get_state() gives [x]
    back, and no other node state changed *)
Lemma np_set_state_positional g st x : NoDup (lnls g) -> length x = nlnls g -> Forall (fun v => v < g_base g) x ->
  exists st', np_set_state g st x [] = inr st' /\
    (forall i, i < nlnls g -> py_state st' (nth i (lnl_nodes g) {| n_tumor := false; n_name := "" |}) = digit i x) /\
    np_get_state g st' false = inr x /\
    (forall k, ~ In k (lnls g) -> dict_get k st' = dict_get k st).
Proof.
  intros Hnd Hl Hx. unfold nlnls in Hl. rewrite <- lnl_nodes_names, map_length in Hl.
  set (vns := combine x (lnl_nodes g)).
  assert (Hv : Forall (fun vn : nat * node => fst vn < g_base g) vns).
  { apply Forall_forall. intros [v n] Hin. apply in_combine_l in Hin. cbn [fst]. rewrite Forall_forall in Hx. apply Hx, Hin. }
  assert (Hnames : map (fun vn : nat * node => n_name (snd vn)) vns = lnls g).
  { unfold vns. rewrite combine_names by exact Hl. apply lnl_nodes_names. }
  exists (assign_all st vns).
  assert (Hdig : forall i, i < nlnls g ->
            py_state (assign_all st vns) (nth i (lnl_nodes g) {| n_tumor := false; n_name := "" |}) = digit i x).
  { intros i Hi. unfold nlnls in Hi. rewrite <- lnl_nodes_names, map_length in Hi. unfold py_state.
    pose proof (assign_all_nth vns) as H. rewrite Hnames in H.
    assert (Hlen : i < length vns) by (unfold vns; rewrite combine_length, Hl; lia).
    specialize (H Hnd st i (0, {| n_tumor := false; n_name := "" |}) Hlen).
    replace (nth i vns (0, {| n_tumor := false; n_name := "" |}))
      with (nth i x 0, nth i (lnl_nodes g) {| n_tumor := false; n_name := "" |}) in H
      by (symmetry; apply nth_combine; exact Hl).
    cbn [fst snd] in H. rewrite H. reflexivity. }
  split; [|split; [exact Hdig|split]].
  - unfold np_set_state. rewrite np_lnls_graph. fold (lnl_nodes g). fold vns.
    rewrite (set_positional_loop (g_base g) vns Hv). reflexivity.
  - rewrite np_get_state_eq by exact Hnd. f_equal.
    apply (nth_ext _ _ 0 0); [rewrite map_length; symmetry; exact Hl|].
    intros i Hi. rewrite map_length in Hi.
    rewrite (nth_indep _ 0 (py_state (assign_all st vns) {| n_tumor := false; n_name := "" |})) by (rewrite map_length; exact Hi).
    rewrite map_nth. apply Hdig. unfold nlnls. rewrite <- lnl_nodes_names, map_length. exact Hi.
  - intros k Hk. apply assign_all_other. rewrite Hnames. exact Hk.
Qed.

(** a state outside the allowed ones is rejected (ValueError) at the first LNL that gets one *)
Lemma np_set_state_rejects g st x1 v x2 : length x1 < nlnls g -> Forall (fun v => v < g_base g) x1 -> g_base g <= v ->
  np_set_state g st (x1 ++ v :: x2) [] = inl SEValue.
Proof.
  intros Hl Hx Hv. unfold np_set_state. rewrite np_lnls_graph. fold (lnl_nodes g).
  unfold nlnls in Hl. rewrite <- lnl_nodes_names, map_length in Hl.
  assert (E : forall ns st, length x1 < length ns ->
            py_for (fun '((new_lnl_state, lnl) : nat * node) (states : node_states) =>
              match np_node_set_state (g_base g) states lnl new_lnl_state with
              | inl e => inl e
              | inr states => inr states
              end) (combine (x1 ++ v :: x2) ns) st = inl SEValue).
  { clear Hl st. induction Hx as [|a x1 Ha _ IH]; intros [|n ns] st Hlen; cbn [length] in Hlen; try lia.
    - cbn [app combine py_for]. rewrite np_node_set_state_bad by exact Hv. reflexivity.
    - cbn [app combine py_for]. rewrite np_node_set_state_ok by exact Ha. apply IH. lia. }
  rewrite E by exact Hl. reflexivity.
Qed.

(** keyword form: one LNL by name (the names of the nodes are pairwise distinct) *)
Lemma dict_get_nodes_dict g n : NoDup (map n_name (g_nodes g)) -> In n (g_nodes g) -> dict_get (n_name n) (nodes_dict g) = Some n.
Proof.
  intros Hnd Hin. apply dict_get_In.
  - unfold nodes_dict. rewrite map_map. cbn [fst]. exact Hnd.
  - unfold nodes_dict. apply in_map_iff. exists n. split; [reflexivity|exact Hin].
Qed.
Lemma np_set_state_keyword g st n v : NoDup (map n_name (g_nodes g)) -> In n (g_nodes g) -> v < g_base g ->
  np_set_state g st [] [(n_name n, v)] = inr (if n_tumor n then st else dict_set (n_name n) v st).
Proof.
  intros Hnd Hin Hv. unfold np_set_state. cbn [combine py_for]. rewrite (dict_get_nodes_dict g n Hnd Hin).
  destruct (n_tumor n); cbn [negb andb]; [reflexivity|]. rewrite np_node_set_state_ok by exact Hv. reflexivity.
Qed.
Lemma np_set_state_unknown g st k v : ~ In k (map n_name (g_nodes g)) -> np_set_state g st [] [(k, v)] = inl SEKey.
Proof.
  intros Hk. unfold np_set_state. cbn [combine py_for].
  destruct (dict_get k (nodes_dict g)) as [n|] eqn:E; [|reflexivity].
  exfalso. apply Hk. apply dict_get_Some_In in E. unfold nodes_dict in E. apply in_map_iff in E.
  destruct E as [m [Hm Hin]]. inversion Hm; subst. apply in_map. exact Hin.
Qed.
