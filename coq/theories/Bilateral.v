(** Bilateral: numerical core of [models.Bilateral] — joint prior over
    (ipsilateral, contralateral) states (HMM and BN), obs_dist, per-patient
    likelihoods through [matrix.fast_trace], posterior, marginalize, risk — and its
    Spec.  Executable definitions only. *)
From LymphModel Require Import Base States Linalg Graph Transition Observation Dist Unilateral Models.
Local Open Scope nat_scope.
Open Scope Qc_scope.

(** one row of a bilateral table: mapped T-stage, findings per side *)
Record bpatient := { bp_t : string; bp_ipsi : diagnosis; bp_contra : diagnosis }.
Definition ipsi_patient (p : bpatient) : patient := {| p_tstage := bp_t p; p_find := bp_ipsi p |}.
Definition contra_patient (p : bpatient) : patient := {| p_tstage := bp_t p; p_find := bp_contra p |}.

Definition nstates (u : uni) : nat := Nat.pow (u_base u) (u_n u).

(** ipsi_evo.T @ diag(pmf) @ contra_evo *)
Definition joint_of_evos (ni : nat) (ie : list vec) (pm : vec) (ce : list vec) : mat :=
  matmul (matmul (transpose_w ni ie) (diag pm)) ce.

(** Bilateral.state_dist(t_stage, mode) *)
Definition bi_state_dist (b : bilateral) (t : string) (hmm : bool) : res mat :=
  if hmm then
    bind (get_pmf (b_ipsi b) t) (fun pm =>
      inr (joint_of_evos (nstates (b_ipsi b)) (state_dist_evo (b_ipsi b)) pm (state_dist_evo (b_contra b))))
  else
    bind (state_dist_bn (u_graph (b_ipsi b))) (fun si =>
    bind (state_dist_bn (u_graph (b_contra b))) (fun sc => inr (outer si sc))).

(** Bilateral.obs_dist(given_state_dist) = ipsi.O.T @ sd @ contra.O *)
Definition bi_obs_dist_of (b : bilateral) (sd : mat) : mat :=
  let Oi := observation_matrix (b_ipsi b) in
  let Oc := observation_matrix (b_contra b) in
  matmul (matmul (transpose_w (Nat.pow 2 (length (u_mods (b_ipsi b)) * u_n (b_ipsi b))) Oi) sd) Oc.

(** fast_trace(ipsi.diagnosis_matrix(t), joint @ contra.diagnosis_matrix(t).T) *)
Definition bi_llhs_of_joint (b : bilateral) (data : list bpatient) (t : option string) (joint : mat) : res vec :=
  bind (diagnosis_matrix (b_ipsi b) (map ipsi_patient data) t) (fun DMi =>
  bind (diagnosis_matrix (b_contra b) (map contra_patient data) t) (fun DMc =>
    inr (fast_trace DMi (matmul joint (transpose_w (nstates (b_contra b)) DMc))))).

Definition bi_patient_likelihoods (b : bilateral) (data : list bpatient) (t : string) (hmm : bool) : res vec :=
  bind (bi_state_dist b t hmm) (fun joint => bi_llhs_of_joint b data (Some t) joint).

(** _hmm_likelihood: all T-stages with a distribution (or the given one) *)
Definition bi_t_stages (b : bilateral) : list string := map fst (u_dists (b_ipsi b)).
Definition bi_hmm_likelihood_factors (b : bilateral) (data : list bpatient) (t : option string) : res vec :=
  let stages := match t with None => bi_t_stages b | Some ts => [ts] end in
  bind (sequence (map (fun ts => bi_patient_likelihoods b data ts true) stages)) (fun ls => inr (concat ls)).
Definition bi_bn_likelihood_factors (b : bilateral) (data : list bpatient) (t : option string) : res vec :=
  bind (bi_state_dist b "" false) (fun joint => bi_llhs_of_joint b data t joint).

(** posterior_state_dist(given_state_dist, given_diagnosis = {ipsi: .., contra: ..}) *)
Definition bi_posterior_of (b : bilateral) (prior : mat) (di dc : diagnosis) : res (option mat) :=
  bind (diagnosis_encoding (b_ipsi b) di) (fun ei =>
  bind (diagnosis_encoding (b_contra b) dc) (fun ec =>
    let gi := matvec (observation_matrix (b_ipsi b)) (map b2q ei) in
    let gc := matvec (observation_matrix (b_contra b)) (map b2q ec) in
    let joint := hadamard (outer gi gc) prior in
    let z := sumQ (map sumQ joint) in
    if Qc_eqb z 0 then inr None else inr (Some (map (map (fun a => a / z)) joint)))).
(** marginalize(involvement = {ipsi: .., contra: ..}, given_state_dist) *)
Definition bi_marginalize_of (b : bilateral) (ii ic : pattern) (sd : mat) : res Qc :=
  match compute_encoding (u_lnls (b_ipsi b)) ii (u_base (b_ipsi b)),
        compute_encoding (u_lnls (b_contra b)) ic (u_base (b_ipsi b)) with
  | Some ei, Some ec => inr (dot (vecmat_w (length ec) (map b2q ei) sd) (map b2q ec))
  | _, _ => inl MValue
  end.
Definition bi_risk (b : bilateral) (ii ic : pattern) (di dc : diagnosis) (t : string) (hmm : bool) : res (option Qc) :=
  bind (bi_state_dist b t hmm) (fun prior =>
  bind (bi_posterior_of b prior di dc) (fun po =>
    match po with
    | None => inr None
    | Some post => bind (bi_marginalize_of b ii ic post) (fun r => inr (Some r))
    end)).

(** * Spec *)
(** joint prior: sum_t pmf(t) P_ipsi(xi | t) P_contra(xc | t) *)
Definition bi_joint_spec (b : bilateral) (pm : vec) (xi xc : state) : Qc :=
  sumQ (map (fun '(t, w) => w * evo_spec (u_graph (b_ipsi b)) t xi * evo_spec (u_graph (b_contra b)) t xc)
            (combine (seq 0 (S (u_maxt (b_ipsi b)))) pm)).
Definition bi_patient_lik_spec (b : bilateral) (joint : state -> state -> Qc) (p : bpatient) : Qc :=
  sumQ (map (fun xi => sumQ (map (fun xc =>
      joint xi xc * findings_prob (b_ipsi b) (ipsi_patient p) xi * findings_prob (b_contra b) (contra_patient p) xc)
      (u_states (b_contra b)))) (u_states (b_ipsi b))).
