(** NamedMidlineGlobal: the named-parameter theorems of C17 / C12 for models.Midline with
    GLOBAL and PARTIALLY GLOBAL declared names ("spread", "TtoII_spread", "contra_spread",
    "ipsi_TtoII_spread", "mixing", "p", ...), i.e. the Midline analogue of what
    NamedProofs.v proves for Unilateral / Bilateral models under [names_consistent].

    Route (as for Bilateral):
    - [mid_cands ml K]: the keywords [Midline.set_params] looks up for the reported
      parameter K, in order of priority (the Midline analogue of [b_cands]);
    - [mid_kw_sem]: COMPLETE description of a keyword-only [m_set_params] that returns:
      every reported parameter receives the value of the first passed keyword among
      [mid_cands ml K], or keeps its value (from the chain inversion lemmas
      [m_chain_inv_mix] / [m_chain_inv_nomix] of ParamsMidline.v);
    - the class-independent part of NamedProofs.v redone for an arbitrary candidate function
      ([Section Generic]);
    - the Midline-specific domain restriction, as boolean predicates computed on the object:
      [mid_names_consistent] (alias map and [set_params] agree on what a declared name
      addresses) and [mid_prio_ok] (among the declared keywords of one parameter the
      priority of [set_params] follows the number of "_").  Both are needed: see the
      [_refuted] theorems at the end of the file.
    New file; nothing existing is changed. *)
From LymphModel Require Import Base States Linalg Graph Transition Observation Dist Unilateral Models Params
  ParamsStatements ParamsLemmas ParamsProofs ParamsBilateral ParamsMidline ParamsMidlineMore
  Safe ParamsMidlineSafe Named NamedProofs NamedMidline NamedMidlineMore ParamsMidlineRest.
From LymphModel Require SafeProofs SafeMidline.
From Coq Require Import Lia.
Local Open Scope nat_scope.
Local Open Scope string_scope.
Local Open Scope list_scope.

(** * The keywords [Midline.set_params] looks up for a reported parameter *)
(** a spread-type parameter "P_arc_kind" (P = "ipsi" / "contra" / "noext_contra" /
    "ext_contra"): itself, "arc_kind", "P_kind", "kind" *)
Definition spread_cands (P : path) (n s : string) : list path := [P ++ [n; s]; [n; s]; P ++ [s]; [s]].
(** a distribution parameter "t_k" is read from ext.ipsi: the keyword travels through the
    children collection (as "ext") and the sides of the ext model (as "ipsi") *)
Definition dist_cands (t k : string) : list path :=
  [["ext"; "ipsi"; t; k]; ["ipsi"; t; k]; ["ext"; t; k]; [t; k]; ["ext"; "ipsi"; k]; ["ipsi"; k]; ["ext"; k]; [k]].
Definition mid_cands (m : midline) (K : path) : list path :=
  match K with
  | [a] => [[a]]                                                      (* "mixing" *)
  | [t; k] => if mem t (u_tstages (ml_ei m)) then dist_cands t k      (* "late_p" *)
              else if str_eqb t "midext" then [K]                     (* "midext_prob" *)
              else [[t; k]; [k]]                                      (* symmetric LNL spread "IItoIII_spread" *)
  | [p; n; s] => spread_cands [p] n s
  | [p1; p2; n; s] => spread_cands [p1; p2] n s
  | _ => []
  end.

(** no keyword of a parametric distribution is a routing word (otherwise the shorter
    keywords "ipsi_k", "k" of [dist_cands] are cut off by [unflatten_and_split]) *)
Definition mid_dist_kw_ok (m : midline) : bool := forallb (fun k => negb (mem k routing)) (dkw m).

(** the Midline analogue of [names_consistent] *)
Definition mid_names_consistent (m : midline) (names named : list path) : bool :=
  forallb (fun n => forallb (fun k => Bool.eqb (does_contain_in_order k n) (memp n (mid_cands m k))) names) named.
(** [set_params] and [get_named_params] agree on "most specific": among the DECLARED
    keywords of one parameter, a keyword of higher priority has at least as many "_" *)
Fixpoint desc_lenb (l : list path) : bool :=
  match l with [] => true | a :: r => forallb (fun b => Nat.leb (length b) (length a)) r && desc_lenb r end.
Definition mid_prio_ok (m : midline) (names named : list path) : bool :=
  forallb (fun k => desc_lenb (filter (fun c => memp c named) (mid_cands m k))) names.

(** * Look-ups as [first_some] over the candidates *)
Lemma first_some_4 {A} (f : path -> option A) a b c d :
  first_some f [a; b; c; d] = match f a with Some v => Some v | None => match f b with Some v => Some v | None =>
                              match f c with Some v => Some v | None => f d end end end.
Proof. cbn [first_some]. destruct (f a), (f b), (f c), (f d); reflexivity. Qed.
Lemma first4_spread (kw : kwargs) P n s :
  first4 (kw_get (P ++ [n; s]) kw) (kw_get [n; s] kw) (kw_get (P ++ [s]) kw) (kw_get [s] kw)
  = first_some (fun c => kw_get c kw) (spread_cands P n s).
Proof. unfold spread_cands. rewrite first_some_4. reflexivity. Qed.
Lemma first4_glob (kw : kwargs) n s :
  first4 (kw_get [n; s] kw) (kw_get [n; s] kw) (kw_get [s] kw) (kw_get [s] kw) = first_some (fun c => kw_get c kw) [[n; s]; [s]].
Proof. unfold first4. cbn [first_some]. destruct (kw_get [n; s] kw), (kw_get [s] kw); reflexivity. Qed.

Section DistLk.
  Variable kw : kwargs.
  Hypothesis Hnd : NoDup (map fst kw).
  Let klg K : kw_last K kw = kw_get K kw := kw_last_get kw Hnd K.

  Lemma lk_dist_eq XDl dsplit dglob ikw ckw t k :
    In "ext" XDl -> (forall s, In s XDl -> In s ["ext"; "noext"; "central"; "unknown"]) ->
    unflatten_and_split kw XDl = (dsplit, dglob) -> side_kwargs (obj_kwargs "ext" dsplit dglob) = (ikw, ckw) ->
    ~ In t routing -> ~ In k routing ->
    u_lk ikw [t; k] = first_some (fun c => kw_get c kw) (dist_cands t k).
  Proof.
    intros Hext Hsub Hud Hsk Ht Hk.
    assert (HeD : ~ In "" XDl) by (intros H; apply Hsub in H; cbn in H; intuition discriminate).
    set (ekw := obj_kwargs "ext" dsplit dglob) in *.
    assert (Hend : NoDup (map fst ekw)) by (apply (obj_kwargs_NoDup kw XDl); exact Hud).
    assert (Hekw : forall K, kw_last K ekw = eff XDl kw "ext" K)
      by (intros K; rewrite kw_last_NoDup by exact Hend; apply (obj_kwargs_lookup kw XDl "ext" K dsplit dglob HeD Hud Hext)).
    assert (Hr : forall w, ~ In w routing -> mem w XDl = false /\ mem w sides = false).
    { intros w Hw. split; apply mem_false; intros Hin; apply Hw.
      - apply Hsub in Hin. unfold routing. cbn in Hin |- *. tauto.
      - unfold routing, sides in *. cbn in Hin |- *. tauto. }
    destruct (Hr t Ht) as [Ht1 Ht2]. destruct (Hr k Hk) as [Hk1 Hk2].
    assert (Hi : mem "ipsi" XDl = false).
    { apply mem_false. intros Hin. apply Hsub in Hin. cbn in Hin. intuition discriminate. }
    destruct (side_kwargs_lk ekw ikw ckw Hsk) as [Hlk _]. rewrite Hlk. unfold side_lk, eff. rewrite !Hekw. unfold eff, head_of.
    cbn [partition_key fst]. rewrite Ht1, Ht2, Hk1, Hk2, Hi, !klg. unfold dist_cands. cbn [first_some].
    repeat match goal with |- context [kw_get ?c kw] => destruct (kw_get c kw); try reflexivity end.
  Qed.
End DistLk.

(** * A block of parameters after a keyword-only step: the keyword's value, else the old one *)
Definition outcome (o : option val) (K : path) (old : Qc) (its' : list (path * Qc)) : Prop :=
  match o with Some v => exists q, v = V q /\ In (K, q) its' | None => In (K, old) its' end.
Lemma outcome_incl o K old X Y : outcome o K old X -> (forall x, In x X -> In x Y) -> outcome o K old Y.
Proof. unfold outcome. destruct o as [v|]; [intros (q & E & H) HXY; exists q; auto | auto]. Qed.
Lemma outcome_pre o p k old X : outcome o k old X -> outcome o (p ++ k) old (pre p X).
Proof. unfold outcome. destruct o as [v|]; [intros (q & E & H); exists q; split; [exact E|] |intros H]; apply in_pre_items, H. Qed.
Lemma pick_outcome o k old q X : V q = pick o None old -> In (k, q) X -> outcome o k old X.
Proof.
  unfold outcome, pick. destruct o as [v|]; intros Hv Hin.
  - exists q. split; [symmetry; exact Hv | exact Hin].
  - cbn in Hv. injection Hv as ->. exact Hin.
Qed.
Lemma block_outcome lk ps qs k old : all_unit (plan lk ps []) = Some qs -> In (k, old) ps ->
  outcome (lk k) k old (combine (map fst ps) qs).
Proof.
  intros Hq Hin. apply all_unit_Some_vals in Hq. destruct Hq as [Hp _].
  destruct (plan_nil_In lk ps qs k old Hp Hin) as (q & Hq & Hv). apply (pick_outcome _ _ _ q); assumption.
Qed.
Lemma dist_block_outcome maxt ds lk (ps : list (path * Qc)) dsi k old :
  dists_put maxt ds (plan lk ps []) = Some dsi -> length ps = length (dists_items ds) -> map fst ps = map fst (dists_items ds) ->
  In (k, old) ps -> outcome (lk k) k old (dists_items dsi).
Proof.
  intros Hdp Hlen Hkeys Hin.
  destruct (dists_put_spec _ _ _ _ Hdp) as (qD & HuD & HiD & _); [rewrite plan_length; exact Hlen|].
  apply unwrap_Some in HuD. rewrite HiD, <- Hkeys.
  destruct (plan_nil_In lk ps qD k old HuD Hin) as (q & Hq & Hv). apply (pick_outcome _ _ _ q); assumption.
Qed.

(** * The spread / distribution chain of a keyword-only call: complete description *)
Section Sem.
  Variables (m0 : midline) (kw : kwargs) (m' : midline) (r : args).
  Hypothesis Hok : mid_set_ok m0 = true.
  Hypothesis Hnd : NoDup (map fst kw).
  Hypothesis Hdk : mid_dist_kw_ok m0 = true.
  Hypothesis Hch : andthen (m_set_spread_params m0 [] kw) (fun m1 a1 => m_set_distribution_params m1 a1 kw) = (m', Some r).
  Let ei := ml_ei m0.
  Let ec := ml_ec m0.
  Let nc := ml_nc m0.
  Let Hok' : mid_names_ok m0 = true. Proof. unfold mid_set_ok in Hok. rewrite !andb_true_iff in Hok. apply Hok. Qed.
  Let Hei : u_names_ok ei = true. Proof. apply (m_ok_parts m0 Hok'). Qed.

  Lemma X4_reserved w : In w X4 -> In w reserved.
  Proof. unfold X4. cbn. intuition. Qed.
  Lemma T_notX4 n : TNp ei n -> ~ In n X4.
  Proof. intros H H4. exact (TNp_res m0 Hok' n H (X4_reserved n H4)). Qed.
  Lemma L_notX4 n : LNp ei n -> ~ In n X4.
  Proof. intros H H4. exact (LNp_res m0 Hok' n H (X4_reserved n H4)). Qed.
  Lemma cands_lnl n s : LNp ei n -> mid_cands m0 [n; s] = [[n; s]; [s]].
  Proof.
    intros H. unfold mid_cands. fold ei.
    assert (E1 : mem n (u_tstages ei) = false) by (apply mem_false; intros Ht; exact (L_TS_disj m0 Hok' n H Ht)).
    assert (E2 : str_eqb n "midext" = false).
    { apply str_eqb_neq. intros ->. apply (LNp_res m0 Hok' "midext" H). cbn. tauto. }
    rewrite E1, E2. reflexivity.
  Qed.
  Lemma cands_dist t k : TS ei t -> mid_cands m0 [t; k] = dist_cands t k.
  Proof. intros H. unfold mid_cands. fold ei. apply mem_In in H. rewrite H. reflexivity. Qed.
  Lemma routing_res w : In w routing -> In w reserved.
  Proof. unfold routing. cbn. intuition. Qed.
  Lemma dkw_not_routing k : In k (dkw m0) -> ~ In k routing.
  Proof.
    intros Hk. unfold mid_dist_kw_ok in Hdk. rewrite forallb_forall in Hdk. specialize (Hdk k Hk).
    apply Bool.negb_true_iff in Hdk. apply mem_false, Hdk.
  Qed.

  Ltac inc := let x := fresh "x" in let Hx := fresh "Hx" in intros x Hx; rewrite ?pre_app, ?in_app_iff; tauto.

  Lemma chain_kw_sem :
    mid_names_ok m' = true /\ ml_midext m' = ml_midext m0 /\
    map fst (mid_spread_items m' ++ u_dist_items (ml_ei m')) = map fst (mid_spread_items m0 ++ u_dist_items ei) /\
    (forall K old, In (K, old) (mid_spread_items m0 ++ u_dist_items ei) ->
       outcome (first_some (fun c => kw_get c kw) (mid_cands m0 K)) K old (mid_items m')).
  Proof.
    destruct (m_ok_parts m0 Hok') as (_ & Hec & Hnc & _ & _ & _ & _ & HbsymL).
    pose proof (keys_T_nc m0 Hok') as KTnc. pose proof (keys_T_ec m0 Hok') as KTec. pose proof (keys_L_ec m0 Hok') as KLec.
    fold ei ec nc in KTnc, KTec, KLec.
    assert (HTi : forall k, In k (map fst (u_tumor_items ei)) -> exists n s, k = [n; s] /\ TNp ei n /\ kind s) by apply T_key.
    assert (HTn : forall k, In k (map fst (u_tumor_items nc)) -> exists n s, k = [n; s] /\ TNp ei n /\ kind s).
    { intros k Hk. destruct (T_key _ _ Hk) as (n & s & -> & Hn & Hs). exists n, s. repeat split; [apply (TNp_nc m0 Hok'), Hn | exact Hs]. }
    assert (HTe : forall k, In k (map fst (u_tumor_items ec)) -> exists n s, k = [n; s] /\ TNp ei n /\ kind s).
    { intros k Hk. destruct (T_key _ _ Hk) as (n & s & -> & Hn & Hs). exists n, s. repeat split; [apply (TNp_ec m0 n Hok'), Hn | exact Hs]. }
    assert (HLi : forall k, In k (map fst (u_lnl_items ei)) -> exists n s, k = [n; s] /\ LNp ei n /\ kind s) by apply L_key.
    assert (HLe : forall k, In k (map fst (u_lnl_items ec)) -> exists n s, k = [n; s] /\ LNp ei n /\ kind s).
    { intros k Hk. destruct (L_key _ _ Hk) as (n & s & -> & Hn & Hs). exists n, s. repeat split; [apply (LNp_ec m0 Hok'), Hn | exact Hs]. }
    assert (HDk : forall k, In k (map fst (u_dist_items ei)) -> exists t s, k = [t; s] /\ TS ei t /\ In s (dkw m0)) by apply D_key.
    (* the generic leaf steps *)
    assert (Sside : forall side split glob ps qs k old X, unflatten_and_split kw X4 = (split, glob) -> In side X4 ->
               all_unit (plan (u_lk (obj_kwargs side split glob)) ps []) = Some qs -> In (k, old) ps ->
               (exists n s, k = [n; s] /\ (TNp ei n \/ LNp ei n) /\ kind s) ->
               (forall x, In x (pre [side] (combine (map fst ps) qs)) -> In x X) ->
               outcome (first_some (fun c => kw_get c kw) (mid_cands m0 ([side] ++ k))) ([side] ++ k) old X).
    { intros side split glob ps qs k old X Hu Hs Hq Hk (n & s & -> & Hn & Hkd) HX.
      apply (outcome_incl _ _ _ (pre [side] (combine (map fst ps) qs))); [|exact HX]. apply outcome_pre.
      change (mid_cands m0 ([side] ++ [n; s])) with (spread_cands [side] n s). rewrite <- first4_spread. cbn [app].
      rewrite <- (lk_side_eq kw Hnd split glob Hu side n s);
        [apply (block_outcome _ _ _ _ _ Hq Hk) | exact Hs | destruct Hn; [apply T_notX4 | apply L_notX4]; assumption | apply kind_notX4, Hkd]. }
    assert (Snest : forall side split glob nsplit ng ps qs k old X, unflatten_and_split kw X4 = (split, glob) ->
               (side = "noext" \/ side = "ext") -> unflatten_and_split (sub_kwargs side split) ["contra"] = (nsplit, ng) ->
               all_unit (plan (u_lk (obj_kwargs "contra" nsplit glob)) ps []) = Some qs -> In (k, old) ps ->
               (exists n s, k = [n; s] /\ TNp ei n /\ kind s) ->
               (forall x, In x (pre [side; "contra"] (combine (map fst ps) qs)) -> In x X) ->
               outcome (first_some (fun c => kw_get c kw) (mid_cands m0 ([side; "contra"] ++ k))) ([side; "contra"] ++ k) old X).
    { intros side split glob nsplit ng ps qs k old X Hu Hs Hun Hq Hk (n & s & -> & Hn & Hkd) HX.
      apply (outcome_incl _ _ _ (pre [side; "contra"] (combine (map fst ps) qs))); [|exact HX]. apply outcome_pre.
      change (mid_cands m0 ([side; "contra"] ++ [n; s])) with (spread_cands [side; "contra"] n s). rewrite <- first4_spread. cbn [app].
      rewrite <- (lk_nested_eq kw Hnd split glob Hu side nsplit ng n s);
        [apply (block_outcome _ _ _ _ _ Hq Hk) | exact Hs | exact Hun | apply T_notX4, Hn | apply kind_notX4, Hkd]. }
    assert (Sglob : forall split glob ps qs k old X, unflatten_and_split kw X4 = (split, glob) ->
               all_unit (plan (u_lk glob) ps []) = Some qs -> In (k, old) ps ->
               (exists n s, k = [n; s] /\ LNp ei n /\ kind s) ->
               (forall x, In x (combine (map fst ps) qs) -> In x X) ->
               outcome (first_some (fun c => kw_get c kw) (mid_cands m0 k)) k old X).
    { intros split glob ps qs k old X Hu Hq Hk (n & s & -> & Hn & Hkd) HX.
      apply (outcome_incl _ _ _ (combine (map fst ps) qs)); [|exact HX].
      rewrite (cands_lnl n s Hn), <- first4_glob.
      rewrite <- (lk_glob_eq kw Hnd split glob Hu n s); [apply (block_outcome _ _ _ _ _ Hq Hk) | apply L_notX4, Hn | apply kind_notX4, Hkd]. }
    (* the distribution block, common to all settings *)
    assert (HD : forall m2 dsplit dglob ikw ckw dsi K old X,
               unflatten_and_split kw (XD m2) = (dsplit, dglob) -> side_kwargs (obj_kwargs "ext" dsplit dglob) = (ikw, ckw) ->
               dists_put (u_maxt ei) (u_dists ei) (plan (u_lk ikw) (u_dist_items ei) []) = Some dsi ->
               In (K, old) (u_dist_items ei) -> (forall x, In x (dists_items dsi) -> In x X) ->
               outcome (first_some (fun c => kw_get c kw) (mid_cands m0 K)) K old X).
    { intros m2 dsplit dglob ikw ckw dsi K old X HuD Hsk Hdp Hin HX.
      apply (outcome_incl _ _ _ (dists_items dsi)); [|exact HX].
      destruct (HDk K (in_items_key _ _ _ Hin)) as (t & s & -> & Ht & Hs). destruct (XD_props m2) as [Hx1 Hx2].
      rewrite (cands_dist t s Ht).
      rewrite <- (lk_dist_eq kw Hnd (XD m2) dsplit dglob ikw ckw t s Hx1 Hx2 HuD Hsk).
      - apply (dist_block_outcome _ _ _ _ _ [t; s] old Hdp); [reflexivity | reflexivity | exact Hin].
      - intros Hr. exact (TS_res m0 Hok' t Ht (routing_res t Hr)).
      - apply dkw_not_routing, Hs. }
    destruct (ml_mixing m0) as [cur|] eqn:Emix.
    - (* with mixing *)
      destruct (m_chain_inv_mix m0 [] kw m' r cur Hok Emix Hch)
        as (split & glob & qI & qC & mix & qE & qLi & qLe & qLn & m2 & dsplit & dglob & ikw & ckw & dsi & Hc).
      cbv zeta in Hc. fold ei ec nc in Hc. assert (Hif : forall b : bool, (if b then @nil val else []) = []) by (intros []; reflexivity).
      rewrite ?skipn_nil', ?Hif, ?skipn_nil' in Hc. clear Hif.
      destruct Hc as (Hu & HqI & HqC & Hmx & HqLi & HqLe & HqLn & HuD & Hsk & Hdp & Hei' & (dsc & Hec' & Hecok) & (dsn & Hnc' & Hncok) & Hmix' & Hd' & Hs' & Hb').
      assert (Hnames' : mid_names_ok m' = true).
      { apply (mid_names_ok_final m0 m' qI qLi dsi qE qLe dsc qC qLn dsn _ Hok Hei' Hec' Hnc' Hecok Hncok Hdp); [apply plan_length | exact Hs' | exact Hb']. }
      split; [exact Hnames'|]. split; [exact Hd'|].
      destruct (leaf_after_items ei qI qLi dsi) as (I1 & I2 & I3); [apply (plan_lengths _ _ _ _ HqI) | apply (plan_lengths _ _ _ _ HqLi)|].
      destruct (leaf_after_items nc qC qLn dsn) as (N1 & _ & _); [apply (plan_lengths _ _ _ _ HqC) | apply (plan_lengths _ _ _ _ HqLn)|].
      pose proof (leaf_after_lnl ec qE qLe dsc (plan_lengths _ _ _ _ HqLe)) as E2.
      fold (leaf_after ei qI qLi dsi) in Hei'. fold (leaf_after nc qC qLn dsn) in Hnc'. fold (leaf_after ec qE qLe dsc) in Hec'.
      pose proof (dist_keys_after _ _ _ _ Hdp (plan_length _ _ _)) as KD.
      assert (Smix : forall X, In (["mixing"], mix) X ->
                outcome (first_some (fun c => kw_get c kw) (mid_cands m0 ["mixing"])) ["mixing"] cur X).
      { intros X HX. cbn [mid_cands first_some].
        destruct (glob_lookup kw X4 ["mixing"] split glob not_empty_X4 Hu) as [Hg _]. rewrite Hg in Hmx. cbn in Hmx.
        rewrite (kw_last_NoDup _ _ Hnd) in Hmx. unfold outcome. destruct (kw_get ["mixing"] kw) as [v|].
        - apply check_unit_Some in Hmx. destruct Hmx as [-> _]. exists mix. split; [reflexivity | exact HX].
        - cbn [hd_error val_or] in Hmx. apply check_unit_Some in Hmx. destruct Hmx as [[= ->] _]. exact HX. }
      unfold mid_items, mid_spread_items. rewrite Hmix', Hs', Emix. unfold m_mixing_item, m_midext_item. rewrite Hmix', Emix.
      fold ei ec nc. rewrite Hei', Hnc', Hec', I1, I2, I3, N1, E2.
      destruct (ml_symL m0) eqn:EsymL.
      + split.
        { rewrite !map_app, !pre_keys, KD, !keys_combine_len by (eapply plan_lengths; eassumption). reflexivity. }
        intros K old Hin. rewrite ?in_app_iff, ?in_pre_items_iff in Hin. cbn [In] in Hin.
        destruct Hin as [[(k & -> & Hk)|[(k & -> & Hk)|[[E|[]]|Hk]]]|Hk].
        * eapply (Sside "ipsi" split glob (u_tumor_items ei) qI k old _ Hu); [cbn; tauto | exact HqI | exact Hk | | inc].
          destruct (HTi k (in_items_key _ _ _ Hk)) as (n & s & E & Hn & Hs). exists n, s. tauto.
        * eapply (Sside "contra" split glob (u_tumor_items nc) qC k old _ Hu); [cbn; tauto | exact HqC | exact Hk | | inc].
          destruct (HTn k (in_items_key _ _ _ Hk)) as (n & s & E & Hn & Hs). exists n, s. tauto.
        * injection E as <- <-. apply Smix. rewrite ?in_app_iff. cbn [In]. tauto.
        * eapply (Sglob split glob (u_lnl_items ei) qLi K old _ Hu HqLi Hk); [|inc].
          destruct (HLi K (in_items_key _ _ _ Hk)) as (n & s & E & Hn & Hs). exists n, s. tauto.
        * eapply (HD m2 dsplit dglob ikw ckw dsi K old _ HuD Hsk Hdp Hk). inc.
      + split.
        { rewrite ?pre_app, !map_app, !pre_keys, KD, !keys_combine_len by (eapply plan_lengths; eassumption). reflexivity. }
        intros K old Hin. rewrite ?pre_app, ?in_app_iff, ?in_pre_items_iff in Hin. cbn [In] in Hin.
        destruct Hin as [[[(k & -> & Hk)|(k & -> & Hk)]|[[(k & -> & Hk)|(k & -> & Hk)]|[E|[]]]]|Hk].
        * eapply (Sside "ipsi" split glob (u_tumor_items ei) qI k old _ Hu); [cbn; tauto | exact HqI | exact Hk | | inc].
          destruct (HTi k (in_items_key _ _ _ Hk)) as (n & s & E & Hn & Hs). exists n, s. tauto.
        * eapply (Sside "ipsi" split glob (u_lnl_items ei) qLi k old _ Hu); [cbn; tauto | exact HqLi | exact Hk | | inc].
          destruct (HLi k (in_items_key _ _ _ Hk)) as (n & s & E & Hn & Hs). exists n, s. tauto.
        * eapply (Sside "contra" split glob (u_tumor_items nc) qC k old _ Hu); [cbn; tauto | exact HqC | exact Hk | | inc].
          destruct (HTn k (in_items_key _ _ _ Hk)) as (n & s & E & Hn & Hs). exists n, s. tauto.
        * eapply (Sside "contra" split glob (u_lnl_items ec) qLe k old _ Hu); [cbn; tauto | exact HqLe | exact Hk | | inc].
          destruct (HLe k (in_items_key _ _ _ Hk)) as (n & s & E & Hn & Hs). exists n, s. tauto.
        * injection E as <- <-. apply Smix. rewrite ?pre_app, ?in_app_iff. cbn [In]. tauto.
        * eapply (HD m2 dsplit dglob ikw ckw dsi K old _ HuD Hsk Hdp Hk). inc.
    - (* without mixing *)
      destruct (m_chain_inv_nomix m0 [] kw m' r Hok Emix Hch)
        as (split & glob & nsplit & esplit & ng & eg & qI & qC & qE & qLi & qLe & qLn & m2 & dsplit & dglob & ikw & ckw & dsi & Hc).
      cbv zeta in Hc. fold ei ec nc in Hc.
      assert (Hif : forall b : bool, (if b then @nil val else []) = []) by (intros []; reflexivity).
      rewrite ?skipn_nil', ?Hif, ?skipn_nil' in Hc. clear Hif.
      destruct Hc as (Hu & Hun & Hue & HqI & HqC & HqE & HqLi & HqLe & HqLn & HuD & Hsk & Hdp & Hei' & (dsc & Hec' & Hecok) & (dsn & Hnc' & Hncok) & Hmix' & Hd' & Hs' & Hb').
      assert (Hnames' : mid_names_ok m' = true).
      { apply (mid_names_ok_final m0 m' qI qLi dsi qE qLe dsc qC qLn dsn _ Hok Hei' Hec' Hnc' Hecok Hncok Hdp); [apply plan_length | exact Hs' | exact Hb']. }
      split; [exact Hnames'|]. split; [exact Hd'|].
      destruct (leaf_after_items ei qI qLi dsi) as (I1 & I2 & I3); [apply (plan_lengths _ _ _ _ HqI) | apply (plan_lengths _ _ _ _ HqLi)|].
      destruct (leaf_after_items nc qC qLn dsn) as (N1 & _ & _); [apply (plan_lengths _ _ _ _ HqC) | apply (plan_lengths _ _ _ _ HqLn)|].
      destruct (leaf_after_items ec qE qLe dsc) as (E1 & E2 & _); [apply (plan_lengths _ _ _ _ HqE) | apply (plan_lengths _ _ _ _ HqLe)|].
      fold (leaf_after ei qI qLi dsi) in Hei'. fold (leaf_after nc qC qLn dsn) in Hnc'. fold (leaf_after ec qE qLe dsc) in Hec'.
      pose proof (dist_keys_after _ _ _ _ Hdp (plan_length _ _ _)) as KD.
      unfold mid_items, mid_spread_items. rewrite Hmix', Hs', Emix. unfold m_midext_item.
      fold ei ec nc. rewrite Hei', Hnc', Hec', I1, I2, I3, N1, E1, E2.
      destruct (ml_symL m0) eqn:EsymL.
      + split.
        { rewrite !map_app, !pre_keys, KD, !keys_combine_len by (eapply plan_lengths; eassumption). reflexivity. }
        intros K old Hin. rewrite ?in_app_iff, ?in_pre_items_iff in Hin. cbn [In] in Hin.
        destruct Hin as [[(k & -> & Hk)|[(k & -> & Hk)|[(k & -> & Hk)|Hk]]]|Hk].
        * eapply (Sside "ipsi" split glob (u_tumor_items ei) qI k old _ Hu); [cbn; tauto | exact HqI | exact Hk | | inc].
          destruct (HTi k (in_items_key _ _ _ Hk)) as (n & s & E & Hn & Hs). exists n, s. tauto.
        * eapply (Snest "noext" split glob nsplit ng (u_tumor_items nc) qC k old _ Hu); [tauto | exact Hun | exact HqC | exact Hk | | inc].
          apply (HTn k (in_items_key _ _ _ Hk)).
        * eapply (Snest "ext" split glob esplit eg (u_tumor_items ec) qE k old _ Hu); [tauto | exact Hue | exact HqE | exact Hk | | inc].
          apply (HTe k (in_items_key _ _ _ Hk)).
        * eapply (Sglob split glob (u_lnl_items ei) qLi K old _ Hu HqLi Hk); [|inc].
          destruct (HLi K (in_items_key _ _ _ Hk)) as (n & s & E & Hn & Hs). exists n, s. tauto.
        * eapply (HD m2 dsplit dglob ikw ckw dsi K old _ HuD Hsk Hdp Hk). inc.
      + split.
        { rewrite ?pre_app, !map_app, !pre_keys, KD, !keys_combine_len by (eapply plan_lengths; eassumption). reflexivity. }
        intros K old Hin. rewrite ?pre_app, ?in_app_iff, ?in_pre_items_iff in Hin. cbn [In] in Hin.
        destruct Hin as [[[(k & -> & Hk)|(k & -> & Hk)]|[(k & -> & Hk)|[(k & -> & Hk)|(k & -> & Hk)]]]|Hk].
        * eapply (Sside "ipsi" split glob (u_tumor_items ei) qI k old _ Hu); [cbn; tauto | exact HqI | exact Hk | | inc].
          destruct (HTi k (in_items_key _ _ _ Hk)) as (n & s & E & Hn & Hs). exists n, s. tauto.
        * eapply (Sside "ipsi" split glob (u_lnl_items ei) qLi k old _ Hu); [cbn; tauto | exact HqLi | exact Hk | | inc].
          destruct (HLi k (in_items_key _ _ _ Hk)) as (n & s & E & Hn & Hs). exists n, s. tauto.
        * eapply (Snest "noext" split glob nsplit ng (u_tumor_items nc) qC k old _ Hu); [tauto | exact Hun | exact HqC | exact Hk | | inc].
          apply (HTn k (in_items_key _ _ _ Hk)).
        * eapply (Snest "ext" split glob esplit eg (u_tumor_items ec) qE k old _ Hu); [tauto | exact Hue | exact HqE | exact Hk | | inc].
          apply (HTe k (in_items_key _ _ _ Hk)).
        * eapply (Sside "contra" split glob (u_lnl_items ec) qLe k old _ Hu); [cbn; tauto | exact HqLe | exact Hk | | inc].
          destruct (HLe k (in_items_key _ _ _ Hk)) as (n & s & E & Hn & Hs). exists n, s. tauto.
        * eapply (HD m2 dsplit dglob ikw ckw dsi K old _ HuD Hsk Hdp Hk). inc.
  Qed.
End Sem.

(** * Keyword-only [Midline.set_params]: complete description (the Midline analogue of
      [b_kw_sem]); no hypothesis on the current values or the synchronisation of the sub-models *)
Lemma outcome_get o K old (its' : list (path * Qc)) : NoDup (map fst its') -> outcome o K old its' ->
  match o with Some v => exists q, v = V q /\ kw_get K its' = Some q | None => kw_get K its' = Some old end.
Proof.
  intros Hnd. unfold outcome. destruct o as [v|].
  - intros (q & E & Hin). exists q. split; [exact E | apply kw_get_NoDup_In; assumption].
  - intros Hin. apply kw_get_NoDup_In; assumption.
Qed.

Lemma mid_kw_sem m kw m' r : mid_set_ok m = true -> NoDup (map fst kw) -> mid_dist_kw_ok m = true ->
  m_set_params m [] kw = (m', Some r) ->
  mid_names_ok m' = true /\ kw_sem (mid_cands m) (mid_items m) (mid_items m') kw.
Proof.
  intros Hok Hnd Hdk Hset.
  assert (Hok' : mid_names_ok m = true) by (unfold mid_set_ok in Hok; rewrite !andb_true_iff in Hok; apply Hok).
  assert (Heiok : u_names_ok (ml_ei m) = true) by apply (m_ok_parts m Hok').
  rewrite (m_set_params_unfold m [] kw Hok') in Hset.
  rewrite popat_nil in Hset by (rewrite mid_items_split, !app_length; cbn [m_midext_item length]; lia).
  cbv beta iota zeta in Hset.
  set (mp := match kw_get ["midext"; "prob"] kw with Some v => Some v | None => None end) in *.
  assert (H0 : exists m0, match mp with None => Some m | Some v => option_map (ml_with_midext m) (check_unit v) end = Some m0
                          /\ mid_set_ok m0 = true /\ ml_ei m0 = ml_ei m /\ mid_spread_items m0 = mid_spread_items m
                          /\ outcome (kw_get ["midext"; "prob"] kw) ["midext"; "prob"] (ml_midext m) [(["midext"; "prob"], ml_midext m0)]).
  { unfold mp in *. destruct (kw_get ["midext"; "prob"] kw) as [vm|].
    - destruct (check_unit vm) as [x|] eqn:Ex; [|discriminate Hset]. exists (ml_with_midext m x).
      split; [reflexivity|]. split; [exact Hok|]. repeat split.
      apply check_unit_Some in Ex. destruct Ex as [-> _]. exists x. split; [reflexivity | left; reflexivity].
    - exists m. repeat split; [exact Hok | left; reflexivity]. }
  destruct H0 as (m0 & E0 & Hok0 & Hei0 & Hsp0 & Hmid). rewrite E0 in Hset. cbn [app] in Hset.
  assert (Hdk0 : mid_dist_kw_ok m0 = true) by (unfold mid_dist_kw_ok, dkw in *; rewrite Hei0; exact Hdk).
  assert (Hcd : forall K, mid_cands m0 K = mid_cands m K) by (intros K; unfold mid_cands; rewrite Hei0; reflexivity).
  destruct (chain_kw_sem m0 kw m' r Hok0 Hnd Hdk0 Hset) as (Hn' & Hd' & Hk' & Hsem).
  rewrite Hsp0, Hei0 in Hk', Hsem.
  split; [exact Hn'|]. split.
  { rewrite !mid_items_split, !app_assoc. rewrite (map_app fst (mid_spread_items m' ++ _)), (map_app fst (mid_spread_items m ++ _)), Hk'. reflexivity. }
  intros K old Hin.
  rewrite (first_some_ext (fun c => kw_last c kw) (fun c => kw_get c kw)) by (intros c _; apply kw_last_NoDup, Hnd).
  apply outcome_get; [apply mid_items_NoDup, Hn'|].
  rewrite mid_items_split, app_assoc, in_app_iff in Hin. destruct Hin as [Hin|Hin].
  - rewrite <- Hcd. apply Hsem, Hin.
  - cbn in Hin. destruct Hin as [E|[]]. injection E as <- <-.
    assert (Ec : mid_cands m ["midext"; "prob"] = [["midext"; "prob"]]).
    { unfold mid_cands. assert (E1 : mem "midext" (u_tstages (ml_ei m)) = false).
      { apply mem_false. intros Ht. apply (in_reserved_not_tstage (ml_ei m) "midext" Heiok); [cbn; tauto | exact Ht]. }
      rewrite E1. reflexivity. }
    rewrite Ec. cbn [first_some]. rewrite opt_eta.
    apply (outcome_incl _ _ _ _ _ Hmid). intros x [<-|[]].
    rewrite mid_items_split, !in_app_iff. right. right. left. unfold m_midext_item. rewrite Hd'. reflexivity.
Qed.

(** * The class-independent part of NamedProofs.v for an arbitrary candidate function *)
Lemma desc_lenb_spec l : desc_lenb l = true -> desc_len l.
Proof.
  induction l as [|a l IH]; cbn [desc_lenb desc_len]; [auto|]. intros H. apply andb_true_iff in H. destruct H as [H1 H2].
  split; [|apply IH, H2]. intros b Hb. rewrite forallb_forall in H1. apply Nat.leb_le, H1, Hb.
Qed.
Lemma desc_len_lenb l : desc_len l -> desc_lenb l = true.
Proof.
  induction l as [|a l IH]; cbn [desc_lenb desc_len]; [auto|]. intros [H1 H2]. apply andb_true_iff. split; [|apply IH, H2].
  apply forallb_forall. intros b Hb. apply Nat.leb_le, H1, Hb.
Qed.
Lemma in_combine_ex (named : list path) (qs : list Qc) n : length qs = length named -> In n named -> exists q, In (n, q) (combine named qs).
Proof.
  revert qs. induction named as [|x named IH]; intros [|y qs] Hl Hin; cbn in Hl; try discriminate; [destruct Hin|].
  destruct Hin as [->|Hin]; [exists y; left; reflexivity|]. destruct (IH qs) as (q & Hq); [lia | exact Hin|]. exists q. right. exact Hq.
Qed.
Lemma assigned_vals named qs n q : NoDup named -> In (n, q) (combine named qs) -> assigned named (vals qs) [] n = Some (V q).
Proof.
  intros Hnd Hin. unfold assigned. cbn [kw_last rev kw_get]. rewrite kw_last_NoDup by (apply combine_keys_NoDup, Hnd).
  apply kw_get_NoDup_In; [apply combine_keys_NoDup, Hnd | apply in_combine_vals, Hin].
Qed.

Section Generic.
  Variable cnd : path -> list path.
  Definition cons_g (names named : list path) : bool :=
    forallb (fun n => forallb (fun k => Bool.eqb (does_contain_in_order k n) (memp n (cnd k))) names) named.
  Definition prio_g (names named : list path) : bool :=
    forallb (fun k => desc_lenb (filter (fun c => memp c named) (cnd k))) names.

  Lemma cons_g_spec names named : cons_g names named = true ->
    forall n k, In n named -> In k names -> does_contain_in_order k n = memp n (cnd k).
  Proof.
    unfold cons_g. intros H n k Hn Hk. rewrite forallb_forall in H. specialize (H n Hn).
    rewrite forallb_forall in H. specialize (H k Hk). apply Bool.eqb_prop in H. exact H.
  Qed.
  Lemma prio_g_spec names named : prio_g names named = true ->
    forall k l1 w l2, In k names -> cnd k = l1 ++ w :: l2 -> In w named ->
      forall b, In b l2 -> In b named -> length b <= length w.
  Proof.
    unfold prio_g. intros H k l1 w l2 Hk Hl Hw b Hb Hbd. rewrite forallb_forall in H. specialize (H k Hk).
    apply desc_lenb_spec in H. rewrite Hl, filter_app in H. cbn [filter] in H. rewrite (proj2 (memp_In w named) Hw) in H.
    apply (desc_len_app _ _ _ H). apply filter_In. split; [exact Hb | apply memp_In, Hbd].
  Qed.

  Lemma positional_g named a kw (its its' : list (path * Qc)) :
    forallb (fun k => memp k named) (map fst kw) = true ->
    kw_sem cnd its its' (named_kwargs named a kw) ->
    cons_g (map fst its) named = true -> prio_g (map fst its) named = true ->
    forall k old, In (k, old) its ->
      ((forall n, In n named -> does_contain_in_order k n = true -> assigned named a kw n = None) -> kw_get k its' = Some old)
      /\ (forall n, In n named -> does_contain_in_order k n = true -> assigned named a kw n <> None ->
            exists w q, In w named /\ does_contain_in_order k w = true /\ assigned named a kw w = Some (V q)
                        /\ kw_get k its' = Some q
                        /\ forall n', In n' named -> does_contain_in_order k n' = true ->
                                      assigned named a kw n' <> None -> length n' <= length w).
  Proof.
    intros Hf [_ Hsem0] Hcons Hprio k old Hin. pose proof (Hsem0 k old Hin) as Hsem.
    rewrite (first_some_ext (fun c => kw_last c (named_kwargs named a kw)) (assigned named a kw)) in Hsem
      by (intros c _; apply named_kwargs_last).
    assert (Hk : In k (map fst its)) by (apply in_map_iff; exists (k, old); split; [reflexivity | exact Hin]).
    pose proof (cons_g_spec _ _ Hcons) as Hcs.
    split.
    - intros Hnone. rewrite first_some_None in Hsem; [exact Hsem|].
      intros c Hcin. destruct (assigned named a kw c) eqn:E; [|reflexivity]. exfalso.
      assert (Hd : In c named) by (apply (assigned_declared named a kw c Hf); congruence).
      assert (Hm : does_contain_in_order k c = true) by (rewrite (Hcs c k Hd Hk); apply memp_In, Hcin).
      rewrite (Hnone c Hd Hm) in E. discriminate.
    - intros n Hnd Hm Ha.
      assert (Hnc : In n (cnd k)) by (apply memp_In; rewrite <- (Hcs n k Hnd Hk); exact Hm).
      destruct (first_some_exists (assigned named a kw) _ n Hnc Ha) as (v & Hv). rewrite Hv in Hsem.
      destruct Hsem as (q & -> & Hget).
      destruct (first_some_split _ _ _ Hv) as (l1 & w & l2 & Hl & Hw & Hl1).
      assert (Hwd : In w named) by (apply (assigned_declared named a kw w Hf); congruence).
      assert (Hwc : In w (cnd k)) by (rewrite Hl; apply in_or_app; right; left; reflexivity).
      exists w, q. split; [exact Hwd|]. split; [rewrite (Hcs w k Hwd Hk); apply memp_In, Hwc|].
      split; [exact Hw|]. split; [exact Hget|].
      intros n' Hn'd Hn'm Hn'a.
      assert (Hn'c : In n' (cnd k)) by (apply memp_In; rewrite <- (Hcs n' k Hn'd Hk); exact Hn'm).
      rewrite Hl in Hn'c. apply in_app_or in Hn'c. destruct Hn'c as [Hin1|[<-|Hin2]].
      + exfalso. apply Hn'a, Hl1, Hin1.
      + lia.
      + apply (prio_g_spec _ _ Hprio k l1 w l2 Hk Hl Hwd n' Hin2 Hn'd).
  Qed.

  (** every declared name matching [k] being assigned (a full positional vector): the value
      of a most specific declared name *)
  Lemma addresses_g named qs (its its' : list (path * Qc)) :
    NoDup named -> length qs = length named ->
    kw_sem cnd its its' (named_kwargs named (vals qs) []) ->
    cons_g (map fst its) named = true -> prio_g (map fst its) named = true -> no_ties (map fst its) named = true ->
    (forall n q k old, In (n, q) (combine named qs) -> In (k, old) its -> does_contain_in_order k n = true ->
       (forall n', In n' named -> does_contain_in_order k n' = true -> length n' <= length n) -> kw_get k its' = Some q)
    /\ (forall k old, In (k, old) its -> (forall n, In n named -> does_contain_in_order k n = false) -> kw_get k its' = Some old).
  Proof.
    intros Hnd Hlen Hsem Hcons Hprio Hties.
    pose proof (positional_g named (vals qs) [] its its' eq_refl Hsem Hcons Hprio) as Hpos.
    pose proof (no_ties_spec _ _ Hties) as Ht.
    split.
    - intros n q k old Hin Hio Hm Hmax.
      assert (Hn : In n named) by (apply in_combine_l in Hin; exact Hin).
      assert (Hk : In k (map fst its)) by (apply in_map_iff; exists (k, old); split; [reflexivity | exact Hio]).
      pose proof (assigned_vals named qs n q Hnd Hin) as Ha.
      destruct (Hpos k old Hio) as [_ Hval].
      destruct (Hval n Hn Hm) as (w & q' & Hwd & Hwm & Hwa & Hget & Hwmax); [congruence|].
      assert (Hwn : w = n).
      { apply (Ht k w n Hk Hwd Hn Hwm Hm). specialize (Hmax w Hwd Hwm).
        assert (Hne : assigned named (vals qs) [] n <> None) by congruence. specialize (Hwmax n Hn Hm Hne). lia. }
      subst w. rewrite Ha in Hwa. injection Hwa as <-. exact Hget.
    - intros k old Hio Hno. destruct (Hpos k old Hio) as [Hkeep _]. apply Hkeep. intros n Hn Hm. rewrite (Hno n Hn) in Hm. discriminate.
  Qed.

  Lemma get_named_g named qs (its its' : list (path * Qc)) :
    NoDup named -> length qs = length named ->
    kw_sem cnd its its' (named_kwargs named (vals qs) []) ->
    cons_g (map fst its) named = true -> prio_g (map fst its) named = true ->
    no_ties (map fst its) named = true -> each_owns (map fst its) named = true ->
    get_named_items its' named = combine named qs.
  Proof.
    intros Hnd Hlen Hsem Hcons Hprio Hties Howns.
    pose proof (positional_g named (vals qs) [] its its' eq_refl Hsem Hcons Hprio) as Hpos.
    destruct Hsem as [Hnames _].
    unfold get_named_items. cbv zeta. rewrite Hnames. set (names := map fst its) in *.
    rewrite create_alias_map_NoDup by exact Hnd. set (ow := owners (map (alias_entry names) named)).
    pose proof (no_ties_spec _ _ Hties) as Ht. pose proof (each_owns_spec _ _ Howns) as Ho.
    apply entries_combine; [symmetry; exact Hlen|]. intros n q Hin.
    assert (Hn : In n named) by (apply in_combine_l in Hin; exact Hin).
    pose proof (assigned_vals named qs n q Hnd Hin) as Ha.
    destruct (Ho n Hn) as (k & Hk & Hkm & Hkmax).
    assert (Hkow : kw_get k ow = Some n).
    { unfold ow. rewrite owners_get. destruct (owner_exists names k named n Hk Hn Hkm) as (w & Hw). rewrite Hw. f_equal.
      destruct (owner_max names k named w Hk Hw) as (Hwd & Hwm & Hwmax).
      apply (Ht k w n Hk Hwd Hn Hwm Hkm). specialize (Hwmax n Hn Hkm). specialize (Hkmax w Hwd Hwm). lia. }
    assert (Hne : owned_by ow n (aliases_of names n) <> []).
    { intros E. assert (Hin' : In k (owned_by ow n (aliases_of names n))).
      { unfold owned_by. apply filter_In. split; [apply in_aliases_of; split; assumption|]. rewrite Hkow. apply path_eqb_refl. }
      rewrite E in Hin'. destruct Hin'. }
    destruct (read_param_owned ow n _ Hne) as (p & Hp & Hpin & Hpow). apply in_aliases_of in Hpin. destruct Hpin as [Hpn Hpm].
    unfold ow in Hpow. rewrite owners_get in Hpow. destruct (owner_max names p named n Hpn Hpow) as (_ & _ & Hpmax).
    assert (Hpi : exists old, In (p, old) its).
    { unfold names in Hpn. apply in_map_iff in Hpn. destruct Hpn as ([p' old] & <- & Hi). exists old. exact Hi. }
    destruct Hpi as (old & Hpi). destruct (Hpos p old Hpi) as [_ Hval].
    destruct (Hval n Hn Hpm) as (w & q' & Hwd & Hwm & Hwa & Hget & Hwmax); [congruence|].
    assert (Hwn : w = n).
    { apply (Ht p w n Hpn Hwd Hn Hwm Hpm). specialize (Hpmax w Hwd Hwm).
      assert (Hne' : assigned named (vals qs) [] n <> None) by congruence. specialize (Hwmax n Hn Hpm Hne'). lia. }
    subst w. rewrite Ha in Hwa. injection Hwa as <-.
    unfold named_entry, alias_entry. rewrite Hp. cbn [fst]. rewrite Hget. reflexivity.
  Qed.
End Generic.

(** * Statements (Midline analogues of the Bilateral statements of Named.v) *)
(** [covered m] is replaced by [mid_set_ok ml] (the C10 well-formedness of the four leaves
    of ext / noext; implied by [Safe.m_names_ok], true of every constructed object) and
    [mid_dist_kw_ok ml]; [cands] by [mid_cands ml]; [names_consistent] by
    [mid_names_consistent] together with [mid_prio_ok]. *)

(** COMPLETE description of a [set_named_params] that returns normally (all four
    use_mixing x LNL symmetry settings, with or without central / unknown sub-models, every
    graph, every declared list, positional and keyword arguments, NO hypothesis on the current
    values or the synchronisation of the sub-models): mirror of [C17_set_named_spec_stmt] *)
Definition C17_midline_set_named_spec_stmt : Prop :=
  forall ml named a kw s' its,
    mid_set_ok ml = true -> mid_dist_kw_ok ml = true -> param_items (MMid ml) = Some its ->
    set_named_params (mk_nstate (MMid ml) (Some named)) a kw = (s', inr tt) ->
    ns_named s' = Some named /\
    exists ml' its', ns_model s' = MMid ml' /\ mid_names_ok ml' = true /\
      (m_names_ok ml = true -> m_names_ok ml' = true /\ mid_dist_kw_ok ml' = true) /\
      param_items (ns_model s') = Some its' /\ map fst its' = map fst its /\
      forall k old, In (k, old) its ->
        match first_some (assigned named a kw) (mid_cands ml k) with
        | Some v => exists q, v = V q /\ kw_get k its' = Some q
        | None => kw_get k its' = Some old
        end.

(** mirror of [C17_set_named_positional_stmt] *)
Definition C17_midline_set_named_positional_stmt : Prop :=
  forall ml named a kw s' its,
    mid_set_ok ml = true -> mid_dist_kw_ok ml = true -> param_items (MMid ml) = Some its ->
    mid_names_consistent ml (map fst its) named = true -> mid_prio_ok ml (map fst its) named = true ->
    set_named_params (mk_nstate (MMid ml) (Some named)) a kw = (s', inr tt) ->
    ns_named s' = Some named /\
    exists its', param_items (ns_model s') = Some its' /\ map fst its' = map fst its /\
      forall k old, In (k, old) its ->
        ((forall n, In n named -> does_contain_in_order k n = true -> assigned named a kw n = None) ->
           kw_get k its' = Some old)
        /\ (forall n, In n named -> does_contain_in_order k n = true -> assigned named a kw n <> None ->
              exists w q, In w named /\ does_contain_in_order k w = true /\ assigned named a kw w = Some (V q)
                          /\ kw_get k its' = Some q
                          /\ forall n', In n' named -> does_contain_in_order k n' = true ->
                                        assigned named a kw n' <> None -> length n' <= length w).

(** mirror of [C17_global_name_addresses_all_matches_stmt]: ONE declared (global) name *)
Definition C17_midline_global_name_addresses_all_matches_stmt : Prop :=
  forall ml n v s' its,
    mid_set_ok ml = true -> mid_dist_kw_ok ml = true -> param_items (MMid ml) = Some its ->
    mid_names_consistent ml (map fst its) [n] = true ->
    (exists k, In k (map fst its) /\ does_contain_in_order k n = true) ->
    set_named_params (mk_nstate (MMid ml) (Some [n])) [v] [] = (s', inr tt) ->
    exists q its', v = V q /\ param_items (ns_model s') = Some its' /\ map fst its' = map fst its /\
      forall k old, In (k, old) its ->
        kw_get k its' = Some (if does_contain_in_order k n then q else old).

(** a declared name -- "spread", "growth", "micro", "TtoII_spread", "contra_spread", a
    distribution keyword "p", "mixing", a full parameter name -- assigns its value to EVERY
    reported parameter it matches and that no more specific declared name matches *)
Definition C17_midline_global_name_addresses_all_stmt : Prop :=
  forall ml named qs s' its,
    mid_set_ok ml = true -> mid_dist_kw_ok ml = true -> param_items (MMid ml) = Some its ->
    NoDup named -> length qs = length named ->
    mid_names_consistent ml (map fst its) named = true -> mid_prio_ok ml (map fst its) named = true ->
    no_ties (map fst its) named = true ->
    set_named_params (mk_nstate (MMid ml) (Some named)) (vals qs) [] = (s', inr tt) ->
    exists its', param_items (ns_model s') = Some its' /\ map fst its' = map fst its /\
      forall n q k old, In (n, q) (combine named qs) -> In (k, old) its -> does_contain_in_order k n = true ->
        (forall n', In n' named -> does_contain_in_order k n' = true -> length n' <= length n) ->
        kw_get k its' = Some q.

(** mirror of [C17_get_named_after_set_stmt] *)
Definition C17_midline_get_named_after_set_stmt : Prop :=
  forall ml named qs s' its,
    mid_set_ok ml = true -> mid_dist_kw_ok ml = true -> param_items (MMid ml) = Some its ->
    NoDup named -> length qs = length named ->
    mid_names_consistent ml (map fst its) named = true -> mid_prio_ok ml (map fst its) named = true ->
    no_ties (map fst its) named = true -> each_owns (map fst its) named = true ->
    set_named_params (mk_nstate (MMid ml) (Some named)) (vals qs) [] = (s', inr tt) ->
    get_named_params s' = inr (combine named qs).

(** the round trip for global / partially global declarations: every declared name reads
    back its value, the number of dimensions is the number of declared names, and every
    reported parameter matched by NO declared name keeps its value *)
Definition C17_midline_global_roundtrip_stmt : Prop :=
  forall ml named qs s' its,
    mid_set_ok ml = true -> mid_dist_kw_ok ml = true -> param_items (MMid ml) = Some its ->
    NoDup named -> length qs = length named ->
    mid_names_consistent ml (map fst its) named = true -> mid_prio_ok ml (map fst its) named = true ->
    no_ties (map fst its) named = true -> each_owns (map fst its) named = true ->
    set_named_params (mk_nstate (MMid ml) (Some named)) (vals qs) [] = (s', inr tt) ->
    get_named_params s' = inr (combine named qs) /\ get_num_dims s' = inr (length named) /\
    exists its', param_items (ns_model s') = Some its' /\ map fst its' = map fst its /\
      (forall k old, In (k, old) its -> (forall n, In n named -> does_contain_in_order k n = false) -> kw_get k its' = Some old).

(** C12: [likelihood(given_params = list / dict)] with such a declaration never raises; it
    is -inf, or the likelihood of the object afterwards, which holds the proposed value of
    the most specific matching declared name under every matched parameter and the previous
    value under every other one *)
Definition C12_midline_named_global_scored_stmt : Prop :=
  forall R (lik : model -> R) m names v g, m_names_ok m = true -> mid_dist_kw_ok m = true -> NoDup names ->
    length v = length names -> both_forms names (vals v) g ->
    mid_names_consistent m (m_names m) names = true -> mid_prio_ok m (m_names m) names = true ->
    no_ties (m_names m) names = true ->
    let r := likelihood_given R lik (Some names) (MMid m) g in
    snd r = LMinusInf \/
    (snd r = LVal (lik (fst r)) /\
     option_map (map fst) (param_items (fst r)) = Some (m_names m) /\
     (forall n q k, In (n, q) (combine names v) -> In k (m_names m) -> does_contain_in_order k n = true ->
        (forall n', In n' names -> does_contain_in_order k n' = true -> length n' <= length n) ->
        option_map (kw_get k) (param_items (fst r)) = Some (Some q)) /\
     (forall k old, In (k, old) (m_items m) -> (forall n, In n names -> does_contain_in_order k n = false) ->
        option_map (kw_get k) (param_items (fst r)) = Some (Some old))).
(** ... and, when scored, [get_named_params] of the object afterwards is the proposal *)
Definition C12_midline_named_global_reads_back_stmt : Prop :=
  forall R (lik : model -> R) m names v g, m_names_ok m = true -> mid_dist_kw_ok m = true -> NoDup names ->
    length v = length names -> both_forms names (vals v) g ->
    mid_names_consistent m (m_names m) names = true -> mid_prio_ok m (m_names m) names = true ->
    no_ties (m_names m) names = true -> each_owns (m_names m) names = true ->
    let r := likelihood_given R lik (Some names) (MMid m) g in
    snd r = LVal (lik (fst r)) ->
    get_named_params (mk_nstate (fst r) (Some names)) = inr (combine names v)
    /\ get_num_dims (mk_nstate (fst r) (Some names)) = inr (length names).

(** * Proofs *)
Lemma dist_kw_names_sk ds : dist_kw_names (sk_dists ds) = dist_kw_names ds.
Proof.
  unfold dist_kw_names, sk_dists. induction ds as [|[t d] ds IH]; [reflexivity|]. cbn [map flat_map fst snd]. rewrite IH. f_equal.
  destruct d as [w|f kws]; cbn [sk_dist]; [reflexivity|]. rewrite map_map. reflexivity.
Qed.
Lemma dkw_sk m1 m2 : sk_mid m1 = sk_mid m2 -> dkw m1 = dkw m2.
Proof.
  intros H. apply (f_equal ml_ext) in H. cbn [sk_mid ml_ext] in H. apply (f_equal b_ipsi) in H.
  assert (E : forall b, u_dists (b_ipsi (sk_bi b)) = sk_dists (u_dists (b_ipsi b))) by (intros b; reflexivity).
  apply (f_equal u_dists) in H. rewrite !E in H. unfold dkw, ml_ei. rewrite <- (dist_kw_names_sk (u_dists (b_ipsi (ml_ext m1)))), H.
  apply dist_kw_names_sk.
Qed.

Lemma mid_named_inv ml named a kw s' : mid_set_ok ml = true -> mid_dist_kw_ok ml = true ->
  set_named_params (mk_nstate (MMid ml) (Some named)) a kw = (s', inr tt) ->
  forallb (fun k => memp k named) (map fst kw) = true /\
  exists ml' rest, m_set_params ml [] (named_kwargs named a kw) = (ml', Some rest) /\ s' = mk_nstate (MMid ml') (Some named) /\
    mid_names_ok ml' = true /\ kw_sem (mid_cands ml) (mid_items ml) (mid_items ml') (named_kwargs named a kw).
Proof.
  intros Hok Hdk H.
  assert (Hok' : mid_names_ok ml = true) by (unfold mid_set_ok in Hok; rewrite !andb_true_iff in Hok; apply Hok).
  destruct (set_named_inv (MMid ml) named a kw s' _ (mid_param_items ml Hok') H) as (Hf & m1 & rest & Hset & ->). split; [exact Hf|].
  cbn [set_params] in Hset. destruct (m_set_params ml [] (named_kwargs named a kw)) as [ml' o] eqn:Eset. injection Hset as <- ->.
  destruct (mid_kw_sem ml _ ml' rest Hok (named_kwargs_NoDup named a kw) Hdk Eset) as [Hn' Hsem].
  exists ml', rest. repeat split; try assumption; apply Hsem.
Qed.
Lemma mid_its ml its : mid_set_ok ml = true -> param_items (MMid ml) = Some its -> mid_names_ok ml = true /\ its = mid_items ml.
Proof.
  intros Hok Hits.
  assert (Hok' : mid_names_ok ml = true) by (unfold mid_set_ok in Hok; rewrite !andb_true_iff in Hok; apply Hok).
  split; [exact Hok'|]. rewrite (mid_param_items ml Hok') in Hits. injection Hits as <-. reflexivity.
Qed.

Theorem midline_set_named_spec : C17_midline_set_named_spec_stmt.
Proof.
  intros ml named a kw s' its Hok Hdk Hits H. destruct (mid_its ml its Hok Hits) as [Hok' ->].
  destruct (mid_named_inv ml named a kw s' Hok Hdk H) as (_ & ml' & rest & Hset & -> & Hn' & Hnames & Hsem).
  cbn [ns_named ns_model mk_nstate]. split; [reflexivity|]. exists ml', (mid_items ml').
  split; [reflexivity|]. split; [exact Hn'|]. split.
  { intros Hsafe. pose proof (SafeProofs.sk_mid_set_params ml [] (named_kwargs named a kw)) as Hsk. rewrite Hset in Hsk. cbn [fst] in Hsk.
    split; [apply (SafeMidline.m_names_ok_sk ml' ml Hsk Hsafe)|]. unfold mid_dist_kw_ok. rewrite (dkw_sk ml' ml Hsk). exact Hdk. }
  split; [apply mid_param_items, Hn'|]. split; [exact Hnames|].
  intros k old Hin. specialize (Hsem k old Hin).
  rewrite (first_some_ext (fun c => kw_last c (named_kwargs named a kw)) (assigned named a kw)) in Hsem
    by (intros c _; apply named_kwargs_last).
  exact Hsem.
Qed.

Theorem midline_set_named_positional : C17_midline_set_named_positional_stmt.
Proof.
  intros ml named a kw s' its Hok Hdk Hits Hcons Hprio H. destruct (mid_its ml its Hok Hits) as [Hok' ->].
  destruct (mid_named_inv ml named a kw s' Hok Hdk H) as (Hf & ml' & rest & Hset & -> & Hn' & Hsem).
  cbn [ns_named ns_model mk_nstate]. split; [reflexivity|]. exists (mid_items ml').
  split; [apply mid_param_items, Hn'|]. split; [apply Hsem|].
  exact (positional_g (mid_cands ml) named a kw _ _ Hf Hsem Hcons Hprio).
Qed.

Theorem midline_global_name_addresses_all_matches : C17_midline_global_name_addresses_all_matches_stmt.
Proof.
  intros ml n v s' its Hok Hdk Hits Hcons (k0 & Hk0 & Hm0) H.
  destruct (midline_set_named_spec ml [n] [v] [] s' its Hok Hdk Hits H) as (_ & ml' & its' & _ & _ & _ & Hits' & Hnames & Hsem).
  pose proof (cons_g_spec (mid_cands ml) _ _ Hcons) as Hcs.
  assert (Hfs : forall k, In k (map fst its) ->
            first_some (assigned [n] [v] []) (mid_cands ml k) = if does_contain_in_order k n then Some v else None).
  { intros k Hk. rewrite (first_some_ext _ (fun c => if path_eqb c n then Some v else None)) by (intros; apply assigned_single).
    rewrite first_some_single, (Hcs n k (or_introl eq_refl) Hk). reflexivity. }
  assert (Hq : exists q, v = V q).
  { apply in_map_iff in Hk0. destruct Hk0 as ([k0' old0] & <- & Hin0). specialize (Hsem _ _ Hin0).
    rewrite Hfs in Hsem by (apply in_map_iff; exists (k0', old0); split; [reflexivity | exact Hin0]).
    cbn [fst] in Hm0. rewrite Hm0 in Hsem. destruct Hsem as (q & -> & _). eauto. }
  destruct Hq as (q & ->). exists q, its'. split; [reflexivity|]. split; [exact Hits'|]. split; [exact Hnames|].
  intros k old Hin. specialize (Hsem _ _ Hin).
  rewrite Hfs in Hsem by (apply in_map_iff; exists (k, old); split; [reflexivity | exact Hin]).
  destruct (does_contain_in_order k n); [|exact Hsem]. destruct Hsem as (q' & [= <-] & Hget). exact Hget.
Qed.

Theorem midline_global_name_addresses_all : C17_midline_global_name_addresses_all_stmt.
Proof.
  intros ml named qs s' its Hok Hdk Hits Hnd Hlen Hcons Hprio Hties H. destruct (mid_its ml its Hok Hits) as [Hok' ->].
  destruct (mid_named_inv ml named (vals qs) [] s' Hok Hdk H) as (_ & ml' & rest & Hset & -> & Hn' & Hsem).
  cbn [ns_model mk_nstate]. exists (mid_items ml'). split; [apply mid_param_items, Hn'|]. split; [apply Hsem|].
  exact (proj1 (addresses_g (mid_cands ml) named qs _ _ Hnd Hlen Hsem Hcons Hprio Hties)).
Qed.

Lemma mid_get_named ml' named : mid_names_ok ml' = true ->
  get_named_params (mk_nstate (MMid ml') (Some named)) = inr (get_named_items (mid_items ml') named).
Proof.
  intros Hn'. unfold get_named_params, named_params. cbn [ns_model ns_named mk_nstate].
  rewrite (mid_param_items ml' Hn'), (param_names_items _ _ (mid_param_items ml' Hn')). reflexivity.
Qed.

Theorem midline_get_named_after_set : C17_midline_get_named_after_set_stmt.
Proof.
  intros ml named qs s' its Hok Hdk Hits Hnd Hlen Hcons Hprio Hties Howns H. destruct (mid_its ml its Hok Hits) as [Hok' ->].
  destruct (mid_named_inv ml named (vals qs) [] s' Hok Hdk H) as (_ & ml' & rest & Hset & -> & Hn' & Hsem).
  rewrite (mid_get_named ml' named Hn'). f_equal.
  exact (get_named_g (mid_cands ml) named qs _ _ Hnd Hlen Hsem Hcons Hprio Hties Howns).
Qed.

Theorem midline_global_roundtrip : C17_midline_global_roundtrip_stmt.
Proof.
  intros ml named qs s' its Hok Hdk Hits Hnd Hlen Hcons Hprio Hties Howns H.
  pose proof (midline_get_named_after_set ml named qs s' its Hok Hdk Hits Hnd Hlen Hcons Hprio Hties Howns H) as Hget.
  split; [exact Hget|]. split.
  { unfold get_num_dims. rewrite Hget, combine_length, Hlen, Nat.min_id. reflexivity. }
  destruct (mid_its ml its Hok Hits) as [Hok' ->].
  destruct (mid_named_inv ml named (vals qs) [] s' Hok Hdk H) as (_ & ml' & rest & Hset & -> & Hn' & Hsem).
  cbn [ns_model mk_nstate]. exists (mid_items ml'). split; [apply mid_param_items, Hn'|]. split; [apply Hsem|].
  exact (proj2 (addresses_g (mid_cands ml) named qs _ _ Hnd Hlen Hsem Hcons Hprio Hties)).
Qed.

(** ** C12 *)
Lemma named_kwargs_vals named qs : NoDup named -> named_kwargs named (vals qs) [] = combine named (vals qs).
Proof. intros Hnd. unfold named_kwargs. cbn [kw_update fold_left]. apply dict_of_NoDup_id, combine_keys_NoDup, Hnd. Qed.

Theorem midline_named_global_scored : C12_midline_named_global_scored_stmt.
Proof.
  intros R lik m names v g Hsafe Hdk Hnd Hlen Hg Hcons Hprio Hties r. subst r.
  pose proof (safe_set_ok_mid m Hsafe) as Hok. pose proof (safe_names_ok_mid m Hsafe) as Hok'.
  unfold m_names in *. rewrite safe_items_mid in *.
  rewrite (mid_named_given R lik m names v g Hok' Hnd Hlen Hg). cbn [fst snd].
  destruct (m_set_params m [] (combine names (vals v))) as [m' [rest|]] eqn:Eset; cbn [fst snd]; [right | left; reflexivity].
  split; [reflexivity|].
  destruct (mid_kw_sem m _ m' rest Hok (named_kwargs_NoDup names (vals v) []) Hdk) as [Hn' Hsem];
    [rewrite (named_kwargs_vals names v Hnd); exact Eset|].
  destruct (addresses_g (mid_cands m) names v _ _ Hnd Hlen Hsem Hcons Hprio Hties) as [Hval Hkeep].
  rewrite (mid_param_items m' Hn'). cbn [option_map]. split; [rewrite (proj1 Hsem); reflexivity|]. split.
  - intros n q k Hin Hk Hm Hmax. apply in_map_iff in Hk. destruct Hk as ([k' old] & <- & Hio). cbn [fst] in *.
    rewrite (Hval n q k' old Hin Hio Hm Hmax). reflexivity.
  - intros k old Hio Hno. rewrite (Hkeep k old Hio Hno). reflexivity.
Qed.

Theorem midline_named_global_reads_back : C12_midline_named_global_reads_back_stmt.
Proof.
  intros R lik m names v g Hsafe Hdk Hnd Hlen Hg Hcons Hprio Hties Howns r. subst r.
  pose proof (safe_set_ok_mid m Hsafe) as Hok. pose proof (safe_names_ok_mid m Hsafe) as Hok'.
  unfold m_names in *. rewrite safe_items_mid in *.
  rewrite (mid_named_given R lik m names v g Hok' Hnd Hlen Hg). cbn [fst snd].
  destruct (m_set_params m [] (combine names (vals v))) as [m' [rest|]] eqn:Eset; cbn [fst snd]; [|discriminate]. intros _.
  destruct (mid_kw_sem m _ m' rest Hok (named_kwargs_NoDup names (vals v) []) Hdk) as [Hn' Hsem];
    [rewrite (named_kwargs_vals names v Hnd); exact Eset|].
  assert (Hget : get_named_params (mk_nstate (MMid m') (Some names)) = inr (combine names v)).
  { rewrite (mid_get_named m' names Hn'). f_equal.
    exact (get_named_g (mid_cands m) names v _ _ Hnd Hlen Hsem Hcons Hprio Hties Howns). }
  split; [exact Hget|]. unfold get_num_dims. rewrite Hget, combine_length, Hlen, Nat.min_id. reflexivity.
Qed.

(** * With the mixing parameter, [mid_prio_ok] follows from [mid_names_consistent] *)
(** (all routing prefixes have one component, as in a Bilateral model) *)
Definition C17_midline_prio_ok_mixing_stmt : Prop :=
  forall ml named, mid_set_ok ml = true -> ml_mixing ml <> None ->
    mid_names_consistent ml (map fst (mid_items ml)) named = true ->
    mid_prio_ok ml (map fst (mid_items ml)) named = true.

Lemma desc_len_filter (f : path -> bool) l : desc_len l -> desc_len (filter f l).
Proof.
  induction l as [|a l IH]; cbn [filter desc_len]; [auto|]. intros [H1 H2]. destruct (f a); [|apply IH, H2].
  cbn [desc_len]. split; [|apply IH, H2]. intros b Hb. apply filter_In in Hb. apply H1, Hb.
Qed.
Lemma spread_cands_desc1 p n s : desc_len (spread_cands [p] n s).
Proof.
  unfold spread_cands. cbn [app desc_len In length].
  repeat split; intros b Hb; repeat (destruct Hb as [<-|Hb]; [cbn [length]; lia|]); destruct Hb.
Qed.

Theorem midline_prio_ok_mixing : C17_midline_prio_ok_mixing_stmt.
Proof.
  intros ml named Hok Hmix Hcons.
  assert (Hok' : mid_names_ok ml = true) by (unfold mid_set_ok in Hok; rewrite !andb_true_iff in Hok; apply Hok).
  assert (Heiok : u_names_ok (ml_ei ml) = true) by apply (m_ok_parts ml Hok').
  pose proof (cons_g_spec (mid_cands ml) _ _ Hcons) as Hcs.
  unfold mid_prio_ok. apply forallb_forall. intros k Hk. apply desc_len_lenb.
  pose proof (mid_nform ml k Hok' Hk) as Hf. destruct Hf; try congruence.
  - apply desc_len_filter, spread_cands_desc1.
  - apply desc_len_filter, spread_cands_desc1.
  - apply desc_len_filter, spread_cands_desc1.
  - apply desc_len_filter, spread_cands_desc1.
  - apply desc_len_filter. cbn [mid_cands desc_len]. split; [intros b []| exact I].
  - rewrite (cands_lnl ml Hok n s H). apply desc_len_filter. cbn [desc_len In length].
    repeat split; intros b Hb; repeat (destruct Hb as [<-|Hb]; [cbn [length]; lia|]); destruct Hb.
  - (* a distribution parameter: only "t_k" and "k" can be declared *)
    rewrite (cands_dist ml t k H).
    assert (Hno : forall c, In c [["ext"; "ipsi"; t; k]; ["ipsi"; t; k]; ["ext"; t; k]; ["ext"; "ipsi"; k]; ["ipsi"; k]; ["ext"; k]] ->
                    memp c named = false).
    { intros c Hc. destruct (memp c named) eqn:E; [|reflexivity]. exfalso. apply memp_In in E.
      pose proof (Hcs c [t; k] E Hk) as Hd. rewrite (cands_dist ml t k H) in Hd.
      assert (Hcc : memp c (dist_cands t k) = true) by (apply memp_In; unfold dist_cands; cbn [In] in Hc |- *; tauto).
      rewrite Hcc in Hd. pose proof (dcio_length _ _ Hd) as Hl. cbn [In] in Hc.
      repeat (destruct Hc as [<-|Hc]; [first [ cbn [length] in Hl; lia
                | apply dcio_same_length in Hd; [|reflexivity]; injection Hd as Hd;
                  apply (TS_res ml Hok' t H); rewrite <- Hd; cbn; tauto ] |]).
      destruct Hc. }
    unfold dist_cands. cbn [filter].
    rewrite (Hno ["ext"; "ipsi"; t; k]) by (cbn [In]; tauto). rewrite (Hno ["ipsi"; t; k]) by (cbn [In]; tauto).
    rewrite (Hno ["ext"; t; k]) by (cbn [In]; tauto). rewrite (Hno ["ext"; "ipsi"; k]) by (cbn [In]; tauto).
    rewrite (Hno ["ipsi"; k]) by (cbn [In]; tauto). rewrite (Hno ["ext"; k]) by (cbn [In]; tauto).
    destruct (memp [t; k] named), (memp [k] named); cbn [desc_len In length]; repeat split;
      intros b Hb; repeat (destruct Hb as [<-|Hb]; [cbn [length]; lia|]); destruct Hb.
  - assert (Ec : mid_cands ml ["midext"; "prob"] = [["midext"; "prob"]]).
    { unfold mid_cands. assert (E1 : mem "midext" (u_tstages (ml_ei ml)) = false).
      { apply mem_false. intros Ht. apply (in_reserved_not_tstage (ml_ei ml) "midext" Heiok); [cbn; tauto | exact Ht]. }
      rewrite E1. reflexivity. }
    rewrite Ec. apply desc_len_filter. cbn [desc_len]. split; [intros b []| exact I].
Qed.

(** * The restrictions are needed: refutations with witnesses *)
(** a declared name that MATCHES reported parameters which [set_params] does not reach
    through it: without the mixing parameter, "contra_spread" is a sub-name of
    "noext_contra_TtoII_spread" / "ext_contra_TtoII_spread", but [set_tumor_spread_params]
    hands only "noext_contra_..." / "ext_contra_..." keywords to those sub-models;
    [mid_names_consistent] fails and [get_named_params] does not read the value back *)
Definition C17_midline_names_consistent_needed_refuted_stmt : Prop :=
  exists (ml : midline) (named : list path) (qs : list Qc),
    m_names_ok ml = true /\ mid_dist_kw_ok ml = true /\ NoDup named /\ length qs = length named /\
    option_map (fun ns => (mid_names_consistent ml ns named, mid_prio_ok ml ns named, no_ties ns named, each_owns ns named))
               (param_names (MMid ml)) = Some (false, true, true, true) /\
    let r := set_named_params (mk_nstate (MMid ml) (Some named)) (vals qs) [] in
    snd r = inr tt /\ out_res_items (get_named_params (fst r)) <> Some (out_items (combine named qs)).
(** [mid_prio_ok] is needed (without the mixing parameter): "TtoII_spread" and
    "noext_contra_spread" both address "noext_contra_TtoII_spread"; [set_params] gives priority
    to the arc name, [get_named_params] attributes the parameter to the name with more "_" *)
Definition C17_midline_prio_needed_refuted_stmt : Prop :=
  exists (ml : midline) (named : list path) (qs : list Qc),
    m_names_ok ml = true /\ mid_dist_kw_ok ml = true /\ NoDup named /\ length qs = length named /\
    option_map (fun ns => (mid_names_consistent ml ns named, mid_prio_ok ml ns named, no_ties ns named, each_owns ns named))
               (param_names (MMid ml)) = Some (true, false, true, true) /\
    let r := set_named_params (mk_nstate (MMid ml) (Some named)) (vals qs) [] in
    snd r = inr tt /\ out_res_items (get_named_params (fst r)) <> Some (out_items (combine named qs)).
(** a declared name that sets a parameter it does NOT match: "ipsi_p" reaches the
    distribution parameter "late_p" (distributions are read from ext.ipsi); the Midline
    counterpart of [C17_side_global_leak_refuted_stmt] *)
Definition C17_midline_side_keyword_leak_refuted_stmt : Prop :=
  exists (ml : midline) (n k : path) (q : Qc),
    m_names_ok ml = true /\ mid_dist_kw_ok ml = true /\ does_contain_in_order k n = false /\
    option_map (fun ns => mid_names_consistent ml ns [n]) (param_names (MMid ml)) = Some false /\
    let r := set_named_params (mk_nstate (MMid ml) (Some [n])) [V q] [] in
    snd r = inr tt /\
    option_map (fun l => option_map qout (kw_get k l)) (param_items (MMid ml)) = Some (Some (1, 3)%Z) /\
    option_map (fun l => option_map qout (kw_get k l)) (param_items (ns_model (fst r))) = Some (Some (1, 4)%Z).

Definition C17g_nomix : midline :=
  new_midline (new_uni C17_g1 [("late", Param 0 [("p", qc 1 3)])] 3) false false false false false.
Theorem midline_names_consistent_needed_refuted : C17_midline_names_consistent_needed_refuted_stmt.
Proof.
  exists C17g_nomix, [["contra"; "spread"]], [qc 1 4].
  split; [vm_compute; reflexivity|]. split; [vm_compute; reflexivity|].
  split; [repeat constructor; intros []|]. split; [reflexivity|]. split; [vm_compute; reflexivity|].
  cbv zeta. split; [vm_compute; reflexivity|]. intros H. vm_compute in H. discriminate H.
Qed.
Theorem midline_prio_needed_refuted : C17_midline_prio_needed_refuted_stmt.
Proof.
  exists C17g_nomix, [["TtoII"; "spread"]; ["noext"; "contra"; "spread"]], [qc 1 4; qc 3 4].
  split; [vm_compute; reflexivity|]. split; [vm_compute; reflexivity|].
  split; [repeat constructor; [intros [H|[]]; discriminate H | intros []]|].
  split; [reflexivity|]. split; [vm_compute; reflexivity|].
  cbv zeta. split; [vm_compute; reflexivity|]. intros H. vm_compute in H. discriminate H.
Qed.
Theorem midline_side_keyword_leak_refuted : C17_midline_side_keyword_leak_refuted_stmt.
Proof.
  exists C17g_nomix, ["ipsi"; "p"], ["late"; "p"], (qc 1 4).
  split; [vm_compute; reflexivity|]. split; [vm_compute; reflexivity|]. split; [vm_compute; reflexivity|].
  split; [vm_compute; reflexivity|].
  cbv zeta. split; [vm_compute; reflexivity|]. split; vm_compute; reflexivity.
Qed.

(** [mid_dist_kw_ok] is needed: a distribution keyword that is itself a routing word
    ("late_ext"): the declared global name "ext" matches "late_ext" and is among
    [mid_cands] of it, but [unflatten_and_split] takes the keyword "ext" for the (empty)
    sub-dictionary of the child "ext": nothing is set *)
Definition C17_midline_dist_kw_ok_needed_refuted_stmt : Prop :=
  exists (ml : midline) (named : list path) (qs : list Qc),
    m_names_ok ml = true /\ mid_dist_kw_ok ml = false /\ NoDup named /\ length qs = length named /\
    option_map (fun ns => (mid_names_consistent ml ns named, mid_prio_ok ml ns named, no_ties ns named, each_owns ns named))
               (param_names (MMid ml)) = Some (true, true, true, true) /\
    let r := set_named_params (mk_nstate (MMid ml) (Some named)) (vals qs) [] in
    snd r = inr tt /\ out_res_items (get_named_params (fst r)) <> Some (out_items (combine named qs)).
Definition C17g_extkw : midline :=
  new_midline (new_uni C17_g1 [("late", Param 0 [("ext", qc 1 3)])] 3) true false false false false.
Theorem midline_dist_kw_ok_needed_refuted : C17_midline_dist_kw_ok_needed_refuted_stmt.
Proof.
  exists C17g_extkw, [["ext"]], [qc 1 4].
  split; [vm_compute; reflexivity|]. split; [vm_compute; reflexivity|].
  split; [repeat constructor; intros []|]. split; [reflexivity|]. split; [vm_compute; reflexivity|].
  cbv zeta. split; [vm_compute; reflexivity|]. intros H. vm_compute in H. discriminate H.
Qed.
