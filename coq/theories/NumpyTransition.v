(** NumpyTransition: [matrix.generate_transition] read with full N x N index matrices, exactly as the numpy code
    manipulates them (index grids from [get_state_idx_matrix], [.T], fancy indexing of the arc tensor, [np.where]),
    and the proof that this reading equals the column-based Impl model [Transition.generate_transition].
    The source translator (harness/translate2.py) re-generates [np_generate_transition] from the Python source on
    every run and checks the generated term against this one by conversion. *)
From LymphModel Require Import Base States Linalg Numpy Graph Transition TransitionProofs.
Local Open Scope nat_scope.

(** * element-wise operations on 2-D arrays of equal shape *)
Fixpoint map4 {A B C D E} (f : A -> B -> C -> D -> E) (la : list A) (lb : list B) (lc : list C) (ld : list D) : list E :=
  match la, lb, lc, ld with
  | a :: la', b :: lb', c :: lc', d :: ld' => f a b c d :: map4 f la' lb' lc' ld'
  | _, _, _, _ => []
  end.
Definition np_map2 {A B C} (f : A -> B -> C) := map2 (map2 f).
Definition np_map3 {A B C D} (f : A -> B -> C -> D) := map3 (map3 f).
Definition np_map4 {A B C D E} (f : A -> B -> C -> D -> E) := map4 (map4 f).
(** M.T for a rectangular 2-D array *)
Definition np_transpose {A} (d : A) (M : list (list A)) : list (list A) :=
  map (fun j => map (fun r => nth j r d) M) (seq 0 (match M with [] => 0 | r :: _ => length r end)).
(** np.ones(shape=(r, c)) *)
Definition np_ones (r c : nat) : mat := repeat (repeat 1%Qc c) r.

(** an index grid whose rows are constant (what [get_state_idx_matrix] returns) *)
Definition rowconst {A} (N : nat) (col : list A) : list (list A) := map (fun c => repeat c N) col.

Lemma nth_repeat' {A} (c d : A) N j : j < N -> nth j (repeat c N) d = c.
Proof. revert j. induction N as [|N IH]; intros [|j] H; cbn [repeat nth]; try lia; [reflexivity|apply IH; lia]. Qed.

Lemma transpose_rowconst {A} (d : A) N col : length col = N -> np_transpose d (rowconst N col) = repeat col N.
Proof.
  intros H. unfold np_transpose, rowconst.
  assert (HN : (match map (fun c : A => repeat c N) col with [] => 0 | r :: _ => length r end) = N).
  { destruct col as [|c col]; cbn [map]; [cbn [length] in H; lia|apply repeat_length]. }
  rewrite HN. rewrite <- (seq_length N 0) at 2. rewrite <- map_const_repeat.
  apply map_ext_in. intros j Hj. apply in_seq in Hj. rewrite map_map.
  rewrite <- (map_id col) at 2. apply map_ext. intros c. apply nth_repeat'. lia.
Qed.

Lemma map2_repeat_l {A B C} (g : A -> B -> C) x : forall N l, length l <= N -> map2 g (repeat x N) l = map (g x) l.
Proof.
  induction N as [|N IH]; intros [|b l] H; cbn [repeat map2 map length] in *; try reflexivity; try lia.
  rewrite IH by lia. reflexivity.
Qed.
Lemma map2_repeat_r {A B C} (g : A -> B -> C) x : forall N l, length l <= N -> map2 g l (repeat x N) = map (fun a => g a x) l.
Proof.
  induction N as [|N IH]; intros [|b l] H; cbn [repeat map2 map length] in *; try reflexivity; try lia.
  rewrite IH by lia. reflexivity.
Qed.
Lemma map3_repeat_3 {A B C D} (g : A -> B -> C -> D) x : forall N la lb, length la <= N ->
  map3 g la lb (repeat x N) = map2 (fun a b => g a b x) la lb.
Proof.
  induction N as [|N IH]; intros [|a la] [|b lb] H; cbn [repeat map3 map2 length] in *; try reflexivity; try lia.
  rewrite IH by lia. reflexivity.
Qed.
Lemma map3_repeat_12 {A B C D} (g : A -> B -> C -> D) x y : forall N l, length l <= N ->
  map3 g (repeat x N) (repeat y N) l = map (g x y) l.
Proof.
  induction N as [|N IH]; intros [|c l] H; cbn [repeat map3 map length] in *; try reflexivity; try lia.
  rewrite IH by lia. reflexivity.
Qed.
Lemma map4_repeat_1 {A B C D E} (g : A -> B -> C -> D -> E) x : forall N lb lc ld, length lb <= N ->
  map4 g (repeat x N) lb lc ld = map3 (g x) lb lc ld.
Proof.
  induction N as [|N IH]; intros [|b lb] [|c lc] [|d ld] H; cbn [repeat map4 map3 length] in *; try reflexivity; try lia.
  rewrite IH by lia. reflexivity.
Qed.
Lemma map4_repeat_2 {A B C D E} (g : A -> B -> C -> D -> E) x : forall N la lc ld, length la <= N ->
  map4 g la (repeat x N) lc ld = map3 (fun a => g a x) la lc ld.
Proof.
  induction N as [|N IH]; intros [|a la] [|c lc] [|d ld] H; cbn [repeat map4 map3 length] in *; try reflexivity; try lia.
  rewrite IH by lia. reflexivity.
Qed.
Lemma map3_map_1 {X A B C D} (g : A -> B -> C -> D) (h : X -> A) : forall l lb lc,
  map3 g (map h l) lb lc = map3 (fun x => g (h x)) l lb lc.
Proof. induction l as [|x l IH]; intros [|b lb] [|c lc]; cbn [map map3]; try reflexivity. rewrite IH. reflexivity. Qed.
Lemma map3_ext_in1 {A B C D} (g g' : A -> B -> C -> D) : forall la lb lc,
  (forall a b c, In a la -> g a b c = g' a b c) -> map3 g la lb lc = map3 g' la lb lc.
Proof.
  induction la as [|a la IH]; intros [|b lb] [|c lc] H; cbn [map3]; try reflexivity.
  rewrite H by (left; reflexivity). rewrite IH; [reflexivity|]. intros; apply H; right; assumption.
Qed.
Lemma map2_map_l {X A B C} (g : A -> B -> C) (h : X -> A) : forall l lb, map2 g (map h l) lb = map2 (fun x => g (h x)) l lb.
Proof. induction l as [|x l IH]; intros [|b lb]; cbn [map map2]; try reflexivity. rewrite IH. reflexivity. Qed.
Lemma map2_map_r {X A B C} (g : A -> B -> C) (h : X -> B) : forall la l, map2 g la (map h l) = map2 (fun a x => g a (h x)) la l.
Proof. induction la as [|a la IH]; intros [|x l]; cbn [map map2]; try reflexivity. rewrite IH. reflexivity. Qed.
Lemma map2_diag {A C} (g : A -> A -> C) l : map2 g l l = map (fun a => g a a) l.
Proof. induction l as [|a l IH]; cbn [map map2]; [reflexivity|]. rewrite IH. reflexivity. Qed.
Lemma map2_ext_in {A B C} (g g' : A -> B -> C) : forall la lb,
  (forall a b, In a la -> g a b = g' a b) -> map2 g la lb = map2 g' la lb.
Proof.
  induction la as [|a la IH]; intros [|b lb] H; cbn [map2]; try reflexivity.
  rewrite H by (left; reflexivity). rewrite IH; [reflexivity|]. intros; apply H; right; assumption.
Qed.

(** the four index patterns of [generate_transition]; [col] is the digit column of the LNL, of length N *)
Section Grids.
  Context {A : Type}.
  Variables (N : nat) (col : list A).
  Hypothesis Hcol : length col = N.

  (** new == current : np_map2 over (new_state_idx, current_state_idx) = (column form, row-constant form) *)
  Lemma np_map2_C_R {C} (f : A -> A -> C) :
    np_map2 f (repeat col N) (rowconst N col) = map (fun c => map (fun nw => f nw c) col) col.
  Proof.
    unfold np_map2, rowconst. rewrite map2_repeat_l by (rewrite map_length; lia). rewrite map_map.
    apply map_ext. intros c. apply map2_repeat_r. lia.
  Qed.
  (** tensor[0, current, new] *)
  Lemma np_map2_R_C {C} (f : A -> A -> C) :
    np_map2 f (rowconst N col) (repeat col N) = map (fun c => map (fun nw => f c nw) col) col.
  Proof.
    unfold np_map2, rowconst. rewrite map2_repeat_r by (rewrite map_length; lia). rewrite map_map.
    apply map_ext. intros c. apply map2_repeat_l. lia.
  Qed.
  (** tensor[parent, current, new] *)
  Lemma np_map3_R_R_C {P C} (f : P -> A -> A -> C) (par : list P) :
    length par = N ->
    np_map3 f (rowconst N par) (rowconst N col) (repeat col N)
    = map2 (fun p c => map (fun nw => f p c nw) col) par col.
  Proof.
    intros Hp. unfold np_map3, rowconst. rewrite map3_repeat_3 by (rewrite map_length; lia).
    rewrite map2_map_l, map2_map_r. apply map2_ext_in. intros p c _.
    rewrite map3_repeat_12 by lia. reflexivity.
  Qed.
  (** np.where(new == current + 1, f(M, G), g(M, G)) *)
  Lemma np_map4_C_R {B C D} (F : A -> A -> B -> C -> D) (M : list (list B)) (G : list (list C)) :
    np_map4 F (repeat col N) (rowconst N col) M G
    = map3 (fun c Mrow Grow => map3 (fun nw m g => F nw c m g) col Mrow Grow) col M G.
  Proof.
    unfold np_map4, rowconst. rewrite map4_repeat_1 by (rewrite map_length; lia).
    rewrite map3_map_1. apply map3_ext_in1. intros c Mrow Grow _.
    apply map4_repeat_2. lia.
  Qed.
End Grids.

(** * generate_transition with numpy's index grids *)
Open Scope Qc_scope.
Definition np_state_idx (k n b : nat) : list (list nat) :=
  np_repeat0 (np_tile2 (np_col (seq 0 b)) (b ^ k) (b ^ n)) (b ^ (n - k - 1)).

Definition np_generate_transition (lnl_names : list string) (inc : string -> list edge) (tt : edge -> tensor)
  (num_states : nat) : mat :=
  let num_lnls := length lnl_names in
  let transition_matrix := np_ones (num_states ^ num_lnls) (num_states ^ num_lnls) in
  fold_left (fun (transition_matrix : mat) '(i, lnl) =>
      let current_state_idx := np_state_idx i num_lnls num_states in
      let new_state_idx := np_transpose 0%nat current_state_idx in
      let lnl_transition_matrix := np_map2 (fun a b => if Nat.eqb a b then 1 else 0) new_state_idx current_state_idx in
      let lnl_transition_matrix :=
        fold_left (fun (lnl_transition_matrix : mat) (edge : edge) =>
            let edge_transition_grid :=
              if is_tumor_spread edge
              then np_map2 (fun c nw => tget (tt edge) 0 c nw) current_state_idx new_state_idx
              else
                let parent_node_i := index_of (e_parent edge) lnl_names in
                let parent_state_idx := np_state_idx parent_node_i num_lnls num_states in
                np_map3 (fun p c nw => tget (tt edge) p c nw) parent_state_idx current_state_idx new_state_idx in
            np_map4 (fun nw c m g => if Nat.eqb nw (c + 1) then 1 - (1 - m) * (1 - g) else m * g)
                    new_state_idx current_state_idx lnl_transition_matrix edge_transition_grid)
          (inc lnl) lnl_transition_matrix in
      hadamard transition_matrix lnl_transition_matrix)
    (combine (seq 0 num_lnls) lnl_names) transition_matrix.

Lemma state_idx_col_length k n b : (k < n)%nat -> length (state_idx_col k n b) = (b ^ n)%nat.
Proof. intros H. rewrite <- (digits_of_all_states b n k H), map_length. apply all_states_length. Qed.

Lemma fold_left_ext_in {A B} (f g : A -> B -> A) l :
  (forall a b, In b l -> f a b = g a b) -> forall acc, fold_left f l acc = fold_left g l acc.
Proof.
  induction l as [|b l IH]; intros H acc; cbn [fold_left]; [reflexivity|].
  rewrite H by (left; reflexivity). apply IH. intros; apply H; right; assumption.
Qed.

Lemma np_lnl_matrix g i lnl : wf_graphb g = true -> (i < nlnls g)%nat ->
  (let current_state_idx := np_state_idx i (nlnls g) (g_base g) in
   let new_state_idx := np_transpose 0%nat current_state_idx in
   fold_left (fun (lnl_transition_matrix : mat) (edge : edge) =>
      let edge_transition_grid :=
        if is_tumor_spread edge
        then np_map2 (fun c nw => tget (transition_tensor (g_base g) edge) 0 c nw) current_state_idx new_state_idx
        else
          let parent_node_i := index_of (e_parent edge) (lnls g) in
          let parent_state_idx := np_state_idx parent_node_i (nlnls g) (g_base g) in
          np_map3 (fun p c nw => tget (transition_tensor (g_base g) edge) p c nw) parent_state_idx current_state_idx new_state_idx in
      np_map4 (fun nw c m gr => if Nat.eqb nw (c + 1) then 1 - (1 - m) * (1 - gr) else m * gr)
              new_state_idx current_state_idx lnl_transition_matrix edge_transition_grid)
     (inc_edges g lnl)
     (np_map2 (fun a b => if Nat.eqb a b then 1 else 0) new_state_idx current_state_idx))
  = lnl_transition_matrix g i lnl.
Proof.
  intros Hwf Hi. cbv zeta. unfold lnl_transition_matrix. cbv zeta.
  set (N := (g_base g ^ nlnls g)%nat).
  set (cur := state_idx_col i (nlnls g) (g_base g)).
  assert (Hcur : length cur = N) by (apply state_idx_col_length; exact Hi).
  assert (Hidx : forall k, np_state_idx k (nlnls g) (g_base g) = rowconst N (state_idx_col k (nlnls g) (g_base g)))
    by (intros k; apply np_state_idx_matrix).
  rewrite !(Hidx i). fold cur.
  rewrite (transpose_rowconst 0%nat N cur Hcur).
  rewrite (np_map2_C_R N cur Hcur).
  apply fold_left_ext_in. intros M e He.
  destruct (is_tumor_spread e) eqn:T.
  - rewrite (np_map2_R_C N cur Hcur), (np_map4_C_R N cur Hcur).
    rewrite map2_repeat_l by lia. reflexivity.
  - rewrite Hidx.
    assert (Hpar : length (state_idx_col (index_of (e_parent e) (lnls g)) (nlnls g) (g_base g)) = N).
    { apply inc_edges_In in He. destruct He as [He _].
      pose proof (par_col g e Hwf He) as Hp. rewrite T in Hp. rewrite Hp, map_length.
      unfold state_list. apply all_states_length. }
    rewrite (np_map3_R_R_C N cur Hcur _ _ Hpar), (np_map4_C_R N cur Hcur). reflexivity.
Qed.

Lemma np_generate_transition_eq g : wf_graphb g = true ->
  np_generate_transition (lnls g) (inc_edges g) (transition_tensor (g_base g)) (g_base g) = generate_transition g.
Proof.
  intros Hwf. unfold np_generate_transition, generate_transition. cbv zeta. fold (nlnls g).
  unfold np_ones, ones.
  apply fold_left_ext_in. intros TM [i lnl] Hil. f_equal.
  apply (np_lnl_matrix g i lnl Hwf). apply in_combine_l in Hil. apply in_seq in Hil. lia.
Qed.
