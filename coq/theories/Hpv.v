(** Hpv: the cohort likelihood of [models.HPVUnilateral]: patients are split by HPV
    status ([Cohort.hpv_load]) and scored by the HPV+ resp. HPV- unilateral model;
    patients with missing status are not scored.  Definitions, statements and the
    (short) proofs. *)
From LymphModel Require Import Base States Linalg Graph Transition Observation Dist Unilateral UniStatements Models Bilateral Midline Cohort LikelihoodProofs.
Local Open Scope nat_scope.
Open Scope Qc_scope.

(** HPVUnilateral._hmm_likelihood: the sum (log) resp. product (linear) of hpv._hmm_likelihood and nohpv._hmm_likelihood *)
Definition hpv_likelihood_factors (h : hpvmodel) (pos neg : list patient) (t : option string) : res vec :=
  bind (hmm_likelihood_factors (h_hpv h) pos t) (fun a =>
  bind (hmm_likelihood_factors (h_nohpv h) neg t) (fun b => inr (a ++ b))).
(** load_patient_data followed by likelihood *)
Definition hpv_cohort_factors (h : hpvmodel) (table : list hpatient) (t : option string) : res vec :=
  hpv_likelihood_factors h (fst (hpv_load table)) (snd (hpv_load table)) t.

Definition C13_hpv_likelihood_is_sum_stmt : Prop :=
  forall h table t a b,
    hmm_likelihood_factors (h_hpv h) (map hp_pat (filter (fun p => is_true (hp_status p)) table)) t = inr a ->
    hmm_likelihood_factors (h_nohpv h) (map hp_pat (filter (fun p => is_false (hp_status p)) table)) t = inr b ->
    hpv_cohort_factors h table t = inr (a ++ b).
(** patients whose status is missing do not enter the likelihood at all *)
Definition C13_hpv_missing_status_dropped_stmt : Prop :=
  forall h table t,
    hpv_cohort_factors h table t
    = hpv_cohort_factors h (filter (fun p => negb (is_none (hp_status p))) table) t.
(** one factor per scored patient of the requested stage *)
Definition C13_hpv_scored_count_stmt : Prop :=
  forall h table ts v, hpv_cohort_factors h table (Some ts) = inr v ->
    length v = length (filter (fun p => negb (is_none (hp_status p)) && str_eqb (p_tstage (hp_pat p)) ts) table).

Lemma hpv_likelihood_is_sum : C13_hpv_likelihood_is_sum_stmt.
Proof.
  intros h table t a b Ha Hb. unfold hpv_cohort_factors, hpv_likelihood_factors, hpv_load. cbn [fst snd].
  rewrite Ha. cbn [bind]. rewrite Hb. reflexivity.
Qed.

Lemma filter_filter {A} (f g : A -> bool) l : filter f (filter g l) = filter (fun x => f x && g x) l.
Proof.
  induction l as [|x l IH]; cbn [filter]; [reflexivity|].
  destruct (g x); cbn [filter]; destruct (f x); cbn [andb]; rewrite ?IH; reflexivity.
Qed.

Lemma hpv_missing_status_dropped : C13_hpv_missing_status_dropped_stmt.
Proof.
  intros h table t. unfold hpv_cohort_factors, hpv_load. cbn [fst snd].
  rewrite !filter_filter.
  assert (E1 : filter (fun p => is_true (hp_status p)) table
               = filter (fun x => is_true (hp_status x) && negb (is_none (hp_status x))) table).
  { apply filter_ext. intros p. destruct (hp_status p) as [[|]|]; reflexivity. }
  assert (E2 : filter (fun p => is_false (hp_status p)) table
               = filter (fun x => is_false (hp_status x) && negb (is_none (hp_status x))) table).
  { apply filter_ext. intros p. destruct (hp_status p) as [[|]|]; reflexivity. }
  rewrite <- E1, <- E2. reflexivity.
Qed.

Lemma filter_map_comm {A B} (g : B -> bool) (h : A -> B) l :
  filter g (map h l) = map h (filter (fun x => g (h x)) l).
Proof.
  induction l as [|x l IH]; cbn [map filter]; [reflexivity|].
  destruct (g (h x)); cbn [map]; rewrite IH; reflexivity.
Qed.

Lemma hpv_scored_count : C13_hpv_scored_count_stmt.
Proof.
  intros h table ts v H. unfold hpv_cohort_factors, hpv_likelihood_factors, hpv_load in H. cbn [fst snd] in H.
  destruct (hmm_likelihood_factors (h_hpv h) _ (Some ts)) as [e|a] eqn:Ha; cbn [bind] in H; [discriminate|].
  destruct (hmm_likelihood_factors (h_nohpv h) _ (Some ts)) as [e|b] eqn:Hb; cbn [bind] in H; [discriminate|].
  injection H as <-.
  rewrite app_length.
  rewrite (t_stage_restriction _ _ _ _ Ha), (t_stage_restriction _ _ _ _ Hb).
  unfold select. rewrite !filter_map_comm, !map_length, !filter_filter.
  clear Ha Hb a b h.
  induction table as [|p table IH]; cbn [filter length]; [reflexivity|].
  destruct (hp_status p) as [[|]|]; cbn [is_true is_false is_none negb andb];
    destruct (str_eqb (p_tstage (hp_pat p)) ts); cbn [andb length]; lia.
Qed.
