(** HashProofs: proofs of the C20 statements of Hash.v. *)
From LymphModel Require Import Base States Linalg Graph Transition Observation Dist Hash.
Local Open Scope nat_scope.
Open Scope Qc_scope.

(** * Boolean equalities *)
Lemma Qc_eqb_eq x y : Qc_eqb x y = true <-> x = y.
Proof. unfold Qc_eqb. destruct (Qc_eq_dec x y); split; intros; auto; try discriminate; contradiction. Qed.
Lemma vec_eqb_eq u : forall v, vec_eqb u v = true <-> u = v.
Proof.
  induction u as [|a u IH]; intros [|b v]; cbn [vec_eqb]; split; intros H; try reflexivity; try discriminate.
  - apply andb_true_iff in H. destruct H as [H1 H2]. apply Qc_eqb_eq in H1. apply IH in H2. subst. reflexivity.
  - injection H as -> ->. apply andb_true_iff. split; [apply Qc_eqb_eq; reflexivity | apply IH; reflexivity].
Qed.
Lemma mat_eqb_eq A : forall B, mat_eqb A B = true <-> A = B.
Proof.
  induction A as [|r A IH]; intros [|s B]; cbn [mat_eqb]; split; intros H; try reflexivity; try discriminate.
  - apply andb_true_iff in H. destruct H as [H1 H2]. apply vec_eqb_eq in H1. apply IH in H2. subst. reflexivity.
  - injection H as -> ->. apply andb_true_iff. split; [apply vec_eqb_eq; reflexivity | apply IH; reflexivity].
Qed.

Lemma base23_cases b : base23 b = true -> b = 2%nat \/ b = 3%nat.
Proof. unfold base23. intros H. apply orb_true_iff in H. destruct H as [H|H]; apply Nat.eqb_eq in H; auto. Qed.

Lemma str_eqb_refl s : str_eqb s s = true.
Proof. apply String.eqb_refl. Qed.
Lemma str_eqb_eq s t : str_eqb s t = true <-> s = t.
Proof. apply String.eqb_eq. Qed.
Lemma str_eqb_neq s t : str_eqb s t = false <-> s <> t.
Proof. apply String.eqb_neq. Qed.
Lemma mem_In' s l : mem s l = true <-> In s l.
Proof.
  induction l as [|a l IH]; cbn [mem In].
  - split; [discriminate|tauto].
  - rewrite orb_true_iff, IH, str_eqb_eq. split; intros [H|H]; auto.
Qed.
Lemma mem_false s l : mem s l = false <-> ~ In s l.
Proof.
  rewrite <- mem_In'. destruct (mem s l); split; intros H.
  - discriminate.
  - exfalso. apply H. reflexivity.
  - discriminate.
  - reflexivity.
Qed.

(** * Modalities *)
Lemma mod_eq_iff_key_eq : C20_mod_eq_iff_key_eq_stmt.
Proof. intros b m1 m2. unfold mod_eq, mod_key. apply mat_eqb_eq. Qed.

Lemma mod_mixed_arity : C20_mod_mixed_arity_stmt.
Proof.
  intros m1 m2.
  assert (K : forall a b, confusion_matrix 2 a <> confusion_matrix 3 b).
  { intros a b H. apply (f_equal (@length _)) in H. unfold confusion_matrix in H. cbn [Nat.eqb] in H.
    destruct (m_path b); cbn [length] in H; discriminate. }
  repeat split.
  - unfold mod_eq2. destruct (mat_eqb _ _) eqn:E; [|reflexivity]. apply mat_eqb_eq in E. exfalso. exact (K _ _ E).
  - unfold mod_eq2. destruct (mat_eqb _ _) eqn:E; [|reflexivity]. apply mat_eqb_eq in E. exfalso. exact (K _ _ (eq_sym E)).
  - unfold mod_key. apply K.
Qed.

Lemma Qc_compl_compl a : 1 - (1 - a) = a.
Proof. ring. Qed.

(** [injection] on an equation between [Qc] expressions would unfold the record;
    lists are taken apart with these instead *)
Lemma cons_inj {A} (a b : A) l1 l2 : a :: l1 = b :: l2 -> a = b /\ l1 = l2.
Proof. intros H. injection H as H1 H2. split; assumption. Qed.
Lemma pair_inj {A B} (a a' : A) (b b' : B) : (a, b) = (a', b') -> a = a' /\ b = b'.
Proof. intros H. injection H as H1 H2. split; assumption. Qed.
Ltac linj := repeat match goal with
  | H : _ :: _ = _ :: _ |- _ => apply cons_inj in H; destruct H
  | H : (_, _) = (_, _) |- _ => apply pair_inj in H; destruct H
  | H : @nil _ = @nil _ |- _ => clear H
  end.

Lemma mod_key_characterisation : C20_mod_key_characterisation_stmt.
Proof.
  intros b [sp1 sn1 k1] [sp2 sn2 k2] Hb. apply base23_cases in Hb.
  unfold mod_key, confusion_matrix. cbn [m_spec m_sens m_path].
  destruct Hb as [-> | ->]; cbn [Nat.eqb].
  - split.
    + intros H. linj. repeat split; try assumption. intros; discriminate.
    + intros (-> & -> & _). reflexivity.
  - destruct k1, k2; split; intros H.
    + linj. repeat split; try assumption. intros _. left. reflexivity.
    + destruct H as (-> & -> & _). reflexivity.
    + linj. repeat split; try assumption. intros _. right. congruence.
    + destruct H as (<- & <- & H). destruct (H eq_refl) as [H'|H']; [discriminate|].
      rewrite H'. rewrite Qc_compl_compl. reflexivity.
    + linj. repeat split; try assumption. intros _. right. congruence.
    + destruct H as (<- & <- & H). destruct (H eq_refl) as [H'|H']; [discriminate|].
      rewrite H'. rewrite Qc_compl_compl. reflexivity.
    + linj. repeat split; try assumption. intros _. left. reflexivity.
    + destruct H as (-> & -> & _). reflexivity.
Qed.

Lemma spec_edit_changes_key : C20_spec_edit_changes_key_stmt.
Proof.
  intros b [sp1 sn1 k1] [sp2 sn2 k2]. cbn [m_spec]. intros Hne H. apply Hne.
  unfold mod_key, confusion_matrix in H. cbn [m_spec m_sens m_path] in H.
  destruct (Nat.eqb b 3); [destruct k1, k2|]; linj; assumption.
Qed.

Lemma last_eq {A} (l1 l2 : list A) d : l1 = l2 -> last l1 d = last l2 d.
Proof. intros ->. reflexivity. Qed.

Lemma sens_edit_changes_key : C20_sens_edit_changes_key_stmt.
Proof.
  intros b [sp1 sn1 k1] [sp2 sn2 k2]. cbn [m_sens]. intros Hne H. apply Hne.
  unfold mod_key, confusion_matrix in H. cbn [m_spec m_sens m_path] in H.
  apply (last_eq _ _ []) in H.
  destruct (Nat.eqb b 3); [destruct k1, k2|]; cbn [last] in H; linj; assumption.
Qed.

Lemma kind_switch_trinary : C20_kind_switch_trinary_stmt.
Proof.
  intros sp sn.
  rewrite (mod_key_characterisation 3 (mk_mod sp sn true) (mk_mod sp sn false) eq_refl).
  cbn [mk_mod m_spec m_sens m_path]. split.
  - intros (_ & _ & H). destruct (H eq_refl) as [H'|H']; [discriminate|exact H'].
  - intros H. repeat split. intros _. right. exact H.
Qed.

(** generate_observation reads a modality only through its confusion matrix *)
Lemma mod_keys_same_observation : C20_mod_keys_same_observation_stmt.
Proof.
  intros b ms1 ms2 n. unfold generate_observation. generalize (repeat [1] (Nat.pow b n)).
  revert ms2. induction ms1 as [|m1 ms1 IH]; intros [|m2 ms2] O H; cbn [map] in H; try discriminate; [reflexivity|].
  injection H as H1 H2. cbn [fold_left]. unfold mod_key in H1. rewrite H1. apply IH. exact H2.
Qed.

Lemma map_Qcmult_1 (v : vec) : map (Qcmult 1) v = v.
Proof. induction v as [|a v IH]; cbn [map]; [reflexivity|]. rewrite IH, Qcmult_1_l. reflexivity. Qed.
Lemma kron_vec_1 (v : vec) : kron_vec [1] v = v.
Proof. unfold kron_vec, vscale. cbn [flat_map]. rewrite app_nil_r. apply map_Qcmult_1. Qed.
Lemma kron_mat_1 (C : mat) : kron_mat [[1]] C = C.
Proof.
  unfold kron_mat. cbn [flat_map]. rewrite app_nil_r.
  induction C as [|r C IH]; cbn [map]; [reflexivity|]. rewrite IH, kron_vec_1. reflexivity.
Qed.
Lemma row_wise_kron_ones (C : mat) : row_wise_kron (repeat [1] (length C)) C = C.
Proof.
  unfold row_wise_kron. induction C as [|r C IH]; cbn [length repeat map2]; [reflexivity|].
  rewrite IH, kron_vec_1. reflexivity.
Qed.
Lemma confusion_length b m : base23 b = true -> length (confusion_matrix b m) = b.
Proof.
  intros Hb. apply base23_cases in Hb. unfold confusion_matrix.
  destruct Hb as [-> | ->]; cbn [Nat.eqb]; [reflexivity|]. destruct (m_path m); reflexivity.
Qed.
(** one LNL, one modality: the observation matrix IS the confusion matrix *)
Lemma observation_single b m : base23 b = true -> generate_observation [m] 1 b = confusion_matrix b m.
Proof.
  intros Hb. unfold generate_observation. cbn [fold_left kron_pow]. rewrite kron_mat_1.
  replace (Nat.pow b 1) with (length (confusion_matrix b m)).
  - apply row_wise_kron_ones.
  - rewrite confusion_length by exact Hb. cbn [Nat.pow]. lia.
Qed.

Lemma mod_key_iff_same_observation : C20_mod_key_iff_same_observation_stmt.
Proof.
  intros b m1 m2 Hb. split.
  - intros H n _. apply mod_keys_same_observation. cbn [map]. rewrite H. reflexivity.
  - intros H. specialize (H 1%nat (le_n 1)). rewrite !observation_single in H by exact Hb. exact H.
Qed.

Lemma kind_switch_trinary_computation : C20_kind_switch_trinary_computation_stmt.
Proof.
  intros sp sn.
  pose proof (kind_switch_trinary sp sn) as H1.
  pose proof (mod_key_iff_same_observation 3 (mk_mod sp sn true) (mk_mod sp sn false) eq_refl) as H2.
  split; intros H.
  - apply H2. apply H1. exact H.
  - apply H1. apply H2. exact H.
Qed.

Lemma kind_irrelevant_binary : C20_kind_irrelevant_binary_stmt.
Proof.
  intros sp sn k1 k2. assert (H : mod_key 2 (mk_mod sp sn k1) = mod_key 2 (mk_mod sp sn k2)) by reflexivity.
  split; [exact H|]. intros n. apply mod_keys_same_observation. cbn [map]. rewrite H. reflexivity.
Qed.

(** * Distributions *)
Lemma frozen_key_defined : C20_frozen_key_defined_stmt.
Proof. intros maxt p. reflexivity. Qed.

Lemma param_key_defined : C20_param_key_defined_stmt.
Proof.
  intros maxt f kw H. unfold dist_key. cbn [pmf dist_updateable dist_keywords].
  destruct (fam_weights f maxt kw) as [w|]; [|contradiction]. cbn [option_map].
  eexists. split; reflexivity.
Qed.

Lemma vec_eqb_refl p : vec_eqb p p = true.
Proof. apply vec_eqb_eq. reflexivity. Qed.

Lemma dict_get_in_nodup {V} (l : list (string * V)) k v :
  nodupb (map fst l) = true -> In (k, v) l -> dict_get k l = Some v.
Proof.
  induction l as [|[k' v'] l IH]; cbn [map fst nodupb dict_get In]; [intros _ []|].
  intros Hn [H|H].
  - injection H as -> ->. rewrite str_eqb_refl. reflexivity.
  - apply andb_true_iff in Hn. destruct Hn as [Hm Hn].
    destruct (str_eqb k k') eqn:E.
    + apply str_eqb_eq in E. subst k'. apply negb_true_iff, mem_false in Hm.
      exfalso. apply Hm. apply (in_map fst) in H. exact H.
    + apply IH; assumption.
Qed.

Lemma kw_eqb_refl kw : nodupb (map fst kw) = true -> kw_eqb kw kw = true.
Proof.
  intros Hn. unfold kw_eqb. rewrite Nat.eqb_refl. cbn [andb]. apply forallb_forall.
  intros [k v] Hin. cbn [fst snd]. rewrite (dict_get_in_nodup kw k v Hn Hin). apply Qc_eqb_eq. reflexivity.
Qed.

Lemma kw_same_order_eq : forall kw1 kw2 : list (string * Qc),
  map fst kw1 = map fst kw2 -> nodupb (map fst kw1) = true ->
  (forall k v, In (k, v) kw1 -> dict_get k kw2 = Some v) -> kw1 = kw2.
Proof.
  induction kw1 as [|[k v] r1 IH]; intros [|[k' v'] r2] Hf Hn Hg; cbn [map fst] in Hf; try discriminate; [reflexivity|].
  injection Hf as <- Hf. cbn [map fst nodupb] in Hn. apply andb_true_iff in Hn. destruct Hn as [Hm Hn].
  apply negb_true_iff, mem_false in Hm.
  assert (Hv : v' = v).
  { specialize (Hg k v (or_introl eq_refl)). cbn [dict_get] in Hg. rewrite str_eqb_refl in Hg. congruence. }
  subst v'. f_equal. apply IH; [exact Hf|exact Hn|].
  intros k2 v2 Hin. specialize (Hg k2 v2 (or_intror Hin)). cbn [dict_get] in Hg.
  destruct (str_eqb k2 k) eqn:E; [|exact Hg].
  apply str_eqb_eq in E. subst k2. exfalso. apply Hm. apply (in_map fst) in Hin. exact Hin.
Qed.

Lemma kw_eqb_same_order kw1 kw2 :
  map fst kw1 = map fst kw2 -> nodupb (map fst kw1) = true -> kw_eqb kw1 kw2 = true -> kw1 = kw2.
Proof.
  intros Hf Hn H. unfold kw_eqb in H. apply andb_true_iff in H. destruct H as [_ H].
  apply kw_same_order_eq; [exact Hf|exact Hn|]. intros k v Hin.
  rewrite forallb_forall in H. specialize (H (k, v) Hin). cbn [fst snd] in H.
  destruct (dict_get k kw2) as [v2|]; [|discriminate]. apply Qc_eqb_eq in H. subst. reflexivity.
Qed.

Lemma dist_eq_implies_key_eq : C20_dist_eq_implies_key_eq_stmt.
Proof.
  intros maxt [p1|f1 kw1] [p2|f2 kw2] Hn Hf; unfold dist_eq, dist_key, kw_nodup in *;
    cbn [dist_updateable dist_keywords negb andb Bool.eqb pmf pmf_eq option_map] in *; intros H.
  - injection H as H. apply vec_eqb_eq in H. subst. split; [reflexivity|discriminate].
  - discriminate.
  - discriminate.
  - destruct (kw_eqb kw1 kw2) eqn:E; cbn [negb] in H; [|discriminate].
    apply (kw_eqb_same_order _ _ Hf Hn) in E. subst kw2.
    destruct (option_map normalize (fam_weights f1 maxt kw1)) as [q1|]; cbn [pmf_eq] in H; [|discriminate].
    destruct (option_map normalize (fam_weights f2 maxt kw1)) as [q2|]; cbn [pmf_eq] in H; [|discriminate].
    injection H as H. apply vec_eqb_eq in H. subst. cbn [option_map]. split; [reflexivity|discriminate].
Qed.

Lemma dist_key_eq_implies_eq : C20_dist_key_eq_implies_eq_stmt.
Proof.
  intros maxt [p1|f1 kw1] [p2|f2 kw2] Hn; unfold dist_eq, dist_key, kw_nodup in *;
    cbn [dist_updateable dist_keywords negb andb Bool.eqb pmf pmf_eq option_map] in *; intros Hs H.
  - injection H as ->. rewrite vec_eqb_refl. reflexivity.
  - destruct (option_map normalize (fam_weights f2 maxt kw2)); cbn [option_map] in H; discriminate.
  - destruct (option_map normalize (fam_weights f1 maxt kw1)); cbn [option_map] in H; [discriminate|].
    exfalso. apply Hs. reflexivity.
  - destruct (option_map normalize (fam_weights f1 maxt kw1)) as [q1|]; cbn [option_map] in *;
      [|exfalso; apply Hs; reflexivity].
    destruct (option_map normalize (fam_weights f2 maxt kw2)) as [q2|]; cbn [option_map] in *; [|discriminate].
    injection H as <- <-. rewrite (kw_eqb_refl kw1 Hn). cbn [negb pmf_eq]. rewrite vec_eqb_refl. reflexivity.
Qed.

Local Open Scope string_scope.
Lemma dist_eq_permuted_keywords : C20_dist_eq_permuted_keywords_stmt.
Proof.
  exists 3%nat, (Param 1 [("a", qc 1 2); ("b", 1%Qc)]), (Param 1 [("b", 1%Qc); ("a", qc 1 2)]).
  split; [reflexivity|]. split; [reflexivity|]. split; [vm_compute; reflexivity|].
  unfold dist_key. cbn [dist_updateable dist_keywords].
  destruct (pmf 3 (Param 1 [("a", qc 1 2); ("b", 1%Qc)])) as [q1|] eqn:E1; [|vm_compute in E1; discriminate].
  destruct (pmf 3 (Param 1 [("b", 1%Qc); ("a", qc 1 2)])) as [q2|]; cbn [option_map]; [|discriminate].
  intros H.
  apply (f_equal (fun o : option dkey =>
                    match o with Some (_, (k, _) :: _, _) => k | _ => "" end)) in H.
  discriminate.
Qed.
Local Close Scope string_scope.

Lemma dist_key_eq_same_pmf : C20_dist_key_eq_same_pmf_stmt.
Proof.
  intros maxt d1 d2. unfold dist_key.
  destruct (pmf maxt d1), (pmf maxt d2); cbn [option_map]; intros H; try discriminate; [|reflexivity].
  injection H as _ _ ->. reflexivity.
Qed.

Lemma keyword_edit_changes_key : C20_keyword_edit_changes_key_stmt.
Proof.
  intros maxt f1 f2 kw1 kw2 Hne. unfold dist_key. cbn [dist_updateable dist_keywords].
  destruct (pmf maxt (Param f1 kw1)), (pmf maxt (Param f2 kw2)); cbn [option_map]; intros Hs H;
    try discriminate; [|apply Hs; reflexivity].
  injection H as H _. apply Hne. exact H.
Qed.

Lemma frozen_vs_param_key_differs : C20_frozen_vs_param_key_differs_stmt.
Proof.
  intros maxt p f kw. unfold dist_key. cbn [dist_updateable dist_keywords pmf].
  destruct (option_map normalize (fam_weights f maxt kw)); cbn [option_map]; intros H; discriminate.
Qed.

Lemma frozen_key_iff_normalised_weights : C20_frozen_key_iff_normalised_weights_stmt.
Proof.
  intros maxt w1 w2 d1 d2. unfold mk_frozen.
  destruct (Nat.eqb (length w1) (S maxt)); [|discriminate].
  destruct (Nat.eqb (length w2) (S maxt)); [|discriminate].
  intros H1 H2. injection H1 as <-. injection H2 as <-.
  unfold dist_key. cbn [pmf option_map dist_updateable dist_keywords]. split.
  - intros H. injection H as H. exact H.
  - intros ->. reflexivity.
Qed.

Lemma div_eq_cross (a b s1 s2 : Qc) : s1 <> 0 -> s2 <> 0 -> (a / s1 = b / s2 <-> s2 * a = s1 * b).
Proof.
  intros H1 H2. split; intros H.
  - replace a with (a / s1 * s1) by (field; exact H1). rewrite H. field. exact H2.
  - replace (a / s1) with (s2 * a / (s1 * s2)) by (field; split; assumption). rewrite H. field. split; assumption.
Qed.

Lemma normalize_cross (s1 s2 : Qc) : s1 <> 0 -> s2 <> 0 -> forall w1 w2 : vec,
  (map (fun a => a / s1) w1 = map (fun a => a / s2) w2 <-> map (Qcmult s2) w1 = map (Qcmult s1) w2).
Proof.
  intros H1 H2. induction w1 as [|a w1 IH]; intros [|b w2]; cbn [map]; split; intros H; try reflexivity; try discriminate.
  - apply cons_inj in H. destruct H as [Ha Hr].
    apply (div_eq_cross a b s1 s2 H1 H2) in Ha. apply IH in Hr. rewrite Ha, Hr. reflexivity.
  - apply cons_inj in H. destruct H as [Ha Hr].
    apply (div_eq_cross a b s1 s2 H1 H2) in Ha. apply IH in Hr. rewrite Ha, Hr. reflexivity.
Qed.

Lemma normalize_eq_iff_proportional : C20_normalize_eq_iff_proportional_stmt.
Proof. intros w1 w2 H1 H2. unfold normalize. cbv zeta. apply normalize_cross; assumption. Qed.

(** * Edges and graphs *)
Ltac tens := cbv [edge_key transition_tensor comp_transition_tensor is_tumor_spread is_growth edge_micro
  tensor_set set_nth nth repeat eye eye_row map seq Nat.eqb pad Nat.sub app e_kind e_spread e_micro e_name with_params].

Lemma Qc_mul_cancel (s m1 m2 : Qc) : s * m1 = s * m2 -> s = 0 \/ m1 = m2.
Proof.
  intros H. destruct (Qc_eq_dec s 0) as [E|E]; [left; exact E|right].
  replace m1 with (s * m1 / s) by (field; exact E). rewrite H. field. exact E.
Qed.

Lemma edge_key_characterisation : C20_edge_key_characterisation_stmt.
Proof.
  intros b [n1 p1 c1 k1 s1 m1] [n2 p2 c2 k2 s2 m2] Hb Hk. cbn [e_kind] in Hk. subst k2.
  apply base23_cases in Hb. cbn [e_name e_spread e_micro e_kind].
  destruct Hb as [-> | ->]; destruct k1; tens; split; intros H;
    try (linj; repeat split; try assumption; intros; discriminate);
    try (destruct H as (-> & -> & _); reflexivity).
  - (* trinary LNL arc, -> *)
    linj. repeat split; try assumption. intros _ _. apply Qc_mul_cancel. congruence.
  - (* trinary LNL arc, <- *)
    destruct H as (-> & -> & H). destruct (H eq_refl eq_refl) as [-> | ->]; [|reflexivity].
    replace (0 * m1) with (0 * m2) by ring. reflexivity.
Qed.

Lemma spread_edit_changes_edge_key : C20_spread_edit_changes_edge_key_stmt.
Proof.
  intros b e sp mi Hb Hne H.
  apply (edge_key_characterisation b (with_params e sp mi) e Hb eq_refl) in H.
  destruct H as (_ & H & _). apply Hne. exact H.
Qed.

Lemma micro_edit : C20_micro_edit_stmt.
Proof.
  intros b e mi Hb.
  rewrite (edge_key_characterisation b (with_params e (e_spread e) mi) e Hb eq_refl).
  cbn [with_params e_name e_spread e_micro e_kind]. split.
  - intros (_ & _ & H) Hk H3. destruct (H Hk H3) as [H'|H']; [left; exact H'|right; symmetry; exact H'].
  - intros H. repeat split. intros Hk H3. destruct (H Hk H3) as [H'|H']; [left; exact H'|right; symmetry; exact H'].
Qed.

Lemma edge_rename_changes_key : C20_edge_rename_changes_key_stmt.
Proof. intros b e1 e2 Hne H. unfold edge_key in H. injection H as H _. apply Hne. exact H. Qed.

Lemma map_pointwise {A B} (f g : A -> B) l : map f l = map g l <-> forall x, In x l -> f x = g x.
Proof.
  induction l as [|a l IH]; cbn [map In].
  - split; [tauto|reflexivity].
  - split.
    + intros H. injection H as H1 H2. intros x [<-|Hx]; [exact H1|]. apply IH; assumption.
    + intros H. f_equal; [apply H; left; reflexivity|]. apply IH. intros x Hx. apply H. right. exact Hx.
Qed.

Lemma set_edges_key : C20_set_edges_key_stmt.
Proof.
  intros g ps. unfold graph_key, set_edges. cbn [g_base g_edges]. rewrite map_map. apply map_pointwise.
Qed.

Lemma set_edge_skel ps e : edge_skel (set_edge ps e) = edge_skel e.
Proof. unfold set_edge. destruct (dict_get (e_name e) ps) as [[sp mi]|]; reflexivity. Qed.

Lemma set_edges_same_skeleton : C20_set_edges_same_skeleton_stmt.
Proof.
  intros g ps. unfold same_skeleton, set_edges. cbn [g_base g_nodes g_edges]. repeat split.
  rewrite map_map. symmetry. apply map_ext. intros e. apply set_edge_skel.
Qed.

Lemma node_key_inj : C20_node_key_stmt.
Proof. intros b n1 n2 s1 s2 H. unfold node_key in H. injection H as H1 H2 _. split; assumption. Qed.

(** the key is the list of names zipped with the list of tensors *)
Lemma map_pair_split {A B C} (f : A -> B) (g : A -> C) l1 : forall l2,
  map (fun x => (f x, g x)) l1 = map (fun x => (f x, g x)) l2 <-> map f l1 = map f l2 /\ map g l1 = map g l2.
Proof.
  induction l1 as [|a l1 IH]; intros [|b l2]; cbn [map]; split; intros H; try (split; reflexivity); try reflexivity;
    try discriminate; try (destruct H; discriminate).
  - injection H as H1 H2 H3. apply IH in H3. destruct H3 as [-> ->]. rewrite H1, H2. split; reflexivity.
  - destruct H as [H1 H2]. injection H1 as H1 H1'. injection H2 as H2 H2'. rewrite H1, H2. f_equal.
    apply IH. split; assumption.
Qed.

Lemma skel_names es1 es2 : map edge_skel es1 = map edge_skel es2 -> map e_name es1 = map e_name es2.
Proof.
  intros H. apply (f_equal (map (fun s : string * string * string * ekind => fst (fst (fst s))))) in H.
  rewrite !map_map in H. exact H.
Qed.

Lemma graph_key_iff_tensors : C20_graph_key_iff_tensors_stmt.
Proof.
  intros g1 g2 (Hb & _ & Hs). unfold graph_key, edge_key. rewrite <- Hb.
  rewrite (map_pair_split e_name (transition_tensor (g_base g1))). split.
  - intros [_ H]. exact H.
  - intros H. split; [apply skel_names; exact Hs|exact H].
Qed.

(** the part of an edge that generate_transition reads *)
Definition edge_view (b : nat) (e : edge) : (string * string * string * ekind) * tensor :=
  (edge_skel e, transition_tensor b e).

Lemma view_child b e1 e2 : edge_view b e1 = edge_view b e2 -> e_child e1 = e_child e2.
Proof. unfold edge_view, edge_skel. intros H. linj. assumption. Qed.
Lemma view_parent b e1 e2 : edge_view b e1 = edge_view b e2 -> e_parent e1 = e_parent e2.
Proof. unfold edge_view, edge_skel. intros H. linj. assumption. Qed.
Lemma view_tumor b e1 e2 : edge_view b e1 = edge_view b e2 -> is_tumor_spread e1 = is_tumor_spread e2.
Proof.
  unfold edge_view, edge_skel, is_tumor_spread. intros H. linj.
  match goal with Hk : e_kind e1 = e_kind e2 |- _ => rewrite Hk end. reflexivity.
Qed.
Lemma view_tensor b e1 e2 : edge_view b e1 = edge_view b e2 -> transition_tensor b e1 = transition_tensor b e2.
Proof. unfold edge_view. intros H. linj. assumption. Qed.

Lemma fold_filter_view {S} b (step : S -> edge -> S) lnl :
  (forall acc e1 e2, edge_view b e1 = edge_view b e2 -> step acc e1 = step acc e2) ->
  forall es1 es2 init, map (edge_view b) es1 = map (edge_view b) es2 ->
    fold_left step (filter (fun e => str_eqb (e_child e) lnl) es1) init
    = fold_left step (filter (fun e => str_eqb (e_child e) lnl) es2) init.
Proof.
  intros Hstep. induction es1 as [|e1 es1 IH]; intros [|e2 es2] init H; cbn [map] in H; try discriminate; [reflexivity|].
  apply cons_inj in H. destruct H as [Hv Hr]. cbn [filter]. rewrite (view_child b e1 e2 Hv).
  destruct (str_eqb (e_child e2) lnl); cbn [fold_left]; [rewrite (Hstep init e1 e2 Hv)|]; apply IH; exact Hr.
Qed.

Lemma graph_key_same_transition : C20_graph_key_same_transition_stmt.
Proof.
  intros g1 g2 Hsk Hk. pose proof (proj1 (graph_key_iff_tensors g1 g2 Hsk) Hk) as Ht.
  destruct Hsk as (Hb & Hn & Hs). rewrite <- Hb in Ht.
  assert (Hv : map (edge_view (g_base g1)) (g_edges g1) = map (edge_view (g_base g1)) (g_edges g2)).
  { unfold edge_view. apply map_pair_split. split; assumption. }
  assert (Hl : lnls g1 = lnls g2) by (unfold lnls; rewrite Hn; reflexivity).
  assert (Hnl : nlnls g1 = nlnls g2) by (unfold nlnls; rewrite Hl; reflexivity).
  unfold generate_transition. rewrite <- Hb, <- Hnl, <- Hl.
  generalize (repeat (ones (Nat.pow (g_base g1) (nlnls g1))) (Nat.pow (g_base g1) (nlnls g1))).
  generalize (combine (seq 0 (nlnls g1)) (lnls g1)).
  intros l. induction l as [|[i lnl] l IH]; intros TM; cbn [fold_left]; [reflexivity|].
  replace (lnl_transition_matrix g2 i lnl) with (lnl_transition_matrix g1 i lnl); [apply IH|].
  unfold lnl_transition_matrix, inc_edges. rewrite <- Hb, <- Hnl, <- Hl. cbv zeta.
  apply (fold_filter_view (g_base g1)); [|exact Hv].
  intros acc e1 e2 He.
  rewrite (view_tensor _ _ _ He), (view_tumor _ _ _ He), (view_parent _ _ _ He). reflexivity.
Qed.

(** * Collections *)
Lemma leaf_key_iff : C20_leaf_key_iff_stmt.
Proof.
  intros A K f l1 l2. cbn [coll_key]. rewrite <- (map_pair_split fst (fun kv => f (snd kv))). split.
  - intros H. injection H as H. exact H.
  - intros ->. reflexivity.
Qed.

Lemma dict_set_names_absent {V} n (a : V) l : mem n (map fst l) = false -> map fst (dict_set n a l) = map fst l ++ [n].
Proof.
  induction l as [|[k v] l IH]; cbn [map fst mem dict_set app]; [reflexivity|].
  intros H. apply orb_false_iff in H. destruct H as [H1 H2]. rewrite H1. cbn [map fst]. rewrite IH by exact H2. reflexivity.
Qed.
Lemma dict_set_names_In {V} n (a : V) l : In n (map fst (dict_set n a l)).
Proof.
  induction l as [|[k v] l IH]; cbn [dict_set map fst In]; [left; reflexivity|].
  destruct (str_eqb n k); cbn [map fst In]; [left; reflexivity|right; exact IH].
Qed.
Lemma dict_del_length {V} n (l : list (string * V)) : mem n (map fst l) = true -> S (length (dict_del n l)) = length l.
Proof.
  induction l as [|[k v] l IH]; cbn [map fst mem dict_del length]; [discriminate|].
  destruct (str_eqb n k); cbn [orb length]; [reflexivity|]. intros H. rewrite IH by exact H. reflexivity.
Qed.

Lemma add_entry_changes_key : C20_add_entry_changes_key_stmt.
Proof.
  intros A K f n a l Hm H. apply leaf_key_iff in H. destruct H as [H _].
  rewrite dict_set_names_absent in H by exact Hm.
  apply (f_equal (@length string)) in H. rewrite app_length in H. cbn [length] in H. lia.
Qed.

Lemma del_entry_changes_key : C20_del_entry_changes_key_stmt.
Proof.
  intros A K f n l Hm H. apply leaf_key_iff in H. destruct H as [H _].
  apply (f_equal (@length string)) in H. rewrite !map_length in H.
  pose proof (dict_del_length n l Hm). lia.
Qed.

Lemma rename_entry_changes_key : C20_rename_entry_changes_key_stmt.
Proof.
  intros A K f n n' a l Hm H. apply leaf_key_iff in H. destruct H as [H _].
  apply mem_false in Hm. apply Hm. rewrite <- H. apply dict_set_names_In.
Qed.

Lemma replace_entry : C20_replace_entry_stmt.
Proof.
  intros A K f n a a' l. induction l as [|[k v] l IH]; cbn [map fst nodupb dict_get dict_set]; [discriminate|].
  intros Hn Hg. apply andb_true_iff in Hn. destruct Hn as [Hm Hn].
  destruct (str_eqb n k) eqn:E.
  - injection Hg as ->. apply str_eqb_eq in E. subst k. cbn [coll_key map fst snd]. split.
    + intros H. injection H as H. exact H.
    + intros ->. reflexivity.
  - specialize (IH Hn Hg). cbn [coll_key map fst snd] in *. split.
    + intros H. injection H as H. apply IH. rewrite H. reflexivity.
    + intros H. apply IH in H. injection H as H. rewrite H. reflexivity.
Qed.

(** induction over composites (nested through the list of children) *)
Section ctree_induction.
  Variable A : Type.
  Variable P : ctree A -> Prop.
  Hypothesis Hleaf : forall l, P (CLeaf l).
  Hypothesis Hbranch : forall cs, Forall (fun nc : string * ctree A => P (snd nc)) cs -> P (CBranch cs).
  Fixpoint ctree_ind2 (t : ctree A) : P t :=
    match t with
    | CLeaf l => Hleaf l
    | CBranch cs =>
        Hbranch cs ((fix go (cs : list (string * ctree A)) : Forall (fun nc => P (snd nc)) cs :=
                       match cs with
                       | [] => Forall_nil _
                       | nc :: r =>
                           Forall_cons nc (match nc return P (snd nc) with (_, c) => ctree_ind2 c end) (go r)
                       end) cs)
    end.
End ctree_induction.

Lemma composite_edit : C20_composite_edit_stmt.
Proof.
  intros A K f ed t. induction t as [l|cs IH] using ctree_ind2.
  - cbn [map_leaves leaves In]. split.
    + intros H l' [<-|[]]. exact H.
    + intros H. apply H. left. reflexivity.
  - cbn [map_leaves leaves coll_key]. induction cs as [|[n c] cs IHcs]; cbn [map flat_map].
    + split; [intros _ l []|reflexivity].
    + inversion IH as [|x y Hc Hcs]; subst. cbn [snd] in Hc. specialize (IHcs Hcs). split.
      * intros H. injection H as H1 H2. intros l Hin. apply in_app_or in Hin. destruct Hin as [Hin|Hin].
        -- apply (proj1 Hc H1). exact Hin.
        -- apply (proj1 IHcs); [rewrite H2; reflexivity|exact Hin].
      * intros H.
        assert (H1 : coll_key f (map_leaves ed c) = coll_key f c).
        { apply Hc. intros l Hin. apply H. apply in_or_app. left. exact Hin. }
        assert (H2 : KBranch (map (fun nc : string * ctree A => let (_, c0) := nc in coll_key f c0)
                        (map (fun nc : string * ctree A => let (n0, c0) := nc in (n0, map_leaves ed c0)) cs))
                     = KBranch (map (fun nc : string * ctree A => let (_, c0) := nc in coll_key f c0) cs)).
        { apply IHcs. intros l Hin. apply H. apply in_or_app. right. exact Hin. }
        injection H2 as H2. rewrite H1, H2. reflexivity.
Qed.
