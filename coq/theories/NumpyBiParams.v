(** NumpyBiParams: the parameter plumbing of [models.Unilateral] and [models.Bilateral] (get_* / set_* for tumor spread,
    LNL spread, spread, all parameters) and [utils.synchronize_params], read statement by statement as the Python code
    manipulates its objects, dicts and views of dicts, and the STATIC proofs that this reading equals the hand-written
    model of Params.v ([u_*], [b_*], [sync_edges]).  The source translator harness/translate12.py regenerates every
    [np_<class>_<method>] below from the Python source on every run ([gen_<class>_<method>]) and checks the generated
    term against the one written here by conversion ([reflexivity]).

    Reading of Python values (conventions of Params.v / NumpyParams.v, plus):
    - a [Unilateral] object is the record [uni], a [Bilateral] object the record [bilateral], a [graph.Representation]
      the record [graph]; a method is a function [self -> ... -> self * option R]: the object as Python leaves it and
      the returned value, [None] = the call raised;
    - [G.tumor_edges] / [G.lnl_edges] are dict comprehensions: NEW dicts ([NumpyGraph.np_tumor_edges (edges_dict G)])
      holding THE SAME Edge objects.  A callee that changes the objects of such a view changes the edges of [G]:
      afterwards [G] holds the objects of the view at the positions the comprehension selected ([py_view_back],
      [rep_put_tumor_edges] / [rep_put_lnl_edges]);
    - the methods of Edge ([the_edge_get_params tri], [the_edge_set_params tri], [tri] the arity of the graph that owns
      the edge) and the inherited [get_distribution_params] / [set_distribution_params] are abstract (section variables);
      the lemmas instantiate the setters with the model ([edge_set_params], [u_set_distribution_params],
      [b_set_distribution_params]) and ask of the getters that they leave the object unchanged and return the model's
      value ([edge_get_params], [u_get_distribution_params], [b_get_distribution_params]);
    - [get_params_from], [set_params_for], [flatten] are [np_get_params_from], [np_set_params_for], [np_flatten] of
      NumpyParams.v, [unflatten_and_split] is the model's; [fuel] bounds the recursion of flatten: the lemmas hold for
      every fuel >= 2 (Unilateral) / >= 3 (Bilateral: its dicts nest one level deeper);
    - [D["k"]] on a dict of dicts is [pd_sub ["k"] D], [D["k"].update(S)] is [pd_update_at ["k"] S D] (in place),
      [**D] for a flat dict of numbers is [py_kwargs D], [objects[key]] on a dict of objects is [py_getitem] ([None] =
      KeyError), [as_dict] is True.

    Contents: [np_flatten_le] (flatten for every nesting depth), [np_synchronize_params_eq],
    [np_u_<method>_eq] and [np_b_<method>_eq] for the eight methods of each class. *)
From LymphModel Require Import Base States Linalg Graph Transition Observation Dist Unilateral Models Params ParamsStatements
  ParamsLemmas NumpyGraph NumpyParams.
Local Open Scope nat_scope.
Local Open Scope string_scope.
Local Open Scope list_scope.

(** * Views of a dict of objects *)
(** the dict [d] after the objects of its view [{k: o for k, o in d.items() if sel (k, o)}] were replaced by those of
    [view] (same keys, same order; the view of a call that raised may be complete all the same) *)
Fixpoint py_view_back {O} (sel : string * O -> bool) (d view : list (string * O)) : list (string * O) :=
  match d with
  | [] => []
  | kv :: r =>
      if sel kv then
        match view with
        | kv' :: view' => (fst kv, snd kv') :: py_view_back sel r view'
        | [] => kv :: r
        end
      else kv :: py_view_back sel r view
  end.
Definition rep_put_view (sel : string * edge -> bool) (g : graph) (view : list (string * edge)) : graph :=
  with_edges g (map snd (py_view_back sel (edges_dict g) view)).
Definition rep_put_tumor_edges (g : graph) (view : list (string * edge)) : graph :=
  rep_put_view (fun '((n, e) : string * edge) => is_tumor_spread e) g view.
Definition rep_put_lnl_edges (g : graph) (view : list (string * edge)) : graph :=
  rep_put_view (fun '((n, e) : string * edge) => negb (is_tumor_spread e)) g view.

Lemma py_view_back_id {O} (sel : string * O -> bool) d : py_view_back sel d (filter sel d) = d.
Proof. induction d as [|kv r IH]; [reflexivity|]. cbn [filter py_view_back]. destruct (sel kv); rewrite IH; destruct kv; reflexivity. Qed.

(** the same on lists of edges *)
Fixpoint unfilter (sel : edge -> bool) (es view : list edge) : list edge :=
  match es with
  | [] => []
  | e :: r =>
      if sel e then match view with e' :: v' => e' :: unfilter sel r v' | [] => e :: r end
      else e :: unfilter sel r view
  end.
Lemma unfilter_id sel es : unfilter sel es (filter sel es) = es.
Proof. induction es as [|e r IH]; [reflexivity|]. cbn [filter unfilter]. destruct (sel e); rewrite IH; reflexivity. Qed.

Lemma view_back_edges (q : string * edge -> bool) (sel : edge -> bool) : (forall e, q (e_name e, e) = sel e) ->
  forall es v, map snd (py_view_back q (edge_objects es) (edge_objects v)) = unfilter sel es v.
Proof.
  intros Hq. induction es as [|e r IH]; intros v; [reflexivity|].
  cbn [edge_objects map py_view_back unfilter]. fold (edge_objects r). rewrite Hq. destruct (sel e).
  - destruct v as [|e' v']; cbn [edge_objects map snd fst].
    + fold (edge_objects r). rewrite edge_objects_values. reflexivity.
    + fold (edge_objects v'). rewrite IH. reflexivity.
  - cbn [map snd]. rewrite IH. reflexivity.
Qed.

Lemma edges_dict_objects g : edges_dict g = edge_objects (g_edges g).
Proof. reflexivity. Qed.
Lemma filter_edge_objects (q : string * edge -> bool) (sel : edge -> bool) : (forall e, q (e_name e, e) = sel e) ->
  forall es, filter q (edge_objects es) = edge_objects (filter sel es).
Proof. intros Hq es. unfold edge_objects. apply filter_map_pairs. exact Hq. Qed.

Lemma with_edges_id g : with_edges g (g_edges g) = g.
Proof. destruct g; reflexivity. Qed.
Lemma u_with_graph_id u : u_with_graph u (u_graph u) = u.
Proof. destruct u; reflexivity. Qed.
Lemma b_with_ipsi_id b : b_with_ipsi b (b_ipsi b) = b.
Proof. destruct b; reflexivity. Qed.
Lemma b_with_contra_id b : b_with_contra b (b_contra b) = b.
Proof. destruct b; reflexivity. Qed.

Lemma rep_put_view_id q g : rep_put_view q g (filter q (edges_dict g)) = g.
Proof. unfold rep_put_view. rewrite py_view_back_id, edges_dict_objects, edge_objects_values. apply with_edges_id. Qed.
Lemma rep_put_view_edges q sel g v : (forall e, q (e_name e, e) = sel e) ->
  rep_put_view q g (edge_objects v) = with_edges g (unfilter sel (g_edges g) v).
Proof. intros Hq. unfold rep_put_view. rewrite edges_dict_objects, (view_back_edges q sel Hq). reflexivity. Qed.

(** the loop of set_params_for over a view is the model's loop over all edges that skips the others *)
Lemma set_edges_for_unfilter tri sel split glob es : forall a,
  set_edges_for tri sel split glob es a
  = let '(v, o) := set_edges_for tri sel_all split glob (filter sel es) a in (unfilter sel es v, o).
Proof.
  induction es as [|e r IH]; intros a; [reflexivity|].
  cbn [set_edges_for filter unfilter]. destruct (sel e) eqn:Es.
  - cbn [set_edges_for sel_all unfilter].
    destruct (edge_set_params tri e a (obj_kwargs (e_name e) split glob)) as [e' [a'|]].
    + rewrite IH. destruct (set_edges_for tri sel_all split glob (filter sel r) a') as [v o]. reflexivity.
    + rewrite unfilter_id. reflexivity.
  - rewrite IH. destruct (set_edges_for tri sel_all split glob (filter sel r) a) as [v o]. reflexivity.
Qed.

Lemma np_set_view_eq (q : string * edge -> bool) (sel : edge -> bool) g a kw : (forall e, q (e_name e, e) = sel e) ->
  (let '(x1, x2) := np_set_params_for (edge_set_params (g_tri g)) (filter q (edges_dict g)) a kw in (rep_put_view q g x1, x2))
  = graph_set_params_sel sel g a kw.
Proof.
  intros Hq. rewrite edges_dict_objects, (filter_edge_objects q sel Hq), np_set_params_for_edges.
  unfold graph_set_params_sel. destruct (unflatten_and_split kw (map e_name (filter sel (g_edges g)))) as [split glob].
  rewrite (set_edges_for_unfilter (g_tri g) sel).
  destruct (set_edges_for (g_tri g) sel_all split glob (filter sel (g_edges g)) a) as [v o].
  cbv beta iota zeta. rewrite (rep_put_view_edges q sel g v Hq). reflexivity.
Qed.

Lemma np_get_view_eq (q : string * edge -> bool) (sel : edge -> bool) fuel (gp : edge -> bool -> edge * option pdict) g fl :
  (forall e, q (e_name e, e) = sel e) -> (forall e fl', gp e fl' = (e, Some (edge_get_params (g_tri g) e))) ->
  (let '(x1, x2) := np_get_params_from (S (S fuel)) gp (filter q (edges_dict g)) fl in (rep_put_view q g x1, x2))
  = (g, Some (edges_get_params (g_tri g) (filter sel (g_edges g)) fl)).
Proof.
  intros Hq Hg. rewrite edges_dict_objects, (filter_edge_objects q sel Hq).
  rewrite (np_get_params_from_edges (g_tri g)) by (intros e fl' _; apply Hg).
  rewrite <- (filter_edge_objects q sel Hq), <- edges_dict_objects, rep_put_view_id. reflexivity.
Qed.

(** * utils.flatten for every nesting depth *)
Section DictAlgebra.
  Context {A : Type}.
  Implicit Types (d e : list (path * A)) (k : path) (v : A).

  Lemma kw_set_set_same k v w d : kw_set k v (kw_set k w d) = kw_set k v d.
  Proof.
    induction d as [|[k' v'] d IH]; cbn [kw_set]; [rewrite path_eqb_refl; reflexivity|].
    destruct (path_eqb k k') eqn:E; cbn [kw_set]; [rewrite path_eqb_refl; reflexivity | rewrite E, IH; reflexivity].
  Qed.
  (** assignments to different keys commute when the first key is already there *)
  Lemma kw_set_comm k k1 v w1 d : k <> k1 -> kw_get k d <> None ->
    kw_set k v (kw_set k1 w1 d) = kw_set k1 w1 (kw_set k v d).
  Proof.
    intros Hne. induction d as [|[k0 w0] d IH]; cbn [kw_get kw_set]; [congruence|].
    destruct (path_eqb k k0) eqn:E, (path_eqb k1 k0) eqn:E1; cbn [kw_set].
    - apply path_eqb_eq in E. apply path_eqb_eq in E1. congruence.
    - intros _. rewrite E, (path_eqb_neq k1 k) by congruence. reflexivity.
    - intros _. apply path_eqb_eq in E1. subst k0. rewrite (path_eqb_neq k k1), path_eqb_refl by exact Hne. reflexivity.
    - intros H. rewrite E, E1, (IH H). reflexivity.
  Qed.
  Lemma kw_set_update_comm k v e : ~ In k (map fst e) -> forall d, kw_get k d <> None ->
    kw_set k v (kw_update e d) = kw_update e (kw_set k v d).
  Proof.
    induction e as [|[k1 w1] e IH]; intros Hni d Hd; [reflexivity|].
    rewrite !kw_update_cons. cbn [map fst In] in Hni.
    rewrite IH.
    - rewrite kw_set_comm; [reflexivity | intros ->; apply Hni; left; reflexivity | exact Hd].
    - intros H. apply Hni. right. exact H.
    - rewrite kw_get_set_other by (intros ->; apply Hni; left; reflexivity). exact Hd.
  Qed.
  (** updating with a dict after one more assignment to it *)
  Lemma kw_update_set k v e : NoDup (map fst e) -> forall d, kw_update (kw_set k v e) d = kw_set k v (kw_update e d).
  Proof.
    induction e as [|[k' w] e IH]; intros Hnd d; [reflexivity|].
    cbn [kw_set]. inversion Hnd as [|? ? Hni Hnd']; subst. destruct (path_eqb k k') eqn:E.
    - apply path_eqb_eq in E. subst k'. rewrite !kw_update_cons.
      rewrite <- (kw_set_set_same k v w d) at 1. symmetry. apply kw_set_update_comm; [exact Hni|].
      rewrite kw_get_set_same. discriminate.
    - rewrite !kw_update_cons. apply IH. exact Hnd'.
  Qed.
  (** [d.update(dict(items))] is [d.update(items)] *)
  Lemma kw_update_dict_of (b : list (path * A)) : forall d, kw_update (dict_of b) d = kw_update b d.
  Proof.
    induction b as [|[k v] b IH] using rev_ind; intros d; [reflexivity|].
    assert (Hs : forall x : list (path * A), kw_update [(k, v)] x = kw_set k v x) by reflexivity.
    unfold dict_of. rewrite !kw_update_app, !Hs.
    fold (dict_of b). rewrite kw_update_set by apply dict_of_NoDup. rewrite IH. reflexivity.
  Qed.
  Lemma kw_update_flat_map_dict_of {B} (G H : B -> list (path * A)) l :
    (forall x, In x l -> G x = H x \/ G x = dict_of (H x)) ->
    forall d, kw_update (flat_map G l) d = kw_update (flat_map H l) d.
  Proof.
    induction l as [|x l IH]; intros HG d; [reflexivity|]. cbn [flat_map]. rewrite !kw_update_app.
    rewrite IH by (intros y Hy; apply HG; right; exact Hy).
    destruct (HG x (or_introl eq_refl)) as [->| ->]; [reflexivity | rewrite kw_update_dict_of; reflexivity].
  Qed.
End DictAlgebra.

(** [depth_ok n t]: the tree [t] nests dicts at most [n] levels deep *)
Fixpoint depth_ok (n : nat) (t : ptree) {struct n} : Prop :=
  match t with
  | Leaf _ => True
  | Node cs => match n with O => False | S n' => Forall (fun kc => depth_ok n' (snd kc)) cs end
  end.
Definition all_depth (n : nat) (d : pdict) : Prop := Forall (fun kc => depth_ok n (snd kc)) d.

Lemma depth_ok_leaf n v : depth_ok n (Leaf v).
Proof. destruct n; exact I. Qed.
Lemma depth_ok_node n cs : depth_ok (S n) (Node cs) = all_depth n cs.
Proof. reflexivity. Qed.
Lemma depth_ok_S n : forall t, depth_ok n t -> depth_ok (S n) t.
Proof.
  induction n as [|n IH]; intros [v|cs] H; try exact I; [destruct H|].
  rewrite depth_ok_node in *. unfold all_depth in *. eapply Forall_impl; [|exact H]. intros kc. apply IH.
Qed.
Lemma all_depth_S n d : all_depth n d -> all_depth (S n) d.
Proof. unfold all_depth. apply Forall_impl. intros kc. apply depth_ok_S. Qed.
Lemma all_depth_le n m d : n <= m -> all_depth n d -> all_depth m d.
Proof. induction 1 as [|m Hle IH]; [auto | intros Hd; apply all_depth_S, IH, Hd]. Qed.
Lemma all_depth_leaves n l : all_depth n (leaves l).
Proof. unfold all_depth, leaves. apply Forall_forall. intros kc Hin. apply in_map_iff in Hin. destruct Hin as [x [<- _]]. apply depth_ok_leaf. Qed.
Lemma all_depth_kw_set n k t d : depth_ok n t -> all_depth n d -> all_depth n (kw_set k t d).
Proof.
  intros Ht Hd. induction Hd as [|[k' t'] d Hk Hd IH]; cbn [kw_set]; [constructor; [exact Ht | constructor]|].
  destruct (path_eqb k k'); constructor; assumption.
Qed.
Lemma all_depth_kw_update n s : all_depth n s -> forall d, all_depth n d -> all_depth n (kw_update s d).
Proof.
  induction 1 as [|[k t] s Hk Hs IH]; intros d Hd; [exact Hd|]. rewrite kw_update_cons. apply IH, all_depth_kw_set; assumption.
Qed.
Lemma all_depth_pd_sub n k d : all_depth (S n) d -> all_depth n (pd_sub k d).
Proof.
  intros Hd. unfold pd_sub. destruct (kw_get k d) as [[v|cs]|] eqn:E; try constructor.
  apply kw_get_Some_In in E. unfold all_depth in Hd. rewrite Forall_forall in Hd. apply (Hd _ E).
Qed.
Lemma all_depth_pd_update_at n k s d : all_depth n s -> all_depth (S n) d -> all_depth (S n) (pd_update_at k s d).
Proof.
  intros Hs Hd. induction Hd as [|[k' t] d Hk Hd IH]; cbn [pd_update_at]; [constructor|].
  destruct (path_eqb k k'); constructor; try assumption.
  destruct t as [v|cs]; [exact I|]. cbn [snd] in *. rewrite depth_ok_node in *. apply all_depth_kw_update; assumption.
Qed.

(** the items the loop of flatten collects, before [dict(items)] *)
Lemma np_flatten_unfold fuel d p :
  np_flatten (S fuel) d p
  = dict_of (flat_map (fun kv : path * ptree =>
               match snd kv with Node v => np_flatten fuel v (p ++ fst kv) | Leaf v => [(p ++ fst kv, Leaf v)] end) d).
Proof.
  cbn [np_flatten]. cbv zeta. f_equal.
  rewrite (fold_left_ext _ (fun acc (kv : path * ptree) =>
             acc ++ match snd kv with Node v => np_flatten fuel v (p ++ fst kv) | Leaf v => [(p ++ fst kv, Leaf v)] end)).
  2:{ intros acc [k v]. cbn [fst snd]. rewrite new_key_app. destruct v; reflexivity. }
  rewrite fold_left_app_flat_map. reflexivity.
Qed.

Lemma leaves_flat_items_node p d :
  leaves (flat_items p (Node d)) = flat_map (fun kv : path * ptree => leaves (flat_items (p ++ fst kv) (snd kv))) d.
Proof. rewrite flat_items_node. unfold leaves. rewrite map_flat_map'. reflexivity. Qed.

(** Python's flatten (which builds a dict at every level) is the model's (one dict of all the items) *)
Lemma np_flatten_gen fuel : forall d p, all_depth fuel d ->
  np_flatten (S fuel) d p = dict_of (leaves (flat_items p (Node d))).
Proof.
  induction fuel as [|fuel IH]; intros d p Hd; rewrite np_flatten_unfold, leaves_flat_items_node; unfold dict_of;
    apply kw_update_flat_map_dict_of; intros [k t] Hin; unfold all_depth in Hd; rewrite Forall_forall in Hd;
    specialize (Hd _ Hin); cbn [fst snd] in *; destruct t as [v|cs]; try (left; reflexivity).
  - destruct Hd.
  - right. rewrite depth_ok_node in Hd. apply IH. exact Hd.
Qed.
Lemma np_flatten_le n fuel d : all_depth n d -> n <= fuel -> np_flatten (S fuel) d [] = flatten d.
Proof. intros Hd Hle. unfold flatten, flat_items_dict. apply np_flatten_gen. apply (all_depth_le n); assumption. Qed.

(** flat dicts *)
Definition is_flat (d : pdict) : Prop := exists l, d = leaves l.
Lemma flatten_flat d : is_flat (flatten d).
Proof. eexists. apply flatten_is_leaves. Qed.
Lemma maybe_flatten_flat d : is_flat (maybe_flatten true d).
Proof. apply flatten_flat. Qed.
Lemma kw_update_flat s d : is_flat s -> is_flat d -> is_flat (kw_update s d).
Proof. intros [ls ->] [ld ->]. eexists. apply kw_update_leaves. Qed.
Lemma flat_all_depth n d : is_flat d -> all_depth n d.
Proof. intros [l ->]. apply all_depth_leaves. Qed.
Lemma np_flatten_flat fuel d : is_flat d -> np_flatten (S fuel) d [] = flatten d.
Proof. intros H. apply (np_flatten_le 0); [apply flat_all_depth, H | lia]. Qed.

(** depth of the dicts the getters build *)
Lemma edges_get_params_flat_true tri es : is_flat (edges_get_params tri es true).
Proof. apply maybe_flatten_flat. Qed.
Lemma edges_get_params_depth tri es fl : all_depth 1 (edges_get_params tri es fl).
Proof.
  destruct fl; [apply flat_all_depth, edges_get_params_flat_true|].
  unfold edges_get_params, maybe_flatten. generalize (@nil (path * ptree)) (Forall_nil (fun kc : path * ptree => depth_ok 1 (snd kc))).
  induction es as [|e r IH]; intros d Hd; [exact Hd|]. cbn [fold_left]. apply IH, all_depth_kw_set; [|exact Hd].
  rewrite depth_ok_node, edge_get_params_leaves. apply all_depth_leaves.
Qed.
Lemma dists_get_params_flat_true ds : is_flat (dists_get_params ds true).
Proof. apply maybe_flatten_flat. Qed.

(** * utils.synchronize_params *)
(** objects[key] on a dict of objects: [None] = KeyError *)
Definition py_getitem {O} (d : list (string * O)) (key : string) : option O := dict_get key d.
(** [**d] for a flat dict of numbers: every number becomes a user value *)
Definition py_kwargs (d : pdict) : kwargs := map (fun kv => (fst kv, V (snd kv))) (items d).
(** for key, obj in objects.items(): BODY, where BODY may change the object [obj] and a second piece of state [s] (here:
    another dict of objects) and may raise: both as Python leaves them, and [None] when an iteration raised *)
Fixpoint py_for_items2 {O S} (body : string -> O -> S -> (O * S) * option unit) (objects : list (string * O)) (s : S)
  : (list (string * O) * S) * option unit :=
  match objects with
  | [] => (([], s), Some tt)
  | (key, obj) :: rest =>
      match body key obj s with
      | ((obj, s), None) => (((key, obj) :: rest, s), None)
      | ((obj, s), Some _) => let '((rest, s), r) := py_for_items2 body rest s in (((key, obj) :: rest, s), r)
      end
  end.

(** for key, obj in set_to.items(): obj.set_params( **get_from[key].get_params(as_dict=True))
    generic in the classes of the objects; the result is (get_from, set_to) as Python leaves them *)
(** the loop body is named only to state lemmas about it (the generated term is one expression, convertible with
    [np_synchronize_params] by unfolding it) *)
Definition np_sync_body {O1 O2} (get_params : O1 -> bool -> O1 * option pdict)
    (set_params : O2 -> args -> kwargs -> O2 * option args) (key_ : string) (obj_ : O2) (get_from_ : list (string * O1))
    : (O2 * list (string * O1)) * option unit :=
    match py_getitem get_from_ key_ with
    | None => ((obj_, get_from_), None)
    | Some x1 =>
    let '(x1, x2) := get_params x1 true in
    let get_from_ := dict_set key_ x1 get_from_ in
    match x2 with
    | None => ((obj_, get_from_), None)
    | Some x2 =>
    match set_params obj_ [] (py_kwargs x2) with
    | (obj_, None) => ((obj_, get_from_), None)
    | (obj_, Some _) => ((obj_, get_from_), Some tt)
    end end end.
Definition np_synchronize_params {O1 O2} (get_params : O1 -> bool -> O1 * option pdict)
    (set_params : O2 -> args -> kwargs -> O2 * option args)
    (get_from_ : list (string * O1)) (set_to_ : list (string * O2))
    : (list (string * O1) * list (string * O2)) * option unit :=
  let '((set_to_, get_from_), x0) := py_for_items2 (np_sync_body get_params set_params) set_to_ get_from_ in
  ((get_from_, set_to_), x0).

Lemma py_getitem_edges es k : py_getitem (edge_objects es) k = find_edge k es.
Proof. induction es as [|e r IH]; [reflexivity|]. cbn [edge_objects map py_getitem dict_get find_edge]. destruct (str_eqb k (e_name e)); [reflexivity | exact IH]. Qed.
Lemma find_edge_name k es e : find_edge k es = Some e -> e_name e = k.
Proof.
  induction es as [|e' r IH]; cbn [find_edge]; [discriminate|]. destruct (str_eqb k (e_name e')) eqn:E; [|exact IH].
  intros [= <-]. symmetry. apply str_eqb_eq. exact E.
Qed.
Lemma dict_set_edges_same k es e : find_edge k es = Some e -> dict_set k e (edge_objects es) = edge_objects es.
Proof.
  induction es as [|e' r IH]; cbn [find_edge edge_objects map dict_set]; [discriminate|]. fold (edge_objects r).
  destruct (str_eqb k (e_name e')) eqn:E.
  - intros [= <-]. apply str_eqb_eq in E. rewrite E. reflexivity.
  - intros H. rewrite (IH H). reflexivity.
Qed.

(** between two dicts of edges: the model's [sync_edges] (all edges of [to] are synchronized) *)
Lemma np_synchronize_params_eq tf tto (gp : edge -> bool -> edge * option pdict) from to :
  (forall e fl, gp e fl = (e, Some (edge_get_params tf e))) ->
  np_synchronize_params gp (edge_set_params tto) (edge_objects from) (edge_objects to)
  = let '(to', ok) := sync_edges tf tto sel_all from to in
    ((edge_objects from, edge_objects to'), if ok then Some tt else None).
Proof.
  intros Hg. unfold np_synchronize_params.
  assert (E : py_for_items2 (np_sync_body gp (edge_set_params tto)) (edge_objects to) (edge_objects from)
              = let '(to', ok) := sync_edges tf tto sel_all from to in ((edge_objects to', edge_objects from), if ok then Some tt else None)).
  2:{ rewrite E. destruct (sync_edges tf tto sel_all from to) as [to' ok]. reflexivity. }
  induction to as [|e r IH]; [reflexivity|].
  cbn [edge_objects map py_for_items2 sync_edges sel_all]. fold (edge_objects r). unfold np_sync_body at 1.
  rewrite py_getitem_edges, filter_sel_all. destruct (find_edge (e_name e) from) as [ef|] eqn:Ef; [|reflexivity].
  rewrite Hg. rewrite (dict_set_edges_same _ _ _ Ef).
  change (py_kwargs (edge_get_params tf ef)) with (edge_kwargs tf ef).
  pose proof (edge_set_params_shape tto e [] (edge_kwargs tf ef)) as [Hn _].
  destruct (edge_set_params tto e [] (edge_kwargs tf ef)) as [e' [a'|]]; cbn [fst] in Hn.
  - rewrite IH. destruct (sync_edges tf tto sel_all from r) as [r' ok]. cbn [edge_objects map]. rewrite Hn. reflexivity.
  - cbn [edge_objects map]. rewrite Hn. reflexivity.
Qed.

(** the model synchronizes the selected edges of [to] in place: the same as synchronizing the two views *)
Lemma sync_edges_unfilter tf tto sel from to :
  sync_edges tf tto sel from to
  = let '(v, ok) := sync_edges tf tto sel_all (filter sel from) (filter sel to) in (unfilter sel to v, ok).
Proof.
  induction to as [|e r IH]; [reflexivity|]. cbn [sync_edges filter unfilter]. destruct (sel e) eqn:Es.
  - cbn [sync_edges sel_all unfilter]. rewrite filter_sel_all.
    destruct (find_edge (e_name e) (filter sel from)) as [ef|]; [|rewrite unfilter_id; reflexivity].
    destruct (edge_set_params tto e [] (edge_kwargs tf ef)) as [e' [a'|]].
    + rewrite IH. destruct (sync_edges tf tto sel_all (filter sel from) (filter sel r)) as [v ok]. reflexivity.
    + rewrite unfilter_id. reflexivity.
  - rewrite IH. destruct (sync_edges tf tto sel_all (filter sel from) (filter sel r)) as [v ok]. reflexivity.
Qed.

(** * The methods of Unilateral and Bilateral, statement by statement *)
Section Readings.
  Variable fuel : nat.
  Variable the_edge_get_params : bool -> edge -> bool -> edge * option pdict.
  Variable the_edge_set_params : bool -> edge -> args -> kwargs -> edge * option args.
  Variable the_uni_get_distribution_params : uni -> bool -> uni * option pdict.
  Variable the_uni_set_distribution_params : uni -> args -> kwargs -> uni * option args.
  Variable the_bi_get_distribution_params : bilateral -> bool -> bilateral * option pdict.
  Variable the_bi_set_distribution_params : bilateral -> args -> kwargs -> bilateral * option args.

  (** return get_params_from(self.graph.tumor_edges, as_dict, as_flat) *)
  Definition np_u_get_tumor_spread_params (self_ : uni) (as_flat_ : bool) : uni * option pdict :=
    (let '(x1, x2) := np_get_params_from fuel (the_edge_get_params (g_tri (u_graph self_))) (np_tumor_edges (edges_dict (u_graph self_))) as_flat_ in
      ((u_with_graph self_ (rep_put_tumor_edges (u_graph self_) x1)), x2)).

  (** return get_params_from(self.graph.lnl_edges, as_dict, as_flat) *)
  Definition np_u_get_lnl_spread_params (self_ : uni) (as_flat_ : bool) : uni * option pdict :=
    (let '(x1, x2) := np_get_params_from fuel (the_edge_get_params (g_tri (u_graph self_))) (np_lnl_edges (edges_dict (u_graph self_))) as_flat_ in
      ((u_with_graph self_ (rep_put_lnl_edges (u_graph self_) x1)), x2)).

  (** params = self.get_tumor_spread_params(as_flat=as_flat); params.update(self.get_lnl_spread_params(as_flat=as_flat));
    if as_flat or not as_dict: params = flatten(params) ; return params if as_dict else params.values() *)
  Definition np_u_get_spread_params (self_ : uni) (as_flat_ : bool) : uni * option pdict :=
    match np_u_get_tumor_spread_params self_ as_flat_ with
    | (self_, None) => (self_, None)
    | (self_, Some params_) =>
    match np_u_get_lnl_spread_params self_ as_flat_ with
    | (self_, None) => (self_, None)
    | (self_, Some x1) =>
    let params_ := kw_update x1 params_ in
    match (if (as_flat_ || (negb true)) then
    let params_ := np_flatten fuel params_ [] in
    (self_, Some params_)
    else
    (self_, Some params_)) with
    | (self_, None) => (self_, None)
    | (self_, Some params_) =>
    (self_, Some params_)
    end
    end
    end.

  (** params = self.get_spread_params(as_flat=as_flat); params.update(self.get_distribution_params(as_flat=as_flat));
    if as_flat or not as_dict: params = flatten(params) ; return params if as_dict else params.values() *)
  Definition np_u_get_params (self_ : uni) (as_flat_ : bool) : uni * option pdict :=
    match np_u_get_spread_params self_ as_flat_ with
    | (self_, None) => (self_, None)
    | (self_, Some params_) =>
    match the_uni_get_distribution_params self_ as_flat_ with
    | (self_, None) => (self_, None)
    | (self_, Some x1) =>
    let params_ := kw_update x1 params_ in
    match (if (as_flat_ || (negb true)) then
    let params_ := np_flatten fuel params_ [] in
    (self_, Some params_)
    else
    (self_, Some params_)) with
    | (self_, None) => (self_, None)
    | (self_, Some params_) =>
    (self_, Some params_)
    end
    end
    end.

  (** return set_params_for(self.graph.tumor_edges, *args, **kwargs) *)
  Definition np_u_set_tumor_spread_params (self_ : uni) (args_ : args) (kwargs_ : kwargs) : uni * option args :=
    (let '(x1, x2) := np_set_params_for (the_edge_set_params (g_tri (u_graph self_))) (np_tumor_edges (edges_dict (u_graph self_))) args_ kwargs_ in
      ((u_with_graph self_ (rep_put_tumor_edges (u_graph self_) x1)), x2)).

  (** return set_params_for(self.graph.lnl_edges, *args, **kwargs) *)
  Definition np_u_set_lnl_spread_params (self_ : uni) (args_ : args) (kwargs_ : kwargs) : uni * option args :=
    (let '(x1, x2) := np_set_params_for (the_edge_set_params (g_tri (u_graph self_))) (np_lnl_edges (edges_dict (u_graph self_))) args_ kwargs_ in
      ((u_with_graph self_ (rep_put_lnl_edges (u_graph self_) x1)), x2)).

  (** args = self.set_tumor_spread_params( *args, **kwargs); return self.set_lnl_spread_params( *args, **kwargs) *)
  Definition np_u_set_spread_params (self_ : uni) (args_ : args) (kwargs_ : kwargs) : uni * option args :=
    match np_u_set_tumor_spread_params self_ args_ kwargs_ with
    | (self_, None) => (self_, None)
    | (self_, Some args_) =>
    np_u_set_lnl_spread_params self_ args_ kwargs_
    end.

  (** args = self.set_spread_params( *args, **kwargs); return self.set_distribution_params( *args, **kwargs) *)
  Definition np_u_set_params (self_ : uni) (args_ : args) (kwargs_ : kwargs) : uni * option args :=
    match np_u_set_spread_params self_ args_ kwargs_ with
    | (self_, None) => (self_, None)
    | (self_, Some args_) =>
    the_uni_set_distribution_params self_ args_ kwargs_
    end.

  (** params = {"ipsi": self.ipsi.get_tumor_spread_params(as_flat=as_flat), "contra": self.contra.get_tumor_spread_params(as_flat=as_flat)}
    if self.is_symmetric["tumor_spread"]: (warning if params["ipsi"] != params["contra"]) params = params["ipsi"]
    if as_flat or not as_dict: params = utils.flatten(params) ; return params if as_dict else params.values() *)
  Definition np_b_get_tumor_spread_params (self_ : bilateral) (as_flat_ : bool) : bilateral * option pdict :=
    match (let '(x1, x2) := np_u_get_tumor_spread_params (b_ipsi self_) as_flat_ in
      ((b_with_ipsi self_ x1), x2)) with
    | (self_, None) => (self_, None)
    | (self_, Some x3) =>
    match (let '(x4, x5) := np_u_get_tumor_spread_params (b_contra self_) as_flat_ in
      ((b_with_contra self_ x4), x5)) with
    | (self_, None) => (self_, None)
    | (self_, Some x6) =>
    let params_ := [(["ipsi"], Node x3); (["contra"], Node x6)] in
    match (if (b_symT self_) then
    let params_ := (pd_sub ["ipsi"] params_) in
    (self_, Some params_)
    else
    (self_, Some params_)) with
    | (self_, None) => (self_, None)
    | (self_, Some params_) =>
    match (if (as_flat_ || (negb true)) then
    let params_ := np_flatten fuel params_ [] in
    (self_, Some params_)
    else
    (self_, Some params_)) with
    | (self_, None) => (self_, None)
    | (self_, Some params_) =>
    (self_, Some params_)
    end
    end
    end
    end.

  (** the same with get_lnl_spread_params and is_symmetric["lnl_spread"] *)
  Definition np_b_get_lnl_spread_params (self_ : bilateral) (as_flat_ : bool) : bilateral * option pdict :=
    match (let '(x1, x2) := np_u_get_lnl_spread_params (b_ipsi self_) as_flat_ in
      ((b_with_ipsi self_ x1), x2)) with
    | (self_, None) => (self_, None)
    | (self_, Some x3) =>
    match (let '(x4, x5) := np_u_get_lnl_spread_params (b_contra self_) as_flat_ in
      ((b_with_contra self_ x4), x5)) with
    | (self_, None) => (self_, None)
    | (self_, Some x6) =>
    let params_ := [(["ipsi"], Node x3); (["contra"], Node x6)] in
    match (if (b_symL self_) then
    let params_ := (pd_sub ["ipsi"] params_) in
    (self_, Some params_)
    else
    (self_, Some params_)) with
    | (self_, None) => (self_, None)
    | (self_, Some params_) =>
    match (if (as_flat_ || (negb true)) then
    let params_ := np_flatten fuel params_ [] in
    (self_, Some params_)
    else
    (self_, Some params_)) with
    | (self_, None) => (self_, None)
    | (self_, Some params_) =>
    (self_, Some params_)
    end
    end
    end
    end.

  (** params = self.get_tumor_spread_params(as_flat=False)
    if not self.is_symmetric["tumor_spread"] and not self.is_symmetric["lnl_spread"]:
        params["ipsi"].update(self.get_lnl_spread_params(as_flat=False)["ipsi"])
        params["contra"].update(self.get_lnl_spread_params(as_flat=False)["contra"])
    else: params.update(self.get_lnl_spread_params(as_flat=as_flat))
    if as_flat or not as_dict: params = utils.flatten(params) ; return params if as_dict else params.values() *)
  Definition np_b_get_spread_params (self_ : bilateral) (as_flat_ : bool) : bilateral * option pdict :=
    match np_b_get_tumor_spread_params self_ false with
    | (self_, None) => (self_, None)
    | (self_, Some params_) =>
    match (if ((negb (b_symT self_)) && (negb (b_symL self_))) then
    match np_b_get_lnl_spread_params self_ false with
    | (self_, None) => (self_, None)
    | (self_, Some x1) =>
    let params_ := pd_update_at ["ipsi"] (pd_sub ["ipsi"] x1) params_ in
    match np_b_get_lnl_spread_params self_ false with
    | (self_, None) => (self_, None)
    | (self_, Some x2) =>
    let params_ := pd_update_at ["contra"] (pd_sub ["contra"] x2) params_ in
    (self_, Some params_)
    end
    end
    else
    match np_b_get_lnl_spread_params self_ as_flat_ with
    | (self_, None) => (self_, None)
    | (self_, Some x3) =>
    let params_ := kw_update x3 params_ in
    (self_, Some params_)
    end) with
    | (self_, None) => (self_, None)
    | (self_, Some params_) =>
    match (if (as_flat_ || (negb true)) then
    let params_ := np_flatten fuel params_ [] in
    (self_, Some params_)
    else
    (self_, Some params_)) with
    | (self_, None) => (self_, None)
    | (self_, Some params_) =>
    (self_, Some params_)
    end
    end
    end.

  (** params = self.get_spread_params(as_flat=as_flat); params.update(self.get_distribution_params(as_flat=as_flat)); flatten as above *)
  Definition np_b_get_params (self_ : bilateral) (as_flat_ : bool) : bilateral * option pdict :=
    match np_b_get_spread_params self_ as_flat_ with
    | (self_, None) => (self_, None)
    | (self_, Some params_) =>
    match the_bi_get_distribution_params self_ as_flat_ with
    | (self_, None) => (self_, None)
    | (self_, Some x1) =>
    let params_ := kw_update x1 params_ in
    match (if (as_flat_ || (negb true)) then
    let params_ := np_flatten fuel params_ [] in
    (self_, Some params_)
    else
    (self_, Some params_)) with
    | (self_, None) => (self_, None)
    | (self_, Some params_) =>
    (self_, Some params_)
    end
    end
    end.

  (** kwargs, global_kwargs = utils.unflatten_and_split(kwargs, expected_keys=["ipsi", "contra"])
    ipsi_kwargs = global_kwargs.copy(); ipsi_kwargs.update(kwargs.get("ipsi", {})); contra_kwargs likewise
    args = self.ipsi.set_tumor_spread_params( *args, **ipsi_kwargs)
    if self.is_symmetric["tumor_spread"]:
        utils.synchronize_params(get_from=self.ipsi.graph.tumor_edges, set_to=self.contra.graph.tumor_edges)
    else: args = self.contra.set_tumor_spread_params( *args, **contra_kwargs)
    return args *)
  Definition np_b_set_tumor_spread_params (self_ : bilateral) (args_ : args) (kwargs_ : kwargs) : bilateral * option args :=
    let '(kwargs_, global_kwargs_) := unflatten_and_split kwargs_ ["ipsi"; "contra"] in
    let ipsi_kwargs_ := global_kwargs_ in
    let ipsi_kwargs_ := kw_update (sub_kwargs "ipsi" kwargs_) ipsi_kwargs_ in
    let contra_kwargs_ := global_kwargs_ in
    let contra_kwargs_ := kw_update (sub_kwargs "contra" kwargs_) contra_kwargs_ in
    match (let '(x1, x2) := np_u_set_tumor_spread_params (b_ipsi self_) args_ ipsi_kwargs_ in
      ((b_with_ipsi self_ x1), x2)) with
    | (self_, None) => (self_, None)
    | (self_, Some args_) =>
    match (if (b_symT self_) then
    match (let '((x3, x4), x5) := np_synchronize_params (the_edge_get_params (g_tri (u_graph (b_ipsi self_)))) (the_edge_set_params (g_tri (u_graph (b_contra self_)))) (np_tumor_edges (edges_dict (u_graph (b_ipsi self_)))) (np_tumor_edges (edges_dict (u_graph (b_contra self_)))) in
      let self_ := (b_with_ipsi self_ (u_with_graph (b_ipsi self_) (rep_put_tumor_edges (u_graph (b_ipsi self_)) x3))) in
      let self_ := (b_with_contra self_ (u_with_graph (b_contra self_) (rep_put_tumor_edges (u_graph (b_contra self_)) x4))) in
      (self_, x5)) with
    | (self_, None) => (self_, None)
    | (self_, Some _) =>
    (self_, Some args_)
    end
    else
    match (let '(x6, x7) := np_u_set_tumor_spread_params (b_contra self_) args_ contra_kwargs_ in
      ((b_with_contra self_ x6), x7)) with
    | (self_, None) => (self_, None)
    | (self_, Some args_) =>
    (self_, Some args_)
    end) with
    | (self_, None) => (self_, None)
    | (self_, Some args_) =>
    (self_, Some args_)
    end
    end.

  (** the same with set_lnl_spread_params, lnl_edges and is_symmetric["lnl_spread"] *)
  Definition np_b_set_lnl_spread_params (self_ : bilateral) (args_ : args) (kwargs_ : kwargs) : bilateral * option args :=
    let '(kwargs_, global_kwargs_) := unflatten_and_split kwargs_ ["ipsi"; "contra"] in
    let ipsi_kwargs_ := global_kwargs_ in
    let ipsi_kwargs_ := kw_update (sub_kwargs "ipsi" kwargs_) ipsi_kwargs_ in
    let contra_kwargs_ := global_kwargs_ in
    let contra_kwargs_ := kw_update (sub_kwargs "contra" kwargs_) contra_kwargs_ in
    match (let '(x1, x2) := np_u_set_lnl_spread_params (b_ipsi self_) args_ ipsi_kwargs_ in
      ((b_with_ipsi self_ x1), x2)) with
    | (self_, None) => (self_, None)
    | (self_, Some args_) =>
    match (if (b_symL self_) then
    match (let '((x3, x4), x5) := np_synchronize_params (the_edge_get_params (g_tri (u_graph (b_ipsi self_)))) (the_edge_set_params (g_tri (u_graph (b_contra self_)))) (np_lnl_edges (edges_dict (u_graph (b_ipsi self_)))) (np_lnl_edges (edges_dict (u_graph (b_contra self_)))) in
      let self_ := (b_with_ipsi self_ (u_with_graph (b_ipsi self_) (rep_put_lnl_edges (u_graph (b_ipsi self_)) x3))) in
      let self_ := (b_with_contra self_ (u_with_graph (b_contra self_) (rep_put_lnl_edges (u_graph (b_contra self_)) x4))) in
      (self_, x5)) with
    | (self_, None) => (self_, None)
    | (self_, Some _) =>
    (self_, Some args_)
    end
    else
    match (let '(x6, x7) := np_u_set_lnl_spread_params (b_contra self_) args_ contra_kwargs_ in
      ((b_with_contra self_ x6), x7)) with
    | (self_, None) => (self_, None)
    | (self_, Some args_) =>
    (self_, Some args_)
    end) with
    | (self_, None) => (self_, None)
    | (self_, Some args_) =>
    (self_, Some args_)
    end
    end.

  (** args = self.set_tumor_spread_params( *args, **kwargs); return self.set_lnl_spread_params( *args, **kwargs) *)
  Definition np_b_set_spread_params (self_ : bilateral) (args_ : args) (kwargs_ : kwargs) : bilateral * option args :=
    match np_b_set_tumor_spread_params self_ args_ kwargs_ with
    | (self_, None) => (self_, None)
    | (self_, Some args_) =>
    np_b_set_lnl_spread_params self_ args_ kwargs_
    end.

  (** args = self.set_spread_params( *args, **kwargs); return self.set_distribution_params( *args, **kwargs) *)
  Definition np_b_set_params (self_ : bilateral) (args_ : args) (kwargs_ : kwargs) : bilateral * option args :=
    match np_b_set_spread_params self_ args_ kwargs_ with
    | (self_, None) => (self_, None)
    | (self_, Some args_) =>
    the_bi_set_distribution_params self_ args_ kwargs_
    end.
End Readings.

(** * Unilateral: the readings equal the model *)
(** a call on a view of the edges of [g], seen from the object [F g] that holds the graph *)
Lemma np_set_view_lift {T} (F : graph -> T) (q : string * edge -> bool) (sel : edge -> bool) g a kw :
  (forall e, q (e_name e, e) = sel e) ->
  (let '(x1, x2) := np_set_params_for (edge_set_params (g_tri g)) (filter q (edges_dict g)) a kw in (F (rep_put_view q g x1), x2))
  = (F (fst (graph_set_params_sel sel g a kw)), snd (graph_set_params_sel sel g a kw)).
Proof.
  intros Hq. rewrite <- (np_set_view_eq q sel g a kw Hq).
  destruct (np_set_params_for (edge_set_params (g_tri g)) (filter q (edges_dict g)) a kw) as [x1 x2]. reflexivity.
Qed.
Lemma np_get_view_lift {T} (F : graph -> T) (q : string * edge -> bool) (sel : edge -> bool) fuel
    (gp : edge -> bool -> edge * option pdict) g fl :
  (forall e, q (e_name e, e) = sel e) -> (forall e fl', gp e fl' = (e, Some (edge_get_params (g_tri g) e))) ->
  (let '(x1, x2) := np_get_params_from (S (S fuel)) gp (filter q (edges_dict g)) fl in (F (rep_put_view q g x1), x2))
  = (F g, Some (edges_get_params (g_tri g) (filter sel (g_edges g)) fl)).
Proof.
  intros Hq Hg. pose proof (np_get_view_eq q sel fuel gp g fl Hq Hg) as H.
  destruct (np_get_params_from (S (S fuel)) gp (filter q (edges_dict g)) fl) as [x1 x2]. injection H as -> ->. reflexivity.
Qed.

Section UniProofs.
  Variables (fuel : nat) (egp : bool -> edge -> bool -> edge * option pdict)
            (udp : uni -> bool -> uni * option pdict).
  Hypothesis Hg : forall tri e fl, egp tri e fl = (e, Some (edge_get_params tri e)).
  Hypothesis Hd : forall u fl, udp u fl = (u, Some (u_get_distribution_params u fl)).

  Lemma np_u_get_tumor_spread_params_eq u fl :
    np_u_get_tumor_spread_params (S (S fuel)) egp u fl = (u, Some (u_get_tumor_spread_params u fl)).
  Proof.
    unfold np_u_get_tumor_spread_params, np_tumor_edges, rep_put_tumor_edges.
    rewrite (np_get_view_lift (u_with_graph u) _ is_tumor_spread) by (intros; first [reflexivity | apply Hg]).
    rewrite u_with_graph_id. reflexivity.
  Qed.
  Lemma np_u_get_lnl_spread_params_eq u fl :
    np_u_get_lnl_spread_params (S (S fuel)) egp u fl = (u, Some (u_get_lnl_spread_params u fl)).
  Proof.
    unfold np_u_get_lnl_spread_params, np_lnl_edges, rep_put_lnl_edges.
    rewrite (np_get_view_lift (u_with_graph u) _ (fun e => negb (is_tumor_spread e))) by (intros; first [reflexivity | apply Hg]).
    rewrite u_with_graph_id. reflexivity.
  Qed.
  Lemma np_u_get_spread_params_eq u fl :
    np_u_get_spread_params (S (S fuel)) egp u fl = (u, Some (u_get_spread_params u fl)).
  Proof.
    unfold np_u_get_spread_params. rewrite np_u_get_tumor_spread_params_eq. cbv beta iota zeta.
    rewrite np_u_get_lnl_spread_params_eq. cbv beta iota zeta. unfold u_get_spread_params.
    destruct fl; cbn [orb negb maybe_flatten]; [|reflexivity].
    rewrite np_flatten_flat by (apply kw_update_flat; apply edges_get_params_flat_true). reflexivity.
  Qed.
  Lemma u_get_spread_params_flat u : is_flat (u_get_spread_params u true).
  Proof. apply maybe_flatten_flat. Qed.
  Lemma np_u_get_params_eq u fl :
    np_u_get_params (S (S fuel)) egp udp u fl = (u, Some (u_get_params u fl)).
  Proof.
    unfold np_u_get_params. rewrite np_u_get_spread_params_eq. cbv beta iota zeta.
    rewrite Hd. cbv beta iota zeta. unfold u_get_params.
    destruct fl; cbn [orb negb maybe_flatten]; [|reflexivity].
    rewrite np_flatten_flat by (apply kw_update_flat; [apply dists_get_params_flat_true | apply u_get_spread_params_flat]). reflexivity.
  Qed.
End UniProofs.

Lemma np_u_set_tumor_spread_params_eq u a kw :
  np_u_set_tumor_spread_params edge_set_params u a kw = u_set_tumor_spread_params u a kw.
Proof.
  unfold np_u_set_tumor_spread_params, np_tumor_edges, rep_put_tumor_edges.
  apply (np_set_view_lift (u_with_graph u) _ is_tumor_spread). reflexivity.
Qed.
Lemma np_u_set_lnl_spread_params_eq u a kw :
  np_u_set_lnl_spread_params edge_set_params u a kw = u_set_lnl_spread_params u a kw.
Proof.
  unfold np_u_set_lnl_spread_params, np_lnl_edges, rep_put_lnl_edges.
  apply (np_set_view_lift (u_with_graph u) _ sel_lnl). reflexivity.
Qed.
Lemma np_u_set_spread_params_eq u a kw :
  np_u_set_spread_params edge_set_params u a kw = u_set_spread_params u a kw.
Proof.
  unfold np_u_set_spread_params, u_set_spread_params, andthen. rewrite np_u_set_tumor_spread_params_eq.
  destruct (u_set_tumor_spread_params u a kw) as [u1 [a1|]]; [apply np_u_set_lnl_spread_params_eq | reflexivity].
Qed.
Lemma np_u_set_params_eq u a kw :
  np_u_set_params edge_set_params u_set_distribution_params u a kw = u_set_params u a kw.
Proof.
  unfold np_u_set_params, u_set_params, andthen. rewrite np_u_set_spread_params_eq.
  destruct (u_set_spread_params u a kw) as [u1 [a1|]]; reflexivity.
Qed.

(** * Bilateral: the readings equal the model *)
Lemma sides_depth n x y : all_depth n x -> all_depth n y -> all_depth (S n) [(["ipsi"], Node x); (["contra"], Node y)].
Proof. intros Hx Hy. repeat constructor; cbn [snd]; rewrite depth_ok_node; assumption. Qed.
Lemma b_get_tumor_spread_params_depth b fl : all_depth 2 (b_get_tumor_spread_params b fl).
Proof.
  unfold b_get_tumor_spread_params. cbv zeta. destruct fl; [apply flat_all_depth, maybe_flatten_flat|]. cbn [maybe_flatten].
  destruct (b_symT b); [apply all_depth_S, all_depth_pd_sub|]; apply sides_depth; apply edges_get_params_depth.
Qed.
Lemma b_get_lnl_spread_params_depth b fl : all_depth 2 (b_get_lnl_spread_params b fl).
Proof.
  unfold b_get_lnl_spread_params. cbv zeta. destruct fl; [apply flat_all_depth, maybe_flatten_flat|]. cbn [maybe_flatten].
  destruct (b_symL b); [apply all_depth_S, all_depth_pd_sub|]; apply sides_depth; apply edges_get_params_depth.
Qed.

Section BiGetProofs.
  Variables (fuel : nat) (egp : bool -> edge -> bool -> edge * option pdict)
            (bdp : bilateral -> bool -> bilateral * option pdict).
  Hypothesis Hg : forall tri e fl, egp tri e fl = (e, Some (edge_get_params tri e)).
  Hypothesis Hd : forall b fl, bdp b fl = (b, Some (b_get_distribution_params b fl)).

  Lemma np_b_get_tumor_spread_params_eq b fl :
    np_b_get_tumor_spread_params (S (S (S fuel))) egp b fl = (b, Some (b_get_tumor_spread_params b fl)).
  Proof.
    unfold np_b_get_tumor_spread_params.
    rewrite (np_u_get_tumor_spread_params_eq (S fuel) egp Hg). cbv beta iota zeta. rewrite b_with_ipsi_id.
    rewrite (np_u_get_tumor_spread_params_eq (S fuel) egp Hg). cbv beta iota zeta. rewrite b_with_contra_id.
    unfold b_get_tumor_spread_params. cbv zeta.
    destruct (b_symT b); cbv beta iota zeta; (destruct fl; cbn [orb negb maybe_flatten]; cbv beta iota zeta; [|reflexivity]).
    - rewrite (np_flatten_le 1); [reflexivity | apply all_depth_pd_sub, sides_depth; apply edges_get_params_depth | lia].
    - rewrite (np_flatten_le 2); [reflexivity | apply sides_depth; apply edges_get_params_depth | lia].
  Qed.
  Lemma np_b_get_lnl_spread_params_eq b fl :
    np_b_get_lnl_spread_params (S (S (S fuel))) egp b fl = (b, Some (b_get_lnl_spread_params b fl)).
  Proof.
    unfold np_b_get_lnl_spread_params.
    rewrite (np_u_get_lnl_spread_params_eq (S fuel) egp Hg). cbv beta iota zeta. rewrite b_with_ipsi_id.
    rewrite (np_u_get_lnl_spread_params_eq (S fuel) egp Hg). cbv beta iota zeta. rewrite b_with_contra_id.
    unfold b_get_lnl_spread_params. cbv zeta.
    destruct (b_symL b); cbv beta iota zeta; (destruct fl; cbn [orb negb maybe_flatten]; cbv beta iota zeta; [|reflexivity]).
    - rewrite (np_flatten_le 1); [reflexivity | apply all_depth_pd_sub, sides_depth; apply edges_get_params_depth | lia].
    - rewrite (np_flatten_le 2); [reflexivity | apply sides_depth; apply edges_get_params_depth | lia].
  Qed.
  Lemma np_b_get_spread_params_eq b fl :
    np_b_get_spread_params (S (S (S fuel))) egp b fl = (b, Some (b_get_spread_params b fl)).
  Proof.
    unfold np_b_get_spread_params. rewrite np_b_get_tumor_spread_params_eq. cbv beta iota zeta.
    unfold b_get_spread_params. cbv zeta.
    destruct (negb (b_symT b) && negb (b_symL b)); cbv beta iota zeta.
    - rewrite np_b_get_lnl_spread_params_eq. cbv beta iota zeta. rewrite np_b_get_lnl_spread_params_eq. cbv beta iota zeta.
      destruct fl; cbn [orb negb maybe_flatten]; cbv beta iota zeta; [|reflexivity].
      rewrite (np_flatten_le 2); [reflexivity | | lia].
      apply all_depth_pd_update_at; [apply all_depth_pd_sub, b_get_lnl_spread_params_depth|].
      apply all_depth_pd_update_at; [apply all_depth_pd_sub, b_get_lnl_spread_params_depth|].
      apply b_get_tumor_spread_params_depth.
    - rewrite np_b_get_lnl_spread_params_eq. cbv beta iota zeta.
      destruct fl; cbn [orb negb maybe_flatten]; cbv beta iota zeta; [|reflexivity].
      rewrite (np_flatten_le 2); [reflexivity | | lia].
      apply all_depth_kw_update; [apply flat_all_depth, maybe_flatten_flat | apply b_get_tumor_spread_params_depth].
  Qed.
  Lemma np_b_get_params_eq b fl :
    np_b_get_params (S (S (S fuel))) egp bdp b fl = (b, Some (b_get_params b fl)).
  Proof.
    unfold np_b_get_params. rewrite np_b_get_spread_params_eq. cbv beta iota zeta.
    rewrite Hd. cbv beta iota zeta. unfold b_get_params.
    destruct fl; cbn [orb negb maybe_flatten]; [|reflexivity].
    rewrite np_flatten_flat by (apply kw_update_flat; apply maybe_flatten_flat). reflexivity.
  Qed.
End BiGetProofs.

(** synchronize_params between the views of two unilateral models *)
Lemma np_sync_view (q : string * edge -> bool) (sel : edge -> bool) (egp : bool -> edge -> bool -> edge * option pdict) from to :
  (forall e, q (e_name e, e) = sel e) -> (forall tri e fl, egp tri e fl = (e, Some (edge_get_params tri e))) ->
  np_synchronize_params (egp (g_tri (u_graph from))) (edge_set_params (g_tri (u_graph to)))
    (filter q (edges_dict (u_graph from))) (filter q (edges_dict (u_graph to)))
  = let '(v, ok) := sync_edges (u_tri from) (u_tri to) sel_all (filter sel (g_edges (u_graph from))) (filter sel (g_edges (u_graph to))) in
    ((filter q (edges_dict (u_graph from)), edge_objects v), if ok then Some tt else None).
Proof.
  intros Hq Hg. rewrite !edges_dict_objects, !(filter_edge_objects q sel Hq).
  apply np_synchronize_params_eq. intros e fl. apply Hg.
Qed.

Section BiSetProofs.
  Variable egp : bool -> edge -> bool -> edge * option pdict.
  Hypothesis Hg : forall tri e fl, egp tri e fl = (e, Some (edge_get_params tri e)).

  Lemma np_b_set_tumor_spread_params_eq b a kw :
    np_b_set_tumor_spread_params egp edge_set_params b a kw = b_set_tumor_spread_params b a kw.
  Proof.
    unfold np_b_set_tumor_spread_params, b_set_tumor_spread_params, b_set_side_params, side_kwargs, obj_kwargs.
    destruct (unflatten_and_split kw ["ipsi"; "contra"]) as [split glob]. cbv beta iota zeta.
    rewrite np_u_set_tumor_spread_params_eq.
    change (lift_graph (b_ipsi b) (graph_set_params_sel is_tumor_spread (u_graph (b_ipsi b)) a (kw_update (sub_kwargs "ipsi" split) glob)))
      with (u_set_tumor_spread_params (b_ipsi b) a (kw_update (sub_kwargs "ipsi" split) glob)).
    destruct (u_set_tumor_spread_params (b_ipsi b) a (kw_update (sub_kwargs "ipsi" split) glob)) as [i' [a1|]];
      cbv beta iota zeta; [|reflexivity].
    destruct b as [i c sT sL]. cbn [b_ipsi b_contra b_symT b_symL b_with_ipsi b_with_contra b_with].
    destruct sT.
    - unfold np_tumor_edges, rep_put_tumor_edges. rewrite (np_sync_view _ is_tumor_spread egp i' c (fun e => eq_refl) Hg).
      unfold u_sync. rewrite (sync_edges_unfilter _ _ is_tumor_spread).
      destruct (sync_edges (u_tri i') (u_tri c) sel_all (filter is_tumor_spread (g_edges (u_graph i')))
                  (filter is_tumor_spread (g_edges (u_graph c)))) as [v ok].
      cbv beta iota zeta. cbn [b_ipsi b_contra b_symT b_symL b_with_ipsi b_with_contra b_with].
      rewrite rep_put_view_id, u_with_graph_id, (rep_put_view_edges _ is_tumor_spread) by reflexivity.
      destruct ok; reflexivity.
    - rewrite np_u_set_tumor_spread_params_eq.
      change (lift_graph c (graph_set_params_sel is_tumor_spread (u_graph c) a1 (kw_update (sub_kwargs "contra" split) glob)))
        with (u_set_tumor_spread_params c a1 (kw_update (sub_kwargs "contra" split) glob)).
      destruct (u_set_tumor_spread_params c a1 (kw_update (sub_kwargs "contra" split) glob)) as [c' [a2|]]; reflexivity.
  Qed.
  Lemma np_b_set_lnl_spread_params_eq b a kw :
    np_b_set_lnl_spread_params egp edge_set_params b a kw = b_set_lnl_spread_params b a kw.
  Proof.
    unfold np_b_set_lnl_spread_params, b_set_lnl_spread_params, b_set_side_params, side_kwargs, obj_kwargs.
    destruct (unflatten_and_split kw ["ipsi"; "contra"]) as [split glob]. cbv beta iota zeta.
    rewrite np_u_set_lnl_spread_params_eq.
    change (lift_graph (b_ipsi b) (graph_set_params_sel sel_lnl (u_graph (b_ipsi b)) a (kw_update (sub_kwargs "ipsi" split) glob)))
      with (u_set_lnl_spread_params (b_ipsi b) a (kw_update (sub_kwargs "ipsi" split) glob)).
    destruct (u_set_lnl_spread_params (b_ipsi b) a (kw_update (sub_kwargs "ipsi" split) glob)) as [i' [a1|]];
      cbv beta iota zeta; [|reflexivity].
    destruct b as [i c sT sL]. cbn [b_ipsi b_contra b_symT b_symL b_with_ipsi b_with_contra b_with].
    destruct sL.
    - unfold np_lnl_edges, rep_put_lnl_edges. rewrite (np_sync_view _ sel_lnl egp i' c (fun e => eq_refl) Hg).
      unfold u_sync. rewrite (sync_edges_unfilter _ _ sel_lnl).
      destruct (sync_edges (u_tri i') (u_tri c) sel_all (filter sel_lnl (g_edges (u_graph i')))
                  (filter sel_lnl (g_edges (u_graph c)))) as [v ok].
      cbv beta iota zeta. cbn [b_ipsi b_contra b_symT b_symL b_with_ipsi b_with_contra b_with].
      rewrite rep_put_view_id, u_with_graph_id, (rep_put_view_edges _ sel_lnl) by reflexivity.
      destruct ok; reflexivity.
    - rewrite np_u_set_lnl_spread_params_eq.
      change (lift_graph c (graph_set_params_sel sel_lnl (u_graph c) a1 (kw_update (sub_kwargs "contra" split) glob)))
        with (u_set_lnl_spread_params c a1 (kw_update (sub_kwargs "contra" split) glob)).
      destruct (u_set_lnl_spread_params c a1 (kw_update (sub_kwargs "contra" split) glob)) as [c' [a2|]]; reflexivity.
  Qed.
  Lemma np_b_set_spread_params_eq b a kw :
    np_b_set_spread_params egp edge_set_params b a kw = b_set_spread_params b a kw.
  Proof.
    unfold np_b_set_spread_params, b_set_spread_params, andthen. rewrite np_b_set_tumor_spread_params_eq.
    destruct (b_set_tumor_spread_params b a kw) as [b1 [a1|]]; [apply np_b_set_lnl_spread_params_eq | reflexivity].
  Qed.
  Lemma np_b_set_params_eq b a kw :
    np_b_set_params egp edge_set_params b_set_distribution_params b a kw = b_set_params b a kw.
  Proof.
    unfold np_b_set_params, b_set_params, andthen. rewrite np_b_set_spread_params_eq.
    destruct (b_set_spread_params b a kw) as [b1 [a1|]]; reflexivity.
  Qed.
End BiSetProofs.

(** * The hypotheses on the abstract getters are satisfiable: the model's own getters *)
Definition model_edge_get_params (tri : bool) (e : edge) (as_flat : bool) : edge * option pdict := (e, Some (edge_get_params tri e)).
Definition model_uni_get_distribution_params (u : uni) (as_flat : bool) : uni * option pdict :=
  (u, Some (u_get_distribution_params u as_flat)).
Definition model_bi_get_distribution_params (b : bilateral) (as_flat : bool) : bilateral * option pdict :=
  (b, Some (b_get_distribution_params b as_flat)).
Lemma np_u_get_params_model fuel u fl :
  np_u_get_params (S (S fuel)) model_edge_get_params model_uni_get_distribution_params u fl = (u, Some (u_get_params u fl)).
Proof. apply np_u_get_params_eq; reflexivity. Qed.
Lemma np_b_get_params_model fuel b fl :
  np_b_get_params (S (S (S fuel))) model_edge_get_params model_bi_get_distribution_params b fl = (b, Some (b_get_params b fl)).
Proof. apply np_b_get_params_eq; reflexivity. Qed.
Lemma np_b_set_params_model b a kw :
  np_b_set_params model_edge_get_params edge_set_params b_set_distribution_params b a kw = b_set_params b a kw.
Proof. apply np_b_set_params_eq. reflexivity. Qed.
