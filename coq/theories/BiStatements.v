(** Statements for C03 (bilateral), C04 (midline) and the bilateral / midline part
    of C02. *)
From LymphModel Require Import Base States Linalg Graph Transition Observation Dist Unilateral UniStatements Models Bilateral Midline.
Local Open Scope nat_scope.
Open Scope Qc_scope.

Definition wf_bilateral (b : bilateral) : bool :=
  wf_uni (b_ipsi b) && wf_uni (b_contra b)
  && Nat.eqb (u_maxt (b_ipsi b)) (u_maxt (b_contra b))
  && Nat.eqb (u_base (b_ipsi b)) (u_base (b_contra b)).
Definition wf_bpatient (p : bpatient) : bool := wf_patient (ipsi_patient p) && wf_patient (contra_patient p).
Definition tab2 {A B} (f : A -> B -> Qc) (la : list A) (lb : list B) : mat := map (fun a => map (f a) lb) la.

(** * C03 *)
Definition C03_joint_spec_stmt : Prop :=
  forall b t pm, wf_bilateral b = true -> get_pmf (b_ipsi b) t = inr pm -> length pm = S (u_maxt (b_ipsi b)) ->
    bi_state_dist b t true = inr (tab2 (bi_joint_spec b pm) (u_states (b_ipsi b)) (u_states (b_contra b))).
Definition C03_joint_sums_to_one_stmt : Prop :=
  forall b pm, wf_bilateral b = true -> length pm = S (u_maxt (b_ipsi b)) -> sumQ pm = 1 ->
    msum (tab2 (bi_joint_spec b pm) (u_states (b_ipsi b)) (u_states (b_contra b))) = 1.
(** fast_trace pairs the SAME patient on both sides *)
Definition C03_patient_likelihoods_stmt : Prop :=
  forall b data t (joint : state -> state -> Qc), wf_bilateral b = true -> forallb wf_bpatient data = true ->
    bi_llhs_of_joint b data t (tab2 joint (u_states (b_ipsi b)) (u_states (b_contra b)))
    = inr (map (bi_patient_lik_spec b joint)
               (match t with None => data | Some ts => filter (fun p => str_eqb (bp_t p) ts) data end)).
(** all contralateral findings unrecorded => the ipsilateral unilateral likelihood *)
Definition C03_contra_unknown_reduces_stmt : Prop :=
  forall b t pm p, wf_bilateral b = true -> wf_bpatient p = true ->
    get_pmf (b_ipsi b) t = inr pm -> length pm = S (u_maxt (b_ipsi b)) ->
    (forall m pat l, diag_get m (bp_contra p) = Some pat -> pat_get l pat = None) ->
    bi_patient_lik_spec b (bi_joint_spec b pm) p = patient_lik_spec (b_ipsi b) pm (ipsi_patient p).
(** a single possible diagnosis time: the joint factorises *)
Definition C03_single_time_factorises_stmt : Prop :=
  forall b pm t0 xi xc, length pm = S (u_maxt (b_ipsi b)) -> (t0 <= u_maxt (b_ipsi b))%nat ->
    (forall t, nth t pm 0 = if Nat.eqb t t0 then 1 else 0) ->
    bi_joint_spec b pm xi xc = evo_spec (u_graph (b_ipsi b)) t0 xi * evo_spec (u_graph (b_contra b)) t0 xc.
Definition C03_bn_is_outer_product_stmt : Prop :=
  forall b si sc, state_dist_bn (u_graph (b_ipsi b)) = inr si -> state_dist_bn (u_graph (b_contra b)) = inr sc ->
    bi_state_dist b "" false = inr (map (fun a => map (fun c => a * c) sc) si).
Definition C03_obs_dist_spec_stmt : Prop :=
  forall b (joint : state -> state -> Qc), wf_bilateral b = true ->
    bi_obs_dist_of b (tab2 joint (u_states (b_ipsi b)) (u_states (b_contra b)))
    = tab2 (fun zi zc => sumQ (map (fun xi => sumQ (map (fun xc =>
              obs_spec (map snd (u_mods (b_ipsi b))) (u_n (b_ipsi b)) (u_base (b_ipsi b)) xi zi
              * joint xi xc
              * obs_spec (map snd (u_mods (b_contra b))) (u_n (b_contra b)) (u_base (b_contra b)) xc zc)
              (u_states (b_contra b)))) (u_states (b_ipsi b))))
           (u_obs_list (b_ipsi b)) (u_obs_list (b_contra b)).

(** * C02 (bilateral): Bayes' rule on the joint *)
Definition bi_joint_dx (b : bilateral) (prior : state -> state -> Qc) (di dc : diagnosis) (xi xc : state) : Qc :=
  prior xi xc * findings_prob (b_ipsi b) {| p_tstage := ""; p_find := di |} xi
              * findings_prob (b_contra b) {| p_tstage := ""; p_find := dc |} xc.
Definition C02_bi_posterior_bayes_stmt : Prop :=
  forall b (prior : state -> state -> Qc) di dc post, wf_bilateral b = true ->
    wf_bpatient {| bp_t := ""; bp_ipsi := di; bp_contra := dc |} = true ->
    bi_posterior_of b (tab2 prior (u_states (b_ipsi b)) (u_states (b_contra b))) di dc = inr (Some post) ->
    let J := tab2 (bi_joint_dx b prior di dc) (u_states (b_ipsi b)) (u_states (b_contra b)) in
    msum J <> 0 /\ post = map (map (fun a => a / msum J)) J.
Definition C02_bi_posterior_sum_one_stmt : Prop :=
  forall b prior di dc post, bi_posterior_of b prior di dc = inr (Some post) -> msum post = 1.
Definition C02_bi_risk_bayes_stmt : Prop :=
  forall b (post : state -> state -> Qc) ii ic r, wf_bilateral b = true ->
    bi_marginalize_of b ii ic (tab2 post (u_states (b_ipsi b)) (u_states (b_contra b))) = inr r ->
    r = sumQ (map (fun xi => sumQ (map (fun xc =>
          if matches_pattern (u_lnls (b_ipsi b)) ii (u_base (b_ipsi b)) xi
             && matches_pattern (u_lnls (b_contra b)) ic (u_base (b_ipsi b)) xc
          then post xi xc else 0) (u_states (b_contra b)))) (u_states (b_ipsi b))).

(** * C04 *)
Definition wf_midline (ml : midline) : bool :=
  wf_bilateral (ml_ext ml) && wf_bilateral (ml_noext ml)
  && Nat.eqb (u_maxt (b_ipsi (ml_ext ml))) (u_maxt (b_contra (ml_noext ml)))
  && Nat.eqb (u_base (b_ipsi (ml_ext ml))) (u_base (b_contra (ml_noext ml)))
  && Nat.eqb (nlnls (u_graph (b_contra (ml_ext ml)))) (nlnls (u_graph (b_contra (ml_noext ml)))).
(** the recursion / static scaling computes the chain's joint with the extension flag *)
Definition C04_contra_evo_is_chain_stmt : Prop :=
  forall ml t, wf_midline ml = true -> (t <= ml_maxt ml)%nat ->
    nth t (fst (contra_state_dist_evo ml)) [] = map (ml_contra_spec ml t false) (u_states (b_contra (ml_noext ml))) /\
    nth t (snd (contra_state_dist_evo ml)) [] = map (ml_contra_spec ml t true) (u_states (b_contra (ml_ext ml))).
Definition C04_midext_marginal_stmt : Prop :=
  forall ml t, wf_midline ml = true -> ml_evo ml = true ->
    sumQ (map (chain_contra ml t true) (u_states (b_contra (ml_ext ml)))) = 1 - qpow (1 - ml_midext ml) t /\
    sumQ (map (chain_contra ml t false) (u_states (b_contra (ml_noext ml)))) = qpow (1 - ml_midext ml) t.
Definition C04_static_marginal_stmt : Prop :=
  forall ml t, wf_midline ml = true -> ml_evo ml = false ->
    sumQ (map (static_contra ml t true) (u_states (b_contra (ml_ext ml)))) = ml_midext ml /\
    sumQ (map (static_contra ml t false) (u_states (b_contra (ml_noext ml)))) = 1 - ml_midext ml.
Definition C04_state_dist_spec_stmt : Prop :=
  forall ml t pm, wf_midline ml = true -> get_pmf (b_ipsi (ml_ext ml)) t = inr pm -> length pm = S (ml_maxt ml) ->
    ml_state_dist ml t = inr (tab2 (ml_joint_spec ml pm false) (u_states (b_ipsi (ml_ext ml))) (u_states (b_contra (ml_noext ml))),
                              tab2 (ml_joint_spec ml pm true) (u_states (b_ipsi (ml_ext ml))) (u_states (b_contra (ml_ext ml)))).
Definition C04_prior_sums_to_one_stmt : Prop :=
  forall ml pm, wf_midline ml = true -> length pm = S (ml_maxt ml) -> sumQ pm = 1 ->
    msum (tab2 (ml_joint_spec ml pm false) (u_states (b_ipsi (ml_ext ml))) (u_states (b_contra (ml_noext ml))))
    + msum (tab2 (ml_joint_spec ml pm true) (u_states (b_ipsi (ml_ext ml))) (u_states (b_contra (ml_ext ml)))) = 1.
Definition C04_mixing_formula_stmt : Prop :=
  forall a i c, mixed_spread a i c = a * i + (1 - a) * c
    /\ mixed_spread 0 i c = c /\ mixed_spread 1 i c = i
    /\ (0 <= a <= 1 -> 0 <= i <= 1 -> 0 <= c <= 1 -> 0 <= mixed_spread a i c <= 1).
(** per-case scoring: recorded status -> that slice, unknown -> sum of slices *)
Definition C04_unknown_is_sum_of_slices_stmt : Prop :=
  forall b (jn je : state -> state -> Qc) p,
    bi_patient_lik_spec b (fun xi xc => je xi xc + jn xi xc) p
    = bi_patient_lik_spec b je p + bi_patient_lik_spec b jn p.
(** the prior slices used by posterior / risk: midext = None -> marginal,
    Some e -> conditional on the extension status *)
Definition C04_prior_slice_spec_stmt : Prop :=
  forall (sd : mat * mat) e M, ml_prior_slice sd (Some e) true = Some M ->
    msum (if e then snd sd else fst sd) <> 0 /\
    M = map (map (fun a => a / msum (if e then snd sd else fst sd))) (if e then snd sd else fst sd).
Definition C04_prior_slice_none_stmt : Prop :=
  forall (sd : mat * mat) nz, ml_prior_slice sd None nz = Some (madd (fst sd) (snd sd)).
