(** SyncMidlinePositional: recovery of the Midline invariant (C11) by a complete POSITIONAL
    assignment, [Sync.C11_midline_full_assignment_restores_stmt]: from any well-formed state
    whose leaves differ at most in parameter values, [set_params( *v, *rest)] with
    [length v = m_param_count m] that returns normally leaves a consistent object.

    Why it holds: with no keywords every leaf setter takes its values from the front of
    the argument list it is handed, and the list is long enough for every leaf, so the
    values a leaf ends up with do not depend on the values it held before:
    - central, ext.ipsi, noext.ipsi receive the SAME list, hence the same tumour spread;
    - ext.contra is recomputed as the mixture (or set independently without mixing);
    - the LNL blocks hand every leaf of a block the same list;
    - every sub-model receives the same list for the distributions, and leaves that differ
      at most in keyword values ([config_sim]) end with the same distributions.
    Which value [popat] takes out as midext_prob plays no role (so the proof does not need
    the reported number of parameters to equal [m_param_count]): what is left has at least
    [m_param_count m - 1] values, as many as the leaves consume.

    New definitions and proofs only; nothing existing is changed. *)
From LymphModel Require Import Base States Linalg Graph Transition Observation Dist Unilateral Models Params
  ParamsStatements ParamsLemmas ParamsProofs ParamsBilateral ParamsMidline Safe ParamsMidlineSafe SafeProofs SafeMidline
  Sync SyncProofs SyncMidlineRecovery.
Local Open Scope nat_scope.
Local Open Scope string_scope.
Local Open Scope list_scope.

(** * Positional plans *)
Lemma u_lk_nil k : u_lk [] k = None.
Proof. destruct k; reflexivity. Qed.

Lemma plan_pos lk ps : forall a, (forall k, lk k = None) -> length ps <= length a -> plan lk ps a = firstn (length ps) a.
Proof.
  induction ps as [|[k old] r IH]; intros a H Hl; [reflexivity|].
  destruct a as [|x a]; cbn [length] in Hl; [lia|].
  cbn [plan hd_error tl length firstn]. rewrite H. cbn [pick val_or]. f_equal. apply IH; [exact H | lia].
Qed.

Lemma keys_length {A B} (l1 : list (A * B)) (l2 : list (A * B)) : map fst l1 = map fst l2 -> length l1 = length l2.
Proof. intros H. rewrite <- (map_length fst l1), H, map_length. reflexivity. Qed.

(** * What the leaf-wise relation transports *)
Lemma skel_keys u' u : skel u' u ->
  map fst (u_T u') = map fst (u_T u) /\ map fst (u_L u') = map fst (u_L u).
Proof.
  intros (Hs & Hb & _). unfold u_T, u_L, u_tumor_items, u_lnl_items, u_tri, g_tri. rewrite Hb. split.
  - apply shape_sel_keys; [apply kind_sel_tumor | exact Hs].
  - apply shape_sel_keys; [apply kind_sel_lnl | exact Hs].
Qed.

(** the parameter leaves (everything but [unknown]) have the keys [KT] / [KL] *)
Definition m_keys (m : midline) (KT KL : list path) : Prop :=
  forall l u, ml_leaf m l = Some u -> map fst (u_T u) = KT /\ map fst (u_L u) = KL.

Lemma shapes_agree_keys m : m_shapes_agree m -> m_keys m (map fst (u_T (ext_i m))) (map fst (u_L (ext_i m))).
Proof.
  intros H l u E. apply H. apply in_app_iff.
  destruct l; [left | right | left | right | left | right];
    first [apply in_ipsi_leaves | apply in_contra_leaves]; eexists; (split; [|exact E]); cbn; tauto.
Qed.

Lemma mid_rel_keys tr m m' KT KL : mid_rel tr m m' -> (forall l u, skel (tr l u) u) -> m_keys m KT KL -> m_keys m' KT KL.
Proof.
  intros Hrel Hsk Hk l u' E. destruct (mr_leaf_inv _ _ _ Hrel l u' E) as (u & Eu & ->).
  destruct (skel_keys _ _ (Hsk l u)) as [-> ->]. apply (Hk l u Eu).
Qed.

Lemma config_sim_left u' u v : Sync.same_config u' u -> config_sim u v -> config_sim u' v.
Proof. intros (A & B & C) (A' & B' & C' & D'). unfold config_sim. rewrite A, B, C. repeat split; assumption. Qed.
Lemma config_sim_right u v' v : Sync.same_config v' v -> config_sim u v -> config_sim u v'.
Proof. intros (A & B & C) (A' & B' & C' & D'). unfold config_sim. rewrite A, B, C. repeat split; assumption. Qed.

Lemma mid_rel_config_sim tr m m' : mid_rel tr m m' -> (forall l u, Sync.same_config (tr l u) u) ->
  m_config_sim m -> m_config_sim m'.
Proof.
  intros Hrel Hc Hm u' Hu'. rewrite (mr_ext_i _ _ _ Hrel).
  apply (config_sim_right _ _ (ext_i m) (Hc LExtIpsi (ext_i m))).
  apply in_all_leaves in Hu'. destruct Hu' as [(l & E)|(k & E & H)].
  - destruct (mr_leaf_inv _ _ _ Hrel l u' E) as (u & Eu & ->).
    apply (config_sim_left _ u _ (Hc l u)). apply Hm, in_all_leaves. left. exists l. exact Eu.
  - apply Hm, in_all_leaves. right. exists k. rewrite <- (mr_unknown _ _ _ Hrel). tauto.
Qed.

(** * Midline.set_tumor_spread_params, positional *)
(** the tumour part of the sharing invariant, with the shared ipsilateral value [TI] *)
Definition TP (m : midline) (TI : list (path * Qc)) : Prop :=
  (forall l u, In l (LCentralContra :: ipsi_ids) -> ml_leaf m l = Some u -> u_T u = TI) /\
  (forall mix, ml_mixing m = Some mix -> u_T (ext_c m) = mixed_items mix TI (u_T (noext_c m))).

(** what is left of the arguments after the contralateral part *)
Lemma tum4_rest m3 a3 r : m_wf m3 = true -> snd (tum4 m3 [] [] a3) = Some r ->
  length r = length a3 - (length (u_T (noext_c m3))
                          + match ml_mixing m3 with Some _ => 1 | None => length (u_T (ext_c m3)) end).
Proof.
  intros Hwf. unfold tum4.
  assert (Hnc : u_names_ok (noext_c m3) = true) by (apply (wf_leaf_names_ok m3 LNoextContra _ Hwf); reflexivity).
  assert (Hec : u_names_ok (ext_c m3) = true) by (apply (wf_leaf_names_ok m3 LExtContra _ Hwf); reflexivity).
  destruct (ml_mixing m3) as [cur|] eqn:Emix.
  - fold (noext_c m3).
    destruct (u_set_tumor_spread_params (noext_c m3) a3 (obj_kwargs "contra" [] [])) as [nc o4] eqn:E4.
    destruct o4 as [a4|]; [|discriminate].
    destruct (tumor_leaf_step m3 LNoextContra (noext_c m3) a3 (obj_kwargs "contra" [] []) eq_refl Hnc) as (qN & _ & HlN & R & _);
      [rewrite E4; discriminate|].
    rewrite E4 in R. injection R as _ ->.
    unfold tum5. destruct (popfirst (skipn (length (u_T (noext_c m3))) a3)) as [first a5] eqn:Ep.
    destruct (check_unit _) as [mix|]; [|discriminate].
    unfold tum6. destruct (ok_of _) as [ec ok6]. cbn [snd]. destruct ok6; [|discriminate]. intros [= <-].
    assert (Ha5 : a5 = tl (skipn (length (u_T (noext_c m3))) a3)).
    { unfold popfirst in Ep. destruct (skipn (length (u_T (noext_c m3))) a3); injection Ep as _ <-; reflexivity. }
    rewrite Ha5. pose proof (skipn_length (length (u_T (noext_c m3))) a3) as Hs.
    destruct (skipn (length (u_T (noext_c m3))) a3); cbn [tl length] in *; lia.
  - destruct (unflatten_and_split (sub_kwargs "noext" []) ["contra"]) as [nsplit ?].
    fold (noext_c m3).
    destruct (u_set_tumor_spread_params (noext_c m3) a3 (obj_kwargs "contra" nsplit [])) as [nc o4] eqn:E4.
    destruct o4 as [a4|]; [|discriminate].
    destruct (tumor_leaf_step m3 LNoextContra (noext_c m3) a3 (obj_kwargs "contra" nsplit []) eq_refl Hnc) as (qN & _ & HlN & R & _);
      [rewrite E4; discriminate|].
    rewrite E4 in R. injection R as -> ->.
    set (m4 := ml_with_noext m3 (b_with_contra (ml_noext m3) (u_put_sel is_tumor_spread (noext_c m3) qN))).
    destruct (unflatten_and_split (sub_kwargs "ext" []) ["contra"]) as [esplit ?].
    change (b_contra (ml_ext m4)) with (ext_c m3).
    destruct (u_set_tumor_spread_params (ext_c m3) _ (obj_kwargs "contra" esplit [])) as [ec o5] eqn:E5.
    cbn [snd]. intros ->.
    destruct (tumor_leaf_step m4 LExtContra (ext_c m3) (skipn (length (u_T (noext_c m3))) a3) (obj_kwargs "contra" esplit []) eq_refl Hec)
      as (qE & _ & HlE & R & _); [rewrite E5; discriminate|].
    rewrite E5 in R. injection R as _ ->. rewrite !skipn_length. lia.
Qed.

Lemma m_tumor_pos m a KT KL : m_wf m = true -> m_keys m KT KL -> length KT <= length a ->
  snd (m_set_tumor_spread_params m a []) <> None ->
  exists tr qI r, mid_rel tr m (fst (m_set_tumor_spread_params m a [])) /\
    (forall l u, skel (tr l u) u) /\ (forall l u, Sync.same_config (tr l u) u) /\ (forall l u, u_L (tr l u) = u_L u) /\
    length qI = length KT /\ TP (fst (m_set_tumor_spread_params m a [])) (combine KT qI) /\
    snd (m_set_tumor_spread_params m a []) = Some r /\
    length r = length a - (length KT + length KT + match ml_mixing m with Some _ => 1 | None => length KT end).
Proof.
  intros Hwf Hk Hla Hret.
  assert (HkT : forall l u, ml_leaf m l = Some u -> map fst (u_T u) = KT) by (intros l u E; apply (Hk l u E)).
  assert (HlenT : forall l u, ml_leaf m l = Some u -> length (u_T u) = length KT).
  { intros l u E. rewrite <- (map_length fst (u_T u)), (HkT l u E). reflexivity. }
  set (n := length KT) in *.
  rewrite tum_eq in *. rewrite unflatten_nil in *.
  revert Hret. unfold tum1. change (obj_kwargs "ipsi" [] []) with (@nil (path * val)). cbv zeta.
  (* step 1: the central model *)
  match goal with |- context [let '(m1, ok1) := ?X in _] => destruct X as [m1 ok1] eqn:E1 end.
  destruct ok1; cbn [negb]; [|intros C; contradiction]. intros Hret.
  assert (S1 : exists qq1, mid_rel (tum_put qq1) m m1 /\ ml_mixing m1 = ml_mixing m /\
                (forall l u, In l [LCentralIpsi; LCentralContra] -> ml_leaf m l = Some u ->
                   exists qs, qq1 l = Some qs /\ all_unit (firstn n a) = Some qs /\ length qs = n) /\
                (forall l, ~ In l [LCentralIpsi; LCentralContra] -> qq1 l = None)).
  { destruct (ml_central m) as [c|] eqn:Ec.
    - destruct (wf_parts m Hwf) as (_ & _ & Hcen). destruct (Hcen c Ec) as [Hcok HcT].
      assert (Hlci : length (u_T (b_ipsi c)) = n) by (apply (HlenT LCentralIpsi); cbn; rewrite Ec; reflexivity).
      destruct (b_set_tumor_spread_params c a []) as [c' o1] eqn:Eb. cbn [ok_of fst snd] in E1. injection E1 as <- Hok1.
      destruct o1 as [a1|]; [|discriminate].
      destruct (central_step c a [] Hcok HcT) as (qc & Eqc & Hlc & Hci & Hcc & HsT').
      { intros k _. rewrite side_lk_nil, u_lk_nil. reflexivity. }
      { rewrite Eb. discriminate. }
      rewrite Eb in Hci, Hcc, HsT'. cbn [fst] in Hci, Hcc, HsT'.
      rewrite plan_pos in Eqc by (try apply u_lk_nil; lia). rewrite Hlci in Eqc, Hlc.
      exists (q2 LCentralIpsi qc LCentralContra qc). split; [|split; [reflexivity|split]].
      + eapply mid_rel_ext; [|apply (mid_rel_with_central m c c' Ec HsT')]. intros l v Hv. unfold tum_put, q2.
        destruct l; cbn [leaf_eqb]; try reflexivity; cbn [ml_leaf] in Hv; rewrite Ec in Hv; injection Hv as <-; assumption.
      + intros l u [<-|[<-|[]]] _; exists qc; repeat split; assumption.
      + intros l Hl. unfold q2. destruct l; cbn [leaf_eqb]; try reflexivity; exfalso; apply Hl; cbn; tauto.
    - injection E1 as <-. exists (fun _ => None). split; [|split; [reflexivity|split]].
      + eapply mid_rel_ext; [|apply mid_rel_refl]. reflexivity.
      + intros l u [<-|[<-|[]]] E; cbn [ml_leaf] in E; rewrite Ec in E; discriminate.
      + reflexivity. }
  clear E1. destruct S1 as (qq1 & Hrel1 & Hmix1 & Hq1in & Hq1out).
  assert (Hwf1 : m_wf m1 = true) by (apply (mid_rel_wf _ m m1 Hrel1); [intros; apply tum_put_skel | exact Hwf]).
  assert (Id1 : forall l v, ~ In l [LCentralIpsi; LCentralContra] -> tum_put qq1 l v = v).
  { intros l v Hl. unfold tum_put. rewrite (Hq1out l Hl). reflexivity. }
  (* step 2: ext.ipsi *)
  unfold tum2 in Hret |- *. revert Hret.
  assert (Ei1 : ext_i m1 = ext_i m) by (rewrite (mr_ext_i _ _ _ Hrel1); apply Id1; cbn; intuition discriminate).
  fold (ext_i m1). rewrite Ei1.
  destruct (u_set_tumor_spread_params (ext_i m) a []) as [ei o2] eqn:E2. cbn [ok_of fst snd].
  destruct o2 as [a2|]; cbn [negb]; [|intros C; contradiction]. intros Hret.
  assert (El2 : ml_leaf m1 LExtIpsi = Some (ext_i m)) by (cbn [ml_leaf]; fold (ext_i m1); rewrite Ei1; reflexivity).
  assert (Hei : u_names_ok (ext_i m) = true) by (apply (wf_leaf_names_ok m LExtIpsi _ Hwf); reflexivity).
  assert (Hlei : length (u_T (ext_i m)) = n) by (apply (HlenT LExtIpsi); reflexivity).
  destruct (tumor_leaf_step m1 LExtIpsi (ext_i m) a [] El2 Hei) as (qI & EqI & HlI & R2 & Hrel2); [rewrite E2; discriminate|].
  rewrite plan_pos in EqI by (try apply u_lk_nil; lia). rewrite Hlei in EqI.
  rewrite E2 in R2. injection R2 as -> _.
  change (ml_with_ext m1 (b_with_ipsi (ml_ext m1) (u_put_sel is_tumor_spread (ext_i m) qI)))
    with (ml_with_leaf m1 LExtIpsi (u_put_sel is_tumor_spread (ext_i m) qI)) in *.
  set (m2 := ml_with_leaf m1 LExtIpsi (u_put_sel is_tumor_spread (ext_i m) qI)) in *.
  pose proof (mid_rel_trans _ _ _ _ _ Hrel1 Hrel2) as Hrel12. cbv beta in Hrel12.
  (* step 3: noext.ipsi *)
  unfold tum3 in Hret |- *. revert Hret.
  assert (Ni2 : noext_i m2 = noext_i m).
  { rewrite (mr_noext_i _ _ _ Hrel12). unfold tum_put at 1, q1. cbn [leaf_eqb]. apply Id1. cbn; intuition discriminate. }
  fold (noext_i m2). rewrite Ni2.
  destruct (u_set_tumor_spread_params (noext_i m) a []) as [ni o3] eqn:E3.
  destruct o3 as [a3|]; [|intros C; contradiction]. intros Hret.
  assert (El3 : ml_leaf m2 LNoextIpsi = Some (noext_i m)) by (cbn [ml_leaf]; fold (noext_i m2); rewrite Ni2; reflexivity).
  assert (Hni : u_names_ok (noext_i m) = true) by (apply (wf_leaf_names_ok m LNoextIpsi _ Hwf); reflexivity).
  assert (Hlni : length (u_T (noext_i m)) = n) by (apply (HlenT LNoextIpsi); reflexivity).
  destruct (tumor_leaf_step m2 LNoextIpsi (noext_i m) a [] El3 Hni) as (qI' & EqI' & HlI' & R3 & Hrel3); [rewrite E3; discriminate|].
  rewrite plan_pos in EqI' by (try apply u_lk_nil; lia). rewrite Hlni in EqI'.
  rewrite EqI in EqI'. injection EqI' as <-.
  rewrite E3 in R3. injection R3 as -> ->.
  change (ml_with_noext m2 (b_with_ipsi (ml_noext m2) (u_put_sel is_tumor_spread (noext_i m) qI)))
    with (ml_with_leaf m2 LNoextIpsi (u_put_sel is_tumor_spread (noext_i m) qI)) in *.
  set (m3 := ml_with_leaf m2 LNoextIpsi (u_put_sel is_tumor_spread (noext_i m) qI)) in *.
  pose proof (mid_rel_trans _ _ _ _ _ Hrel12 Hrel3) as Hrel123. cbv beta in Hrel123.
  assert (Hwf3 : m_wf m3 = true).
  { apply (mid_rel_wf _ m m3 Hrel123); [|exact Hwf]. intros l u _. eapply skel_trans; [apply tum_put_skel|]. eapply skel_trans; apply tum_put_skel. }
  assert (Ei3 : ext_i m3 = u_put_sel is_tumor_spread (ext_i m) qI).
  { rewrite (mr_ext_i _ _ _ Hrel123). unfold tum_put at 1 2, q1. cbn [leaf_eqb]. rewrite Id1 by (cbn; intuition discriminate). reflexivity. }
  assert (Ni3 : noext_i m3 = u_put_sel is_tumor_spread (noext_i m) qI).
  { rewrite (mr_noext_i _ _ _ Hrel123). unfold tum_put at 1 2, q1. cbn [leaf_eqb]. rewrite Id1 by (cbn; intuition discriminate). reflexivity. }
  assert (Ec3 : ext_c m3 = ext_c m).
  { rewrite (mr_ext_c _ _ _ Hrel123). unfold tum_put at 1 2, q1. cbn [leaf_eqb]. apply Id1. cbn; intuition discriminate. }
  assert (Nc3 : noext_c m3 = noext_c m).
  { rewrite (mr_noext_c _ _ _ Hrel123). unfold tum_put at 1 2, q1. cbn [leaf_eqb]. apply Id1. cbn; intuition discriminate. }
  set (TI := combine KT qI).
  assert (Kei : map fst (u_T (ext_i m)) = KT) by (apply (HkT LExtIpsi); reflexivity).
  assert (Kni : map fst (u_T (noext_i m)) = KT) by (apply (HkT LNoextIpsi); reflexivity).
  assert (HTe3 : u_T (ext_i m3) = TI).
  { rewrite Ei3, put_T_keys by exact HlI. rewrite Kei. reflexivity. }
  assert (HTn3 : u_T (noext_i m3) = u_T (ext_i m3)).
  { rewrite HTe3, Ni3, put_T_keys by (rewrite Hlni, <- Hlei; exact HlI). rewrite Kni. reflexivity. }
  (* step 4: the contralateral side *)
  destruct (tum4_spec m3 [] [] _ Hwf3 HTn3 Hret) as (qN & qE & HlN & HlE & Hrel4 & Hmix4).
  destruct (snd (tum4 m3 [] [] (skipn (length (u_T (noext_i m))) a))) as [r|] eqn:Er; [|contradiction].
  pose proof (tum4_rest m3 _ r Hwf3 Er) as Hlr.
  set (m4 := fst (tum4 m3 [] [] (skipn (length (u_T (noext_i m))) a))) in *.
  pose proof (mid_rel_trans _ _ _ _ _ Hrel123 Hrel4) as Hrel. cbv beta in Hrel.
  eexists. exists qI, r. split; [exact Hrel|].
  split; [|split; [|split; [|split; [|split; [|split]]]]].
  - intros l u. eapply skel_trans; [apply tum_put_skel|]. eapply skel_trans; [apply tum_put_skel|]. eapply skel_trans; apply tum_put_skel.
  - intros l u. eapply same_config_trans; [apply tum_put_config|]. eapply same_config_trans; [apply tum_put_config|].
    eapply same_config_trans; apply tum_put_config.
  - intros l u. rewrite !tum_put_L. reflexivity.
  - rewrite <- Hlei. exact HlI.
  - split.
    + intros l u' Hl Eu'. destruct (mr_leaf_inv _ _ _ Hrel l u' Eu') as (u & Eu & ->).
      pose proof (HkT l u Eu) as HKu. pose proof (HlenT l u Eu) as HLu.
      destruct Hl as [<-|[<-|[<-|[<-|[]]]]]; unfold tum_put at 1 2 3, q1, q2; cbn [leaf_eqb].
      * destruct (Hq1in LCentralContra u (or_intror (or_introl eq_refl)) Eu) as (qs & Eq & Ea & Hls).
        rewrite EqI in Ea. injection Ea as <-. unfold tum_put. rewrite Eq. rewrite put_T_keys by (rewrite HLu; exact Hls). rewrite HKu. reflexivity.
      * rewrite Id1 by (cbn; intuition discriminate). cbn [ml_leaf] in Eu. injection Eu as <-.
        fold (ext_i m). rewrite put_T_keys by exact HlI. rewrite Kei. reflexivity.
      * rewrite Id1 by (cbn; intuition discriminate). cbn [ml_leaf] in Eu. injection Eu as <-. fold (noext_i m).
        rewrite put_T_keys by (rewrite Hlni, <- Hlei; exact HlI). rewrite Kni. reflexivity.
      * destruct (Hq1in LCentralIpsi u (or_introl eq_refl) Eu) as (qs & Eq & Ea & Hls).
        rewrite EqI in Ea. injection Ea as <-. unfold tum_put. rewrite Eq. rewrite put_T_keys by (rewrite HLu; exact Hls). rewrite HKu. reflexivity.
    + intros mix Hm. specialize (Hmix4 mix Hm). rewrite HTe3 in Hmix4.
      rewrite (mr_ext_c _ _ _ Hrel4), (mr_noext_c _ _ _ Hrel4). unfold tum_put, q2. cbn [leaf_eqb]. exact Hmix4.
  - reflexivity.
  - assert (Lnc : length (u_T (noext_c m)) = n) by (apply (HlenT LNoextContra); reflexivity).
    assert (Lec : length (u_T (ext_c m)) = n) by (apply (HlenT LExtContra); reflexivity).
    rewrite Hlr, skipn_length, Hlni, Nc3, Ec3, Lnc, Lec.
    assert (Hmix3 : ml_mixing m3 = ml_mixing m).
    { unfold m3, m2. rewrite !ml_with_leaf_mixing. exact Hmix1. }
    rewrite Hmix3. destruct (ml_mixing m); lia.
Qed.

(** * Midline.set_lnl_spread_params, positional *)
Section BlockPos.
  Variables (a : args) (n : nat).
  Hypothesis Hn : n <= length a.

  Lemma lnl_block_pos ls : forall m, NoDup ls -> ls <> [] -> ml_leaf m (last ls LExtIpsi) <> None ->
    (forall l u, In l ls -> ml_leaf m l = Some u -> u_names_ok u = true /\ length (u_L u) = n) ->
    snd (m_set_lnl_block m ls a []) <> None ->
    exists qs, all_unit (firstn n a) = Some qs /\ length qs = n /\
               snd (m_set_lnl_block m ls a []) = Some (skipn n a) /\
               mid_rel (lnl_put qs ls) m (fst (m_set_lnl_block m ls a [])) /\
               ml_mixing (fst (m_set_lnl_block m ls a [])) = ml_mixing m.
  Proof.
    induction ls as [|l r IH]; intros m Hnd Hne Hlast Hall Hret; [contradiction|].
    inversion Hnd as [|? ? Hni Hnd']; subst. cbn [m_set_lnl_block] in *.
    destruct (ml_leaf m l) as [u|] eqn:El.
    - destruct (Hall l u (or_introl eq_refl) El) as [Hok HL].
      rewrite u_set_lnl_is_leaf_set in *.
      destruct (leaf_set_cases sel_lnl u a [] Hok) as [N|(qs & E & Hlen & R)].
      + exfalso. destruct (leaf_set sel_lnl u a []) as [u' o]. cbn [snd] in N. subst o. apply Hret. reflexivity.
      + change (u_sel_items sel_lnl u) with (u_L u) in E, Hlen, R.
        rewrite plan_pos in E by (try apply u_lk_nil; lia). rewrite HL in E, Hlen, R. rewrite R in *. cbn [fst snd] in *.
        set (u' := u_put_sel sel_lnl u qs) in *. set (m1 := ml_with_leaf m l u') in *.
        pose proof (mid_rel_with_leaf m l u u' El) as Hr1. fold m1 in Hr1.
        destruct r as [|l2 r2].
        * exists qs. cbn [fst snd]. split; [|split; [|split; [|split]]]; try assumption; try reflexivity.
          -- eapply mid_rel_ext; [|exact Hr1]. intros l' v Hv. unfold lnl_put. cbn [inb existsb]. rewrite orb_false_r.
             destruct (leaf_eqb l' l) eqn:Eq; [|reflexivity]. apply leaf_eqb_eq in Eq. subst l'. rewrite El in Hv. injection Hv as <-. reflexivity.
          -- apply ml_with_leaf_mixing.
        * assert (Hsame : forall l', In l' (l2 :: r2) -> ml_leaf m1 l' = ml_leaf m l').
          { intros l' Hl'. rewrite (mr_leaf _ _ _ Hr1 l'). destruct (leaf_eqb l' l) eqn:Eq.
            - apply leaf_eqb_eq in Eq. subst l'. contradiction.
            - destruct (ml_leaf m l'); reflexivity. }
          destruct (IH m1 Hnd') as (qs' & E' & Hlen' & R' & Hr2 & Hmix).
          -- discriminate.
          -- cbn [last] in Hlast. rewrite Hsame; [exact Hlast|]. clear. generalize l2. induction r2 as [|x r2 IH]; intros y; [left; reflexivity|].
             cbn [last]. right. apply IH.
          -- intros l' v Hl' Hv. rewrite Hsame in Hv by exact Hl'. apply (Hall l' v); [right; exact Hl' | exact Hv].
          -- exact Hret.
          -- rewrite E in E'. injection E' as <-. exists qs. split; [|split; [|split; [|split]]]; try assumption.
             ++ eapply mid_rel_ext; [|exact (mid_rel_trans _ _ _ _ _ Hr1 Hr2)]. intros l' v Hv. cbv beta. unfold lnl_put.
                change (inb l' (l :: l2 :: r2)) with (leaf_eqb l' l || inb l' (l2 :: r2)).
                destruct (leaf_eqb l' l) eqn:Eq; cbn [orb].
                ** apply leaf_eqb_eq in Eq. subst l'. rewrite El in Hv. injection Hv as <-.
                   apply inb_false in Hni. rewrite Hni. reflexivity.
                ** reflexivity.
             ++ rewrite Hmix. apply ml_with_leaf_mixing.
    - destruct r as [|l2 r2]; [exfalso; apply Hlast; exact El|].
      destruct (IH m Hnd') as (qs & E & Hlen & R & Hr & Hmix).
      + discriminate.
      + exact Hlast.
      + intros l' v Hl' Hv. apply (Hall l' v); [right; exact Hl' | exact Hv].
      + exact Hret.
      + exists qs. split; [|split; [|split; [|split]]]; try assumption.
        eapply mid_rel_ext; [|exact Hr]. intros l' v Hv. unfold lnl_put.
        change (inb l' (l :: l2 :: r2)) with (leaf_eqb l' l || inb l' (l2 :: r2)).
        destruct (leaf_eqb l' l) eqn:Eq; [|reflexivity]. apply leaf_eqb_eq in Eq. subst l'. rewrite El in Hv. discriminate.
  Qed.
End BlockPos.

Lemma m_lnl_pos m a KT KL : m_wf m = true -> m_keys m KT KL ->
  (if ml_symL m then length KL else length KL + length KL) <= length a ->
  snd (m_set_lnl_spread_params m a []) <> None ->
  exists tr qI qC r, mid_rel tr m (fst (m_set_lnl_spread_params m a [])) /\
    (forall l u, skel (tr l u) u) /\ (forall l u, Sync.same_config (tr l u) u) /\ (forall l u, u_T (tr l u) = u_T u) /\
    (forall l u, In l ipsi_ids -> ml_leaf m l = Some u -> u_L (tr l u) = combine KL qI) /\
    (forall l u, In l contra_ids -> ml_leaf m l = Some u -> u_L (tr l u) = combine KL qC) /\
    (ml_symL m = true -> qC = qI) /\
    ml_mixing (fst (m_set_lnl_spread_params m a [])) = ml_mixing m /\
    snd (m_set_lnl_spread_params m a []) = Some r /\
    length r = length a - (if ml_symL m then length KL else length KL + length KL).
Proof.
  intros Hwf Hk Hla Hret.
  assert (HkL : forall l u, ml_leaf m l = Some u -> map fst (u_L u) = KL) by (intros l u E; apply (Hk l u E)).
  assert (HlenL : forall l u, ml_leaf m l = Some u -> length (u_L u) = length KL).
  { intros l u E. rewrite <- (map_length fst (u_L u)), (HkL l u E). reflexivity. }
  unfold m_set_lnl_spread_params in *. rewrite unflatten_nil in *.
  change (obj_kwargs "ipsi" [] []) with (@nil (path * val)) in *. change (obj_kwargs "contra" [] []) with (@nil (path * val)) in *.
  destruct (ml_symL m) eqn:EsL.
  - set (ids := [LCentralIpsi; LCentralContra; LExtIpsi; LExtContra; LNoextIpsi; LNoextContra]) in *.
    assert (HallL : forall l u, In l ids -> ml_leaf m l = Some u -> u_names_ok u = true /\ length (u_L u) = length KL).
    { intros l u _ E. split; [apply (wf_leaf_names_ok m l u Hwf E) | apply (HlenL l u E)]. }
    destruct (lnl_block_pos a (length KL) Hla ids m NoDup_all_ids) as (qs & E & Hlen & R & Hrel & Hmix);
      [discriminate | cbn; discriminate | exact HallL | exact Hret |].
    exists (lnl_put qs ids), qs, qs, (skipn (length KL) a). split; [exact Hrel|].
    split; [intros; apply lnl_put_skel|]. split; [intros; apply lnl_put_config|]. split; [intros; apply lnl_put_T|].
    split; [|split; [|split; [reflexivity|split; [exact Hmix|split; [exact R | apply skipn_length]]]]].
    + intros l u Hl Eu. assert (Hin : In l ids) by (unfold ids; clear - Hl; unfold ipsi_ids in Hl; cbn in *; tauto).
      rewrite lnl_put_L_in; [rewrite (HkL l u Eu); reflexivity | exact Hin | rewrite (HlenL l u Eu); exact Hlen].
    + intros l u Hl Eu. assert (Hin : In l ids) by (unfold ids; clear - Hl; unfold contra_ids in Hl; cbn in *; tauto).
      rewrite lnl_put_L_in; [rewrite (HkL l u Eu); reflexivity | exact Hin | rewrite (HlenL l u Eu); exact Hlen].
  - destruct (andthen_ok _ _ Hret) as (a1 & Ha1 & Heq). rewrite Heq in *.
    set (idsI := [LCentralIpsi; LExtIpsi; LNoextIpsi]) in *. set (idsC := [LCentralContra; LExtContra; LNoextContra]) in *.
    assert (HallI : forall l u, In l idsI -> ml_leaf m l = Some u -> u_names_ok u = true /\ length (u_L u) = length KL).
    { intros l u _ E. split; [apply (wf_leaf_names_ok m l u Hwf E) | apply (HlenL l u E)]. }
    assert (Hla1 : length KL <= length a) by lia.
    destruct (lnl_block_pos a (length KL) Hla1 idsI m NoDup_ipsi_block) as (qI & EI & HlenI & RI & HrelI & HmixI);
      [discriminate | cbn; discriminate | exact HallI | rewrite Ha1; discriminate |].
    set (m1 := fst (m_set_lnl_block m idsI a [])) in *.
    rewrite RI in Ha1. injection Ha1 as <-.
    assert (Hwf1 : m_wf m1 = true) by (apply (mid_rel_wf _ m m1 HrelI); [intros; apply lnl_put_skel | exact Hwf]).
    assert (Hc1 : forall l, In l idsC -> ml_leaf m1 l = ml_leaf m l).
    { intros l Hl. rewrite (mr_leaf _ _ _ HrelI l). destruct (ml_leaf m l) as [u|]; [|reflexivity]. cbn [option_map].
      unfold lnl_put.
      assert (Hn : inb l idsI = false) by (apply inb_false; unfold idsI; unfold idsC in Hl; clear - Hl; cbn in *; intuition congruence).
      rewrite Hn. reflexivity. }
    assert (HallC : forall l u, In l idsC -> ml_leaf m1 l = Some u -> u_names_ok u = true /\ length (u_L u) = length KL).
    { intros l u Hl E. split; [apply (wf_leaf_names_ok m1 l u Hwf1 E)|]. rewrite Hc1 in E by exact Hl. apply (HlenL l u E). }
    assert (Hla2 : length KL <= length (skipn (length KL) a)) by (rewrite skipn_length; lia).
    destruct (lnl_block_pos _ (length KL) Hla2 idsC m1 NoDup_contra_block) as (qC & EC & HlenC & RC & HrelC & HmixC);
      [discriminate | cbn; discriminate | exact HallC | exact Hret |].
    pose proof (mid_rel_trans _ _ _ _ _ HrelI HrelC) as Hrel. cbv beta in Hrel.
    eexists. exists qI, qC, (skipn (length KL) (skipn (length KL) a)). split; [exact Hrel|].
    split; [intros; eapply skel_trans; apply lnl_put_skel|].
    split; [intros; eapply same_config_trans; apply lnl_put_config|].
    split; [intros; rewrite !lnl_put_T; reflexivity|].
    split; [|split; [|split; [intros C; discriminate C|split; [rewrite HmixC; exact HmixI|split; [exact RC | rewrite !skipn_length; lia]]]]].
    + intros l u Hl Eu. assert (Hin : In l idsI) by (unfold idsI; clear - Hl; unfold ipsi_ids in Hl; cbn in *; tauto).
      assert (Hout : ~ In l idsC) by (unfold idsC; clear - Hl; unfold ipsi_ids in Hl; cbn in *; intuition congruence).
      rewrite lnl_put_L_out by exact Hout.
      rewrite lnl_put_L_in; [rewrite (HkL l u Eu); reflexivity | exact Hin | rewrite (HlenL l u Eu); exact HlenI].
    + intros l u Hl Eu. assert (Hin : In l idsC) by (unfold idsC; clear - Hl; unfold contra_ids in Hl; cbn in *; tauto).
      assert (Hout : ~ In l idsI) by (unfold idsI; clear - Hl; unfold contra_ids in Hl; cbn in *; intuition congruence).
      rewrite lnl_put_L_in; [|exact Hin | rewrite lnl_put_L_out by exact Hout; rewrite (HlenL l u Eu); exact HlenC].
      rewrite lnl_put_L_out by exact Hout. rewrite (HkL l u Eu). reflexivity.
Qed.

(** * Midline.set_distribution_params, positional *)
Lemma dists_items_len_sim ds1 : forall ds2, Forall2 dist_sim (map snd ds1) (map snd ds2) ->
  length (dists_items ds1) = length (dists_items ds2).
Proof.
  induction ds1 as [|[t1 d1] r IH]; intros [|[t2 d2] r2] H; cbn [map snd] in H; inversion H; subst; [reflexivity|].
  unfold dists_items. cbn [flat_map fst snd]. rewrite !app_length. unfold pre at 1 3. rewrite !map_length. f_equal.
  - apply (dist_put_sim 0 d1 d2 []). assumption.
  - apply IH. assumption.
Qed.
Lemma config_sim_dist_len u v : config_sim u v -> length (u_dist_items u) = length (u_dist_items v).
Proof. intros (_ & _ & _ & H). apply dists_items_len_sim, H. Qed.

Lemma b_dist_pos_ex b a : b_names_ok b = true -> length (u_dist_items (b_ipsi b)) <= length a ->
  snd (b_set_distribution_params b a []) <> None ->
  exists ds0, dists_put (u_maxt (b_ipsi b)) (u_dists (b_ipsi b)) (firstn (length (u_dist_items (b_ipsi b))) a) = Some ds0.
Proof.
  intros Hok Hla Hret. pose proof (b_dist_step b a [] Hok) as Hs.
  rewrite (plan_pos (side_lk "ipsi" [])) in Hs by (try apply side_lk_nil; exact Hla).
  destruct (dists_put (u_maxt (b_ipsi b)) (u_dists (b_ipsi b)) _) as [dsi|]; [exists dsi; reflexivity | contradiction].
Qed.

Lemma b_dist_pos b a u0 ds0 : b_names_ok b = true -> config_sim (b_ipsi b) u0 -> config_sim (b_contra b) u0 ->
  length (u_dist_items u0) <= length a ->
  dists_put (u_maxt u0) (u_dists u0) (firstn (length (u_dist_items u0)) a) = Some ds0 ->
  snd (b_set_distribution_params b a []) <> None ->
  fst (b_set_distribution_params b a []) = bmap (fun u => u_with_dists u ds0) b /\
  b_names_ok (bmap (fun u => u_with_dists u ds0) b) = true.
Proof.
  intros Hok Hi Hc Hla Hd Hret. pose proof (b_dist_step b a [] Hok) as Hs.
  destruct (b_dist_facts b a [] Hok Hret) as [Hn _]. cbv zeta in Hn. revert Hn.
  pose proof (config_sim_dist_len _ _ Hi) as Li. pose proof (config_sim_dist_len _ _ Hc) as Lc.
  rewrite (plan_pos (side_lk "ipsi" [])) in Hs by (try apply side_lk_nil; lia).
  rewrite (plan_pos (side_lk "contra" [])) in Hs by (try apply side_lk_nil; lia).
  rewrite Li, Lc in Hs.
  destruct Hi as (_ & Mi & Ki & Si). destruct Hc as (_ & Mc & Kc & Sc). rewrite Mi, Mc in Hs.
  destruct (dists_put (u_maxt u0) (u_dists (b_ipsi b)) _) as [dsi|] eqn:Ei; [|contradiction].
  destruct (dists_put (u_maxt u0) (u_dists (b_contra b)) _) as [dsc|] eqn:Ec; [|contradiction].
  rewrite (dists_put_sim _ _ _ _ _ _ Ki Si Ei Hd), (dists_put_sim _ _ _ _ _ _ Kc Sc Ec Hd) in Hs.
  rewrite Hs. cbn [fst]. intros Hn. split; [reflexivity | exact Hn].
Qed.

Ltac norm_ml :=
  unfold ml_with_unknown, ml_with_central, ml_with_noext, ml_with_ext, ml_with_models;
  cbn [fst ml_ext ml_noext ml_central ml_unknown ml_mixing ml_midext ml_evo ml_symL option_map].

Lemma m_dist_pos m a : m_wf m = true -> m_config_sim m -> length (u_dist_items (ext_i m)) <= length a ->
  snd (m_set_distribution_params m a []) <> None ->
  exists ds0, fst (m_set_distribution_params m a []) = m_map (fun u => u_with_dists u ds0) m /\
              m_wf (m_map (fun u => u_with_dists u ds0) m) = true.
Proof.
  intros Hwf Hsim Hla.
  destruct (wf_parts m Hwf) as (Hoke & Hokn & Hokc).
  assert (Hokk : forall k, ml_unknown m = Some k -> b_names_ok k = true).
  { intros k Ek. unfold m_wf in Hwf. rewrite !andb_true_iff in Hwf. destruct Hwf as [_ Hk]. rewrite Ek in Hk. exact Hk. }
  assert (HsL : forall l u, ml_leaf m l = Some u -> config_sim u (ext_i m)).
  { intros l u E. apply Hsim, in_all_leaves. left. exists l. exact E. }
  assert (HsK : forall k, ml_unknown m = Some k -> config_sim (b_ipsi k) (ext_i m) /\ config_sim (b_contra k) (ext_i m)).
  { intros k E. split; apply Hsim, in_all_leaves; right; exists k; tauto. }
  unfold m_set_distribution_params. rewrite unflatten_nil.
  change (obj_kwargs "ext" [] []) with (@nil (path * val)). change (obj_kwargs "noext" [] []) with (@nil (path * val)).
  change (obj_kwargs "central" [] []) with (@nil (path * val)). change (obj_kwargs "unknown" [] []) with (@nil (path * val)).
  destruct (b_set_distribution_params (ml_ext m) a []) as [e' o1] eqn:E1. destruct o1 as [r1|]; [|intros C; contradiction].
  destruct (b_dist_pos_ex (ml_ext m) a Hoke Hla) as (ds0 & Ed0); [rewrite E1; discriminate|]. fold (ext_i m) in Ed0.
  pose proof (b_dist_pos (ml_ext m) a (ext_i m) ds0 Hoke (HsL LExtIpsi _ eq_refl) (HsL LExtContra _ eq_refl) Hla Ed0) as X1.
  rewrite E1 in X1. cbn [fst snd] in X1. destruct (X1 ltac:(discriminate)) as [-> N1]. clear X1.
  change (ml_noext (ml_with_ext m (bmap (fun u => u_with_dists u ds0) (ml_ext m)))) with (ml_noext m).
  destruct (b_set_distribution_params (ml_noext m) a []) as [n' o2] eqn:E2. destruct o2 as [r2|]; [|intros C; contradiction].
  pose proof (b_dist_pos (ml_noext m) a (ext_i m) ds0 Hokn (HsL LNoextIpsi _ eq_refl) (HsL LNoextContra _ eq_refl) Hla Ed0) as X2.
  rewrite E2 in X2. cbn [fst snd] in X2. destruct (X2 ltac:(discriminate)) as [-> N2]. clear X2.
  match goal with |- context [ml_central (ml_with_noext ?M ?B)] => change (ml_central (ml_with_noext M B)) with (ml_central m) end.
  intros H. exists ds0. revert H. unfold m_wf, m_map.
  destruct (ml_central m) as [c|] eqn:Ec.
  - destruct (b_set_distribution_params c a []) as [c' o3] eqn:E3. destruct o3 as [r3|]; [|intros C; contradiction].
    destruct (Hokc c eq_refl) as [Hcok HcT].
    pose proof (b_dist_pos c a (ext_i m) ds0 Hcok (HsL LCentralIpsi _ ltac:(cbn; rewrite Ec; reflexivity))
                  (HsL LCentralContra _ ltac:(cbn; rewrite Ec; reflexivity)) Hla Ed0) as X3.
    rewrite E3 in X3. cbn [fst snd] in X3. destruct (X3 ltac:(discriminate)) as [-> N3]. clear X3.
    match goal with |- context [ml_unknown (ml_with_central ?M ?B)] => change (ml_unknown (ml_with_central M B)) with (ml_unknown m) end.
    destruct (ml_unknown m) as [k|] eqn:Ek.
    + destruct (b_set_distribution_params k a []) as [k' o4] eqn:E4. cbn [fst snd]. intros Hret.
      destruct (HsK k eq_refl) as [Ki Kc].
      pose proof (b_dist_pos k a (ext_i m) ds0 (Hokk k eq_refl) Ki Kc Hla Ed0) as X4.
      rewrite E4 in X4. cbn [fst snd] in X4. destruct (X4 Hret) as [-> N4]. clear X4.
      norm_ml. cbn [opt_ok]. change (b_symT (bmap (fun u => u_with_dists u ds0) c)) with (b_symT c).
      rewrite N1, N2, N3, N4, HcT. split; reflexivity.
    + intros _.
      norm_ml. cbn [opt_ok]. change (b_symT (bmap (fun u => u_with_dists u ds0) c)) with (b_symT c).
      rewrite Ek, N1, N2, N3, HcT. split; reflexivity.
  - match goal with |- context [ml_unknown (ml_with_noext ?M ?B)] => change (ml_unknown (ml_with_noext M B)) with (ml_unknown m) end.
    destruct (ml_unknown m) as [k|] eqn:Ek.
    + destruct (b_set_distribution_params k a []) as [k' o4] eqn:E4. cbn [fst snd]. intros Hret.
      destruct (HsK k eq_refl) as [Ki Kc].
      pose proof (b_dist_pos k a (ext_i m) ds0 (Hokk k eq_refl) Ki Kc Hla Ed0) as X4.
      rewrite E4 in X4. cbn [fst snd] in X4. destruct (X4 Hret) as [-> N4]. clear X4.
      norm_ml. cbn [opt_ok]. rewrite Ec, N1, N2, N4. split; reflexivity.
    + intros _.
      norm_ml. cbn [opt_ok]. rewrite Ec, Ek, N1, N2. split; reflexivity.
Qed.

(** * Midline.set_spread_params, positional: the sharing invariant holds afterwards *)
Lemma m_param_count_eq m : m_param_count m =
  length (u_T (ext_i m)) + (match ml_mixing m with Some _ => length (u_T (ext_i m)) + 1 | None => length (u_T (ext_i m)) + length (u_T (ext_i m)) end)
  + (if ml_symL m then length (u_L (ext_i m)) else length (u_L (ext_i m)) + length (u_L (ext_i m)))
  + length (u_dist_items (ext_i m)) + 1.
Proof. reflexivity. Qed.

Lemma m_spread_pos m a : m_wf m = true -> m_shapes_agree m -> m_config_sim m ->
  m_param_count m - 1 <= length a ->
  snd (m_set_spread_params m a []) <> None ->
  exists r, snd (m_set_spread_params m a []) = Some r /\
    m_wf (fst (m_set_spread_params m a [])) = true /\ m_shared (fst (m_set_spread_params m a [])) /\
    m_config_sim (fst (m_set_spread_params m a [])) /\
    length (u_dist_items (ext_i (fst (m_set_spread_params m a [])))) <= length r.
Proof.
  intros Hwf Hsh Hsim Hla Hret. rewrite m_param_count_eq in Hla.
  set (KT := map fst (u_T (ext_i m))) in *. set (KL := map fst (u_L (ext_i m))) in *.
  pose proof (shapes_agree_keys m Hsh) as Hk. fold KT KL in Hk.
  assert (LKT : length (u_T (ext_i m)) = length KT) by (unfold KT; rewrite map_length; reflexivity).
  assert (LKL : length (u_L (ext_i m)) = length KL) by (unfold KL; rewrite map_length; reflexivity).
  rewrite LKT, LKL in Hla.
  unfold m_set_spread_params in *. destruct (andthen_ok _ _ Hret) as (a1 & Ha1 & Heq). rewrite Heq in *.
  assert (HlaT : length KT <= length a) by (destruct (ml_mixing m), (ml_symL m); lia).
  destruct (m_tumor_pos m a KT KL Hwf Hk HlaT) as (trT & qI & r & HrelT & skT & cfT & LT & HlqI & [HTP1 HTP2] & Hr & Hlr);
    [rewrite Ha1; discriminate|].
  rewrite Hr in Ha1. injection Ha1 as <-.
  set (m1 := fst (m_set_tumor_spread_params m a [])) in *.
  assert (Hwf1 : m_wf m1 = true) by (apply (mid_rel_wf _ m m1 HrelT); [intros; apply skT | exact Hwf]).
  pose proof (mid_rel_keys _ _ _ _ _ HrelT skT Hk) as Hk1.
  pose proof (mid_rel_config_sim _ _ _ HrelT cfT Hsim) as Hsim1.
  pose proof (mr_symL _ _ _ HrelT) as HsymL1.
  assert (HlaL : (if ml_symL m1 then length KL else length KL + length KL) <= length r).
  { rewrite HsymL1, Hlr. destruct (ml_mixing m), (ml_symL m); lia. }
  destruct (m_lnl_pos m1 r KT KL Hwf1 Hk1 HlaL Hret) as (trL & qLI & qLC & r2 & HrelL & skL & cfL & TL & HLI & HLC & Hsym & HmixL & Hr2 & Hlr2).
  set (m2 := fst (m_set_lnl_spread_params m1 r [])) in *.
  exists r2. split; [exact Hr2|]. split; [|split; [|split]].
  - apply (mid_rel_wf _ m1 m2 HrelL); [intros; apply skL | exact Hwf1].
  - apply (mid_rel_shared _ m1 m2 HrelL (combine KT qI) (combine KL qLI) (combine KL qLC)).
    + intros l u Hl Eu. rewrite TL. apply (HTP1 l u Hl Eu).
    + intros mix Hm. rewrite !TL. apply HTP2. rewrite <- HmixL. exact Hm.
    + exact HLI.
    + exact HLC.
    + intros E. rewrite (Hsym E). reflexivity.
  - apply (mid_rel_config_sim _ _ _ HrelL cfL Hsim1).
  - assert (Ed : u_dists (ext_i m2) = u_dists (ext_i m)).
    { rewrite (mr_ext_i _ _ _ HrelL), (mr_ext_i _ _ _ HrelT).
      destruct (cfL LExtIpsi (trT LExtIpsi (ext_i m))) as (_ & -> & _). destruct (cfT LExtIpsi (ext_i m)) as (_ & -> & _). reflexivity. }
    unfold u_dist_items in *. rewrite Ed, Hlr2, Hlr, HsymL1. destruct (ml_mixing m), (ml_symL m); lia.
Qed.

(** * Midline.set_params, positional *)
Lemma m_map_shared g m : (forall u, u_T (g u) = u_T u) -> (forall u, u_L (g u) = u_L u) -> m_shared m -> m_shared (m_map g m).
Proof.
  intros gT gL (H1 & H2 & H3 & H4 & H5 & H6).
  assert (Ei : ext_i (m_map g m) = g (ext_i m)) by reflexivity.
  assert (Ec : ext_c (m_map g m) = g (ext_c m)) by reflexivity.
  assert (En : noext_c (m_map g m) = g (noext_c m)) by reflexivity.
  unfold m_shared. rewrite Ei, Ec, En, ipsi_leaves_map, contra_leaves_map, !gT, !gL. repeat split.
  - intros u Hu. apply in_map_iff in Hu. destruct Hu as (u0 & <- & Hu0). rewrite gT. apply H1, Hu0.
  - intros c Hcen. unfold m_map in Hcen. cbn [ml_with_models ml_central] in Hcen.
    destruct (ml_central m) as [c0|] eqn:E0; [|discriminate]. injection Hcen as <-.
    unfold bmap, b_with. cbn [b_contra]. rewrite gT. apply (H2 c0). reflexivity.
  - exact H3.
  - intros u Hu. apply in_map_iff in Hu. destruct Hu as (u0 & <- & Hu0). rewrite gL. apply H4, Hu0.
  - intros u Hu. apply in_map_iff in Hu. destruct Hu as (u0 & <- & Hu0). rewrite gL. apply H5, Hu0.
  - exact H6.
Qed.

Lemma popat_length {A} (l : list A) idx b x af : popat l idx = (b, x, af) -> length l <= length (b ++ af) + 1.
Proof.
  unfold popat. set (n := Z.of_nat (length l)). set (i := if (idx <? 0)%Z then (idx + n)%Z else idx).
  destruct (i <? 0)%Z eqn:E1; [intros [= <- _ <-]; cbn; lia|].
  destruct (i >=? n)%Z eqn:E2; [intros [= <- _ <-]; rewrite app_nil_r; lia|].
  intros [= <- _ <-]. change (match l with [] => [] | _ :: l0 => skipn (Z.to_nat i) l0 end) with (skipn (S (Z.to_nat i)) l).
  rewrite app_length, firstn_length, skipn_length.
  apply Z.ltb_ge in E1. rewrite Z.geb_leb in E2. apply Z.leb_gt in E2. unfold n in E2. lia.
Qed.

(** THE THEOREM (with well-formedness of the result, so that the preservation theorems of
    SyncProofs.v apply to every later call): a full positional assignment that returns
    normally restores consistency from any well-formed state whose leaves differ at most
    in parameter values.  any argument list with at least [m_param_count m] values will do. *)
Lemma midline_positional_restores_gen m a : m_wf m = true -> m_shapes_agree m -> m_config_sim m ->
  m_param_count m <= length a ->
  snd (m_set_params m a []) <> None ->
  m_wf (fst (m_set_params m a [])) = true /\ m_consistent (fst (m_set_params m a [])).
Proof.
  intros Hwf Hsh Hsim Hlen. unfold m_set_params.
  destruct (m_get_params m true) as [ps|]; [|intros C; exfalso; apply C; reflexivity].
  destruct (popat a (Z.of_nat (length ps) - 1)) as [[before last] after] eqn:Ep.
  pose proof (popat_length _ _ _ _ _ Ep) as Hpl. cbn [kw_get].
  set (r0 := match last with Some x => option_map (ml_with_midext m) (check_unit x) | None => Some m end).
  assert (H0 : forall m0, r0 = Some m0 ->
            m_wf m0 = true /\ m_shapes_agree m0 /\ m_config_sim m0 /\ m_param_count m0 = m_param_count m).
  { intros m0 E0. unfold r0 in E0. destruct last as [x|].
    - destruct (check_unit x) as [q|]; [|discriminate]. injection E0 as <-.
      split; [exact Hwf|]. split; [exact Hsh|]. split; [exact Hsim | reflexivity].
    - injection E0 as <-. split; [exact Hwf|]. split; [exact Hsh|]. split; [exact Hsim | reflexivity]. }
  destruct r0 as [m0|]; [|intros C; exfalso; apply C; reflexivity].
  destruct (H0 m0 eq_refl) as (Hwf0 & Hsh0 & Hsim0 & Hcnt0). intros Hret.
  destruct (andthen_ok _ _ Hret) as (a1 & Ha1 & Heq). rewrite Heq in *.
  assert (Hla : m_param_count m0 - 1 <= length (before ++ after)) by (rewrite Hcnt0; lia).
  destruct (m_spread_pos m0 (before ++ after) Hwf0 Hsh0 Hsim0 Hla) as (r & Hr & Hwf1 & Hsh1 & Hsim1 & Hld);
    [rewrite Ha1; discriminate|].
  rewrite Hr in Ha1. injection Ha1 as <-.
  set (m1 := fst (m_set_spread_params m0 (before ++ after) [])) in *.
  destruct (m_dist_pos m1 r Hwf1 Hsim1 Hld Hret) as (ds0 & -> & Hwf2).
  split; [exact Hwf2|]. split.
  - apply m_map_shared; [reflexivity | reflexivity | exact Hsh1].
  - intros u Hu. rewrite all_leaves_map in Hu. apply in_map_iff in Hu. destruct Hu as (u0 & <- & Hu0).
    change (ext_i (m_map (fun u => u_with_dists u ds0) m1)) with (u_with_dists (ext_i m1) ds0).
    destruct (Hsim1 u0 Hu0) as (Hm & Ht & _). unfold Sync.same_config. cbn [u_with_dists u_mods u_dists u_maxt].
    repeat split; assumption.
Qed.

Theorem midline_full_assignment_restores : C11_midline_full_assignment_restores_stmt.
Proof.
  intros m v rest Hwf Hsh Hsim Hlen Hret.
  apply (midline_positional_restores_gen m (vals v ++ rest) Hwf Hsh Hsim); [|exact Hret].
  rewrite app_length. unfold vals. rewrite map_length. lia.
Qed.

Definition C11_midline_full_assignment_restores_wf_stmt : Prop :=
  forall m v rest, m_wf m = true -> m_shapes_agree m -> m_config_sim m ->
    length v = m_param_count m ->
    snd (m_set_params m (vals v ++ rest) []) <> None ->
    m_wf (fst (m_set_params m (vals v ++ rest) [])) = true /\ m_consistent (fst (m_set_params m (vals v ++ rest) [])).
Theorem midline_full_assignment_restores_wf : C11_midline_full_assignment_restores_wf_stmt.
Proof.
  intros m v rest Hwf Hsh Hsim Hlen Hret.
  apply (midline_positional_restores_gen m (vals v ++ rest) Hwf Hsh Hsim); [|exact Hret].
  rewrite app_length. unfold vals. rewrite map_length. lia.
Qed.


(** * For objects that are well-formed in the sense of Safe.v (every constructed object and
    every state reached from one by setter calls): no shape hypothesis is needed, the result
    is again such an object, and get_params reports what the leaves hold; with symmetric LNL
    spread (positional order = reported order) it reports exactly the assigned vector *)
Lemma names_ok_shapes_agree m : m_names_ok m = true -> m_shapes_agree m.
Proof.
  intros Hok u Hu.
  assert (Hall : In u (all_leaves m)).
  { apply in_all_leaves. left. apply in_app_iff in Hu. destruct Hu as [Hu|Hu].
    - apply in_ipsi_leaves in Hu. destruct Hu as (l & _ & E). exists l. exact E.
    - apply in_contra_leaves in Hu. destruct Hu as (l & _ & E). exists l. exact E. }
  destruct (all_leaves_bis m u Hall) as (b & Hb & Hs).
  destruct (m_ok_bi m b Hok Hb) as (_ & (_ & Ti & Li & _) & (_ & Tc & Lc & _) & _).
  unfold u_T, u_L, ext_i. fold (m_ei m). fold (TK m) (LK m). destruct Hs as [-> | ->]; split; assumption.
Qed.

Lemma m_items_count m : m_names_ok m = true -> length (m_items m) = m_param_count m.
Proof.
  intros Hok. rewrite m_param_count_eq.
  destruct (m_ok_bi m _ Hok (m_ok_ext m Hok)) as (_ & _ & (_ & Tec & Lec & _) & _).
  destruct (m_ok_bi m _ Hok (m_ok_noext m Hok)) as (_ & _ & (_ & Tnc & _) & _).
  apply keys_length in Tec, Lec, Tnc.
  unfold m_items, m_spread_items, u_T, u_L, ext_i. fold (m_ei m). unfold m_ei in *.
  destruct (ml_mixing m), (ml_symL m); unfold pre; rewrite ?app_length, ?map_length, ?app_length; cbn [length]; rewrite ?Tec, ?Lec, ?Tnc; unfold path; lia.
Qed.

Lemma combine_fst_snd {A B} (l : list (A * B)) : combine (map fst l) (map snd l) = l.
Proof. induction l as [|[a b] l IH]; [reflexivity|]. cbn [map combine fst snd]. rewrite IH. reflexivity. Qed.

Definition C11_midline_full_assignment_restores_pos_sim_stmt : Prop :=
  forall m v rest, m_names_ok m = true -> m_config_sim m -> length v = length (m_items m) ->
    snd (m_set_params m (vals v ++ rest) []) <> None ->
    let m' := fst (m_set_params m (vals v ++ rest) []) in
    m_names_ok m' = true /\ m_wf m' = true /\ m_consistent m' /\
    (* every reported parameter is the value of every leaf the sharing declares *)
    (exists L, m_got m' = Some L /\ map fst L = m_names m /\ forall k q, In (k, q) L -> m_reported_ok m' k q) /\
    (* positional order = reported order: exactly the assigned values are reported *)
    (ml_symL m = true -> param_items (MMid m') = Some (combine (m_names m) v)).

Lemma c11_mid_items_eq m : c11_mid_items m = mid_items m.
Proof. unfold c11_mid_items, mid_items, m_mixing_item, m_midext_item. destruct (ml_mixing m), (ml_symL m); reflexivity. Qed.

Theorem midline_full_assignment_restores_pos_sim : C11_midline_full_assignment_restores_pos_sim_stmt.
Proof.
  intros m v rest Hok Hsim Hlen Hret m'.
  pose proof (names_ok_wf m Hok) as Hwf. pose proof (names_ok_shapes_agree m Hok) as Hsh.
  assert (Hlen' : length v = m_param_count m) by (rewrite Hlen; apply m_items_count, Hok).
  destruct (midline_full_assignment_restores_wf m v rest Hwf Hsh Hsim Hlen' Hret) as [Hwf' Hc']. fold m' in Hwf', Hc'.
  assert (Hsk : sk_mid m' = sk_mid m) by apply sk_mid_set_params.
  assert (Hlm : length v = length (mid_items m)) by (rewrite <- safe_items_mid; exact Hlen).
  pose proof (fun HsL => mid_set_get_positional m v rest (safe_set_ok_mid m Hok) HsL Hlm Hret) as Hpos.
  cbv zeta in Hpos. fold m' in Hpos. clearbody m'.
  pose proof (m_names_ok_sk m' m Hsk Hok) as Hok'.
  pose proof (m_names_sk m' m Hok Hsk) as Hn.
  pose proof (m_got_spec m' (safe_names_ok_mid m' Hok')) as Hgot.
  assert (Hnames : map fst (mid_items m') = m_names m).
  { rewrite <- Hn. unfold m_names. rewrite safe_items_mid. reflexivity. }
  split; [exact Hok'|]. split; [exact Hwf'|]. split; [exact Hc'|]. split.
  - exists (mid_items m'). split; [exact Hgot|]. split; [exact Hnames|].
    rewrite <- c11_mid_items_eq. apply (midline_reported_params_are_used m' Hwf' Hc'). rewrite c11_mid_items_eq. exact Hgot.
  - intros HsL. destruct (Hpos HsL) as [Hv Hk].
    change (param_items (MMid m')) with (m_got m'). rewrite Hgot in *. cbn [option_map] in Hv, Hk.
    injection Hv as Hv. f_equal. rewrite <- (combine_fst_snd (mid_items m')), Hv, Hnames. reflexivity.
Qed.

Print Assumptions midline_full_assignment_restores.
Print Assumptions midline_full_assignment_restores_wf.
Print Assumptions midline_full_assignment_restores_pos_sim.
