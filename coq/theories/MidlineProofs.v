(** MidlineProofs: proofs of the C04 statements (midline model: the
    contralateral evolution with the extension flag, its marginals, the joint
    prior slices and their total mass, the mixing formula, the prior slices used
    by posterior / risk, linearity of the per-patient likelihood). *)
From LymphModel Require Import Base States Linalg Graph Transition Observation Dist Unilateral UniStatements Models Bilateral Midline BiStatements.
From LymphModel Require Import TransitionProofs PriorProofs.
Local Open Scope nat_scope.
Open Scope Qc_scope.

(** * Well-formedness facts *)
Lemma wf_bilateral_parts b : wf_bilateral b = true ->
  wf_graphb (u_graph (b_ipsi b)) = true /\ wf_graphb (u_graph (b_contra b)) = true /\
  u_maxt (b_ipsi b) = u_maxt (b_contra b) /\ u_base (b_ipsi b) = u_base (b_contra b).
Proof. unfold wf_bilateral, wf_uni. rewrite !andb_true_iff, !Nat.eqb_eq. tauto. Qed.

Lemma wf_midline_parts ml : wf_midline ml = true ->
  wf_graphb (u_graph (b_ipsi (ml_ext ml))) = true /\
  wf_graphb (u_graph (b_contra (ml_ext ml))) = true /\
  wf_graphb (u_graph (b_contra (ml_noext ml))) = true /\
  u_maxt (b_contra (ml_ext ml)) = ml_maxt ml /\
  u_maxt (b_contra (ml_noext ml)) = ml_maxt ml /\
  u_states (b_contra (ml_noext ml)) = u_states (b_contra (ml_ext ml)).
Proof.
  unfold wf_midline. rewrite !andb_true_iff, !Nat.eqb_eq.
  intros [[[[He Hn] Hm] Hb] Hl].
  apply wf_bilateral_parts in He. apply wf_bilateral_parts in Hn.
  destruct He as (He1 & He2 & He3 & He4). destruct Hn as (Hn1 & Hn2 & Hn3 & Hn4).
  unfold ml_maxt. repeat split; try assumption; try congruence.
  unfold u_states, state_list. unfold u_base in *. rewrite <- Hl. f_equal. congruence.
Qed.

(** * List facts *)
Lemma sum_delta (f g : nat -> Qc) t' : forall n a, In t' (seq a n) ->
  sumQ (map (fun t => f t * (if Nat.eqb t t' then g t else 0)) (seq a n)) = f t' * g t'.
Proof.
  induction n as [|n IH]; intros a Hin; [destruct Hin|].
  cbn [seq map sumQ]. destruct (Nat.eqb a t') eqn:E.
  - apply Nat.eqb_eq in E. subst a.
    rewrite (sumQ_map_ext _ (fun _ => 0)).
    2:{ intros t Ht. apply in_seq in Ht. destruct (Nat.eqb t t') eqn:E'.
        - apply Nat.eqb_eq in E'. lia.
        - ring. }
    rewrite sumQ_map_zero. ring.
  - apply Nat.eqb_neq in E. destruct Hin as [Hin|Hin]; [contradiction|].
    rewrite (IH _ Hin). ring.
Qed.

Lemma combine_seq_tab (pm : vec) : forall k,
  combine (seq k (length pm)) pm = map (fun t => (t, nth (t - k) pm 0)) (seq k (length pm)).
Proof.
  induction pm as [|a pm IH]; intros k; cbn [length seq combine map]; [reflexivity|].
  rewrite Nat.sub_diag. cbn [nth]. f_equal. rewrite IH. apply map_ext_in.
  intros t Ht. apply in_seq in Ht. replace (t - k)%nat with (S (t - S k)) by lia. reflexivity.
Qed.
Lemma combine_seq0_tab (pm : vec) n : length pm = n ->
  combine (seq 0 n) pm = map (fun t => (t, nth t pm 0)) (seq 0 n).
Proof.
  intros <-. rewrite combine_seq_tab. apply map_ext. intros t. rewrite Nat.sub_0_r. reflexivity.
Qed.

(** * Tabulating transpose / diag / matmul / joint_of_evos *)
Lemma transpose_w_tab {X Y} (I : Y -> X -> Qc) (L : list Y) (Sx : list X) :
  transpose_w (length Sx) (map (fun t => map (I t) Sx) L) = map (fun x => map (fun t => I t x) L) Sx.
Proof.
  unfold transpose_w. induction Sx as [|a Sx IH]; [reflexivity|].
  cbn [length]. rewrite <- cons_seq, <- seq_shift. cbn [map]. f_equal.
  - unfold mcol. rewrite map_map. reflexivity.
  - rewrite map_map, <- IH. apply map_ext. intros j. unfold mcol. rewrite !map_map. reflexivity.
Qed.

Lemma ncols_tab {X Y} (m : X -> Y -> Qc) (Sy : list Y) (L : list X) : L <> [] ->
  ncols (map (fun x => map (m x) Sy) L) = length Sy.
Proof. destruct L as [|a L]; [congruence|]. intros _. cbn [map ncols]. apply map_length. Qed.

Lemma diag_tab (pm : vec) :
  diag pm = map (fun i => map (fun j => if Nat.eqb i j then nth i pm 0 else 0) (seq 0 (length pm))) (seq 0 (length pm)).
Proof. reflexivity. Qed.

Lemma matmul_tab {X Y Z} (a : X -> Y -> Qc) (b : Y -> Z -> Qc) (Sx : list X) (Sy : list Y) (Sz : list Z) :
  Sy <> [] ->
  matmul (map (fun x => map (a x) Sy) Sx) (map (fun y => map (b y) Sz) Sy)
  = map (fun x => map (fun z => sumQ (map (fun y => a x y * b y z) Sy)) Sz) Sx.
Proof.
  intros HS. unfold matmul. rewrite (ncols_tab b Sz Sy HS). rewrite map_map.
  apply map_ext. intros x. rewrite vecmat_w_tab, combine_map_r. apply map_ext. intros z.
  rewrite map_map. reflexivity.
Qed.

Lemma joint_of_evos_tab {X Y} (I : nat -> X -> Qc) (C : nat -> Y -> Qc) (Sx : list X) (Sy : list Y) (pm : vec) :
  pm <> [] ->
  joint_of_evos (length Sx) (map (fun t => map (I t) Sx) (seq 0 (length pm))) pm
                (map (fun t => map (C t) Sy) (seq 0 (length pm)))
  = map (fun x => map (fun y => sumQ (map (fun '(t, w) => w * I t x * C t y) (combine (seq 0 (length pm)) pm))) Sy) Sx.
Proof.
  intros Hpm. assert (HL : seq 0 (length pm) <> []).
  { destruct pm; [congruence|]. cbn [length seq]. congruence. }
  unfold joint_of_evos. rewrite transpose_w_tab, diag_tab.
  rewrite (matmul_tab (fun x t => I t x) (fun i j => if Nat.eqb i j then nth i pm 0 else 0)) by exact HL.
  rewrite (map_ext_in _ (fun x => map (fun t => I t x * nth t pm 0) (seq 0 (length pm)))).
  2:{ intros x _. apply map_ext_in. intros t Ht. apply (sum_delta (fun t => I t x) (fun t => nth t pm 0)). exact Ht. }
  rewrite (matmul_tab (fun x t => I t x * nth t pm 0) C) by exact HL.
  apply map_ext. intros x. apply map_ext. intros y.
  rewrite combine_seq0_tab by reflexivity. rewrite map_map. apply sumQ_map_ext. intros t _. ring.
Qed.

(** * The contralateral evolution with the extension flag *)
Lemma chain_noext ml t : forall x,
  chain_contra ml t false x = qpow (1 - ml_midext ml) t * evo_spec (u_graph (b_contra (ml_noext ml))) t x.
Proof.
  induction t as [|t IH]; intros x.
  - cbn [chain_contra qpow evo_spec].
    destruct (list_eq_dec Nat.eq_dec x (healthy (nlnls (u_graph (b_contra (ml_noext ml)))))); ring.
  - cbn [chain_contra qpow evo_spec].
    rewrite (sumQ_map_ext _ (fun y => ((1 - ml_midext ml) * qpow (1 - ml_midext ml) t)
                * (evo_spec (u_graph (b_contra (ml_noext ml))) t y * trans_spec (u_graph (b_contra (ml_noext ml))) y x))).
    2:{ intros y _. rewrite IH. ring. }
    rewrite sumQ_map_scale. reflexivity.
Qed.

Lemma ext_rows_cons2 p T w r r' rest cur :
  ext_rows p T w (r :: r' :: rest) cur
  = cur :: ext_rows p T w (r' :: rest) (vecmat_w w (vadd (vscale p r) cur) T).
Proof. reflexivity. Qed.

Lemma ext_rows_tab {X} (St : list X) (m : X -> X -> Qc) p (N E : nat -> X -> Qc) :
  (forall t x, E (S t) x = sumQ (map (fun y => (E t y + p * N t y) * m y x) St)) ->
  forall n t0,
  ext_rows p (map (fun y => map (m y) St) St) (length St) (map (fun t => map (N t) St) (seq t0 n)) (map (E t0) St)
  = map (fun t => map (E t) St) (seq t0 n).
Proof.
  intros HE n. induction n as [|n IH]; intros t0; [reflexivity|].
  destruct n as [|n]; [reflexivity|].
  change (seq t0 (S (S n))) with (t0 :: seq (S t0) (S n)).
  change (seq (S t0) (S n)) with (S t0 :: seq (S (S t0)) n) at 1.
  cbn [map]. rewrite ext_rows_cons2.
  change (map (N (S t0)) St :: map (fun t => map (N t) St) (seq (S (S t0)) n))
    with (map (fun t => map (N t) St) (seq (S t0) (S n))).
  f_equal. rewrite <- (IH (S t0)). f_equal.
  rewrite vscale_map, vadd_map_map, vecmat_w_tab, combine_map_r.
  apply map_ext. intros x. rewrite map_map, HE. apply sumQ_map_ext. intros y _. ring.
Qed.

Lemma nstates_length u : nstates u = length (u_states u).
Proof. unfold nstates, u_states, state_list, u_base, u_n. symmetry. apply all_states_length. Qed.

Lemma contra_evo_tab ml : wf_midline ml = true ->
  contra_state_dist_evo ml =
  (map (fun t => map (ml_contra_spec ml t false) (u_states (b_contra (ml_noext ml)))) (seq 0 (S (ml_maxt ml))),
   map (fun t => map (ml_contra_spec ml t true) (u_states (b_contra (ml_ext ml)))) (seq 0 (S (ml_maxt ml)))).
Proof.
  intros Hwf. destruct (wf_midline_parts ml Hwf) as (Hi & He & Hn & Hme & Hmn & HS).
  unfold contra_state_dist_evo, ml_contra_spec.
  rewrite (state_dist_evo_tab _ transition_entries Hn), Hmn.
  destruct (ml_evo ml).
  - assert (H1 : map2 (fun '(a, _) r => vscale a r) (midext_evo ml)
               (map (fun t => map (evo_spec (u_graph (b_contra (ml_noext ml))) t) (u_states (b_contra (ml_noext ml))))
                    (seq 0 (S (ml_maxt ml))))
             = map (fun t => map (chain_contra ml t false) (u_states (b_contra (ml_noext ml)))) (seq 0 (S (ml_maxt ml)))).
    { unfold midext_evo. rewrite map2_map_map. apply map_ext. intros t. cbv zeta.
      rewrite vscale_map. apply map_ext. intros x. symmetry. apply chain_noext. }
    rewrite H1. f_equal.
    rewrite HS. unfold transition_matrix. rewrite (transition_entries _ He). unfold trans_spec_matrix.
    rewrite nstates_length. unfold u_states at 1 2.
    rewrite zeros_map.
    change (map (fun _ : state => 0) (state_list (u_graph (b_contra (ml_ext ml)))))
      with (map (chain_contra ml 0 true) (state_list (u_graph (b_contra (ml_ext ml))))).
    unfold u_states.
    apply (ext_rows_tab (state_list (u_graph (b_contra (ml_ext ml))))
             (trans_spec (u_graph (b_contra (ml_ext ml)))) (ml_midext ml)
             (fun t => chain_contra ml t false) (fun t => chain_contra ml t true)).
    intros t x. reflexivity.
  - rewrite (state_dist_evo_tab _ transition_entries He), Hme. rewrite !map_map. f_equal.
    + apply map_ext. intros t. rewrite vscale_map. reflexivity.
    + apply map_ext. intros t. rewrite vscale_map. reflexivity.
Qed.

Lemma contra_evo_is_chain : C04_contra_evo_is_chain_stmt.
Proof.
  intros ml t Hwf Ht. rewrite (contra_evo_tab ml Hwf). cbn [fst snd].
  rewrite !nth_map_seq by lia. split; reflexivity.
Qed.

(** * Marginals of the extension flag *)
Lemma midext_marginal : C04_midext_marginal_stmt.
Proof.
  intros ml t Hwf _. destruct (wf_midline_parts ml Hwf) as (Hi & He & Hn & Hme & Hmn & HS).
  assert (HF : forall t, sumQ (map (chain_contra ml t false) (u_states (b_contra (ml_noext ml))))
                         = qpow (1 - ml_midext ml) t).
  { intros t'. rewrite (sumQ_map_ext _ (fun x => qpow (1 - ml_midext ml) t'
                  * evo_spec (u_graph (b_contra (ml_noext ml))) t' x)) by (intros x _; apply chain_noext).
    rewrite sumQ_map_scale. unfold u_states. rewrite (evo_sum_one row_sums _ t' Hn). ring. }
  split; [|apply HF].
  induction t as [|t IH].
  - cbn [chain_contra qpow]. rewrite sumQ_map_zero. ring.
  - cbn [chain_contra qpow].
    rewrite (sumQ_swap (fun x y => (chain_contra ml t true y + ml_midext ml * chain_contra ml t false y)
                                   * trans_spec (u_graph (b_contra (ml_ext ml))) y x)).
    rewrite (sumQ_map_ext _ (fun y => chain_contra ml t true y + ml_midext ml * chain_contra ml t false y)).
    2:{ intros y Hy. rewrite sumQ_map_scale. unfold u_states.
        rewrite (row_sums _ y He Hy). ring. }
    rewrite sumQ_map_plus, sumQ_map_scale.
    change (state_list (u_graph (b_contra (ml_ext ml)))) with (u_states (b_contra (ml_ext ml))).
    rewrite IH, <- HS, HF. ring.
Qed.

Lemma static_marginal : C04_static_marginal_stmt.
Proof.
  intros ml t Hwf _. destruct (wf_midline_parts ml Hwf) as (Hi & He & Hn & Hme & Hmn & HS).
  unfold static_contra. rewrite !sumQ_map_scale. unfold u_states.
  rewrite (evo_sum_one row_sums _ t He), (evo_sum_one row_sums _ t Hn). split; ring.
Qed.

(** total mass of the contralateral joint with the flag, either branch *)
Lemma contra_total ml t : wf_midline ml = true ->
  sumQ (map (ml_contra_spec ml t false) (u_states (b_contra (ml_noext ml))))
  + sumQ (map (ml_contra_spec ml t true) (u_states (b_contra (ml_ext ml)))) = 1.
Proof.
  intros Hwf. unfold ml_contra_spec. destruct (ml_evo ml) eqn:E.
  - destruct (midext_marginal ml t Hwf E) as [H1 H2]. rewrite H1, H2. ring.
  - destruct (static_marginal ml t Hwf E) as [H1 H2]. rewrite H1, H2. ring.
Qed.

(** * The joint prior slices *)
Lemma ml_state_dist_spec : C04_state_dist_spec_stmt.
Proof.
  intros ml t pm Hwf Hpm Hlen. destruct (wf_midline_parts ml Hwf) as (Hi & He & Hn & Hme & Hmn & HS).
  unfold ml_state_dist. rewrite Hpm. cbn [bind]. rewrite (contra_evo_tab ml Hwf).
  rewrite (state_dist_evo_tab _ transition_entries Hi). fold (ml_maxt ml). rewrite <- Hlen.
  rewrite nstates_length.
  assert (Hne : pm <> []) by (destruct pm; [discriminate|congruence]).
  rewrite !joint_of_evos_tab by exact Hne.
  unfold tab2, ml_joint_spec. rewrite <- Hlen. reflexivity.
Qed.

Lemma msum_tab2 {X Y} (J : X -> Y -> Qc) Sx Sy :
  msum (tab2 J Sx Sy) = sumQ (map (fun x => sumQ (map (J x) Sy)) Sx).
Proof. unfold msum, tab2. rewrite map_map. reflexivity. Qed.

Lemma msum_joint {X Y K} (I : K -> X -> Qc) (C : K -> Y -> Qc) (w : K -> Qc) Sx Sy (L : list K) :
  sumQ (map (fun x => sumQ (map (fun y => sumQ (map (fun k => w k * I k x * C k y) L)) Sy)) Sx)
  = sumQ (map (fun k => w k * sumQ (map (I k) Sx) * sumQ (map (C k) Sy)) L).
Proof.
  rewrite (sumQ_map_ext _ (fun x => sumQ (map (fun k => w k * I k x * sumQ (map (C k) Sy)) L))).
  2:{ intros x _. rewrite (sumQ_swap (fun y k => w k * I k x * C k y)).
      apply sumQ_map_ext. intros k _. apply sumQ_map_scale. }
  rewrite (sumQ_swap (fun x k => w k * I k x * sumQ (map (C k) Sy))).
  apply sumQ_map_ext. intros k _.
  rewrite (sumQ_map_ext _ (fun x => (w k * sumQ (map (C k) Sy)) * I k x)) by (intros; ring).
  rewrite sumQ_map_scale. ring.
Qed.

Lemma ml_prior_sums_to_one : C04_prior_sums_to_one_stmt.
Proof.
  intros ml pm Hwf Hlen Hsum. destruct (wf_midline_parts ml Hwf) as (Hi & He & Hn & Hme & Hmn & HS).
  rewrite !msum_tab2. unfold ml_joint_spec.
  set (gi := u_graph (b_ipsi (ml_ext ml))).
  set (L := combine (seq 0 (S (ml_maxt ml))) pm).
  assert (HJ : forall e (Sy : list state),
    sumQ (map (fun xi => sumQ (map (fun xc =>
        sumQ (map (fun '(t, w) => w * evo_spec gi t xi * ml_contra_spec ml t e xc) L)) Sy)) (u_states (b_ipsi (ml_ext ml))))
    = sumQ (map (fun tw => snd tw * sumQ (map (ml_contra_spec ml (fst tw) e) Sy)) L)).
  { intros e Sy.
    rewrite <- (sumQ_map_ext (fun tw : nat * Qc => snd tw * sumQ (map (evo_spec gi (fst tw)) (u_states (b_ipsi (ml_ext ml))))
                                        * sumQ (map (ml_contra_spec ml (fst tw) e) Sy))).
    2:{ intros [t w] _. cbn [fst snd]. unfold u_states, gi. rewrite (evo_sum_one row_sums _ t Hi). ring. }
    rewrite <- (msum_joint (fun tw => evo_spec gi (fst tw)) (fun tw => ml_contra_spec ml (fst tw) e) snd).
    apply sumQ_map_ext. intros xi _. apply sumQ_map_ext. intros xc _. apply sumQ_map_ext. intros [t w] _. reflexivity. }
  rewrite !HJ, <- sumQ_map_plus.
  rewrite (sumQ_map_ext _ snd).
  2:{ intros [t w] _. cbn [fst snd]. rewrite <- Qcmult_plus_distr_r, (contra_total ml t Hwf). ring. }
  unfold L. rewrite map_snd_combine by (rewrite seq_length; exact Hlen). exact Hsum.
Qed.

(** * Mixing, slices, linearity *)
Lemma mixing_formula : C04_mixing_formula_stmt.
Proof.
  intros a i c. unfold mixed_spread. repeat split; try ring.
  - destruct H as [Ha0 Ha1]. destruct H0 as [Hi0 Hi1]. destruct H1 as [Hc0 Hc1].
    revert Ha0 Ha1 Hi0 Hi1 Hc0 Hc1. qc2q. generalize (this a) (this i) (this c). intros x y z; intros.
    assert (0 <= x * y)%Q by nra. assert (0 <= (1 - x) * z)%Q by nra. nra.
  - destruct H as [Ha0 Ha1]. destruct H0 as [Hi0 Hi1]. destruct H1 as [Hc0 Hc1].
    revert Ha0 Ha1 Hi0 Hi1 Hc0 Hc1. qc2q. generalize (this a) (this i) (this c). intros x y z; intros.
    assert (0 <= x * (1 - y))%Q by nra. assert (0 <= (1 - x) * (1 - z))%Q by nra. nra.
Qed.

Lemma unknown_is_sum_of_slices : C04_unknown_is_sum_of_slices_stmt.
Proof.
  intros b jn je p. unfold bi_patient_lik_spec. rewrite <- sumQ_map_plus.
  apply sumQ_map_ext. intros xi _. rewrite <- sumQ_map_plus.
  apply sumQ_map_ext. intros xc _. ring.
Qed.

Lemma prior_slice_spec : C04_prior_slice_spec_stmt.
Proof.
  intros sd e M. unfold ml_prior_slice.
  set (S0 := if e then snd sd else fst sd).
  unfold Qc_eqb. destruct (Qc_eq_dec (msum S0) 0) as [E|E]; [discriminate|].
  intros H. injection H as <-. split; [exact E|reflexivity].
Qed.

Lemma prior_slice_none : C04_prior_slice_none_stmt.
Proof. intros sd nz. reflexivity. Qed.

(** * Concrete objects for the non-vacuity examples of properties/C04.v *)
(** trinary graph T -> II, T -> III, III -> II (arc against the listing order), with
    growth; the three sides differ in their tumour spread (ipsi, contra of the
    extension model, contra of the no-extension model = mixing with alpha = 1/2) *)
Definition C04_ex_graph (t2 t3 : Qc) : graph :=
  set_edges (force_graph (build_graph 3
      [(("tumor", "T"), CList ["II"; "III"]); (("lnl", "II"), CList []); (("lnl", "III"), CList ["II"])]%string))
    [("TtoII", (t2, 1)); ("TtoIII", (t3, 1)); ("IIItoII", (qc 1 3, qc 1 2));
     ("II", (qc 1 5, 1)); ("III", (qc 2 5, 1))]%string.
Definition C04_ex_uni (t2 t3 : Qc) : uni :=
  {| u_graph := C04_ex_graph t2 t3;
     u_mods := [("CT", {| m_spec := qc 4 5; m_sens := qc 3 4; m_path := false |});
                ("path", {| m_spec := qc 9 10; m_sens := qc 7 10; m_path := true |})]%string;
     u_dists := [("early", Frozen [qc 1 2; qc 1 4; qc 1 4]); ("late", Param 0 [("p", qc 1 3)])]%string;
     u_maxt := 2 |}.
Definition C04_ex_ml (evo : bool) : midline :=
  let ipsi := C04_ex_uni (qc 1 2) (qc 1 4) in
  {| ml_ext := {| b_ipsi := ipsi; b_contra := C04_ex_uni (qc 1 2) (qc 1 4); b_symT := false; b_symL := true |};
     ml_noext := {| b_ipsi := ipsi;
                    b_contra := C04_ex_uni (mixed_spread (qc 1 2) (qc 1 2) (qc 1 10)) (mixed_spread (qc 1 2) (qc 1 4) (qc 1 20));
                    b_symT := false; b_symL := true |};
     ml_central := None; ml_unknown := None;
     ml_mixing := Some (qc 1 2); ml_midext := qc 1 3; ml_evo := evo; ml_symL := true |}.
