(** NumpyParams: the base of lymph's parameter plumbing read statement by statement, as the Python code manipulates
    its sequences, dicts and [Edge] objects (the name follows Numpy.v / NumpyTransition.v although this file is about
    dicts), and the STATIC proofs that this reading equals the hand-written model of Params.v.
    The source translator harness/translate5.py regenerates every [np_<function>] below from the Python source on every
    run ([gen_<function>]) and checks the generated term against the one written here by conversion ([reflexivity]).

    Reading of Python values (the conventions of Params.v):
    - a sequence / [*args] tuple is a [list]; [seq[k]] is [py_index] ([None] = IndexError), [seq[k:]] is [py_slice_from];
    - "an element or Python's None" is an [option];
    - a dict is an insertion-ordered association list: [d[k] = v] is [kw_set] (path keys) / [dict_set] (string keys),
      [k in d] is [dict_has], [d.get(k, {})] and [d[k]] on a key that is present are [sub_kwargs];
    - an [Edge] object is the record [edge]; the private attributes [_spread_prob], [_micro_mod] are the fields
      [e_spread], [e_micro]; a method is a function [edge -> ... -> edge * option R]: the new object state and the
      returned value, [None] = the method raised (ValueError) and the state is the object as Python leaves it;
    - [hasattr(self, "_x")] is an opaque boolean [hasattr "_x"]: the theorems need [hasattr "_spread_prob" = true] for
      every edge and [hasattr "_micro_mod" = true] for the edges that carry a micro modifier, which is what
      [Edge.__init__] establishes ([self.spread_prob = spread_prob] always, [self.micro_mod = micro_mod] under the very
      condition [has_micro]);
    - a value passed by the user is a [val]; it is never Python's None ([val_is_none] = [false]): only the first
      component of [popfirst] can be None;
    - the chained comparison [not lo <= x <= hi] on a user value is [check_range lo hi x = None] (NaN and the
      infinities fail it), and when it holds [x] is the number [q] with [check_range lo hi x = Some q];
    - [objects: dict[str, obj]] is an association list threaded like an object; a loop over [objects.items()] whose
      body calls methods of the object, rebinds one variable and may raise is [py_for_items]; [obj.set_params] /
      [obj.get_params] are function parameters (abstract methods), instantiated with the Edge model in the lemmas;
    - the recursion of [utils.flatten] on nested dicts is a Fixpoint on a recursion bound [fuel]; the lemmas are for
      dicts nested one level deep ([depth1]) and every [fuel >= 2].

    Contents: [np_popfirst_eq], [np_unflatten_and_split_eq], [np_edge_get_params_eq], [np_edge_set_params_eq],
    [np_set_params_for_edges] / [np_set_params_for_graph], [np_flatten_depth1], [np_get_params_from_edges]. *)
From LymphModel Require Import Base States Linalg Graph Transition Observation Dist Unilateral Models Params ParamsStatements ParamsLemmas.
Local Open Scope nat_scope.
Local Open Scope string_scope.
Local Open Scope list_scope.

(** * Sequences *)
(** seq[k]: [None] = IndexError *)
Definition py_index {A} (seq : list A) (k : nat) : option A := nth_error seq k.
(** seq[k:] (never raises) *)
Definition py_slice_from {A} (seq : list A) (k : nat) : list A := skipn k seq.

(** utils.popfirst:  try: return seq[0], seq[1:]  except IndexError: return None, seq *)
Definition np_popfirst {A} (seq : list A) : option A * list A :=
  match py_index seq 0 with
  | Some x => (Some x, py_slice_from seq 1)
  | None => (None, seq)
  end.
Lemma np_popfirst_eq {A} (l : list A) : np_popfirst l = popfirst l.
Proof. destruct l; reflexivity. Qed.

(** * String-keyed dicts of dicts *)
Definition dict_has {V} (k : string) (d : list (string * V)) : bool :=
  match dict_get k d with Some _ => true | None => false end.

Lemma dict_set_set_same {V} (k : string) (v v' : V) d : dict_set k v (dict_set k v' d) = dict_set k v d.
Proof.
  induction d as [|[k' w] d IH]; cbn [dict_set]; [rewrite str_eqb_refl; reflexivity|].
  destruct (str_eqb k k') eqn:E; cbn [dict_set]; [rewrite str_eqb_refl; reflexivity | rewrite E, IH; reflexivity].
Qed.

(** utils.unflatten_and_split, statement by statement.  The aliasing idiom
      tmp = split_kwargs; if left not in tmp: tmp[left] = {}; tmp = tmp[left]; tmp[right] = value
    is read as two updates of [split_kwargs] itself ([tmp] is first an alias of [split_kwargs], then of the dict stored
    under [left], so the last assignment changes the dict stored in [split_kwargs] under [left]). *)
Definition np_unflatten_and_split (mapping : kwargs) (expected_keys : list string) : list (string * kwargs) * kwargs :=
  let '(split_kwargs, global_kwargs) := (([] : list (string * kwargs)), ([] : kwargs)) in
  let '(split_kwargs, global_kwargs) :=
    fold_left (fun '((split_kwargs, global_kwargs) : list (string * kwargs) * kwargs) '((key, value) : path * val) =>
        let '(left_, right_) := partition_key key in
        if negb (mem left_ expected_keys) then
          let global_kwargs := kw_set key value global_kwargs in
          (split_kwargs, global_kwargs)
        else
          let split_kwargs := if negb (dict_has left_ split_kwargs) then dict_set left_ [] split_kwargs else split_kwargs in
          let split_kwargs := dict_set left_ (kw_set right_ value (sub_kwargs left_ split_kwargs)) split_kwargs in
          (split_kwargs, global_kwargs))
      mapping (split_kwargs, global_kwargs) in
  (split_kwargs, global_kwargs).

Lemma fold_left_ext {A B} (f g : A -> B -> A) : (forall a b, f a b = g a b) -> forall l a, fold_left f l a = fold_left g l a.
Proof. intros H l. induction l as [|b l IH]; intros a; cbn [fold_left]; [reflexivity | rewrite H; apply IH]. Qed.

Lemma nested_set_alias (l : string) (r : path) (v : val) (s : list (string * kwargs)) :
  let s1 := if negb (dict_has l s) then dict_set l [] s else s in
  dict_set l (kw_set r v (sub_kwargs l s1)) s1 = dict_set l (kw_set r v (sub_kwargs l s)) s.
Proof.
  cbv zeta. unfold dict_has. destruct (dict_get l s) eqn:E; cbn [negb]; [reflexivity|].
  rewrite sub_kwargs_set_same, dict_set_set_same. unfold sub_kwargs. rewrite E. reflexivity.
Qed.

Lemma np_unflatten_and_split_eq kw expected : np_unflatten_and_split kw expected = unflatten_and_split kw expected.
Proof.
  unfold np_unflatten_and_split, unflatten_and_split.
  match goal with |- (let '(a, b) := ?p in (a, b)) = _ => transitivity p; [destruct p; reflexivity|] end.
  apply fold_left_ext. intros [split glob] [key value]. cbn [fst snd].
  destruct (partition_key key) as [hd tl]. destruct (mem hd expected); cbn [negb]; [|reflexivity].
  f_equal. apply nested_set_alias.
Qed.

(** * graph.Edge *)
Definition val_is_none (v : val) : bool := false.
Definition check_range (lo hi : Qc) (v : val) : option Qc :=
  match v with
  | V q => if Qc_leb lo q && Qc_leb q hi then Some q else None
  | Bad => None
  end.
Lemma check_range_unit v : check_range 0%Qc 1%Qc v = check_unit v.
Proof. reflexivity. Qed.

(** get_spread_prob:  if not hasattr(self, "_spread_prob"): self._spread_prob = 0.0 ; return self._spread_prob *)
Definition np_get_spread_prob (tri : bool) (hasattr : string -> bool) (self : edge) : edge * option Qc :=
  match (if negb (hasattr "_spread_prob") then
           let self := with_spread self 0%Qc in
           (self, Some tt)
         else (self, Some tt)) with
  | (self, None) => (self, None)
  | (self, Some _) => (self, Some (e_spread self))
  end.

(** get_micro_mod:  if not hasattr(self, "_micro_mod") or isinstance(self.parent, Tumor) or self.parent.is_binary:
                        self._micro_mod = 1.0
                    return self._micro_mod *)
Definition np_get_micro_mod (tri : bool) (hasattr : string -> bool) (self : edge) : edge * option Qc :=
  match (if negb (hasattr "_micro_mod") || is_tumor_spread self || negb tri then
           let self := with_micro self 1%Qc in
           (self, Some tt)
         else (self, Some tt)) with
  | (self, None) => (self, None)
  | (self, Some _) => (self, Some (e_micro self))
  end.

(** set_spread_prob:  if new is None: return ; if not 0.0 <= new <= 1.0: raise ValueError ; self._spread_prob = new *)
Definition np_set_spread_prob (tri : bool) (hasattr : string -> bool) (self : edge) (new_spread_prob : val) : edge * option unit :=
  if val_is_none new_spread_prob then (self, Some tt)
  else
    match check_range 0%Qc 1%Qc new_spread_prob with
    | None => (self, None)
    | Some new_spread_prob =>
        let self := with_spread self new_spread_prob in
        (self, Some tt)
    end.

(** set_micro_mod: the same with a warning (dropped) for arcs that do not use the modifier *)
Definition np_set_micro_mod (tri : bool) (hasattr : string -> bool) (self : edge) (new_micro_mod : val) : edge * option unit :=
  if val_is_none new_micro_mod then (self, Some tt)
  else
    match check_range 0%Qc 1%Qc new_micro_mod with
    | None => (self, None)
    | Some new_micro_mod =>
        let self := with_micro self new_micro_mod in
        (self, Some tt)
    end.

(** Edge.get_params(as_dict=True) *)
Definition np_edge_get_params (tri : bool) (hasattr : string -> bool) (self : edge) : edge * option pdict :=
  if is_growth self then
    match np_get_spread_prob tri hasattr self with
    | (self, None) => (self, None)
    | (self, Some x) =>
        let params := [(["growth"], Leaf x)] in
        (self, Some params)
    end
  else
    match np_get_spread_prob tri hasattr self with
    | (self, None) => (self, None)
    | (self, Some x) =>
        let params := [(["spread"], Leaf x)] in
        match (if tri && negb (is_tumor_spread self) then
                 match np_get_micro_mod tri hasattr self with
                 | (self, None) => (self, None)
                 | (self, Some y) =>
                     let params := kw_set ["micro"] (Leaf y) params in
                     (self, Some params)
                 end
               else (self, Some params)) with
        | (self, None) => (self, None)
        | (self, Some params) => (self, Some params)
        end
    end.

(** Edge.set_params( *args, **kwargs); the three parts are named only to state lemmas about them (the generated term is
    one expression, convertible with [np_edge_set_params] by unfolding them) *)
(** value = self.get_X() if first is None else first *)
Definition np_first_or (get : edge -> edge * option Qc) (first : option val) (self : edge) : edge * option val :=
  match first with
  | None =>
      match get self with
      | (self, None) => (self, None)
      | (self, Some x) => (self, Some (V x))
      end
  | Some first => (self, Some first)
  end.
(** if self.is_growth: self.set_spread_prob(kwargs.get("growth", value)) else: ...("spread", value) *)
Definition np_set_params_spread (tri : bool) (hasattr : string -> bool) (self : edge) (kw : kwargs) (value : val)
  : edge * option unit :=
  if is_growth self then
    match np_set_spread_prob tri hasattr self (kw_get_or ["growth"] kw value) with
    | (self, None) => (self, None)
    | (self, Some _) => (self, Some tt)
    end
  else
    match np_set_spread_prob tri hasattr self (kw_get_or ["spread"] kw value) with
    | (self, None) => (self, None)
    | (self, Some _) => (self, Some tt)
    end.
(** if not isinstance(self.parent, Tumor) and self.parent.is_trinary and not self.is_growth: ... *)
Definition np_set_params_micro (tri : bool) (hasattr : string -> bool) (self : edge) (args1 : args) (kw : kwargs)
  : edge * option args :=
  if negb (is_tumor_spread self) && tri && negb (is_growth self) then
    let '(first, args2) := popfirst args1 in
    match np_first_or (np_get_micro_mod tri hasattr) first self with
    | (self, None) => (self, None)
    | (self, Some value) =>
        match np_set_micro_mod tri hasattr self (kw_get_or ["micro"] kw value) with
        | (self, None) => (self, None)
        | (self, Some _) => (self, Some args2)
        end
    end
  else (self, Some args1).
Definition np_edge_set_params (tri : bool) (hasattr : string -> bool) (self : edge) (args0 : args) (kw : kwargs)
  : edge * option args :=
  let '(first, args1) := popfirst args0 in
  match np_first_or (np_get_spread_prob tri hasattr) first self with
  | (self, None) => (self, None)
  | (self, Some value) =>
      match np_set_params_spread tri hasattr self kw value with
      | (self, None) => (self, None)
      | (self, Some _) =>
          match np_set_params_micro tri hasattr self args1 kw with
          | (self, None) => (self, None)
          | (self, Some args3) => (self, Some args3)
          end
      end
  end.

(** the condition under which an arc carries the micro modifier, as the code spells it *)
Lemma has_micro_code tri e : negb (is_tumor_spread e) && tri && negb (is_growth e) = has_micro tri e.
Proof. unfold has_micro, is_tumor_spread, is_growth, is_lnl_spread. destruct (e_kind e), tri; reflexivity. Qed.
Lemma has_micro_code_get tri e : is_growth e = false -> tri && negb (is_tumor_spread e) = has_micro tri e.
Proof. unfold has_micro, is_tumor_spread, is_growth, is_lnl_spread. destruct (e_kind e), tri; intros H; try reflexivity; discriminate H. Qed.

Lemma np_edge_get_params_eq tri hasattr e :
  hasattr "_spread_prob" = true -> (has_micro tri e = true -> hasattr "_micro_mod" = true) ->
  np_edge_get_params tri hasattr e = (e, Some (edge_get_params tri e)).
Proof.
  intros Hs Hm. unfold np_edge_get_params, edge_get_params, np_get_spread_prob, np_get_micro_mod. rewrite Hs. cbn [negb].
  destruct (is_growth e) eqn:Eg; [reflexivity|].
  rewrite (has_micro_code_get tri e Eg). destruct (has_micro tri e) eqn:Eh; [|reflexivity].
  rewrite (Hm eq_refl). unfold has_micro, is_lnl_spread in Eh. unfold is_tumor_spread.
  destruct tri; [|discriminate Eh]. destruct (e_kind e); try discriminate Eh. reflexivity.
Qed.

Lemma np_first_or_spread tri hasattr first e : hasattr "_spread_prob" = true ->
  np_first_or (np_get_spread_prob tri hasattr) first e = (e, Some (val_or first (e_spread e))).
Proof. intros Hs. unfold np_first_or, np_get_spread_prob. rewrite Hs. destruct first; reflexivity. Qed.

Lemma np_first_or_micro tri hasattr first e : has_micro tri e = true -> hasattr "_micro_mod" = true ->
  np_first_or (np_get_micro_mod tri hasattr) first e = (e, Some (val_or first (e_micro e))).
Proof.
  intros Eh Hm. unfold np_first_or, np_get_micro_mod. rewrite Hm. destruct first as [v|]; [reflexivity|].
  unfold has_micro, is_lnl_spread in Eh. unfold is_tumor_spread.
  destruct tri; [|discriminate Eh]. destruct (e_kind e); try discriminate Eh; reflexivity.
Qed.

Lemma np_set_params_spread_eq tri hasattr e kw value :
  np_set_params_spread tri hasattr e kw value
  = let key := if is_growth e then ["growth"] else ["spread"] in
    match check_unit (kw_get_or key kw value) with
    | None => (e, None)
    | Some s => (with_spread e s, Some tt)
    end.
Proof.
  cbv zeta. unfold np_set_params_spread, np_set_spread_prob. cbn [val_is_none].
  destruct (is_growth e); rewrite check_range_unit;
    match goal with |- context [check_unit ?x] => destruct (check_unit x) end; reflexivity.
Qed.

Lemma np_set_params_micro_eq tri hasattr e a1 kw : (has_micro tri e = true -> hasattr "_micro_mod" = true) ->
  np_set_params_micro tri hasattr e a1 kw
  = if has_micro tri e then
      let '(first2, a2) := popfirst a1 in
      match check_unit (kw_get_or ["micro"] kw (val_or first2 (e_micro e))) with
      | None => (e, None)
      | Some m => (with_micro e m, Some a2)
      end
    else (e, Some a1).
Proof.
  intros Hm. unfold np_set_params_micro. rewrite has_micro_code. destruct (has_micro tri e) eqn:Eh; [|reflexivity].
  destruct (popfirst a1) as [first2 a2]. rewrite (np_first_or_micro tri hasattr first2 e Eh (Hm eq_refl)).
  unfold np_set_micro_mod. cbn [val_is_none]. rewrite check_range_unit.
  match goal with |- context [check_unit ?x] => destruct (check_unit x) end; reflexivity.
Qed.

Lemma np_edge_set_params_eq tri hasattr e a kw :
  hasattr "_spread_prob" = true -> (has_micro tri e = true -> hasattr "_micro_mod" = true) ->
  np_edge_set_params tri hasattr e a kw = edge_set_params tri e a kw.
Proof.
  intros Hs Hm. unfold np_edge_set_params, edge_set_params.
  destruct (popfirst a) as [first a1]. cbv zeta.
  rewrite (np_first_or_spread tri hasattr first e Hs), np_set_params_spread_eq. cbv zeta.
  match goal with |- context [check_unit ?x] => destruct (check_unit x) as [s|] end; [|reflexivity].
  rewrite np_set_params_micro_eq by exact Hm.
  change (has_micro tri (with_spread e s)) with (has_micro tri e).
  destruct (has_micro tri e); [|reflexivity].
  destruct (popfirst a1) as [first2 a2]. change (e_micro (with_spread e s)) with (e_micro e).
  match goal with |- context [check_unit ?x] => destruct (check_unit x) end; reflexivity.
Qed.

(** * utils.set_params_for / utils.get_params_from: loops over a dict of objects *)
(** for key, obj in objects.items(): BODY, where BODY may change the object [obj] in place, rebinds the loop-carried
    variable(s) [a] and may raise: the dict [objects] with the objects as Python leaves them, and [None] when an
    iteration raised (the remaining objects are then untouched) *)
Fixpoint py_for_items {O A} (body : string -> O -> A -> O * option A) (objects : list (string * O)) (a : A)
  : list (string * O) * option A :=
  match objects with
  | [] => ([], Some a)
  | (key, obj) :: rest =>
      match body key obj a with
      | (obj, None) => ((key, obj) :: rest, None)
      | (obj, Some a) => let '(rest, r) := py_for_items body rest a in ((key, obj) :: rest, r)
      end
  end.

(** utils.set_params_for(objects, *args, **kwargs), generic in the class of the objects ([set_params] = its method) *)
Definition np_set_params_for {O} (set_params : O -> args -> kwargs -> O * option args)
    (objects : list (string * O)) (args0 : args) (kwargs0 : kwargs) : list (string * O) * option args :=
  let '(kwargs1, global_kwargs) := unflatten_and_split kwargs0 (map fst objects) in
  match py_for_items (fun key obj args1 =>
            let obj_kwargs := global_kwargs in
            let obj_kwargs := kw_update (sub_kwargs key kwargs1) obj_kwargs in
            match set_params obj args1 obj_kwargs with
            | (obj, None) => (obj, None)
            | (obj, Some args2) => (obj, Some args2)
            end) objects args0 with
  | (objects, None) => (objects, None)
  | (objects, Some args3) => (objects, Some args3)
  end.

(** the dict [graph.edges]: name -> Edge *)
Definition edge_objects (es : list edge) : list (string * edge) := map (fun e => (e_name e, e)) es.
Lemma edge_objects_keys es : map fst (edge_objects es) = map e_name es.
Proof. unfold edge_objects. rewrite map_map. reflexivity. Qed.
Lemma edge_objects_values es : map snd (edge_objects es) = es.
Proof. unfold edge_objects. rewrite map_map. apply map_id. Qed.

Lemma py_for_items_set_edges tri split glob es : forall a,
  py_for_items (fun key obj a1 => edge_set_params tri obj a1 (obj_kwargs key split glob)) (edge_objects es) a
  = let '(es', o) := set_edges_for tri sel_all split glob es a in (edge_objects es', o).
Proof.
  induction es as [|e r IH]; intros a; [reflexivity|].
  cbn [edge_objects map py_for_items set_edges_for sel_all]. fold (edge_objects r).
  pose proof (edge_set_params_shape tri e a (obj_kwargs (e_name e) split glob)) as [Hn _].
  destruct (edge_set_params tri e a (obj_kwargs (e_name e) split glob)) as [e' [a'|]]; cbn [fst] in Hn.
  - rewrite IH. destruct (set_edges_for tri sel_all split glob r a') as [r' o].
    cbn [edge_objects map]. rewrite Hn. reflexivity.
  - cbn [edge_objects map]. rewrite Hn. reflexivity.
Qed.

Lemma py_for_items_ext {O A} (f g : string -> O -> A -> O * option A) : (forall k o a, f k o a = g k o a) ->
  forall objs a, py_for_items f objs a = py_for_items g objs a.
Proof.
  intros H objs. induction objs as [|[k o] r IH]; intros a; [reflexivity|]. cbn [py_for_items]. rewrite H.
  destruct (g k o a) as [o' [a'|]]; [rewrite IH|]; reflexivity.
Qed.

(** [set_params_for(graph.edges, *args, **kwargs)] is the model's loop over all the edges *)
Lemma np_set_params_for_edges tri es a kw :
  np_set_params_for (edge_set_params tri) (edge_objects es) a kw
  = let '(split, glob) := unflatten_and_split kw (map e_name es) in
    let '(es', o) := set_edges_for tri sel_all split glob es a in
    (edge_objects es', o).
Proof.
  unfold np_set_params_for. rewrite edge_objects_keys.
  destruct (unflatten_and_split kw (map e_name es)) as [split glob].
  rewrite (py_for_items_ext _ (fun key obj a1 => edge_set_params tri obj a1 (obj_kwargs key split glob))).
  - rewrite py_for_items_set_edges. destruct (set_edges_for tri sel_all split glob es a) as [es' [a'|]]; reflexivity.
  - intros k o a1. cbv zeta. unfold obj_kwargs.
    destruct (edge_set_params tri o a1 (kw_update (sub_kwargs k split) glob)) as [o' [a'|]]; reflexivity.
Qed.

Lemma filter_sel_all es : filter sel_all es = es.
Proof. induction es as [|e r IH]; [reflexivity|]. cbn [filter sel_all]. rewrite IH. reflexivity. Qed.

(** graph.Representation.set_params = set_params_for(self.edges, *args, **kwargs) *)
Lemma np_set_params_for_graph g a kw :
  (let '(objs, o) := np_set_params_for (edge_set_params (g_tri g)) (edge_objects (g_edges g)) a kw in
   (with_edges g (map snd objs), o)) = graph_set_params g a kw.
Proof.
  rewrite np_set_params_for_edges. unfold graph_set_params, graph_set_params_sel. rewrite filter_sel_all.
  destruct (unflatten_and_split kw (map e_name (g_edges g))) as [split glob].
  destruct (set_edges_for (g_tri g) sel_all split glob (g_edges g) a) as [es' o].
  rewrite edge_objects_values. reflexivity.
Qed.

(** * utils.flatten: the recursion on nested dicts, with a depth bound *)
(** [if parent_key] on a key read as a path *)
Definition path_nonempty (p : path) : bool := match p with [] => false | _ :: _ => true end.

(** utils.flatten(mapping, parent_key, sep="_"), statement by statement; [f"{parent_key}{sep}{k}"] is [parent_key ++ k],
    [isinstance(v, dict)] is the case distinction on the tree, [items.extend(d.items())] / [items.append((k, v))] append to
    the list of items and [dict(items)] is [dict_of].  The recursive call consumes [fuel]: [np_flatten (S n)] is exact on
    dicts nested at most [n] levels deep (with [O] the function is not meaningful). *)
Fixpoint np_flatten (fuel : nat) (mapping : pdict) (parent_key : path) : pdict :=
  match fuel with
  | O => []
  | S fuel =>
      let items := ([] : pdict) in
      let items :=
        fold_left (fun (items : pdict) '((k, v) : path * ptree) =>
            let new_key := if path_nonempty parent_key then parent_key ++ k else k in
            match v with
            | Node v => let items := items ++ np_flatten fuel v new_key in items
            | Leaf v => let items := items ++ [(new_key, Leaf v)] in items
            end) mapping items in
      dict_of items
  end.

Lemma new_key_app (p k : path) : (if path_nonempty p then p ++ k else k) = p ++ k.
Proof. destruct p; reflexivity. Qed.

Lemma fold_left_app_flat_map {A B} (F : A -> list B) l : forall acc,
  fold_left (fun acc x => acc ++ F x) l acc = acc ++ flat_map F l.
Proof.
  induction l as [|x l IH]; intros acc; cbn [fold_left flat_map]; [rewrite app_nil_r; reflexivity|].
  rewrite IH, app_assoc. reflexivity.
Qed.

Lemma NoDup_map_app_path (p : path) (l : list path) : NoDup l -> NoDup (map (app p) l).
Proof.
  induction l as [|a l IH]; cbn [map]; intros H; [constructor|].
  apply NoDup_cons_iff in H. destruct H as [Hni H]. constructor; [|apply IH; exact H].
  intros Hin. apply in_map_iff in Hin. destruct Hin as [x [Hx Hin]]. apply app_inv_head in Hx. subst. contradiction.
Qed.

(** one level: a dict of numbers with distinct keys, seen under the key [p] *)
Lemma np_flatten_leaves fuel l p : NoDup (map fst l) -> np_flatten (S fuel) (leaves l) p = leaves (pre p l).
Proof.
  intros Hnd. cbn [np_flatten]. cbv zeta.
  rewrite (fold_left_ext _ (fun acc (kv : path * ptree) =>
             acc ++ match snd kv with Node v => np_flatten fuel v (p ++ fst kv) | Leaf v => [(p ++ fst kv, Leaf v)] end)).
  2:{ intros acc [k v]. cbn [fst snd]. rewrite new_key_app. destruct v; reflexivity. }
  rewrite fold_left_app_flat_map. cbn [app].
  assert (E : flat_map (fun kv : path * ptree =>
                 match snd kv with Node v => np_flatten fuel v (p ++ fst kv) | Leaf v => [(p ++ fst kv, Leaf v)] end) (leaves l)
              = leaves (pre p l)).
  { clear Hnd. induction l as [|[k v] l IH]; [reflexivity|]. unfold leaves, pre, prefix in *.
    cbn [map flat_map fst snd app]. rewrite IH. reflexivity. }
  rewrite E. apply dict_of_NoDup_id. rewrite leaves_keys, pre_keys. apply NoDup_map_app_path, Hnd.
Qed.

(** dicts nested at most one level deep whose inner dicts have distinct keys: what get_params_from builds from objects
    whose get_params returns a flat dict *)
Definition depth1 (d : pdict) : Prop :=
  Forall (fun kt : path * ptree =>
            match snd kt with Leaf _ => True | Node cs => exists l, cs = leaves l /\ NoDup (map fst l) end) d.

Lemma np_flatten_depth1 fuel d : depth1 d -> np_flatten (S (S fuel)) d [] = flatten d.
Proof.
  intros Hd. unfold flatten. change (np_flatten (S (S fuel)) d []) with
    (dict_of (fold_left (fun (items : pdict) '((k, v) : path * ptree) =>
            let new_key := if path_nonempty [] then [] ++ k else k in
            match v with
            | Node v => let items := items ++ np_flatten (S fuel) v new_key in items
            | Leaf v => let items := items ++ [(new_key, Leaf v)] in items
            end) d [])).
  f_equal.
  rewrite (fold_left_ext _ (fun acc (kv : path * ptree) =>
             acc ++ match snd kv with Node v => np_flatten (S fuel) v (fst kv) | Leaf v => [(fst kv, Leaf v)] end)).
  2:{ intros acc [k v]. cbn [fst snd path_nonempty]. destruct v; reflexivity. }
  rewrite fold_left_app_flat_map. cbn [app].
  induction Hd as [|[k t] d Hk Hd IH]; [reflexivity|].
  cbn [flat_map fst snd]. rewrite flat_items_dict_cons, leaves_app, IH. f_equal.
  destruct t as [v|cs]; [reflexivity|]. cbn [snd] in Hk. destruct Hk as [l [-> Hnd]].
  rewrite np_flatten_leaves by exact Hnd. rewrite flat_items_key_node, flat_items_dict_leaves. reflexivity.
Qed.

(** utils.get_params_from(objects, as_dict=True, as_flat), generic in the class of the objects; [fuel] bounds the
    recursion of [flatten] *)
Definition np_get_params_from {O} (fuel : nat) (get_params : O -> bool -> O * option pdict)
    (objects : list (string * O)) (as_flat : bool) : list (string * O) * option pdict :=
  let params := ([] : pdict) in
  match py_for_items (fun key obj params =>
            match get_params obj as_flat with
            | (obj, None) => (obj, None)
            | (obj, Some x) =>
                let params := kw_set [key] (Node x) params in
                (obj, Some params)
            end) objects params with
  | (objects, None) => (objects, None)
  | (objects, Some params) =>
      match (if as_flat || negb true then
               let params := np_flatten fuel params [] in
               (objects, Some params)
             else (objects, Some params)) with
      | (objects, None) => (objects, None)
      | (objects, Some params) => (objects, Some params)
      end
  end.

Lemma py_for_items_get_edges (f : edge -> pdict) es : forall d,
  py_for_items (fun key (obj : edge) params => (obj, Some (kw_set [key] (Node (f obj)) params))) (edge_objects es) d
  = (edge_objects es, Some (fold_left (fun d e => kw_set [e_name e] (Node (f e)) d) es d)).
Proof.
  induction es as [|e r IH]; intros d; [reflexivity|].
  cbn [edge_objects map py_for_items fold_left]. fold (edge_objects r). rewrite IH. reflexivity.
Qed.

Lemma depth1_kw_set k cs d : depth1 d -> (exists l, cs = leaves l /\ NoDup (map fst l)) -> depth1 (kw_set k (Node cs) d).
Proof.
  intros Hd Hc. induction Hd as [|[k' t] d Hk Hd IH]; cbn [kw_set].
  - constructor; [exact Hc | constructor].
  - destruct (path_eqb k k'); constructor; try assumption; try exact Hc.
Qed.
Lemma edge_get_params_flat tri e : exists l, edge_get_params tri e = leaves l /\ NoDup (map fst l).
Proof.
  unfold edge_get_params. destruct (is_growth e); [|destruct (has_micro tri e)].
  - exists [(["growth"], e_spread e)]. split; [reflexivity|]. repeat constructor. intros [].
  - exists [(["spread"], e_spread e); (["micro"], e_micro e)]. split; [reflexivity|].
    repeat constructor; cbn [In map fst]; [intros [H|[]]; discriminate H | intros []].
  - exists [(["spread"], e_spread e)]. split; [reflexivity|]. repeat constructor. intros [].
Qed.
Lemma depth1_edges tri es : forall d, depth1 d ->
  depth1 (fold_left (fun d e => kw_set [e_name e] (Node (edge_get_params tri e)) d) es d).
Proof.
  induction es as [|e r IH]; intros d Hd; [exact Hd|]. cbn [fold_left]. apply IH, depth1_kw_set; [exact Hd | apply edge_get_params_flat].
Qed.

(** [get_params_from(graph.edges, as_flat=...)] leaves the edges as they are and returns the model's dict, for every
    [get_params] that behaves like Edge.get_params (piece edge_get_params: state unchanged, the model's value) and every
    recursion bound of at least 2 (the dict of the edges' dicts is nested one level deep) *)
Lemma np_get_params_from_edges tri fuel (get_params : edge -> bool -> edge * option pdict) es as_flat :
  (forall e fl, In e es -> get_params e fl = (e, Some (edge_get_params tri e))) ->
  np_get_params_from (S (S fuel)) get_params (edge_objects es) as_flat
  = (edge_objects es, Some (edges_get_params tri es as_flat)).
Proof.
  intros H. unfold np_get_params_from, edges_get_params. cbv zeta.
  assert (E : forall d, py_for_items (fun key obj params =>
            match get_params obj as_flat with
            | (obj, None) => (obj, None)
            | (obj, Some x) => (obj, Some (kw_set [key] (Node x) params))
            end) (edge_objects es) d
          = py_for_items (fun key (obj : edge) params => (obj, Some (kw_set [key] (Node (edge_get_params tri obj)) params)))
              (edge_objects es) d).
  { clear -H. induction es as [|e r IH]; intros d; [reflexivity|].
    cbn [edge_objects map py_for_items]. fold (edge_objects r).
    rewrite (H e as_flat (or_introl eq_refl)). rewrite IH by (intros e' fl Hin; apply H; right; exact Hin). reflexivity. }
  rewrite E, py_for_items_get_edges. destruct as_flat; [|reflexivity].
  cbn [orb maybe_flatten]. rewrite np_flatten_depth1 by (apply depth1_edges; constructor). reflexivity.
Qed.
