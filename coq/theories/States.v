(** States: hidden states / observations as digit lists in [itertools.product]
    order (last position fastest), numpy [tile]/[repeat] on 1-D lists, the column
    that [utils.get_state_idx_matrix] builds, and the central combinatorial lemma
    "sum over all states of a product of per-position factors = product of the
    per-position sums". *)
From LymphModel Require Import Base.
Local Open Scope nat_scope.

Definition state := list nat.

(** graph.Representation._gen_state_list: list(itertools.product of the allowed-state lists) *)
Fixpoint all_states (b n : nat) : list state :=
  match n with
  | O => [[]]
  | S n' => flat_map (fun d => map (cons d) (all_states b n')) (seq 0 b)
  end.

Lemma flat_map_length_const {A B} (f : A -> list B) (l : list A) m :
  (forall a, In a l -> length (f a) = m) -> length (flat_map f l) = length l * m.
Proof.
  induction l as [|a l IH]; intros H; cbn [flat_map length]; [reflexivity|].
  rewrite app_length, H by (left; reflexivity). rewrite IH; [lia|].
  intros a' Ha'. apply H. right. exact Ha'.
Qed.

Lemma all_states_length b n : length (all_states b n) = b ^ n.
Proof.
  induction n as [|n IH]; cbn [all_states]; [reflexivity|].
  rewrite flat_map_length_const with (m := b ^ n).
  - rewrite seq_length. cbn [Nat.pow]. lia.
  - intros a _. rewrite map_length. exact IH.
Qed.

Lemma all_states_In b n x :
  In x (all_states b n) <-> length x = n /\ Forall (fun d => d < b) x.
Proof.
  revert x. induction n as [|n IH]; intros x; cbn [all_states].
  - split.
    + intros [<-|[]]. split; [reflexivity|constructor].
    + intros [Hl _]. destruct x; [left; reflexivity|discriminate].
  - rewrite in_flat_map. split.
    + intros [d [Hd Hx]]. apply in_map_iff in Hx. destruct Hx as [y [<- Hy]].
      apply IH in Hy. destruct Hy as [Hl Hf]. apply in_seq in Hd. split.
      * cbn. lia.
      * constructor; [lia|exact Hf].
    + intros [Hl Hf]. destruct x as [|d y]; [discriminate|].
      inversion Hf as [|? ? Hd Hy]; subst. exists d. split.
      * apply in_seq. lia.
      * apply in_map. apply IH. split; [cbn in Hl; lia|exact Hy].
Qed.


(** * numpy tile / repeat on 1-D lists *)
Fixpoint tile {A} (k : nat) (l : list A) : list A :=
  match k with O => [] | S k' => l ++ tile k' l end.
Definition repeat_each {A} (k : nat) (l : list A) : list A := flat_map (fun a => repeat a k) l.

Lemma tile_app {A} a c (l : list A) : tile (a + c) l = tile a l ++ tile c l.
Proof. induction a as [|a IH]; cbn [tile Nat.add]; [reflexivity|]. rewrite IH, app_assoc. reflexivity. Qed.
Lemma tile_tile {A} a c (l : list A) : tile a (tile c l) = tile (a * c) l.
Proof. induction a as [|a IH]; cbn [tile Nat.mul]; [reflexivity|]. rewrite IH, tile_app. reflexivity. Qed.
Lemma repeat_each_app {A} k (l1 l2 : list A) :
  repeat_each k (l1 ++ l2) = repeat_each k l1 ++ repeat_each k l2.
Proof. unfold repeat_each. apply flat_map_app. Qed.
Lemma tile_repeat_each {A} a k (l : list A) : tile a (repeat_each k l) = repeat_each k (tile a l).
Proof. induction a as [|a IH]; cbn [tile]; [reflexivity|]. rewrite repeat_each_app, IH. reflexivity. Qed.
Lemma tile_length {A} k (l : list A) : length (tile k l) = k * length l.
Proof. induction k as [|k IH]; cbn [tile Nat.mul]; [reflexivity|]. rewrite app_length, IH. reflexivity. Qed.
Lemma repeat_each_length {A} k (l : list A) : length (repeat_each k l) = length l * k.
Proof. unfold repeat_each. apply flat_map_length_const. intros a _. apply repeat_length. Qed.

Lemma map_flat_map {A B C} (g : B -> C) (f : A -> list B) l :
  map g (flat_map f l) = flat_map (fun a => map g (f a)) l.
Proof. induction l as [|a l IH]; cbn [flat_map map]; [reflexivity|]. rewrite map_app, IH. reflexivity. Qed.
Lemma map_const_repeat {A B} (c : B) (l : list A) : map (fun _ => c) l = repeat c (length l).
Proof. induction l as [|a l IH]; cbn [map length repeat]; [reflexivity|]. rewrite IH. reflexivity. Qed.
Lemma flat_map_const_tile {A B} (l : list A) (r : list B) : flat_map (fun _ => r) l = tile (length l) r.
Proof. induction l as [|a l IH]; cbn [flat_map length tile]; [reflexivity|]. rewrite IH. reflexivity. Qed.

(** The digit of LNL [k] in a state. *)
Definition digit (k : nat) (x : state) : nat := nth k x 0.

(** utils.get_state_idx_matrix(lnl_idx=k, num_lnls=n, num_states=b): every
    column of that matrix equals this list (np.tile of arange(b) along axis 0
    by b^k, then np.repeat by b^(n-k-1)). *)
Definition state_idx_col (k n b : nat) : list nat :=
  repeat_each (b ^ (n - k - 1)) (tile (b ^ k) (seq 0 b)).

Lemma digits_of_all_states b n k : k < n ->
  map (digit k) (all_states b n) = state_idx_col k n b.
Proof.
  revert k. induction n as [|n IH]; intros k Hk; [lia|].
  cbn [all_states]. rewrite map_flat_map. unfold state_idx_col.
  destruct k as [|k].
  - replace (S n - 0 - 1) with n by lia. cbn [Nat.pow tile]. rewrite app_nil_r.
    unfold repeat_each. apply flat_map_ext. intros d.
    rewrite map_map. unfold digit. cbn [nth]. rewrite map_const_repeat, all_states_length. reflexivity.
  - replace (S n - S k - 1) with (n - k - 1) by lia.
    rewrite (flat_map_ext _ (fun _ => map (digit k) (all_states b n))).
    2:{ intros d. rewrite map_map. reflexivity. }
    rewrite IH by lia. rewrite flat_map_const_tile, seq_length. unfold state_idx_col.
    rewrite tile_repeat_each, tile_tile. cbn [Nat.pow]. reflexivity.
Qed.

(** * Product of per-position factors, and its sum over all states *)
Open Scope Qc_scope.
Fixpoint prod_over (fs : list (nat -> Qc)) (x : state) : Qc :=
  match fs, x with f :: fs', d :: x' => f d * prod_over fs' x' | _, _ => 1 end.

Lemma sum_prod_states b (fs : list (nat -> Qc)) :
  sumQ (map (prod_over fs) (all_states b (length fs)))
  = prodQ (map (fun f => sumQ (map f (seq 0 b))) fs).
Proof.
  induction fs as [|f fs IH]; cbn [length all_states map prodQ sumQ].
  - cbn [prod_over]. ring.
  - rewrite <- IH.
    rewrite flat_map_concat_map, concat_map, map_map, <- flat_map_concat_map, sumQ_flat_map.
    rewrite Qcmult_comm, <- sumQ_map_scale.
    apply sumQ_map_ext. intros d _.
    rewrite map_map. cbn [prod_over]. rewrite sumQ_map_scale. apply Qcmult_comm.
Qed.

(** [prod_over] as a product over positions. *)
Lemma prod_over_spec fs x : length x = length fs ->
  prod_over fs x = prodQ (map (fun '(f, d) => f d) (combine fs x)).
Proof.
  revert x. induction fs as [|f fs IH]; intros [|d x] H; try discriminate; cbn [prod_over combine map prodQ]; [reflexivity|].
  rewrite IH by (cbn in H; lia). reflexivity.
Qed.
